/-
Lemmas.Termination — static well-foundedness of a generated module and the termination argument
(property C11, second half).

Definitions (all computable):
* `nullable nul node`   conservative "may succeed without consuming input"
* `heads nul sid node`  rule ids reachable at the node's own start position; `sid` is a pseudo id
                        standing for the skip type `G.skipped` (we use `G.rules.length`, which is
                        not a rule), emitted wherever an implicit skip may run at the start position
* `repsOK nul node`     every unbounded repetition / `AtomicRepeat` body inside the node is non-nullable
* `NulOK`, `NoLeftRecBy`, `NoLeftRec`, `Progressing`   the three hypotheses on a `NodeGrammar`
* `depthN`, `maxDepth`, `rankBound`, `fuelBound`        the explicit fuel bound
* `wfCheck`             a decision procedure that computes candidate `nul` / `rank` and checks the
                        three hypotheses (`wfCheck_sound`); used by the driver (`Driver/WF.lean`)

Lemmas: `nullable_sound` (a non-nullable node strictly consumes when it succeeds) and
`parse_ne_oof` (lexicographic induction on remaining length, rank, fuel) with its corollaries.
-/
import PestTyped.Lemmas.CursorRun
import PestTyped.Lemmas.Mono
namespace PestTyped

/-! ### static analysis -/

mutual
/-- Conservative "may succeed without consuming": `nul r` is the assumption for rule `r`. -/
def nullable (nul : RuleId → Bool) : Node → Bool
  | .str s => s.isEmpty
  | .insens s => s.isEmpty
  | .range _ _ => false
  | .any => false
  | .soi => true
  | .eoi => true
  | .newline => false
  | .charBy _ => false
  | .skipUntil _ => true
  | .skipChars n => n == 0
  | .seq _ items => nullableAll nul items
  | .choice alts => nullableAny nul alts
  | .opt _ => true
  | .rep _ min _ n => min == 0 || nullable nul n
  | .atomicRepeat _ => true
  | .pos _ => true
  | .neg _ => true
  | .push n => nullable nul n
  | .peek => true
  | .peekAll => true
  | .pop => true
  | .popAll => true
  | .drop => true
  | .peekSlice _ _ => true
  | .ref r _ => nul r
  | .array k n => k == 0 || nullable nul n
  | .pair a b => nullable nul a && nullable nul b
  | .empty => true
  | .alwaysFail => false
def nullableAll (nul : RuleId → Bool) : List Node → Bool
  | [] => true
  | n :: ns => nullable nul n && nullableAll nul ns
def nullableAny (nul : RuleId → Bool) : List Node → Bool
  | [] => false
  | n :: ns => nullable nul n || nullableAny nul ns
end

/-- The pseudo rule id of the skip type, when an implicit skip with this flag may run. -/
def skipHead (sid : RuleId) : Flag → List RuleId
  | .zero => []
  | _ => [sid]

mutual
/-- Rule ids (and `sid` for the skip type) that may be entered at the node's own start position. -/
def heads (nul : RuleId → Bool) (sid : RuleId) : Node → List RuleId
  | .seq sk items => headsSeq nul sid sk items
  | .choice alts => headsAll nul sid alts
  | .opt n => heads nul sid n
  | .rep sk _ _ n => heads nul sid n ++ (if nullable nul n then skipHead sid sk else [])
  | .atomicRepeat n => heads nul sid n
  | .pos n => heads nul sid n
  | .neg n => heads nul sid n
  | .push n => heads nul sid n
  | .ref r _ => [r]
  | .array _ n => heads nul sid n
  | .pair a b => heads nul sid a ++ (if nullable nul a then heads nul sid b else [])
  | _ => []
/-- First element; while the prefix is nullable: the skip between elements, then the next element. -/
def headsSeq (nul : RuleId → Bool) (sid : RuleId) (sk : Flag) : List Node → List RuleId
  | [] => []
  | n :: ns => heads nul sid n ++ (if nullable nul n then skipHead sid sk ++ headsSeq nul sid sk ns else [])
def headsAll (nul : RuleId → Bool) (sid : RuleId) : List Node → List RuleId
  | [] => []
  | n :: ns => heads nul sid n ++ headsAll nul sid ns
end

mutual
/-- Every unbounded repetition body (`max = none`, and every `AtomicRepeat` body) inside the node is
non-nullable; a bounded repetition may have a nullable body. -/
def repsOK (nul : RuleId → Bool) : Node → Bool
  | .seq _ items => repsOKAll nul items
  | .choice alts => repsOKAll nul alts
  | .opt n => repsOK nul n
  | .rep _ _ max n => (max.isSome || !nullable nul n) && repsOK nul n
  | .atomicRepeat n => !nullable nul n && repsOK nul n
  | .pos n => repsOK nul n
  | .neg n => repsOK nul n
  | .push n => repsOK nul n
  | .array _ n => repsOK nul n
  | .pair a b => repsOK nul a && repsOK nul b
  | _ => true
def repsOKAll (nul : RuleId → Bool) : List Node → Bool
  | [] => true
  | n :: ns => repsOK nul n && repsOKAll nul ns
end

mutual
/-- Nesting depth of a type expression (leaves have depth 1), plus the maxima of its bounded
repetitions (their loops need that many iterations of budget). -/
def depthN : Node → Nat
  | .seq _ items => depthNList items + 1
  | .choice alts => depthNList alts + 1
  | .opt n => depthN n + 1
  | .rep _ _ max n => depthN n + 1 + max.getD 0
  | .atomicRepeat n => depthN n + 1
  | .pos n => depthN n + 1
  | .neg n => depthN n + 1
  | .push n => depthN n + 1
  | .array _ n => depthN n + 1
  | .pair a b => max (depthN a) (depthN b) + 1
  | _ => 1
def depthNList : List Node → Nat
  | [] => 0
  | n :: ns => max (depthN n) (depthNList ns)
end

/-- The pseudo rule id used for the skip type of `G`. -/
def NodeGrammar.sid (G : NodeGrammar) : RuleId := G.rules.length

/-- `nul` is a post-fixpoint: a rule whose body is nullable is assumed nullable. -/
def NulOK (G : NodeGrammar) (nul : RuleId → Bool) : Prop :=
  ∀ r d, G.rule? r = some d → nullable nul d.body = true → nul r = true

/-- `rank` strictly decreases along every head edge (rule → rule, rule → skip type, skip type → rule). -/
def NoLeftRecBy (G : NodeGrammar) (nul : RuleId → Bool) (rank : RuleId → Nat) : Prop :=
  (∀ r d, G.rule? r = some d → ∀ r' ∈ heads nul G.sid d.body, rank r' < rank r) ∧
  (∀ r' ∈ heads nul G.sid G.skipped, rank r' < rank G.sid)

def NoLeftRec (G : NodeGrammar) (nul : RuleId → Bool) : Prop := ∃ rank, NoLeftRecBy G nul rank

/-- Every repetition body in a rule body and in the skip type is non-nullable. -/
def Progressing (G : NodeGrammar) (nul : RuleId → Bool) : Prop :=
  (∀ r d, G.rule? r = some d → repsOK nul d.body = true) ∧ repsOK nul G.skipped = true

/-- Largest nesting depth of a rule body or of the skip type. -/
def maxDepth (G : NodeGrammar) : Nat :=
  G.rules.foldr (fun d acc => max (depthN d.body) acc) (depthN G.skipped)

/-- One more than the largest rank of a rule id `≤ G.rules.length` (the skip type included). -/
def rankBound (G : NodeGrammar) (rank : RuleId → Nat) : Nat :=
  (List.range (G.rules.length + 1)).foldr (fun r acc => max (rank r) acc) 0 + 1

/-- Fuel that suffices for a node of depth `d` on an input with `L` characters left. -/
def fuelBound (G : NodeGrammar) (rank : RuleId → Nat) (L d : Nat) : Nat :=
  (L * (rankBound G rank + 1) + rankBound G rank + 1) * (maxDepth G + 1) + d

/-! ### strict consumption -/

theorem Inp.Adv.len_le {i i' : Inp} (h : i.Adv i') : i'.rest.length ≤ i.rest.length := by
  obtain ⟨k, _, rfl⟩ := h; simp [Inp.adv]

theorem Inp.adv_len_lt (i : Inp) (k : Nat) (hk : 0 < k) (hle : k ≤ i.rest.length) :
    (i.adv k).rest.length < i.rest.length := by
  simp [Inp.adv]; omega

/-- A function whose successful results strictly consume input. -/
def StrictFn {α} (f : Inp → M → R α) : Prop :=
  ∀ i m i' m' a, f i m = .ok i' m' a → i'.rest.length < i.rest.length

theorem Inp.matchString_lt {s : List Char} {i i' : Inp} (h : i.matchString s = some i') (hs : s ≠ []) :
    i'.rest.length < i.rest.length := by
  unfold Inp.matchString at h
  split at h
  · next hp =>
    injection h with h; subst h
    have hle := (List.isPrefixOf_iff_prefix.mp hp).length_le
    exact Inp.adv_len_lt i _ (List.length_pos_iff.mpr hs) hle
  · cases h

theorem takeBytes_blen_eq : ∀ (n : Nat) (l p : List Char), takeBytes n l = some p → blen p = n := by
  intro n l
  induction l generalizing n with
  | nil => intro p h; simp [takeBytes] at h; obtain ⟨h0, rfl⟩ := h; simp [blen, h0]
  | cons c cs ih =>
    intro p h
    unfold takeBytes at h
    split at h
    · next h0 => injection h with h; subst h; simp [blen, h0]
    · split at h
      · next hle =>
        cases hr : takeBytes (n - c.utf8Size) cs with
        | none => simp [hr] at h
        | some q =>
          simp [hr] at h; subst h
          have := ih _ _ hr
          simp [blen, this]; omega
      · cases h

theorem blen_pos {s : List Char} (hs : s ≠ []) : 0 < blen s := by
  cases s with
  | nil => exact absurd rfl hs
  | cons c cs => simp only [blen]; have := Char.utf8Size_pos c; omega

theorem Inp.matchInsens_lt {s : List Char} {i i' : Inp} (h : i.matchInsens s = some i') (hs : s ≠ []) :
    i'.rest.length < i.rest.length := by
  unfold Inp.matchInsens at h
  split at h
  · next p hp =>
    split at h
    · injection h with h; subst h
      have hb := takeBytes_blen_eq _ _ _ hp
      have hpos := blen_pos hs
      have hpne : p ≠ [] := by
        intro hp0; subst hp0; simp [blen] at hb; omega
      exact Inp.adv_len_lt i _ (List.length_pos_iff.mpr hpne) (takeBytes_prefix _ _ _ hp).length_le
    · cases h
  · cases h

theorem Inp.matchCharBy_lt {p : Char → Bool} {i i' : Inp} {c : Char}
    (h : i.matchCharBy p = some (i', c)) : i'.rest.length < i.rest.length := by
  unfold Inp.matchCharBy at h
  split at h
  · cases h
  · next c' cs hr =>
    split at h
    · injection h with h; injection h with h1 h2; subst h1
      exact Inp.adv_len_lt i 1 (by omega) (by simp [hr])
    · cases h

theorem newlineMatch_lt {i i' : Inp} {k : Nat} (h : newlineMatch i = some (i', k)) :
    i'.rest.length < i.rest.length := by
  unfold newlineMatch at h
  split at h
  · next h1 => injection h with h; injection h with h2 _; subst h2; exact Inp.matchString_lt h1 (by simp)
  · split at h
    · next h1 => injection h with h; injection h with h2 _; subst h2; exact Inp.matchString_lt h1 (by simp)
    · split at h
      · next h1 => injection h with h; injection h with h2 _; subst h2; exact Inp.matchString_lt h1 (by simp)
      · cases h

theorem Inp.skipN_lt {n : Nat} {i i' : Inp} (h : i.skipN n = some i') (hn : 0 < n) :
    i'.rest.length < i.rest.length := by
  unfold Inp.skipN at h
  split at h
  · next hle => injection h with h; subst h; exact Inp.adv_len_lt i n hn hle
  · cases h

theorem seqLoop_strict {α β} (nul : RuleId → Bool) (f : Node → Inp → M → R α) (skip : Inp → M → R (List β))
    (mk : List β → α → α) (hf : ∀ n, AdvFn (f n)) (hs : AdvFn skip)
    (hst : ∀ n, nullable nul n = false → StrictFn (f n)) :
    ∀ ns, nullableAll nul ns = false →
      ∀ i m acc i' m' a, seqLoop f skip mk ns i m acc = .ok i' m' a → i'.rest.length < i.rest.length := by
  intro ns
  induction ns with
  | nil => intro h; simp [nullableAll] at h
  | cons n ns ih =>
    intro hn i m acc i' m' a h
    unfold seqLoop at h
    split at h
    · cases h
    · cases h
    · next i1 m1 sk h1 =>
      split at h
      · cases h
      · cases h
      · next i2 m2 a2 h2 =>
        have e1 := (hs _ _ _ _ _ h1).len_le
        have e2 := (hf n _ _ _ _ _ h2).len_le
        cases hx : nullable nul n with
        | false =>
          have s2 := hst n hx _ _ _ _ _ h2
          have e3 := (seqLoop_adv f skip mk hf hs _ _ _ _ _ _ _ h).len_le
          omega
        | true =>
          simp only [nullableAll, hx, Bool.true_and] at hn
          have s3 := ih hn _ _ _ _ _ _ h
          omega

theorem choiceLoop_strict {α} (nul : RuleId → Bool) (f : Node → Inp → M → R α)
    (hst : ∀ n, nullable nul n = false → StrictFn (f n)) :
    ∀ ns, nullableAny nul ns = false →
      ∀ k i m i' m' a, choiceLoop f ns k i m = .ok i' m' a → i'.rest.length < i.rest.length := by
  intro ns
  induction ns with
  | nil => intro _ k i m i' m' a h; simp [choiceLoop] at h
  | cons n ns ih =>
    intro hn k i m i' m' a h
    simp only [nullableAny, Bool.or_eq_false_iff] at hn
    unfold choiceLoop at h
    split at h
    · cases h
    · next i1 m1 a1 h1 =>
      injection h with h1' h2' h3'; subst h1'
      exact hst n hn.1 _ _ _ _ _ (restoreOnNone_ok h1)
    · exact ih hn.2 _ _ _ _ _ _ h

theorem repLoop_strict {α} (unit : Nat → Inp → M → R α) (hu : ∀ idx, AdvFn (unit idx))
    (min : Nat) (max : Option Nat) (idx : Nat) (hlt : idx < min) (hst : StrictFn (unit idx)) :
    ∀ budget i m acc i' m' a, acc.length = idx →
      repLoop unit min max budget idx i m acc = .ok i' m' a →
      i'.rest.length < i.rest.length := by
  intro budget i m acc i' m' a hlen h
  cases budget with
  | zero => simp [repLoop] at h
  | succ b =>
    unfold repLoop at h
    split at h
    · next hmax =>
      rw [hmax, repDone_some, if_pos (by omega)] at h
      cases h
    · split at h
      · cases h
      · cases h
      · next i1 m1 a1 h1 =>
        have s1 := hst _ _ _ _ _ (restoreOnNone_ok h1)
        have e2 := (repLoop_adv unit hu min max _ _ _ _ _ _ _ _ h).len_le
        omega

theorem arrayLoop_strict {α} (f : Inp → M → R α) (hf : AdvFn f) (hst : StrictFn f) :
    ∀ k, 0 < k → ∀ i m acc i' m' a, arrayLoop f k i m acc = .ok i' m' a →
      i'.rest.length < i.rest.length := by
  intro k hk i m acc i' m' a h
  cases k with
  | zero => omega
  | succ k =>
    unfold arrayLoop at h
    split at h
    · cases h
    · cases h
    · next i1 m1 a1 h1 =>
      have s1 := hst _ _ _ _ _ h1
      have e2 := (arrayLoop_adv f hf _ _ _ _ _ _ _ h).len_le
      omega

theorem isEmpty_false_ne {s : List Char} (h : s.isEmpty = false) : s ≠ [] := by
  intro h0; subst h0; simp at h

/-- A check result that is `ok` comes from a parse result that is `ok` with the same cursor. -/
theorem check_ok_parse {g : NodeGrammar} {uni : Uni} {n : Nat} {inh : Bool} {node : Node} {i : Inp} {m : M}
    {i' : Inp} {m' : M} {a : Unit} (h : check g uni n inh node i m = .ok i' m' a) :
    ∃ v, parse g uni n inh node i m = .ok i' m' v := by
  rw [check_eq_parse_forget] at h
  cases hp : parse g uni n inh node i m with
  | oof => rw [hp] at h; cases h
  | fail _ => rw [hp] at h; cases h
  | ok i2 m2 v2 =>
    rw [hp] at h; simp [Res.forget] at h
    exact ⟨v2, by rw [h.1, h.2]⟩

/-- Soundness of `nullable`: a node that is not nullable strictly consumes whenever it succeeds. -/
theorem nullable_sound (G : NodeGrammar) (uni : Uni) (nul : RuleId → Bool) (hN : NulOK G nul) :
    ∀ (n : Nat) (inh : Bool) (node : Node), nullable nul node = false →
      StrictFn (parse G uni n inh node) := by
  intro n
  induction n with
  | zero => intro inh node _ i m i' m' a h; simp [parse] at h
  | succ n ih =>
    intro inh node hnul i m i' m' a h
    cases node with
    | str s =>
      simp only [nullable] at hnul
      simp only [parse] at h; split at h
      · next h1 => injection h with h0; subst h0; exact Inp.matchString_lt h1 (isEmpty_false_ne hnul)
      · cases h
    | insens s =>
      simp only [nullable] at hnul
      simp only [parse] at h; split at h
      · next h1 => injection h with h0; subst h0; exact Inp.matchInsens_lt h1 (isEmpty_false_ne hnul)
      · cases h
    | range lo hi =>
      simp only [parse] at h; split at h
      · next h1 => injection h with h0; subst h0; exact Inp.matchCharBy_lt h1
      · cases h
    | any =>
      simp only [parse] at h; split at h
      · next h1 => injection h with h0; subst h0; exact Inp.matchCharBy_lt h1
      · cases h
    | soi => simp [nullable] at hnul
    | eoi => simp [nullable] at hnul
    | newline =>
      simp only [parse] at h; split at h
      · next h1 => injection h with h0; subst h0; exact newlineMatch_lt h1
      · cases h
    | charBy p =>
      simp only [parse] at h; split at h
      · next h1 => injection h with h0; subst h0; exact Inp.matchCharBy_lt h1
      · cases h
    | skipUntil needles => simp [nullable] at hnul
    | skipChars k =>
      simp only [nullable, beq_eq_false_iff_ne, ne_eq] at hnul
      simp only [parse] at h; split at h
      · next h1 => injection h with h0; subst h0; exact Inp.skipN_lt h1 (by omega)
      · cases h
    | seq sk items =>
      simp only [nullable] at hnul
      simp only [parse] at h
      cases items with
      | nil => simp [nullableAll] at hnul
      | cons n0 ns =>
        simp only [] at h
        split at h
        · cases h
        · cases h
        · next i1 m1 v0 h1 =>
          split at h
          · cases h
          · cases h
          · next i2 m2 vs h2 =>
            injection h with h0; subst h0
            have hsk : AdvFn (fun i m => skipLoop (parse G uni n false G.skipped) (skipCount sk inh) i m []) := by
              intro i m i' m' a hh
              exact skipLoop_adv _ (parse_adv G uni n false G.skipped) _ _ _ _ _ _ _ hh
            have e1 := (parse_adv G uni n inh n0 _ _ _ _ _ h1).len_le
            cases hx : nullable nul n0 with
            | false =>
              have s1 := ih inh n0 hx _ _ _ _ _ h1
              have e2 := (seqLoop_adv _ _ _ (parse_adv G uni n inh) hsk _ _ _ _ _ _ _ h2).len_le
              omega
            | true =>
              simp only [nullableAll, hx, Bool.true_and] at hnul
              have s2 := seqLoop_strict nul _ _ mkSkipped (parse_adv G uni n inh) hsk (ih inh) ns hnul _ _ _ _ _ _ h2
              omega
    | choice alts =>
      simp only [nullable] at hnul
      simp only [parse] at h
      split at h
      · cases h
      · cases h
      · next i1 m1 k v h1 =>
        injection h with h0; subst h0
        exact choiceLoop_strict nul _ (ih inh) alts hnul _ _ _ _ _ _ h1
    | opt x => simp [nullable] at hnul
    | rep sk min max x =>
      simp only [nullable, Bool.or_eq_false_iff, beq_eq_false_iff_ne, ne_eq] at hnul
      simp only [parse] at h
      split at h
      · cases h
      · cases h
      · next i1 m1 vs h1 =>
        injection h with h0; subst h0
        refine repLoop_strict _ (fun idx => repUnitP_adv _ _ (parse_adv G uni n false G.skipped)
          (parse_adv G uni n inh x) _ _ idx) min max 0 (by omega) ?_ _ _ _ _ _ _ _ rfl h1
        intro i m i' m' a hh
        unfold repUnitP at hh
        simp only [if_true] at hh
        split at hh
        · cases hh
        · cases hh
        · next i2 m2 v h2 => injection hh with h0; subst h0; exact ih inh x hnul.2 _ _ _ _ _ h2
    | atomicRepeat x => simp [nullable] at hnul
    | pos x => simp [nullable] at hnul
    | neg x => simp [nullable] at hnul
    | push x =>
      simp only [nullable] at hnul
      simp only [parse] at h
      split at h
      · cases h
      · cases h
      · next i1 m1 v h1 => injection h with h0; subst h0; exact ih inh x hnul _ _ _ _ _ h1
    | peek => simp [nullable] at hnul
    | peekAll => simp [nullable] at hnul
    | pop => simp [nullable] at hnul
    | popAll => simp [nullable] at hnul
    | drop => simp [nullable] at hnul
    | peekSlice a b => simp [nullable] at hnul
    | ref r f =>
      simp only [nullable] at hnul
      simp only [parse] at h
      split at h
      · cases h
      · next d hd =>
        have hb : nullable nul d.body = false := by
          cases hb : nullable nul d.body with
          | false => rfl
          | true => rw [hN r d hd hb] at hnul; cases hnul
        split at h
        · split at h
          · cases h
          · cases h
          · next i1 m1 v h1 => injection h with h0; subst h0; exact ih _ _ hb _ _ _ _ _ h1
        · split at h
          · cases h
          · cases h
          · next i1 m1 v h1 =>
            injection h with h0; subst h0
            obtain ⟨v2, hp⟩ := check_ok_parse h1
            exact ih _ _ hb _ _ _ _ _ hp
        · split at h
          · cases h
          · cases h
          · next i1 m1 v h1 => injection h with h0; subst h0; exact ih _ _ hb _ _ _ _ _ h1
    | array k x =>
      simp only [nullable, Bool.or_eq_false_iff, beq_eq_false_iff_ne, ne_eq] at hnul
      simp only [parse, arrayTryInto_arrayLoop] at h
      split at h
      · cases h
      · cases h
      · next i1 m1 vs h1 =>
        injection h with h0; subst h0
        exact arrayLoop_strict _ (parse_adv G uni n inh x) (ih inh x hnul.2) k (by omega) _ _ _ _ _ _ h1
    | pair a b =>
      simp only [nullable, Bool.and_eq_false_iff] at hnul
      simp only [parse] at h
      split at h
      · cases h
      · cases h
      · next i1 m1 va h1 =>
        split at h
        · cases h
        · cases h
        · next i2 m2 vb h2 =>
          injection h with h0; subst h0
          have e1 := (parse_adv G uni n inh a _ _ _ _ _ h1).len_le
          have e2 := (parse_adv G uni n inh b _ _ _ _ _ h2).len_le
          rcases hnul with ha | hb
          · have := ih inh a ha _ _ _ _ _ h1; omega
          · have := ih inh b hb _ _ _ _ _ h2; omega
    | empty => simp [nullable] at hnul
    | alwaysFail => simp only [parse] at h; cases h

/-! ### structural facts about the analysis -/

theorem depthN_pos (x : Node) : 1 ≤ depthN x := by
  cases x <;> simp [depthN] <;> omega

theorem depthN_mem {x : Node} : ∀ {xs : List Node}, x ∈ xs → depthN x ≤ depthNList xs := by
  intro xs
  induction xs with
  | nil => intro h; cases h
  | cons y ys ih =>
    intro h
    simp only [depthNList]
    rcases List.mem_cons.mp h with rfl | h
    · exact Nat.le_max_left _ _
    · exact Nat.le_trans (ih h) (Nat.le_max_right _ _)

theorem repsOKAll_mem {nul : RuleId → Bool} {x : Node} :
    ∀ {xs : List Node}, repsOKAll nul xs = true → x ∈ xs → repsOK nul x = true := by
  intro xs
  induction xs with
  | nil => intro _ h; cases h
  | cons y ys ih =>
    intro hr h
    simp only [repsOKAll, Bool.and_eq_true] at hr
    rcases List.mem_cons.mp h with rfl | h
    · exact hr.1
    · exact ih hr.2 h

theorem headsAll_mem {nul : RuleId → Bool} {sid : RuleId} {x : Node} {r : RuleId} :
    ∀ {xs : List Node}, x ∈ xs → r ∈ heads nul sid x → r ∈ headsAll nul sid xs := by
  intro xs
  induction xs with
  | nil => intro h; cases h
  | cons y ys ih =>
    intro h hr
    simp only [headsAll, List.mem_append]
    rcases List.mem_cons.mp h with rfl | h
    · exact Or.inl hr
    · exact Or.inr (ih h hr)

/-- Level of a call: either the input is already shorter than `L`, or it has at most `L` characters
left and the listed heads have rank below `k`. -/
def Lvl (rank : RuleId → Nat) (L k : Nat) (l : List RuleId) (i : Inp) : Prop :=
  i.rest.length < L ∨ (i.rest.length ≤ L ∧ ∀ r ∈ l, rank r < k)

theorem Lvl.mono {rank : RuleId → Nat} {L k : Nat} {l l' : List RuleId} {i i' : Inp}
    (h : Lvl rank L k l i) (hle : i'.rest.length ≤ i.rest.length) (hsub : ∀ r ∈ l', r ∈ l) :
    Lvl rank L k l' i' := by
  rcases h with h | ⟨h1, h2⟩
  · exact Or.inl (by omega)
  · exact Or.inr ⟨by omega, fun r hr => h2 r (hsub r hr)⟩

theorem Lvl.of_lt {rank : RuleId → Nat} {L k : Nat} {l l' : List RuleId} {i i' : Inp}
    (h : Lvl rank L k l i) (hlt : i'.rest.length < i.rest.length) : Lvl rank L k l' i' := by
  rcases h with h | ⟨h1, _⟩
  · exact Or.inl (by omega)
  · exact Or.inl (by omega)

/-! ### the loops do not run out of fuel when their bodies do not -/

theorem skipLoop_ne_oof {α} (rank : RuleId → Nat) (L k : Nat) (l : List RuleId) (f : Inp → M → R α)
    (hadv : AdvFn f) (hf : ∀ i m, Lvl rank L k l i → f i m ≠ .oof) :
    ∀ c i m acc, Lvl rank L k l i → skipLoop f c i m acc ≠ .oof := by
  intro c
  induction c with
  | zero => intro i m acc _; simp [skipLoop]
  | succ c ih =>
    intro i m acc hl
    unfold skipLoop
    split
    · next h1 => exact absurd h1 (hf i m hl)
    · exact nofun
    · next i1 m1 a1 h1 => exact ih _ _ _ (hl.mono (hadv _ _ _ _ _ h1).len_le (fun _ h => h))

theorem seqLoop_ne_oof {α β} (nul : RuleId → Bool) (sid : RuleId) (rank : RuleId → Nat) (L k : Nat) (sk : Flag)
    (f : Node → Inp → M → R α) (skip : Inp → M → R (List β)) (mk : List β → α → α)
    (hfadv : ∀ x, AdvFn (f x)) (hsadv : AdvFn skip)
    (hfst : ∀ x, nullable nul x = false → StrictFn (f x))
    (hskip : ∀ i m, Lvl rank L k (skipHead sid sk) i → skip i m ≠ .oof) :
    ∀ ns, (∀ x ∈ ns, ∀ i m, Lvl rank L k (heads nul sid x) i → f x i m ≠ .oof) →
      ∀ i m acc, Lvl rank L k (skipHead sid sk ++ headsSeq nul sid sk ns) i →
        seqLoop f skip mk ns i m acc ≠ .oof := by
  intro ns
  induction ns with
  | nil => intro _ i m acc _; simp [seqLoop]
  | cons x xs ih =>
    intro hf i m acc hl
    unfold seqLoop
    split
    · next h1 => exact absurd h1 (hskip i m (hl.mono (Nat.le_refl _) (fun r hr => List.mem_append.mpr (Or.inl hr))))
    · exact nofun
    · next i1 m1 s1 h1 =>
      have e1 := (hsadv _ _ _ _ _ h1).len_le
      have hl1 : Lvl rank L k (heads nul sid x) i1 := hl.mono e1 (fun r hr => by
        simp only [headsSeq, List.mem_append]; exact Or.inr (Or.inl hr))
      split
      · next h2 => exact absurd h2 (hf x (List.mem_cons_self) i1 m1 hl1)
      · exact nofun
      · next i2 m2 a2 h2 =>
        have e2 := (hfadv x _ _ _ _ _ h2).len_le
        refine ih (fun y hy => hf y (List.mem_cons_of_mem _ hy)) _ _ _ ?_
        cases hx : nullable nul x with
        | false =>
          have s2 := hfst x hx _ _ _ _ _ h2
          exact hl.of_lt (by omega)
        | true =>
          refine hl.mono (by omega) (fun r hr => ?_)
          simp only [headsSeq, hx, if_true, List.mem_append]
          exact Or.inr (Or.inr (List.mem_append.mp hr))

theorem choiceLoop_ne_oof {α} (f : Node → Inp → M → R α) (i : Inp) :
    ∀ ns, (∀ x ∈ ns, ∀ m, f x i m ≠ .oof) → ∀ c m, choiceLoop f ns c i m ≠ .oof := by
  intro ns
  induction ns with
  | nil => intro _ c m; simp [choiceLoop]
  | cons x xs ih =>
    intro hf c m
    unfold choiceLoop
    have hx := hf x List.mem_cons_self m
    split
    · next h1 =>
      cases hr : f x i m with
      | oof => exact absurd hr hx
      | fail m' => rw [hr] at h1; simp [restoreOnNone] at h1
      | ok i' m' a => rw [hr] at h1; simp [restoreOnNone] at h1
    · exact nofun
    · exact ih (fun y hy => hf y (List.mem_cons_of_mem _ hy)) _ _

theorem restoreOnNone_ne_oof {α} {saved : List Sp} {r : R α} (h : r ≠ .oof) : restoreOnNone saved r ≠ .oof := by
  cases r with
  | oof => exact absurd rfl h
  | fail m => simp [restoreOnNone]
  | ok i m a => simp [restoreOnNone]

/-- The repetition loop: the first iteration runs at the start state, every later one on a strictly
shorter input; a budget above the remaining length is never exhausted. -/
theorem repLoop_ne_oof {α} (unit : Nat → Inp → M → R α) (min : Nat) (max : Option Nat)
    (hst : ∀ j, StrictFn (unit j)) :
    ∀ b idx i m acc, i.rest.length < b →
      (∀ j i' m', (j = idx ∧ i' = i ∧ m' = m) ∨ i'.rest.length < i.rest.length → unit j i' m' ≠ .oof) →
      repLoop unit min max b idx i m acc ≠ .oof := by
  intro b
  induction b with
  | zero => intro idx i m acc h; omega
  | succ b ih =>
    intro idx i m acc hb hu
    unfold repLoop
    split
    · exact repDone_ne_oof _ _ _ _ _
    · split
      · next h1 => exact absurd h1 (restoreOnNone_ne_oof (hu idx i m (Or.inl ⟨rfl, rfl, rfl⟩)))
      · split
        · exact nofun
        · exact repDone_ne_oof _ _ _ _ _
      · next i1 m1 a1 h1 =>
        have s1 := hst idx _ _ _ _ _ (restoreOnNone_ok h1)
        refine ih _ _ _ _ (by omega) (fun j i' m' h => hu j i' m' (Or.inr ?_))
        rcases h with ⟨_, rfl, _⟩ | h
        · exact s1
        · omega

/-- A bounded repetition stops at its maximum: a budget above `max - idx` is never exhausted. -/
theorem repLoop_ne_oof_bounded {α} (unit : Nat → Inp → M → R α) (hadv : ∀ j, AdvFn (unit j)) (min mx : Nat) :
    ∀ b idx i m acc, idx ≤ mx → mx < b + idx →
      (∀ j i' m', i'.rest.length ≤ i.rest.length → unit j i' m' ≠ .oof) →
      repLoop unit min (some mx) b idx i m acc ≠ .oof := by
  intro b
  induction b with
  | zero => intro idx i m acc h1 h2; omega
  | succ b ih =>
    intro idx i m acc h1 h2 hu
    unfold repLoop
    split
    · exact repDone_ne_oof _ _ _ _ _
    · next hne =>
      have hlt : idx < mx := by
        rcases Nat.lt_or_ge idx mx with h | h
        · exact h
        · exact absurd (by rw [Nat.le_antisymm h1 h]) hne
      split
      · next h1' => exact absurd h1' (restoreOnNone_ne_oof (hu idx i m (Nat.le_refl _)))
      · split
        · exact nofun
        · exact repDone_ne_oof _ _ _ _ _
      · next i1 m1 a1 h1' =>
        have e1 := (hadv idx _ _ _ _ _ (restoreOnNone_ok h1')).len_le
        exact ih _ _ _ _ (by omega) (by omega) (fun j i' m' h => hu j i' m' (by omega))

theorem arrayLoop_ne_oof {α} (f : Inp → M → R α) (hadv : AdvFn f) :
    ∀ c i m acc, (∀ i' m', i'.rest.length ≤ i.rest.length → f i' m' ≠ .oof) →
      arrayLoop f c i m acc ≠ .oof := by
  intro c
  induction c with
  | zero => intro i m acc _; simp [arrayLoop]
  | succ c ih =>
    intro i m acc hf
    unfold arrayLoop
    split
    · next h1 => exact absurd h1 (hf i m (Nat.le_refl _))
    · exact nofun
    · next i1 m1 a1 h1 =>
      have e1 := (hadv _ _ _ _ _ h1).len_le
      exact ih _ _ _ (fun i' m' h => hf i' m' (by omega))

/-! ### the induction -/

theorem check_ne_oof_of_parse {g : NodeGrammar} {uni : Uni} {n : Nat} {inh : Bool} {node : Node} {i : Inp} {m : M}
    (h : parse g uni n inh node i m ≠ .oof) : check g uni n inh node i m ≠ .oof := by
  rw [check_eq_parse_forget]
  cases hp : parse g uni n inh node i m with
  | oof => exact absurd hp h
  | fail _ => simp [Res.forget]
  | ok _ _ _ => simp [Res.forget]

theorem skipCount_zero (inh : Bool) : skipCount .zero inh = 0 := by simp [skipCount, Flag.eval]

section step
variable (G : NodeGrammar) (uni : Uni) (nul : RuleId → Bool) (rank : RuleId → Nat)
variable (hN : NulOK G nul) (hR : NoLeftRecBy G nul rank) (hP : Progressing G nul)
variable (D : Nat) (hD : (∀ r d, G.rule? r = some d → depthN d.body ≤ D) ∧ depthN G.skipped ≤ D)
variable (L k B Bs Bl : Nat) (hBs : Bs + D + 1 ≤ B) (hBl : Bl + D + 1 ≤ B) (hBL : L ≤ B)

include hN hR hP hD hBs hBl hBL in
/-- One level of the lexicographic induction: assuming the claim for strictly shorter inputs (any
heads, base fuel `Bs`) and for the same inputs with heads of smaller rank (base fuel `Bl`), the
claim holds at level `(L, k)` with base fuel `B`. -/
theorem parse_step
    (hsmall : ∀ n inh x i m, i.rest.length < L → repsOK nul x = true → Bs + depthN x ≤ n →
      parse G uni n inh x i m ≠ .oof)
    (hlow : ∀ k', k' < k → ∀ n inh x i m, i.rest.length ≤ L → (∀ r ∈ heads nul G.sid x, rank r < k') →
      repsOK nul x = true → Bl + depthN x ≤ n → parse G uni n inh x i m ≠ .oof) :
    ∀ n inh node i m, Lvl rank L k (heads nul G.sid node) i → repsOK nul node = true →
      B + depthN node ≤ n → parse G uni n inh node i m ≠ .oof := by
  intro n
  induction n with
  | zero => intro inh node i m _ _ hn; have := depthN_pos node; omega
  | succ n ih =>
    intro inh node i m hl hr hn
    rcases hl with hlt | ⟨hle, hH⟩
    · exact hsmall _ _ _ _ _ hlt hr (by omega)
    -- facts at fuel `n`
    have sub : ∀ inh x i m, depthN x < depthN node → repsOK nul x = true →
        Lvl rank L k (heads nul G.sid x) i → parse G uni n inh x i m ≠ .oof :=
      fun inh x i m hd hrx hlx => ih inh x i m hlx hrx (by omega)
    have hskp : ∀ i m, Lvl rank L k [G.sid] i → parse G uni n false G.skipped i m ≠ .oof := by
      intro i m hl
      have hdn := depthN_pos node
      rcases hl with h | ⟨h1, h2⟩
      · exact hsmall _ _ _ _ _ h hP.2 (by have := hD.2; omega)
      · exact hlow (rank G.sid) (h2 _ (List.mem_singleton.mpr rfl)) _ _ _ _ _ h1 hR.2 hP.2
          (by have := hD.2; omega)
    have hskl : ∀ (sk : Flag) (inh : Bool) i m, Lvl rank L k (skipHead G.sid sk) i →
        skipLoop (parse G uni n false G.skipped) (skipCount sk inh) i m [] ≠ .oof := by
      intro sk inh i m hl
      cases sk with
      | zero => rw [skipCount_zero]; simp [skipLoop]
      | one => exact skipLoop_ne_oof rank L k [G.sid] _ (parse_adv G uni n false G.skipped) hskp _ _ _ _ hl
      | inh => exact skipLoop_ne_oof rank L k [G.sid] _ (parse_adv G uni n false G.skipped) hskp _ _ _ _ hl
    have hskadv : ∀ (c : Nat), AdvFn (fun i m => skipLoop (parse G uni n false G.skipped) c i m []) := by
      intro c i m i' m' a hh
      exact skipLoop_adv _ (parse_adv G uni n false G.skipped) _ _ _ _ _ _ _ hh
    have hsame : Lvl rank L k (heads nul G.sid node) i := Or.inr ⟨hle, hH⟩
    cases node with
    | str s => simp only [parse]; split <;> exact nofun
    | insens s => simp only [parse]; split <;> exact nofun
    | range lo hi => simp only [parse]; split <;> exact nofun
    | any => simp only [parse]; split <;> exact nofun
    | soi => simp only [parse]; split <;> exact nofun
    | eoi => simp only [parse]; split <;> exact nofun
    | newline => simp only [parse]; split <;> exact nofun
    | charBy p => simp only [parse]; split <;> exact nofun
    | skipUntil needles => simp only [parse]; exact nofun
    | skipChars c => simp only [parse]; split <;> exact nofun
    | seq sk items =>
      simp only [parse]
      cases items with
      | nil => exact nofun
      | cons n0 ns =>
        simp only [repsOK, repsOKAll, Bool.and_eq_true] at hr
        simp only [depthN, depthNList] at hn sub
        simp only [heads, headsSeq] at hsame
        have h0 : parse G uni n inh n0 i m ≠ .oof :=
          sub inh n0 i m (by omega) hr.1 (hsame.mono (Nat.le_refl _) (fun r hr => List.mem_append.mpr (Or.inl hr)))
        simp only []
        split
        · next h1 => exact absurd h1 h0
        · exact nofun
        · next i1 m1 v0 h1 =>
          have e1 := (parse_adv G uni n inh n0 _ _ _ _ _ h1).len_le
          have hloop : seqLoop (parse G uni n inh)
              (fun i m => skipLoop (parse G uni n false G.skipped) (skipCount sk inh) i m [])
              mkSkipped ns i1 m1 [] ≠ .oof := by
            refine seqLoop_ne_oof nul G.sid rank L k sk _ _ mkSkipped (parse_adv G uni n inh) (hskadv _)
              (nullable_sound G uni nul hN n inh) (hskl sk inh) ns ?_ _ _ _ ?_
            · intro x hx i' m' hl'
              exact sub inh x i' m' (by have := depthN_mem hx; omega) (repsOKAll_mem hr.2 hx) hl'
            · cases hx : nullable nul n0 with
              | false =>
                have s1 := nullable_sound G uni nul hN n inh n0 hx _ _ _ _ _ h1
                exact hsame.of_lt s1
              | true =>
                refine hsame.mono e1 (fun r hr => ?_)
                simp only [hx, if_true, List.mem_append]
                exact Or.inr (List.mem_append.mp hr)
          split
          · next h2 => exact absurd h2 hloop
          · exact nofun
          · exact nofun
    | choice alts =>
      simp only [parse]
      simp only [repsOK] at hr
      simp only [depthN] at hn sub
      have hloop : choiceLoop (parse G uni n inh) alts 0 i m ≠ .oof := by
        refine choiceLoop_ne_oof _ i alts (fun x hx m' => ?_) _ _
        refine sub inh x i m' (by have := depthN_mem hx; omega) (repsOKAll_mem hr hx)
          (hsame.mono (Nat.le_refl _) (fun r hr => ?_))
        simp only [heads]; exact headsAll_mem hx hr
      split
      · next h1 => exact absurd h1 hloop
      · exact nofun
      · exact nofun
    | opt x =>
      simp only [parse]
      simp only [repsOK] at hr
      simp only [depthN] at hn sub
      have h0 := sub inh x i m (by omega) hr hsame
      split
      · next h1 => exact absurd h1 (restoreOnNone_ne_oof h0)
      · exact nofun
      · exact nofun
    | rep sk min max x =>
      simp only [parse]
      simp only [repsOK, Bool.and_eq_true, Bool.or_eq_true, Bool.not_eq_true'] at hr
      simp only [depthN] at hn sub
      simp only [heads] at hsame
      have hdx := depthN_pos x
      have hsx : Lvl rank L k (heads nul G.sid x) i :=
        hsame.mono (Nat.le_refl _) (fun r hr => List.mem_append.mpr (Or.inl hr))
      have hbody : ∀ i' m', Lvl rank L k (heads nul G.sid x) i' → parse G uni n inh x i' m' ≠ .oof :=
        fun i' m' hl' => sub inh x i' m' (by omega) hr.2 hl'
      have hunitadv : ∀ j, AdvFn (repUnitP (parse G uni n false G.skipped) (parse G uni n inh x)
          (defaultSkipVal G) (skipCount sk inh) j) :=
        fun j => repUnitP_adv _ _ (parse_adv G uni n false G.skipped) (parse_adv G uni n inh x) _ _ j
      -- a unit does not run out of fuel wherever both the skip and the body are at an admissible level
      have hunit : ∀ j i' m', Lvl rank L k (skipHead G.sid sk) i' → Lvl rank L k (heads nul G.sid x) i' →
          repUnitP (parse G uni n false G.skipped) (parse G uni n inh x) (defaultSkipVal G) (skipCount sk inh) j i' m' ≠ .oof := by
        intro j i' m' hls hlx
        unfold repUnitP
        split
        · split
          · next h1 => exact absurd h1 (hbody _ _ hlx)
          · exact nofun
          · exact nofun
        · split
          · next h1 => exact absurd h1 (hskl sk inh _ _ hls)
          · exact nofun
          · next i1 m1 s1 h1 =>
            have e1 := (hskadv _ _ _ _ _ _ h1).len_le
            split
            · next h2 => exact absurd h2 (hbody _ _ (hlx.mono e1 (fun _ h => h)))
            · exact nofun
            · exact nofun
      have hloop : repLoop (repUnitP (parse G uni n false G.skipped) (parse G uni n inh x)
          (defaultSkipVal G) (skipCount sk inh)) min max n 0 i m [] ≠ .oof := by
        cases hx : nullable nul x with
        | false =>
          have hstrict := nullable_sound G uni nul hN n inh x hx
          have hunitst : ∀ j, StrictFn (repUnitP (parse G uni n false G.skipped) (parse G uni n inh x)
              (defaultSkipVal G) (skipCount sk inh) j) := by
            intro j i0 m0 i' m' a hh
            unfold repUnitP at hh
            split at hh
            · split at hh
              · cases hh
              · cases hh
              · next i2 m2 v h2 => injection hh with h0; subst h0; exact hstrict _ _ _ _ _ h2
            · split at hh
              · cases hh
              · cases hh
              · next i1 m1 s1 h1 =>
                split at hh
                · cases hh
                · cases hh
                · next i2 m2 v h2 =>
                  injection hh with h0; subst h0
                  have e1 := (hskadv _ _ _ _ _ _ h1).len_le
                  have s2 := hstrict _ _ _ _ _ h2
                  omega
          refine repLoop_ne_oof _ min max hunitst n 0 i m [] (by omega) ?_
          intro j i' m' hj
          rcases hj with ⟨rfl, rfl, rfl⟩ | hj
          · unfold repUnitP
            simp only [if_true]
            split
            · next h1 => exact absurd h1 (hbody _ _ hsx)
            · exact nofun
            · exact nofun
          · exact hunit j i' m' (hsame.of_lt hj) (hsame.of_lt hj)
        | true =>
          have hm : max.isSome = true := by
            rcases hr.1 with h | h
            · exact h
            · rw [hx] at h; cases h
          obtain ⟨mx, rfl⟩ := Option.isSome_iff_exists.mp hm
          simp only [Option.getD_some] at hn
          refine repLoop_ne_oof_bounded _ hunitadv min mx n 0 i m [] (Nat.zero_le _) (by omega) ?_
          intro j i' m' hle'
          refine hunit j i' m' (hsame.mono hle' (fun r hr => ?_)) (hsx.mono hle' (fun _ h => h))
          simp only [hx, if_true, List.mem_append]
          exact Or.inr hr
      split
      · next h1 => exact absurd h1 hloop
      · exact nofun
      · exact nofun
    | atomicRepeat x =>
      simp only [parse]
      simp only [repsOK, Bool.and_eq_true, Bool.not_eq_true'] at hr
      simp only [depthN] at hn sub
      simp only [heads] at hsame
      have hdx := depthN_pos x
      have hstrict := nullable_sound G uni nul hN n inh x hr.1
      have hloop : repLoop (fun _ i m => parse G uni n inh x i m) 0 none (atomicBudget n) 0 i
          { m with trk := Tracker.new i } [] ≠ .oof := by
        refine repLoop_ne_oof _ 0 none (fun _ => hstrict) _ 0 i _ [] ?_ ?_
        · have : n + 1 ≤ atomicBudget n := by
            unfold atomicBudget
            exact Nat.le_mul_of_pos_right _ (by omega)
          omega
        · intro j i' m' hj
          rcases hj with ⟨_, rfl, rfl⟩ | hj
          · exact sub inh x _ _ (by omega) hr.2 hsame
          · exact sub inh x _ _ (by omega) hr.2 (hsame.of_lt hj)
      split
      · next h1 => exact absurd h1 hloop
      · exact nofun
      · exact nofun
    | pos x =>
      simp only [parse]
      simp only [repsOK] at hr
      simp only [depthN] at hn sub
      have h0 := sub inh x i { m with trk := { m.trk with positive := true } } (by omega) hr hsame
      split
      · next h1 => exact absurd h1 h0
      · exact nofun
      · exact nofun
    | neg x =>
      simp only [parse]
      simp only [repsOK] at hr
      simp only [depthN] at hn sub
      have h0 := check_ne_oof_of_parse
        (sub inh x i { m with trk := { m.trk with positive := false } } (by omega) hr hsame)
      split
      · next h1 => exact absurd h1 h0
      · exact nofun
      · exact nofun
    | push x =>
      simp only [parse]
      simp only [repsOK] at hr
      simp only [depthN] at hn sub
      have h0 := sub inh x i m (by omega) hr hsame
      split
      · next h1 => exact absurd h1 h0
      · exact nofun
      · exact nofun
    | peek => simp only [parse]; split; exact nofun; split <;> exact nofun
    | peekAll => simp only [parse]; split <;> exact nofun
    | pop => simp only [parse]; split; exact nofun; split <;> exact nofun
    | popAll => simp only [parse]; split <;> exact nofun
    | drop => simp only [parse]; split <;> exact nofun
    | peekSlice a b =>
      simp only [parse]
      split
      · exact nofun
      · split
        · exact nofun
        · split <;> exact nofun
    | ref r f =>
      simp only [parse]
      split
      · exact nofun
      · next d hd =>
        have hrk : rank r < k := hH r (by simp [heads])
        have hdn := depthN_pos (Node.ref r f)
        have hbody : ∀ inh' m', parse G uni n inh' d.body i m' ≠ .oof := fun inh' m' =>
          hlow (rank r) hrk _ _ _ _ _ hle (hR.1 r d hd) (hP.1 r d hd) (by have := hD.1 r d hd; omega)
        split
        · split
          · next h1 => exact absurd h1 (hbody _ _)
          · exact nofun
          · exact nofun
        · split
          · next h1 => exact absurd h1 (check_ne_oof_of_parse (hbody _ _))
          · exact nofun
          · exact nofun
        · split
          · next h1 => exact absurd h1 (hbody _ _)
          · exact nofun
          · exact nofun
    | array c x =>
      simp only [parse, arrayTryInto_arrayLoop]
      simp only [repsOK] at hr
      simp only [depthN] at hn sub
      simp only [heads] at hsame
      have hloop : arrayLoop (parse G uni n inh x) c i m [] ≠ .oof :=
        arrayLoop_ne_oof _ (parse_adv G uni n inh x) _ _ _ _
          (fun i' m' h => sub inh x i' m' (by omega) hr (hsame.mono h (fun _ h => h)))
      split
      · next h1 => exact absurd h1 hloop
      · exact nofun
      · exact nofun
    | pair a b =>
      simp only [parse]
      simp only [repsOK, Bool.and_eq_true] at hr
      simp only [depthN] at hn sub
      simp only [heads] at hsame
      have ha := sub inh a i m (by omega) hr.1
        (hsame.mono (Nat.le_refl _) (fun r hr => List.mem_append.mpr (Or.inl hr)))
      split
      · next h1 => exact absurd h1 ha
      · exact nofun
      · next i1 m1 va h1 =>
        have e1 := (parse_adv G uni n inh a _ _ _ _ _ h1).len_le
        have hb : parse G uni n inh b i1 m1 ≠ .oof := by
          refine sub inh b i1 m1 (by omega) hr.2 ?_
          cases hx : nullable nul a with
          | false => exact hsame.of_lt (nullable_sound G uni nul hN n inh a hx _ _ _ _ _ h1)
          | true =>
            refine hsame.mono e1 (fun r hr => ?_)
            simp only [hx, if_true, List.mem_append]
            exact Or.inr hr
        split
        · next h2 => exact absurd h2 hb
        · exact nofun
        · exact nofun
    | empty => simp only [parse]; exact nofun
    | alwaysFail => simp only [parse]; exact nofun

end step

/-- Base fuel of level `(L, k)` for rank bound `K` and depth bound `D`. -/
def baseFuel (K D L k : Nat) : Nat := (L * (K + 1) + k + 1) * (D + 1)

theorem baseFuel_succ_k (K D L k : Nat) : baseFuel K D L (k + 1) = baseFuel K D L k + D + 1 := by
  unfold baseFuel
  have : L * (K + 1) + (k + 1) + 1 = (L * (K + 1) + k + 1) + 1 := by omega
  rw [this, Nat.succ_mul]; omega

theorem baseFuel_ge (K D L k : Nat) : D + 1 ≤ baseFuel K D L k := by
  unfold baseFuel
  exact Nat.le_mul_of_pos_left _ (by omega)

theorem baseFuel_succ_L (K D L k : Nat) : baseFuel K D L K + D + 1 ≤ baseFuel K D (L + 1) k := by
  unfold baseFuel
  have h1 : (L * (K + 1) + K + 1) * (D + 1) + D + 1 = (L * (K + 1) + K + 1 + 1) * (D + 1) := by
    rw [Nat.succ_mul (L * (K + 1) + K + 1)]; omega
  rw [h1]
  apply Nat.mul_le_mul_right
  rw [Nat.succ_mul]; omega

theorem baseFuel_len (K D L k : Nat) : L ≤ baseFuel K D L k := by
  unfold baseFuel
  have h1 : L ≤ L * (K + 1) := Nat.le_mul_of_pos_right _ (by omega)
  have h2 : L * (K + 1) + k + 1 ≤ (L * (K + 1) + k + 1) * (D + 1) := Nat.le_mul_of_pos_right _ (by omega)
  omega

theorem baseFuel_mono_k (K D L : Nat) {k k' : Nat} (h : k ≤ k') : baseFuel K D L k ≤ baseFuel K D L k' := by
  unfold baseFuel
  exact Nat.mul_le_mul_right _ (by omega)

theorem baseFuel_mono_L (K D : Nat) {L L' : Nat} (k : Nat) (h : L ≤ L') : baseFuel K D L k ≤ baseFuel K D L' k := by
  unfold baseFuel
  apply Nat.mul_le_mul_right
  have := Nat.mul_le_mul_right (K + 1) h
  omega

section levels
variable (G : NodeGrammar) (uni : Uni) (nul : RuleId → Bool) (rank : RuleId → Nat)
variable (hN : NulOK G nul) (hR : NoLeftRecBy G nul rank) (hP : Progressing G nul)
variable (K D : Nat) (hK : ∀ r, rank r < K)
variable (hD : (∀ r d, G.rule? r = some d → depthN d.body ≤ D) ∧ depthN G.skipped ≤ D)

/-- The claim at level `(L, k)`. -/
def Claim (L k : Nat) : Prop :=
  ∀ n inh node i m, i.rest.length ≤ L → (∀ r ∈ heads nul G.sid node, rank r < k) →
    repsOK nul node = true → baseFuel K D L k + depthN node ≤ n → parse G uni n inh node i m ≠ .oof

include hN hR hP hD in
theorem claim_k (L Bs : Nat)
    (hsmall : ∀ n inh x i m, i.rest.length < L → repsOK nul x = true → Bs + depthN x ≤ n →
      parse G uni n inh x i m ≠ .oof)
    (hBs : ∀ k, Bs + D + 1 ≤ baseFuel K D L k) : ∀ k, Claim G uni nul rank K D L k := by
  intro k
  induction k with
  | zero =>
    intro n inh node i m hle hH hr hn
    refine parse_step G uni nul rank hN hR hP D hD L 0 (baseFuel K D L 0) Bs 0 (hBs 0)
      (by have := baseFuel_ge K D L 0; omega) (baseFuel_len K D L 0) hsmall ?_ n inh node i m
      (Or.inr ⟨hle, hH⟩) hr hn
    intro k' hk'; omega
  | succ k ih =>
    intro n inh node i m hle hH hr hn
    refine parse_step G uni nul rank hN hR hP D hD L (k + 1) (baseFuel K D L (k + 1)) Bs (baseFuel K D L k)
      (hBs (k + 1)) (by rw [baseFuel_succ_k]; omega) (baseFuel_len K D L (k + 1)) hsmall ?_ n inh node i m
      (Or.inr ⟨hle, hH⟩) hr hn
    intro k' hk' n' inh' x i' m' hle' hH' hr' hn'
    exact ih n' inh' x i' m' hle' (fun r hr => by have := hH' r hr; omega) hr' hn'

include hN hR hP hD hK in
theorem claim_all : ∀ L k, Claim G uni nul rank K D L k := by
  intro L
  induction L with
  | zero =>
    refine claim_k G uni nul rank hN hR hP K D hD 0 0 ?_ (fun k => by have := baseFuel_ge K D 0 k; omega)
    intro n inh x i m h; omega
  | succ L ih =>
    refine claim_k G uni nul rank hN hR hP K D hD (L + 1) (baseFuel K D L K) ?_ (fun k => baseFuel_succ_L K D L k)
    intro n inh x i m hlt hr hn
    exact ih K n inh x i m (by omega) (fun r _ => hK r) hr hn

end levels

/-! ### the theorem with the explicit bound -/

theorem foldr_max_ge {α} (f : α → Nat) (z : Nat) : ∀ (l : List α) (x : α), x ∈ l →
    f x ≤ l.foldr (fun y acc => max (f y) acc) z := by
  intro l
  induction l with
  | nil => intro x h; cases h
  | cons y ys ih =>
    intro x h
    simp only [List.foldr]
    rcases List.mem_cons.mp h with rfl | h
    · exact Nat.le_max_left _ _
    · exact Nat.le_trans (ih x h) (Nat.le_max_right _ _)

theorem foldr_max_init {α} (f : α → Nat) (z : Nat) : ∀ (l : List α), z ≤ l.foldr (fun y acc => max (f y) acc) z := by
  intro l
  induction l with
  | nil => exact Nat.le_refl _
  | cons y ys ih => simp only [List.foldr]; exact Nat.le_trans ih (Nat.le_max_right _ _)

theorem maxDepth_rule (G : NodeGrammar) {r : RuleId} {d : RuleDef} (h : G.rule? r = some d) :
    depthN d.body ≤ maxDepth G := by
  unfold maxDepth
  exact foldr_max_ge (fun d => depthN d.body) _ G.rules d (List.mem_of_getElem? h)

theorem maxDepth_skipped (G : NodeGrammar) : depthN G.skipped ≤ maxDepth G := by
  unfold maxDepth
  exact foldr_max_init (fun d => depthN d.body) _ G.rules

theorem rank_lt_rankBound (G : NodeGrammar) (rank : RuleId → Nat) {r : Nat} (h : r ≤ G.rules.length) :
    rank r < rankBound G rank := by
  unfold rankBound
  have hm : r ∈ List.range (G.rules.length + 1) := List.mem_range.mpr (by omega)
  have := foldr_max_ge rank 0 (List.range (G.rules.length + 1)) r hm
  omega

/-- The rank restricted to the ids that matter (rules and the skip type). -/
def clampRank (G : NodeGrammar) (rank : RuleId → Nat) : RuleId → Nat :=
  fun (r : Nat) => if r ≤ G.rules.length then rank r else 0

theorem clampRank_le (G : NodeGrammar) (rank : RuleId → Nat) (r : RuleId) : clampRank G rank r ≤ rank r := by
  unfold clampRank; split <;> omega

theorem clampRank_ok (G : NodeGrammar) (nul : RuleId → Bool) (rank : RuleId → Nat)
    (hR : NoLeftRecBy G nul rank) : NoLeftRecBy G nul (clampRank G rank) := by
  constructor
  · intro r d hd r' hr'
    have hlt : r < G.rules.length := by
      unfold NodeGrammar.rule? at hd
      exact (List.getElem?_eq_some_iff.mp hd).1
    have h1 := hR.1 r d hd r' hr'
    have h2 := clampRank_le G rank r'
    have hle : (r : Nat) ≤ G.rules.length := Nat.le_of_lt hlt
    have h3 : clampRank G rank r = rank r := by unfold clampRank; rw [if_pos hle]
    omega
  · intro r' hr'
    have h1 := hR.2 r' hr'
    have h2 := clampRank_le G rank r'
    have h3 : clampRank G rank G.sid = rank G.sid := by
      have hle : (G.sid : Nat) ≤ G.rules.length := Nat.le_refl _
      unfold clampRank; rw [if_pos hle]
    omega

theorem clampRank_lt (G : NodeGrammar) (rank : RuleId → Nat) (r : RuleId) :
    clampRank G rank r < rankBound G rank := by
  unfold clampRank
  split
  · next h => exact rank_lt_rankBound G rank h
  · unfold rankBound; omega

theorem fuelBound_mono_L (G : NodeGrammar) (rank : RuleId → Nat) {L L' : Nat} (d : Nat) (h : L ≤ L') :
    fuelBound G rank L d ≤ fuelBound G rank L' d := by
  have := baseFuel_mono_L (rankBound G rank) (maxDepth G) (rankBound G rank) h
  unfold baseFuel at this
  unfold fuelBound
  omega

/-- Termination with an explicit bound: under the three static hypotheses, any fuel above
`fuelBound` (linear in the remaining input length) gives a definite answer, for every node whose
own repetitions progress (in particular every node of the grammar and every rule reference), every
input, every state and both skip modes. -/
theorem parse_ne_oof (G : NodeGrammar) (uni : Uni) (nul : RuleId → Bool) (rank : RuleId → Nat)
    (hN : NulOK G nul) (hR : NoLeftRecBy G nul rank) (hP : Progressing G nul) :
    ∀ n inh node i m, repsOK nul node = true → fuelBound G rank i.rest.length (depthN node) ≤ n →
      parse G uni n inh node i m ≠ .oof := by
  intro n inh node i m hr hn
  have := claim_all G uni nul (clampRank G rank) hN (clampRank_ok G nul rank hR) hP
    (rankBound G rank) (maxDepth G) (clampRank_lt G rank)
    ⟨fun r d hd => maxDepth_rule G hd, maxDepth_skipped G⟩ i.rest.length (rankBound G rank)
  exact this n inh node i m (Nat.le_refl _) (fun r _ => clampRank_lt G rank r) hr hn

theorem check_ne_oof (G : NodeGrammar) (uni : Uni) (nul : RuleId → Bool) (rank : RuleId → Nat)
    (hN : NulOK G nul) (hR : NoLeftRecBy G nul rank) (hP : Progressing G nul) :
    ∀ n inh node i m, repsOK nul node = true → fuelBound G rank i.rest.length (depthN node) ≤ n →
      check G uni n inh node i m ≠ .oof :=
  fun n inh node i m hr hn => check_ne_oof_of_parse (parse_ne_oof G uni nul rank hN hR hP n inh node i m hr hn)

/-- Fuel for the entry points (`try_parse`, `try_check`, and their `_partial` forms) on an input
with `L` characters. -/
def entryFuel (G : NodeGrammar) (rank : RuleId → Nat) (L : Nat) : Nat :=
  fuelBound G rank L (maxDepth G + 1)

theorem tryParse_ne_oof (G : NodeGrammar) (uni : Uni) (nul : RuleId → Bool) (rank : RuleId → Nat)
    (hN : NulOK G nul) (hR : NoLeftRecBy G nul rank) (hP : Progressing G nul) (r : RuleId) (i : Inp) (n : Nat)
    (hn : entryFuel G rank i.rest.length ≤ n) : tryParse G uni n r i ≠ .oof := by
  unfold tryParse
  split
  · exact nofun
  · next d hd =>
    have h1 : parse G uni n true (.ref r .one) i (M.init i) ≠ .oof :=
      parse_ne_oof G uni nul rank hN hR hP n true (.ref r .one) i (M.init i) (by simp [repsOK])
        (by unfold entryFuel fuelBound at hn; unfold fuelBound; simp only [depthN]; omega)
    split
    · next h => exact absurd h h1
    · exact nofun
    · next i' m v h =>
      split
      · simp only []; split <;> exact nofun
      · have e1 := (parse_adv G uni n true (.ref r .one) _ _ _ _ _ h).len_le
        have h2 : parse G uni n false G.skipped i' m ≠ .oof :=
          parse_ne_oof G uni nul rank hN hR hP n false G.skipped i' m hP.2 (by
            have := fuelBound_mono_L G rank (depthN G.skipped) e1
            have := maxDepth_skipped G
            unfold entryFuel fuelBound at hn; unfold fuelBound at *; omega)
        split
        · next h' => exact absurd h' h2
        · exact nofun
        · simp only []; split <;> exact nofun

theorem tryCheck_ne_oof (G : NodeGrammar) (uni : Uni) (nul : RuleId → Bool) (rank : RuleId → Nat)
    (hN : NulOK G nul) (hR : NoLeftRecBy G nul rank) (hP : Progressing G nul) (r : RuleId) (i : Inp) (n : Nat)
    (hn : entryFuel G rank i.rest.length ≤ n) : tryCheck G uni n r i ≠ .oof := by
  have h := tryParse_ne_oof G uni nul rank hN hR hP r i n hn
  intro hc
  apply h
  -- `tryCheck = (tryParse).forget` (proved again here to keep this file independent of Props/C03)
  have : tryCheck G uni n r i = (tryParse G uni n r i).forget := by
    unfold tryCheck tryParse
    cases G.rule? r with
    | none => rfl
    | some d =>
      simp only []
      rw [check_eq_parse_forget]
      cases parse G uni n true (.ref r .one) i (M.init i) with
      | oof => rfl
      | fail m => rfl
      | ok i' m v =>
        simp only [Res.forget]
        split
        · split <;> rfl
        · rw [check_eq_parse_forget]
          cases parse G uni n false G.skipped i' m with
          | oof => rfl
          | fail m' => rfl
          | ok i'' m' sv => simp only [Res.forget]; split <;> rfl
  rw [this] at hc
  cases hp : tryParse G uni n r i with
  | oof => rfl
  | fail _ => rw [hp] at hc; cases hc
  | ok _ _ _ => rw [hp] at hc; cases hc

/-! ### a decision procedure for the hypotheses

`wfCheck` computes a candidate nullability table (least fixpoint by iteration from "nothing is
nullable") and a candidate rank (longest head path), then *checks* the three hypotheses with these
candidates; soundness therefore does not depend on the iteration having converged. -/

def iterN {α} (f : α → α) : Nat → α → α
  | 0, a => a
  | n + 1, a => iterN f n (f a)

def nulStep (G : NodeGrammar) (t : List Bool) : List Bool :=
  G.rules.map (fun d => nullable (fun r => t.getD r false) d.body)

def nulTable (G : NodeGrammar) : List Bool := iterN (nulStep G) (G.rules.length + 1) []

/-- Candidate `nul`: the rules found nullable by fixpoint iteration. -/
def wfNul (G : NodeGrammar) : RuleId → Bool :=
  let t := nulTable G
  fun r => t.getD r false

/-- The body evaluated under an id: a rule body, or the skip type for every other id. -/
def ruleBodyAt (G : NodeGrammar) (r : RuleId) : Node :=
  match G.rule? r with
  | some d => d.body
  | none => G.skipped

def rankStep (G : NodeGrammar) (nul : RuleId → Bool) (t : List Nat) : List Nat :=
  (List.range (G.rules.length + 1)).map (fun r =>
    (heads nul G.sid (ruleBodyAt G r)).foldr (fun r' acc => max (t.getD r' 0 + 1) acc) 0)

def rankTable (G : NodeGrammar) (nul : RuleId → Bool) : List Nat :=
  iterN (rankStep G nul) (G.rules.length + 2) []

/-- Candidate rank: length of the longest head path (computed with the candidate `nul`). -/
def wfRank (G : NodeGrammar) : RuleId → Nat :=
  let t := rankTable G (wfNul G)
  fun r => t.getD r 0

/-- `p r d` for every rule `r` with definition `d`. -/
def allRules (G : NodeGrammar) (p : RuleId → RuleDef → Bool) : Bool :=
  (List.range G.rules.length).all (fun r => match G.rule? r with | some d => p r d | none => true)

theorem allRules_spec {G : NodeGrammar} {p : RuleId → RuleDef → Bool} (h : allRules G p = true)
    {r : RuleId} {d : RuleDef} (hd : G.rule? r = some d) : p r d = true := by
  have hlt : r < G.rules.length := by
    unfold NodeGrammar.rule? at hd
    exact (List.getElem?_eq_some_iff.mp hd).1
  have := List.all_eq_true.mp h r (List.mem_range.mpr hlt)
  rw [hd] at this
  exact this

def nulOKb (G : NodeGrammar) (nul : RuleId → Bool) : Bool :=
  allRules G (fun r d => !nullable nul d.body || nul r)

def noLeftRecb (G : NodeGrammar) (nul : RuleId → Bool) (rank : RuleId → Nat) : Bool :=
  allRules G (fun r d => (heads nul G.sid d.body).all (fun r' => decide (rank r' < rank r))) &&
  (heads nul G.sid G.skipped).all (fun r' => decide (rank r' < rank G.sid))

def progressingb (G : NodeGrammar) (nul : RuleId → Bool) : Bool :=
  allRules G (fun _ d => repsOK nul d.body) && repsOK nul G.skipped

/-- Decides the three static hypotheses with the computed candidates. -/
def wfCheck (G : NodeGrammar) : Bool :=
  nulOKb G (wfNul G) && noLeftRecb G (wfNul G) (wfRank G) && progressingb G (wfNul G)

theorem nulOKb_sound {G : NodeGrammar} {nul : RuleId → Bool} (h : nulOKb G nul = true) : NulOK G nul := by
  intro r d hd hb
  have := allRules_spec h hd
  simp only [hb, Bool.not_true, Bool.false_or] at this
  exact this

theorem noLeftRecb_sound {G : NodeGrammar} {nul : RuleId → Bool} {rank : RuleId → Nat}
    (h : noLeftRecb G nul rank = true) : NoLeftRecBy G nul rank := by
  unfold noLeftRecb at h
  rw [Bool.and_eq_true] at h
  constructor
  · intro r d hd r' hr'
    have := List.all_eq_true.mp (allRules_spec h.1 hd) r' hr'
    exact of_decide_eq_true this
  · intro r' hr'
    exact of_decide_eq_true (List.all_eq_true.mp h.2 r' hr')

theorem progressingb_sound {G : NodeGrammar} {nul : RuleId → Bool} (h : progressingb G nul = true) :
    Progressing G nul := by
  unfold progressingb at h
  rw [Bool.and_eq_true] at h
  exact ⟨fun r d hd => allRules_spec h.1 hd, h.2⟩

theorem wfCheck_sound {G : NodeGrammar} (h : wfCheck G = true) :
    NulOK G (wfNul G) ∧ NoLeftRecBy G (wfNul G) (wfRank G) ∧ Progressing G (wfNul G) := by
  unfold wfCheck at h
  simp only [Bool.and_eq_true] at h
  exact ⟨nulOKb_sound h.1.1, noLeftRecb_sound h.1.2, progressingb_sound h.2⟩

/-! ### occurrence in a grammar -/

/-- `Node.Sub x y`: `x` occurs in `y` (reflexive sub-expression relation). -/
inductive Node.Sub : Node → Node → Prop
  | refl (x : Node) : Node.Sub x x
  | seq {x y : Node} {sk : Flag} {items : List Node} : y ∈ items → Node.Sub x y → Node.Sub x (.seq sk items)
  | choice {x y : Node} {alts : List Node} : y ∈ alts → Node.Sub x y → Node.Sub x (.choice alts)
  | opt {x y : Node} : Node.Sub x y → Node.Sub x (.opt y)
  | rep {x y : Node} {sk : Flag} {min : Nat} {max : Option Nat} : Node.Sub x y → Node.Sub x (.rep sk min max y)
  | atomicRepeat {x y : Node} : Node.Sub x y → Node.Sub x (.atomicRepeat y)
  | pos {x y : Node} : Node.Sub x y → Node.Sub x (.pos y)
  | neg {x y : Node} : Node.Sub x y → Node.Sub x (.neg y)
  | push {x y : Node} : Node.Sub x y → Node.Sub x (.push y)
  | array {x y : Node} {k : Nat} : Node.Sub x y → Node.Sub x (.array k y)
  | pairL {x a b : Node} : Node.Sub x a → Node.Sub x (.pair a b)
  | pairR {x a b : Node} : Node.Sub x b → Node.Sub x (.pair a b)

theorem repsOK_sub {nul : RuleId → Bool} {x y : Node} (h : Node.Sub x y) :
    repsOK nul y = true → repsOK nul x = true := by
  induction h with
  | refl => exact id
  | seq hm _ ih => intro hr; simp only [repsOK] at hr; exact ih (repsOKAll_mem hr hm)
  | choice hm _ ih => intro hr; simp only [repsOK] at hr; exact ih (repsOKAll_mem hr hm)
  | opt _ ih => intro hr; simp only [repsOK] at hr; exact ih hr
  | rep _ ih => intro hr; simp only [repsOK, Bool.and_eq_true] at hr; exact ih hr.2
  | atomicRepeat _ ih => intro hr; simp only [repsOK, Bool.and_eq_true] at hr; exact ih hr.2
  | pos _ ih => intro hr; simp only [repsOK] at hr; exact ih hr
  | neg _ ih => intro hr; simp only [repsOK] at hr; exact ih hr
  | push _ ih => intro hr; simp only [repsOK] at hr; exact ih hr
  | array _ ih => intro hr; simp only [repsOK] at hr; exact ih hr
  | pairL _ ih => intro hr; simp only [repsOK, Bool.and_eq_true] at hr; exact ih hr.1
  | pairR _ ih => intro hr; simp only [repsOK, Bool.and_eq_true] at hr; exact ih hr.2

/-- The nodes the theorem speaks about: sub-expressions of a rule body or of the skip type, and rule
references (the entry points). -/
def OccursIn (G : NodeGrammar) (x : Node) : Prop :=
  (∃ r d, G.rule? r = some d ∧ Node.Sub x d.body) ∨ Node.Sub x G.skipped ∨ (∃ r f, x = .ref r f)

theorem repsOK_of_occurs {G : NodeGrammar} {nul : RuleId → Bool} (hP : Progressing G nul) {x : Node}
    (h : OccursIn G x) : repsOK nul x = true := by
  rcases h with ⟨r, d, hd, hs⟩ | hs | ⟨r, f, rfl⟩
  · exact repsOK_sub hs (hP.1 r d hd)
  · exact repsOK_sub hs hP.2
  · simp [repsOK]

/-! ### helpers for the divergence witnesses and the entry points -/

theorem opt_never_fails (G : NodeGrammar) (uni : Uni) (x : Node) :
    ∀ n inh i m m', parse G uni n inh (.opt x) i m ≠ .fail m' := by
  intro n inh i m m'
  cases n with
  | zero => simp [parse]
  | succ n =>
    simp only [parse]
    split <;> exact nofun

/-- An unbounded repetition whose unit never fails exhausts every budget. -/
theorem repLoop_never_stops {α} (unit : Nat → Inp → M → R α) (hu : ∀ j i m m', unit j i m ≠ .fail m') :
    ∀ b idx i m acc, repLoop unit 0 none b idx i m acc = .oof := by
  intro b
  induction b with
  | zero => intro idx i m acc; rfl
  | succ b ih =>
    intro idx i m acc
    unfold repLoop
    simp only [reduceCtorEq, if_false]
    cases hr : unit idx i m with
    | oof => rfl
    | fail m' => exact absurd hr (hu _ _ _ _)
    | ok i' m' a => simp only [restoreOnNone]; exact ih _ _ _ _

theorem entryFuel_ref (G : NodeGrammar) (rank : RuleId → Nat) (L : Nat) (r : RuleId) (f : Flag) :
    fuelBound G rank L (depthN (.ref r f)) ≤ entryFuel G rank L := by
  unfold entryFuel fuelBound; simp only [depthN]; omega

/-- One unfolding step of a two-element atomic sequence on the check path. -/
theorem check_seq2_zero (G : NodeGrammar) (uni : Uni) (n : Nat) (inh : Bool) (a b : Node) (i : Inp) (m : M) :
    check G uni (n + 1) inh (.seq .zero [a, b]) i m =
      (match check G uni n inh a i m with
       | .oof => .oof
       | .fail m' => .fail m'
       | .ok i' m' _ =>
         match check G uni n inh b i' m' with
         | .oof => .oof
         | .fail m'' => .fail m''
         | .ok i'' m'' _ => .ok i'' m'' ()) := by
  simp only [check, seqLoopC, skipLoopC, skipCount_zero]
  cases check G uni n inh a i m with
  | oof => rfl
  | fail _ => rfl
  | ok i' m' _ =>
    simp only []
    cases check G uni n inh b i' m' <;> rfl

/-- A negative predicate over a literal that does not match succeeds without moving. -/
theorem check_neg_str_none (G : NodeGrammar) (uni : Uni) (n : Nat) (inh : Bool) (s : List Char) (i : Inp) (m : M)
    (h : i.matchString s = none) :
    check G uni (n + 2) inh (.neg (.str s)) i m =
      .ok i { stk := m.stk, trk := { { m.trk with positive := false } with positive := m.trk.positive } } () := by
  simp only [check, h]

end PestTyped
