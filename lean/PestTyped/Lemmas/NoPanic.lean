/-
Lemmas.NoPanic — the panic sites of the Rust code that the character-level model totalises, made
explicit, and the invariants that make them unreachable.

The result type `Res` of the model has no panic constructor; four places of the Rust code could
panic (or take a branch commented "impossible") where the model has a total definition:

(a) `Tracker::record_during_with` pops its frame with `self.stack.pop().unwrap()` (`tracker.rs:170`);
    the model's `Tracker.leave` returns the tracker unchanged on an empty rule stack.
    Here: `Tracker.leave?` (`none` = the `unwrap` panics), `recordDuring?` (the framed `.ref` arm
    written with `leave?`), the FRAME BALANCE invariant (`parse_frames`, from `parse_stack` of
    `Lemmas/TrackerTrace`): a run leaves the list of `(rule, pos)` frames as it found it, hence the
    body of a framed rule returns with the frame its `enter` pushed on top (`body_frame`), and the
    panic-aware arm never panics (`recordDuring?_ref`).
(b) `stack_slice` indexes `stack[range]` (`predefined_node/mod.rs:279`), which panics unless
    `start ≤ end ≤ len`; the model's `stackSlice` is `drop`/`take`, total.  Here: `sliceIdx?`
    (`none` = panic), `peekSliceArm?` and `peekSliceArm?_eq` (with `constrainIdxs_le` of `Lemmas/StackOps`).
(c) `CharRange::try_parse_partial_with` takes `span.as_str().chars().next().unwrap()` after a
    successful `match_range` (`mod.rs:239`).  Here: `matchRange_one` (exactly one character is
    consumed, the span text is `[c]`), `charRangeArm?` and `charRangeArm?_eq`.
(d) `[T; N]::try_parse_partial_with` converts the collected `Vec` with `vec.try_into()` and returns
    `None` in the branch commented "Actually impossible" (`typed_node.rs:173`).  Here:
    `arrayLoop_length`: a successful loop returns exactly `N` values.
-/
import PestTyped.Lemmas.TrackerTrace
import PestTyped.Lemmas.RepLoop
import PestTyped.Lemmas.StackOps
namespace PestTyped

/-! ## (a) the frame stack of the tracker -/

namespace Tracker

/-- `record_during_with`, second half, as the Rust writes it: `self.stack.pop().unwrap()`.
`none` = the `unwrap` panics (empty rule stack). -/
def leave? (t : Tracker) (rule : RuleId) (pos : Nat) (succeeded : Bool) : Option Tracker :=
  match t.stack with
  | [] => none
  | (_, _, hasChildren) :: rest =>
    let t := { t with stack := rest }
    some (if hasChildren then t else t.record rule pos succeeded)

theorem leave?_eq_none_iff (t : Tracker) (rule : RuleId) (pos : Nat) (succeeded : Bool) :
    t.leave? rule pos succeeded = none ↔ t.stack = [] := by
  unfold leave?
  split
  · next h => simp [h]
  · next h => simp [h]

/-- Where the `unwrap` does not panic, the model's total `leave` is what the Rust computes. -/
theorem leave?_eq_some {t : Tracker} (h : t.stack ≠ []) (rule : RuleId) (pos : Nat) (succeeded : Bool) :
    t.leave? rule pos succeeded = some (t.leave rule pos succeeded) := by
  unfold leave? leave
  cases hs : t.stack with
  | nil => exact absurd hs h
  | cons x rest => obtain ⟨r0, p0, hc⟩ := x; rfl

theorem leave?_isSome_iff (t : Tracker) (rule : RuleId) (pos : Nat) (succeeded : Bool) :
    (t.leave? rule pos succeeded).isSome = true ↔ t.stack ≠ [] := by
  have h := leave?_eq_none_iff t rule pos succeeded
  show _ ↔ ¬ (t.stack = [])
  rw [← h]
  cases t.leave? rule pos succeeded <;> simp

end Tracker

/-- The frames of the rule stack without their `has_children` flags. -/
def frames (st : List (RuleId × Nat × Bool)) : List (RuleId × Nat) := st.map (fun e => (e.1, e.2.1))

theorem frames_markIf (b : Bool) (st : List (RuleId × Nat × Bool)) : frames (markIf b st) = frames st := by
  cases st with
  | nil => rfl
  | cons x rest => obtain ⟨r, p, fl⟩ := x; rfl

theorem length_markIf (b : Bool) (st : List (RuleId × Nat × Bool)) : (markIf b st).length = st.length := by
  cases st with
  | nil => rfl
  | cons x rest => obtain ⟨r, p, fl⟩ := x; rfl

theorem frames_length (st : List (RuleId × Nat × Bool)) : (frames st).length = st.length := by
  simp [frames]

/-- FRAME BALANCE: every run that returns (failure or success) leaves the frames of the tracker's
rule stack exactly as it found them — every `enter` of the run was matched by its `leave`. -/
theorem parse_frames (g : NodeGrammar) (uni : Uni) (n : Nat) (inh : Bool) (node : Node) (i : Inp) (m : M) :
    RlOk (fun t => frames t.stack = frames m.trk.stack) (parse g uni n inh node i m) :=
  (parse_stack g uni n inh node i m).mono (fun t h => by rw [h, frames_markIf])

theorem check_frames (g : NodeGrammar) (uni : Uni) (n : Nat) (inh : Bool) (node : Node) (i : Inp) (m : M) :
    RlOk (fun t => frames t.stack = frames m.trk.stack) (check g uni n inh node i m) := by
  rw [check_eq_parse_forget]; exact (parse_frames g uni n inh node i m).forget

/-- The body of a framed rule, entered through `enter`, returns with the frame `(r, pos, _)` that
`enter` pushed on top of the (marked) stack of the caller; its flag says whether the body called a
framed rule. -/
theorem body_frame (g : NodeGrammar) (uni : Uni) (n : Nat) (inh' : Bool) (body : Node) (r : RuleId)
    (i : Inp) (m : M) :
    RlOk (fun t => t.stack =
        (r, i.pos, !(evs g uni n inh' body i { m with trk := m.trk.enter r i.pos }).isEmpty) ::
          markIf true m.trk.stack)
      (parse g uni n inh' body i { m with trk := m.trk.enter r i.pos }) :=
  (parse_stack g uni n inh' body i { m with trk := m.trk.enter r i.pos }).mono (fun t h => by
    rw [h]
    show markIf _ (m.trk.enter r i.pos).stack = _
    rw [Tracker.enter_stack]
    simp [markIf])

/-- The framed `.ref` arm of both interpreters as the Rust executes it (`record_during_with`):
the frame is popped with `unwrap` (`leave?`); `none` = panic.  `body` is the result of the body
run (value forgotten). -/
def recordDuring? (body : R Unit) (r : RuleId) (pos : Nat) : Option (R Unit) :=
  match body with
  | .oof => some .oof
  | .fail m' => (m'.trk.leave? r pos false).map (fun t => .fail { m' with trk := t })
  | .ok i' m' _ => (m'.trk.leave? r pos true).map (fun t => .ok i' { m' with trk := t } ())

/-- The panic-aware arm never panics and computes what the model's total arm computes. -/
theorem recordDuring?_ref (g : NodeGrammar) (uni : Uni) (n : Nat) (inh : Bool) (r : RuleId) (f : Flag)
    (d : RuleDef) (i : Inp) (m : M) (hd : g.rule? r = some d) (he : d.emit ≠ .expression) :
    recordDuring? (parse g uni n (f.eval inh) d.body i { m with trk := m.trk.enter r i.pos }).forget r i.pos =
      some (parse g uni (n+1) inh (.ref r f) i m).forget := by
  have hb := body_frame g uni n (f.eval inh) d.body r i m
  have hc := check_eq_parse_forget g uni n (f.eval inh) d.body i { m with trk := m.trk.enter r i.pos }
  cases hemit : d.emit with
  | expression => exact absurd hemit he
  | span =>
    simp only [parse, hd, hemit, hc]
    cases hp : parse g uni n (f.eval inh) d.body i { m with trk := m.trk.enter r i.pos } with
    | oof => rfl
    | fail m' =>
      rw [hp] at hb
      have hne : m'.trk.stack ≠ [] := by rw [show m'.trk.stack = _ from hb]; simp
      simp only [Res.forget, recordDuring?, Tracker.leave?_eq_some hne, Option.map_some]
    | ok i' m' v =>
      rw [hp] at hb
      have hne : m'.trk.stack ≠ [] := by rw [show m'.trk.stack = _ from hb]; simp
      simp only [Res.forget, recordDuring?, Tracker.leave?_eq_some hne, Option.map_some]
  | both =>
    simp only [parse, hd, hemit]
    cases hp : parse g uni n (f.eval inh) d.body i { m with trk := m.trk.enter r i.pos } with
    | oof => rfl
    | fail m' =>
      rw [hp] at hb
      have hne : m'.trk.stack ≠ [] := by rw [show m'.trk.stack = _ from hb]; simp
      simp only [Res.forget, recordDuring?, Tracker.leave?_eq_some hne, Option.map_some]
    | ok i' m' v =>
      rw [hp] at hb
      have hne : m'.trk.stack ≠ [] := by rw [show m'.trk.stack = _ from hb]; simp
      simp only [Res.forget, recordDuring?, Tracker.leave?_eq_some hne, Option.map_some]

/-- The tracker (and verdict) `leave` is applied to at the end of the logged call `ev`, if the body
run of that call returns. -/
def Ev.leaveArg (g : NodeGrammar) (uni : Uni) (ev : Ev) : Option (Tracker × Bool) :=
  match ev.n with
  | 0 => none
  | n+1 =>
    match g.rule? ev.r with
    | none => none
    | some d =>
      match parse g uni n (ev.f.eval ev.inh) d.body ev.i { ev.m with trk := ev.m.trk.enter ev.r ev.i.pos } with
      | .oof => none
      | .fail m' => some (m'.trk, false)
      | .ok _ m' _ => some (m'.trk, true)

/-- Whatever the state of a call of a framed rule, the `leave` at its end finds the frame the
matching `enter` pushed. -/
theorem Ev.leaveArg_frame (g : NodeGrammar) (uni : Uni) (ev : Ev) (t : Tracker) (s : Bool)
    (h : ev.leaveArg g uni = some (t, s)) :
    ∃ hc, t.stack = (ev.r, ev.i.pos, hc) :: markIf true ev.m.trk.stack := by
  obtain ⟨n, inh, r, f, i, m⟩ := ev
  unfold Ev.leaveArg at h
  cases n with
  | zero => cases h
  | succ n =>
    simp only [] at h
    cases hd : g.rule? r with
    | none => rw [hd] at h; cases h
    | some d =>
      rw [hd] at h
      simp only [] at h
      have hb := body_frame g uni n (f.eval inh) d.body r i m
      cases hp : parse g uni n (f.eval inh) d.body i { m with trk := m.trk.enter r i.pos } with
      | oof => rw [hp] at h; cases h
      | fail m' =>
        rw [hp] at h hb
        injection h with h; injection h with h1 h2; subst h1
        exact ⟨_, hb⟩
      | ok i' m' v =>
        rw [hp] at h hb
        injection h with h; injection h with h1 h2; subst h1
        exact ⟨_, hb⟩

/-- The end-of-input attempt of the full-parse wrappers (`eoiStep`): `leave` is applied right after
`enter`, the frame is there. -/
theorem Tracker.enter_leave? (t : Tracker) (rule : RuleId) (pos : Nat) (succeeded : Bool) :
    (t.enter rule pos).leave? rule pos succeeded = some ((t.enter rule pos).leave rule pos succeeded) :=
  Tracker.leave?_eq_some (by rw [Tracker.enter_stack]; simp) _ _ _

theorem Tracker.enter_leave_stack (t : Tracker) (rule : RuleId) (pos : Nat) (succeeded : Bool) :
    ((t.enter rule pos).leave rule pos succeeded).stack = markIf true t.stack := by
  rw [Tracker.leave_stack, Tracker.enter_stack]; rfl

/-- The entry points start with an empty rule stack and end with an empty rule stack. -/
theorem tryParse_stack_empty (g : NodeGrammar) (uni : Uni) (n : Nat) (r : RuleId) (i : Inp) :
    RlOk (fun t => t.stack = []) (tryParse g uni n r i) := by
  unfold tryParse
  cases hd : g.rule? r with
  | none => rfl
  | some d =>
    simp only []
    have h1 := parse_stack g uni n true (.ref r .one) i (M.init i)
    cases hr : parse g uni n true (.ref r .one) i (M.init i) with
    | oof => trivial
    | fail m' => rw [hr] at h1; exact h1
    | ok i' m' v =>
      rw [hr] at h1
      have h1' : m'.trk.stack = [] := h1
      simp only [eoiStep]
      by_cases hts : noTrailingSkip r d = true
      · simp only [hts, if_true]
        have h2 : ((m'.trk.enter 0 i'.pos).leave 0 i'.pos i'.atEnd).stack = [] := by
          rw [Tracker.enter_leave_stack, h1']; rfl
        exact RlOk.ite h2 h2
      · have hts' : noTrailingSkip r d = false := by simpa using hts
        simp only [hts', Bool.false_eq_true, if_false]
        have h2 := parse_stack g uni n false g.skipped i' m'
        cases hr2 : parse g uni n false g.skipped i' m' with
        | oof => trivial
        | fail m'' =>
          rw [hr2] at h2
          show m''.trk.stack = []
          rw [show m''.trk.stack = _ from h2, h1']; rfl
        | ok i'' m'' sv =>
          rw [hr2] at h2
          have h2' : m''.trk.stack = [] := by rw [show m''.trk.stack = _ from h2, h1']; rfl
          have h3 : ((m''.trk.enter 0 i''.pos).leave 0 i''.pos i''.atEnd).stack = [] := by
            rw [Tracker.enter_leave_stack, h2']; rfl
          exact RlOk.ite h3 h3

theorem tryParsePartial_stack_empty (g : NodeGrammar) (uni : Uni) (n : Nat) (r : RuleId) (i : Inp) :
    RlOk (fun t => t.stack = []) (tryParsePartial g uni n r i) :=
  (parse_stack g uni n true (.ref r .one) i (M.init i)).mono (fun t h => by rw [h]; rfl)

/-! ## (b) `stack[range]` -/

-- `constrainIdxs_le` (both ends of the range `constrain_idxs` returns are within the stack): `Lemmas/StackOps`.

/-- `v[lo..hi]` on a `Vec` / slice `v`: `none` = the index expression panics
(`slice index starts at lo but ends at hi`, `range end index hi out of range for slice of length len`). -/
def sliceIdx? {α} (v : List α) (lo hi : Nat) : Option (List α) :=
  if lo ≤ hi ∧ hi ≤ v.length then some ((v.drop lo).take (hi - lo)) else none

theorem sliceIdx?_eq_some {α} (v : List α) {lo hi : Nat} (h1 : lo ≤ hi) (h2 : hi ≤ v.length) :
    sliceIdx? v lo hi = some ((v.drop lo).take (hi - lo)) := by
  unfold sliceIdx?; rw [if_pos ⟨h1, h2⟩]

/-- `PeekSlice2` / `PeekSlice1` (`stack_slice` then `peek_spans`) as the Rust executes it; the Rust
`Vec` is bottom-first, i.e. `m.stk.reverse`.  `none` = the index expression panics. -/
def peekSliceArm? (a : Int) (b : Option Int) (i : Inp) (m : M) : Option (R Val) :=
  match constrainIdxs a b m.stk.length with
  | none => some (.fail { m with trk := m.trk.outOfBound i a b })
  | some (lo, hi) =>
    if hi ≤ lo then some (.ok i m (.leaf .peekSlice))
    else
      match sliceIdx? m.stk.reverse lo hi with
      | none => none
      | some sl =>
        some (match peekSpans sl i with
          | some i' => .ok i' m (.leaf .peekSlice)
          | none => .fail m)

theorem peekSliceArm?_eq (g : NodeGrammar) (uni : Uni) (n : Nat) (inh : Bool) (a : Int) (b : Option Int)
    (i : Inp) (m : M) :
    peekSliceArm? a b i m = some (parse g uni (n+1) inh (.peekSlice a b) i m) := by
  simp only [parse, peekSliceArm?]
  cases hc : constrainIdxs a b m.stk.length with
  | none => rfl
  | some p =>
    obtain ⟨lo, hi⟩ := p
    simp only []
    by_cases hle : hi ≤ lo
    · simp only [hle, if_true]
    · simp only [hle, if_false]
      have hb := constrainIdxs_le hc
      rw [sliceIdx?_eq_some _ (by omega) (by rw [List.length_reverse]; exact hb.2)]
      simp only [stackSlice]
      cases peekSpans (List.take (hi - lo) (List.drop lo m.stk.reverse)) i <;> rfl

/-! ## (c) `chars().next().unwrap()` after `match_range` -/

/-- A successful `match_range` consumes exactly one character, the one it reports: the span between
the two cursors has the one-character text `[c]`. -/
theorem matchRange_one {lo hi : Char} {i i' : Inp} {c : Char} (h : i.matchRange lo hi = some (i', c)) :
    ∃ cs, i.rest = c :: cs ∧ i' = i.adv 1 ∧ (i.spanTo i').txt = [c] ∧ (lo ≤ c ∧ c ≤ hi) := by
  unfold Inp.matchRange Inp.matchCharBy at h
  split at h
  · cases h
  · next c' cs hr =>
    split at h
    · next hp =>
      injection h with h; injection h with h1 h2; subst h1; subst h2
      refine ⟨cs, hr, rfl, ?_, by simpa using hp⟩
      simp [Inp.spanTo, Inp.adv, hr]
    · cases h

/-- `CharRange::try_parse_partial_with` as the Rust executes it: after `match_range` the content is
`span.as_str().chars().next().unwrap()`; `none` = the `unwrap` panics (empty span). -/
def charRangeArm? (lo hi : Char) (i : Inp) (m : M) : Option (R Val) :=
  match i.matchRange lo hi with
  | some (i', _) =>
    match (i.spanTo i').txt.head? with
    | some c => some (.ok i' m (.leaf (.charRange c)))
    | none => none
  | none => some (.fail m)

theorem charRangeArm?_eq (g : NodeGrammar) (uni : Uni) (n : Nat) (inh : Bool) (lo hi : Char) (i : Inp) (m : M) :
    charRangeArm? lo hi i m = some (parse g uni (n+1) inh (.range lo hi) i m) := by
  simp only [parse, charRangeArm?]
  cases hm : i.matchRange lo hi with
  | none => rfl
  | some p =>
    obtain ⟨i', c⟩ := p
    obtain ⟨cs, _, _, ht, _⟩ := matchRange_one hm
    simp only [ht, List.head?_cons]

/-! ## (d) `[T; N]`: `vec.try_into()` -/

/-- A successful `[T; N]` loop started with an empty accumulator returns exactly `N` values: the
`Err(_) => None` branch of `vec.try_into()` ("Actually impossible") is never taken. -/
theorem arrayLoop_length {α} (f : Inp → M → R α) (k : Nat) (i : Inp) (m : M) (i' : Inp) (m' : M) (vs : List α)
    (h : arrayLoop f k i m [] = .ok i' m' vs) : vs.length = k := by
  obtain ⟨vs', e, hl, _⟩ := (arrayLoop_ok_iff f k i m [] i' m' vs).mp h
  simp only [List.reverse_nil, List.nil_append] at e
  rw [e]; exact hl

end PestTyped
