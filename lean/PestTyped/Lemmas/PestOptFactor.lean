/-
Lemmas.PestOptFactor — pest_meta's `factor` pass (`optimizer/factorizer.rs`; mirror: `factorClosure`,
`factorExpr` of `Model/PestOpt.lean`) preserves the reference semantics `spec` (`Model/Spec.lean`), in a
fixed grammar, in the sense of `SpecEquiv` (`Lemmas/SpecDen.lean`: same definite answers, same termination).

The closure has three arms:
 (a) `(l ~ r1) | (l ~ r2)  ↦  l ~ (r1 | r2)`      every rule kind, every flag      `factor_common_prefix_equiv`
 (b) `(l ~ r) | l          ↦  l ~ r?`             only in `@`/`$` rules: `na = false` `factor_opt_equiv`
 (c) `l | (l ~ r)          ↦  l`                  every rule kind, every flag      `factor_absorb_equiv`
PEG argument: `l` is deterministic (`Den.det`) and so is the implicit skip (`DenSkipIf.det`), which never
fails; the stack of the reference semantics is immutable, so the second alternative restarts from the very
state the first one started from.

Arm (b) is restricted by pest_meta to atomic / compound-atomic rules for a reason: with implicit skipping
`"a" ~ "b"?` consumes the blanks after `"a"` even when `"b"` is absent, `("a" ~ "b") | "a"` does not
(`factor_optarm_not_sound_nonatomic`).

Theorems: `factor_common_prefix_equiv`, `factor_opt_equiv`, `factor_absorb_equiv`, `factorClosure_equiv`,
`factorExpr_equiv`, `factorExpr_equiv_body`, `factor_optarm_not_sound_nonatomic`
(+ `factor_optarm_not_sound_nonatomic_ex`), non-vacuity examples at the end.
-/
import PestTyped.Lemmas.PestOptTraversal
namespace PestTyped

section
variable {g : PGrammar} {uni : Uni} {na : Bool}

/-- A failure and a success of the same computation. -/
private theorem factor_fail_ok_absurd {e : PExpr} {i : Inp} {S : List Sp} {i' : Inp} {S' : List Sp} {P : Prop}
    (h : Den g uni na e i S .fail) (h' : Den g uni na e i S (.ok i' S')) : P :=
  SR.noConfusion (Den.det h h')

/-- Two successes of the same computation end in the same state. -/
private theorem factor_ok_ok {e : PExpr} {i : Inp} {S : List Sp} {i1 i2 : Inp} {S1 S2 : List Sp}
    (h : Den g uni na e i S (.ok i1 S1)) (h' : Den g uni na e i S (.ok i2 S2)) : i1 = i2 ∧ S1 = S2 := by
  have := Den.det h h'
  injection this with h1 h2
  exact ⟨h1, h2⟩

private theorem factor_skip_ok_ok {i : Inp} {S : List Sp} {i1 i2 : Inp} {S1 S2 : List Sp}
    (h : DenSkipIf g uni na i S (.ok i1 S1)) (h' : DenSkipIf g uni na i S (.ok i2 S2)) : i1 = i2 ∧ S1 = S2 := by
  have := DenSkipIf.det h h'
  injection this with h1 h2
  exact ⟨h1, h2⟩

/-- Arm (a): `(l ~ r1) | (l ~ r2)  ≡  l ~ (r1 | r2)`, whatever the atomicity. -/
theorem factor_common_prefix_equiv (g : PGrammar) (uni : Uni) (na : Bool) (l r1 r2 : PExpr) :
    SpecEquiv g g uni na (.choice (.seq l r1) (.seq l r2)) (.seq l (.choice r1 r2)) := by
  intro i S r
  constructor
  · intro h
    rcases Den_choice.mp h with ⟨i', S', h1, rfl⟩ | ⟨h1, h2⟩
    · rcases Den_seq.mp h1 with ⟨_, hc⟩ | ⟨i1, S1, i2, S2, hl, hs, hr1⟩
      · cases hc
      · exact Den_seq.mpr (.inr ⟨i1, S1, i2, S2, hl, hs, Den_choice.mpr (.inl ⟨i', S', hr1, rfl⟩)⟩)
    · rcases Den_seq.mp h1 with ⟨hl, _⟩ | ⟨i1, S1, i2, S2, hl, hs, hr1⟩
      · rcases Den_seq.mp h2 with ⟨_, rfl⟩ | ⟨i1', S1', i2', S2', hl', _, _⟩
        · exact Den_seq.mpr (.inl ⟨hl, rfl⟩)
        · exact factor_fail_ok_absurd hl hl'
      · rcases Den_seq.mp h2 with ⟨hl', _⟩ | ⟨i1', S1', i2', S2', hl', hs', hr2⟩
        · exact factor_fail_ok_absurd hl' hl
        · obtain ⟨e1, e2⟩ := factor_ok_ok hl hl'
          subst e1; subst e2
          obtain ⟨e1, e2⟩ := factor_skip_ok_ok hs hs'
          subst e1; subst e2
          exact Den_seq.mpr (.inr ⟨i1, S1, i2, S2, hl, hs, Den_choice.mpr (.inr ⟨hr1, hr2⟩)⟩)
  · intro h
    rcases Den_seq.mp h with ⟨hl, rfl⟩ | ⟨i1, S1, i2, S2, hl, hs, hc⟩
    · exact Den_choice.mpr (.inr ⟨Den_seq.mpr (.inl ⟨hl, rfl⟩), Den_seq.mpr (.inl ⟨hl, rfl⟩)⟩)
    · rcases Den_choice.mp hc with ⟨i', S', hr1, rfl⟩ | ⟨hr1, hr2⟩
      · exact Den_choice.mpr (.inl ⟨i', S', Den_seq.mpr (.inr ⟨i1, S1, i2, S2, hl, hs, hr1⟩), rfl⟩)
      · exact Den_choice.mpr (.inr ⟨Den_seq.mpr (.inr ⟨i1, S1, i2, S2, hl, hs, hr1⟩),
          Den_seq.mpr (.inr ⟨i1, S1, i2, S2, hl, hs, hr2⟩)⟩)

/-- Arm (b): `(l ~ r) | l  ≡  l ~ r?` in an ATOMIC context (no implicit skip between `l` and `r`). -/
theorem factor_opt_equiv (g : PGrammar) (uni : Uni) (l r : PExpr) :
    SpecEquiv g g uni false (.choice (.seq l r) l) (.seq l (.opt r)) := by
  intro i S r0
  constructor
  · intro h
    rcases Den_choice.mp h with ⟨i', S', h1, rfl⟩ | ⟨h1, h2⟩
    · rcases Den_seq_atomic.mp h1 with ⟨_, hc⟩ | ⟨i1, S1, hl, hr⟩
      · cases hc
      · exact Den_seq_atomic.mpr (.inr ⟨i1, S1, hl, Den_opt.mpr (.inr ⟨i', S', hr, rfl⟩)⟩)
    · rcases Den_seq_atomic.mp h1 with ⟨hl, _⟩ | ⟨i1, S1, hl, hr⟩
      · have := Den.det h2 hl
        subst this
        exact Den_seq_atomic.mpr (.inl ⟨hl, rfl⟩)
      · have := Den.det h2 hl
        subst this
        exact Den_seq_atomic.mpr (.inr ⟨i1, S1, hl, Den_opt.mpr (.inl ⟨hr, rfl⟩)⟩)
  · intro h
    rcases Den_seq_atomic.mp h with ⟨hl, rfl⟩ | ⟨i1, S1, hl, ho⟩
    · exact Den_choice.mpr (.inr ⟨Den_seq_atomic.mpr (.inl ⟨hl, rfl⟩), hl⟩)
    · rcases Den_opt.mp ho with ⟨hr, rfl⟩ | ⟨i', S', hr, rfl⟩
      · exact Den_choice.mpr (.inr ⟨Den_seq_atomic.mpr (.inr ⟨i1, S1, hl, hr⟩), hl⟩)
      · exact Den_choice.mpr (.inl ⟨i', S', Den_seq_atomic.mpr (.inr ⟨i1, S1, hl, hr⟩), rfl⟩)

/-- Arm (c): `l | (l ~ r)  ≡  l`, whatever the atomicity: when `l` fails so does `l ~ r`. -/
theorem factor_absorb_equiv (g : PGrammar) (uni : Uni) (na : Bool) (l r : PExpr) :
    SpecEquiv g g uni na (.choice l (.seq l r)) l := by
  intro i S r0
  constructor
  · intro h
    rcases Den_choice.mp h with ⟨i', S', hl, rfl⟩ | ⟨hl, h2⟩
    · exact hl
    · rcases Den_seq.mp h2 with ⟨_, rfl⟩ | ⟨i1, S1, i2, S2, hl', _, _⟩
      · exact hl
      · exact factor_fail_ok_absurd hl hl'
  · intro h
    cases r0 with
    | oof => exact absurd rfl h.ne_oof
    | fail => exact Den_choice.mpr (.inr ⟨h, Den_seq.mpr (.inl ⟨h, rfl⟩)⟩)
    | ok i' S' => exact Den_choice.mpr (.inl ⟨i', S', h, rfl⟩)

end

/-- The closure of `factor` is sound at every node, under every flag a rule body of kind `kind` can run
with (`hna`: the bodies of `@` and `$` rules run atomically, see `factorExpr_equiv_body`). -/
theorem factorClosure_equiv (g : PGrammar) (uni : Uni) (kind : RuleKind) (na : Bool)
    (hna : (kind = .atomic ∨ kind = .compoundAtomic) → na = false) :
    ∀ e, SpecEquiv g g uni na e (factorClosure kind e) := by
  intro e
  unfold factorClosure
  split
  · split
    · next h => subst h; exact factor_common_prefix_equiv g uni na _ _ _
    · exact SpecEquiv.refl _ _ _ _
  · split
    · next hk =>
      split
      · next h =>
        subst h
        rw [hna hk]
        exact factor_opt_equiv g uni _ _
      · exact SpecEquiv.refl _ _ _ _
    · exact SpecEquiv.refl _ _ _ _
  · split
    · next h => subst h; exact factor_absorb_equiv g uni na _ _
    · exact SpecEquiv.refl _ _ _ _
  · exact SpecEquiv.refl _ _ _ _

/-- The `factor` pass on an expression (top-down traversal) preserves the reference semantics. -/
theorem factorExpr_equiv (g : PGrammar) (uni : Uni) (kind : RuleKind) (na : Bool)
    (hna : (kind = .atomic ∨ kind = .compoundAtomic) → na = false) (e : PExpr) :
    SpecEquiv g g uni na e (factorExpr kind e) :=
  mapTopDown_equiv (factorClosure kind) (factorClosure_equiv g uni kind na hna) (e.size + 1) e

/-- The flag a rule body of an `@` / `$` rule runs under is `false`, whatever the rule name and the
flag of the caller. -/
theorem factor_bodyNa_atomic (name : String) (kind : RuleKind) (na : Bool)
    (hk : kind = .atomic ∨ kind = .compoundAtomic) : bodyNa name kind na = false := by
  unfold bodyNa
  split
  · rfl
  · rcases hk with rfl | rfl <;> rfl

/-- `factor` on the body of rule `name` of kind `kind`, under the flag that body runs with when the rule
is entered under `na`. -/
theorem factorExpr_equiv_body (g : PGrammar) (uni : Uni) (name : String) (kind : RuleKind) (na : Bool)
    (e : PExpr) : SpecEquiv g g uni (bodyNa name kind na) e (factorExpr kind e) :=
  factorExpr_equiv g uni kind (bodyNa name kind na) (factor_bodyNa_atomic name kind na) e

/-! ### why arm (b) is restricted to atomic rules -/

namespace PestOptFactor.Ex

def uni0 : Uni := fun _ _ => false

/-- `WHITESPACE = " "`. -/
def gW : PGrammar := [⟨"WHITESPACE", .normal, .str [' ']⟩]

def inp (s : List Char) : Inp := ⟨0, 0, s, []⟩

/-- `("a" ~ "b") | "a"` -/
def eLong : PExpr := .choice (.seq (.str ['a']) (.str ['b'])) (.str ['a'])
/-- `"a" ~ "b"?` -/
def eOpt : PExpr := .seq (.str ['a']) (.opt (.str ['b']))

end PestOptFactor.Ex

open PestOptFactor.Ex in
/-- With implicit skipping, on `"a "`: `("a" ~ "b") | "a"` stops after the `a`, `"a" ~ "b"?` also consumes
the blank. -/
theorem factor_optarm_not_sound_nonatomic_ex : ¬ SpecEquiv gW gW uni0 true eLong eOpt := fun h =>
  absurd (h.agree 4 4 (inp ['a', ' ']) [] (by decide) (by decide)) (by decide)

/-- Arm (b) of the `factor` closure would be unsound under `na = true`. -/
theorem factor_optarm_not_sound_nonatomic :
    ¬ ∀ (g : PGrammar) (uni : Uni) (l r : PExpr), SpecEquiv g g uni true (.choice (.seq l r) l) (.seq l (.opt r)) :=
  fun h => factor_optarm_not_sound_nonatomic_ex (h _ _ _ _)

/-! ### non-vacuity -/

namespace PestOptFactor.Ex

/-- the two answers behind `factor_optarm_not_sound_nonatomic_ex`. -/
example : spec gW uni0 4 true eLong (inp ['a', ' ']) [] = .ok ⟨0, 1, [' '], []⟩ [] := by decide
example : spec gW uni0 4 true eOpt (inp ['a', ' ']) [] = .ok ⟨0, 2, [], []⟩ [] := by decide
/-- atomically they agree (instance of `factor_opt_equiv`). -/
example : spec gW uni0 4 false eLong (inp ['a', ' ']) [] = spec gW uni0 4 false eOpt (inp ['a', ' ']) [] := by
  decide

/-- `("a" ~ "b") | ("a" ~ "c") | "a"` as rotated by `rotate`: `("a" ~ "b") | (("a" ~ "c") | "a")`. -/
def e3 : PExpr :=
  .choice (.seq (.str ['a']) (.str ['b'])) (.choice (.seq (.str ['a']) (.str ['c'])) (.str ['a']))

/-- in an `@` rule the inner choice is factored by arm (b) (the outer one matches no arm). -/
example : factorExpr .atomic e3 =
    .choice (.seq (.str ['a']) (.str ['b'])) (.seq (.str ['a']) (.opt (.str ['c']))) := by decide
/-- in a normal rule it is left alone. -/
example : factorExpr .normal e3 = e3 := by decide

/-- `("a" ~ "b") | ("a" ~ "c")`: arm (a), every kind. -/
example : factorExpr .normal (.choice (.seq (.str ['a']) (.str ['b'])) (.seq (.str ['a']) (.str ['c']))) =
    .seq (.str ['a']) (.choice (.str ['b']) (.str ['c'])) := by decide

/-- `(("a" ~ "b") | ("a" ~ "c")) | "a"` (left-nested): top-down, arm (b) at the root first, then arm (a) has
nothing left to do below (the children of the result are `"a"`-free of choices). -/
example : factorExpr .atomic
    (.choice (.seq (.str ['a']) (.choice (.str ['b']) (.str ['c']))) (.str ['a'])) =
    .seq (.str ['a']) (.opt (.choice (.str ['b']) (.str ['c']))) := by decide

/-- `"a" | ("a" ~ "b")`: arm (c), every kind. -/
example : factorExpr .nonAtomic (.choice (.str ['a']) (.seq (.str ['a']) (.str ['b']))) = .str ['a'] := by decide

/-- nested: the traversal reaches inner nodes (`("x" ~ (("a" ~ "b") | ("a" ~ "c")))*`). -/
example : factorExpr .normal
    (.rep (.seq (.str ['x']) (.choice (.seq (.str ['a']) (.str ['b'])) (.seq (.str ['a']) (.str ['c']))))) =
    .rep (.seq (.str ['x']) (.seq (.str ['a']) (.choice (.str ['b']) (.str ['c'])))) := by decide

/-- the theorem instantiated: `e3` and its factored form, in the body of an `@` rule. -/
example : SpecEquiv gW gW uni0 false e3
    (.choice (.seq (.str ['a']) (.str ['b'])) (.seq (.str ['a']) (.opt (.str ['c'])))) := by
  have h := factorExpr_equiv_body gW uni0 "r" .atomic true e3
  have h1 : factorExpr .atomic e3 =
      .choice (.seq (.str ['a']) (.str ['b'])) (.seq (.str ['a']) (.opt (.str ['c']))) := by decide
  have h2 : bodyNa "r" .atomic true = false := factor_bodyNa_atomic _ _ _ (.inl rfl)
  rw [h1, h2] at h
  exact h

/-- … and the two sides do compute the same definite answer on `"ac"`. -/
example : spec gW uni0 5 false e3 (inp ['a', 'c']) [] = .ok ⟨0, 2, [], []⟩ [] ∧
    spec gW uni0 5 false (factorExpr .atomic e3) (inp ['a', 'c']) [] = .ok ⟨0, 2, [], []⟩ [] := by decide

/-- the hypothesis `hna` of `factorClosure_equiv` is satisfiable with `na = true` for the other kinds. -/
example : SpecEquiv gW gW uni0 true e3 (factorExpr .normal e3) :=
  factorExpr_equiv gW uni0 .normal true (by intro h; rcases h with h | h <;> cases h) e3

end PestOptFactor.Ex

end PestTyped
