/-
Lemmas.PestOptLemmas — structural facts about the mirror of pest_meta's optimizer (`Model/PestOpt.lean`)
that do not involve the semantics: the staged form of `optimize`, and the irrelevance of the fuel of
`mapTopDown` (the Rust `map_top_down` is not structurally recursive; the three closures used top-down
never increase the size of an expression, so a fuel of `e.size` suffices and any larger fuel gives the
same result).  The semantic lemmas (each pass preserves `spec`) are in `Lemmas/PestOpt*.lean` on top of
`Lemmas/SpecDen.lean`; the property-level statements are in `Props/C20Opt.lean`.
-/
import PestTyped.Model.PestOpt
namespace PestTyped

/-! ### `optimize` is the composition of the seven grammar-level passes -/

theorem optimizeStage1_eq (raw : PGrammar) :
    passList (passFactor (passConcatenate (passUnroll (passSkip raw (passRotate raw))))) =
      raw.map (optimizeRule1 raw) := by
  simp [passList, passFactor, passConcatenate, passUnroll, passSkip, passRotate, List.map_map, optimizeRule1,
    Function.comp_def]

/-- `optimize = restore ∘ list ∘ factor ∘ concatenate ∘ unroll ∘ skip ∘ rotate` (pest_meta's order,
`optimizer/mod.rs:33-51`). -/
theorem optimize_eq_staged (raw : PGrammar) : optimize raw = optimizeStaged raw := by
  unfold optimize optimizeStaged
  rw [optimizeStage1_eq]
  rfl

/-- Every pass keeps the names and kinds of the rules, position by position. -/
theorem optimize_names (raw : PGrammar) : (optimize raw).map (·.name) = raw.map (·.name) := by
  simp [optimize, optimizeRule1, List.map_map, Function.comp_def]

theorem optimize_kinds (raw : PGrammar) : (optimize raw).map (·.kind) = raw.map (·.kind) := by
  simp [optimize, optimizeRule1, List.map_map, Function.comp_def]

theorem optimize_length (raw : PGrammar) : (optimize raw).length = raw.length := by
  simp [optimize]

/-! ### sizes -/

theorem PExpr.size_pos (e : PExpr) : 0 < e.size := by
  cases e <;> simp [PExpr.size]

theorem rotSeq_size : ∀ (l r : PExpr), (rotSeq l r).size = l.size + r.size + 1 := by
  intro l
  induction l with
  | seq ll lr ih1 _ =>
    intro r
    rw [rotSeq, ih1]
    simp only [PExpr.size]; omega
  | _ => intro r; simp [rotSeq, PExpr.size]

theorem rotChoice_size : ∀ (l r : PExpr), (rotChoice l r).size = l.size + r.size + 1 := by
  intro l
  induction l with
  | choice ll lr ih1 _ =>
    intro r
    rw [rotChoice, ih1]
    simp only [PExpr.size]; omega
  | _ => intro r; simp [rotChoice, PExpr.size]

theorem rotateInternal_size (e : PExpr) : (rotateInternal e).size = e.size := by
  cases e <;> simp [rotateInternal, rotSeq_size, rotChoice_size, PExpr.size]

theorem skipClosure_size (g : PGrammar) (e : PExpr) : (skipClosure g e).size ≤ e.size := by
  unfold skipClosure
  split
  · split
    · split
      · next r h =>
        -- the only results of `populateChoices` are `skip` leaves
        have : ∀ b x cs r, populateChoices g b x cs = some r → r.size = 1 := by
          intro b
          induction b with
          | zero => intro x cs r h; simp [populateChoices] at h
          | succ b ih =>
            intro x cs r h
            unfold populateChoices at h
            split at h
            · split at h
              · exact ih _ _ _ h
              · split at h
                · exact ih _ _ _ h
                · cases h
              · cases h
            · injection h with h; subst h; rfl
            · split at h
              · exact ih _ _ _ h
              · cases h
            · cases h
        rw [this _ _ _ _ h]
        exact PExpr.size_pos _
      · exact Nat.le_refl _
    · exact Nat.le_refl _
  · exact Nat.le_refl _

theorem factorClosure_size (kind : RuleKind) (e : PExpr) : (factorClosure kind e).size ≤ e.size := by
  unfold factorClosure
  split
  · split
    · next h => subst h; simp only [PExpr.size]; omega
    · exact Nat.le_refl _
  · split
    · split
      · next h => subst h; simp only [PExpr.size]; omega
      · exact Nat.le_refl _
    · exact Nat.le_refl _
  · split
    · simp only [PExpr.size]; omega
    · exact Nat.le_refl _
  · exact Nat.le_refl _

/-! ### the fuel of `mapTopDown` -/

theorem mapChildren_congr (h h' : PExpr → PExpr) (e : PExpr)
    (hc : ∀ c, c.size < e.size → h c = h' c) : e.mapChildren h = e.mapChildren h' := by
  cases e <;> simp only [PExpr.mapChildren] <;>
    (first
      | rfl
      | (congr 1 <;> (apply hc; simp only [PExpr.size]; omega)))

/-- For a closure that never increases the size, every fuel `≥ e.size` gives the same result. -/
theorem mapTopDown_fuel_irrelevant (f : PExpr → PExpr) (hf : ∀ e, (f e).size ≤ e.size) :
    ∀ (n m : Nat) (e : PExpr), e.size ≤ n → e.size ≤ m → mapTopDown f n e = mapTopDown f m e := by
  intro n
  induction n with
  | zero => intro m e hn _; have := PExpr.size_pos e; omega
  | succ n ih =>
    intro m e hn hm
    cases m with
    | zero => have := PExpr.size_pos e; omega
    | succ m =>
      simp only [mapTopDown]
      apply mapChildren_congr
      intro c hc
      have := hf e
      exact ih m c (by omega) (by omega)

theorem rotateExpr_fuel (e : PExpr) (n : Nat) (hn : e.size ≤ n) :
    mapTopDown rotateInternal n e = rotateExpr e :=
  mapTopDown_fuel_irrelevant _ (fun e => Nat.le_of_eq (rotateInternal_size e)) _ _ _ hn (Nat.le_succ _)

theorem skipExpr_fuel (g : PGrammar) (e : PExpr) (n : Nat) (hn : e.size ≤ n) :
    mapTopDown (skipClosure g) n e = mapTopDown (skipClosure g) (e.size + 1) e :=
  mapTopDown_fuel_irrelevant _ (skipClosure_size g) _ _ _ hn (Nat.le_succ _)

theorem factorExpr_fuel (kind : RuleKind) (e : PExpr) (n : Nat) (hn : e.size ≤ n) :
    mapTopDown (factorClosure kind) n e = factorExpr kind e :=
  mapTopDown_fuel_irrelevant _ (factorClosure_size kind) _ _ _ hn (Nat.le_succ _)

/-- Unfolding `mapTopDown` with the canonical fuel: the closure at the root, then the pass on the children. -/
theorem mapTopDown_unfold (f : PExpr → PExpr) (hf : ∀ e, (f e).size ≤ e.size) (e : PExpr) :
    mapTopDown f (e.size + 1) e = (f e).mapChildren (fun c => mapTopDown f (c.size + 1) c) := by
  simp only [mapTopDown]
  apply mapChildren_congr
  intro c hc
  have := hf e
  exact mapTopDown_fuel_irrelevant f hf _ _ c (by omega) (Nat.le_succ _)

end PestTyped
