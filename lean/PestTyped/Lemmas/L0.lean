/-
Lemmas.L0 — layer L0 (bytes) against layer L1 (characters): UTF-8 facts about `enc`, char
boundaries, ASCII lower-casing of bytes, first-character decoding; the abstraction relation `Abs`
and, for each primitive of `Model.InputL0`, that under `Abs` it neither panics (checked slicing)
nor is undefined (unchecked slicing), returns the same in both profiles, and corresponds to the
character-level primitive of `Model.Basic`.
-/
import PestTyped.Model.InputL0
import PestTyped.Lemmas.Cursor
namespace PestTyped

/-! ### `enc` -/

theorem enc_nil : enc [] = [] := rfl

theorem enc_cons (c : Char) (l : List Char) : enc (c :: l) = String.utf8EncodeChar c ++ enc l := by
  simp [enc]

theorem enc_append (a b : List Char) : enc (a ++ b) = enc a ++ enc b := by
  simp [enc]

theorem length_enc (l : List Char) : (enc l).length = blen l := by
  induction l with
  | nil => rfl
  | cons c cs ih => rw [enc_cons, List.length_append, String.length_utf8EncodeChar, ih]; rfl

theorem enc_toByteArray (l : List Char) : (enc l).toByteArray = l.utf8Encode := rfl

/-- UTF-8 is prefix-free at character level: a text whose encoding is a byte-prefix of another
text's encoding is a character-prefix of it. -/
theorem prefix_of_enc_append {p m : List Char} {x : List UInt8} (h : enc p ++ x = enc m) : p <+: m := by
  apply List.isPrefix_of_utf8Encode_append_eq_utf8Encode x.toByteArray
  rw [← enc_toByteArray, ← enc_toByteArray, ← List.toByteArray_append, h]

theorem enc_inj {a b : List Char} (h : enc a = enc b) : a = b := by
  have h1 : a <+: b := prefix_of_enc_append (x := []) (by rw [List.append_nil]; exact h)
  have hl : a.length = b.length := by
    have h2 : b <+: a := prefix_of_enc_append (x := []) (by rw [List.append_nil]; exact h.symm)
    exact Nat.le_antisymm h1.length_le h2.length_le
  exact h1.eq_of_length hl

theorem enc_prefix_iff {s r : List Char} : enc s <+: enc r ↔ s <+: r := by
  constructor
  · rintro ⟨x, hx⟩; exact prefix_of_enc_append hx
  · rintro ⟨t, rfl⟩; exact ⟨enc t, (enc_append s t).symm⟩

theorem enc_isPrefixOf (s r : List Char) : (enc s).isPrefixOf (enc r) = s.isPrefixOf r := by
  rw [Bool.eq_iff_iff, List.isPrefixOf_iff_prefix, List.isPrefixOf_iff_prefix, enc_prefix_iff]

/-! ### bytes of one character -/

set_option maxRecDepth 8192 in
theorem contByte_not_boundary (x : UInt8) : boundaryByte (x &&& 0x3f ||| 0x80) = false := by
  have h : ∀ n, n < 256 → boundaryByte (UInt8.ofNat n &&& 0x3f ||| 0x80) = false := by decide
  have := h x.toNat x.toNat_lt
  rwa [UInt8.ofNat_toNat] at this

theorem ge128_of_or {x k : UInt8} (hk : 128 ≤ k.toNat) : 128 ≤ (x ||| k).toNat := by
  rw [UInt8.toNat_or]; exact Nat.le_trans hk Nat.right_le_or

theorem ge192_of_or {x k : UInt8} (hk : 192 ≤ k.toNat) : 192 ≤ (x ||| k).toNat := by
  rw [UInt8.toNat_or]; exact Nat.le_trans hk Nat.right_le_or

theorem boundaryByte_of_ge192 {b : UInt8} (h : 192 ≤ b.toNat) : boundaryByte b = true := by
  simp [boundaryByte, h]

/-- In the encoding of one character exactly the first byte passes `is_utf8_char_boundary`. -/
theorem boundaryByte_enc_char (c : Char) (j : Nat) (b : UInt8)
    (h : (String.utf8EncodeChar c)[j]? = some b) : boundaryByte b = true ↔ j = 0 := by
  have hpos := c.utf8Size_pos
  have hle := c.utf8Size_le_four
  have hcases : c.utf8Size = 1 ∨ c.utf8Size = 2 ∨ c.utf8Size = 3 ∨ c.utf8Size = 4 := by omega
  rcases hcases with h1 | h1 | h1 | h1
  · rw [String.utf8EncodeChar_eq_singleton h1] at h
    have hv : c.val.toNat ≤ 127 := by
      have := Char.utf8Size_eq_one_iff.mp h1
      exact UInt32.le_iff_toNat_le.mp this
    cases j with
    | zero =>
      simp only [List.getElem?_cons_zero, Option.some.injEq] at h
      subst h
      simp only [boundaryByte, UInt32.toNat_toUInt8, iff_true, Bool.or_eq_true, decide_eq_true_eq]
      left; omega
    | succ j => simp at h
  · rw [String.utf8EncodeChar_eq_cons_cons h1] at h
    match j, h with
    | 0, h =>
      simp only [List.getElem?_cons_zero, Option.some.injEq] at h
      subst h
      simp only [iff_true]
      exact boundaryByte_of_ge192 (ge192_of_or (by decide))
    | 1, h =>
      simp only [List.getElem?_cons_succ, List.getElem?_cons_zero, Option.some.injEq] at h
      subst h
      simp [contByte_not_boundary]
    | j+2, h => simp at h
  · rw [String.utf8EncodeChar_eq_cons_cons_cons h1] at h
    match j, h with
    | 0, h =>
      simp only [List.getElem?_cons_zero, Option.some.injEq] at h
      subst h
      simp only [iff_true]
      exact boundaryByte_of_ge192 (ge192_of_or (by decide))
    | 1, h =>
      simp only [List.getElem?_cons_succ, List.getElem?_cons_zero, Option.some.injEq] at h
      subst h
      simp [contByte_not_boundary]
    | 2, h =>
      simp only [List.getElem?_cons_succ, List.getElem?_cons_zero, Option.some.injEq] at h
      subst h
      simp [contByte_not_boundary]
    | j+3, h => simp at h
  · rw [String.utf8EncodeChar_eq_cons_cons_cons_cons h1] at h
    match j, h with
    | 0, h =>
      simp only [List.getElem?_cons_zero, Option.some.injEq] at h
      subst h
      simp only [iff_true]
      exact boundaryByte_of_ge192 (ge192_of_or (by decide))
    | 1, h =>
      simp only [List.getElem?_cons_succ, List.getElem?_cons_zero, Option.some.injEq] at h
      subst h
      simp [contByte_not_boundary]
    | 2, h =>
      simp only [List.getElem?_cons_succ, List.getElem?_cons_zero, Option.some.injEq] at h
      subst h
      simp [contByte_not_boundary]
    | 3, h =>
      simp only [List.getElem?_cons_succ, List.getElem?_cons_zero, Option.some.injEq] at h
      subst h
      simp [contByte_not_boundary]
    | j+4, h => simp at h

/-- All bytes of a multi-byte character are `≥ 0x80`. -/
theorem ge128_of_mem_enc_char {c : Char} (hc : 2 ≤ c.utf8Size) {b : UInt8}
    (hb : b ∈ String.utf8EncodeChar c) : 128 ≤ b.toNat := by
  have hle := c.utf8Size_le_four
  have hcases : c.utf8Size = 2 ∨ c.utf8Size = 3 ∨ c.utf8Size = 4 := by omega
  rcases hcases with h1 | h1 | h1
  · rw [String.utf8EncodeChar_eq_cons_cons h1] at hb
    simp only [List.mem_cons, List.not_mem_nil, or_false] at hb
    rcases hb with rfl | rfl <;> exact ge128_of_or (by decide)
  · rw [String.utf8EncodeChar_eq_cons_cons_cons h1] at hb
    simp only [List.mem_cons, List.not_mem_nil, or_false] at hb
    rcases hb with rfl | rfl | rfl <;> exact ge128_of_or (by decide)
  · rw [String.utf8EncodeChar_eq_cons_cons_cons_cons h1] at hb
    simp only [List.mem_cons, List.not_mem_nil, or_false] at hb
    rcases hb with rfl | rfl | rfl | rfl <;> exact ge128_of_or (by decide)

/-! ### char boundaries of encoded text -/

theorem enc_char_ne_nil (c : Char) : String.utf8EncodeChar c ≠ [] := String.utf8EncodeChar_ne_nil

/-- The offset after an encoded prefix is a char boundary. -/
theorem isBoundary_enc_split (a b : List Char) : isBoundary (enc a ++ enc b) (enc a).length = true := by
  cases b with
  | nil => simp [isBoundary, enc_nil]
  | cons c b' =>
    have hne := enc_char_ne_nil c
    cases he : String.utf8EncodeChar c with
    | nil => exact absurd he hne
    | cons b0 tl =>
      have h0 : (String.utf8EncodeChar c)[0]? = some b0 := by rw [he]; rfl
      have hb := (boundaryByte_enc_char c 0 b0 h0).mpr rfl
      have hget : (enc a ++ enc (c :: b'))[(enc a).length]? = some b0 := by
        rw [List.getElem?_append_right (Nat.le_refl _), Nat.sub_self, enc_cons, he]; rfl
      simp only [isBoundary, hget, hb, Bool.or_true]

/-- Conversely a char boundary of encoded text is the offset after an encoded prefix. -/
theorem prefix_of_isBoundary : ∀ (l : List Char) (n : Nat), n ≤ (enc l).length →
    isBoundary (enc l) n = true → ∃ p, p <+: l ∧ blen p = n := by
  intro l
  induction l with
  | nil =>
    intro n hn _
    simp only [enc_nil, List.length_nil, Nat.le_zero_eq] at hn
    exact ⟨[], List.prefix_refl _, hn.symm⟩
  | cons c cs ih =>
    intro n hn h
    by_cases h0 : n = 0
    · exact ⟨[], List.nil_prefix, h0.symm⟩
    · rw [enc_cons] at hn h
      have hsz : (String.utf8EncodeChar c).length = c.utf8Size := String.length_utf8EncodeChar c
      by_cases hlt : n < (String.utf8EncodeChar c).length
      · -- strictly inside the first character: not a boundary
        exfalso
        have hlen : n ≠ (String.utf8EncodeChar c ++ enc cs).length := by
          rw [List.length_append]; omega
        have hget : (String.utf8EncodeChar c ++ enc cs)[n]? = (String.utf8EncodeChar c)[n]? :=
          List.getElem?_append_left hlt
        simp only [isBoundary, Bool.or_eq_true, beq_iff_eq, h0, hlen, false_or, hget] at h
        cases hb : (String.utf8EncodeChar c)[n]? with
        | none => rw [hb] at h; cases h
        | some b =>
          rw [hb] at h
          exact h0 ((boundaryByte_enc_char c n b hb).mp h)
      · have hge : (String.utf8EncodeChar c).length ≤ n := Nat.le_of_not_lt hlt
        have hb' : isBoundary (enc cs) (n - (String.utf8EncodeChar c).length) = true := by
          simp only [isBoundary, Bool.or_eq_true, beq_iff_eq, h0, false_or,
            List.getElem?_append_right hge, List.length_append] at h
          simp only [isBoundary, Bool.or_eq_true, beq_iff_eq]
          rcases h with h | h
          · left; right; omega
          · right; exact h
        rw [List.length_append] at hn
        obtain ⟨p, hp, hpl⟩ := ih (n - (String.utf8EncodeChar c).length) (by omega) hb'
        refine ⟨c :: p, List.cons_prefix_cons.mpr ⟨rfl, hp⟩, ?_⟩
        simp only [blen]; omega

/-! ### `takeBytes` (the character-level `str::get(..n)`) -/

theorem takeBytes_some_blen : ∀ (l : List Char) (n : Nat) (p : List Char), takeBytes n l = some p → blen p = n := by
  intro l
  induction l with
  | nil =>
    intro n p h
    simp only [takeBytes] at h
    split at h
    · next h0 => injection h with h; subst h; exact h0.symm
    · cases h
  | cons c cs ih =>
    intro n p h
    unfold takeBytes at h
    split at h
    · next h0 => injection h with h; subst h; exact h0.symm
    · split at h
      · next h0 hle =>
        cases hr : takeBytes (n - c.utf8Size) cs with
        | none => simp [hr] at h
        | some q =>
          simp only [hr, Option.map_some, Option.some.injEq] at h
          subst h
          have := ih _ _ hr
          simp only [blen]; omega
      · cases h

theorem takeBytes_of_prefix : ∀ (p l : List Char), p <+: l → takeBytes (blen p) l = some p := by
  intro p
  induction p with
  | nil => intro l _; cases l <;> simp [takeBytes, blen]
  | cons c p' ih =>
    intro l h
    cases l with
    | nil => simp at h
    | cons d l' =>
      obtain ⟨rfl, h'⟩ := List.cons_prefix_cons.mp h
      have hpos := c.utf8Size_pos
      have hb : blen (c :: p') = c.utf8Size + blen p' := rfl
      rw [hb]
      unfold takeBytes
      rw [if_neg (by omega), if_pos (by omega)]
      have : c.utf8Size + blen p' - c.utf8Size = blen p' := by omega
      rw [this, ih l' h']; rfl

/-- `str::get(..n)` on encoded text is `takeBytes n` on the characters. -/
theorem strGet_enc (rest : List Char) (n : Nat) : strGet (enc rest) 0 n = (takeBytes n rest).map enc := by
  cases ht : takeBytes n rest with
  | some p =>
    have hp := takeBytes_prefix _ _ _ ht
    have hn := takeBytes_some_blen _ _ _ ht
    obtain ⟨t, rfl⟩ := hp
    have hlen : n = (enc p).length := by rw [length_enc]; exact hn.symm
    have hb := isBoundary_enc_split p t
    simp only [strGet, enc_append, Option.map_some]
    rw [if_pos]
    · simp [hlen]
    · simp only [Bool.and_eq_true, decide_eq_true_eq]
      refine ⟨⟨⟨Nat.zero_le _, ?_⟩, ?_⟩, ?_⟩
      · rw [hlen, List.length_append]; omega
      · simp [isBoundary]
      · rw [hlen]; exact hb
  | none =>
    simp only [strGet, Option.map_none]
    rw [if_neg]
    intro hc
    simp only [Bool.and_eq_true, decide_eq_true_eq] at hc
    obtain ⟨⟨⟨_, hle⟩, _⟩, hb⟩ := hc
    obtain ⟨p, hp, hpl⟩ := prefix_of_isBoundary rest n hle hb
    have := takeBytes_of_prefix p rest hp
    rw [hpl, ht] at this
    cases this

/-! ### ASCII lower-casing -/

set_option maxRecDepth 8192 in
theorem lower_upper_char : ∀ n, n < 91 → 65 ≤ n →
    (String.utf8EncodeChar (Char.ofNat n)).map lowerByte = String.utf8EncodeChar (Char.ofNat (n + 32)) := by
  decide

/-- Lower-casing the bytes of a character is encoding the lower-cased character. -/
theorem map_lowerByte_enc_char (c : Char) :
    (String.utf8EncodeChar c).map lowerByte = String.utf8EncodeChar (asciiLower c) := by
  unfold asciiLower
  by_cases hu : 'A' ≤ c ∧ c ≤ 'Z'
  · rw [if_pos hu]
    have h1 : 65 ≤ c.toNat := by
      have := Char.le_def.mp hu.1
      exact UInt32.le_iff_toNat_le.mp this
    have h2 : c.toNat ≤ 90 := by
      have := Char.le_def.mp hu.2
      exact UInt32.le_iff_toNat_le.mp this
    have := lower_upper_char c.toNat (by omega) h1
    rwa [Char.ofNat_toNat] at this
  · rw [if_neg hu]
    have hid : ∀ b ∈ String.utf8EncodeChar c, lowerByte b = b := by
      intro b hb
      unfold lowerByte
      rw [if_neg]
      intro hr
      by_cases h1 : c.utf8Size = 1
      · rw [String.utf8EncodeChar_eq_singleton h1, List.mem_singleton] at hb
        have hv : c.val.toNat ≤ 127 := UInt32.le_iff_toNat_le.mp (Char.utf8Size_eq_one_iff.mp h1)
        have hbn : b.toNat = c.val.toNat := by
          rw [hb, UInt32.toNat_toUInt8]; omega
        apply hu
        constructor
        · apply Char.le_def.mpr; apply UInt32.le_iff_toNat_le.mpr
          show 65 ≤ c.val.toNat; omega
        · apply Char.le_def.mpr; apply UInt32.le_iff_toNat_le.mpr
          show c.val.toNat ≤ 90; omega
      · have := ge128_of_mem_enc_char (c := c) (by have := c.utf8Size_pos; omega) hb
        omega
    calc (String.utf8EncodeChar c).map lowerByte
        = (String.utf8EncodeChar c).map id := List.map_congr_left hid
      _ = String.utf8EncodeChar c := List.map_id _

theorem map_lowerByte_enc (l : List Char) : (enc l).map lowerByte = enc (l.map asciiLower) := by
  induction l with
  | nil => rfl
  | cons c cs ih =>
    rw [enc_cons, List.map_append, List.map_cons, enc_cons, map_lowerByte_enc_char, ih]

theorem utf8Size_asciiLower (c : Char) : (asciiLower c).utf8Size = c.utf8Size := by
  rw [← String.length_utf8EncodeChar, ← map_lowerByte_enc_char, List.length_map, String.length_utf8EncodeChar]

theorem blen_map_asciiLower (l : List Char) : blen (l.map asciiLower) = blen l := by
  induction l with
  | nil => rfl
  | cons c cs ih => simp only [List.map_cons, blen, utf8Size_asciiLower, ih]

/-- `eq_ignore_ascii_case` on encoded texts is equality of the ASCII-lower-cased character lists. -/
theorem eqIgnoreAsciiCase_enc (p s : List Char) :
    eqIgnoreAsciiCase (enc p) (enc s) = (p.map asciiLower == s.map asciiLower) := by
  rw [Bool.eq_iff_iff]
  simp only [eqIgnoreAsciiCase, Bool.and_eq_true, beq_iff_eq, map_lowerByte_enc]
  constructor
  · rintro ⟨_, h⟩; exact enc_inj h
  · intro h
    refine ⟨?_, by rw [h]⟩
    rw [length_enc, length_enc, ← blen_map_asciiLower p, ← blen_map_asciiLower s, h]

/-! ### first character -/

theorem nextChar_nil : nextChar [] = none := by decide

theorem nextChar_enc_cons (c : Char) (l : List Char) : nextChar (enc (c :: l)) = some c := by
  unfold nextChar
  rw [enc_toByteArray]
  exact List.utf8DecodeChar?_utf8Encode_cons

/-! ### the abstraction relation: the boundary invariant -/

/-- The byte cursor `i0` represents the character cursor `i`: the bytes are the encoding of a text
`pre ++ i.rest ++ i.after`, `pos` is the offset after `pre` and `end` the offset after `i.rest`.
In particular `pos ≤ end ≤ len` and both are character boundaries — the invariant the `unsafe`
blocks of `input.rs` rely on. -/
def Abs (i0 : Inp0) (i : Inp) : Prop :=
  ∃ pre : List Char, i0.bytes = enc pre ++ enc i.rest ++ enc i.after ∧
    i0.pos = blen pre ∧ i0.end = blen pre + blen i.rest ∧ i.pos = i0.pos ∧ i.start = i0.start

def OptAbs : Option Inp0 → Option Inp → Prop
  | none, none => True
  | some a, some b => Abs a b
  | _, _ => False

def OptAbsC : Option (Inp0 × Char) → Option (Inp × Char) → Prop
  | none, none => True
  | some (a, c), some (b, d) => Abs a b ∧ c = d
  | _, _ => False

theorem blen_take_add_drop (l : List Char) (k : Nat) : blen (l.take k) + blen (l.drop k) = blen l := by
  rw [← blen_append, List.take_append_drop]

/-- The invariant says what it should: offsets in range and on boundaries. -/
theorem Abs.inv {i0 : Inp0} {i : Inp} (h : Abs i0 i) :
    i0.pos ≤ i0.end ∧ i0.end ≤ i0.bytes.length ∧
    isBoundary i0.bytes i0.pos = true ∧ isBoundary i0.bytes i0.end = true := by
  obtain ⟨pre, hb, hp, he, _, _⟩ := h
  refine ⟨by omega, ?_, ?_, ?_⟩
  · rw [hb, List.length_append, List.length_append, length_enc, length_enc, length_enc]; omega
  · rw [hb, hp, ← length_enc, List.append_assoc, ← enc_append]; exact isBoundary_enc_split _ _
  · rw [hb, he, ← blen_append, ← length_enc, ← enc_append]; exact isBoundary_enc_split _ _

/-- `get()` under the invariant: the encoding of the remaining text, in both profiles. -/
theorem Abs.strGet {i0 : Inp0} {i : Inp} (h : Abs i0 i) :
    strGet i0.bytes i0.pos i0.end = some (enc i.rest) := by
  obtain ⟨h1, h2, h3, h4⟩ := h.inv
  obtain ⟨pre, hb, hp, he, _, _⟩ := h
  unfold PestTyped.strGet
  rw [if_pos (by simp [h1, h2, h3, h4])]
  congr 1
  rw [hb, List.append_assoc, List.drop_left' (by rw [length_enc, hp])]
  exact List.take_left' (by rw [length_enc]; omega)

theorem Abs.get {i0 : Inp0} {i : Inp} (h : Abs i0 i) (checked : Bool) :
    i0.get checked = .ok (enc i.rest) := by
  unfold Inp0.get; rw [h.strGet]

/-- Moving the byte cursor by the byte length of a character prefix of the remaining text keeps
the invariant, and is `Inp.adv` on the characters. -/
theorem Abs.adv {i0 : Inp0} {i : Inp} (h : Abs i0 i) (k : Nat) :
    Abs { i0 with pos := i0.pos + blen (i.rest.take k) } (i.adv k) := by
  obtain ⟨pre, hb, hp, he, hpos, hst⟩ := h
  refine ⟨pre ++ i.rest.take k, ?_, ?_, ?_, ?_, hst⟩
  · show i0.bytes = enc (pre ++ i.rest.take k) ++ enc (i.rest.drop k) ++ enc i.after
    have : enc i.rest = enc (i.rest.take k) ++ enc (i.rest.drop k) := by
      rw [← enc_append, List.take_append_drop]
    rw [hb, this, enc_append]; simp only [List.append_assoc]
  · show i0.pos + blen (i.rest.take k) = blen (pre ++ i.rest.take k)
    rw [blen_append, hp]
  · show i0.end = blen (pre ++ i.rest.take k) + blen (i.rest.drop k)
    rw [blen_append, Nat.add_assoc, blen_take_add_drop, he]
  · show i.pos + blen (i.rest.take k) = i0.pos + blen (i.rest.take k)
    rw [hpos]

theorem Abs.atEnd {i0 : Inp0} {i : Inp} (h : Abs i0 i) : i0.atEnd0 = i.atEnd := by
  obtain ⟨pre, hb, hp, he, hpos, hst⟩ := h
  unfold Inp0.atEnd0 Inp.atEnd
  rw [Bool.eq_iff_iff, beq_iff_eq, List.isEmpty_iff]
  constructor
  · intro hh
    cases hr : i.rest with
    | nil => rfl
    | cons c cs =>
      rw [hr] at he
      have := c.utf8Size_pos
      simp only [blen] at he; omega
  · intro hh; rw [hh] at he; simp only [blen] at he; omega

theorem Abs.atStart {i0 : Inp0} {i : Inp} (h : Abs i0 i) : i0.atStart0 = i.atStart := by
  obtain ⟨pre, hb, hp, he, hpos, hst⟩ := h
  unfold Inp0.atStart0 Inp.atStart
  rw [hpos, hst]

theorem blen_eq_zero {x : List Char} (h : blen x = 0) : x = [] := by
  cases x with
  | nil => rfl
  | cons c cs => have := c.utf8Size_pos; simp only [blen] at h; omega

theorem prefix_eq_of_blen {p p' l : List Char} (h : p <+: l) (h' : p' <+: l) (hb : blen p = blen p') :
    p = p' := by
  rcases Nat.le_total p.length p'.length with hl | hl
  · obtain ⟨x, rfl⟩ := List.prefix_of_prefix_length_le h h' hl
    rw [blen_append] at hb
    have hx := blen_eq_zero (x := x) (by omega)
    rw [hx, List.append_nil]
  · obtain ⟨x, rfl⟩ := List.prefix_of_prefix_length_le h' h hl
    rw [blen_append] at hb
    have hx := blen_eq_zero (x := x) (by omega)
    rw [hx, List.append_nil]

/-- The abstraction is a partial FUNCTION of the byte cursor: a byte cursor represents at most one
character cursor (UTF-8 decoding is unique). -/
theorem Abs.unique {i0 : Inp0} {i i' : Inp} (h : Abs i0 i) (h' : Abs i0 i') : i = i' := by
  obtain ⟨pre, hb, hp, he, hpos, hst⟩ := h
  obtain ⟨pre', hb', hp', he', hpos', hst'⟩ := h'
  have hL : pre ++ (i.rest ++ i.after) = pre' ++ (i'.rest ++ i'.after) := by
    apply enc_inj
    rw [enc_append, enc_append, enc_append, enc_append, ← List.append_assoc, ← List.append_assoc, ← hb, ← hb']
  have hpre : pre = pre' :=
    prefix_eq_of_blen (l := pre ++ (i.rest ++ i.after)) ⟨_, rfl⟩ (hL ▸ ⟨_, rfl⟩) (by omega)
  subst hpre
  have hR : i.rest ++ i.after = i'.rest ++ i'.after := List.append_cancel_left hL
  have hrest : i.rest = i'.rest :=
    prefix_eq_of_blen (l := i.rest ++ i.after) ⟨_, rfl⟩ (hR ▸ ⟨_, rfl⟩) (by omega)
  have hafter : i.after = i'.after := by
    rw [hrest] at hR; exact List.append_cancel_left hR
  cases i; cases i'
  simp only [Inp.mk.injEq] at *
  exact ⟨by omega, by omega, hrest, hafter⟩

/-! ### the primitives -/

/-- `match_string`. -/
theorem matchString0_sim {i0 : Inp0} {i : Inp} (h : Abs i0 i) (s : List Char) :
    ∃ r, (∀ checked, i0.matchString0 checked (enc s) = .ok r) ∧ OptAbs r (i.matchString s) := by
  by_cases hp : s.isPrefixOf i.rest = true
  · refine ⟨some { i0 with pos := i0.pos + (enc s).length }, ?_, ?_⟩
    · intro checked
      simp only [Inp0.matchString0, h.get, P.bind, enc_isPrefixOf, hp, if_true]
    · simp only [Inp.matchString, hp, if_true, OptAbs]
      have hpre := List.isPrefixOf_iff_prefix.mp hp
      have ht : i.rest.take s.length = s := (List.prefix_iff_eq_take.mp hpre).symm
      have := h.adv s.length
      rwa [ht, ← length_enc] at this
  · refine ⟨none, ?_, ?_⟩
    · intro checked
      simp only [Inp0.matchString0, h.get, P.bind, enc_isPrefixOf, hp]
      rfl
    · simp only [Inp.matchString, hp]
      trivial

/-- `match_insensitive`. -/
theorem matchInsens0_sim {i0 : Inp0} {i : Inp} (h : Abs i0 i) (s : List Char) :
    ∃ r, (∀ checked, i0.matchInsens0 checked (enc s) = .ok r) ∧ OptAbs r (i.matchInsens s) := by
  have hget : strGet (enc i.rest) 0 (enc s).length = (takeBytes (blen s) i.rest).map enc := by
    rw [length_enc]; exact strGet_enc _ _
  cases ht : takeBytes (blen s) i.rest with
  | none =>
    refine ⟨none, ?_, ?_⟩
    · intro checked
      simp only [Inp0.matchInsens0, h.get, P.bind, hget, ht, Option.map_none]
    · simp only [Inp.matchInsens, ht]; trivial
  | some p =>
    by_cases he : (p.map asciiLower == s.map asciiLower) = true
    · refine ⟨some { i0 with pos := i0.pos + (enc s).length }, ?_, ?_⟩
      · intro checked
        simp only [Inp0.matchInsens0, h.get, P.bind, hget, ht, Option.map_some, eqIgnoreAsciiCase_enc, he,
          if_true]
      · simp only [Inp.matchInsens, ht, he, if_true, OptAbs]
        have hpre := takeBytes_prefix _ _ _ ht
        have hbl := takeBytes_some_blen _ _ _ ht
        have htk : i.rest.take p.length = p := (List.prefix_iff_eq_take.mp hpre).symm
        have := h.adv p.length
        rwa [htk, hbl, ← length_enc] at this
    · refine ⟨none, ?_, ?_⟩
      · intro checked
        simp only [Inp0.matchInsens0, h.get, P.bind, hget, ht, Option.map_some, eqIgnoreAsciiCase_enc, he]
        rfl
      · simp only [Inp.matchInsens, ht, he]; trivial

/-- A successful ASCII-case-insensitive byte comparison of a needle (valid UTF-8) with the first
`len` bytes of a text ends on a character boundary of the text — even without the `get(..len)`
guard — and the matched prefix has as many characters as the needle. -/
theorem insens_boundary (rest s : List Char)
    (heq : ((enc rest).take (enc s).length).map lowerByte = (enc s).map lowerByte) :
    ∃ p, p <+: rest ∧ blen p = (enc s).length ∧ p.length = s.length ∧
      isBoundary (enc rest) (enc s).length = true := by
  have h1 : enc (s.map asciiLower) ++ ((enc rest).drop (enc s).length).map lowerByte =
      enc (rest.map asciiLower) := by
    rw [← map_lowerByte_enc, ← map_lowerByte_enc, ← heq, ← List.map_append, List.take_append_drop]
  have hpre : s.map asciiLower <+: rest.map asciiLower := prefix_of_enc_append h1
  have hsl : s.length ≤ rest.length := by
    have := hpre.length_le; simpa using this
  have htk : (rest.take s.length).map asciiLower = s.map asciiLower := by
    have := List.prefix_iff_eq_take.mp hpre
    rw [List.length_map, ← List.map_take] at this
    exact this.symm
  have hbl : blen (rest.take s.length) = (enc s).length := by
    rw [← blen_map_asciiLower, htk, blen_map_asciiLower, length_enc]
  refine ⟨rest.take s.length, List.take_prefix _ _, hbl, by simp [hsl], ?_⟩
  have := isBoundary_enc_split (rest.take s.length) (rest.drop s.length)
  rwa [← enc_append, List.take_append_drop, length_enc, hbl] at this

theorem skipLen_enc : ∀ (n : Nat) (rest : List Char) (acc : Nat),
    Inp0.skipLen n (enc rest) acc = if n ≤ rest.length then some (acc + blen (rest.take n)) else none := by
  intro n
  induction n with
  | zero => intro rest acc; simp [Inp0.skipLen, blen]
  | succ n ih =>
    intro rest acc
    cases rest with
    | nil => simp [Inp0.skipLen, enc_nil, nextChar_nil]
    | cons c cs =>
      have hd : (enc (c :: cs)).drop c.utf8Size = enc cs := by
        rw [enc_cons]; exact List.drop_left' (String.length_utf8EncodeChar c)
      simp only [Inp0.skipLen, nextChar_enc_cons, hd, ih, List.length_cons, Nat.add_le_add_iff_right,
        List.take_succ_cons, blen]
      split
      · rw [Nat.add_assoc]
      · rfl

/-- `skip(n)`. -/
theorem skip0_sim {i0 : Inp0} {i : Inp} (h : Abs i0 i) (n : Nat) :
    ∃ r, (∀ checked, i0.skip0 checked n = .ok r) ∧ OptAbs r (i.skipN n) := by
  by_cases hn : n ≤ i.rest.length
  · refine ⟨some { i0 with pos := i0.pos + blen (i.rest.take n) }, ?_, ?_⟩
    · intro checked
      simp only [Inp0.skip0, h.get, P.bind, skipLen_enc, hn, if_true, Nat.zero_add]
    · simp only [Inp.skipN, hn, if_true, OptAbs]; exact h.adv n
  · refine ⟨none, ?_, ?_⟩
    · intro checked
      simp only [Inp0.skip0, h.get, P.bind, skipLen_enc, hn, if_false]
    · simp only [Inp.skipN, hn, if_false]; trivial

/-- `match_char_by` (hence `match_range`, `next`). -/
theorem matchCharBy0_sim {i0 : Inp0} {i : Inp} (h : Abs i0 i) (p : Char → Bool) :
    ∃ r, (∀ checked, i0.matchCharBy0 checked p = .ok r) ∧ OptAbsC r (i.matchCharBy p) := by
  cases hr : i.rest with
  | nil =>
    refine ⟨none, ?_, ?_⟩
    · intro checked
      simp only [Inp0.matchCharBy0, h.get, P.bind, hr, enc_nil, nextChar_nil]
    · simp only [Inp.matchCharBy, hr]; trivial
  | cons c cs =>
    by_cases hp : p c = true
    · refine ⟨some ({ i0 with pos := i0.pos + c.utf8Size }, c), ?_, ?_⟩
      · intro checked
        simp only [Inp0.matchCharBy0, h.get, P.bind, hr, nextChar_enc_cons, hp, if_true]
      · simp only [Inp.matchCharBy, hr, hp, if_true, OptAbsC, and_true]
        have := h.adv 1
        rw [hr] at this
        simpa [blen] using this
    · refine ⟨none, ?_, ?_⟩
      · intro checked
        simp only [Inp0.matchCharBy0, h.get, P.bind, hr, nextChar_enc_cons, hp]
        rfl
      · simp only [Inp.matchCharBy, hr, hp]; trivial

theorem matchRange0_sim {i0 : Inp0} {i : Inp} (h : Abs i0 i) (lo hi : Char) :
    ∃ r, (∀ checked, i0.matchRange0 checked lo hi = .ok r) ∧ OptAbsC r (i.matchRange lo hi) :=
  matchCharBy0_sim h _

theorem next0_sim {i0 : Inp0} {i : Inp} (h : Abs i0 i) :
    ∃ r, (∀ checked, i0.next0 checked = .ok r) ∧ OptAbsC r (i.matchCharBy (fun _ => true)) :=
  matchCharBy0_sim h _

/-! ### `skip_until` -/

theorem skipUntilGo_shift (N : List (List Char)) : ∀ (l : List Char) (k : Nat),
    Inp.skipUntilGo N l k = (Inp.skipUntilGo N l 0).map (· + k) := by
  intro l
  induction l with
  | nil => intro k; rfl
  | cons c cs ih =>
    intro k
    simp only [Inp.skipUntilGo]
    split
    · simp
    · rw [ih (k+1), ih (0+1), Option.map_map]
      congr 1
      funext n
      simp only [Function.comp]; omega

/-- `input.get(from..end)` at the offset after an encoded prefix. -/
theorem strGet_enc_mid (a b c : List Char) :
    strGet (enc a ++ enc b ++ enc c) (blen a) (blen a + blen b) = some (enc b) := by
  have h : Abs ⟨enc a ++ enc b ++ enc c, 0, blen a, blen a + blen b⟩ ⟨0, blen a, b, c⟩ :=
    ⟨a, rfl, rfl, rfl, rfl, rfl⟩
  exact h.strGet

/-- `input.get(from..end)` strictly inside a character is `None`. -/
theorem strGet_enc_inside (pre : List Char) (c : Char) (cs after : List Char) (j e : Nat)
    (hj0 : 0 < j) (hj : j < c.utf8Size) :
    strGet (enc pre ++ enc (c :: cs) ++ enc after) (blen pre + j) e = none := by
  have hsz : (String.utf8EncodeChar c).length = c.utf8Size := String.length_utf8EncodeChar c
  have hnb : isBoundary (enc pre ++ enc (c :: cs) ++ enc after) (blen pre + j) = false := by
    have hbytes : enc pre ++ enc (c :: cs) ++ enc after =
        enc pre ++ (String.utf8EncodeChar c ++ (enc cs ++ enc after)) := by
      rw [enc_cons]; simp only [List.append_assoc]
    rw [hbytes]
    have hget : (enc pre ++ (String.utf8EncodeChar c ++ (enc cs ++ enc after)))[blen pre + j]? =
        (String.utf8EncodeChar c)[j]? := by
      rw [List.getElem?_append_right (by rw [length_enc]; omega), length_enc,
        Nat.add_sub_cancel_left, List.getElem?_append_left (by omega)]
    have hlen : blen pre + j ≠ (enc pre ++ (String.utf8EncodeChar c ++ (enc cs ++ enc after))).length := by
      simp only [List.length_append, length_enc, hsz]; omega
    have h0 : blen pre + j ≠ 0 := by omega
    cases hb : (String.utf8EncodeChar c)[j]? with
    | none =>
      have := List.getElem?_eq_none_iff.mp hb
      omega
    | some b =>
      have hbb : boundaryByte b = false := by
        cases hq : boundaryByte b
        · rfl
        · have := (boundaryByte_enc_char c j b hb).mp hq; omega
      simp only [isBoundary, hget, hb, hbb, Bool.or_false, Bool.or_eq_false_iff, beq_eq_false_iff_ne, ne_eq]
      exact ⟨h0, hlen⟩
  unfold strGet
  rw [if_neg]
  intro hc
  simp only [Bool.and_eq_true] at hc
  obtain ⟨⟨_, h3⟩, _⟩ := hc
  rw [hnb] at h3
  cases h3

theorem skipUntilLoop0_inside (N0 : List (List UInt8)) (pre : List Char) (c : Char) (cs after : List Char)
    (e fuel : Nat) : ∀ (d j : Nat), j + d = c.utf8Size → 0 < j →
    Inp0.skipUntilLoop0 N0 (enc pre ++ enc (c :: cs) ++ enc after) e (fuel + d) (blen pre + j) =
      Inp0.skipUntilLoop0 N0 (enc pre ++ enc (c :: cs) ++ enc after) e fuel (blen pre + c.utf8Size) := by
  intro d
  induction d with
  | zero => intro j hj _; rw [Nat.add_zero] at hj; rw [hj]; rfl
  | succ d ih =>
    intro j hj hj0
    rw [← Nat.add_assoc]
    simp only [Inp0.skipUntilLoop0]
    rw [strGet_enc_inside pre c cs after j e hj0 (by omega)]
    simp only []
    rw [Nat.add_assoc (blen pre) j 1]
    exact ih (j+1) (by omega) (by omega)

theorem any_map_enc_isPrefixOf (N : List (List Char)) (r : List Char) :
    (N.map enc).any (fun n => n.isPrefixOf (enc r)) = N.any (fun n => n.isPrefixOf r) := by
  rw [List.any_map]
  congr 1
  funext n
  exact enc_isPrefixOf n r

/-- The byte loop of `skip_until` finds what the character-level search finds. -/
theorem skipUntilLoop0_enc (N : List (List Char)) : ∀ (todo pre after : List Char),
    Inp0.skipUntilLoop0 (N.map enc) (enc pre ++ enc todo ++ enc after) (blen pre + blen todo)
      (blen todo) (blen pre) =
    (Inp.skipUntilGo N todo 0).map (fun n => blen pre + blen (todo.take n)) := by
  intro todo
  induction todo with
  | nil => intro pre after; rfl
  | cons c cs ih =>
    intro pre after
    have hpos := c.utf8Size_pos
    have hfuel : blen (c :: cs) = (blen cs + (c.utf8Size - 1)) + 1 := by
      simp only [blen]; omega
    rw [hfuel]
    simp only [Inp0.skipUntilLoop0]
    rw [← hfuel, strGet_enc_mid pre (c :: cs) after]
    simp only [any_map_enc_isPrefixOf, Inp.skipUntilGo]
    split
    · simp [blen]
    · have h1 := skipUntilLoop0_inside (N.map enc) pre c cs after (blen pre + blen (c :: cs)) (blen cs)
        (c.utf8Size - 1) 1 (by omega) (by omega)
      rw [h1]
      have hb : enc pre ++ enc (c :: cs) ++ enc after = enc (pre ++ [c]) ++ enc cs ++ enc after := by
        rw [enc_append, enc_cons, enc_cons, enc_nil]; simp only [List.append_assoc, List.append_nil]
      have hbl : blen (pre ++ [c]) = blen pre + c.utf8Size := by
        rw [blen_append]; simp [blen]
      have he : blen pre + blen (c :: cs) = blen (pre ++ [c]) + blen cs := by
        rw [hbl]; simp only [blen]; omega
      rw [hb, he, ← hbl, ih (pre ++ [c]) after, skipUntilGo_shift N cs (0+1), Option.map_map]
      congr 1
      funext n
      simp only [Function.comp, List.take_succ_cons, blen, hbl]; omega

/-- `skip_until` (the same function in both profiles: it never calls `get()`). -/
theorem skipUntil0_sim {i0 : Inp0} {i : Inp} (h : Abs i0 i) (N : List (List Char)) :
    Abs (i0.skipUntil0 (N.map enc)).1 (i.skipUntil N).1 ∧
    (i0.skipUntil0 (N.map enc)).2 = (i.skipUntil N).2 := by
  obtain ⟨pre, hb, hp, he, hpos, hst⟩ := id h
  obtain ⟨bytes, st, pos, e⟩ := i0
  simp only at hb hp he hpos hst
  subst hb hp he
  have hl := skipUntilLoop0_enc N i.rest pre i.after
  have hfuel : blen pre + blen i.rest - blen pre = blen i.rest := by omega
  simp only [Inp0.skipUntil0, Inp.skipUntil, hfuel, hl]
  cases hg : Inp.skipUntilGo N i.rest 0 with
  | none =>
    simp only [Option.map_none]
    refine ⟨?_, by first | rfl | trivial⟩
    have := h.adv i.rest.length
    simpa only [List.take_length] using this
  | some k =>
    simp only [Option.map_some]
    refine ⟨?_, by first | rfl | trivial⟩
    exact h.adv k

end PestTyped
