/-
Lemmas.InputIdentity — model-level facts behind `Props/C09Sites.lean` ("a run holds ONE input"):

* `Abs.start_eq'`, `Abs.end_eq'`, `Abs.same_cursor`: two byte cursors over the same bytes that represent two
  character cursors related by `Inp.Adv` differ in the `pos` field only.
* `Abs.at_adv`: the byte cursor of the base with the offset of a character cursor reachable from the base
  represents that character cursor.
* `evs_adv` (with one lemma per loop of the log): every call logged by a run (`evs`, `Lemmas/TrackerTrace`)
  is made at a cursor reachable (`Inp.Adv`) from the cursor the run was entered at — for EVERY run, also
  one that runs out of fuel (direct induction on the fuel, no `RlOk`).
-/
import PestTyped.Lemmas.RunL0Lemmas
import PestTyped.Lemmas.TrackerTrace
namespace PestTyped

/-! ### byte cursors of one run -/

theorem Abs.start_eq' {i0 : Inp0} {i : Inp} (h : Abs i0 i) : i0.start = i.start := by
  obtain ⟨_, _, _, _, _, hst⟩ := h; exact hst.symm

theorem Abs.end_eq' {i0 : Inp0} {i : Inp} (h : Abs i0 i) : i0.end = i.endPos := by
  obtain ⟨pre, _, hp, he, hpos, _⟩ := h
  unfold Inp.endPos; omega

/-- Two byte cursors over the same bytes whose character cursors are related by `Inp.Adv` are the same
cursor up to the `pos` field. -/
theorem Abs.same_cursor {i0 i0' : Inp0} {i i' : Inp} (h : Abs i0 i) (h' : Abs i0' i') (hb : i0'.bytes = i0.bytes)
    (ha : i.Adv i') : i0' = { i0 with pos := i0'.pos } := by
  have h1 : i0'.start = i0.start := by rw [h'.start_eq', h.start_eq', ha.start_eq]
  have h2 : i0'.end = i0.end := by rw [h'.end_eq', h.end_eq', ha.endPos_eq]
  cases i0'; cases i0; simp only [Inp0.mk.injEq] at *
  exact ⟨hb, h1, trivial, h2⟩

/-- The base byte cursor with the offset of a character cursor reachable from the base. -/
theorem Abs.at_adv {b0 : Inp0} {b i : Inp} (h : Abs b0 b) (ha : b.Adv i) : Abs { b0 with pos := i.pos } i := by
  obtain ⟨k, _, rfl⟩ := ha
  have := h.adv k
  have hp : (b.adv k).pos = b0.pos + blen (b.rest.take k) := by
    show b.pos + blen (b.rest.take k) = _
    rw [h.pos_eq]
  rw [hp]; exact this

/-! ### the calls of a run are made at cursors reachable from the base -/

/-- Every event of the log function `fE` is at a cursor reachable from `b`, whenever `fE` is entered at
such a cursor. -/
def EvsAdvFn (b : Inp) (fE : Inp → M → List Ev) : Prop := ∀ i m, b.Adv i → ∀ ev ∈ fE i m, b.Adv ev.i

theorem skipLoopEvs_adv {α} {b : Inp} {skip : Inp → M → R α} {skipE : Inp → M → List Ev} (hs : AdvFn skip)
    (hE : EvsAdvFn b skipE) : ∀ k, EvsAdvFn b (skipLoopEvs skip skipE k) := by
  intro k
  induction k with
  | zero => intro i m _ ev h; simp [skipLoopEvs] at h
  | succ k ih =>
    intro i m hb ev h
    unfold skipLoopEvs at h
    rcases List.mem_append.mp h with h | h
    · exact hE i m hb ev h
    · split at h
      · next i' m' a hr => exact ih i' m' (hb.trans (hs _ _ _ _ _ hr)) ev h
      · cases h

theorem seqLoopEvs_adv {α β} {b : Inp} {f : Node → Inp → M → R α} {fE : Node → Inp → M → List Ev}
    {skip : Inp → M → R (List β)} {skipE : Inp → M → List Ev} (hf : ∀ n, AdvFn (f n))
    (hfE : ∀ n, EvsAdvFn b (fE n)) (hs : AdvFn skip) (hsE : EvsAdvFn b skipE) :
    ∀ ns, EvsAdvFn b (seqLoopEvs f fE skip skipE ns) := by
  intro ns
  induction ns with
  | nil => intro i m _ ev h; simp [seqLoopEvs] at h
  | cons n ns ih =>
    intro i m hb ev h
    unfold seqLoopEvs at h
    rcases List.mem_append.mp h with h | h
    · exact hsE i m hb ev h
    · split at h
      · next i' m' a hr =>
        have hb' := hb.trans (hs _ _ _ _ _ hr)
        rcases List.mem_append.mp h with h | h
        · exact hfE n i' m' hb' ev h
        · split at h
          · next i'' m'' a' hr' => exact ih i'' m'' (hb'.trans (hf n _ _ _ _ _ hr')) ev h
          · cases h
      · cases h

theorem choiceLoopEvs_adv {α} {b : Inp} {f : Node → Inp → M → R α} {fE : Node → Inp → M → List Ev}
    (hfE : ∀ n, EvsAdvFn b (fE n)) : ∀ ns, EvsAdvFn b (choiceLoopEvs f fE ns) := by
  intro ns
  induction ns with
  | nil => intro i m _ ev h; simp [choiceLoopEvs] at h
  | cons n ns ih =>
    intro i m hb ev h
    unfold choiceLoopEvs at h
    rcases List.mem_append.mp h with h | h
    · exact hfE n i m hb ev h
    · split at h
      · next m' _ => exact ih i m' hb ev h
      · cases h

theorem repLoopEvs_adv {α} {b : Inp} {u : Nat → Inp → M → R α} {uE : Nat → Inp → M → List Ev}
    (hu : ∀ idx, AdvFn (u idx)) (huE : ∀ idx, EvsAdvFn b (uE idx)) (max : Option Nat) :
    ∀ budget idx, EvsAdvFn b (repLoopEvs u uE max budget idx) := by
  intro budget
  induction budget with
  | zero => intro idx i m _ ev h; simp [repLoopEvs] at h
  | succ budget ih =>
    intro idx i m hb ev h
    unfold repLoopEvs at h
    split at h
    · cases h
    · rcases List.mem_append.mp h with h | h
      · exact huE idx i m hb ev h
      · split at h
        · next i' m' a hr => exact ih (idx+1) i' m' (hb.trans (hu idx _ _ _ _ _ (restoreOnNone_ok hr))) ev h
        · cases h

theorem arrayLoopEvs_adv {α} {b : Inp} {f : Inp → M → R α} {fE : Inp → M → List Ev} (hf : AdvFn f)
    (hE : EvsAdvFn b fE) : ∀ k, EvsAdvFn b (arrayLoopEvs f fE k) := by
  intro k
  induction k with
  | zero => intro i m _ ev h; simp [arrayLoopEvs] at h
  | succ k ih =>
    intro i m hb ev h
    unfold arrayLoopEvs at h
    rcases List.mem_append.mp h with h | h
    · exact hE i m hb ev h
    · split at h
      · next i' m' a hr => exact ih i' m' (hb.trans (hf _ _ _ _ _ hr)) ev h
      · cases h

theorem repUnitPEvs_adv {b : Inp} {skip : Inp → M → R Val} {skipE bodyE : Inp → M → List Ev} (hs : AdvFn skip)
    (hsE : EvsAdvFn b skipE) (hbE : EvsAdvFn b bodyE) (k idx : Nat) :
    EvsAdvFn b (repUnitPEvs skip skipE bodyE k idx) := by
  intro i m hb ev h
  unfold repUnitPEvs at h
  split at h
  · exact hbE i m hb ev h
  · rcases List.mem_append.mp h with h | h
    · exact skipLoopEvs_adv hs hsE k i m hb ev h
    · split at h
      · next i' m' a hr => exact hbE i' m' (hb.trans (skipLoop_adv skip hs _ _ _ _ _ _ _ hr)) ev h
      · cases h

/-- Every call of a framed rule logged by a run — whether the run returns or runs out of fuel — is made
at a cursor reachable from the base cursor `b`, provided the run itself was entered at such a cursor. -/
theorem evs_adv (g : NodeGrammar) (uni : Uni) (b : Inp) :
    ∀ (n : Nat) (inh : Bool) (node : Node), EvsAdvFn b (evs g uni n inh node) := by
  intro n
  induction n with
  | zero => intro inh node i m _ ev h; simp [evs] at h
  | succ n ih =>
    intro inh node i m hb ev h
    have ha := parse_adv g uni n
    cases node with
    | seq sk items =>
      simp only [evs] at h
      cases items with
      | nil => simp at h
      | cons n0 ns =>
        simp only [] at h
        rcases List.mem_append.mp h with h | h
        · exact ih inh n0 i m hb ev h
        · split at h
          · next i' m' v hr =>
            exact seqLoopEvs_adv (fun x => ha inh x) (fun x => ih inh x)
              (fun i m i' m' a hr => skipLoop_adv _ (ha false g.skipped) _ _ _ _ _ _ _ hr)
              (skipLoopEvs_adv (ha false g.skipped) (ih false g.skipped) _)
              ns i' m' (hb.trans (ha inh n0 _ _ _ _ _ hr)) ev h
          · cases h
    | choice alts =>
      simp only [evs] at h
      exact choiceLoopEvs_adv (fun x => ih inh x) alts i m hb ev h
    | opt x => simp only [evs] at h; exact ih inh x i m hb ev h
    | rep sk min max x =>
      simp only [evs] at h
      exact repLoopEvs_adv (fun idx => repUnitP_adv _ _ (ha false g.skipped) (ha inh x) _ _ idx)
        (fun idx => repUnitPEvs_adv (ha false g.skipped) (ih false g.skipped) (ih inh x) _ idx)
        max n 0 i m hb ev h
    | pos x => simp only [evs] at h; exact ih inh x i _ hb ev h
    | neg x => simp only [evs] at h; exact ih inh x i _ hb ev h
    | push x => simp only [evs] at h; exact ih inh x i m hb ev h
    | ref r f =>
      simp only [evs] at h
      split at h
      · cases h
      · next d hd =>
        split at h
        · exact ih _ d.body i m hb ev h
        · rcases List.mem_cons.mp h with h | h
          · rw [h]; exact hb
          · exact ih _ d.body i _ hb ev h
    | array k x =>
      simp only [evs] at h
      exact arrayLoopEvs_adv (ha inh x) (ih inh x) k i m hb ev h
    | pair a c =>
      simp only [evs] at h
      rcases List.mem_append.mp h with h | h
      · exact ih inh a i m hb ev h
      · split at h
        · next i' m' v hr => exact ih inh c i' m' (hb.trans (ha inh a _ _ _ _ _ hr)) ev h
        · cases h
    | _ => simp [evs] at h

end PestTyped
