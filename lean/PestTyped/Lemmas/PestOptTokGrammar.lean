/-
Lemmas.PestOptTokGrammar — grammar-level congruence for the TOKEN semantics (`denT`, `TokEquiv` of
`Lemmas/PestOptTokDen.lean`), the analogue of section 6 of `Lemmas/SpecDen.lean` and of `stage_equiv`
(`Lemmas/PestOptGrammar.lean`):
* `RulesSimT g g' uni`: every rule of `g` has a counterpart of the same kind and the same token rule id in `g'`
  whose body means, IN `g'`, the same as the old body;
* `tok_sim`: then every definite answer of `specTok g` is the denotation in `g'`;
* `TokEquiv.of_rulesSim`: two-way simulation gives `TokEquiv g g' uni am e e` for every `e`;
* `tok_grammar_congr` / `tok_stage`: rewriting every body `r.expr ↦ F r` by a rewrite that is a `TokEquiv` in
  every grammar with the same defined names preserves the meaning of every expression;
* `isAtomicId_optimize`, `pruneAtomic_congr`: `pruneAtomic` depends on the grammar through the rule kinds only.
-/
import PestTyped.Lemmas.PestOptTokDen
import PestTyped.Lemmas.PestOptGrammar
set_option linter.unusedVariables false
namespace PestTyped

theorem STR.andThen_ne_oof_left {r : STR} {k : Inp → List Sp → STR} (h : STR.andThen r k ≠ .oof) : r ≠ .oof := by
  intro h0; rw [h0] at h; exact h rfl

/-- `andThen` is monotone in both arguments. -/
theorem STR.andThen_le {r X : STR} {k K : Inp → List Sp → STR} (hr : r ≠ .oof → X = r) (hk : TLe k K)
    (hne : STR.andThen r k ≠ .oof) : STR.andThen X K = STR.andThen r k := by
  rw [hr (STR.andThen_ne_oof_left hne)]
  exact STR.andThen_mono hk hne

/-- Every rule of `g` has a counterpart in `g'` (same kind, same token rule id) whose body means in `g'`
what the old body means in `g'`; names that `g` does not define, `g'` does not define either. -/
structure RulesSimT (g g' : PGrammar) (uni : Uni) : Prop where
  none : ∀ name, g.find? name = none → g'.find? name = none
  some : ∀ name rl, g.find? name = some rl → ∃ rl', g'.find? name = some rl' ∧ rl'.kind = rl.kind ∧
    g'.ruleId name = g.ruleId name ∧
    ∀ am, TokEquiv g' g' uni (bodyAt name rl.kind am) rl.expr rl'.expr

theorem RulesSimT.defines {g g' : PGrammar} {uni : Uni} (h : RulesSimT g g' uni) (name : String) :
    g'.defines name = g.defines name := by
  rw [PGrammar.defines_eq_find?, PGrammar.defines_eq_find?]
  cases hf : g.find? name with
  | none => rw [h.none name hf]
  | some rl =>
    obtain ⟨rl', hf', _⟩ := h.some name rl hf
    rw [hf']; rfl

section Sim
variable {g g' : PGrammar} {uni : Uni} {n : Nat}

/-- The skip, given that fuel-`n` answers of `g` are denotations in `g'`. -/
theorem tok_sim_skip (hdef : ∀ nm, g'.defines nm = g.defines nm)
    (hsp : ∀ am e, TLe (specTok g uni n am e) (denT g' uni am e)) (b : Nat) :
    TLe (specTokSkip (specTok g uni n .nonAtomic) (g.defines "WHITESPACE") (g.defines "COMMENT") b)
      (denSkip g' uni) := by
  intro i S hne
  rw [specTokSkip_eq_loop] at hne ⊢
  unfold denSkip
  refine denLoop_of_loop (U := fun _ => denSkipUnit g' uni) (fun idx => ?_) hne
  unfold specTokSkipUnitAt denSkipUnit
  rw [hdef, hdef]
  exact specTokSkipUnit_mono (fun nm => hsp .nonAtomic (.ident nm)) _ _

theorem tok_sim_skipIf (hdef : ∀ nm, g'.defines nm = g.defines nm)
    (hsp : ∀ am e, TLe (specTok g uni n am e) (denT g' uni am e)) (am : Atom3) :
    TLe (specTokSkipIfAt g uni n am) (denSkipIf g' uni am) := by
  intro i S hne
  unfold specTokSkipIfAt at hne ⊢
  unfold denSkipIf
  cases hna : am.na with
  | true => simp only [hna, if_true] at hne ⊢; exact tok_sim_skip hdef hsp _ i S hne
  | false => simp only [Bool.false_eq_true, if_false]

theorem tok_sim_unit (hdef : ∀ nm, g'.defines nm = g.defines nm)
    (hsp : ∀ am e, TLe (specTok g uni n am e) (denT g' uni am e)) (bs : Nat) (am : Atom3) (e : PExpr) (idx : Nat) :
    TLe (specTokRepUnit (specTok g uni n) bs (g.defines "WHITESPACE") (g.defines "COMMENT") am e idx)
      (denUnit g' uni am e idx) := by
  intro i S hne
  unfold specTokRepUnit at hne ⊢
  unfold denUnit
  by_cases h0 : idx = 0 ∨ (!am.na) = true
  · simp only [h0, if_true] at hne ⊢; exact hsp am e i S hne
  · simp only [h0, if_false] at hne ⊢
    exact STR.andThen_le (fun h => tok_sim_skip hdef hsp bs i S h) (hsp am e) hne

theorem tok_sim_rep (hdef : ∀ nm, g'.defines nm = g.defines nm)
    (hsp : ∀ am e, TLe (specTok g uni n am e) (denT g' uni am e)) (am : Atom3) (e : PExpr) (min : Nat)
    (max : Option Nat) (i : Inp) (S : List Sp)
    (hne : specTokRepWith (specTok g uni n) n (g.defines "WHITESPACE") (g.defines "COMMENT") am e min max i S ≠ .oof) :
    denLoop (denUnit g' uni am e) min max 0 i S [] =
      specTokRepWith (specTok g uni n) n (g.defines "WHITESPACE") (g.defines "COMMENT") am e min max i S := by
  rw [specTokRepWith_eq] at hne ⊢
  exact denLoop_of_loop (fun idx => tok_sim_unit hdef hsp _ am e idx) hne

end Sim

/-- All fuel-`n` definite answers of `g` are denotations in `g'`. -/
theorem tok_sim {g g' : PGrammar} {uni : Uni} (h : RulesSimT g g' uni) :
    ∀ n am e, TLe (specTok g uni n am e) (denT g' uni am e) := by
  have hdef := h.defines
  intro n
  induction n with
  | zero => intro am e i S hne; exact absurd (specTok_zero g uni am e i S) hne
  | succ n ih =>
    intro am e i S hne
    cases e with
    | str s => rw [denT_leaf rfl]; simp only [specTok]
    | insens s => rw [denT_leaf rfl]; simp only [specTok]
    | range lo hi => rw [denT_leaf rfl]; simp only [specTok]
    | peekSlice a b => rw [denT_leaf rfl]; simp only [specTok]
    | skip needles => rw [denT_leaf rfl]; simp only [specTok]
    | ident name =>
      simp only [specTok] at hne ⊢
      cases hf : g.find? name with
      | none => rw [denT_ident_none (h.none name hf)]
      | some rl =>
        rw [hf] at hne
        simp only at hne ⊢
        obtain ⟨rl', hf', hk, hid, hb⟩ := h.some name rl hf
        rw [denT_ident_some hf', hk, hid, ← (hb am).app i S]
        cases hr : specTok g uni n (bodyAt name rl.kind am) rl.expr i S with
        | oof => rw [hr] at hne; exact absurd rfl hne
        | fail => rw [(ih _ _).eq_of hr nofun]; rfl
        | ok i' S' ts => rw [(ih _ _).eq_of hr nofun]; rfl
    | posPred e =>
      rw [denT_posPred]
      simp only [specTok] at hne ⊢
      cases hr : specTok g uni n am e i S with
      | oof => rw [hr] at hne; exact absurd rfl hne
      | fail => rw [(ih _ _).eq_of hr nofun]; rfl
      | ok i' S' ts => rw [(ih _ _).eq_of hr nofun]; rfl
    | negPred e =>
      rw [denT_negPred]
      simp only [specTok] at hne ⊢
      cases hr : specTok g uni n am e i S with
      | oof => rw [hr] at hne; exact absurd rfl hne
      | fail => rw [(ih _ _).eq_of hr nofun]; rfl
      | ok i' S' ts => rw [(ih _ _).eq_of hr nofun]; rfl
    | opt e =>
      rw [denT_opt]
      simp only [specTok] at hne ⊢
      cases hr : specTok g uni n am e i S with
      | oof => rw [hr] at hne; exact absurd rfl hne
      | fail => rw [(ih _ _).eq_of hr nofun]; rfl
      | ok i' S' ts => rw [(ih _ _).eq_of hr nofun]; rfl
    | push e =>
      rw [denT_push]
      simp only [specTok] at hne ⊢
      cases hr : specTok g uni n am e i S with
      | oof => rw [hr] at hne; exact absurd rfl hne
      | fail => rw [(ih _ _).eq_of hr nofun]; rfl
      | ok i' S' ts => rw [(ih _ _).eq_of hr nofun]; rfl
    | restoreOnErr e =>
      rw [denT_restoreOnErr]
      simp only [specTok] at hne ⊢
      exact ih am e i S hne
    | choice a b =>
      rw [denT_choice]
      simp only [specTok] at hne ⊢
      cases hr : specTok g uni n am a i S with
      | oof => rw [hr] at hne; exact absurd rfl hne
      | ok i' S' ts => rw [(ih _ _).eq_of hr nofun]; rfl
      | fail =>
        rw [hr] at hne
        rw [(ih _ _).eq_of hr nofun]
        exact ih am b i S hne
    | seq a b =>
      rw [denT_seq]
      rw [specTok_seq_step] at hne ⊢
      refine STR.andThen_le (fun h0 => ih am a i S h0) (fun i1 S1 h1 => ?_) hne
      exact STR.andThen_le (fun h0 => tok_sim_skipIf hdef ih am i1 S1 h0) (ih am b) h1
    | rep e => rw [denT_rep]; simp only [specTok] at hne ⊢; exact tok_sim_rep hdef ih am e _ _ i S hne
    | repOnce e => rw [denT_repOnce]; simp only [specTok] at hne ⊢; exact tok_sim_rep hdef ih am e _ _ i S hne
    | repExact e k => rw [denT_repExact]; simp only [specTok] at hne ⊢; exact tok_sim_rep hdef ih am e _ _ i S hne
    | repMin e k => rw [denT_repMin]; simp only [specTok] at hne ⊢; exact tok_sim_rep hdef ih am e _ _ i S hne
    | repMax e k => rw [denT_repMax]; simp only [specTok] at hne ⊢; exact tok_sim_rep hdef ih am e _ _ i S hne
    | repMinMax e k l =>
      rw [denT_repMinMax]; simp only [specTok] at hne ⊢; exact tok_sim_rep hdef ih am e _ _ i S hne

/-- Two-way rule simulation gives equivalence of every expression across the two grammars. -/
theorem TokEquiv.of_rulesSim {g g' : PGrammar} {uni : Uni} (h : RulesSimT g g' uni) (h' : RulesSimT g' g uni)
    (am : Atom3) (e : PExpr) : TokEquiv g g' uni am e e := by
  refine .of_forall fun i S => ?_
  by_cases hd : denT g uni am e i S = .oof
  · rw [hd]
    exact Classical.byContradiction fun hne => by
      obtain ⟨m, hm, hm'⟩ := denT_attained (g := g') (Ne.symm hne)
      have := tok_sim h' m am e i S hm'
      rw [hd, hm] at this
      exact hne this
  · obtain ⟨n, hn, hn'⟩ := denT_attained hd
    rw [tok_sim h n am e i S hn', hn]

/-- **Grammar-level congruence** for the token semantics (cf. `spec_grammar_congr`). -/
theorem tok_grammar_congr (g : PGrammar) (uni : Uni) (F : PRule → PExpr)
    (h : ∀ r ∈ g, ∀ am, TokEquiv g g uni (bodyAt r.name r.kind am) r.expr (F r) ∧
      TokEquiv (g.mapBodies F) (g.mapBodies F) uni (bodyAt r.name r.kind am) r.expr (F r)) :
    ∀ am e, TokEquiv g (g.mapBodies F) uni am e e := by
  have hid : ∀ name, (g.mapBodies F).ruleId name = g.ruleId name := by
    intro name
    unfold PGrammar.ruleId
    rw [indexOf_names (g := g) (g' := g.mapBodies F) (by simp [PGrammar.mapBodies, List.map_map, Function.comp_def])]
  have h1 : RulesSimT g (g.mapBodies F) uni := by
    refine ⟨?_, ?_⟩
    · intro name hf
      rw [PGrammar.find?_mapBodies, hf]; rfl
    · intro name rl hf
      refine ⟨{ rl with expr := F rl }, by rw [PGrammar.find?_mapBodies, hf]; rfl, rfl, hid name, ?_⟩
      intro am
      obtain ⟨hn, hm, _⟩ := PGrammar.find?_some hf
      have := (h rl hm am).2
      rw [hn] at this
      exact this
  have h2 : RulesSimT (g.mapBodies F) g uni := by
    refine ⟨?_, ?_⟩
    · intro name hf
      rw [PGrammar.find?_mapBodies] at hf
      cases hg : g.find? name with
      | none => rfl
      | some rl => rw [hg] at hf; cases hf
    · intro name rl' hf
      rw [PGrammar.find?_mapBodies] at hf
      cases hg : g.find? name with
      | none => rw [hg] at hf; cases hf
      | some rl =>
        rw [hg] at hf
        simp only [Option.map_some] at hf
        injection hf with hf
        subst hf
        refine ⟨rl, rfl, rfl, (hid name).symm, ?_⟩
        intro am
        obtain ⟨hn, hm, _⟩ := PGrammar.find?_some hg
        have := (h rl hm am).1
        rw [hn] at this
        exact this.symm
  exact TokEquiv.of_rulesSim h1 h2

/-- One stage of the optimizer: a rewrite of every body that is a `TokEquiv` in every grammar with the same
defined names (and no rule `ANY`, if there was none). -/
theorem tok_stage (g : PGrammar) (uni : Uni) (F : PRule → PExpr)
    (h : ∀ r ∈ g, ∀ G : PGrammar, (∀ nm, G.defines nm = g.defines nm) → (g.find? "ANY" = none → G.find? "ANY" = none) →
      ∀ am, TokEquiv G G uni (bodyAt r.name r.kind am) r.expr (F r)) :
    ∀ am e, TokEquiv g (g.mapBodies F) uni am e e :=
  tok_grammar_congr g uni F fun r hr am =>
    ⟨h r hr g (fun _ => rfl) id am, h r hr _ (defines_mapBodies F g) (find?_none_mapBodies F g "ANY") am⟩

/-! ### pruning of `@` / `$` subtrees depends on the rule kinds only -/

theorem isAtomicId_optimize (g : PGrammar) (r : RuleId) : (optimize g).isAtomicId r = g.isAtomicId r := by
  cases r with
  | zero => rfl
  | succ k =>
    simp only [PGrammar.isAtomicId, optimize, List.getElem?_map]
    cases g[k]? <;> rfl

mutual
theorem pruneAtomicTok_congr {g g' : PGrammar} (h : ∀ r, g'.isAtomicId r = g.isAtomicId r) :
    ∀ t : Token, pruneAtomicTok g' t = pruneAtomicTok g t
  | .mk r s e kids => by simp only [pruneAtomicTok, h r, pruneAtomic_congr h kids]
theorem pruneAtomic_congr {g g' : PGrammar} (h : ∀ r, g'.isAtomicId r = g.isAtomicId r) :
    ∀ ts : List Token, pruneAtomic g' ts = pruneAtomic g ts
  | [] => rfl
  | t :: ts => by simp only [pruneAtomic, pruneAtomicTok_congr h t, pruneAtomic_congr h ts]
end

end PestTyped
