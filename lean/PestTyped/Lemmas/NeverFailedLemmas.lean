/-
Lemmas.NeverFailedLemmas — the loops of the `NeverFailedTypedNode` implementations of the counted
repetitions (`Model/NeverFailed.lean`: `nfLoop`, `nfLoopC`) against the `TypedNode` loops with
`MIN = 0` (`repLoop … 0 max`, `repLoopC … 0 max` of `Model/Run.lean`), so that the trace theory of
`Lemmas/RepLoop.lean` (`RepIters`, `RepStop`) applies to them.

* `nfLoop_eq_repLoop`, `nfLoopC_eq_repLoopC` — the never-failed loops ARE the `MIN = 0` loops (the
  code after the loop, `repDone 0 max` / `repDoneC 0 max`, always succeeds).
* `nfLoop_ne_fail`, `nfLoopC_ne_fail` — they never fail.
* `nfLoop_ok_iff0` — exact characterisation of a successful run from the loop entry.
* `nfLoopC_eq0` — the check copy is the parse copy with the values forgotten.
* `nfLoop_oof_iff` — a run is out of fuel iff a unit run is, or the iteration budget is used up by
  successful iterations; `nfLoop_bounded_oof_iff`, `nfLoop_bounded_ne_oof`: with `max = some mx` and
  the budget `mx + 1` the second reason is impossible.
* `nfUnit0_forget` — with `SKIP = 0` the unit is the element.
-/
import PestTyped.Model.NeverFailed
import PestTyped.Lemmas.RepLoop
namespace PestTyped

/-! ### the loops are the `MIN = 0` loops -/

theorem nfRepDoneC_min0 (max : Option Nat) (i : Inp) (m : M) : repDoneC 0 max i m = .ok i m () := by
  unfold repDoneC
  cases max with
  | none => rfl
  | some mx => simp only [Nat.not_lt_zero, if_false]

/-- `parse_with` runs the loop of `try_parse_partial_with` with `MIN = 0`. -/
theorem nfLoop_eq_repLoop {α} (unit : Nat → Inp → M → R α) (max : Option Nat) :
    ∀ (budget idx : Nat) (i : Inp) (m : M) (acc : List α),
      nfLoop unit max budget idx i m acc = repLoop unit 0 max budget idx i m acc := by
  intro budget
  induction budget with
  | zero => intros; rfl
  | succ b ih =>
    intro idx i m acc
    unfold nfLoop repLoop
    by_cases hmax : max = some idx
    · simp only [hmax, if_true, repDone_min0]
    · simp only [hmax, if_false, Nat.not_lt_zero, repDone_min0]
      cases restoreOnNone m.stk (unit idx i m) with
      | oof => rfl
      | fail mf => rfl
      | ok i1 m1 a => exact ih _ _ _ _

/-- `check_with` runs the loop of `try_check_partial_with` with `MIN = 0`. -/
theorem nfLoopC_eq_repLoopC (unit : Nat → Inp → M → R Unit) (max : Option Nat) :
    ∀ (budget idx : Nat) (i : Inp) (m : M),
      nfLoopC unit max budget idx i m = repLoopC unit 0 max budget idx i m := by
  intro budget
  induction budget with
  | zero => intros; rfl
  | succ b ih =>
    intro idx i m
    unfold nfLoopC repLoopC
    by_cases hmax : max = some idx
    · simp only [hmax, if_true, nfRepDoneC_min0]
    · simp only [hmax, if_false, Nat.not_lt_zero, nfRepDoneC_min0]
      cases restoreOnNone m.stk (unit idx i m) with
      | oof => rfl
      | fail mf => rfl
      | ok i1 m1 a => exact ih _ _ _

/-! ### never a failure -/

theorem nfLoop_ne_fail {α} (unit : Nat → Inp → M → R α) (max : Option Nat)
    (budget idx : Nat) (i : Inp) (m : M) (acc : List α) (m' : M) :
    nfLoop unit max budget idx i m acc ≠ .fail m' := by
  rw [nfLoop_eq_repLoop]; exact repLoop_min0_ne_fail unit max budget idx i m acc m'

theorem nfLoopC_ne_fail (unit : Nat → Inp → M → R Unit) (max : Option Nat)
    (budget idx : Nat) (i : Inp) (m : M) (m' : M) :
    nfLoopC unit max budget idx i m ≠ .fail m' := by
  induction budget generalizing idx i m with
  | zero => intro h; cases h
  | succ b ih =>
    unfold nfLoopC
    split
    · intro h; cases h
    · split
      · intro h; cases h
      · intro h; cases h
      · exact ih _ _ _

/-! ### successful runs -/

/-- A run from the loop entry succeeds with `out` at `(i', m')` iff iterations `0 … out.length-1`
succeed (leaving `(i', m1)`), the loop stops at iteration `out.length` (it is `MAX`, or the unit
fails there and its stack effects are undone), and the model's iteration budget suffices. -/
theorem nfLoop_ok_iff0 {α} (unit : Nat → Inp → M → R α) (max : Option Nat)
    (budget : Nat) (i : Inp) (m : M) (i' : Inp) (m' : M) (out : List α) :
    nfLoop unit max budget 0 i m [] = .ok i' m' out ↔
      ∃ m1, RepIters unit max 0 i m i' m1 out ∧
        RepStop unit max out.length i' m1 m' ∧ out.length < budget := by
  rw [nfLoop_eq_repLoop, repLoop_ok_iff0]
  constructor
  · rintro ⟨m1, hI, hS, _, hb⟩; exact ⟨m1, hI, hS, hb⟩
  · rintro ⟨m1, hI, hS, hb⟩; exact ⟨m1, hI, hS, Nat.zero_le _, hb⟩

/-- The check copy of the loop against the parse copy. -/
theorem nfLoopC_eq0 {α} (uc : Nat → Inp → M → R Unit) (up : Nat → Inp → M → R α)
    (hu : ∀ idx i m, uc idx i m = (up idx i m).forget) (max : Option Nat)
    (budget : Nat) (i : Inp) (m : M) :
    nfLoopC uc max budget 0 i m = (nfLoop up max budget 0 i m []).forget := by
  rw [nfLoopC_eq_repLoopC, nfLoop_eq_repLoop]
  exact repLoopC_eq0 uc up hu 0 max budget i m

/-- Congruence of the parse copy in its unit, values forgotten. -/
theorem nfLoop_forget {α α'} (uc : Nat → Inp → M → R α) (up : Nat → Inp → M → R α')
    (hu : ∀ idx i m, (uc idx i m).forget = (up idx i m).forget) (max : Option Nat)
    (budget idx : Nat) (i : Inp) (m : M) (accc : List α) (accp : List α')
    (hlen : accc.length = accp.length) :
    (nfLoop uc max budget idx i m accc).forget = (nfLoop up max budget idx i m accp).forget := by
  rw [nfLoop_eq_repLoop, nfLoop_eq_repLoop]
  exact repLoop_forget uc up hu 0 max budget idx i m accc accp hlen

/-! ### out of fuel -/

/-- Every out-of-fuel run of the loop has one of two reasons: after a successful prefix shorter
than the budget a unit run (not iteration `MAX`) is out of fuel; or `budget` iterations succeed. -/
theorem nfLoop_oof_cases {α} (unit : Nat → Inp → M → R α) (max : Option Nat) :
    ∀ (budget idx : Nat) (i : Inp) (m : M) (acc : List α),
      nfLoop unit max budget idx i m acc = .oof →
        (∃ vs i1 m1, RepIters unit max idx i m i1 m1 vs ∧ max ≠ some (idx + vs.length) ∧
          unit (idx + vs.length) i1 m1 = .oof ∧ vs.length < budget) ∨
        (∃ vs i1 m1, RepIters unit max idx i m i1 m1 vs ∧ vs.length = budget) := by
  intro budget
  induction budget with
  | zero => intro idx i m acc _; exact Or.inr ⟨[], i, m, .nil _ _ _, rfl⟩
  | succ b ih =>
    intro idx i m acc h
    unfold nfLoop at h
    by_cases hmax : max = some idx
    · simp only [hmax, if_true] at h; cases h
    · simp only [hmax, if_false] at h
      cases hu : unit idx i m with
      | oof =>
        exact Or.inl ⟨[], i, m, .nil _ _ _, by simpa using hmax, by simpa using hu, by simp⟩
      | fail mf => rw [hu] at h; simp only [restoreOnNone] at h; cases h
      | ok i1 m1 a =>
        rw [hu] at h; simp only [restoreOnNone] at h
        have e : ∀ vs : List α, idx + (a :: vs).length = idx + 1 + vs.length := by
          intro vs; simp only [List.length_cons]; omega
        rcases ih _ _ _ _ h with ⟨vs, i2, m2, hI, hne, ho, hb⟩ | ⟨vs, i2, m2, hI, hl⟩
        · exact Or.inl ⟨a :: vs, i2, m2, .cons hmax hu hI, by rw [e]; exact hne, by rw [e]; exact ho,
            by simp only [List.length_cons]; omega⟩
        · exact Or.inr ⟨a :: vs, i2, m2, .cons hmax hu hI, by simp only [List.length_cons, hl]⟩

theorem nfLoop_oof_of_unit {α} {unit : Nat → Inp → M → R α} {max : Option Nat} {idx i m i1 m1 vs}
    (hI : RepIters unit max idx i m i1 m1 vs) (hne : max ≠ some (idx + vs.length))
    (ho : unit (idx + vs.length) i1 m1 = .oof) :
    ∀ (budget : Nat) (acc : List α), vs.length < budget → nfLoop unit max budget idx i m acc = .oof := by
  induction hI with
  | nil idx i m =>
    intro budget acc hb
    cases budget with
    | zero => simp at hb
    | succ b =>
      simp only [List.length_nil, Nat.add_zero] at hne ho
      unfold nfLoop
      simp only [hne, if_false, ho, restoreOnNone]
  | @cons idx i m i1 m1 a i' m' vs hmax hu _ ih =>
    intro budget acc hb
    cases budget with
    | zero => simp at hb
    | succ b =>
      have e : idx + (a :: vs).length = idx + 1 + vs.length := by
        simp only [List.length_cons]; omega
      rw [e] at hne ho
      unfold nfLoop
      simp only [hmax, if_false, hu, restoreOnNone]
      exact ih hne ho b _ (by simp only [List.length_cons] at hb; omega)

theorem nfLoop_oof_of_budget {α} {unit : Nat → Inp → M → R α} {max : Option Nat} {idx i m i1 m1 vs}
    (hI : RepIters unit max idx i m i1 m1 vs) :
    ∀ (acc : List α), nfLoop unit max vs.length idx i m acc = .oof := by
  induction hI with
  | nil idx i m => intro acc; rfl
  | @cons idx i m i1 m1 a i' m' vs hmax hu _ ih =>
    intro acc
    simp only [List.length_cons]
    unfold nfLoop
    simp only [hmax, if_false, hu, restoreOnNone]
    exact ih _

/-- Exact characterisation of the out-of-fuel runs. -/
theorem nfLoop_oof_iff {α} (unit : Nat → Inp → M → R α) (max : Option Nat)
    (budget idx : Nat) (i : Inp) (m : M) (acc : List α) :
    nfLoop unit max budget idx i m acc = .oof ↔
      (∃ vs i1 m1, RepIters unit max idx i m i1 m1 vs ∧ max ≠ some (idx + vs.length) ∧
        unit (idx + vs.length) i1 m1 = .oof ∧ vs.length < budget) ∨
      (∃ vs i1 m1, RepIters unit max idx i m i1 m1 vs ∧ vs.length = budget) := by
  constructor
  · exact nfLoop_oof_cases unit max budget idx i m acc
  · rintro (⟨vs, i1, m1, hI, hne, ho, hb⟩ | ⟨vs, i1, m1, hI, rfl⟩)
    · exact nfLoop_oof_of_unit hI hne ho budget acc hb
    · exact nfLoop_oof_of_budget hI acc

/-- `RepeatMinMax<_, 0, MAX>` with the budget `MAX + 1` from the loop entry: the budget is never the
reason for running out of fuel — only a unit run (one of the iterations `0 … MAX-1`) can be. -/
theorem nfLoop_bounded_oof_iff {α} (unit : Nat → Inp → M → R α) (mx : Nat) (i : Inp) (m : M) :
    nfLoop unit (some mx) (mx + 1) 0 i m [] = .oof ↔
      ∃ vs i1 m1, RepIters unit (some mx) 0 i m i1 m1 vs ∧ vs.length < mx ∧
        unit vs.length i1 m1 = .oof := by
  rw [nfLoop_oof_iff]
  constructor
  · rintro (⟨vs, i1, m1, hI, hne, ho, _⟩ | ⟨vs, i1, m1, hI, hl⟩)
    · have hle := hI.max_bound mx rfl (Nat.zero_le _)
      simp only [Nat.zero_add] at hle hne ho
      have : vs.length ≠ mx := fun e => hne (by rw [e])
      exact ⟨vs, i1, m1, hI, by omega, ho⟩
    · have hle := hI.max_bound mx rfl (Nat.zero_le _)
      omega
  · rintro ⟨vs, i1, m1, hI, hlt, ho⟩
    refine Or.inl ⟨vs, i1, m1, hI, ?_, by simpa using ho, by omega⟩
    simp only [Nat.zero_add]
    intro e; injection e with e; omega

/-- The generalisation with `budget + idx = MAX + 1` (and `idx ≤ MAX`, the invariant of `for i in
0..MAX`): if no unit run is out of fuel, the bounded loop is not either. -/
theorem nfLoop_bounded_ne_oof_gen {α} (unit : Nat → Inp → M → R α) (mx : Nat)
    (hu : ∀ idx i m, unit idx i m ≠ .oof) :
    ∀ (budget idx : Nat) (i : Inp) (m : M) (acc : List α), budget + idx = mx + 1 → idx ≤ mx →
      nfLoop unit (some mx) budget idx i m acc ≠ .oof := by
  intro budget
  induction budget with
  | zero => intro idx i m acc hb hle; omega
  | succ b ih =>
    intro idx i m acc hb hle
    unfold nfLoop
    by_cases hmax : some mx = some idx
    · simp only [hmax, if_true]; intro h; cases h
    · simp only [hmax, if_false]
      have hne : idx ≠ mx := fun e => hmax (by rw [e])
      cases hr : unit idx i m with
      | oof => exact absurd hr (hu idx i m)
      | fail mf => simp only [restoreOnNone]; intro h; cases h
      | ok i1 m1 a =>
        simp only [restoreOnNone]
        exact ih _ _ _ _ (by omega) (by omega)

/-- From the loop entry. -/
theorem nfLoop_bounded_ne_oof {α} (unit : Nat → Inp → M → R α) (mx : Nat)
    (hu : ∀ idx i m, unit idx i m ≠ .oof) (i : Inp) (m : M) :
    nfLoop unit (some mx) (mx + 1) 0 i m [] ≠ .oof :=
  nfLoop_bounded_ne_oof_gen unit mx hu (mx + 1) 0 i m [] rfl (Nat.zero_le _)

/-! ### the caller's tracker -/

/-- Replace the tracker of the state a result carries (cursor, stack, value, verdict unchanged). -/
def Res.nfSetTrk {α} (t : Tracker) : R α → R α
  | .oof => .oof
  | .fail m => .fail { m with trk := t }
  | .ok i m a => .ok i { m with trk := t } a

/-- The tracker of the state a result carries (projection for statements and examples). -/
def Res.nfTrk? {α} : R α → Option Tracker
  | .oof => none
  | .fail m => some m.trk
  | .ok _ m _ => some m.trk

theorem Res.nfSetTrk_forget {α} (t : Tracker) (r : R α) : (r.nfSetTrk t).forget = r.forget.nfSetTrk t := by
  cases r <;> rfl

/-! ### `SKIP = 0`: the unit is the element -/

theorem nfUnit0_forget (skip body : Inp → M → R Val) (dflt : Val) (idx : Nat) (i : Inp) (m : M) :
    (repUnitP skip body dflt 0 idx i m).forget = (body i m).forget := by
  unfold repUnitP
  by_cases h0 : idx = 0
  · simp only [h0, if_true]; cases body i m <;> rfl
  · simp only [h0, if_false, skipLoop]; cases body i m <;> rfl

end PestTyped
