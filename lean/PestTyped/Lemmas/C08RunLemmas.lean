/-
Lemmas.C08RunLemmas — embedding a byte-level run into a larger backing string.

`Inp0.embed pre post i0` is the byte cursor `i0` seen as a sub-input of the string `pre ++ bytes ++ post`:
the backing bytes grow on both sides, `start`/`pos`/`end` move by `|pre|`.  For the fresh cursor of a
string `mid` this is exactly what `Span::as_input` builds for `Span(pre ++ mid ++ post, |pre|, |pre| + |mid|)`
(`embed_strAsInput0`), and with `post = []` what `Position::as_input` builds (`embed_strAsInput0_position`).
`M0.shift a` moves the stack spans and the tracker positions, `R0.embed` a whole result.

Main results: `parse0_embed`, `check0_embed`, `tryParse0_embed`, … — EQUALITIES between byte-level runs:
the run on the embedded cursor is the embedded result of the run on the original cursor.  Proof: both
sides are `Rel0`-related to the SAME character-level result (`C09` simulation on the big string, the
character-level shift lemma `parse_tr` of `Lemmas/Shift.lean`, `Rel0.embed`), and `Rel0` is functional
from right to left (`Rel0.inj`).

`pre`/`post` are texts (`List Char`), i.e. the whole backing string is valid UTF-8 — the type invariant of
the `&str` a `Span`/`Position` borrows.
-/
import PestTyped.Lemmas.RunL0Lemmas
import PestTyped.Lemmas.Shift
import PestTyped.Props.C08Bytes
namespace PestTyped

/-! ### definitions -/

/-- The byte cursor as a sub-input of `pre ++ bytes ++ post`. -/
def Inp0.embed (pre post : List Char) (i : Inp0) : Inp0 :=
  ⟨enc pre ++ i.bytes ++ enc post, i.start + blen pre, i.pos + blen pre, i.end + blen pre⟩

def shiftPair (a : Nat) (p : Nat × Nat) : Nat × Nat := (p.1 + a, p.2 + a)

def M0.shift (a : Nat) (m : M0) : M0 := ⟨m.stk.map (shiftPair a), m.trk.shift a⟩

def R0.map {α β} (fi : Inp0 → Inp0) (fm : M0 → M0) (fv : α → β) : R0 α → R0 β
  | .oof => .oof
  | .panic => .panic
  | .ub => .ub
  | .fail m => .fail (fm m)
  | .ok i m v => .ok (fi i) (fm m) (fv v)

/-- A result moved into the larger string: cursor embedded, state shifted, value by `fv`. -/
def R0.embed {α} (pre post : List Char) (fv : α → α) (r : R0 α) : R0 α :=
  r.map (Inp0.embed pre post) (M0.shift (blen pre)) fv

/-- Forget the backing bytes carried by the returned cursor. -/
def R0.dropBytes {α} (r : R0 α) : R0 α := r.map (fun i => { i with bytes := [] }) id id

/-! ### the three input forms -/

theorem embed_strAsInput0 (pre mid post : List Char) :
    (strAsInput0 (enc mid)).embed pre post =
      spanAsInput0 (enc (pre ++ mid ++ post)) (blen pre) (blen pre + blen mid) := by
  simp only [Inp0.embed, strAsInput0, spanAsInput0, enc_append, length_enc, Nat.zero_add, Nat.add_comm]

theorem embed_strAsInput0_position (pre rest : List Char) :
    (strAsInput0 (enc rest)).embed pre [] = positionAsInput0 (enc (pre ++ rest)) (blen pre) := by
  simp only [Inp0.embed, strAsInput0, positionAsInput0, enc_append, enc_nil, List.append_nil, length_enc,
    List.length_append, Nat.zero_add, Nat.add_comm]

/-! ### the relations are stable under embedding -/

theorem Abs.embed {i0 : Inp0} {i : Inp} (h : Abs i0 i) (pre post : List Char) :
    Abs (i0.embed pre post) (i.tr (blen pre) (· ++ post)) := by
  obtain ⟨pre0, hb, hp, he, hpos, hst⟩ := h
  refine ⟨pre ++ pre0, ?_, ?_, ?_, ?_, ?_⟩
  · show enc pre ++ i0.bytes ++ enc post = enc (pre ++ pre0) ++ enc i.rest ++ enc (i.after ++ post)
    rw [hb]; simp only [enc_append, List.append_assoc]
  · show i0.pos + blen pre = blen (pre ++ pre0)
    rw [blen_append, hp]; omega
  · show i0.end + blen pre = blen (pre ++ pre0) + blen i.rest
    rw [blen_append, he]; omega
  · show i.pos + blen pre = i0.pos + blen pre
    rw [hpos]
  · show i.start + blen pre = i0.start + blen pre
    rw [hst]

theorem SpOK.embed {w : List Char} {sp : Sp} (h : SpOK (enc w) sp) (pre post : List Char) :
    SpOK (enc pre ++ enc w ++ enc post) (sp.shift (blen pre)) := by
  unfold SpOK at h ⊢
  obtain ⟨p, mid, q, hs, ha, hb, hsl⟩ := C08_span_decompose w sp.s sp.e _ h
  have hmid : sp.txt = mid := enc_inj hsl
  have := strGet_of_pieces pre p mid q post
  rw [← hs] at this
  simp only [Sp.shift]
  rw [hmid, ha, hb]
  have e1 : blen p + blen pre = blen pre + blen p := Nat.add_comm _ _
  have e2 : blen p + blen mid + blen pre = blen pre + blen p + blen mid := by omega
  rw [e1, e2]; exact this

theorem AbsM.embed {w : List Char} {m0 : M0} {m : M} (hm : AbsM (enc w) m0 m) (pre post : List Char) :
    AbsM (enc pre ++ enc w ++ enc post) (m0.shift (blen pre)) (m.shift (blen pre)) := by
  obtain ⟨⟨hst, hok⟩, htrk⟩ := hm
  refine ⟨⟨?_, ?_⟩, ?_⟩
  · simp only [M0.shift, M.shift, hst, List.map_map]
    rfl
  · intro sp hsp
    simp only [M.shift] at hsp
    obtain ⟨sp0, h0, rfl⟩ := List.mem_map.mp hsp
    exact (hok sp0 h0).embed pre post
  · simp only [M0.shift, M.shift, htrk]

/-- A cursor satisfying the invariant lives on a valid UTF-8 string. -/
theorem Abs.bytes_enc {i0 : Inp0} {i : Inp} (h : Abs i0 i) : ∃ w, i0.bytes = enc w := by
  obtain ⟨pre0, hb, _⟩ := h
  exact ⟨pre0 ++ i.rest ++ i.after, by rw [hb]; simp only [enc_append]⟩

theorem Rel0.embed {α} {w : List Char} {r0 : R0 α} {r : R α} (h : Rel0 (enc w) r0 r) (pre post : List Char)
    (fv : α → α) :
    Rel0 (enc pre ++ enc w ++ enc post) (r0.embed pre post fv) (r.tr (blen pre) (· ++ post) fv) := by
  rcases h.cases with ⟨h0, h1⟩ | ⟨m0, m, h0, h1, hm⟩ | ⟨i0, i, m0, m, a, h0, h1, hi, hb, hm⟩ <;> subst h0 h1
  · trivial
  · exact hm.embed pre post
  · refine ⟨hi.embed pre post, ?_, hm.embed pre post, rfl⟩
    show enc pre ++ i0.bytes ++ enc post = _
    rw [hb]

/-! ### runs -/

section runs
variable (checked : Bool) (g : NodeGrammar) (uni : Uni)

theorem parse0_embed (n : Nat) (inh : Bool) (node : Node) {i0 : Inp0} {i : Inp} {m0 : M0} {m : M}
    (hi : Abs i0 i) (hm : AbsM i0.bytes m0 m) (pre post : List Char) :
    parse0 checked g uni n inh node (i0.embed pre post) (m0.shift (blen pre)) =
      (parse0 checked g uni n inh node i0 m0).embed pre post (Val.shift (blen pre)) := by
  obtain ⟨w, hw⟩ := hi.bytes_enc
  rw [hw] at hm
  have hbig : (i0.embed pre post).bytes = enc pre ++ enc w ++ enc post := by
    show enc pre ++ i0.bytes ++ enc post = _
    rw [hw]
  have h1 := parse0_rel0 checked g uni _ n inh node _ _ _ _ (hi.embed pre post) hbig (hm.embed pre post)
  rw [parse_tr] at h1
  have h2 := (parse0_rel0 checked g uni _ n inh node i0 i m0 m hi hw hm).embed pre post (Val.shift (blen pre))
  exact h1.inj h2

theorem check0_embed (n : Nat) (inh : Bool) (node : Node) {i0 : Inp0} {i : Inp} {m0 : M0} {m : M}
    (hi : Abs i0 i) (hm : AbsM i0.bytes m0 m) (pre post : List Char) :
    check0 checked g uni n inh node (i0.embed pre post) (m0.shift (blen pre)) =
      (check0 checked g uni n inh node i0 m0).embed pre post id := by
  obtain ⟨w, hw⟩ := hi.bytes_enc
  rw [hw] at hm
  have hbig : (i0.embed pre post).bytes = enc pre ++ enc w ++ enc post := by
    show enc pre ++ i0.bytes ++ enc post = _
    rw [hw]
  have h1 := check0_rel0 checked g uni _ n inh node _ _ _ _ (hi.embed pre post) hbig (hm.embed pre post)
  rw [check_tr] at h1
  have h2 := (check0_rel0 checked g uni _ n inh node i0 i m0 m hi hw hm).embed pre post id
  exact h1.inj h2

theorem tryParse0_embed (n : Nat) (r : RuleId) {i0 : Inp0} {i : Inp} (hi : Abs i0 i) (pre post : List Char) :
    tryParse0 checked g uni n r (i0.embed pre post) =
      (tryParse0 checked g uni n r i0).embed pre post (Val.shift (blen pre)) := by
  obtain ⟨w, hw⟩ := hi.bytes_enc
  have h1 := tryParse0_rel0 checked g uni n r (hi.embed pre post)
  rw [tryParse_tr] at h1
  have h2 := tryParse0_rel0 checked g uni n r hi
  rw [hw] at h2
  have h3 := h2.embed pre post (Val.shift (blen pre))
  have hbig : (i0.embed pre post).bytes = enc pre ++ enc w ++ enc post := by
    show enc pre ++ i0.bytes ++ enc post = _
    rw [hw]
  rw [hbig] at h1
  exact h1.inj h3

theorem tryCheck0_embed (n : Nat) (r : RuleId) {i0 : Inp0} {i : Inp} (hi : Abs i0 i) (pre post : List Char) :
    tryCheck0 checked g uni n r (i0.embed pre post) =
      (tryCheck0 checked g uni n r i0).embed pre post id := by
  obtain ⟨w, hw⟩ := hi.bytes_enc
  have h1 := tryCheck0_rel0 checked g uni n r (hi.embed pre post)
  rw [tryCheck_tr] at h1
  have h2 := tryCheck0_rel0 checked g uni n r hi
  rw [hw] at h2
  have h3 := h2.embed pre post id
  have hbig : (i0.embed pre post).bytes = enc pre ++ enc w ++ enc post := by
    show enc pre ++ i0.bytes ++ enc post = _
    rw [hw]
  rw [hbig] at h1
  exact h1.inj h3

theorem tryParsePartial0_embed (n : Nat) (r : RuleId) {i0 : Inp0} {i : Inp} (hi : Abs i0 i)
    (pre post : List Char) :
    tryParsePartial0 checked g uni n r (i0.embed pre post) =
      (tryParsePartial0 checked g uni n r i0).embed pre post (Val.shift (blen pre)) := by
  obtain ⟨w, hw⟩ := hi.bytes_enc
  have h1 := tryParsePartial0_rel0 checked g uni n r (hi.embed pre post)
  rw [tryParsePartial_tr] at h1
  have h2 := tryParsePartial0_rel0 checked g uni n r hi
  rw [hw] at h2
  have h3 := h2.embed pre post (Val.shift (blen pre))
  have hbig : (i0.embed pre post).bytes = enc pre ++ enc w ++ enc post := by
    show enc pre ++ i0.bytes ++ enc post = _
    rw [hw]
  rw [hbig] at h1
  exact h1.inj h3

theorem tryCheckPartial0_embed (n : Nat) (r : RuleId) {i0 : Inp0} {i : Inp} (hi : Abs i0 i)
    (pre post : List Char) :
    tryCheckPartial0 checked g uni n r (i0.embed pre post) =
      (tryCheckPartial0 checked g uni n r i0).embed pre post id := by
  obtain ⟨w, hw⟩ := hi.bytes_enc
  have h1 := tryCheckPartial0_rel0 checked g uni n r (hi.embed pre post)
  rw [tryCheckPartial_tr] at h1
  have h2 := tryCheckPartial0_rel0 checked g uni n r hi
  rw [hw] at h2
  have h3 := h2.embed pre post id
  have hbig : (i0.embed pre post).bytes = enc pre ++ enc w ++ enc post := by
    show enc pre ++ i0.bytes ++ enc post = _
    rw [hw]
  rw [hbig] at h1
  exact h1.inj h3

end runs

/-- Without its backing bytes an embedded result depends on the context only through `|pre|`. -/
theorem R0.dropBytes_embed {α} (r : R0 α) (pre post pre' post' : List Char) (fv : α → α)
    (h : blen pre = blen pre') : (r.embed pre post fv).dropBytes = (r.embed pre' post' fv).dropBytes := by
  cases r <;> simp only [R0.embed, R0.map, R0.dropBytes, Inp0.embed, h]

/-! ### well-formedness of a byte-level state, in byte terms -/

/-- Every stack span is a valid span of the byte string (`input.get(s..e).is_some()`). -/
def M0.Valid (bs : List UInt8) (m0 : M0) : Prop := ∀ p ∈ m0.stk, (strGet bs p.1 p.2).isSome

/-- A valid byte-level state over a valid UTF-8 string corresponds to a character-level state. -/
theorem M0.Valid.absM {w : List Char} {m0 : M0} (h : m0.Valid (enc w)) : ∃ m, AbsM (enc w) m0 m := by
  obtain ⟨stk, trk⟩ := m0
  simp only [M0.Valid] at h
  suffices hs : ∃ s, StkAbs (enc w) stk s by
    obtain ⟨s, hs⟩ := hs
    exact ⟨⟨s, trk⟩, hs, rfl⟩
  induction stk with
  | nil => exact ⟨[], StkAbs.nil _⟩
  | cons p rest ih =>
    obtain ⟨s, hs⟩ := ih (fun q hq => h q (List.mem_cons_of_mem _ hq))
    have hp := h p List.mem_cons_self
    cases hg : strGet (enc w) p.1 p.2 with
    | none => rw [hg] at hp; cases hp
    | some sl =>
      obtain ⟨a, mid, b, _, _, _, hsl⟩ := C08_span_decompose w p.1 p.2 sl hg
      have hok : SpOK (enc w) ⟨p.1, p.2, mid⟩ := by unfold SpOK; rw [hg, hsl]
      exact ⟨⟨p.1, p.2, mid⟩ :: s, StkAbs.cons hok hs⟩

end PestTyped
