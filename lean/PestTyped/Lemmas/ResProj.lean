/-
Lemmas.ResProj — result projections shared by several developments (`Lemmas/Choice`, `Lemmas/RepLoop`,
`Props/C08`).  They used to be declared, identically, in each of these files, which made the
files impossible to import together; they are declared once here.  Used by `decide` examples
(`Res` and `Val` have no `DecidableEq`) and by a few statements.
-/
import PestTyped.Model.Basic
namespace PestTyped

def Res.isOk {σ α} : Res σ α → Bool
  | .ok _ _ _ => true
  | _ => false

def Res.isFail {σ α} : Res σ α → Bool
  | .fail _ => true
  | _ => false

/-- Byte position of the cursor after a success. -/
def Res.okPos? {σ α} : Res σ α → Option Nat
  | .ok i _ _ => some i.pos
  | _ => none

end PestTyped
