/-
Lemmas.TextSpanUsize — `Span::get` with machine-width bounds (`Span.getU`), identity-based
equality / hashing of spans (`ISpan`), and the positions returned by `split` (for C13).
-/
import PestTyped.Lemmas.TextSpanMore
namespace PestTyped
namespace Text

/-- A bound of `get` whose successor does not fit into a `w`-bit `usize`: the start
`Excluded(o)` or the end `Included(o)` with `o + 1 ≥ 2^w` (i.e. `o = usize::MAX`). -/
def Bound.Overflows (w : Nat) (lo hi : Bound) : Prop :=
  (∃ o, lo = .excl o ∧ 2 ^ w ≤ o + 1) ∨ (∃ o, hi = .incl o ∧ 2 ^ w ≤ o + 1)

theorem checkedSucc_of_lt {w o : Nat} (h : o + 1 < 2 ^ w) : checkedSucc w o = some (o + 1) := by
  unfold checkedSucc; rw [if_pos h]

theorem checkedSucc_of_ge {w o : Nat} (h : 2 ^ w ≤ o + 1) : checkedSucc w o = none := by
  unfold checkedSucc; rw [if_neg (by omega)]

/-- On a valid span the unbounded-integer `get` never panics. -/
theorem Span.get_ok_of_valid {sp : Span} (h : sp.Valid) (lo hi : Bound) : ∃ r, sp.get lo hi = .ok r := by
  obtain ⟨pre, t, post, h1, h2, h3⟩ := h.split
  unfold Span.get
  rw [Span.asStr_of_split h1 h2 h3]
  exact ⟨_, rfl⟩

theorem Span.getU_of_overflow {w : Nat} (sp : Span) (h : sp.Valid) {lo hi : Bound}
    (ho : Bound.Overflows w lo hi) : sp.getU w lo hi = .ok none := by
  obtain ⟨pre, t, post, h1, h2, h3⟩ := h.split
  have hs := Span.asStr_of_split h1 h2 h3
  unfold Span.getU
  rcases ho with ⟨o, rfl, ho⟩ | ⟨o, rfl, ho⟩
  · simp only [checkedSucc_of_ge ho]
  · cases lo with
    | incl a => simp only [checkedSucc_of_ge ho]
    | excl a =>
      by_cases ha : a + 1 < 2 ^ w
      · simp only [checkedSucc_of_lt ha, checkedSucc_of_ge ho]
      · simp only [checkedSucc_of_ge (by omega : 2 ^ w ≤ a + 1)]
    | unb => simp only [checkedSucc_of_ge ho]

theorem Span.getU_of_no_overflow {w : Nat} (sp : Span) (h : sp.Valid) {lo hi : Bound}
    (ho : ¬ Bound.Overflows w lo hi) : sp.getU w lo hi = sp.get lo hi := by
  obtain ⟨pre, t, post, h1, h2, h3⟩ := h.split
  have hs := Span.asStr_of_split h1 h2 h3
  have hlo : ∀ o, lo = .excl o → o + 1 < 2 ^ w := by
    intro o he
    by_cases hc : o + 1 < 2 ^ w
    · exact hc
    · exact absurd (Or.inl ⟨o, he, by omega⟩) ho
  have hhi : ∀ o, hi = .incl o → o + 1 < 2 ^ w := by
    intro o he
    by_cases hc : o + 1 < 2 ^ w
    · exact hc
    · exact absurd (Or.inr ⟨o, he, by omega⟩) ho
  unfold Span.getU Span.get
  rw [hs]
  cases lo with
  | incl a =>
    cases hi with
    | incl b => simp only [checkedSucc_of_lt (hhi b rfl), Bound.startOff, Bound.endOff]
    | excl b => simp only [Bound.startOff, Bound.endOff]
    | unb => simp only [Bound.startOff, Bound.endOff]
  | excl a =>
    cases hi with
    | incl b => simp only [checkedSucc_of_lt (hlo a rfl), checkedSucc_of_lt (hhi b rfl), Bound.startOff, Bound.endOff]
    | excl b => simp only [checkedSucc_of_lt (hlo a rfl), Bound.startOff, Bound.endOff]
    | unb => simp only [checkedSucc_of_lt (hlo a rfl), Bound.startOff, Bound.endOff]
  | unb =>
    cases hi with
    | incl b => simp only [checkedSucc_of_lt (hhi b rfl), Bound.startOff, Bound.endOff]
    | excl b => simp only [Bound.startOff, Bound.endOff]
    | unb => simp only [Bound.startOff, Bound.endOff]

/-- A resolved bound beyond the end of the span gives `None`. -/
theorem Span.get_none_of_beyond {sp : Span} (h : sp.Valid) (lo hi : Bound)
    (hb : sp.stop - sp.start < lo.startOff ∨ sp.stop - sp.start < hi.endOff (sp.stop - sp.start)) :
    sp.get lo hi = .ok none := by
  apply (Span.get_of_valid h lo hi).2
  have := h.1
  rintro ⟨h1, h2, _, _⟩
  omega

/-! ### identity of the input object -/

theorem ISpan.eq_iff (a b : ISpan) :
    a.eq b = true ↔ a.obj = b.obj ∧ a.sp.start = b.sp.start ∧ a.sp.stop = b.sp.stop := by
  unfold ISpan.eq
  simp [Bool.and_eq_true, and_assoc]

theorem ISpan.eq_iff_hashFeed (a b : ISpan) : a.eq b = true ↔ a.hashFeed = b.hashFeed := by
  rw [ISpan.eq_iff]
  unfold ISpan.hashFeed
  simp

theorem mergeISpans_eq_some_iff {a b c : ISpan} :
    mergeISpans a b = some c ↔
      (a.sp.stop ≥ b.sp.start ∧ a.sp.start ≤ b.sp.stop) ∧
      min a.sp.start b.sp.start ≤ max a.sp.stop b.sp.stop ∧
      IsBoundary a.sp.input (min a.sp.start b.sp.start) ∧ IsBoundary a.sp.input (max a.sp.stop b.sp.stop) ∧
      c = ⟨a.obj, ⟨a.sp.input, min a.sp.start b.sp.start, max a.sp.stop b.sp.stop⟩⟩ := by
  unfold mergeISpans
  cases hm : mergeSpans a.sp b.sp with
  | none =>
    simp only [Option.map_none]
    constructor
    · intro h; cases h
    · rintro ⟨h1, h2, h3, h4, _⟩
      have := (mergeSpans_eq_some_iff (c := ⟨a.sp.input, min a.sp.start b.sp.start, max a.sp.stop b.sp.stop⟩)).mpr
        ⟨h1, h2, h3, h4, rfl⟩
      rw [hm] at this; cases this
  | some r =>
    obtain ⟨h1, h2, h3, h4, hr⟩ := mergeSpans_eq_some_iff.mp hm
    simp only [Option.map_some, Option.some.injEq]
    constructor
    · intro h; exact ⟨h1, h2, h3, h4, by rw [← h, hr]⟩
    · rintro ⟨_, _, _, _, hc⟩; rw [hc, hr]

end Text
end PestTyped
