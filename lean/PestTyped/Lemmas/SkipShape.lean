/-
Lemmas.SkipShape — the implicit skip in pest's LITERAL shape, and the trace lemmas that relate it
to the single loop of `Model/Spec.lean`.

pest 2.7.14 (`pest_generator::generator::generate_skip`) emits, when skipping is on,

  (W, C) = (false, false)   Ok(state)
  (true,  false)            state.repeat(WHITESPACE)
  (false, true)             state.repeat(COMMENT)
  (true,  true)             state.sequence( repeat(WHITESPACE) ~
                                            repeat( sequence( COMMENT ~ repeat(WHITESPACE) ) ) )

`pestSkip` below is that term, written with the Spec's `specRepLoop` for every `repeat` over the
same `call : String → Inp → List Sp → SR` interface as `specSkipUnit` (the stack is immutable, so a
failing `sequence` gives everything back by construction).  It has TWO budgets because the shape
has two nesting levels: `bo` for the outer `repeat`, `bw` for every `repeat(WHITESPACE)`.

`specSkipS` is `specSkip` over the `String` interface (`specSkip_eq_specSkipS`, by `rfl`).

Proof device: `Steps u k i S i' S'` = "`u` succeeds `k` times in a row from `(i,S)`, reaching
`(i',S')`, where it fails" — the budget-free meaning of `u*`.  `starLoop` is `specRepLoop … 0 none`
without the index.
-/
import PestTyped.Model.Spec
namespace PestTyped

/-! ### Definitions -/

/-- `specSkip` (Model/Spec.lean) over the `String` interface of `specSkipUnit`. -/
def specSkipS (call : String → Inp → List Sp → SR) (hasW hasC : Bool) (budget : Nat) (i : Inp) (S : List Sp) : SR :=
  specRepLoop (fun _ i S => specSkipUnit call hasW hasC i S) 0 none budget 0 i S

theorem specSkip_eq_specSkipS (call : PExpr → Inp → List Sp → SR) (hasW hasC : Bool) (budget : Nat) (i : Inp)
    (S : List Sp) :
    specSkip call hasW hasC budget i S = specSkipS (fun nm i S => call (.ident nm) i S) hasW hasC budget i S := rfl

/-- `state.repeat(|s| WHITESPACE(s))`. -/
def pestWStar (call : String → Inp → List Sp → SR) (bw : Nat) (i : Inp) (S : List Sp) : SR :=
  specRepLoop (fun _ i S => call "WHITESPACE" i S) 0 none bw 0 i S

/-- `state.sequence(|s| COMMENT(s).and_then(|s| s.repeat(|s| WHITESPACE(s))))`. -/
def pestCW (call : String → Inp → List Sp → SR) (bw : Nat) (i : Inp) (S : List Sp) : SR :=
  match call "COMMENT" i S with
  | .oof => .oof
  | .fail => .fail
  | .ok i1 S1 => pestWStar call bw i1 S1

/-- pest's generated `skip` (atomicity NonAtomic), literally. -/
def pestSkip (call : String → Inp → List Sp → SR) (hasW hasC : Bool) (bo bw : Nat) (i : Inp) (S : List Sp) : SR :=
  match hasW, hasC with
  | false, false => .ok i S
  | true, false => specRepLoop (fun _ i S => call "WHITESPACE" i S) 0 none bo 0 i S
  | false, true => specRepLoop (fun _ i S => call "COMMENT" i S) 0 none bo 0 i S
  | true, true =>
    match pestWStar call bw i S with
    | .oof => .oof
    | .fail => .fail
    | .ok i1 S1 => specRepLoop (fun _ i S => pestCW call bw i S) 0 none bo 0 i1 S1

/-! ### `u*` without index, and its budget-free meaning -/

def starLoop (u : Inp → List Sp → SR) : Nat → Inp → List Sp → SR
  | 0, _, _ => .oof
  | b+1, i, S =>
    match u i S with
    | .oof => .oof
    | .fail => .ok i S
    | .ok i' S' => starLoop u b i' S'

theorem specRepLoop_star (u : Inp → List Sp → SR) (b idx : Nat) (i : Inp) (S : List Sp) :
    specRepLoop (fun _ i S => u i S) 0 none b idx i S = starLoop u b i S := by
  induction b generalizing idx i S with
  | zero => rfl
  | succ b ih =>
    simp only [specRepLoop, starLoop, Nat.not_lt_zero, if_false, reduceCtorEq]
    cases u i S with
    | oof => rfl
    | fail => rfl
    | ok i' S' => exact ih (idx+1) i' S'

inductive Steps (u : Inp → List Sp → SR) : Nat → Inp → List Sp → Inp → List Sp → Prop
  | done {i S} : u i S = .fail → Steps u 0 i S i S
  | step {k i S i1 S1 i2 S2} : u i S = .ok i1 S1 → Steps u k i1 S1 i2 S2 → Steps u (k+1) i S i2 S2

theorem Steps.cast {u k k' i S i' S'} (h : Steps u k i S i' S') (e : k = k') : Steps u k' i S i' S' := e ▸ h

theorem Steps.end_fail {u k i S i' S'} (h : Steps u k i S i' S') : u i' S' = .fail := by
  induction h with
  | done h => exact h
  | step _ _ ih => exact ih

theorem Steps.det {u k i S i1 S1} (h : Steps u k i S i1 S1) :
    ∀ {k' i2 S2}, Steps u k' i S i2 S2 → k = k' ∧ i1 = i2 ∧ S1 = S2 := by
  induction h with
  | done h =>
    intro k' i2 S2 h'
    cases h' with
    | done _ => exact ⟨rfl, rfl, rfl⟩
    | step h1 _ => rw [h] at h1; cases h1
  | step h1 _ ih =>
    intro k' i2 S2 h'
    cases h' with
    | done h => rw [h] at h1; cases h1
    | step h1' h2' =>
      rw [h1] at h1'; injection h1' with e1 e2; subst e1; subst e2
      obtain ⟨a, b, c⟩ := ih h2'
      exact ⟨by rw [a], b, c⟩

/-- A run of `k` successes needs budget `k+1` (the last iteration is the failing one). -/
theorem starLoop_of_steps {u k i S i' S'} (h : Steps u k i S i' S') :
    ∀ b, k < b → starLoop u b i S = .ok i' S' := by
  induction h with
  | done h =>
    intro b hb
    obtain ⟨b, rfl⟩ : ∃ c, b = c+1 := ⟨b-1, by omega⟩
    simp only [starLoop, h]
  | step h1 _ ih =>
    intro b hb
    obtain ⟨b, rfl⟩ : ∃ c, b = c+1 := ⟨b-1, by omega⟩
    simp only [starLoop, h1]
    exact ih b (by omega)

theorem starLoop_ne_fail (u : Inp → List Sp → SR) (b : Nat) (i : Inp) (S : List Sp) :
    starLoop u b i S ≠ .fail := by
  induction b generalizing i S with
  | zero => simp [starLoop]
  | succ b ih =>
    simp only [starLoop]
    cases u i S with
    | oof => simp
    | fail => simp
    | ok i' S' => exact ih i' S'

theorem steps_of_starLoop {u : Inp → List Sp → SR} {b i S i' S'} (h : starLoop u b i S = .ok i' S') :
    ∃ k, k < b ∧ Steps u k i S i' S' := by
  induction b generalizing i S with
  | zero => simp [starLoop] at h
  | succ b ih =>
    simp only [starLoop] at h
    cases hu : u i S with
    | oof => rw [hu] at h; cases h
    | fail =>
      rw [hu] at h; injection h with e1 e2; subst e1; subst e2
      exact ⟨0, by omega, .done hu⟩
    | ok i1 S1 =>
      rw [hu] at h
      obtain ⟨k, hk, hs⟩ := ih h
      exact ⟨k+1, by omega, .step hu hs⟩

/-- A definite `u*` is `.ok`, and the answer is the end of the `Steps` trace. -/
theorem starLoop_definite {u : Inp → List Sp → SR} {b i S} (h : starLoop u b i S ≠ .oof) :
    ∃ k i' S', k < b ∧ Steps u k i S i' S' ∧ starLoop u b i S = .ok i' S' := by
  cases hs : starLoop u b i S with
  | oof => exact absurd hs h
  | fail => exact absurd hs (starLoop_ne_fail u b i S)
  | ok i' S' =>
    obtain ⟨k, hk, hst⟩ := steps_of_starLoop hs
    exact ⟨k, i', S', hk, hst, rfl⟩

/-! ### The single loop's unit `W / C` and pest's `C ~ W*` -/

/-- `specSkipUnit call true true` by cases on `call "WHITESPACE"`. -/
theorem skipUnit_w_ok {call : String → Inp → List Sp → SR} {i S i1 S1} (h : call "WHITESPACE" i S = .ok i1 S1) :
    specSkipUnit call true true i S = .ok i1 S1 := by
  simp only [specSkipUnit, if_true, h]

theorem skipUnit_w_fail {call : String → Inp → List Sp → SR} {i S} (h : call "WHITESPACE" i S = .fail) :
    specSkipUnit call true true i S = call "COMMENT" i S := by
  simp only [specSkipUnit, if_true, h]

theorem skipUnit_w_oof {call : String → Inp → List Sp → SR} {i S} (h : call "WHITESPACE" i S = .oof) :
    specSkipUnit call true true i S = .oof := by
  simp only [specSkipUnit, if_true, h]

/-- Trace of the nested shape: `ko` successful `C ~ W*` iterations. `w` counts the WHITESPACE
matches, `m` bounds the length of each WHITESPACE run. -/
inductive CWSteps (call : String → Inp → List Sp → SR) (m : Nat) : Nat → Nat → Inp → List Sp → Inp → List Sp → Prop
  | done {i S} : call "COMMENT" i S = .fail → CWSteps call m 0 0 i S i S
  | step {ko w k i S ia Sa i1 S1 i2 S2} : call "COMMENT" i S = .ok ia Sa →
      Steps (call "WHITESPACE") k ia Sa i1 S1 → k ≤ m →
      CWSteps call m ko w i1 S1 i2 S2 → CWSteps call m (ko+1) (w+k) i S i2 S2

theorem CWSteps.mono {call : String → Inp → List Sp → SR} {m m' ko w i S i2 S2}
    (h : CWSteps call m ko w i S i2 S2) (hm : m ≤ m') : CWSteps call m' ko w i S i2 S2 := by
  induction h with
  | done hc => exact .done hc
  | step hc hw hk _ ih => exact .step hc hw (by omega) ih

/-- Full trace of the nested shape: a WHITESPACE run then `CWSteps`. -/
def PestTrace (call : String → Inp → List Sp → SR) (m nC nW : Nat) (i : Inp) (S : List Sp) (i' : Inp) (S' : List Sp) : Prop :=
  ∃ k0 w i1 S1, Steps (call "WHITESPACE") k0 i S i1 S1 ∧ k0 ≤ m ∧ CWSteps call m nC w i1 S1 i' S' ∧ nW = k0 + w

/-- A WHITESPACE run is a run of the single loop's unit. -/
theorem unitSteps_of_wSteps {call : String → Inp → List Sp → SR} {k i S i1 S1 n i2 S2}
    (hw : Steps (call "WHITESPACE") k i S i1 S1)
    (hu : Steps (specSkipUnit call true true) n i1 S1 i2 S2) :
    Steps (specSkipUnit call true true) (k+n) i S i2 S2 := by
  induction hw with
  | done _ => simpa using hu
  | @step k _ _ _ _ _ _ h1 _ ih =>
    exact (Steps.step (skipUnit_w_ok h1) (ih hu)).cast (by omega)

/-- nested trace ⇒ single-loop trace, with `#iterations = #W + #C` (from a point where WHITESPACE fails). -/
theorem unitSteps_of_cwSteps {call : String → Inp → List Sp → SR} {m ko w i S i2 S2}
    (h : CWSteps call m ko w i S i2 S2) (hwf : call "WHITESPACE" i S = .fail) :
    Steps (specSkipUnit call true true) (w + ko) i S i2 S2 := by
  induction h with
  | done hc => exact .done (by rw [skipUnit_w_fail hwf, hc])
  | step hc hw _ _ ih =>
    have h1 := unitSteps_of_wSteps hw (ih hw.end_fail)
    exact (Steps.step (by rw [skipUnit_w_fail hwf, hc]) h1).cast (by omega)

theorem unitSteps_of_pestTrace {call : String → Inp → List Sp → SR} {m nC nW i S i' S'}
    (h : PestTrace call m nC nW i S i' S') :
    Steps (specSkipUnit call true true) (nW + nC) i S i' S' := by
  obtain ⟨k0, w, i1, S1, hw, _, hcw, rfl⟩ := h
  exact (unitSteps_of_wSteps hw (unitSteps_of_cwSteps hcw hw.end_fail)).cast (by omega)

/-- Split a single-loop trace at the end of its leading WHITESPACE run. -/
theorem unitSteps_split_w {call : String → Inp → List Sp → SR} {n i S i2 S2}
    (h : Steps (specSkipUnit call true true) n i S i2 S2) :
    ∃ k i1 S1, k ≤ n ∧ Steps (call "WHITESPACE") k i S i1 S1 ∧
      Steps (specSkipUnit call true true) (n-k) i1 S1 i2 S2 := by
  induction h with
  | @done i S hu =>
    cases hw : call "WHITESPACE" i S with
    | oof => rw [skipUnit_w_oof hw] at hu; cases hu
    | ok a b => rw [skipUnit_w_ok hw] at hu; cases hu
    | fail => exact ⟨0, i, S, Nat.le_refl _, .done hw, .done hu⟩
  | @step n i S ia Sa i2 S2 hu hrest ih =>
    cases hw : call "WHITESPACE" i S with
    | oof => rw [skipUnit_w_oof hw] at hu; cases hu
    | fail => exact ⟨0, i, S, Nat.zero_le _, .done hw, .step hu hrest⟩
    | ok a b =>
      rw [skipUnit_w_ok hw] at hu; injection hu with e1 e2; subst e1; subst e2
      obtain ⟨k, i1, S1, hk, hws, hr⟩ := ih
      refine ⟨k+1, i1, S1, by omega, .step hw hws, ?_⟩
      rw [show n + 1 - (k + 1) = n - k by omega]; exact hr

/-- single-loop trace ⇒ nested trace (from a point where WHITESPACE fails). -/
theorem cwSteps_of_unitSteps {call : String → Inp → List Sp → SR} :
    ∀ (n : Nat) {i S i2 S2}, Steps (specSkipUnit call true true) n i S i2 S2 → call "WHITESPACE" i S = .fail →
      ∃ ko w, w + ko = n ∧ CWSteps call n ko w i S i2 S2 := by
  intro n
  induction n using Nat.strongRecOn with
  | _ n ih =>
    intro i S i2 S2 h hwf
    cases h with
    | done hu =>
      rw [skipUnit_w_fail hwf] at hu
      exact ⟨0, 0, rfl, .done hu⟩
    | @step n' _ _ ia Sa _ _ hu hrest =>
      rw [skipUnit_w_fail hwf] at hu
      obtain ⟨k, i1, S1, hk, hws, hr⟩ := unitSteps_split_w hrest
      obtain ⟨ko, w, hsum, hcw⟩ := ih (n'-k) (by omega) hr hws.end_fail
      refine ⟨ko+1, w+k, by omega, .step hu hws (by omega) ?_⟩
      exact hcw.mono (by omega)

theorem pestTrace_of_unitSteps {call : String → Inp → List Sp → SR} {n i S i' S'}
    (h : Steps (specSkipUnit call true true) n i S i' S') :
    ∃ nC nW, nW + nC = n ∧ PestTrace call n nC nW i S i' S' := by
  obtain ⟨k, i1, S1, hk, hws, hr⟩ := unitSteps_split_w h
  obtain ⟨ko, w, hsum, hcw⟩ := cwSteps_of_unitSteps (n-k) hr hws.end_fail
  refine ⟨ko, k + w, by omega, k, w, i1, S1, hws, hk, ?_, rfl⟩
  exact hcw.mono (by omega)

/-! ### The nested loops compute their trace -/

theorem pestWStar_eq (call : String → Inp → List Sp → SR) (bw : Nat) (i : Inp) (S : List Sp) :
    pestWStar call bw i S = starLoop (call "WHITESPACE") bw i S := by
  unfold pestWStar; exact specRepLoop_star (call "WHITESPACE") bw 0 i S

/-- With `bw` above every WHITESPACE run, `ko` iterations of `C ~ W*` are `ko` steps of `pestCW`. -/
theorem cwLoopSteps_of_cwSteps {call : String → Inp → List Sp → SR} {m ko w i S i2 S2}
    (h : CWSteps call m ko w i S i2 S2) {bw : Nat} (hbw : m < bw) :
    Steps (pestCW call bw) ko i S i2 S2 := by
  induction h with
  | done hc => exact .done (by simp only [pestCW, hc])
  | step hc hw hk _ ih =>
    refine .step ?_ ih
    simp only [pestCW, hc, pestWStar_eq]
    exact starLoop_of_steps hw bw (by omega)

/-- Conversely a `pestCW` trace is a nested trace whose WHITESPACE runs are shorter than `bw`. -/
theorem cwSteps_of_cwLoopSteps {call : String → Inp → List Sp → SR} {bw ko i S i2 S2}
    (h : Steps (pestCW call bw) ko i S i2 S2) :
    ∃ w, w ≤ ko * (bw - 1) ∧ CWSteps call (bw-1) ko w i S i2 S2 := by
  induction h with
  | @done i S hu =>
    refine ⟨0, Nat.zero_le _, .done ?_⟩
    simp only [pestCW] at hu
    cases hc : call "COMMENT" i S with
    | oof => rw [hc] at hu; cases hu
    | fail => rfl
    | ok a b =>
      rw [hc] at hu; simp only [pestWStar_eq] at hu
      exact absurd hu (starLoop_ne_fail _ _ _ _)
  | @step ko i S i1 S1 i2 S2 hu _ ih =>
    obtain ⟨w, hwle, hcw⟩ := ih
    simp only [pestCW] at hu
    cases hc : call "COMMENT" i S with
    | oof => rw [hc] at hu; cases hu
    | fail => rw [hc] at hu; cases hu
    | ok ia Sa =>
      rw [hc] at hu; simp only [pestWStar_eq] at hu
      obtain ⟨k, hk, hws⟩ := steps_of_starLoop hu
      refine ⟨w + k, ?_, .step hc hws (by omega) hcw⟩
      rw [Nat.succ_mul]; omega

/-! ### Both shapes as functions of their traces -/

theorem starLoop_agree {u : Inp → List Sp → SR} {b b' i S} (h : starLoop u b i S ≠ .oof)
    (h' : starLoop u b' i S ≠ .oof) : starLoop u b i S = starLoop u b' i S := by
  obtain ⟨k, i1, S1, _, hs, he⟩ := starLoop_definite h
  obtain ⟨k', i2, S2, _, hs', he'⟩ := starLoop_definite h'
  obtain ⟨_, e1, e2⟩ := hs.det hs'
  rw [he, he', e1, e2]

theorem specSkipS_tt (call : String → Inp → List Sp → SR) (b : Nat) (i : Inp) (S : List Sp) :
    specSkipS call true true b i S = starLoop (specSkipUnit call true true) b i S :=
  specRepLoop_star _ b 0 i S

theorem specSkipS_tf (call : String → Inp → List Sp → SR) (b : Nat) (i : Inp) (S : List Sp) :
    specSkipS call true false b i S = starLoop (call "WHITESPACE") b i S := by
  have : (fun (_ : Nat) i S => specSkipUnit call true false i S) = (fun _ i S => call "WHITESPACE" i S) := by
    funext _ i S; simp only [specSkipUnit, if_true]
    cases call "WHITESPACE" i S <;> simp
  unfold specSkipS; rw [this]; exact specRepLoop_star _ b 0 i S

theorem specSkipS_ft (call : String → Inp → List Sp → SR) (b : Nat) (i : Inp) (S : List Sp) :
    specSkipS call false true b i S = starLoop (call "COMMENT") b i S := by
  have : (fun (_ : Nat) i S => specSkipUnit call false true i S) = (fun _ i S => call "COMMENT" i S) := by
    funext _ i S; simp [specSkipUnit]
  unfold specSkipS; rw [this]; exact specRepLoop_star _ b 0 i S

theorem specSkipS_ff (call : String → Inp → List Sp → SR) (b : Nat) (i : Inp) (S : List Sp) :
    specSkipS call false false (b+1) i S = .ok i S := by
  simp [specSkipS, specRepLoop, specSkipUnit]

theorem pestSkip_tt (call : String → Inp → List Sp → SR) (bo bw : Nat) (i : Inp) (S : List Sp) :
    pestSkip call true true bo bw i S =
      match starLoop (call "WHITESPACE") bw i S with
      | .oof => .oof
      | .fail => .fail
      | .ok i1 S1 => starLoop (pestCW call bw) bo i1 S1 := by
  simp only [pestSkip, pestWStar_eq]
  cases starLoop (call "WHITESPACE") bw i S with
  | oof => rfl
  | fail => rfl
  | ok i1 S1 => exact specRepLoop_star _ bo 0 i1 S1

theorem pestSkip_tf (call : String → Inp → List Sp → SR) (bo bw : Nat) (i : Inp) (S : List Sp) :
    pestSkip call true false bo bw i S = starLoop (call "WHITESPACE") bo i S :=
  specRepLoop_star _ bo 0 i S

theorem pestSkip_ft (call : String → Inp → List Sp → SR) (bo bw : Nat) (i : Inp) (S : List Sp) :
    pestSkip call false true bo bw i S = starLoop (call "COMMENT") bo i S :=
  specRepLoop_star _ bo 0 i S

/-- The nested shape computes its trace once `bo > #C` and `bw >` every WHITESPACE run. -/
theorem pestSkip_of_trace {call : String → Inp → List Sp → SR} {m nC nW i S i' S'}
    (h : PestTrace call m nC nW i S i' S') {bo bw : Nat} (hbo : nC < bo) (hbw : m < bw) :
    pestSkip call true true bo bw i S = .ok i' S' := by
  obtain ⟨k0, w, i1, S1, hw, hk0, hcw, _⟩ := h
  rw [pestSkip_tt, starLoop_of_steps hw bw (by omega)]
  exact starLoop_of_steps (cwLoopSteps_of_cwSteps hcw hbw) bo hbo

/-- A definite nested skip is `.ok` at the end of a trace with `#C < bo`, WHITESPACE runs `< bw`. -/
theorem trace_of_pestSkip {call : String → Inp → List Sp → SR} {bo bw i S}
    (h : pestSkip call true true bo bw i S ≠ .oof) :
    ∃ nC nW i' S', PestTrace call (bw-1) nC nW i S i' S' ∧ nC < bo ∧ 0 < bw ∧ nW ≤ (nC+1) * (bw-1) ∧
      pestSkip call true true bo bw i S = .ok i' S' := by
  rw [pestSkip_tt] at h ⊢
  cases hs : starLoop (call "WHITESPACE") bw i S with
  | oof => rw [hs] at h; exact absurd rfl h
  | fail => exact absurd hs (starLoop_ne_fail _ _ _ _)
  | ok i1 S1 =>
    rw [hs] at h
    obtain ⟨k0, hk0, hw⟩ := steps_of_starLoop hs
    obtain ⟨ko, i', S', hko, hsteps, he⟩ := starLoop_definite h
    obtain ⟨w, hwle, hcw⟩ := cwSteps_of_cwLoopSteps hsteps
    refine ⟨ko, k0 + w, i', S', ⟨k0, w, i1, S1, hw, by omega, hcw, rfl⟩, hko, by omega, ?_, he⟩
    rw [Nat.succ_mul]; omega

end PestTyped
