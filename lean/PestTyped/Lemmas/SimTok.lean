/-
Lemmas.SimTok — the simulation of the typed parser of `gen pg` against pest's token semantics
`specTok` WITH the token component, for ALL expressions (lookahead, implicit skipping with defined
WHITESPACE / COMMENT, every built-in, all repetition forms, stack operations), all rule kinds in any
nesting, all fuels on both sides.  It extends `frag_sim` of `Lemmas/SpecTokensLemmas.lean` (the
lookahead-free, skip-free fragment) and is what `Props/C02.lean` needs for `C02_tree`.

Style: the compatibility relation `SimG` of `Lemmas/SpecTokensLemmas.lean` ("whenever neither side is
out of fuel, both fail, or both succeed at the same cursor with the same stack and — outside an
`Atomic` context — the typed tokens are pest's tokens pruned"), proved for every typed fuel `n` and
every Spec fuel `N` (`tokSim_all`).  Existence of answers is C01's business (`Lemmas/Sim*.lean`); this
file does not import that development (this development's loop lemmas live in `PestTyped.Tok`), so the analysis of the built-in
aliases is redone here in compatibility style (`builtin_simT`).

Hypothesis `SkipRulesAtomicLike pg` (finding F-WS): the rule a skip name WHITESPACE / COMMENT
resolves to is `@` / `$`, or its body is "simple" (`SimpleSkipBody`: no sequence, no repetition, no
reference to a rule of the grammar and no `EOI`).  pest forces `Atomic` inside rules with these names;
pest-typed gives them their declared kind: the two differ at skip sites (sequences / repetitions) and
in the tokens of rules called from there.  A simple body has neither, whatever the declared kind
(`WHITESPACE = { " " }`, `WHITESPACE = _{ " " | "\t" | NEWLINE }`, `COMMENT = !{ "#" }` are all fine).
-/
import PestTyped.Lemmas.SpecTokensLemmas
import PestTyped.Lemmas.SkipLike
set_option linter.unusedSimpArgs false
set_option linter.unusedVariables false
namespace PestTyped

/-! ### the hypothesis: `SimpleSkipBody`, `SkipRulesAtomicLike` are defined in `Lemmas/SkipLike.lean`
(shared with C01's development `Lemmas/Sim*.lean`) -/

/-- C01's hypothesis (every rule named WHITESPACE / COMMENT is `@` or `$`) implies this one. -/
theorem SkipRulesAtomicLike.of_atomic (g : PGrammar)
    (h : ∀ r ∈ g, (r.name = "WHITESPACE" ∨ r.name = "COMMENT") → (r.kind = .atomic ∨ r.kind = .compoundAtomic)) :
    SkipRulesAtomicLike g := by
  intro nm r hnm hf
  left
  unfold PGrammar.find? at hf
  cases hk : g.indexOf nm with
  | none => rw [hk] at hf; cases hf
  | some k =>
    rw [hk] at hf
    simp only [] at hf
    obtain ⟨pr, hpr, hn⟩ := indexOf_some g nm k hk
    rw [hpr] at hf
    injection hf with hf
    subst hf
    exact h pr (List.mem_of_getElem? hpr) (by rw [hn]; exact hnm)

/-- A grammar that defines neither WHITESPACE nor COMMENT satisfies the hypothesis. -/
theorem SkipRulesAtomicLike.of_undefined (g : PGrammar) (hW : g.defines "WHITESPACE" = false)
    (hC : g.defines "COMMENT" = false) : SkipRulesAtomicLike g := by
  intro nm r hnm hf
  have : g.find? nm = none := by
    rcases hnm with rfl | rfl
    · simp [PGrammar.find?, indexOf_none_of_not_defines g _ hW]
    · simp [PGrammar.find?, indexOf_none_of_not_defines g _ hC]
  rw [this] at hf
  cases hf

namespace Tok

/-! ### type expressions whose values carry no token -/

mutual
/-- No sequence, repetition, rule reference (nor array / pair / skip type): what `genExpr` makes of a
simple body. -/
def simple : Node → Prop
  | .choice alts => simpleList alts
  | .opt n => simple n
  | .pos n => simple n
  | .neg n => simple n
  | .push n => simple n
  | .seq _ _ => False
  | .rep _ _ _ _ => False
  | .atomicRepeat _ => False
  | .ref _ _ => False
  | .array _ _ => False
  | .pair _ _ => False
  | _ => True
def simpleList : List Node → Prop
  | [] => True
  | n :: ns => simple n ∧ simpleList ns
end

theorem simpleList_mem : ∀ {ns : List Node}, simpleList ns → ∀ n ∈ ns, simple n
  | [], _, n, hn => by cases hn
  | a :: as, h, n, hn => by
    simp only [simpleList] at h
    rcases List.mem_cons.mp hn with rfl | hn
    · exact h.1
    · exact simpleList_mem h.2 n hn

theorem choiceLoop_tokfree (G : NodeGrammar) (f : Node → Inp → M → R Val) :
    ∀ (alts : List Node), (∀ x ∈ alts, ∀ i m i' m' v, f x i m = .ok i' m' v → tokens G v = []) →
      ∀ k i m i' m' kv, choiceLoop f alts k i m = .ok i' m' kv → tokens G kv.2 = [] := by
  intro alts
  induction alts with
  | nil => intro _ k i m i' m' kv h; simp [choiceLoop] at h
  | cons a as ih =>
    intro hf k i m i' m' kv h
    simp only [choiceLoop] at h
    cases hp : f a i m with
    | oof => rw [hp] at h; simp [restoreOnNone] at h
    | fail mf =>
      rw [hp] at h
      simp only [restoreOnNone] at h
      exact ih (fun x hx => hf x (by simp [hx])) _ _ _ _ _ _ h
    | ok i1 m1 v =>
      rw [hp] at h
      simp only [restoreOnNone] at h
      injection h with h1 h2 h3
      subst h3
      exact hf a (by simp) _ _ _ _ _ hp

/-- The values of a simple type expression carry no token. -/
theorem parse_simple_tokens (G : NodeGrammar) (uni : Uni) :
    ∀ (n : Nat) (inh : Bool) (nd : Node), simple nd → ∀ i m i' m' v,
      parse G uni n inh nd i m = .ok i' m' v → tokens G v = [] := by
  intro n
  induction n with
  | zero => intro inh nd _ i m i' m' v h; cases h
  | succ n ih =>
    intro inh nd hs i m i' m' v h
    cases nd with
    | choice alts =>
      simp only [simple] at hs
      simp only [parse] at h
      split at h
      · cases h
      · cases h
      · next i1 m1 k1 v1 hc =>
        injection h with h1 h2 h3
        subst h3
        have := choiceLoop_tokfree G (parse G uni n inh) alts
          (fun x hx i m i' m' v hv => ih inh x (simpleList_mem hs x hx) i m i' m' v hv) _ _ _ _ _ _ hc
        simp only [] at this
        simp [tokens, tokensList, this]
    | opt x =>
      simp only [simple] at hs
      simp only [parse] at h
      cases hp : parse G uni n inh x i m with
      | oof => rw [hp] at h; simp [restoreOnNone] at h
      | fail mf =>
        rw [hp] at h
        simp only [restoreOnNone] at h
        injection h with h1 h2 h3
        subst h3
        simp [tokens, tokensList, Val.leaf]
      | ok i1 m1 v1 =>
        rw [hp] at h
        simp only [restoreOnNone] at h
        injection h with h1 h2 h3
        subst h3
        simp [tokens, tokensList, ih inh x hs _ _ _ _ _ hp]
    | pos x =>
      simp only [parse] at h
      split at h
      · cases h
      · cases h
      · injection h with h1 h2 h3
        subst h3
        simp [tokens]
    | neg x =>
      simp only [parse] at h
      split at h
      · cases h
      · injection h with h1 h2 h3
        subst h3
        simp [tokens, Val.leaf]
      · cases h
    | push x =>
      simp only [simple] at hs
      simp only [parse] at h
      split at h
      · cases h
      · cases h
      · next i1 m1 v1 hp =>
        injection h with h1 h2 h3
        subst h3
        simp [tokens, tokensList, ih inh x hs _ _ _ _ _ hp]
    | seq sk items => exact absurd hs (by simp [simple])
    | rep sk mn mx x => exact absurd hs (by simp [simple])
    | atomicRepeat x => exact absurd hs (by simp [simple])
    | ref r f => exact absurd hs (by simp [simple])
    | array k x => exact absurd hs (by simp [simple])
    | pair a b => exact absurd hs (by simp [simple])
    | soi =>
      simp only [parse] at h
      split at h
      · injection h with h1 h2 h3; subst h3; simp [tokens, tokensList, Val.leaf]
      · cases h
    | eoi =>
      simp only [parse] at h
      split at h
      · injection h with h1 h2 h3; subst h3; simp [tokens, tokensList, Val.leaf]
      · cases h
    | skipUntil needles =>
      simp only [parse] at h
      injection h with h1 h2 h3; subst h3; simp [tokens, tokensList, Val.leaf]
    | empty =>
      simp only [parse] at h
      injection h with h1 h2 h3; subst h3; simp [tokens, tokensList, Val.leaf]
    | alwaysFail => simp only [parse] at h; cases h
    | peekSlice a b =>
      simp only [parse] at h
      split at h
      · cases h
      · split at h
        · injection h with h1 h2 h3; subst h3; simp [tokens, tokensList, Val.leaf]
        · split at h
          · injection h with h1 h2 h3; subst h3; simp [tokens, tokensList, Val.leaf]
          · cases h
    | peek =>
      simp only [parse] at h
      split at h
      · cases h
      · split at h
        · injection h with h1 h2 h3; subst h3; simp [tokens, tokensList, Val.leaf]
        · cases h
    | pop =>
      simp only [parse] at h
      split at h
      · cases h
      · split at h
        · injection h with h1 h2 h3; subst h3; simp [tokens, tokensList, Val.leaf]
        · cases h
    | drop =>
      simp only [parse] at h
      split at h
      · cases h
      · injection h with h1 h2 h3; subst h3; simp [tokens, tokensList, Val.leaf]
    | _ =>
      -- one-`match` leaves
      simp only [parse] at h
      split at h
      · injection h with h1 h2 h3; subst h3; simp [tokens, tokensList, Val.leaf]
      · cases h

/-! ### simple bodies: translation, tokens on both sides -/

theorem builtinNode_simple (name : String) (h : name ≠ "EOI") : simple (builtinNode name) := by
  unfold builtinNode
  simp [apply_ite simple, simple, simpleList, asciiDigit, asciiAlpha, asciiAlphaLower, asciiAlphaUpper, h]

theorem genChoiceSpine_single (pg : PGrammar) (sk : Flag) (e : PExpr) (h : ∀ a b, e ≠ .choice a b) :
    genChoiceSpine pg sk e = [genExpr pg sk e] := by
  cases e <;> first
    | exact absurd rfl (h _ _)
    | simp only [genChoiceSpine]

/-- The translation of a simple body is a simple type expression and does not depend on the `#skip`
token. -/
theorem genExpr_simple (pg : PGrammar) (sk sk' : Flag) : ∀ e : PExpr, SimpleSkipBody pg e →
    simple (genExpr pg sk e) ∧ simpleList (genChoiceSpine pg sk e) ∧
    genExpr pg sk e = genExpr pg sk' e ∧ genChoiceSpine pg sk e = genChoiceSpine pg sk' e := by
  intro e
  induction e with
  | ident name =>
    intro h
    obtain ⟨hd, hne⟩ := h
    have hidx := indexOf_none_of_not_defines pg name hd
    have hb := builtinNode_simple name hne
    refine ⟨?_, ?_, ?_, ?_⟩
    · simp only [genExpr, hidx]; exact hb
    · simp only [genChoiceSpine, genExpr, hidx, simpleList]; exact ⟨hb, trivial⟩
    · simp only [genExpr, hidx]
    · simp only [genChoiceSpine, genExpr, hidx]
  | choice a b iha ihb =>
    intro h
    obtain ⟨ha, hb⟩ := h
    obtain ⟨a1, _, a3, _⟩ := iha ha
    obtain ⟨_, b2, _, b4⟩ := ihb hb
    refine ⟨?_, ?_, ?_, ?_⟩
    · simp only [genExpr, simple, simpleList]; exact ⟨a1, b2⟩
    · simp only [genChoiceSpine, simpleList]; exact ⟨a1, b2⟩
    · simp only [genExpr, a3, b4]
    · simp only [genChoiceSpine, a3, b4]
  | posPred x ih =>
    intro h
    obtain ⟨x1, _, x3, _⟩ := ih h
    refine ⟨?_, ?_, ?_, ?_⟩
    · simp only [genExpr, simple]; exact x1
    · simp only [genChoiceSpine, genExpr, simple, simpleList]; exact ⟨x1, trivial⟩
    · simp only [genExpr, x3]
    · simp only [genChoiceSpine, genExpr, x3]
  | negPred x ih =>
    intro h
    obtain ⟨x1, _, x3, _⟩ := ih h
    refine ⟨?_, ?_, ?_, ?_⟩
    · simp only [genExpr, simple]; exact x1
    · simp only [genChoiceSpine, genExpr, simple, simpleList]; exact ⟨x1, trivial⟩
    · simp only [genExpr, x3]
    · simp only [genChoiceSpine, genExpr, x3]
  | opt x ih =>
    intro h
    obtain ⟨x1, _, x3, _⟩ := ih h
    refine ⟨?_, ?_, ?_, ?_⟩
    · simp only [genExpr, simple]; exact x1
    · simp only [genChoiceSpine, genExpr, simple, simpleList]; exact ⟨x1, trivial⟩
    · simp only [genExpr, x3]
    · simp only [genChoiceSpine, genExpr, x3]
  | push x ih =>
    intro h
    obtain ⟨x1, _, x3, _⟩ := ih h
    refine ⟨?_, ?_, ?_, ?_⟩
    · simp only [genExpr, simple]; exact x1
    · simp only [genChoiceSpine, genExpr, simple, simpleList]; exact ⟨x1, trivial⟩
    · simp only [genExpr, x3]
    · simp only [genChoiceSpine, genExpr, x3]
  | restoreOnErr x ih =>
    intro h
    obtain ⟨x1, _, x3, _⟩ := ih h
    refine ⟨?_, ?_, ?_, ?_⟩
    · simp only [genExpr]; exact x1
    · simp only [genChoiceSpine, genExpr, simpleList]; exact ⟨x1, trivial⟩
    · simp only [genExpr, x3]
    · simp only [genChoiceSpine, genExpr, x3]
  | str s => intro _; simp [genExpr, genChoiceSpine, simple, simpleList]
  | insens s => intro _; simp [genExpr, genChoiceSpine, simple, simpleList]
  | range lo hi => intro _; simp [genExpr, genChoiceSpine, simple, simpleList]
  | peekSlice a b => intro _; simp [genExpr, genChoiceSpine, simple, simpleList]
  | skip nd => intro _; simp [genExpr, genChoiceSpine, simple, simpleList]
  | seq a b _ _ => intro h; exact absurd h (by simp [SimpleSkipBody])
  | rep x _ => intro h; exact absurd h (by simp [SimpleSkipBody])
  | repOnce x _ => intro h; exact absurd h (by simp [SimpleSkipBody])
  | repExact x k _ => intro h; exact absurd h (by simp [SimpleSkipBody])
  | repMin x k _ => intro h; exact absurd h (by simp [SimpleSkipBody])
  | repMax x k _ => intro h; exact absurd h (by simp [SimpleSkipBody])
  | repMinMax x k l _ => intro h; exact absurd h (by simp [SimpleSkipBody])

theorem find?_none_of_not_defines (pg : PGrammar) (name : String) (h : pg.defines name = false) :
    pg.find? name = none := by
  simp [PGrammar.find?, indexOf_none_of_not_defines pg name h]

/-- pest emits no token inside a simple body, whatever the atomicity. -/
theorem specTok_simple_tokens (pg : PGrammar) (uni : Uni) : ∀ e : PExpr, SimpleSkipBody pg e →
    ∀ (N : Nat) (am : Atom3) (i : Inp) (S : List Sp) (i' : Inp) (S' : List Sp) (ts : List Token),
      specTok pg uni N am e i S = .ok i' S' ts → ts = [] := by
  intro e
  induction e with
  | ident name =>
    intro h N am i S i' S' ts hs
    obtain ⟨hd, hne⟩ := h
    cases N with
    | zero => cases hs
    | succ N =>
      simp only [specTok, find?_none_of_not_defines pg name hd, specTokBuiltin] at hs
      split at hs
      · cases hs
      · cases hs
      · injection hs with h1 h2 h3
        subst h3
        simp [hne]
  | choice a b iha ihb =>
    intro h N am i S i' S' ts hs
    obtain ⟨ha, hb⟩ := h
    cases N with
    | zero => cases hs
    | succ N =>
      simp only [specTok] at hs
      split at hs
      · cases hs
      · next i1 S1 t1 h1 =>
        injection hs with e1 e2 e3
        subst e1 e2 e3
        exact iha ha _ _ _ _ _ _ _ h1
      · exact ihb hb _ _ _ _ _ _ _ hs
  | posPred x ih =>
    intro h N am i S i' S' ts hs
    cases N with
    | zero => cases hs
    | succ N =>
      simp only [specTok] at hs
      split at hs
      · cases hs
      · cases hs
      · injection hs with e1 e2 e3; exact e3.symm
  | negPred x ih =>
    intro h N am i S i' S' ts hs
    cases N with
    | zero => cases hs
    | succ N =>
      simp only [specTok] at hs
      split at hs
      · cases hs
      · injection hs with e1 e2 e3; exact e3.symm
      · cases hs
  | opt x ih =>
    intro h N am i S i' S' ts hs
    cases N with
    | zero => cases hs
    | succ N =>
      simp only [specTok] at hs
      split at hs
      · cases hs
      · next i1 S1 t1 h1 =>
        injection hs with e1 e2 e3
        subst e1 e2 e3
        exact ih h _ _ _ _ _ _ _ h1
      · injection hs with e1 e2 e3; exact e3.symm
  | push x ih =>
    intro h N am i S i' S' ts hs
    cases N with
    | zero => cases hs
    | succ N =>
      simp only [specTok] at hs
      split at hs
      · cases hs
      · cases hs
      · next i1 S1 t1 h1 =>
        injection hs with e1 e2 e3
        subst e3
        exact ih h _ _ _ _ _ _ _ h1
  | restoreOnErr x ih =>
    intro h N am i S i' S' ts hs
    cases N with
    | zero => cases hs
    | succ N =>
      simp only [specTok] at hs
      exact ih h _ _ _ _ _ _ _ hs
  | str s =>
    intro h N am i S i' S' ts hs
    cases N with
    | zero => cases hs
    | succ N =>
      simp only [specTok] at hs
      split at hs
      · injection hs with e1 e2 e3; exact e3.symm
      · cases hs
  | insens s =>
    intro h N am i S i' S' ts hs
    cases N with
    | zero => cases hs
    | succ N =>
      simp only [specTok] at hs
      split at hs
      · injection hs with e1 e2 e3; exact e3.symm
      · cases hs
  | range lo hi =>
    intro h N am i S i' S' ts hs
    cases N with
    | zero => cases hs
    | succ N =>
      simp only [specTok] at hs
      split at hs
      · injection hs with e1 e2 e3; exact e3.symm
      · cases hs
  | peekSlice a b =>
    intro h N am i S i' S' ts hs
    cases N with
    | zero => cases hs
    | succ N =>
      simp only [specTok] at hs
      split at hs
      · cases hs
      · split at hs
        · injection hs with e1 e2 e3; exact e3.symm
        · split at hs
          · injection hs with e1 e2 e3; exact e3.symm
          · cases hs
  | skip nd =>
    intro h N am i S i' S' ts hs
    cases N with
    | zero => cases hs
    | succ N =>
      simp only [specTok] at hs
      injection hs with e1 e2 e3; exact e3.symm
  | seq a b _ _ => intro h; exact absurd h (by simp [SimpleSkipBody])
  | rep x _ => intro h; exact absurd h (by simp [SimpleSkipBody])
  | repOnce x _ => intro h; exact absurd h (by simp [SimpleSkipBody])
  | repExact x k _ => intro h; exact absurd h (by simp [SimpleSkipBody])
  | repMin x k _ => intro h; exact absurd h (by simp [SimpleSkipBody])
  | repMax x k _ => intro h; exact absurd h (by simp [SimpleSkipBody])
  | repMinMax x k l _ => intro h; exact absurd h (by simp [SimpleSkipBody])

/-! ### built-in aliases (compatibility style; C01's `builtin_sim` is the existential version) -/

/-- Verdict / cursor / stack compatibility of a typed result with an outcome of `Model.Spec`. -/
def Compat {α} : R α → SR → Prop
  | .oof, _ => True
  | _, .oof => True
  | .fail _, .fail => True
  | .ok i m _, .ok j S => i = j ∧ m.stk = S
  | _, _ => False

theorem Compat.oof_left {α} (rs : SR) : Compat (.oof : R α) rs := by
  cases rs <;> simp [Compat]

theorem Compat.fail_fail {α} (m : M) : Compat (.fail m : R α) .fail := by simp [Compat]

theorem Compat.ok_ok {α} (i : Inp) (m : M) (a : α) : Compat (.ok i m a : R α) (.ok i m.stk) := by simp [Compat]

/-- The Spec's view of matching one character of class `p`. -/
def classSR (p : Char → Bool) (i : Inp) (S : List Sp) : SR :=
  match i.matchCharBy p with
  | some (i', _) => .ok i' S
  | none => .fail

/-- `nd` matches exactly one character of class `p` and leaves the stack alone. -/
def IsClass (nd : Node) (p : Char → Bool) : Prop :=
  ∀ (G : NodeGrammar) (uni : Uni) (n : Nat) (inh : Bool) (i : Inp) (m : M),
    Compat (parse G uni n inh nd i m) (classSR p i m.stk)

inductive All2 {α β} (R : α → β → Prop) : List α → List β → Prop where
  | nil : All2 R [] []
  | cons {a b as bs} : R a b → All2 R as bs → All2 R (a :: as) (b :: bs)

theorem matchCharBy_or_left {p q : Char → Bool} {i i' : Inp} {c : Char}
    (h : i.matchCharBy p = some (i', c)) : i.matchCharBy (fun c => p c || q c) = some (i', c) := by
  unfold Inp.matchCharBy at h ⊢
  cases hr : i.rest with
  | nil => rw [hr] at h; cases h
  | cons a as =>
    rw [hr] at h
    simp only [] at h ⊢
    by_cases hp : p a = true
    · simp only [hp, if_true] at h
      simp only [hp, Bool.true_or, if_true]
      exact h
    · simp only [hp] at h
      cases h

theorem matchCharBy_or_right {p q : Char → Bool} {i : Inp}
    (h : i.matchCharBy p = none) : i.matchCharBy (fun c => p c || q c) = i.matchCharBy q := by
  unfold Inp.matchCharBy at h ⊢
  cases hr : i.rest with
  | nil => rfl
  | cons a as =>
    rw [hr] at h
    simp only [] at h ⊢
    by_cases hp : p a = true
    · simp only [hp, if_true] at h
      cases h
    · have : p a = false := by simpa using hp
      simp only [this, Bool.false_or]

theorem matchCharBy_false (i : Inp) : i.matchCharBy (fun _ => false) = none := by
  unfold Inp.matchCharBy
  cases i.rest <;> simp

theorem isClass_range (lo hi : Char) : IsClass (.range lo hi) (fun c => lo ≤ c ∧ c ≤ hi) := by
  intro G uni n inh i m
  cases n with
  | zero => exact Compat.oof_left _
  | succ n =>
    simp only [parse, classSR, Inp.matchRange]
    cases i.matchCharBy (fun c => decide (lo ≤ c ∧ c ≤ hi)) with
    | none => exact Compat.fail_fail _
    | some p => exact Compat.ok_ok _ _ _

theorem isClass_any : IsClass .any (fun _ => true) := by
  intro G uni n inh i m
  cases n with
  | zero => exact Compat.oof_left _
  | succ n =>
    simp only [parse, classSR]
    cases i.matchCharBy (fun _ => true) with
    | none => exact Compat.fail_fail _
    | some p => exact Compat.ok_ok _ _ _

theorem choiceLoop_class : ∀ (alts : List Node) (ps : List (Char → Bool)), All2 IsClass alts ps →
    ∀ (G : NodeGrammar) (uni : Uni) (n : Nat) (inh : Bool) (k : Nat) (i : Inp) (m : M),
      Compat (choiceLoop (parse G uni n inh) alts k i m) (classSR (fun c => ps.any (fun p => p c)) i m.stk) := by
  intro alts ps h
  induction h with
  | nil =>
    intro G uni n inh k i m
    simp only [List.any_nil, classSR, matchCharBy_false, choiceLoop]
    exact Compat.fail_fail _
  | @cons a p as ps ha _ ih =>
    intro G uni n inh k i m
    have h1 := ha G uni n inh i m
    simp only [List.any_cons, choiceLoop]
    cases hp : parse G uni n inh a i m with
    | oof => simp only [restoreOnNone]; exact Compat.oof_left _
    | fail m1 =>
      rw [hp] at h1
      cases hm : i.matchCharBy p with
      | some ic => obtain ⟨i', c⟩ := ic; simp [classSR, hm, Compat] at h1
      | none =>
        simp only [restoreOnNone, classSR, matchCharBy_or_right hm]
        exact ih G uni n inh (k+1) i { m1 with stk := m.stk }
    | ok i1 m1 v =>
      rw [hp] at h1
      cases hm : i.matchCharBy p with
      | none => simp [classSR, hm, Compat] at h1
      | some ic =>
        obtain ⟨i', c⟩ := ic
        simp only [classSR, hm, Compat] at h1
        obtain ⟨e1, e2⟩ := h1
        subst e1
        simp only [restoreOnNone, classSR, matchCharBy_or_left hm, Compat]
        exact ⟨trivial, e2⟩

theorem isClass_choice (alts : List Node) (ps : List (Char → Bool)) (h : All2 IsClass alts ps) :
    IsClass (.choice alts) (fun c => ps.any (fun p => p c)) := by
  intro G uni n inh i m
  cases n with
  | zero => exact Compat.oof_left _
  | succ n =>
    have hc := choiceLoop_class alts ps h G uni n inh 0 i m
    simp only [parse]
    revert hc
    generalize choiceLoop (parse G uni n inh) alts 0 i m = rp
    generalize classSR (fun c => ps.any (fun p => p c)) i m.stk = rs
    intro hc
    cases rp with
    | oof => exact Compat.oof_left _
    | fail mf => cases rs <;> simp_all [Compat]
    | ok i' m' kv => obtain ⟨k, v⟩ := kv; cases rs <;> simp_all [Compat]

theorem IsClass.congr {nd : Node} {p q : Char → Bool} (h : IsClass nd p) (hpq : ∀ c, p c = q c) : IsClass nd q := by
  have : p = q := funext hpq
  rw [← this]
  exact h

theorem IsClass.compat {nd : Node} {p : Char → Bool} (h : IsClass nd p) (G : NodeGrammar) (uni : Uni) (n : Nat)
    (inh : Bool) (i : Inp) (m : M) :
    Compat (parse G uni n inh nd i m)
      (match i.matchCharBy p with | some (i', _) => .ok i' m.stk | none => .fail) :=
  h G uni n inh i m

theorem isClass_charBy (uni0 : Uni) (name : String) (G : NodeGrammar) (n : Nat) (inh : Bool) (i : Inp) (m : M) :
    Compat (parse G uni0 n inh (.charBy name) i m)
      (match i.matchCharBy (uni0 name) with | some (i', _) => .ok i' m.stk | none => .fail) := by
  cases n with
  | zero => exact Compat.oof_left _
  | succ n =>
    simp only [parse]
    cases i.matchCharBy (uni0 name) with
    | none => exact Compat.fail_fail _
    | some p => exact Compat.ok_ok _ _ _

theorem char_zero_le (c : Char) : Char.ofNat 0 ≤ c := by
  show (Char.ofNat 0).val ≤ c.val
  have : (Char.ofNat 0).val = 0 := by decide
  rw [this]
  exact UInt32.zero_le

/-- Built-in aliases other than `EOI` against the Spec's built-ins: verdict, cursor, stack. -/
theorem builtin_compat (G : NodeGrammar) (uni : Uni) (name : String) (hne : name ≠ "EOI") (n : Nat) (inh : Bool)
    (i : Inp) (m : M) :
    Compat (parse G uni n inh (builtinNode name) i m) (specBuiltin uni name i m.stk) := by
  have hR := fun lo hi => isClass_range lo hi
  by_cases hmem : name ∈ ["ANY", "SOI", "PEEK", "PEEK_ALL", "POP", "POP_ALL", "DROP", "ASCII_DIGIT",
      "ASCII_NONZERO_DIGIT", "ASCII_BIN_DIGIT", "ASCII_OCT_DIGIT", "ASCII_HEX_DIGIT", "ASCII_ALPHA_LOWER",
      "ASCII_ALPHA_UPPER", "ASCII_ALPHA", "ASCII_ALPHANUMERIC", "ASCII", "NEWLINE", "WHITESPACE", "COMMENT"]
  · simp only [List.mem_cons, List.not_mem_nil, or_false] at hmem
    rcases hmem with rfl | rfl | rfl | rfl | rfl | rfl | rfl | rfl | rfl | rfl | rfl | rfl | rfl | rfl |
      rfl | rfl | rfl | rfl | rfl | rfl
    · -- ANY
      simp only [builtinNode, specBuiltin, String.reduceEq, ↓reduceIte]
      exact isClass_any.compat _ _ _ _ _ _
    · -- SOI
      simp only [builtinNode, specBuiltin, String.reduceEq, ↓reduceIte, or_self, or_false, false_or]
      cases n with
      | zero => exact Compat.oof_left _
      | succ n =>
        simp only [parse]
        by_cases h : i.atStart = true
        · simp only [h, if_true]; exact Compat.ok_ok _ _ _
        · simp only [h]; exact Compat.fail_fail _
    · -- PEEK
      simp only [builtinNode, specBuiltin, String.reduceEq, ↓reduceIte, or_self, or_false, false_or]
      cases n with
      | zero => exact Compat.oof_left _
      | succ n =>
        simp only [parse]
        cases hS : m.stk with
        | nil => exact Compat.fail_fail _
        | cons sp rest =>
          simp only []
          cases i.matchString sp.txt with
          | none => exact Compat.fail_fail _
          | some i' => rw [← hS]; exact Compat.ok_ok _ _ _
    · -- PEEK_ALL
      simp only [builtinNode, specBuiltin, String.reduceEq, ↓reduceIte, or_self, or_false, false_or]
      cases n with
      | zero => exact Compat.oof_left _
      | succ n =>
        simp only [parse]
        cases peekSpans m.stk i with
        | none => exact Compat.fail_fail _
        | some i' => exact Compat.ok_ok _ _ _
    · -- POP
      simp only [builtinNode, specBuiltin, String.reduceEq, ↓reduceIte, or_self, or_false, false_or]
      cases n with
      | zero => exact Compat.oof_left _
      | succ n =>
        simp only [parse]
        cases hS : m.stk with
        | nil => exact Compat.fail_fail _
        | cons sp rest =>
          simp only []
          cases i.matchString sp.txt with
          | none => exact Compat.fail_fail _
          | some i' => simp [Compat]
    · -- POP_ALL
      simp only [builtinNode, specBuiltin, String.reduceEq, ↓reduceIte, or_self, or_false, false_or]
      cases n with
      | zero => exact Compat.oof_left _
      | succ n =>
        simp only [parse]
        cases peekSpans m.stk i with
        | none => exact Compat.fail_fail _
        | some i' => simp [Compat]
    · -- DROP
      simp only [builtinNode, specBuiltin, String.reduceEq, ↓reduceIte, or_self, or_false, false_or]
      cases n with
      | zero => exact Compat.oof_left _
      | succ n =>
        simp only [parse]
        cases hS : m.stk with
        | nil => exact Compat.fail_fail _
        | cons sp rest => simp [Compat]
    · -- ASCII_DIGIT
      simp only [builtinNode, specBuiltin, asciiClass, asciiDigit, String.reduceEq, ↓reduceIte, or_self, or_false, false_or]
      exact (hR '0' '9').compat _ _ _ _ _ _
    · -- ASCII_NONZERO_DIGIT
      simp only [builtinNode, specBuiltin, asciiClass, String.reduceEq, ↓reduceIte, or_self, or_false, false_or]
      exact (hR '1' '9').compat _ _ _ _ _ _
    · -- ASCII_BIN_DIGIT
      simp only [builtinNode, specBuiltin, asciiClass, String.reduceEq, ↓reduceIte, or_self, or_false, false_or]
      exact (hR '0' '1').compat _ _ _ _ _ _
    · -- ASCII_OCT_DIGIT
      simp only [builtinNode, specBuiltin, asciiClass, String.reduceEq, ↓reduceIte, or_self, or_false, false_or]
      exact (hR '0' '7').compat _ _ _ _ _ _
    · -- ASCII_HEX_DIGIT
      simp only [builtinNode, specBuiltin, asciiClass, asciiDigit, String.reduceEq, ↓reduceIte, or_self, or_false, false_or]
      have := isClass_choice [.range '0' '9', .range 'a' 'f', .range 'A' 'F'] _
        (.cons (hR '0' '9') (.cons (hR 'a' 'f') (.cons (hR 'A' 'F') .nil)))
      exact (this.congr (q := fun c => decide (('0' ≤ c ∧ c ≤ '9') ∨ ('a' ≤ c ∧ c ≤ 'f') ∨ ('A' ≤ c ∧ c ≤ 'F')))
        (fun c => by simp)).compat _ _ _ _ _ _
    · -- ASCII_ALPHA_LOWER
      simp only [builtinNode, specBuiltin, asciiClass, asciiAlphaLower, String.reduceEq, ↓reduceIte, or_self, or_false, false_or]
      exact (hR 'a' 'z').compat _ _ _ _ _ _
    · -- ASCII_ALPHA_UPPER
      simp only [builtinNode, specBuiltin, asciiClass, asciiAlphaUpper, String.reduceEq, ↓reduceIte, or_self, or_false, false_or]
      exact (hR 'A' 'Z').compat _ _ _ _ _ _
    · -- ASCII_ALPHA
      simp only [builtinNode, specBuiltin, asciiClass, asciiAlpha, asciiAlphaLower, asciiAlphaUpper, String.reduceEq, ↓reduceIte, or_self, or_false, false_or]
      have := isClass_choice [.range 'a' 'z', .range 'A' 'Z'] _
        (.cons (hR 'a' 'z') (.cons (hR 'A' 'Z') .nil))
      exact (this.congr (q := fun c => decide (('a' ≤ c ∧ c ≤ 'z') ∨ ('A' ≤ c ∧ c ≤ 'Z')))
        (fun c => by simp)).compat _ _ _ _ _ _
    · -- ASCII_ALPHANUMERIC
      simp only [builtinNode, specBuiltin, asciiClass, asciiAlpha, asciiAlphaLower, asciiAlphaUpper, asciiDigit, String.reduceEq, ↓reduceIte, or_self, or_false, false_or]
      have ha := isClass_choice [.range 'a' 'z', .range 'A' 'Z'] _
        (.cons (hR 'a' 'z') (.cons (hR 'A' 'Z') .nil))
      have := isClass_choice [.choice [.range 'a' 'z', .range 'A' 'Z'], .range '0' '9'] _
        (.cons ha (.cons (hR '0' '9') .nil))
      exact (this.congr (q := fun c => decide (('a' ≤ c ∧ c ≤ 'z') ∨ ('A' ≤ c ∧ c ≤ 'Z') ∨ ('0' ≤ c ∧ c ≤ '9')))
        (fun c => by simp [Bool.or_assoc])).compat _ _ _ _ _ _
    · -- ASCII
      simp only [builtinNode, specBuiltin, asciiClass, String.reduceEq, ↓reduceIte, or_self, or_false, false_or]
      exact ((hR (Char.ofNat 0) (Char.ofNat 0x7f)).congr (q := fun c => decide (c ≤ Char.ofNat 0x7f))
        (fun c => by simp [char_zero_le])).compat _ _ _ _ _ _
    · -- NEWLINE
      simp only [builtinNode, specBuiltin, String.reduceEq, ↓reduceIte, or_self, or_false, false_or]
      cases n with
      | zero => exact Compat.oof_left _
      | succ n =>
        simp only [parse]
        cases newlineMatch i with
        | none => exact Compat.fail_fail _
        | some p => exact Compat.ok_ok _ _ _
    · -- WHITESPACE
      simp only [builtinNode, specBuiltin, String.reduceEq, ↓reduceIte, or_self, or_false, false_or]
      cases n with
      | zero => exact Compat.oof_left _
      | succ n => simp only [parse]; exact Compat.fail_fail _
    · -- COMMENT
      simp only [builtinNode, specBuiltin, String.reduceEq, ↓reduceIte, or_self, or_false, false_or]
      cases n with
      | zero => exact Compat.oof_left _
      | succ n => simp only [parse]; exact Compat.fail_fail _
  · simp only [List.mem_cons, List.not_mem_nil, or_false, not_or] at hmem
    obtain ⟨h1, h2, h4, h5, h6, h7, h8, h9, h10, h11, h12, h13, h14, h15, h16, h17, h18, h19, h20, h21⟩ := hmem
    simp only [builtinNode, specBuiltin, asciiClass, h1, h2, hne, h4, h5, h6, h7, h8, h9, h10, h11, h12, h13, h14,
      h15, h16, h17, h18, h19, h20, h21, if_false, or_self]
    exact isClass_charBy uni name G n inh i m

end Tok

/-! ### the relation `SimG`: inversion, prefixes -/

theorem SimG.cases {α} {pg : PGrammar} {am : Atom3} {tok : α → List Token} {pre : List Token} {rp : R α}
    {rs : STR} (h : SimG pg am tok pre rp rs) :
    rp = .oof ∨ rs = .oof ∨ (∃ mf, rp = .fail mf ∧ rs = .fail) ∨
    (∃ i m a ts, rp = .ok i m a ∧ rs = .ok i m.stk ts ∧ (am ≠ .atomic → tok a = pre ++ pruneAtomic pg ts)) := by
  cases rp with
  | oof => exact Or.inl rfl
  | fail mf =>
    cases rs with
    | oof => exact Or.inr (Or.inl rfl)
    | fail => exact Or.inr (Or.inr (Or.inl ⟨mf, rfl, rfl⟩))
    | ok j S ts => exact absurd h SimG.fail_ok
  | ok i m a =>
    cases rs with
    | oof => exact Or.inr (Or.inl rfl)
    | fail => exact absurd h SimG.ok_fail
    | ok j S ts =>
      obtain ⟨h1, h2, h3⟩ := SimG.ok_ok.mp h
      subst h1 h2
      exact Or.inr (Or.inr (Or.inr ⟨i, m, a, ts, rfl, rfl, h3⟩))

/-- Prepend tokens to a successful result. -/
def STR.pre (t : List Token) : STR → STR
  | .oof => .oof
  | .fail => .fail
  | .ok i S ts => .ok i S (t ++ ts)

/-- Sequencing of results of the token semantics. -/
def STR.bind (r : STR) (k : Inp → List Sp → List Token → STR) : STR :=
  match r with
  | .oof => .oof
  | .fail => .fail
  | .ok i S t => k i S t

theorem STR.pre_nil (r : STR) : r.pre [] = r := by cases r <;> simp [STR.pre]

theorem SimG.pre_shift {α} {pg : PGrammar} {am : Atom3} {tok : α → List Token} {pre t : List Token} {rp : R α}
    {rs : STR} (h : SimG pg am tok (pre ++ pruneAtomic pg t) rp rs) : SimG pg am tok pre rp (rs.pre t) := by
  rcases h.cases with h | h | ⟨mf, h1, h2⟩ | ⟨i, m, a, ts, h1, h2, h3⟩
  · rw [h]; exact SimG.oof_left _
  · rw [h]; exact SimG.oof_right _
  · rw [h1, h2]; exact SimG.fail_fail _
  · rw [h1, h2]
    refine SimG.ok_ok.mpr ⟨rfl, rfl, fun ha => ?_⟩
    rw [h3 ha, pruneAtomic_append, List.append_assoc]

namespace Tok

/-! ### the Spec side, named -/

/-- pest's implicit skip at fuel `N`. -/
def specTokSkipN (pg : PGrammar) (uni : Uni) (N : Nat) (i : Inp) (S : List Sp) : STR :=
  specTokSkip (specTok pg uni N .nonAtomic) (pg.defines "WHITESPACE") (pg.defines "COMMENT") (atomicBudget N) i S

/-- The skip between two elements: runs when non-atomic, nothing otherwise. -/
def specTokSkipIf (pg : PGrammar) (uni : Uni) (N : Nat) (am : Atom3) (i : Inp) (S : List Sp) : STR :=
  if am.na then specTokSkipN pg uni N i S else .ok i S []

/-- "skip (when non-atomic), then `b`", tokens of the skip first. -/
def specTokThen (pg : PGrammar) (uni : Uni) (N : Nat) (am : Atom3) (b : PExpr) (i : Inp) (S : List Sp) : STR :=
  (specTokSkipIf pg uni N am i S).bind (fun i2 S2 t2 => (specTok pg uni N am b i2 S2).pre t2)

theorem specTok_seq_eq (pg : PGrammar) (uni : Uni) (N : Nat) (am : Atom3) (a b : PExpr) (i : Inp) (S : List Sp) :
    specTok pg uni (N+1) am (.seq a b) i S =
      (specTok pg uni N am a i S).bind (fun i1 S1 t1 => (specTokThen pg uni N am b i1 S1).pre t1) := by
  simp only [specTok]
  cases specTok pg uni N am a i S with
  | oof => rfl
  | fail => rfl
  | ok i1 S1 t1 =>
    simp only [STR.bind, specTokThen, specTokSkipIf, specTokSkipN]
    cases hna : am.na with
    | true =>
      simp only [if_true]
      cases specTokSkip (specTok pg uni N .nonAtomic) (pg.defines "WHITESPACE") (pg.defines "COMMENT")
          (atomicBudget N) i1 S1 with
      | oof => rfl
      | fail => rfl
      | ok i2 S2 t2 =>
        simp only []
        cases specTok pg uni N am b i2 S2 with
        | oof => rfl
        | fail => rfl
        | ok i3 S3 t3 => simp [STR.pre, List.append_assoc]
    | false =>
      simp only [Bool.false_eq_true, if_false]
      cases specTok pg uni N am b i1 S1 with
      | oof => rfl
      | fail => rfl
      | ok i3 S3 t3 => simp [STR.pre]

theorem specTokRepWith_eq (pg : PGrammar) (uni : Uni) (N : Nat) (am : Atom3) (e : PExpr) (min : Nat)
    (mx : Option Nat) (i : Inp) (S : List Sp) :
    specTokRepWith (specTok pg uni N) N (pg.defines "WHITESPACE") (pg.defines "COMMENT") am e min mx i S =
      specTokRepLoop (fun idx i S => if idx = 0 then specTok pg uni N am e i S else specTokThen pg uni N am e i S)
        min mx N 0 i S [] := by
  unfold specTokRepWith
  congr 1
  funext idx i S
  by_cases h0 : idx = 0
  · simp [h0]
  · simp only [h0, false_or, if_false, specTokThen, specTokSkipIf, specTokSkipN]
    cases hna : am.na with
    | true =>
      simp only [Bool.not_true, Bool.false_eq_true, if_false, if_true]
      cases specTokSkip (specTok pg uni N .nonAtomic) (pg.defines "WHITESPACE") (pg.defines "COMMENT")
          (atomicBudget N) i S with
      | oof => rfl
      | fail => rfl
      | ok i1 S1 t1 =>
        simp only [STR.bind]
        cases specTok pg uni N am e i1 S1 <;> simp [STR.pre]
    | false =>
      simp only [Bool.not_false, if_true, Bool.false_eq_true, if_false, STR.bind, STR.pre_nil]

/-! ### the simulation statement -/

/-- The simulation at typed fuel `n` (every Spec fuel): the flag of the typed side means the Spec's
atomicity. -/
def TokSim (pg : PGrammar) (uni : Uni) (n : Nat) : Prop :=
  ∀ (N : Nat) (e : PExpr) (sk : Flag) (inh : Bool) (am : Atom3) (i : Inp) (m : M), sk.eval inh = am.na →
    SimG pg am (tokens (gen pg)) [] (parse (gen pg) uni n inh (genExpr pg sk e) i m)
      (specTok pg uni N am e i m.stk)

/-- References to the skip rules need no relation between flag and atomicity. -/
def IdentSkip (pg : PGrammar) (uni : Uni) (n : Nat) : Prop :=
  ∀ (N : Nat) (nm : String), (nm = "WHITESPACE" ∨ nm = "COMMENT") →
    ∀ (sk : Flag) (inh : Bool) (am : Atom3) (i : Inp) (m : M),
      SimG pg am (tokens (gen pg)) [] (parse (gen pg) uni n inh (genExpr pg sk (.ident nm)) i m)
        (specTok pg uni N am (.ident nm) i m.stk)

/-! ### the implicit skip -/

/-- `AtomicRepeat<X>` against a loop of the token semantics. -/
theorem atomicRepeat_simT (pg : PGrammar) (G : NodeGrammar) (uni : Uni) (n : Nat) (X : Node)
    (uS : Nat → Inp → List Sp → STR)
    (hX : ∀ k, k < n → ∀ idx i m, SimG pg .nonAtomic (tokens G) [] (parse G uni k false X i m) (uS idx i m.stk))
    (bS : Nat) (i : Inp) (m : M) :
    SimG pg .nonAtomic (tokens G) [] (parse G uni n false (.atomicRepeat X) i m)
      (specTokRepLoop uS 0 none bS 0 i m.stk []) := by
  cases n with
  | zero => exact SimG.oof_left _
  | succ n =>
    simp only [parse]
    have hl : SimG pg .nonAtomic (tokensList G) []
        (repLoop (fun _ i m => parse G uni n false X i m) 0 none (atomicBudget n) 0 i
          { m with trk := Tracker.new i } [])
        (specTokRepLoop uS 0 none bS 0 i m.stk []) :=
      Tok.repLoop_sim pg .nonAtomic G (fun _ i m => parse G uni n false X i m) uS
        (fun idx i m => hX n (Nat.lt_succ_self n) idx i m) 0 none (atomicBudget n) bS 0 i
        { m with trk := Tracker.new i } [] [] rfl (fun _ => by simp [tokensList, pruneAtomic])
    rcases hl.cases with h | h | ⟨mf, h1, h2⟩ | ⟨i1, m1, vs, ts, h1, h2, h3⟩
    · simp only [h]; exact SimG.oof_left _
    · simp only [h]; exact SimG.oof_right _
    · simp only [h1, h2]; exact SimG.fail_fail _
    · simp only [h1, h2]
      refine SimG.ok_ok.mpr ⟨rfl, rfl, fun ha => ?_⟩
      have := h3 ha
      simpa [tokens] using this

theorem specTokSkipUnit_W (call : String → Inp → List Sp → STR) (i : Inp) (S : List Sp) :
    specTokSkipUnit call true false i S = call "WHITESPACE" i S := by
  simp only [specTokSkipUnit, if_true]
  cases call "WHITESPACE" i S <;> simp

theorem specTokSkipUnit_C (call : String → Inp → List Sp → STR) (i : Inp) (S : List Sp) :
    specTokSkipUnit call false true i S = call "COMMENT" i S := by
  simp [specTokSkipUnit]

/-- `Skipped` (the four shapes of `genSkipped`) against pest's `(WHITESPACE | COMMENT)*`, with the
tokens of the non-silent skip rules. -/
theorem skipped_simT {pg : PGrammar} {uni : Uni} {n : Nat} (hI : ∀ k, k ≤ n → IdentSkip pg uni k) (N : Nat)
    (i : Inp) (m : M) :
    SimG pg .nonAtomic (tokens (gen pg)) [] (parse (gen pg) uni n false (gen pg).skipped i m)
      (specTokSkipN pg uni N i m.stk) := by
  show SimG pg .nonAtomic (tokens (gen pg)) [] (parse (gen pg) uni n false (genSkipped pg) i m) _
  unfold specTokSkipN
  cases hw : pg.indexOf "WHITESPACE" with
  | none =>
    cases hc : pg.indexOf "COMMENT" with
    | none =>
      have hW : pg.defines "WHITESPACE" = false := by simp [PGrammar.defines, hw]
      have hC : pg.defines "COMMENT" = false := by simp [PGrammar.defines, hc]
      rw [hW, hC, specTokSkip_none]
      simp only [genSkipped, hw, hc]
      cases n with
      | zero => exact SimG.oof_left _
      | succ n =>
        simp only [parse]
        exact SimG.ok_ok.mpr ⟨rfl, rfl, fun _ => by simp [tokens, tokensList, Val.leaf, pruneAtomic]⟩
    | some c =>
      have hW : pg.defines "WHITESPACE" = false := by simp [PGrammar.defines, hw]
      have hC : pg.defines "COMMENT" = true := by simp [PGrammar.defines, hc]
      rw [hW, hC]
      simp only [genSkipped, hw, hc]
      unfold specTokSkip
      refine atomicRepeat_simT pg (gen pg) uni n _ _ ?_ _ i m
      intro k hk idx i m
      rw [specTokSkipUnit_C]
      have := hI k (by omega) N "COMMENT" (Or.inr rfl) .zero false .nonAtomic i m
      simp only [genExpr, hc] at this
      exact this
  | some w =>
    cases hc : pg.indexOf "COMMENT" with
    | none =>
      have hW : pg.defines "WHITESPACE" = true := by simp [PGrammar.defines, hw]
      have hC : pg.defines "COMMENT" = false := by simp [PGrammar.defines, hc]
      rw [hW, hC]
      simp only [genSkipped, hw, hc]
      unfold specTokSkip
      refine atomicRepeat_simT pg (gen pg) uni n _ _ ?_ _ i m
      intro k hk idx i m
      rw [specTokSkipUnit_W]
      have := hI k (by omega) N "WHITESPACE" (Or.inl rfl) .zero false .nonAtomic i m
      simp only [genExpr, hw] at this
      exact this
    | some c =>
      have hW : pg.defines "WHITESPACE" = true := by simp [PGrammar.defines, hw]
      have hC : pg.defines "COMMENT" = true := by simp [PGrammar.defines, hc]
      rw [hW, hC]
      simp only [genSkipped, hw, hc]
      unfold specTokSkip
      refine atomicRepeat_simT pg (gen pg) uni n _ _ ?_ _ i m
      intro k hk idx i m
      cases k with
      | zero => exact SimG.oof_left _
      | succ k =>
        have hWk := hI k (by omega) N "WHITESPACE" (Or.inl rfl) .zero false .nonAtomic i m
        simp only [genExpr, hw] at hWk
        simp only [parse, choiceLoop, specTokSkipUnit, if_true]
        rcases hWk.cases with h | h | ⟨mf, h1, h2⟩ | ⟨i1, m1, v, ts, h1, h2, h3⟩
        · simp only [h, restoreOnNone]; exact SimG.oof_left _
        · simp only [h]; exact SimG.oof_right _
        · simp only [h1, h2, restoreOnNone]
          have hCk : SimG pg .nonAtomic (tokens (gen pg)) []
              (parse (gen pg) uni k false (.ref (c+1) .zero) i { mf with stk := m.stk })
              (specTok pg uni N .nonAtomic (.ident "COMMENT") i m.stk) := by
            have := hI k (by omega) N "COMMENT" (Or.inr rfl) .zero false .nonAtomic i { mf with stk := m.stk }
            simp only [genExpr, hc] at this
            exact this
          rcases hCk.cases with g | g | ⟨mf2, g1, g2⟩ | ⟨i2, m2, v2, ts2, g1, g2, g3⟩
          · simp only [g, restoreOnNone]; exact SimG.oof_left _
          · simp only [g]; exact SimG.oof_right _
          · simp only [g1, g2, restoreOnNone]; exact SimG.fail_fail _
          · simp only [g1, g2, restoreOnNone]
            refine SimG.ok_ok.mpr ⟨rfl, rfl, fun ha => ?_⟩
            simpa [tokens, tokensList] using g3 ha
        · simp only [h1, h2, restoreOnNone]
          refine SimG.ok_ok.mpr ⟨rfl, rfl, fun ha => ?_⟩
          simpa [tokens, tokensList] using h3 ha

/-- The `SKIP` runs of the skip type (`SKIP` = 0 or 1) against pest's conditional skip. -/
theorem skipIf_simT {pg : PGrammar} {uni : Uni} {n : Nat} (hI : ∀ k, k ≤ n → IdentSkip pg uni k) {sk : Flag}
    {inh : Bool} {am : Atom3} (hsk : sk.eval inh = am.na) (N : Nat) (i : Inp) (m : M) :
    SimG pg .nonAtomic (tokensList (gen pg)) []
      (skipLoop (parse (gen pg) uni n false (gen pg).skipped) (skipCount sk inh) i m [])
      (specTokSkipIf pg uni N am i m.stk) := by
  unfold specTokSkipIf
  cases hna : am.na with
  | false =>
    rw [hna] at hsk
    simp only [skipCount, hsk, Bool.false_eq_true, if_false, skipLoop]
    exact SimG.ok_ok.mpr ⟨rfl, rfl, fun _ => by simp [tokensList, pruneAtomic]⟩
  | true =>
    rw [hna] at hsk
    simp only [skipCount, hsk, if_true, skipLoop]
    rcases (skipped_simT hI N i m).cases with h | h | ⟨mf, h1, h2⟩ | ⟨i1, m1, v, ts, h1, h2, h3⟩
    · simp only [h]; exact SimG.oof_left _
    · simp only [h]; exact SimG.oof_right _
    · simp only [h1, h2]; exact SimG.fail_fail _
    · simp only [h1, h2]
      refine SimG.ok_ok.mpr ⟨rfl, rfl, fun ha => ?_⟩
      simpa [tokensList] using h3 ha

/-! ### sequences -/

/-- The last element of a sequence spine: skip, element, done. -/
theorem seqLast_simT {pg : PGrammar} {uni : Uni} {n : Nat} (hP : TokSim pg uni n)
    (hI : ∀ k, k ≤ n → IdentSkip pg uni k) {sk : Flag} {inh : Bool} {am : Atom3} (hsk : sk.eval inh = am.na)
    (b : PExpr) (N : Nat) (i : Inp) (m : M) (acc : List Val) (pre : List Token)
    (hacc : am ≠ .atomic → tokensList (gen pg) acc.reverse = pre) :
    SimG pg am (tokensList (gen pg)) pre
      (seqLoop (parse (gen pg) uni n inh)
        (fun i m => skipLoop (parse (gen pg) uni n false (gen pg).skipped) (skipCount sk inh) i m [])
        mkSkipped [genExpr pg sk b] i m acc)
      (specTokThen pg uni N am b i m.stk) := by
  simp only [seqLoop]
  unfold specTokThen
  rcases (skipIf_simT hI hsk N i m).cases with h | h | ⟨mf, h1, h2⟩ | ⟨i2, m2, sks, t2, h1, h2, h3⟩
  · simp only [h]; exact SimG.oof_left _
  · simp only [h, STR.bind]; exact SimG.oof_right _
  · simp only [h1, h2, STR.bind]; exact SimG.fail_fail _
  · simp only [h1, h2, STR.bind]
    rcases (hP N b sk inh am i2 m2 hsk).cases with g | g | ⟨mf, g1, g2⟩ | ⟨i3, m3, v, t3, g1, g2, g3⟩
    · simp only [g]; exact SimG.oof_left _
    · simp only [g, STR.pre]; exact SimG.oof_right _
    · simp only [g1, g2, STR.pre]; exact SimG.fail_fail _
    · simp only [g1, g2, STR.pre]
      refine SimG.ok_ok.mpr ⟨rfl, rfl, fun ha => ?_⟩
      rw [List.reverse_cons, tokensList_append, tokensList_singleton, tokens_mkSkipped, hacc ha,
        h3 (by decide), g3 ha, pruneAtomic_append]
      simp

/-- The flattened right spine of a sequence, run by `seqLoop`, against pest's right-nested binary
evaluation (skip, element, rest), tokens in order. -/
theorem seqSpine_simT {pg : PGrammar} {uni : Uni} {n : Nat} (hP : TokSim pg uni n)
    (hI : ∀ k, k ≤ n → IdentSkip pg uni k) {sk : Flag} {inh : Bool} {am : Atom3} (hsk : sk.eval inh = am.na) :
    ∀ (b : PExpr) (N : Nat) (i : Inp) (m : M) (acc : List Val) (pre : List Token),
      (am ≠ .atomic → tokensList (gen pg) acc.reverse = pre) →
      SimG pg am (tokensList (gen pg)) pre
        (seqLoop (parse (gen pg) uni n inh)
          (fun i m => skipLoop (parse (gen pg) uni n false (gen pg).skipped) (skipCount sk inh) i m [])
          mkSkipped (genSeqSpine pg sk b) i m acc)
        (specTokThen pg uni N am b i m.stk) := by
  intro b
  induction b with
  | seq b1 b2 _ ih2 =>
    intro N i m acc pre hacc
    simp only [genSeqSpine, seqLoop]
    unfold specTokThen
    rcases (skipIf_simT hI hsk N i m).cases with h | h | ⟨mf, h1, h2⟩ | ⟨i2, m2, sks, t2, h1, h2, h3⟩
    · simp only [h]; exact SimG.oof_left _
    · simp only [h, STR.bind]; exact SimG.oof_right _
    · simp only [h1, h2, STR.bind]; exact SimG.fail_fail _
    · simp only [h1, h2, STR.bind]
      cases N with
      | zero => simp only [specTok, STR.pre]; exact SimG.oof_right _
      | succ N =>
        rw [specTok_seq_eq]
        rcases (hP N b1 sk inh am i2 m2 hsk).cases with g | g | ⟨mf, g1, g2⟩ | ⟨i3, m3, v, t3, g1, g2, g3⟩
        · simp only [g]; exact SimG.oof_left _
        · simp only [g, STR.bind, STR.pre]; exact SimG.oof_right _
        · simp only [g1, g2, STR.bind, STR.pre]; exact SimG.fail_fail _
        · simp only [g1, g2, STR.bind]
          apply SimG.pre_shift
          apply SimG.pre_shift
          refine ih2 N i3 m3 _ _ (fun ha => ?_)
          rw [List.reverse_cons, tokensList_append, tokensList_singleton, tokens_mkSkipped, hacc ha,
            h3 (by decide), g3 ha]
          simp
  | _ =>
    intro N i m acc pre hacc
    simp only [genSeqSpine]
    exact seqLast_simT hP hI hsk _ N i m acc pre hacc

/-! ### choices -/

/-- The last alternative of a choice spine. -/
theorem choiceLast_simT {pg : PGrammar} {uni : Uni} {n : Nat} (hP : TokSim pg uni n) {sk : Flag} {inh : Bool}
    {am : Atom3} (hsk : sk.eval inh = am.na) (b : PExpr) (N : Nat) (k0 : Nat) (i : Inp) (m : M) :
    SimG pg am (fun p : Nat × Val => tokens (gen pg) p.2) []
      (choiceLoop (parse (gen pg) uni n inh) [genExpr pg sk b] k0 i m)
      (specTok pg uni N am b i m.stk) := by
  simp only [choiceLoop]
  rcases (hP N b sk inh am i m hsk).cases with h | h | ⟨mf, h1, h2⟩ | ⟨i1, m1, v, ts, h1, h2, h3⟩
  · simp only [h, restoreOnNone]; exact SimG.oof_left _
  · simp only [h]; exact SimG.oof_right _
  · simp only [h1, h2, restoreOnNone]; exact SimG.fail_fail _
  · simp only [h1, h2, restoreOnNone]
    exact SimG.ok_ok.mpr ⟨rfl, rfl, h3⟩

/-- The flattened right spine of a choice, run by `choiceLoop` (each alternative under
`restore_on_none`), against pest's right-nested ordered choice on an immutable stack. -/
theorem choiceSpine_simT {pg : PGrammar} {uni : Uni} {n : Nat} (hP : TokSim pg uni n) {sk : Flag} {inh : Bool}
    {am : Atom3} (hsk : sk.eval inh = am.na) :
    ∀ (b : PExpr) (N : Nat) (k0 : Nat) (i : Inp) (m : M),
      SimG pg am (fun p : Nat × Val => tokens (gen pg) p.2) []
        (choiceLoop (parse (gen pg) uni n inh) (genChoiceSpine pg sk b) k0 i m)
        (specTok pg uni N am b i m.stk) := by
  intro b
  induction b with
  | choice b1 b2 _ ih2 =>
    intro N k0 i m
    cases N with
    | zero => exact SimG.oof_right _
    | succ N =>
      simp only [genChoiceSpine, choiceLoop, specTok]
      rcases (hP N b1 sk inh am i m hsk).cases with h | h | ⟨mf, h1, h2⟩ | ⟨i1, m1, v, ts, h1, h2, h3⟩
      · simp only [h, restoreOnNone]; exact SimG.oof_left _
      · simp only [h]; exact SimG.oof_right _
      · simp only [h1, h2, restoreOnNone]
        exact ih2 N (k0+1) i { mf with stk := m.stk }
      · simp only [h1, h2, restoreOnNone]
        exact SimG.ok_ok.mpr ⟨rfl, rfl, h3⟩
  | _ =>
    intro N k0 i m
    simp only [genChoiceSpine]
    exact choiceLast_simT hP hsk _ N k0 i m

/-! ### repetitions -/

/-- `RepeatMin` / `RepeatMinMax` against pest's `e (skip e)*` with bounds. -/
theorem rep_simT {pg : PGrammar} {uni : Uni} {n : Nat} (hP : TokSim pg uni n)
    (hI : ∀ k, k ≤ n → IdentSkip pg uni k) {sk : Flag} {inh : Bool} {am : Atom3} (hsk : sk.eval inh = am.na)
    (x : PExpr) (min : Nat) (mx : Option Nat) (N : Nat) (i : Inp) (m : M) :
    SimG pg am (tokens (gen pg)) []
      (parse (gen pg) uni (n+1) inh (.rep sk min mx (genExpr pg sk x)) i m)
      (specTokRepWith (specTok pg uni N) N (pg.defines "WHITESPACE") (pg.defines "COMMENT") am x min mx i m.stk) := by
  rw [specTokRepWith_eq]
  simp only [parse]
  have hu : ∀ idx i m, SimG pg am (tokens (gen pg)) []
      (repUnitP (parse (gen pg) uni n false (gen pg).skipped) (parse (gen pg) uni n inh (genExpr pg sk x))
        (defaultSkipVal (gen pg)) (skipCount sk inh) idx i m)
      ((fun idx i S => if idx = 0 then specTok pg uni N am x i S else specTokThen pg uni N am x i S) idx i m.stk) := by
    intro idx i m
    by_cases h0 : idx = 0
    · simp only [h0, if_true, repUnitP]
      rcases (hP N x sk inh am i m hsk).cases with g | g | ⟨mf, g1, g2⟩ | ⟨i3, m3, v, t3, g1, g2, g3⟩
      · simp only [g]; exact SimG.oof_left _
      · simp only [g]; exact SimG.oof_right _
      · simp only [g1, g2]; exact SimG.fail_fail _
      · simp only [g1, g2]
        refine SimG.ok_ok.mpr ⟨rfl, rfl, fun ha => ?_⟩
        rw [tokens_mkSkipped, tokensList_replicate_nil (gen pg) _ (tokens_defaultSkipVal (gen pg)), g3 ha]
        simp
    · simp only [h0, if_false, repUnitP]
      unfold specTokThen
      rcases (skipIf_simT hI hsk N i m).cases with h | h | ⟨mf, h1, h2⟩ | ⟨i2, m2, sks, t2, h1, h2, h3⟩
      · simp only [h]; exact SimG.oof_left _
      · simp only [h, STR.bind]; exact SimG.oof_right _
      · simp only [h1, h2, STR.bind]; exact SimG.fail_fail _
      · simp only [h1, h2, STR.bind]
        rcases (hP N x sk inh am i2 m2 hsk).cases with g | g | ⟨mf, g1, g2⟩ | ⟨i3, m3, v, t3, g1, g2, g3⟩
        · simp only [g]; exact SimG.oof_left _
        · simp only [g, STR.pre]; exact SimG.oof_right _
        · simp only [g1, g2, STR.pre]; exact SimG.fail_fail _
        · simp only [g1, g2, STR.pre]
          refine SimG.ok_ok.mpr ⟨rfl, rfl, fun ha => ?_⟩
          rw [tokens_mkSkipped, h3 (by decide), g3 ha, pruneAtomic_append]
          simp
  have hloop := Tok.repLoop_sim pg am (gen pg)
    (repUnitP (parse (gen pg) uni n false (gen pg).skipped) (parse (gen pg) uni n inh (genExpr pg sk x))
      (defaultSkipVal (gen pg)) (skipCount sk inh))
    (fun idx i S => if idx = 0 then specTok pg uni N am x i S else specTokThen pg uni N am x i S)
    hu min mx n N 0 i m [] [] rfl (fun _ => by simp [tokensList, pruneAtomic])
  rcases hloop.cases with h | h | ⟨mf, h1, h2⟩ | ⟨i1, m1, vs, ts, h1, h2, h3⟩
  · simp only [h]; exact SimG.oof_left _
  · simp only [h]; exact SimG.oof_right _
  · simp only [h1, h2]; exact SimG.fail_fail _
  · simp only [h1, h2]
    refine SimG.ok_ok.mpr ⟨rfl, rfl, fun ha => ?_⟩
    simpa [tokens] using h3 ha

/-! ### rule references -/

/-- The token(s) of a rule value against what `ParserState::rule` emits, after pruning; the children
matter only for rules that are neither `@` nor `$`. -/
theorem rule_tokens' (pg : PGrammar) (k : Nat) (pr : PRule) (name : String) (hpr : pg[k]? = some pr)
    (hk : pg.indexOf name = some k) (am : Atom3) (ha : am ≠ .atomic) (s e : Nat) (boxed : Bool) (emit : Emission)
    (hem : kindEmission pr.kind = emit) (v : Val) (ts : List Token) (kids : List Val)
    (hkids : (emit ≠ .span ∧ kids = [v]) ∨ (emit = .span ∧ kids = []))
    (hv : (pr.kind = .atomic ∨ pr.kind = .compoundAtomic) ∨ tokens (gen pg) v = pruneAtomic pg ts) :
    tokens (gen pg) (.mk (.rule (k+1) emit boxed s e) kids) =
      [] ++ pruneAtomic pg (if emitsToken pr.kind am then [.mk (pg.ruleId name) s e ts] else ts) := by
  have hc := hasContentPairs_gen pg k pr hpr
  have hid : pg.ruleId name = k + 1 := by simp [PGrammar.ruleId, hk]
  have hat : pg.isAtomicId (k+1) = (pr.kind == .atomic || pr.kind == .compoundAtomic) := by
    simp [PGrammar.isAtomicId, hpr]
  rw [hat] at hc
  subst hem
  simp only [List.nil_append]
  cases hkind : pr.kind <;> rw [hkind] at hc hat hv hkids <;>
    cases am <;> simp_all [tokens, tokensList, kindEmission, emitsToken, ruleCallAt, pruneAtomic, pruneAtomicTok]

/-- A reference to a rule of the grammar, given the simulation of its body under a `#skip` token
`sk2` that means the atomicity pest runs the body in. -/
theorem ident_core {pg : PGrammar} {uni : Uni} {n : Nat} (hP : TokSim pg uni n) (N : Nat) (name : String)
    (k : Nat) (pr : PRule) (hk : pg.indexOf name = some k) (hpr : pg[k]? = some pr) (sk : Flag) (inh : Bool)
    (am : Atom3) (i : Inp) (m : M) (sk2 : Flag)
    (hbody : genExpr pg (atomFlag (kindAtomicity pr.kind)) pr.expr = genExpr pg sk2 pr.expr)
    (hfl : sk2.eval (sk.eval inh) = (bodyAt name pr.kind am).na)
    (htok : ∀ (m0 : M) (i' : Inp) (m' : M) (v : Val) (ts : List Token),
      parse (gen pg) uni n (sk.eval inh) (genExpr pg sk2 pr.expr) i m0 = .ok i' m' v →
      specTok pg uni N (bodyAt name pr.kind am) pr.expr i m.stk = .ok i' m'.stk ts →
      (bodyAt name pr.kind am ≠ .atomic → tokens (gen pg) v = [] ++ pruneAtomic pg ts) → am ≠ .atomic →
      (pr.kind = .atomic ∨ pr.kind = .compoundAtomic) ∨ tokens (gen pg) v = pruneAtomic pg ts) :
    SimG pg am (tokens (gen pg)) [] (parse (gen pg) uni (n+1) inh (.ref (k+1) sk) i m)
      (specTok pg uni (N+1) am (.ident name) i m.stk) := by
  have hfind : pg.find? name = some pr := by simp [PGrammar.find?, hk, hpr]
  have hrule : (gen pg).rule? (k+1) =
      some ⟨pr.name, kindAtomicity pr.kind, kindEmission pr.kind, true, genExpr pg sk2 pr.expr⟩ := by
    rw [← hbody]; simp [NodeGrammar.rule?, gen, hpr, genRule]
  have hb : ∀ m0 : M, m0.stk = m.stk →
      SimG pg (bodyAt name pr.kind am) (tokens (gen pg)) []
        (parse (gen pg) uni n (sk.eval inh) (genExpr pg sk2 pr.expr) i m0)
        (specTok pg uni N (bodyAt name pr.kind am) pr.expr i m.stk) := by
    intro m0 h0
    rw [← h0]
    exact hP N pr.expr sk2 (sk.eval inh) _ i m0 hfl
  simp only [parse, hrule, specTok, hfind]
  cases hem : kindEmission pr.kind with
  | expression =>
    simp only []
    rcases (hb m rfl).cases with g | g | ⟨mf, g1, g2⟩ | ⟨i1, m1, v, ts, g1, g2, g3⟩
    · simp only [g]; exact SimG.oof_left _
    · simp only [g]; exact SimG.oof_right _
    · simp only [g1, g2]; exact SimG.fail_fail _
    · simp only [g1, g2]
      refine SimG.ok_ok.mpr ⟨rfl, rfl, fun ha => ?_⟩
      exact rule_tokens' pg k pr name hpr hk am ha _ _ _ .expression hem v ts [v] (Or.inl ⟨by simp, rfl⟩)
        (htok m i1 m1 v ts g1 g2 g3 ha)
  | span =>
    simp only [check_eq_parse_forget]
    rcases (hb { m with trk := m.trk.enter (k+1) i.pos } rfl).cases with
      g | g | ⟨mf, g1, g2⟩ | ⟨i1, m1, v, ts, g1, g2, g3⟩
    · simp only [g, Res.forget_oof]; exact SimG.oof_left _
    · simp only [g]; exact SimG.oof_right _
    · simp only [g1, g2, Res.forget_fail]; exact SimG.fail_fail _
    · simp only [g1, g2, Res.forget_ok]
      refine SimG.ok_ok.mpr ⟨rfl, rfl, fun ha => ?_⟩
      exact rule_tokens' pg k pr name hpr hk am ha _ _ _ .span hem v ts [] (Or.inr ⟨rfl, rfl⟩)
        (htok _ i1 m1 v ts g1 g2 g3 ha)
  | both =>
    simp only []
    rcases (hb { m with trk := m.trk.enter (k+1) i.pos } rfl).cases with
      g | g | ⟨mf, g1, g2⟩ | ⟨i1, m1, v, ts, g1, g2, g3⟩
    · simp only [g]; exact SimG.oof_left _
    · simp only [g]; exact SimG.oof_right _
    · simp only [g1, g2]; exact SimG.fail_fail _
    · simp only [g1, g2]
      refine SimG.ok_ok.mpr ⟨rfl, rfl, fun ha => ?_⟩
      exact rule_tokens' pg k pr name hpr hk am ha _ _ _ .both hem v ts [v] (Or.inl ⟨by simp, rfl⟩)
        (htok _ i1 m1 v ts g1 g2 g3 ha)

/-- `EOI` (not shadowed by a rule of the grammar): rule 0 of the generated module against
`state.rule(Rule::EOI, |s| s.end_of_input())`. -/
theorem eoi_simT (pg : PGrammar) (uni : Uni) (n : Nat) (inh : Bool) (am : Atom3) (i : Inp) (m : M) :
    SimG pg am (tokens (gen pg)) [] (parse (gen pg) uni n inh (builtinNode "EOI") i m)
      (specTokBuiltin uni am "EOI" i m.stk) := by
  have hb : builtinNode "EOI" = .ref 0 .one := by simp [builtinNode]
  have hrule : (gen pg).rule? 0 = some eoiDef := rfl
  have hsb : specBuiltin uni "EOI" i m.stk = if i.atEnd then .ok i m.stk else .fail := by
    simp [specBuiltin]
  rw [hb]
  unfold specTokBuiltin
  rw [hsb]
  cases n with
  | zero => exact SimG.oof_left _
  | succ n =>
    simp only [parse, hrule, eoiDef]
    cases n with
    | zero => exact SimG.oof_left _
    | succ n =>
      simp only [parse]
      cases i.atEnd with
      | false => exact SimG.fail_fail _
      | true =>
        simp only [if_true]
        refine SimG.ok_ok.mpr ⟨rfl, rfl, fun ha => ?_⟩
        simp [tokens, hasContentPairs, hrule, ha, pruneAtomic, pruneAtomicTok, PGrammar.isAtomicId]

/-- Built-in aliases against `specTokBuiltin`. -/
theorem builtin_simT (pg : PGrammar) (uni : Uni) (name : String) (n : Nat) (inh : Bool) (am : Atom3) (i : Inp)
    (m : M) :
    SimG pg am (tokens (gen pg)) [] (parse (gen pg) uni n inh (builtinNode name) i m)
      (specTokBuiltin uni am name i m.stk) := by
  by_cases hne : name = "EOI"
  · subst hne; exact eoi_simT pg uni n inh am i m
  · have hc := builtin_compat (gen pg) uni name hne n inh i m
    have ht := parse_simple_tokens (gen pg) uni n inh (builtinNode name) (builtinNode_simple name hne) i m
    unfold specTokBuiltin
    cases hp : parse (gen pg) uni n inh (builtinNode name) i m with
    | oof => exact SimG.oof_left _
    | fail mf =>
      rw [hp] at hc
      cases hs : specBuiltin uni name i m.stk with
      | oof => exact SimG.oof_right _
      | fail => exact SimG.fail_fail _
      | ok j S => rw [hs] at hc; simp [Compat] at hc
    | ok i1 m1 v =>
      rw [hp] at hc
      cases hs : specBuiltin uni name i m.stk with
      | oof => exact SimG.oof_right _
      | fail => rw [hs] at hc; simp [Compat] at hc
      | ok j S =>
        rw [hs] at hc
        simp only [Compat] at hc
        obtain ⟨e1, e2⟩ := hc
        subst e1 e2
        simp only []
        refine SimG.ok_ok.mpr ⟨rfl, rfl, fun _ => ?_⟩
        rw [ht _ _ _ hp]
        simp [hne, pruneAtomic]

/-- An identifier: a rule of the grammar (any kind; for the skip names no relation between flag
and atomicity is needed) or a built-in. -/
theorem ident_simT {pg : PGrammar} {uni : Uni} {n : Nat} (hws : SkipRulesAtomicLike pg) (hP : TokSim pg uni n)
    (N : Nat) (name : String) (sk : Flag) (inh : Bool) (am : Atom3) (i : Inp) (m : M)
    (hcond : sk.eval inh = am.na ∨ (name = "WHITESPACE" ∨ name = "COMMENT")) :
    SimG pg am (tokens (gen pg)) [] (parse (gen pg) uni (n+1) inh (genExpr pg sk (.ident name)) i m)
      (specTok pg uni N am (.ident name) i m.stk) := by
  cases N with
  | zero => exact SimG.oof_right _
  | succ N =>
    cases hk : pg.indexOf name with
    | none =>
      have hfind : pg.find? name = none := by simp [PGrammar.find?, hk]
      simp only [genExpr, hk, specTok, hfind]
      exact builtin_simT pg uni name (n+1) inh am i m
    | some k =>
      obtain ⟨pr, hpr, _⟩ := indexOf_some pg name k hk
      have hfind : pg.find? name = some pr := by simp [PGrammar.find?, hk, hpr]
      simp only [genExpr, hk]
      by_cases hA : pr.kind = .atomic ∨ pr.kind = .compoundAtomic
      · -- `@` / `$`: the body runs with skipping off on both sides
        refine ident_core hP N name k pr hk hpr sk inh am i m (atomFlag (kindAtomicity pr.kind)) rfl ?_
          (fun _ _ _ _ _ _ _ _ _ => Or.inl hA)
        rcases hA with hA | hA <;> simp [hA, kindAtomicity, atomFlag, Flag.eval, bodyAt, Atom3.na]
      · by_cases hsn : name = "WHITESPACE" ∨ name = "COMMENT"
        · -- a skip rule that is not `@` / `$`: its body is simple
          have hsimple : SimpleSkipBody pg pr.expr := by
            rcases hws name pr hsn hfind with h | h
            · exact absurd h hA
            · exact h
          obtain ⟨s1, _, s3, _⟩ := genExpr_simple pg (atomFlag (kindAtomicity pr.kind)) .zero pr.expr hsimple
          obtain ⟨z1, _, _, _⟩ := genExpr_simple pg .zero .zero pr.expr hsimple
          refine ident_core hP N name k pr hk hpr sk inh am i m .zero s3 ?_ ?_
          · cases hkind : pr.kind <;> simp [bodyAt, hsn, Flag.eval, Atom3.na]
          · intro m0 i' m' v ts hp hs _ _
            right
            rw [parse_simple_tokens (gen pg) uni n _ _ z1 _ _ _ _ _ hp,
              specTok_simple_tokens pg uni pr.expr hsimple _ _ _ _ _ _ _ hs]
            simp [pruneAtomic]
        · -- an ordinary rule
          have hsk : sk.eval inh = am.na := by
            rcases hcond with h | h
            · exact h
            · exact absurd h hsn
          refine ident_core hP N name k pr hk hpr sk inh am i m (atomFlag (kindAtomicity pr.kind)) rfl ?_ ?_
          · rw [hsk]
            cases hkind : pr.kind <;> simp [bodyAt, hsn, kindAtomicity, atomFlag, Flag.eval, Atom3.na]
          · intro m0 i' m' v ts hp hs hv ha
            cases hkind : pr.kind with
            | atomic => exact Or.inl (Or.inl rfl)
            | compoundAtomic => exact Or.inl (Or.inr rfl)
            | normal =>
              right
              rw [hkind] at hv
              simpa using hv (by simpa [bodyAt, hsn] using ha)
            | silent =>
              right
              rw [hkind] at hv
              simpa using hv (by simpa [bodyAt, hsn] using ha)
            | nonAtomic =>
              right
              rw [hkind] at hv
              simpa using hv (by simp [bodyAt, hsn])

/-! ### the main induction -/

theorem tokSim_zero (pg : PGrammar) (uni : Uni) : TokSim pg uni 0 :=
  fun _ _ _ _ _ _ _ _ => SimG.oof_left _

theorem identSkip_of {pg : PGrammar} {uni : Uni} (hws : SkipRulesAtomicLike pg) {n : Nat}
    (hS : ∀ k, k ≤ n → TokSim pg uni k) : ∀ k, k ≤ n + 1 → IdentSkip pg uni k := by
  intro k hk N nm hnm sk inh am i m
  cases k with
  | zero => exact SimG.oof_left _
  | succ k => exact ident_simT hws (hS k (by omega)) N nm sk inh am i m (Or.inr hnm)

theorem tokSim_step {pg : PGrammar} {uni : Uni} (hws : SkipRulesAtomicLike pg) (n : Nat)
    (hS : ∀ k, k ≤ n → TokSim pg uni k) : TokSim pg uni (n+1) := by
  have hSn := hS n (Nat.le_refl _)
  have hI : ∀ k, k ≤ n → IdentSkip pg uni k := fun k hk => identSkip_of hws hS k (by omega)
  intro N e
  induction e generalizing N with
  | str s =>
    intro sk inh am i m _
    cases N with
    | zero => exact SimG.oof_right _
    | succ N =>
      simp only [genExpr, parse, specTok]
      cases i.matchString s with
      | none => exact SimG.fail_fail _
      | some i' => exact SimG.ok_ok.mpr ⟨rfl, rfl, fun _ => by simp [tokens, tokensList, Val.leaf, pruneAtomic]⟩
  | insens s =>
    intro sk inh am i m _
    cases N with
    | zero => exact SimG.oof_right _
    | succ N =>
      simp only [genExpr, parse, specTok]
      cases i.matchInsens s with
      | none => exact SimG.fail_fail _
      | some i' => exact SimG.ok_ok.mpr ⟨rfl, rfl, fun _ => by simp [tokens, tokensList, Val.leaf, pruneAtomic]⟩
  | range lo hi =>
    intro sk inh am i m _
    cases N with
    | zero => exact SimG.oof_right _
    | succ N =>
      simp only [genExpr, parse, specTok]
      cases i.matchRange lo hi with
      | none => exact SimG.fail_fail _
      | some p =>
        obtain ⟨i', c⟩ := p
        exact SimG.ok_ok.mpr ⟨rfl, rfl, fun _ => by simp [tokens, tokensList, Val.leaf, pruneAtomic]⟩
  | ident name =>
    intro sk inh am i m hsk
    exact ident_simT hws hSn N name sk inh am i m (Or.inl hsk)
  | peekSlice a b =>
    intro sk inh am i m _
    cases N with
    | zero => exact SimG.oof_right _
    | succ N =>
      simp only [genExpr, parse, specTok]
      cases constrainIdxs a b m.stk.length with
      | none => exact SimG.fail_fail _
      | some p =>
        obtain ⟨lo, hi⟩ := p
        simp only []
        by_cases hle : hi ≤ lo
        · simp only [hle, if_true]
          exact SimG.ok_ok.mpr ⟨rfl, rfl, fun _ => by simp [tokens, tokensList, Val.leaf, pruneAtomic]⟩
        · simp only [hle, if_false]
          cases peekSpans (stackSlice m.stk lo hi) i with
          | none => exact SimG.fail_fail _
          | some i' =>
            exact SimG.ok_ok.mpr ⟨rfl, rfl, fun _ => by simp [tokens, tokensList, Val.leaf, pruneAtomic]⟩
  | posPred x _ =>
    intro sk inh am i m hsk
    cases N with
    | zero => exact SimG.oof_right _
    | succ N =>
      simp only [genExpr, parse, specTok]
      have hb : SimG pg am (tokens (gen pg)) []
          (parse (gen pg) uni n inh (genExpr pg sk x) i { m with trk := { m.trk with positive := true } })
          (specTok pg uni N am x i m.stk) := hSn N x sk inh am i _ hsk
      rcases hb.cases with g | g | ⟨mf, g1, g2⟩ | ⟨i1, m1, v, ts, g1, g2, g3⟩
      · simp only [g]; exact SimG.oof_left _
      · simp only [g]; exact SimG.oof_right _
      · simp only [g1, g2]; exact SimG.fail_fail _
      · simp only [g1, g2]
        exact SimG.ok_ok.mpr ⟨rfl, rfl, fun _ => by simp [tokens, pruneAtomic]⟩
  | negPred x _ =>
    intro sk inh am i m hsk
    cases N with
    | zero => exact SimG.oof_right _
    | succ N =>
      simp only [genExpr, parse, specTok, check_eq_parse_forget]
      have hb : SimG pg am (tokens (gen pg)) []
          (parse (gen pg) uni n inh (genExpr pg sk x) i { m with trk := { m.trk with positive := false } })
          (specTok pg uni N am x i m.stk) := hSn N x sk inh am i _ hsk
      rcases hb.cases with g | g | ⟨mf, g1, g2⟩ | ⟨i1, m1, v, ts, g1, g2, g3⟩
      · simp only [g, Res.forget_oof]; exact SimG.oof_left _
      · simp only [g]; exact SimG.oof_right _
      · simp only [g1, g2, Res.forget_fail]
        exact SimG.ok_ok.mpr ⟨rfl, rfl, fun _ => by simp [tokens, Val.leaf, pruneAtomic]⟩
      · simp only [g1, g2, Res.forget_ok]; exact SimG.fail_fail _
  | seq a b _ _ =>
    intro sk inh am i m hsk
    cases N with
    | zero => exact SimG.oof_right _
    | succ N =>
      rw [specTok_seq_eq]
      simp only [genExpr, parse]
      rcases (hSn N a sk inh am i m hsk).cases with g | g | ⟨mf, g1, g2⟩ | ⟨i1, m1, v0, t1, g1, g2, g3⟩
      · simp only [g]; exact SimG.oof_left _
      · simp only [g, STR.bind]; exact SimG.oof_right _
      · simp only [g1, g2, STR.bind]; exact SimG.fail_fail _
      · simp only [g1, g2, STR.bind]
        have hl := seqSpine_simT hSn hI hsk b N i1 m1 [] [] (fun _ => rfl)
        rcases hl.cases with h | h | ⟨mf, h1, h2⟩ | ⟨i2, m2, vs, t2, h1, h2, h3⟩
        · simp only [h]; exact SimG.oof_left _
        · simp only [h, STR.pre]; exact SimG.oof_right _
        · simp only [h1, h2, STR.pre]; exact SimG.fail_fail _
        · simp only [h1, h2, STR.pre]
          refine SimG.ok_ok.mpr ⟨rfl, rfl, fun ha => ?_⟩
          have e1 := g3 ha
          have e2 := h3 ha
          simp only [List.nil_append] at e1 e2
          simp [tokens, tokensList, tokens_mkSkipped,
            tokensList_replicate_nil (gen pg) _ (tokens_defaultSkipVal (gen pg)), e1, e2, pruneAtomic_append]
  | choice a b _ _ =>
    intro sk inh am i m hsk
    simp only [genExpr, parse]
    have hc := choiceSpine_simT hSn hsk (.choice a b) N 0 i m
    simp only [genChoiceSpine] at hc
    rcases hc.cases with h | h | ⟨mf, h1, h2⟩ | ⟨i2, m2, kv, ts, h1, h2, h3⟩
    · simp only [h]; exact SimG.oof_left _
    · rw [h]; exact SimG.oof_right _
    · simp only [h1, h2]; exact SimG.fail_fail _
    · obtain ⟨k, v⟩ := kv
      simp only [h1, h2]
      refine SimG.ok_ok.mpr ⟨rfl, rfl, fun ha => ?_⟩
      simpa [tokens, tokensList] using h3 ha
  | opt x _ =>
    intro sk inh am i m hsk
    cases N with
    | zero => exact SimG.oof_right _
    | succ N =>
      simp only [genExpr, parse, specTok]
      rcases (hSn N x sk inh am i m hsk).cases with g | g | ⟨mf, g1, g2⟩ | ⟨i1, m1, v, ts, g1, g2, g3⟩
      · simp only [g, restoreOnNone]; exact SimG.oof_left _
      · simp only [g]; exact SimG.oof_right _
      · simp only [g1, g2, restoreOnNone]
        exact SimG.ok_ok.mpr ⟨rfl, rfl, fun _ => by simp [tokens, tokensList, Val.leaf, pruneAtomic]⟩
      · simp only [g1, g2, restoreOnNone]
        refine SimG.ok_ok.mpr ⟨rfl, rfl, fun ha => ?_⟩
        simpa [tokens, tokensList] using g3 ha
  | rep x _ =>
    intro sk inh am i m hsk
    cases N with
    | zero => exact SimG.oof_right _
    | succ N =>
      simp only [genExpr, specTok]
      exact rep_simT hSn hI hsk x _ _ N i m
  | repOnce x _ =>
    intro sk inh am i m hsk
    cases N with
    | zero => exact SimG.oof_right _
    | succ N =>
      simp only [genExpr, specTok]
      exact rep_simT hSn hI hsk x _ _ N i m
  | repExact x c _ =>
    intro sk inh am i m hsk
    cases N with
    | zero => exact SimG.oof_right _
    | succ N =>
      simp only [genExpr, specTok]
      exact rep_simT hSn hI hsk x _ _ N i m
  | repMin x c _ =>
    intro sk inh am i m hsk
    cases N with
    | zero => exact SimG.oof_right _
    | succ N =>
      simp only [genExpr, specTok]
      exact rep_simT hSn hI hsk x _ _ N i m
  | repMax x c _ =>
    intro sk inh am i m hsk
    cases N with
    | zero => exact SimG.oof_right _
    | succ N =>
      simp only [genExpr, specTok]
      exact rep_simT hSn hI hsk x _ _ N i m
  | repMinMax x c d _ =>
    intro sk inh am i m hsk
    cases N with
    | zero => exact SimG.oof_right _
    | succ N =>
      simp only [genExpr, specTok]
      exact rep_simT hSn hI hsk x _ _ N i m
  | skip needles =>
    intro sk inh am i m _
    cases N with
    | zero => exact SimG.oof_right _
    | succ N =>
      simp only [genExpr, parse, specTok]
      exact SimG.ok_ok.mpr ⟨rfl, rfl, fun _ => by simp [tokens, tokensList, Val.leaf, pruneAtomic]⟩
  | push x _ =>
    intro sk inh am i m hsk
    cases N with
    | zero => exact SimG.oof_right _
    | succ N =>
      simp only [genExpr, parse, specTok]
      rcases (hSn N x sk inh am i m hsk).cases with g | g | ⟨mf, g1, g2⟩ | ⟨i1, m1, v, ts, g1, g2, g3⟩
      · simp only [g]; exact SimG.oof_left _
      · simp only [g]; exact SimG.oof_right _
      · simp only [g1, g2]; exact SimG.fail_fail _
      · simp only [g1, g2]
        refine SimG.ok_ok.mpr ⟨rfl, rfl, fun ha => ?_⟩
        simpa [tokens, tokensList] using g3 ha
  | restoreOnErr x ihx =>
    intro sk inh am i m hsk
    cases N with
    | zero => exact SimG.oof_right _
    | succ N =>
      simp only [genExpr, specTok]
      exact ihx N sk inh am i m hsk

/-- The simulation with tokens, for every typed fuel and every Spec fuel. -/
theorem tokSim_all {pg : PGrammar} {uni : Uni} (hws : SkipRulesAtomicLike pg) : ∀ n, TokSim pg uni n := by
  intro n
  induction n using Nat.strongRecOn with
  | _ n ih =>
    cases n with
    | zero => exact tokSim_zero pg uni
    | succ n => exact tokSim_step hws n (fun k hk => ih k (by omega))

end Tok
end PestTyped
