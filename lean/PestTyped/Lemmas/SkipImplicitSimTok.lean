/-
Lemmas.SkipImplicitSimTok — the token-carrying simulation of C02 (Lemmas/SimTok.lean, `Tok.tokSim_all`) for the
declared-kind token semantics `U.specTok` of Lemmas/SkipImplicitSpec.lean, with NO hypothesis on the grammar:
for every grammar, the typed parser of `gen pg` and `U.specTok pg` are compatible — same verdict, cursor,
stack and, outside `Atomic` contexts, typed tokens = `U.specTok`'s tokens pruned (`U.tokSim_all`).  With
`specTokU_eq_of_implicitOkT` (`U.specTok = specTok` under `ImplicitOkT`) this gives C02 under the weak
hypothesis (Props/C02Implicit.lean).

The text below is the second half of SimTok.lean placed in the namespace `PestTyped.U`, where `specTok`,
`specTokRepWith` resolve to `U.specTok`, `U.specTokRepWith`.  Changes: the implicit skip enters the skip rules
in `CompoundAtomic` mode (`specTokSkipN`, `IdentSkip`: the typed side's `WHITESPACE<0>`), and a reference to a
rule named WHITESPACE / COMMENT is a reference like any other (`ident_simT`; `bodyAt` is `flagAt`).
Generated from SimTok.lean; keep in step with it.
-/
import PestTyped.Lemmas.SkipImplicitSpec
import PestTyped.Lemmas.SimTok
set_option linter.unusedSimpArgs false
set_option linter.unusedVariables false
namespace PestTyped

/-- `SimG` looks at the atomicity only through "`Atomic` or not". -/
theorem SimG.change_am {α} {pg : PGrammar} {am am' : Atom3} {tok : α → List Token} {pre : List Token} {rp : R α}
    {rs : STR} (h : SimG pg am tok pre rp rs) (ha : am' ≠ .atomic → am ≠ .atomic) : SimG pg am' tok pre rp rs := by
  rcases h.cases with h | h | ⟨mf, h1, h2⟩ | ⟨i, m, a, ts, h1, h2, h3⟩
  · rw [h]; exact SimG.oof_left _
  · rw [h]; exact SimG.oof_right _
  · rw [h1, h2]; exact SimG.fail_fail _
  · rw [h1, h2]
    exact SimG.ok_ok.mpr ⟨rfl, rfl, fun ha' => h3 (ha ha')⟩

namespace U
open Tok

/-! ### the Spec side, named -/

/-- pest's implicit skip at fuel `N`. -/
def specTokSkipN (pg : PGrammar) (uni : Uni) (N : Nat) (i : Inp) (S : List Sp) : STR :=
  specTokSkip (specTok pg uni N .compound) (pg.defines "WHITESPACE") (pg.defines "COMMENT") (atomicBudget N) i S

/-- The skip between two elements: runs when non-atomic, nothing otherwise. -/
def specTokSkipIf (pg : PGrammar) (uni : Uni) (N : Nat) (am : Atom3) (i : Inp) (S : List Sp) : STR :=
  if am.na then specTokSkipN pg uni N i S else .ok i S []

/-- "skip (when non-atomic), then `b`", tokens of the skip first. -/
def specTokThen (pg : PGrammar) (uni : Uni) (N : Nat) (am : Atom3) (b : PExpr) (i : Inp) (S : List Sp) : STR :=
  (specTokSkipIf pg uni N am i S).bind (fun i2 S2 t2 => (specTok pg uni N am b i2 S2).pre t2)

theorem specTok_seq_eq (pg : PGrammar) (uni : Uni) (N : Nat) (am : Atom3) (a b : PExpr) (i : Inp) (S : List Sp) :
    specTok pg uni (N+1) am (.seq a b) i S =
      (specTok pg uni N am a i S).bind (fun i1 S1 t1 => (specTokThen pg uni N am b i1 S1).pre t1) := by
  simp only [specTok]
  cases specTok pg uni N am a i S with
  | oof => rfl
  | fail => rfl
  | ok i1 S1 t1 =>
    simp only [STR.bind, specTokThen, specTokSkipIf, specTokSkipN]
    cases hna : am.na with
    | true =>
      simp only [if_true]
      cases specTokSkip (specTok pg uni N .compound) (pg.defines "WHITESPACE") (pg.defines "COMMENT")
          (atomicBudget N) i1 S1 with
      | oof => rfl
      | fail => rfl
      | ok i2 S2 t2 =>
        simp only []
        cases specTok pg uni N am b i2 S2 with
        | oof => rfl
        | fail => rfl
        | ok i3 S3 t3 => simp [STR.pre, List.append_assoc]
    | false =>
      simp only [Bool.false_eq_true, if_false]
      cases specTok pg uni N am b i1 S1 with
      | oof => rfl
      | fail => rfl
      | ok i3 S3 t3 => simp [STR.pre]

theorem specTokRepWith_eq (pg : PGrammar) (uni : Uni) (N : Nat) (am : Atom3) (e : PExpr) (min : Nat)
    (mx : Option Nat) (i : Inp) (S : List Sp) :
    specTokRepWith (specTok pg uni N) N (pg.defines "WHITESPACE") (pg.defines "COMMENT") am e min mx i S =
      specTokRepLoop (fun idx i S => if idx = 0 then specTok pg uni N am e i S else specTokThen pg uni N am e i S)
        min mx N 0 i S [] := by
  unfold specTokRepWith
  congr 1
  funext idx i S
  by_cases h0 : idx = 0
  · simp [h0]
  · simp only [h0, false_or, if_false, specTokThen, specTokSkipIf, specTokSkipN]
    cases hna : am.na with
    | true =>
      simp only [Bool.not_true, Bool.false_eq_true, if_false, if_true]
      cases specTokSkip (specTok pg uni N .compound) (pg.defines "WHITESPACE") (pg.defines "COMMENT")
          (atomicBudget N) i S with
      | oof => rfl
      | fail => rfl
      | ok i1 S1 t1 =>
        simp only [STR.bind]
        cases specTok pg uni N am e i1 S1 <;> simp [STR.pre]
    | false =>
      simp only [Bool.not_false, if_true, Bool.false_eq_true, if_false, STR.bind, STR.pre_nil]

/-! ### the simulation statement -/

/-- The simulation at typed fuel `n` (every Spec fuel): the flag of the typed side means the Spec's
atomicity. -/
def TokSim (pg : PGrammar) (uni : Uni) (n : Nat) : Prop :=
  ∀ (N : Nat) (e : PExpr) (sk : Flag) (inh : Bool) (am : Atom3) (i : Inp) (m : M), sk.eval inh = am.na →
    SimG pg am (tokens (gen pg)) [] (parse (gen pg) uni n inh (genExpr pg sk e) i m)
      (specTok pg uni N am e i m.stk)

/-- References to the skip rules from the implicit skip: the typed side enters them with skipping off
(`sk.eval inh = false`), the declared-kind semantics in `CompoundAtomic` mode; tokens are compared as in
the caller's `NonAtomic` mode. -/
def IdentSkip (pg : PGrammar) (uni : Uni) (n : Nat) : Prop :=
  ∀ (N : Nat) (nm : String), (nm = "WHITESPACE" ∨ nm = "COMMENT") →
    ∀ (sk : Flag) (inh : Bool) (am : Atom3) (i : Inp) (m : M), sk.eval inh = false → am = .nonAtomic →
      SimG pg am (tokens (gen pg)) [] (parse (gen pg) uni n inh (genExpr pg sk (.ident nm)) i m)
        (specTok pg uni N .compound (.ident nm) i m.stk)

/-! ### the implicit skip -/

/-- `AtomicRepeat<X>` against a loop of the token semantics. -/
theorem atomicRepeat_simT (pg : PGrammar) (G : NodeGrammar) (uni : Uni) (n : Nat) (X : Node)
    (uS : Nat → Inp → List Sp → STR)
    (hX : ∀ k, k < n → ∀ idx i m, SimG pg .nonAtomic (tokens G) [] (parse G uni k false X i m) (uS idx i m.stk))
    (bS : Nat) (i : Inp) (m : M) :
    SimG pg .nonAtomic (tokens G) [] (parse G uni n false (.atomicRepeat X) i m)
      (specTokRepLoop uS 0 none bS 0 i m.stk []) := by
  cases n with
  | zero => exact SimG.oof_left _
  | succ n =>
    simp only [parse]
    have hl : SimG pg .nonAtomic (tokensList G) []
        (repLoop (fun _ i m => parse G uni n false X i m) 0 none (atomicBudget n) 0 i
          { m with trk := Tracker.new i } [])
        (specTokRepLoop uS 0 none bS 0 i m.stk []) :=
      Tok.repLoop_sim pg .nonAtomic G (fun _ i m => parse G uni n false X i m) uS
        (fun idx i m => hX n (Nat.lt_succ_self n) idx i m) 0 none (atomicBudget n) bS 0 i
        { m with trk := Tracker.new i } [] [] rfl (fun _ => by simp [tokensList, pruneAtomic])
    rcases hl.cases with h | h | ⟨mf, h1, h2⟩ | ⟨i1, m1, vs, ts, h1, h2, h3⟩
    · simp only [h]; exact SimG.oof_left _
    · simp only [h]; exact SimG.oof_right _
    · simp only [h1, h2]; exact SimG.fail_fail _
    · simp only [h1, h2]
      refine SimG.ok_ok.mpr ⟨rfl, rfl, fun ha => ?_⟩
      have := h3 ha
      simpa [tokens] using this

theorem specTokSkipUnit_W (call : String → Inp → List Sp → STR) (i : Inp) (S : List Sp) :
    specTokSkipUnit call true false i S = call "WHITESPACE" i S := by
  simp only [specTokSkipUnit, if_true]
  cases call "WHITESPACE" i S <;> simp

theorem specTokSkipUnit_C (call : String → Inp → List Sp → STR) (i : Inp) (S : List Sp) :
    specTokSkipUnit call false true i S = call "COMMENT" i S := by
  simp [specTokSkipUnit]

/-- `Skipped` (the four shapes of `genSkipped`) against pest's `(WHITESPACE | COMMENT)*`, with the
tokens of the non-silent skip rules. -/
theorem skipped_simT {pg : PGrammar} {uni : Uni} {n : Nat} (hI : ∀ k, k ≤ n → IdentSkip pg uni k) (N : Nat)
    (i : Inp) (m : M) :
    SimG pg .nonAtomic (tokens (gen pg)) [] (parse (gen pg) uni n false (gen pg).skipped i m)
      (specTokSkipN pg uni N i m.stk) := by
  show SimG pg .nonAtomic (tokens (gen pg)) [] (parse (gen pg) uni n false (genSkipped pg) i m) _
  unfold specTokSkipN
  cases hw : pg.indexOf "WHITESPACE" with
  | none =>
    cases hc : pg.indexOf "COMMENT" with
    | none =>
      have hW : pg.defines "WHITESPACE" = false := by simp [PGrammar.defines, hw]
      have hC : pg.defines "COMMENT" = false := by simp [PGrammar.defines, hc]
      rw [hW, hC, specTokSkip_none]
      simp only [genSkipped, hw, hc]
      cases n with
      | zero => exact SimG.oof_left _
      | succ n =>
        simp only [parse]
        exact SimG.ok_ok.mpr ⟨rfl, rfl, fun _ => by simp [tokens, tokensList, Val.leaf, pruneAtomic]⟩
    | some c =>
      have hW : pg.defines "WHITESPACE" = false := by simp [PGrammar.defines, hw]
      have hC : pg.defines "COMMENT" = true := by simp [PGrammar.defines, hc]
      rw [hW, hC]
      simp only [genSkipped, hw, hc]
      unfold specTokSkip
      refine atomicRepeat_simT pg (gen pg) uni n _ _ ?_ _ i m
      intro k hk idx i m
      rw [specTokSkipUnit_C]
      have := hI k (by omega) N "COMMENT" (Or.inr rfl) .zero false .nonAtomic i m rfl rfl
      simp only [genExpr, hc] at this
      exact this
  | some w =>
    cases hc : pg.indexOf "COMMENT" with
    | none =>
      have hW : pg.defines "WHITESPACE" = true := by simp [PGrammar.defines, hw]
      have hC : pg.defines "COMMENT" = false := by simp [PGrammar.defines, hc]
      rw [hW, hC]
      simp only [genSkipped, hw, hc]
      unfold specTokSkip
      refine atomicRepeat_simT pg (gen pg) uni n _ _ ?_ _ i m
      intro k hk idx i m
      rw [specTokSkipUnit_W]
      have := hI k (by omega) N "WHITESPACE" (Or.inl rfl) .zero false .nonAtomic i m rfl rfl
      simp only [genExpr, hw] at this
      exact this
    | some c =>
      have hW : pg.defines "WHITESPACE" = true := by simp [PGrammar.defines, hw]
      have hC : pg.defines "COMMENT" = true := by simp [PGrammar.defines, hc]
      rw [hW, hC]
      simp only [genSkipped, hw, hc]
      unfold specTokSkip
      refine atomicRepeat_simT pg (gen pg) uni n _ _ ?_ _ i m
      intro k hk idx i m
      cases k with
      | zero => exact SimG.oof_left _
      | succ k =>
        have hWk := hI k (by omega) N "WHITESPACE" (Or.inl rfl) .zero false .nonAtomic i m rfl rfl
        simp only [genExpr, hw] at hWk
        simp only [parse, choiceLoop, specTokSkipUnit, if_true]
        rcases hWk.cases with h | h | ⟨mf, h1, h2⟩ | ⟨i1, m1, v, ts, h1, h2, h3⟩
        · simp only [h, restoreOnNone]; exact SimG.oof_left _
        · simp only [h]; exact SimG.oof_right _
        · simp only [h1, h2, restoreOnNone]
          have hCk : SimG pg .nonAtomic (tokens (gen pg)) []
              (parse (gen pg) uni k false (.ref (c+1) .zero) i { mf with stk := m.stk })
              (specTok pg uni N .compound (.ident "COMMENT") i m.stk) := by
            have := hI k (by omega) N "COMMENT" (Or.inr rfl) .zero false .nonAtomic i { mf with stk := m.stk } rfl rfl
            simp only [genExpr, hc] at this
            exact this
          rcases hCk.cases with g | g | ⟨mf2, g1, g2⟩ | ⟨i2, m2, v2, ts2, g1, g2, g3⟩
          · simp only [g, restoreOnNone]; exact SimG.oof_left _
          · simp only [g]; exact SimG.oof_right _
          · simp only [g1, g2, restoreOnNone]; exact SimG.fail_fail _
          · simp only [g1, g2, restoreOnNone]
            refine SimG.ok_ok.mpr ⟨rfl, rfl, fun ha => ?_⟩
            simpa [tokens, tokensList] using g3 ha
        · simp only [h1, h2, restoreOnNone]
          refine SimG.ok_ok.mpr ⟨rfl, rfl, fun ha => ?_⟩
          simpa [tokens, tokensList] using h3 ha

/-- The `SKIP` runs of the skip type (`SKIP` = 0 or 1) against pest's conditional skip. -/
theorem skipIf_simT {pg : PGrammar} {uni : Uni} {n : Nat} (hI : ∀ k, k ≤ n → IdentSkip pg uni k) {sk : Flag}
    {inh : Bool} {am : Atom3} (hsk : sk.eval inh = am.na) (N : Nat) (i : Inp) (m : M) :
    SimG pg .nonAtomic (tokensList (gen pg)) []
      (skipLoop (parse (gen pg) uni n false (gen pg).skipped) (skipCount sk inh) i m [])
      (specTokSkipIf pg uni N am i m.stk) := by
  unfold specTokSkipIf
  cases hna : am.na with
  | false =>
    rw [hna] at hsk
    simp only [skipCount, hsk, Bool.false_eq_true, if_false, skipLoop]
    exact SimG.ok_ok.mpr ⟨rfl, rfl, fun _ => by simp [tokensList, pruneAtomic]⟩
  | true =>
    rw [hna] at hsk
    simp only [skipCount, hsk, if_true, skipLoop]
    rcases (skipped_simT hI N i m).cases with h | h | ⟨mf, h1, h2⟩ | ⟨i1, m1, v, ts, h1, h2, h3⟩
    · simp only [h]; exact SimG.oof_left _
    · simp only [h]; exact SimG.oof_right _
    · simp only [h1, h2]; exact SimG.fail_fail _
    · simp only [h1, h2]
      refine SimG.ok_ok.mpr ⟨rfl, rfl, fun ha => ?_⟩
      simpa [tokensList] using h3 ha

/-! ### sequences -/

/-- The last element of a sequence spine: skip, element, done. -/
theorem seqLast_simT {pg : PGrammar} {uni : Uni} {n : Nat} (hP : TokSim pg uni n)
    (hI : ∀ k, k ≤ n → IdentSkip pg uni k) {sk : Flag} {inh : Bool} {am : Atom3} (hsk : sk.eval inh = am.na)
    (b : PExpr) (N : Nat) (i : Inp) (m : M) (acc : List Val) (pre : List Token)
    (hacc : am ≠ .atomic → tokensList (gen pg) acc.reverse = pre) :
    SimG pg am (tokensList (gen pg)) pre
      (seqLoop (parse (gen pg) uni n inh)
        (fun i m => skipLoop (parse (gen pg) uni n false (gen pg).skipped) (skipCount sk inh) i m [])
        mkSkipped [genExpr pg sk b] i m acc)
      (specTokThen pg uni N am b i m.stk) := by
  simp only [seqLoop]
  unfold specTokThen
  rcases (skipIf_simT hI hsk N i m).cases with h | h | ⟨mf, h1, h2⟩ | ⟨i2, m2, sks, t2, h1, h2, h3⟩
  · simp only [h]; exact SimG.oof_left _
  · simp only [h, STR.bind]; exact SimG.oof_right _
  · simp only [h1, h2, STR.bind]; exact SimG.fail_fail _
  · simp only [h1, h2, STR.bind]
    rcases (hP N b sk inh am i2 m2 hsk).cases with g | g | ⟨mf, g1, g2⟩ | ⟨i3, m3, v, t3, g1, g2, g3⟩
    · simp only [g]; exact SimG.oof_left _
    · simp only [g, STR.pre]; exact SimG.oof_right _
    · simp only [g1, g2, STR.pre]; exact SimG.fail_fail _
    · simp only [g1, g2, STR.pre]
      refine SimG.ok_ok.mpr ⟨rfl, rfl, fun ha => ?_⟩
      rw [List.reverse_cons, tokensList_append, tokensList_singleton, tokens_mkSkipped, hacc ha,
        h3 (by decide), g3 ha, pruneAtomic_append]
      simp

/-- The flattened right spine of a sequence, run by `seqLoop`, against pest's right-nested binary
evaluation (skip, element, rest), tokens in order. -/
theorem seqSpine_simT {pg : PGrammar} {uni : Uni} {n : Nat} (hP : TokSim pg uni n)
    (hI : ∀ k, k ≤ n → IdentSkip pg uni k) {sk : Flag} {inh : Bool} {am : Atom3} (hsk : sk.eval inh = am.na) :
    ∀ (b : PExpr) (N : Nat) (i : Inp) (m : M) (acc : List Val) (pre : List Token),
      (am ≠ .atomic → tokensList (gen pg) acc.reverse = pre) →
      SimG pg am (tokensList (gen pg)) pre
        (seqLoop (parse (gen pg) uni n inh)
          (fun i m => skipLoop (parse (gen pg) uni n false (gen pg).skipped) (skipCount sk inh) i m [])
          mkSkipped (genSeqSpine pg sk b) i m acc)
        (specTokThen pg uni N am b i m.stk) := by
  intro b
  induction b with
  | seq b1 b2 _ ih2 =>
    intro N i m acc pre hacc
    simp only [genSeqSpine, seqLoop]
    unfold specTokThen
    rcases (skipIf_simT hI hsk N i m).cases with h | h | ⟨mf, h1, h2⟩ | ⟨i2, m2, sks, t2, h1, h2, h3⟩
    · simp only [h]; exact SimG.oof_left _
    · simp only [h, STR.bind]; exact SimG.oof_right _
    · simp only [h1, h2, STR.bind]; exact SimG.fail_fail _
    · simp only [h1, h2, STR.bind]
      cases N with
      | zero => simp only [specTok, STR.pre]; exact SimG.oof_right _
      | succ N =>
        rw [specTok_seq_eq]
        rcases (hP N b1 sk inh am i2 m2 hsk).cases with g | g | ⟨mf, g1, g2⟩ | ⟨i3, m3, v, t3, g1, g2, g3⟩
        · simp only [g]; exact SimG.oof_left _
        · simp only [g, STR.bind, STR.pre]; exact SimG.oof_right _
        · simp only [g1, g2, STR.bind, STR.pre]; exact SimG.fail_fail _
        · simp only [g1, g2, STR.bind]
          apply SimG.pre_shift
          apply SimG.pre_shift
          refine ih2 N i3 m3 _ _ (fun ha => ?_)
          rw [List.reverse_cons, tokensList_append, tokensList_singleton, tokens_mkSkipped, hacc ha,
            h3 (by decide), g3 ha]
          simp
  | _ =>
    intro N i m acc pre hacc
    simp only [genSeqSpine]
    exact seqLast_simT hP hI hsk _ N i m acc pre hacc

/-! ### choices -/

/-- The last alternative of a choice spine. -/
theorem choiceLast_simT {pg : PGrammar} {uni : Uni} {n : Nat} (hP : TokSim pg uni n) {sk : Flag} {inh : Bool}
    {am : Atom3} (hsk : sk.eval inh = am.na) (b : PExpr) (N : Nat) (k0 : Nat) (i : Inp) (m : M) :
    SimG pg am (fun p : Nat × Val => tokens (gen pg) p.2) []
      (choiceLoop (parse (gen pg) uni n inh) [genExpr pg sk b] k0 i m)
      (specTok pg uni N am b i m.stk) := by
  simp only [choiceLoop]
  rcases (hP N b sk inh am i m hsk).cases with h | h | ⟨mf, h1, h2⟩ | ⟨i1, m1, v, ts, h1, h2, h3⟩
  · simp only [h, restoreOnNone]; exact SimG.oof_left _
  · simp only [h]; exact SimG.oof_right _
  · simp only [h1, h2, restoreOnNone]; exact SimG.fail_fail _
  · simp only [h1, h2, restoreOnNone]
    exact SimG.ok_ok.mpr ⟨rfl, rfl, h3⟩

/-- The flattened right spine of a choice, run by `choiceLoop` (each alternative under
`restore_on_none`), against pest's right-nested ordered choice on an immutable stack. -/
theorem choiceSpine_simT {pg : PGrammar} {uni : Uni} {n : Nat} (hP : TokSim pg uni n) {sk : Flag} {inh : Bool}
    {am : Atom3} (hsk : sk.eval inh = am.na) :
    ∀ (b : PExpr) (N : Nat) (k0 : Nat) (i : Inp) (m : M),
      SimG pg am (fun p : Nat × Val => tokens (gen pg) p.2) []
        (choiceLoop (parse (gen pg) uni n inh) (genChoiceSpine pg sk b) k0 i m)
        (specTok pg uni N am b i m.stk) := by
  intro b
  induction b with
  | choice b1 b2 _ ih2 =>
    intro N k0 i m
    cases N with
    | zero => exact SimG.oof_right _
    | succ N =>
      simp only [genChoiceSpine, choiceLoop, specTok]
      rcases (hP N b1 sk inh am i m hsk).cases with h | h | ⟨mf, h1, h2⟩ | ⟨i1, m1, v, ts, h1, h2, h3⟩
      · simp only [h, restoreOnNone]; exact SimG.oof_left _
      · simp only [h]; exact SimG.oof_right _
      · simp only [h1, h2, restoreOnNone]
        exact ih2 N (k0+1) i { mf with stk := m.stk }
      · simp only [h1, h2, restoreOnNone]
        exact SimG.ok_ok.mpr ⟨rfl, rfl, h3⟩
  | _ =>
    intro N k0 i m
    simp only [genChoiceSpine]
    exact choiceLast_simT hP hsk _ N k0 i m

/-! ### repetitions -/

/-- `RepeatMin` / `RepeatMinMax` against pest's `e (skip e)*` with bounds. -/
theorem rep_simT {pg : PGrammar} {uni : Uni} {n : Nat} (hP : TokSim pg uni n)
    (hI : ∀ k, k ≤ n → IdentSkip pg uni k) {sk : Flag} {inh : Bool} {am : Atom3} (hsk : sk.eval inh = am.na)
    (x : PExpr) (min : Nat) (mx : Option Nat) (N : Nat) (i : Inp) (m : M) :
    SimG pg am (tokens (gen pg)) []
      (parse (gen pg) uni (n+1) inh (.rep sk min mx (genExpr pg sk x)) i m)
      (specTokRepWith (specTok pg uni N) N (pg.defines "WHITESPACE") (pg.defines "COMMENT") am x min mx i m.stk) := by
  rw [specTokRepWith_eq]
  simp only [parse]
  have hu : ∀ idx i m, SimG pg am (tokens (gen pg)) []
      (repUnitP (parse (gen pg) uni n false (gen pg).skipped) (parse (gen pg) uni n inh (genExpr pg sk x))
        (defaultSkipVal (gen pg)) (skipCount sk inh) idx i m)
      ((fun idx i S => if idx = 0 then specTok pg uni N am x i S else specTokThen pg uni N am x i S) idx i m.stk) := by
    intro idx i m
    by_cases h0 : idx = 0
    · simp only [h0, if_true, repUnitP]
      rcases (hP N x sk inh am i m hsk).cases with g | g | ⟨mf, g1, g2⟩ | ⟨i3, m3, v, t3, g1, g2, g3⟩
      · simp only [g]; exact SimG.oof_left _
      · simp only [g]; exact SimG.oof_right _
      · simp only [g1, g2]; exact SimG.fail_fail _
      · simp only [g1, g2]
        refine SimG.ok_ok.mpr ⟨rfl, rfl, fun ha => ?_⟩
        rw [tokens_mkSkipped, tokensList_replicate_nil (gen pg) _ (tokens_defaultSkipVal (gen pg)), g3 ha]
        simp
    · simp only [h0, if_false, repUnitP]
      unfold specTokThen
      rcases (skipIf_simT hI hsk N i m).cases with h | h | ⟨mf, h1, h2⟩ | ⟨i2, m2, sks, t2, h1, h2, h3⟩
      · simp only [h]; exact SimG.oof_left _
      · simp only [h, STR.bind]; exact SimG.oof_right _
      · simp only [h1, h2, STR.bind]; exact SimG.fail_fail _
      · simp only [h1, h2, STR.bind]
        rcases (hP N x sk inh am i2 m2 hsk).cases with g | g | ⟨mf, g1, g2⟩ | ⟨i3, m3, v, t3, g1, g2, g3⟩
        · simp only [g]; exact SimG.oof_left _
        · simp only [g, STR.pre]; exact SimG.oof_right _
        · simp only [g1, g2, STR.pre]; exact SimG.fail_fail _
        · simp only [g1, g2, STR.pre]
          refine SimG.ok_ok.mpr ⟨rfl, rfl, fun ha => ?_⟩
          rw [tokens_mkSkipped, h3 (by decide), g3 ha, pruneAtomic_append]
          simp
  have hloop := Tok.repLoop_sim pg am (gen pg)
    (repUnitP (parse (gen pg) uni n false (gen pg).skipped) (parse (gen pg) uni n inh (genExpr pg sk x))
      (defaultSkipVal (gen pg)) (skipCount sk inh))
    (fun idx i S => if idx = 0 then specTok pg uni N am x i S else specTokThen pg uni N am x i S)
    hu min mx n N 0 i m [] [] rfl (fun _ => by simp [tokensList, pruneAtomic])
  rcases hloop.cases with h | h | ⟨mf, h1, h2⟩ | ⟨i1, m1, vs, ts, h1, h2, h3⟩
  · simp only [h]; exact SimG.oof_left _
  · simp only [h]; exact SimG.oof_right _
  · simp only [h1, h2]; exact SimG.fail_fail _
  · simp only [h1, h2]
    refine SimG.ok_ok.mpr ⟨rfl, rfl, fun ha => ?_⟩
    simpa [tokens] using h3 ha

/-! ### rule references -/

/-- The token(s) of a rule value against what `ParserState::rule` emits, after pruning; the children
matter only for rules that are neither `@` nor `$`. -/
theorem rule_tokens' (pg : PGrammar) (k : Nat) (pr : PRule) (name : String) (hpr : pg[k]? = some pr)
    (hk : pg.indexOf name = some k) (am : Atom3) (ha : am ≠ .atomic) (s e : Nat) (boxed : Bool) (emit : Emission)
    (hem : kindEmission pr.kind = emit) (v : Val) (ts : List Token) (kids : List Val)
    (hkids : (emit ≠ .span ∧ kids = [v]) ∨ (emit = .span ∧ kids = []))
    (hv : (pr.kind = .atomic ∨ pr.kind = .compoundAtomic) ∨ tokens (gen pg) v = pruneAtomic pg ts) :
    tokens (gen pg) (.mk (.rule (k+1) emit boxed s e) kids) =
      [] ++ pruneAtomic pg (if emitsToken pr.kind am then [.mk (pg.ruleId name) s e ts] else ts) := by
  have hc := hasContentPairs_gen pg k pr hpr
  have hid : pg.ruleId name = k + 1 := by simp [PGrammar.ruleId, hk]
  have hat : pg.isAtomicId (k+1) = (pr.kind == .atomic || pr.kind == .compoundAtomic) := by
    simp [PGrammar.isAtomicId, hpr]
  rw [hat] at hc
  subst hem
  simp only [List.nil_append]
  cases hkind : pr.kind <;> rw [hkind] at hc hat hv hkids <;>
    cases am <;> simp_all [tokens, tokensList, kindEmission, emitsToken, ruleCallAt, pruneAtomic, pruneAtomicTok]

/-- A reference to a rule of the grammar, given the simulation of its body under a `#skip` token
`sk2` that means the atomicity pest runs the body in. -/
theorem ident_core {pg : PGrammar} {uni : Uni} {n : Nat} (hP : TokSim pg uni n) (N : Nat) (name : String)
    (k : Nat) (pr : PRule) (hk : pg.indexOf name = some k) (hpr : pg[k]? = some pr) (sk : Flag) (inh : Bool)
    (am : Atom3) (i : Inp) (m : M) (sk2 : Flag)
    (hbody : genExpr pg (atomFlag (kindAtomicity pr.kind)) pr.expr = genExpr pg sk2 pr.expr)
    (hfl : sk2.eval (sk.eval inh) = (flagAt pr.kind am).na)
    (htok : ∀ (m0 : M) (i' : Inp) (m' : M) (v : Val) (ts : List Token),
      parse (gen pg) uni n (sk.eval inh) (genExpr pg sk2 pr.expr) i m0 = .ok i' m' v →
      specTok pg uni N (flagAt pr.kind am) pr.expr i m.stk = .ok i' m'.stk ts →
      (flagAt pr.kind am ≠ .atomic → tokens (gen pg) v = [] ++ pruneAtomic pg ts) → am ≠ .atomic →
      (pr.kind = .atomic ∨ pr.kind = .compoundAtomic) ∨ tokens (gen pg) v = pruneAtomic pg ts) :
    SimG pg am (tokens (gen pg)) [] (parse (gen pg) uni (n+1) inh (.ref (k+1) sk) i m)
      (specTok pg uni (N+1) am (.ident name) i m.stk) := by
  have hfind : pg.find? name = some pr := by simp [PGrammar.find?, hk, hpr]
  have hrule : (gen pg).rule? (k+1) =
      some ⟨pr.name, kindAtomicity pr.kind, kindEmission pr.kind, true, genExpr pg sk2 pr.expr⟩ := by
    rw [← hbody]; simp [NodeGrammar.rule?, gen, hpr, genRule]
  have hb : ∀ m0 : M, m0.stk = m.stk →
      SimG pg (flagAt pr.kind am) (tokens (gen pg)) []
        (parse (gen pg) uni n (sk.eval inh) (genExpr pg sk2 pr.expr) i m0)
        (specTok pg uni N (flagAt pr.kind am) pr.expr i m.stk) := by
    intro m0 h0
    rw [← h0]
    exact hP N pr.expr sk2 (sk.eval inh) _ i m0 hfl
  simp only [parse, hrule, specTok, hfind]
  cases hem : kindEmission pr.kind with
  | expression =>
    simp only []
    rcases (hb m rfl).cases with g | g | ⟨mf, g1, g2⟩ | ⟨i1, m1, v, ts, g1, g2, g3⟩
    · simp only [g]; exact SimG.oof_left _
    · simp only [g]; exact SimG.oof_right _
    · simp only [g1, g2]; exact SimG.fail_fail _
    · simp only [g1, g2]
      refine SimG.ok_ok.mpr ⟨rfl, rfl, fun ha => ?_⟩
      exact rule_tokens' pg k pr name hpr hk am ha _ _ _ .expression hem v ts [v] (Or.inl ⟨by simp, rfl⟩)
        (htok m i1 m1 v ts g1 g2 g3 ha)
  | span =>
    simp only [check_eq_parse_forget]
    rcases (hb { m with trk := m.trk.enter (k+1) i.pos } rfl).cases with
      g | g | ⟨mf, g1, g2⟩ | ⟨i1, m1, v, ts, g1, g2, g3⟩
    · simp only [g, Res.forget_oof]; exact SimG.oof_left _
    · simp only [g]; exact SimG.oof_right _
    · simp only [g1, g2, Res.forget_fail]; exact SimG.fail_fail _
    · simp only [g1, g2, Res.forget_ok]
      refine SimG.ok_ok.mpr ⟨rfl, rfl, fun ha => ?_⟩
      exact rule_tokens' pg k pr name hpr hk am ha _ _ _ .span hem v ts [] (Or.inr ⟨rfl, rfl⟩)
        (htok _ i1 m1 v ts g1 g2 g3 ha)
  | both =>
    simp only []
    rcases (hb { m with trk := m.trk.enter (k+1) i.pos } rfl).cases with
      g | g | ⟨mf, g1, g2⟩ | ⟨i1, m1, v, ts, g1, g2, g3⟩
    · simp only [g]; exact SimG.oof_left _
    · simp only [g]; exact SimG.oof_right _
    · simp only [g1, g2]; exact SimG.fail_fail _
    · simp only [g1, g2]
      refine SimG.ok_ok.mpr ⟨rfl, rfl, fun ha => ?_⟩
      exact rule_tokens' pg k pr name hpr hk am ha _ _ _ .both hem v ts [v] (Or.inl ⟨by simp, rfl⟩)
        (htok _ i1 m1 v ts g1 g2 g3 ha)

/-- `EOI` (not shadowed by a rule of the grammar): rule 0 of the generated module against
`state.rule(Rule::EOI, |s| s.end_of_input())`. -/
theorem eoi_simT (pg : PGrammar) (uni : Uni) (n : Nat) (inh : Bool) (am : Atom3) (i : Inp) (m : M) :
    SimG pg am (tokens (gen pg)) [] (parse (gen pg) uni n inh (builtinNode "EOI") i m)
      (specTokBuiltin uni am "EOI" i m.stk) := by
  have hb : builtinNode "EOI" = .ref 0 .one := by simp [builtinNode]
  have hrule : (gen pg).rule? 0 = some eoiDef := rfl
  have hsb : specBuiltin uni "EOI" i m.stk = if i.atEnd then .ok i m.stk else .fail := by
    simp [specBuiltin]
  rw [hb]
  unfold specTokBuiltin
  rw [hsb]
  cases n with
  | zero => exact SimG.oof_left _
  | succ n =>
    simp only [parse, hrule, eoiDef]
    cases n with
    | zero => exact SimG.oof_left _
    | succ n =>
      simp only [parse]
      cases i.atEnd with
      | false => exact SimG.fail_fail _
      | true =>
        simp only [if_true]
        refine SimG.ok_ok.mpr ⟨rfl, rfl, fun ha => ?_⟩
        simp [tokens, hasContentPairs, hrule, ha, pruneAtomic, pruneAtomicTok, PGrammar.isAtomicId]

/-- Built-in aliases against `specTokBuiltin`. -/
theorem builtin_simT (pg : PGrammar) (uni : Uni) (name : String) (n : Nat) (inh : Bool) (am : Atom3) (i : Inp)
    (m : M) :
    SimG pg am (tokens (gen pg)) [] (parse (gen pg) uni n inh (builtinNode name) i m)
      (specTokBuiltin uni am name i m.stk) := by
  by_cases hne : name = "EOI"
  · subst hne; exact eoi_simT pg uni n inh am i m
  · have hc := builtin_compat (gen pg) uni name hne n inh i m
    have ht := parse_simple_tokens (gen pg) uni n inh (builtinNode name) (builtinNode_simple name hne) i m
    unfold specTokBuiltin
    cases hp : parse (gen pg) uni n inh (builtinNode name) i m with
    | oof => exact SimG.oof_left _
    | fail mf =>
      rw [hp] at hc
      cases hs : specBuiltin uni name i m.stk with
      | oof => exact SimG.oof_right _
      | fail => exact SimG.fail_fail _
      | ok j S => rw [hs] at hc; simp [Compat] at hc
    | ok i1 m1 v =>
      rw [hp] at hc
      cases hs : specBuiltin uni name i m.stk with
      | oof => exact SimG.oof_right _
      | fail => rw [hs] at hc; simp [Compat] at hc
      | ok j S =>
        rw [hs] at hc
        simp only [Compat] at hc
        obtain ⟨e1, e2⟩ := hc
        subst e1 e2
        simp only []
        refine SimG.ok_ok.mpr ⟨rfl, rfl, fun _ => ?_⟩
        rw [ht _ _ _ hp]
        simp [hne, pruneAtomic]

/-- An identifier: a rule of the grammar (any kind, any name: the declared-kind semantics treats the skip
names like every other) or a built-in. -/
theorem ident_simT {pg : PGrammar} {uni : Uni} {n : Nat} (hP : TokSim pg uni n)
    (N : Nat) (name : String) (sk : Flag) (inh : Bool) (am : Atom3) (i : Inp) (m : M)
    (hsk : sk.eval inh = am.na) :
    SimG pg am (tokens (gen pg)) [] (parse (gen pg) uni (n+1) inh (genExpr pg sk (.ident name)) i m)
      (specTok pg uni N am (.ident name) i m.stk) := by
  cases N with
  | zero => exact SimG.oof_right _
  | succ N =>
    cases hk : pg.indexOf name with
    | none =>
      have hfind : pg.find? name = none := by simp [PGrammar.find?, hk]
      simp only [genExpr, hk, specTok, hfind]
      exact builtin_simT pg uni name (n+1) inh am i m
    | some k =>
      obtain ⟨pr, hpr, _⟩ := indexOf_some pg name k hk
      simp only [genExpr, hk]
      refine ident_core hP N name k pr hk hpr sk inh am i m (atomFlag (kindAtomicity pr.kind)) rfl ?_ ?_
      · rw [hsk]
        cases hkind : pr.kind <;> simp [flagAt, kindAtomicity, atomFlag, Flag.eval, Atom3.na]
      · intro m0 i' m' v ts hp hs hv ha
        cases hkind : pr.kind with
        | atomic => exact Or.inl (Or.inl rfl)
        | compoundAtomic => exact Or.inl (Or.inr rfl)
        | normal =>
          right
          rw [hkind] at hv
          simpa using hv (by simpa [flagAt] using ha)
        | silent =>
          right
          rw [hkind] at hv
          simpa using hv (by simpa [flagAt] using ha)
        | nonAtomic =>
          right
          rw [hkind] at hv
          simpa using hv (by simp [flagAt])

/-! ### the main induction -/

theorem tokSim_zero (pg : PGrammar) (uni : Uni) : TokSim pg uni 0 :=
  fun _ _ _ _ _ _ _ _ => SimG.oof_left _

theorem identSkip_of {pg : PGrammar} {uni : Uni} {n : Nat}
    (hS : ∀ k, k ≤ n → TokSim pg uni k) : ∀ k, k ≤ n → IdentSkip pg uni k := by
  intro k hk N nm hnm sk inh am i m hsk ham
  subst ham
  exact (hS k hk N (.ident nm) sk inh .compound i m (by rw [hsk]; rfl)).change_am (by decide)

theorem tokSim_step {pg : PGrammar} {uni : Uni} (n : Nat)
    (hS : ∀ k, k ≤ n → TokSim pg uni k) : TokSim pg uni (n+1) := by
  have hSn := hS n (Nat.le_refl _)
  have hI : ∀ k, k ≤ n → IdentSkip pg uni k := identSkip_of hS
  intro N e
  induction e generalizing N with
  | str s =>
    intro sk inh am i m _
    cases N with
    | zero => exact SimG.oof_right _
    | succ N =>
      simp only [genExpr, parse, specTok]
      cases i.matchString s with
      | none => exact SimG.fail_fail _
      | some i' => exact SimG.ok_ok.mpr ⟨rfl, rfl, fun _ => by simp [tokens, tokensList, Val.leaf, pruneAtomic]⟩
  | insens s =>
    intro sk inh am i m _
    cases N with
    | zero => exact SimG.oof_right _
    | succ N =>
      simp only [genExpr, parse, specTok]
      cases i.matchInsens s with
      | none => exact SimG.fail_fail _
      | some i' => exact SimG.ok_ok.mpr ⟨rfl, rfl, fun _ => by simp [tokens, tokensList, Val.leaf, pruneAtomic]⟩
  | range lo hi =>
    intro sk inh am i m _
    cases N with
    | zero => exact SimG.oof_right _
    | succ N =>
      simp only [genExpr, parse, specTok]
      cases i.matchRange lo hi with
      | none => exact SimG.fail_fail _
      | some p =>
        obtain ⟨i', c⟩ := p
        exact SimG.ok_ok.mpr ⟨rfl, rfl, fun _ => by simp [tokens, tokensList, Val.leaf, pruneAtomic]⟩
  | ident name =>
    intro sk inh am i m hsk
    exact ident_simT hSn N name sk inh am i m hsk
  | peekSlice a b =>
    intro sk inh am i m _
    cases N with
    | zero => exact SimG.oof_right _
    | succ N =>
      simp only [genExpr, parse, specTok]
      cases constrainIdxs a b m.stk.length with
      | none => exact SimG.fail_fail _
      | some p =>
        obtain ⟨lo, hi⟩ := p
        simp only []
        by_cases hle : hi ≤ lo
        · simp only [hle, if_true]
          exact SimG.ok_ok.mpr ⟨rfl, rfl, fun _ => by simp [tokens, tokensList, Val.leaf, pruneAtomic]⟩
        · simp only [hle, if_false]
          cases peekSpans (stackSlice m.stk lo hi) i with
          | none => exact SimG.fail_fail _
          | some i' =>
            exact SimG.ok_ok.mpr ⟨rfl, rfl, fun _ => by simp [tokens, tokensList, Val.leaf, pruneAtomic]⟩
  | posPred x _ =>
    intro sk inh am i m hsk
    cases N with
    | zero => exact SimG.oof_right _
    | succ N =>
      simp only [genExpr, parse, specTok]
      have hb : SimG pg am (tokens (gen pg)) []
          (parse (gen pg) uni n inh (genExpr pg sk x) i { m with trk := { m.trk with positive := true } })
          (specTok pg uni N am x i m.stk) := hSn N x sk inh am i _ hsk
      rcases hb.cases with g | g | ⟨mf, g1, g2⟩ | ⟨i1, m1, v, ts, g1, g2, g3⟩
      · simp only [g]; exact SimG.oof_left _
      · simp only [g]; exact SimG.oof_right _
      · simp only [g1, g2]; exact SimG.fail_fail _
      · simp only [g1, g2]
        exact SimG.ok_ok.mpr ⟨rfl, rfl, fun _ => by simp [tokens, pruneAtomic]⟩
  | negPred x _ =>
    intro sk inh am i m hsk
    cases N with
    | zero => exact SimG.oof_right _
    | succ N =>
      simp only [genExpr, parse, specTok, check_eq_parse_forget]
      have hb : SimG pg am (tokens (gen pg)) []
          (parse (gen pg) uni n inh (genExpr pg sk x) i { m with trk := { m.trk with positive := false } })
          (specTok pg uni N am x i m.stk) := hSn N x sk inh am i _ hsk
      rcases hb.cases with g | g | ⟨mf, g1, g2⟩ | ⟨i1, m1, v, ts, g1, g2, g3⟩
      · simp only [g, Res.forget_oof]; exact SimG.oof_left _
      · simp only [g]; exact SimG.oof_right _
      · simp only [g1, g2, Res.forget_fail]
        exact SimG.ok_ok.mpr ⟨rfl, rfl, fun _ => by simp [tokens, Val.leaf, pruneAtomic]⟩
      · simp only [g1, g2, Res.forget_ok]; exact SimG.fail_fail _
  | seq a b _ _ =>
    intro sk inh am i m hsk
    cases N with
    | zero => exact SimG.oof_right _
    | succ N =>
      rw [specTok_seq_eq]
      simp only [genExpr, parse]
      rcases (hSn N a sk inh am i m hsk).cases with g | g | ⟨mf, g1, g2⟩ | ⟨i1, m1, v0, t1, g1, g2, g3⟩
      · simp only [g]; exact SimG.oof_left _
      · simp only [g, STR.bind]; exact SimG.oof_right _
      · simp only [g1, g2, STR.bind]; exact SimG.fail_fail _
      · simp only [g1, g2, STR.bind]
        have hl := seqSpine_simT hSn hI hsk b N i1 m1 [] [] (fun _ => rfl)
        rcases hl.cases with h | h | ⟨mf, h1, h2⟩ | ⟨i2, m2, vs, t2, h1, h2, h3⟩
        · simp only [h]; exact SimG.oof_left _
        · simp only [h, STR.pre]; exact SimG.oof_right _
        · simp only [h1, h2, STR.pre]; exact SimG.fail_fail _
        · simp only [h1, h2, STR.pre]
          refine SimG.ok_ok.mpr ⟨rfl, rfl, fun ha => ?_⟩
          have e1 := g3 ha
          have e2 := h3 ha
          simp only [List.nil_append] at e1 e2
          simp [tokens, tokensList, tokens_mkSkipped,
            tokensList_replicate_nil (gen pg) _ (tokens_defaultSkipVal (gen pg)), e1, e2, pruneAtomic_append]
  | choice a b _ _ =>
    intro sk inh am i m hsk
    simp only [genExpr, parse]
    have hc := choiceSpine_simT hSn hsk (.choice a b) N 0 i m
    simp only [genChoiceSpine] at hc
    rcases hc.cases with h | h | ⟨mf, h1, h2⟩ | ⟨i2, m2, kv, ts, h1, h2, h3⟩
    · simp only [h]; exact SimG.oof_left _
    · rw [h]; exact SimG.oof_right _
    · simp only [h1, h2]; exact SimG.fail_fail _
    · obtain ⟨k, v⟩ := kv
      simp only [h1, h2]
      refine SimG.ok_ok.mpr ⟨rfl, rfl, fun ha => ?_⟩
      simpa [tokens, tokensList] using h3 ha
  | opt x _ =>
    intro sk inh am i m hsk
    cases N with
    | zero => exact SimG.oof_right _
    | succ N =>
      simp only [genExpr, parse, specTok]
      rcases (hSn N x sk inh am i m hsk).cases with g | g | ⟨mf, g1, g2⟩ | ⟨i1, m1, v, ts, g1, g2, g3⟩
      · simp only [g, restoreOnNone]; exact SimG.oof_left _
      · simp only [g]; exact SimG.oof_right _
      · simp only [g1, g2, restoreOnNone]
        exact SimG.ok_ok.mpr ⟨rfl, rfl, fun _ => by simp [tokens, tokensList, Val.leaf, pruneAtomic]⟩
      · simp only [g1, g2, restoreOnNone]
        refine SimG.ok_ok.mpr ⟨rfl, rfl, fun ha => ?_⟩
        simpa [tokens, tokensList] using g3 ha
  | rep x _ =>
    intro sk inh am i m hsk
    cases N with
    | zero => exact SimG.oof_right _
    | succ N =>
      simp only [genExpr, specTok]
      exact rep_simT hSn hI hsk x _ _ N i m
  | repOnce x _ =>
    intro sk inh am i m hsk
    cases N with
    | zero => exact SimG.oof_right _
    | succ N =>
      simp only [genExpr, specTok]
      exact rep_simT hSn hI hsk x _ _ N i m
  | repExact x c _ =>
    intro sk inh am i m hsk
    cases N with
    | zero => exact SimG.oof_right _
    | succ N =>
      simp only [genExpr, specTok]
      exact rep_simT hSn hI hsk x _ _ N i m
  | repMin x c _ =>
    intro sk inh am i m hsk
    cases N with
    | zero => exact SimG.oof_right _
    | succ N =>
      simp only [genExpr, specTok]
      exact rep_simT hSn hI hsk x _ _ N i m
  | repMax x c _ =>
    intro sk inh am i m hsk
    cases N with
    | zero => exact SimG.oof_right _
    | succ N =>
      simp only [genExpr, specTok]
      exact rep_simT hSn hI hsk x _ _ N i m
  | repMinMax x c d _ =>
    intro sk inh am i m hsk
    cases N with
    | zero => exact SimG.oof_right _
    | succ N =>
      simp only [genExpr, specTok]
      exact rep_simT hSn hI hsk x _ _ N i m
  | skip needles =>
    intro sk inh am i m _
    cases N with
    | zero => exact SimG.oof_right _
    | succ N =>
      simp only [genExpr, parse, specTok]
      exact SimG.ok_ok.mpr ⟨rfl, rfl, fun _ => by simp [tokens, tokensList, Val.leaf, pruneAtomic]⟩
  | push x _ =>
    intro sk inh am i m hsk
    cases N with
    | zero => exact SimG.oof_right _
    | succ N =>
      simp only [genExpr, parse, specTok]
      rcases (hSn N x sk inh am i m hsk).cases with g | g | ⟨mf, g1, g2⟩ | ⟨i1, m1, v, ts, g1, g2, g3⟩
      · simp only [g]; exact SimG.oof_left _
      · simp only [g]; exact SimG.oof_right _
      · simp only [g1, g2]; exact SimG.fail_fail _
      · simp only [g1, g2]
        refine SimG.ok_ok.mpr ⟨rfl, rfl, fun ha => ?_⟩
        simpa [tokens, tokensList] using g3 ha
  | restoreOnErr x ihx =>
    intro sk inh am i m hsk
    cases N with
    | zero => exact SimG.oof_right _
    | succ N =>
      simp only [genExpr, specTok]
      exact ihx N sk inh am i m hsk

/-- The simulation with tokens, for every typed fuel and every Spec fuel. -/
theorem tokSim_all {pg : PGrammar} {uni : Uni} : ∀ n, TokSim pg uni n := by
  intro n
  induction n using Nat.strongRecOn with
  | _ n ih =>
    cases n with
    | zero => exact tokSim_zero pg uni
    | succ n => exact tokSim_step n (fun k hk => ih k (by omega))


end U
end PestTyped
