/-
Lemmas.TokensLemmas — declarative enumerations of a `Token` tree (depth-first with depths,
levels, rendering), the loop invariants of the queue algorithms of `iterators.rs`
(`preOrderLoop`, `levelOrderLoop`: fuel bounds = termination arguments), `toThin`, and the
span discipline of the tokens of a parse result (`WellNested`).
-/
import PestTyped.Model.Tokens
import PestTyped.Lemmas.CursorRun
namespace PestTyped

/-! ### decidable equality of tokens (nested inductive: no deriving handler) -/

mutual
def Token.decEq : (a b : Token) → Decidable (a = b)
  | .mk r s e k, .mk r' s' e' k' =>
    if h1 : r = r' then
      if h2 : s = s' then
        if h3 : e = e' then
          match Token.decEqList k k' with
          | isTrue h => isTrue (by subst h1 h2 h3 h; rfl)
          | isFalse h => isFalse (by intro hh; injection hh; contradiction)
        else isFalse (by intro hh; injection hh; contradiction)
      else isFalse (by intro hh; injection hh; contradiction)
    else isFalse (by intro hh; injection hh; contradiction)
def Token.decEqList : (a b : List Token) → Decidable (a = b)
  | [], [] => isTrue rfl
  | [], _ :: _ => isFalse (by intro h; cases h)
  | _ :: _, [] => isFalse (by intro h; cases h)
  | a :: as, b :: bs =>
    match Token.decEq a b with
    | isTrue h =>
      (match Token.decEqList as bs with
       | isTrue h' => isTrue (by subst h h'; rfl)
       | isFalse h' => isFalse (by intro hh; injection hh; contradiction))
    | isFalse h => isFalse (by intro hh; injection hh; contradiction)
end

instance : DecidableEq Token := Token.decEq

/-! ### declarative enumerations -/

mutual
/-- Depth-first (pre-order) enumeration with depths, the root at depth `d`. -/
def dfsAt : Nat → Token → List (Token × Nat)
  | d, .mk r s e kids => (.mk r s e kids, d) :: dfsListAt (d+1) kids
def dfsListAt : Nat → List Token → List (Token × Nat)
  | _, [] => []
  | d, t :: ts => dfsAt d t ++ dfsListAt d ts
end

/-- Depth-first enumeration of the whole tree, root at depth 0. -/
def dfs (t : Token) : List (Token × Nat) := dfsAt 0 t

mutual
/-- The tokens at depth `k` below (and including, for `k = 0`) a token, left to right. -/
def levelAt : Nat → Token → List Token
  | 0, t => [t]
  | k+1, .mk _ _ _ kids => levelListAt k kids
def levelListAt : Nat → List Token → List Token
  | _, [] => []
  | k, t :: ts => levelAt k t ++ levelListAt k ts
end

mutual
/-- Number of levels of a tree (a leaf has height 1). -/
def Token.height : Token → Nat
  | .mk _ _ _ kids => 1 + Token.heightList kids
def Token.heightList : List Token → Nat
  | [] => 0
  | t :: ts => max t.height (Token.heightList ts)
end

/-- The levels of a tree, top down. -/
def levels (t : Token) : List (List Token) := (List.range t.height).map (fun k => levelAt k t)

mutual
/-- Rendering by plain recursion: one line per token, children indented one level deeper,
the text only on tokens without children. -/
def renderAt (ruleName : RuleId → List Char) (dbgText : Token → List Char) : Nat → Token → List Char
  | d, .mk r s e [] => indent d ++ ruleName r ++ [' '] ++ dbgText (.mk r s e []) ++ ['\n']
  | d, .mk r _ _ (k :: ks) => indent d ++ ruleName r ++ ['\n'] ++ renderListAt ruleName dbgText (d+1) (k :: ks)
def renderListAt (ruleName : RuleId → List Char) (dbgText : Token → List Char) : Nat → List Token → List Char
  | _, [] => []
  | d, t :: ts => renderAt ruleName dbgText d t ++ renderListAt ruleName dbgText d ts
end

/-! ### pre-order: `preOrderLoop` computes `dfs`; the fuel bound is the termination argument -/

/-- What remains to be visited from a stack of sibling queues (top first). -/
def dfsStack : List (List Token) → List (Token × Nat)
  | [] => []
  | q :: rest => dfsListAt rest.length q ++ dfsStack rest

/-- Number of loop iterations `iterate_pre_order` still runs from a stack: every token is popped
once, every queue (one per token, plus the ones present) is found empty once. -/
def preCost : List (List Token) → Nat
  | [] => 0
  | q :: rest => 2 * Token.sizeList q + 1 + preCost rest

theorem preOrderLoop_spec : ∀ (fuel : Nat) (qs : List (List Token)) (acc : List (Token × Nat)),
    preCost qs ≤ fuel → preOrderLoop fuel qs acc = acc.reverse ++ dfsStack qs := by
  intro fuel
  induction fuel with
  | zero =>
    intro qs acc h
    cases qs with
    | nil => simp [preOrderLoop, dfsStack]
    | cons q rest => simp [preCost] at h
  | succ fuel ih =>
    intro qs acc h
    match qs with
    | [] => simp [preOrderLoop, dfsStack]
    | [] :: rest =>
      simp only [preOrderLoop]
      rw [ih rest acc (by simp [preCost, Token.sizeList] at h; omega)]
      simp [dfsStack, dfsListAt]
    | (t :: ts) :: rest =>
      simp only [preOrderLoop]
      cases t with
      | mk r s e kids =>
        rw [ih _ _ (by simp [preCost, Token.sizeList, Token.size, Token.kids] at h ⊢; omega)]
        simp [dfsStack, dfsListAt, dfsAt, Token.kids]

theorem preOrder_eq_dfs (t : Token) : preOrder t = dfs t := by
  unfold preOrder
  rw [preOrderLoop_spec _ _ _ (by simp [preCost, Token.sizeList])]
  simp [dfsStack, dfsListAt, dfs]

/-! ### facts about `dfs` and levels (tree inductions as mutual structural recursions) -/

theorem dfsListAt_append (d : Nat) (a b : List Token) :
    dfsListAt d (a ++ b) = dfsListAt d a ++ dfsListAt d b := by
  induction a with
  | nil => simp [dfsListAt]
  | cons t ts ih => simp [dfsListAt, ih]

mutual
theorem dfsAt_fst (d d' : Nat) : ∀ t : Token, (dfsAt d t).map (·.1) = (dfsAt d' t).map (·.1)
  | .mk r s e kids => by simp [dfsAt, dfsListAt_fst (d+1) (d'+1) kids]
theorem dfsListAt_fst (d d' : Nat) : ∀ L : List Token, (dfsListAt d L).map (·.1) = (dfsListAt d' L).map (·.1)
  | [] => by simp [dfsListAt]
  | t :: ts => by simp [dfsListAt, dfsAt_fst d d' t, dfsListAt_fst d d' ts]
end

mutual
theorem dfsAt_length (d : Nat) : ∀ t : Token, (dfsAt d t).length = t.size
  | .mk r s e kids => by simp [dfsAt, Token.size, dfsListAt_length (d+1) kids]; omega
theorem dfsListAt_length (d : Nat) : ∀ L : List Token, (dfsListAt d L).length = Token.sizeList L
  | [] => by simp [dfsListAt, Token.sizeList]
  | t :: ts => by simp [dfsListAt, Token.sizeList, dfsAt_length d t, dfsListAt_length d ts]
end

mutual
theorem dfsAt_depth_ge (d : Nat) : ∀ t : Token, ∀ p ∈ dfsAt d t, d ≤ p.2
  | .mk r s e kids => by
    intro p hp
    simp only [dfsAt, List.mem_cons] at hp
    rcases hp with rfl | hp
    · exact Nat.le_refl _
    · have := dfsListAt_depth_ge (d+1) kids p hp; omega
theorem dfsListAt_depth_ge (d : Nat) : ∀ L : List Token, ∀ p ∈ dfsListAt d L, d ≤ p.2
  | [] => by simp [dfsListAt]
  | t :: ts => by
    intro p hp
    simp only [dfsListAt, List.mem_append] at hp
    rcases hp with hp | hp
    · exact dfsAt_depth_ge d t p hp
    · exact dfsListAt_depth_ge d ts p hp
end

mutual
theorem levelAt_eq_filter (d : Nat) : ∀ (k : Nat) (t : Token),
    levelAt k t = ((dfsAt d t).filter (fun p => p.2 == d + k)).map (·.1)
  | 0, .mk r s e kids => by
    have : (dfsListAt (d+1) kids).filter (fun p => p.2 == d) = [] := by
      rw [List.filter_eq_nil_iff]
      intro p hp
      have := dfsListAt_depth_ge (d+1) kids p hp
      simp; omega
    simp only [levelAt, dfsAt, Nat.add_zero]
    rw [List.filter_cons_of_pos (by simp), this]; rfl
  | k+1, .mk r s e kids => by
    have h := levelListAt_eq_filter (d+1) k kids
    have e1 : d + 1 + k = d + (k + 1) := by omega
    rw [e1] at h
    simp [levelAt, dfsAt, h]
theorem levelListAt_eq_filter (d : Nat) : ∀ (k : Nat) (L : List Token),
    levelListAt k L = ((dfsListAt d L).filter (fun p => p.2 == d + k)).map (·.1)
  | _, [] => by simp [levelListAt, dfsListAt]
  | k, t :: ts => by
    simp [levelListAt, dfsListAt, levelAt_eq_filter d k t, levelListAt_eq_filter d k ts]
end

/-! ### level order: `levelOrderLoop` computes the levels -/

/-- The children of all tokens of a level, in order: the next level. -/
def kidsOf : List Token → List Token
  | [] => []
  | t :: ts => t.kids ++ kidsOf ts

/-- What the level-order callback receives along one level: each token with the number of tokens
still queued behind it. -/
def withRemaining : List Token → List (Token × Nat)
  | [] => []
  | t :: q => (t, q.length) :: withRemaining q

theorem withRemaining_fst (q : List Token) : (withRemaining q).map (·.1) = q := by
  induction q with
  | nil => rfl
  | cons t q ih => simp [withRemaining, ih]

/-- `n` levels starting from the forest `L`, each annotated by `withRemaining`. -/
def bfsR : Nat → List Token → List (Token × Nat)
  | 0, _ => []
  | n+1, L => withRemaining L ++ bfsR n (kidsOf L)

theorem bfsR_nil : ∀ n, bfsR n [] = [] := by
  intro n; induction n with
  | zero => rfl
  | succ n ih => simp [bfsR, withRemaining, kidsOf, ih]

theorem kidsOf_append (a b : List Token) : kidsOf (a ++ b) = kidsOf a ++ kidsOf b := by
  induction a with
  | nil => rfl
  | cons t ts ih => simp [kidsOf, ih]

theorem sizeList_append (a b : List Token) : Token.sizeList (a ++ b) = Token.sizeList a + Token.sizeList b := by
  induction a with
  | nil => simp [Token.sizeList]
  | cons t ts ih => simp [Token.sizeList, ih]; omega

theorem heightList_append (a b : List Token) :
    Token.heightList (a ++ b) = max (Token.heightList a) (Token.heightList b) := by
  induction a with
  | nil => simp [Token.heightList]
  | cons t ts ih => simp [Token.heightList, ih]

theorem heightList_kidsOf (L : List Token) : Token.heightList (kidsOf L) = Token.heightList L - 1 := by
  induction L with
  | nil => rfl
  | cons t ts ih =>
    cases t with
    | mk r s e kids =>
      simp [kidsOf, Token.kids, heightList_append, ih, Token.heightList, Token.height]; omega

theorem levelListAt_zero (L : List Token) : levelListAt 0 L = L := by
  induction L with
  | nil => simp [levelListAt]
  | cons t ts ih => simp [levelListAt, levelAt, ih]

theorem levelListAt_append (k : Nat) (a b : List Token) :
    levelListAt k (a ++ b) = levelListAt k a ++ levelListAt k b := by
  induction a with
  | nil => simp [levelListAt]
  | cons t ts ih => simp [levelListAt, ih]

theorem levelListAt_succ (k : Nat) (L : List Token) : levelListAt (k+1) L = levelListAt k (kidsOf L) := by
  induction L with
  | nil => simp [levelListAt, kidsOf]
  | cons t ts ih =>
    cases t with
    | mk r s e kids => simp [levelListAt, levelAt, kidsOf, Token.kids, levelListAt_append, ih]

/-- Loop iterations `iterate_level_order` still runs: two per token (its pop, and at most one swap
per non-empty level, charged to the level's first token), one more when the current queue is empty. -/
def levelCost (q next : List Token) : Nat :=
  2 * Token.sizeList q + 2 * Token.sizeList next + (if q.isEmpty then 1 else 0)

theorem levelOrderLoop_spec : ∀ (fuel : Nat) (q next : List Token) (acc : List (Token × Nat)) (n : Nat),
    levelCost q next ≤ fuel → Token.heightList (next ++ kidsOf q) ≤ n →
    levelOrderLoop fuel q next acc = acc.reverse ++ withRemaining q ++ bfsR n (next ++ kidsOf q) := by
  intro fuel
  induction fuel with
  | zero =>
    intro q next acc n h
    cases q with
    | nil => simp [levelCost] at h
    | cons t q' =>
      cases t with
      | mk r s e kids => simp [levelCost, Token.sizeList, Token.size] at h; omega
  | succ fuel ih =>
    intro q next acc n h hn
    cases q with
    | nil =>
      simp only [levelOrderLoop]
      cases next with
      | nil => simp [withRemaining, kidsOf, bfsR_nil]
      | cons x xs =>
        simp only [List.isEmpty_cons, Bool.false_eq_true, if_false]
        cases n with
        | zero =>
          cases x with
          | mk r s e kids => simp [kidsOf, Token.heightList, Token.height] at hn
        | succ n =>
          rw [ih (x :: xs) [] acc n ?_ ?_]
          · simp [withRemaining, kidsOf, bfsR]
          · simp [levelCost, Token.sizeList] at h ⊢; omega
          · simp only [List.nil_append, heightList_kidsOf]
            simp only [kidsOf, List.append_nil] at hn; omega
    | cons t q' =>
      simp only [levelOrderLoop]
      rw [ih q' (next ++ t.kids) ((t, q'.length) :: acc) n ?_ ?_]
      · simp [withRemaining, kidsOf]
      · cases t with
        | mk r s e kids =>
          simp [levelCost, Token.sizeList, Token.size, Token.kids, sizeList_append] at h ⊢
          split <;> omega
      · simpa [kidsOf] using hn

theorem bfsR_eq_levels : ∀ (n : Nat) (L : List Token),
    bfsR n L = ((List.range n).map (fun k => withRemaining (levelListAt k L))).flatten := by
  intro n
  induction n with
  | zero => intro L; simp [bfsR]
  | succ n ih =>
    intro L
    rw [List.range_succ_eq_map]
    simp [bfsR, ih, levelListAt_zero, levelListAt_succ, List.map_map, Function.comp_def]

theorem levelListAt_singleton (k : Nat) (t : Token) : levelListAt k [t] = levelAt k t := by
  simp [levelListAt]

theorem heightList_singleton (t : Token) : Token.heightList [t] = t.height := by
  simp [Token.heightList]

theorem levelOrder_eq_bfsR (t : Token) : levelOrder t = bfsR t.height [t] := by
  obtain ⟨n, hn⟩ : ∃ n, t.height = n + 1 := by
    cases t with
    | mk r s e kids => exact ⟨Token.heightList kids, by simp [Token.height]; omega⟩
  unfold levelOrder
  rw [levelOrderLoop_spec _ [t] [] [] n ?_ ?_]
  · simp [hn, bfsR]
  · cases t; simp [levelCost, Token.sizeList]
  · cases t with
    | mk r s e kids =>
      simp [kidsOf, Token.kids, Token.height] at hn ⊢; omega

/-- Level order with the callback's second argument: level by level, each token with the number
of tokens of its level still behind it. -/
theorem levelOrder_eq (t : Token) : levelOrder t = ((levels t).map withRemaining).flatten := by
  rw [levelOrder_eq_bfsR, bfsR_eq_levels]
  simp [levels, levelListAt_singleton, List.map_map, Function.comp_def]

theorem levelOrder_fst (t : Token) : (levelOrder t).map (·.1) = (levels t).flatten := by
  rw [levelOrder_eq]
  simp [List.map_flatten, List.map_map, Function.comp_def, withRemaining_fst]

theorem heightList_eq_zero : ∀ L : List Token, Token.heightList L = 0 → L = []
  | [], _ => rfl
  | (.mk r s e k) :: ts, h => by simp [Token.heightList, Token.height] at h

theorem dfsListAt_perm (d d' : Nat) : ∀ L : List Token,
    ((dfsListAt d L).map (·.1)).Perm (L ++ (dfsListAt d' (kidsOf L)).map (·.1))
  | [] => by simp [dfsListAt, kidsOf]
  | (.mk r s e kids) :: ts => by
    have ih := dfsListAt_perm d d' ts
    simp only [dfsListAt, dfsAt, kidsOf, Token.kids, dfsListAt_append, List.map_append, List.map_cons,
      List.cons_append]
    refine List.Perm.cons _ ?_
    rw [dfsListAt_fst (d+1) d' kids]
    refine ((List.Perm.append_left _ ih).trans ?_)
    exact List.perm_append_comm_assoc _ _ _

theorem bfsR_perm : ∀ (n : Nat) (L : List Token) (d : Nat), Token.heightList L ≤ n →
    ((bfsR n L).map (·.1)).Perm ((dfsListAt d L).map (·.1)) := by
  intro n
  induction n with
  | zero =>
    intro L d h
    have := heightList_eq_zero L (by omega)
    subst this; simp [bfsR, dfsListAt]
  | succ n ih =>
    intro L d h
    simp only [bfsR, List.map_append, withRemaining_fst]
    refine (List.Perm.append_left _ (ih (kidsOf L) d ?_)).trans (dfsListAt_perm d d L).symm
    rw [heightList_kidsOf]; omega


theorem levelOrder_perm (t : Token) : ((levelOrder t).map (·.1)).Perm ((dfs t).map (·.1)) := by
  rw [levelOrder_eq_bfsR]
  have := bfsR_perm t.height [t] 0 (by simp [Token.heightList])
  simpa [dfsListAt, dfs] using this

theorem dfs_length (t : Token) : (dfs t).length = t.size := dfsAt_length 0 t

theorem levelOrder_length (t : Token) : (levelOrder t).length = t.size := by
  have := (levelOrder_perm t).length_eq
  simpa [dfs_length] using this

/-! ### rendering -/

theorem indent_length (d : Nat) : (indent d).length = 4 * d := by
  induction d with
  | zero => rfl
  | succ d ih => simp [indent, List.replicate_succ] at ih ⊢; omega

theorem indent_spaces (d : Nat) : ∀ c ∈ indent d, c = ' ' := by
  induction d with
  | zero => simp [indent]
  | succ d ih =>
    intro c hc
    simp only [indent, List.replicate_succ, List.flatten_cons, List.mem_append] at hc ih
    rcases hc with hc | hc
    · simpa using hc
    · exact ih c hc

mutual
theorem renderAt_eq (rn : RuleId → List Char) (dt : Token → List Char) : ∀ (d : Nat) (t : Token),
    renderAt rn dt d t = ((dfsAt d t).map (writeTreeLine rn dt)).flatten
  | d, .mk r s e [] => by simp [renderAt, dfsAt, dfsListAt, writeTreeLine, Token.kids, Token.rule]
  | d, .mk r s e (k :: ks) => by
    simp [renderAt, dfsAt, writeTreeLine, Token.kids, Token.rule, renderListAt_eq rn dt (d+1) (k :: ks)]
theorem renderListAt_eq (rn : RuleId → List Char) (dt : Token → List Char) : ∀ (d : Nat) (L : List Token),
    renderListAt rn dt d L = ((dfsListAt d L).map (writeTreeLine rn dt)).flatten
  | _, [] => by simp [renderListAt, dfsListAt]
  | d, t :: ts => by
    simp [renderListAt, dfsListAt, renderAt_eq rn dt d t, renderListAt_eq rn dt d ts]
end

/-! ### thin tokens -/

mutual
def ThinToken.size : ThinToken → Nat
  | .mk _ _ _ kids => 1 + ThinToken.sizeList kids
def ThinToken.sizeList : List ThinToken → Nat
  | [] => 0
  | t :: ts => t.size + ThinToken.sizeList ts
end

theorem toThinList_eq_map (ts : List Token) : Token.toThinList ts = ts.map Token.toThin := by
  induction ts with
  | nil => simp [Token.toThinList]
  | cons t ts ih => simp [Token.toThinList, ih]

mutual
theorem toThin_size : ∀ t : Token, t.toThin.size = t.size
  | .mk r s e kids => by simp [Token.toThin, ThinToken.size, Token.size, toThinList_size kids]
theorem toThinList_size : ∀ L : List Token, ThinToken.sizeList (Token.toThinList L) = Token.sizeList L
  | [] => by simp [Token.toThinList, ThinToken.sizeList, Token.sizeList]
  | t :: ts => by simp [Token.toThinList, ThinToken.sizeList, Token.sizeList, toThin_size t, toThinList_size ts]
end

/-! ### spans: nesting and sibling order -/

mutual
/-- A token lies in `[lo, hi]` and its children are well nested in its own span. -/
def Token.Nested : Token → Nat → Nat → Prop
  | .mk _ s e kids, lo, hi => lo ≤ s ∧ s ≤ e ∧ e ≤ hi ∧ WellNested kids s e
/-- The tokens lie in `[lo, hi]`, in order and without overlap (each starts at or after the end of
the previous one), and recursively so do the children of each inside its span. -/
def WellNested : List Token → Nat → Nat → Prop
  | [], lo, hi => lo ≤ hi
  | t :: ts, lo, hi => Token.Nested t lo hi ∧ WellNested ts t.e hi
end

theorem WellNested.le : ∀ {ts : List Token} {lo hi : Nat}, WellNested ts lo hi → lo ≤ hi
  | [], _, _, h => by simpa [WellNested] using h
  | (.mk r s e k) :: ts, lo, hi, h => by
    simp only [WellNested, Token.Nested, Token.e] at h
    have := WellNested.le h.2; omega

theorem WellNested.append : ∀ {a b : List Token} {lo mid hi : Nat},
    WellNested a lo mid → WellNested b mid hi → WellNested (a ++ b) lo hi
  | [], b, lo, mid, hi, ha, hb => by
    simp only [WellNested] at ha
    cases b with
    | nil => simp only [WellNested, List.append_nil] at hb ⊢; omega
    | cons t ts =>
      cases t with
      | mk r s e k =>
        simp only [List.nil_append, WellNested, Token.Nested] at hb ⊢
        exact ⟨⟨by omega, hb.1.2⟩, hb.2⟩
  | (.mk r s e k) :: ts, b, lo, mid, hi, ha, hb => by
    simp only [List.cons_append, WellNested, Token.Nested, Token.e] at ha ⊢
    have h1 := WellNested.le hb
    exact ⟨⟨ha.1.1, ha.1.2.1, by omega, ha.1.2.2.2⟩, WellNested.append ha.2 hb⟩

theorem WellNested.nil {lo hi : Nat} (h : lo ≤ hi) : WellNested [] lo hi := by simpa [WellNested]

theorem WellNested.mem : ∀ {ts : List Token} {lo hi : Nat}, WellNested ts lo hi →
    ∀ t ∈ ts, Token.Nested t lo hi
  | [], _, _, _, t, ht => by cases ht
  | (.mk r s e k) :: ts, lo, hi, h, t, ht => by
    simp only [WellNested, Token.e] at h
    rcases List.mem_cons.mp ht with rfl | ht
    · exact h.1
    · have := WellNested.mem h.2 t ht
      have h1 := h.1
      cases t with
      | mk r' s' e' k' =>
        simp only [Token.Nested] at this h1 ⊢
        exact ⟨by omega, this.2⟩

theorem WellNested.pairwise : ∀ {ts : List Token} {lo hi : Nat}, WellNested ts lo hi →
    List.Pairwise (fun a b => a.e ≤ b.s) ts
  | [], _, _, _ => List.Pairwise.nil
  | (.mk r s e k) :: ts, lo, hi, h => by
    simp only [WellNested, Token.e] at h
    refine List.Pairwise.cons ?_ (WellNested.pairwise h.2)
    intro b hb
    have := WellNested.mem h.2 b hb
    cases b with
    | mk r' s' e' k' => simp only [Token.Nested] at this; simp [Token.e, Token.s]; omega


theorem Token.Nested.widen {t : Token} {lo hi lo' hi' : Nat} (h : Token.Nested t lo hi)
    (h1 : lo' ≤ lo) (h2 : hi ≤ hi') : Token.Nested t lo' hi' := by
  cases t with
  | mk r s e k => simp only [Token.Nested] at h ⊢; exact ⟨by omega, h.2.1, by omega, h.2.2.2⟩

theorem Token.Nested.iff (t : Token) (lo hi : Nat) :
    Token.Nested t lo hi ↔ lo ≤ t.s ∧ t.s ≤ t.e ∧ t.e ≤ hi ∧ WellNested t.kids t.s t.e := by
  cases t; simp [Token.Nested, Token.s, Token.e, Token.kids]

/-- `WellNested` spelled out: every token lies in `[lo, hi]` with its children well nested in its
own span, and each token ends before the next one starts. -/
theorem WellNested.iff : ∀ (ts : List Token) (lo hi : Nat),
    WellNested ts lo hi ↔
      lo ≤ hi ∧ (∀ t ∈ ts, lo ≤ t.s ∧ t.s ≤ t.e ∧ t.e ≤ hi ∧ WellNested t.kids t.s t.e) ∧
      ts.Pairwise (fun a b => a.e ≤ b.s) := by
  intro ts lo hi
  constructor
  · intro h
    exact ⟨h.le, fun t ht => (Token.Nested.iff t lo hi).mp (h.mem t ht), h.pairwise⟩
  · intro ⟨hle, hall, hpw⟩
    induction ts generalizing lo with
    | nil => exact WellNested.nil hle
    | cons t ts ih =>
      have ht := hall t (List.mem_cons_self)
      simp only [WellNested]
      refine ⟨(Token.Nested.iff t lo hi).mpr ht, ih t.e ht.2.2.1 ?_ (List.Pairwise.of_cons hpw)⟩
      intro t' ht'
      have h1 := hall t' (List.mem_cons_of_mem _ ht')
      have h2 := List.rel_of_pairwise_cons hpw ht'
      exact ⟨h2, h1.2.1, h1.2.2.1, h1.2.2.2⟩

mutual
/-- Hereditary form: every token anywhere below a nested token lies in the bounds, with its own
children well nested in its span. -/
theorem Token.Nested.deep : ∀ (t : Token) (lo hi d : Nat), Token.Nested t lo hi →
    ∀ p ∈ dfsAt d t, Token.Nested p.1 lo hi
  | .mk r s e kids, lo, hi, d, h, p, hp => by
    simp only [dfsAt, List.mem_cons] at hp
    rcases hp with rfl | hp
    · exact h
    · simp only [Token.Nested] at h
      exact (WellNested.deep kids s e (d+1) h.2.2.2 p hp).widen h.1 h.2.2.1
theorem WellNested.deep : ∀ (L : List Token) (lo hi d : Nat), WellNested L lo hi →
    ∀ p ∈ dfsListAt d L, Token.Nested p.1 lo hi
  | [], _, _, _, _, p, hp => by simp [dfsListAt] at hp
  | t :: ts, lo, hi, d, h, p, hp => by
    simp only [dfsListAt, List.mem_append] at hp
    simp only [WellNested] at h
    rcases hp with hp | hp
    · exact Token.Nested.deep t lo hi d h.1 p hp
    · have h1 := (Token.Nested.iff t lo hi).mp h.1
      exact (WellNested.deep ts t.e hi d h.2 p hp).widen (by omega) (Nat.le_refl _)
end

/-! ### tokens of composite values -/

theorem tokensList_append (g : NodeGrammar) (a b : List Val) :
    tokensList g (a ++ b) = tokensList g a ++ tokensList g b := by
  induction a with
  | nil => simp [tokensList]
  | cons v vs ih => simp [tokensList, ih]

theorem tokensList_singleton (g : NodeGrammar) (v : Val) : tokensList g [v] = tokens g v := by
  simp [tokensList]

theorem tokens_mkSkipped (g : NodeGrammar) (sk : List Val) (a : Val) :
    tokens g (mkSkipped sk a) = tokensList g sk ++ tokens g a := by
  simp [mkSkipped, tokens, tokensList_append, tokensList_singleton]

theorem tokens_defaultSkipVal (g : NodeGrammar) : tokens g (defaultSkipVal g) = [] := by
  unfold defaultSkipVal
  split <;> simp [tokens, tokensList, Val.leaf]

theorem tokensList_replicate_nil (g : NodeGrammar) (d : Val) (hd : tokens g d = []) :
    ∀ k, tokensList g (List.replicate k d) = [] := by
  intro k
  induction k with
  | zero => simp [tokensList]
  | succ k ih => simp [List.replicate_succ, tokensList, hd, ih]

/-! ### span discipline of parse results -/

/-- Successful results carry tokens well nested between the old and the new cursor. -/
def NestFn (g : NodeGrammar) (f : Inp → M → R Val) : Prop :=
  ∀ i m i' m' v, f i m = .ok i' m' v → WellNested (tokens g v) i.pos i'.pos
def NestFnL (g : NodeGrammar) (f : Inp → M → R (List Val)) : Prop :=
  ∀ i m i' m' vs, f i m = .ok i' m' vs → WellNested (tokensList g vs) i.pos i'.pos

theorem nested_snoc (g : NodeGrammar) {acc : List Val} {a : Val} {lo mid hi : Nat}
    (h1 : WellNested (tokensList g acc.reverse) lo mid) (h2 : WellNested (tokens g a) mid hi) :
    WellNested (tokensList g (a :: acc).reverse) lo hi := by
  rw [List.reverse_cons, tokensList_append, tokensList_singleton]
  exact h1.append h2

theorem skipLoop_nested (g : NodeGrammar) (f : Inp → M → R Val) (hf : NestFn g f) :
    ∀ k i m acc i' m' vs lo, skipLoop f k i m acc = .ok i' m' vs →
      WellNested (tokensList g acc.reverse) lo i.pos → WellNested (tokensList g vs) lo i'.pos := by
  intro k
  induction k with
  | zero =>
    intro i m acc i' m' vs lo h hacc
    simp only [skipLoop] at h; injection h with h1 _ h3; subst h1 h3; exact hacc
  | succ k ih =>
    intro i m acc i' m' vs lo h hacc
    unfold skipLoop at h
    split at h
    · cases h
    · cases h
    · next i1 m1 a1 h1 => exact ih _ _ _ _ _ _ _ h (nested_snoc g hacc (hf _ _ _ _ _ h1))

theorem arrayLoop_nested (g : NodeGrammar) (f : Inp → M → R Val) (hf : NestFn g f) :
    ∀ k i m acc i' m' vs lo, arrayLoop f k i m acc = .ok i' m' vs →
      WellNested (tokensList g acc.reverse) lo i.pos → WellNested (tokensList g vs) lo i'.pos := by
  intro k
  induction k with
  | zero =>
    intro i m acc i' m' vs lo h hacc
    simp only [arrayLoop] at h; injection h with h1 _ h3; subst h1 h3; exact hacc
  | succ k ih =>
    intro i m acc i' m' vs lo h hacc
    unfold arrayLoop at h
    split at h
    · cases h
    · cases h
    · next i1 m1 a1 h1 => exact ih _ _ _ _ _ _ _ h (nested_snoc g hacc (hf _ _ _ _ _ h1))

theorem seqLoop_nested (g : NodeGrammar) (f : Node → Inp → M → R Val) (skip : Inp → M → R (List Val))
    (hf : ∀ n, NestFn g (f n)) (hs : NestFnL g skip) :
    ∀ ns i m acc i' m' vs lo, seqLoop f skip mkSkipped ns i m acc = .ok i' m' vs →
      WellNested (tokensList g acc.reverse) lo i.pos → WellNested (tokensList g vs) lo i'.pos := by
  intro ns
  induction ns with
  | nil =>
    intro i m acc i' m' vs lo h hacc
    simp only [seqLoop] at h; injection h with h1 _ h3; subst h1 h3; exact hacc
  | cons n ns ih =>
    intro i m acc i' m' vs lo h hacc
    unfold seqLoop at h
    split at h
    · cases h
    · cases h
    · next i1 m1 sk h1 =>
      split at h
      · cases h
      · cases h
      · next i2 m2 a2 h2 =>
        refine ih _ _ _ _ _ _ _ h (nested_snoc g hacc ?_)
        rw [tokens_mkSkipped]
        exact (hs _ _ _ _ _ h1).append (hf n _ _ _ _ _ h2)

theorem choiceLoop_nested (g : NodeGrammar) (f : Node → Inp → M → R Val) (hf : ∀ n, NestFn g (f n)) :
    ∀ ns k i m i' m' a, choiceLoop f ns k i m = .ok i' m' a → WellNested (tokens g a.2) i.pos i'.pos := by
  intro ns
  induction ns with
  | nil => intro k i m i' m' a h; simp [choiceLoop] at h
  | cons n ns ih =>
    intro k i m i' m' a h
    unfold choiceLoop at h
    split at h
    · cases h
    · next i1 m1 a1 h1 =>
      injection h with h1' h2' h3'; subst h1' h3'
      exact hf n _ _ _ _ _ (restoreOnNone_ok h1)
    · exact ih _ _ _ _ _ _ h

theorem repLoop_nested (g : NodeGrammar) (unit : Nat → Inp → M → R Val) (hu : ∀ idx, NestFn g (unit idx))
    (min : Nat) (max : Option Nat) :
    ∀ budget idx i m acc i' m' vs lo, repLoop unit min max budget idx i m acc = .ok i' m' vs →
      WellNested (tokensList g acc.reverse) lo i.pos → WellNested (tokensList g vs) lo i'.pos := by
  intro budget
  induction budget with
  | zero => intro idx i m acc i' m' vs lo h; simp [repLoop] at h
  | succ b ih =>
    intro idx i m acc i' m' vs lo h hacc
    unfold repLoop at h
    split at h
    · obtain ⟨h1, _, h3⟩ := repDone_ok h; subst h1 h3; exact hacc
    · split at h
      · cases h
      · split at h
        · cases h
        · obtain ⟨h1, _, h3⟩ := repDone_ok h; subst h1 h3; exact hacc
      · next i1 m1 a1 h1 =>
        exact ih _ _ _ _ _ _ _ _ h (nested_snoc g hacc (hu idx _ _ _ _ _ (restoreOnNone_ok h1)))

theorem repUnitP_nested (g : NodeGrammar) (skip body : Inp → M → R Val) (hs : NestFn g skip) (hb : NestFn g body)
    (dflt : Val) (hd : tokens g dflt = []) (k idx : Nat) : NestFn g (repUnitP skip body dflt k idx) := by
  intro i m i' m' a h
  unfold repUnitP at h
  split at h
  · split at h
    · cases h
    · cases h
    · next i1 m1 v h1 =>
      injection h with h0 _ h2; subst h0 h2
      rw [tokens_mkSkipped, tokensList_replicate_nil g dflt hd, List.nil_append]
      exact hb _ _ _ _ _ h1
  · split at h
    · cases h
    · cases h
    · next i1 m1 sk h1 =>
      split at h
      · cases h
      · cases h
      · next i2 m2 v h2 =>
        injection h with h0 _ h3; subst h0 h3
        rw [tokens_mkSkipped]
        have hsk := skipLoop_nested g skip hs _ _ _ [] _ _ _ i.pos h1
          (by simpa [tokensList] using WellNested.nil (Nat.le_refl _))
        exact hsk.append (hb _ _ _ _ _ h2)


theorem WellNested.empty_acc (g : NodeGrammar) (p : Nat) : WellNested (tokensList g ([] : List Val).reverse) p p := by
  simpa [tokensList] using WellNested.nil (Nat.le_refl p)

/-- Finish a leaf case: the value has no tokens, the cursor moved forward. -/
local macro "leaf_done " h:ident hle:ident : tactic =>
  `(tactic| (injection $h with _ _ hv; subst hv
             simpa [Val.leaf, tokens, tokensList, WellNested] using $hle))

/-- The tokens of a successful parse lie between the cursor before and after, ordered, without
overlap, and so do the children of every token inside its span. -/
theorem parse_nested (g : NodeGrammar) (uni : Uni) :
    ∀ (n : Nat) (inh : Bool) (node : Node), NestFn g (parse g uni n inh node) := by
  intro n
  induction n with
  | zero => intro inh node i m i' m' a h; simp [parse] at h
  | succ n ih =>
    intro inh node i m i' m' v h
    have hle : i.pos ≤ i'.pos := (parse_adv g uni (n+1) inh node i m i' m' v h).pos_le
    cases node with
    | str s =>
      simp only [parse] at h; split at h
      · leaf_done h hle
      · cases h
    | insens s =>
      simp only [parse] at h; split at h
      · leaf_done h hle
      · cases h
    | range lo hi =>
      simp only [parse] at h; split at h
      · leaf_done h hle
      · cases h
    | any =>
      simp only [parse] at h; split at h
      · leaf_done h hle
      · cases h
    | soi =>
      simp only [parse] at h; split at h
      · leaf_done h hle
      · cases h
    | eoi =>
      simp only [parse] at h; split at h
      · leaf_done h hle
      · cases h
    | newline =>
      simp only [parse] at h; split at h
      · leaf_done h hle
      · cases h
    | charBy p =>
      simp only [parse] at h; split at h
      · leaf_done h hle
      · cases h
    | skipUntil needles =>
      simp only [parse] at h; leaf_done h hle
    | skipChars k =>
      simp only [parse] at h; split at h
      · leaf_done h hle
      · cases h
    | seq sk items =>
      simp only [parse] at h
      cases items with
      | nil => simp only [] at h; leaf_done h hle
      | cons n0 ns =>
        simp only [] at h
        split at h
        · cases h
        · cases h
        · next i1 m1 v0 h1 =>
          split at h
          · cases h
          · cases h
          · next i2 m2 vs h2 =>
            injection h with h0 _ hv; subst h0 hv
            have hskip : NestFnL g (fun i m => skipLoop (parse g uni n false g.skipped) (skipCount sk inh) i m []) := by
              intro i m i' m' vs hh
              exact skipLoop_nested g _ (ih false g.skipped) _ _ _ _ _ _ _ _ hh (WellNested.empty_acc g _)
            have h0' := ih inh n0 _ _ _ _ _ h1
            have hl := seqLoop_nested g _ _ (ih inh) hskip _ _ _ _ _ _ _ _ h2 (WellNested.empty_acc g _)
            simp only [tokens, tokensList, tokens_mkSkipped,
              tokensList_replicate_nil g _ (tokens_defaultSkipVal g), List.nil_append]
            exact h0'.append hl
    | choice alts =>
      simp only [parse] at h
      split at h
      · cases h
      · cases h
      · next i1 m1 k v1 h1 =>
        injection h with h0 _ hv; subst h0 hv
        have := choiceLoop_nested g _ (ih inh) _ _ _ _ _ _ _ h1
        simpa [tokens, tokensList] using this
    | opt x =>
      simp only [parse] at h
      split at h
      · cases h
      · leaf_done h hle
      · next i1 m1 v1 h1 =>
        injection h with h0 _ hv; subst h0 hv
        have := ih inh x _ _ _ _ _ (restoreOnNone_ok h1)
        simpa [tokens, tokensList] using this
    | rep sk min max x =>
      simp only [parse] at h
      split at h
      · cases h
      · cases h
      · next i1 m1 vs h1 =>
        injection h with h0 _ hv; subst h0 hv
        have := repLoop_nested g _
          (fun idx => repUnitP_nested g _ _ (ih false g.skipped) (ih inh x) _ (tokens_defaultSkipVal g) _ idx)
          _ _ _ _ _ _ _ _ _ _ _ h1 (WellNested.empty_acc g _)
        simpa [tokens] using this
    | atomicRepeat x =>
      simp only [parse] at h
      split at h
      · cases h
      · cases h
      · next i1 m1 vs h1 =>
        injection h with h0 _ hv; subst h0 hv
        have := repLoop_nested g (fun _ i m => parse g uni n inh x i m) (fun _ => ih inh x)
          _ _ _ _ _ _ _ _ _ _ _ h1 (WellNested.empty_acc g _)
        simpa [tokens] using this
    | pos x =>
      simp only [parse] at h
      split at h
      · cases h
      · cases h
      · leaf_done h hle
    | neg x =>
      simp only [parse] at h
      split at h
      · cases h
      · leaf_done h hle
      · cases h
    | push x =>
      simp only [parse] at h
      split at h
      · cases h
      · cases h
      · next i1 m1 v1 h1 =>
        injection h with h0 _ hv; subst h0 hv
        have := ih inh x _ _ _ _ _ h1
        simpa [tokens, tokensList] using this
    | peek =>
      simp only [parse] at h
      split at h
      · cases h
      · split at h
        · leaf_done h hle
        · cases h
    | peekAll =>
      simp only [parse] at h
      split at h
      · leaf_done h hle
      · cases h
    | pop =>
      simp only [parse] at h
      split at h
      · cases h
      · split at h
        · leaf_done h hle
        · cases h
    | popAll =>
      simp only [parse] at h
      split at h
      · leaf_done h hle
      · cases h
    | drop =>
      simp only [parse] at h
      split at h
      · cases h
      · leaf_done h hle
    | peekSlice a b =>
      simp only [parse] at h
      split at h
      · cases h
      · split at h
        · leaf_done h hle
        · split at h
          · leaf_done h hle
          · cases h
    | ref r f =>
      simp only [parse] at h
      split at h
      · cases h
      · next d hd =>
        split at h
        · split at h
          · cases h
          · cases h
          · next i1 m1 v1 h1 =>
            injection h with h0 _ hv; subst h0 hv
            have := ih _ _ _ _ _ _ _ h1
            simpa [tokens, tokensList] using this
        · split at h
          · cases h
          · cases h
          · next i1 m1 v1 h1 =>
            injection h with h0 _ hv; subst h0 hv
            simp [tokens, tokensList, WellNested, Token.Nested, Token.e, hle]
        · split at h
          · cases h
          · cases h
          · next i1 m1 v1 h1 =>
            injection h with h0 _ hv; subst h0 hv
            have := ih _ _ _ _ _ _ _ h1
            simp only [tokens, tokensList_singleton, WellNested, Token.Nested, Token.e]
            refine ⟨⟨Nat.le_refl _, hle, Nat.le_refl _, ?_⟩, Nat.le_refl _⟩
            split
            · exact this
            · exact WellNested.nil hle
    | array k x =>
      simp only [parse, arrayTryInto_arrayLoop] at h
      split at h
      · cases h
      · cases h
      · next i1 m1 vs h1 =>
        injection h with h0 _ hv; subst h0 hv
        have := arrayLoop_nested g _ (ih inh x) _ _ _ _ _ _ _ _ h1 (WellNested.empty_acc g _)
        simpa [tokens] using this
    | pair a b =>
      simp only [parse] at h
      split at h
      · cases h
      · cases h
      · next i1 m1 va h1 =>
        split at h
        · cases h
        · cases h
        · next i2 m2 vb h2 =>
          injection h with h0 _ hv; subst h0 hv
          have := (ih inh a _ _ _ _ _ h1).append (ih inh b _ _ _ _ _ h2)
          simpa [tokens, tokensList] using this
    | empty => simp only [parse] at h; leaf_done h hle
    | alwaysFail => simp only [parse] at h; cases h

end PestTyped
