/-
Lemmas.NoTrace — helper lemmas for Props/C05Trace: "a failed attempt leaves no trace" in the strong
form *the result is the same as if the attempt had never been made*.

Everything is stated up to the tracker (`Res.noTrk`: verdict, end cursor, final stack, value): the
tracker is the one component that is *meant* to remember failed attempts (it feeds the error
message), and `parse_noTrk` (Lemmas/Choice) shows that nothing else ever reads it.

Contents
* `choiceLoop`: a failing alternative can be removed at any position (`choiceLoop_drop_failed`), a
  failing prefix can be skipped (`choiceLoop_skip_failed_prefix`); index bookkeeping.
* `repLoop`: when the attempt after `n` successful iterations fails, the loop is the loop bounded by
  `MAX = n`, which never makes that attempt (`repLoop_as_if_never`); `RepIters` is independent of the
  tracker and of `MAX` beyond the iterations made.
* the node forms of `parse` as `mapVal` of their loops; value re-tagging functions.
* continuation: `parse_seq_head_congr`, `parse_pair_fst_congr` — whatever follows cannot tell two
  first components apart that agree up to the tracker.
-/
import PestTyped.Lemmas.Choice
import PestTyped.Lemmas.RepLoop
import PestTyped.Lemmas.GenOptsLemmas
namespace PestTyped

/-! ### results up to the tracker -/

theorem noTrk_mapVal {α β} (φ : α → β) (r : R α) : (r.mapVal φ).noTrk = r.noTrk.mapVal φ := by
  cases r <;> rfl

theorem forget_mapVal {σ α β} (φ : α → β) (r : Res σ α) : (r.mapVal φ).forget = r.forget := by
  cases r <;> rfl

theorem mapVal_mapVal {σ α β γ} (φ : α → β) (ψ : β → γ) (r : Res σ α) :
    (r.mapVal φ).mapVal ψ = r.mapVal (fun a => ψ (φ a)) := by
  cases r <;> rfl

theorem mapVal_id' {σ α} (r : Res σ α) : r.mapVal (fun a => a) = r := by
  cases r <;> rfl

/-- What `r1.noTrk = (r2.mapVal φ).noTrk` says, by cases. -/
theorem noTrk_eq_mapVal_cases {α β} {φ : α → β} {r1 : R β} {r2 : R α}
    (h : r1.noTrk = (r2.mapVal φ).noTrk) :
    (r1 = .oof ∧ r2 = .oof) ∨ (∃ m1 m2, r1 = .fail m1 ∧ r2 = .fail m2 ∧ m1.stk = m2.stk) ∨
    (∃ i m1 m2 a, r1 = .ok i m1 (φ a) ∧ r2 = .ok i m2 a ∧ m1.stk = m2.stk) := by
  cases r1 <;> cases r2 <;> simp [Res.noTrk, Res.mapVal] at h
  · exact Or.inl ⟨rfl, rfl⟩
  · exact Or.inr (Or.inl ⟨_, _, rfl, rfl, h⟩)
  · obtain ⟨rfl, hs, rfl⟩ := h; exact Or.inr (Or.inr ⟨_, _, _, _, rfl, rfl, hs⟩)

/-- Transfer to the check path: `check` is `parse` with the value forgotten (C03). -/
theorem check_noTrk_of_parse {g : NodeGrammar} {uni : Uni} {f1 f2 : Nat} {inh1 inh2 : Bool} {n1 n2 : Node}
    {i1 i2 : Inp} {m1 m2 : M} {φ : Val → Val}
    (h : (parse g uni f1 inh1 n1 i1 m1).noTrk = ((parse g uni f2 inh2 n2 i2 m2).mapVal φ).noTrk) :
    (check g uni f1 inh1 n1 i1 m1).noTrk = (check g uni f2 inh2 n2 i2 m2).noTrk := by
  rw [check_eq_parse_forget, check_eq_parse_forget, noTrk_forget, noTrk_forget, h, noTrk_mapVal]
  cases (parse g uni f2 inh2 n2 i2 m2).noTrk <;> rfl

theorem check_noTrk_of_parse_val {g : NodeGrammar} {uni : Uni} {f1 : Nat} {inh1 : Bool} {n1 : Node}
    {i1 : Inp} {m1 : M} {r : Res (List Sp) Val}
    (h : (parse g uni f1 inh1 n1 i1 m1).noTrk = r) :
    (check g uni f1 inh1 n1 i1 m1).noTrk = r.forget := by
  rw [check_eq_parse_forget, noTrk_forget, h]

theorem check_trkIndep (g : NodeGrammar) (uni : Uni) (n : Nat) (inh : Bool) (node : Node) :
    TrkIndep (check g uni n inh node) := by
  intro i m1 m2 h
  rw [check_eq_parse_forget, check_eq_parse_forget, noTrk_forget, noTrk_forget,
    parse_noTrk g uni n inh node i m1 m2 h]

theorem TrkIndep.isFail {α} {f : Inp → M → R α} (hf : TrkIndep f) {i : Inp} {m1 m2 : M}
    (hs : m1.stk = m2.stk) : (f i m1).isFail = (f i m2).isFail := by
  have := hf i m1 m2 hs
  cases h1 : f i m1 <;> cases h2 : f i m2 <;> rw [h1, h2] at this <;> simp [Res.noTrk] at this <;> rfl

theorem isFail_iff {σ α} (r : Res σ α) : r.isFail = true ↔ ∃ m, r = .fail m := by
  cases r <;> simp [Res.isFail]

/-! ### `choiceLoop` -/

theorem choiceLoop_cons_fail {α} (f : Node → Inp → M → R α) (a : Node) (as : List Node) (k : Nat)
    (i : Inp) (m m' : M) (h : f a i m = .fail m') :
    choiceLoop f (a :: as) k i m = choiceLoop f as (k+1) i { m' with stk := m.stk } := by
  rw [choiceLoop]; simp only [h, restoreOnNone]

theorem choiceLoop_cons_ok {α} (f : Node → Inp → M → R α) (a : Node) (as : List Node) (k : Nat)
    (i : Inp) (m : M) (i' : Inp) (m' : M) (v : α) (h : f a i m = .ok i' m' v) :
    choiceLoop f (a :: as) k i m = .ok i' m' (k, v) := by
  rw [choiceLoop]; simp only [h, restoreOnNone]

theorem choiceLoop_cons_oof {α} (f : Node → Inp → M → R α) (a : Node) (as : List Node) (k : Nat)
    (i : Inp) (m : M) (h : f a i m = .oof) :
    choiceLoop f (a :: as) k i m = .oof := by
  rw [choiceLoop]; simp only [h, restoreOnNone]

/-- The start index of `choiceLoop` is added to the index reported. -/
theorem choiceLoop_shift {α} (f : Node → Inp → M → R α) :
    ∀ as k d i m, choiceLoop f as (k + d) i m =
      (choiceLoop f as k i m).mapVal (fun p => (p.1 + d, p.2)) := by
  intro as
  induction as with
  | nil => intros; rfl
  | cons a as ih =>
    intro k d i m
    cases h : f a i m with
    | oof => rw [choiceLoop_cons_oof _ _ _ _ _ _ h, choiceLoop_cons_oof _ _ _ _ _ _ h]; rfl
    | ok i' m' v => rw [choiceLoop_cons_ok _ _ _ _ _ _ _ _ _ h, choiceLoop_cons_ok _ _ _ _ _ _ _ _ _ h]; rfl
    | fail mf =>
      rw [choiceLoop_cons_fail _ _ _ _ _ _ _ h, choiceLoop_cons_fail _ _ _ _ _ _ _ h]
      have : k + d + 1 = k + 1 + d := by omega
      rw [this]; exact ih _ _ _ _

/-- Only the indices `≥ k0` matter to a re-indexing of the result of `choiceLoop … k0`. -/
theorem choiceLoop_mapIdx_congr {α} (f : Node → Inp → M → R α) (as : List Node) (k0 : Nat) (i : Inp) (m : M)
    (φ ψ : Nat → Nat) (h : ∀ k, k0 ≤ k → k < k0 + as.length → φ k = ψ k) :
    (choiceLoop f as k0 i m).mapVal (fun p => (φ p.1, p.2)) =
      (choiceLoop f as k0 i m).mapVal (fun p => (ψ p.1, p.2)) := by
  rcases choiceLoop_cases f as k0 i m with h0 | ⟨m', _, h1⟩ | ⟨pre, a, post, m1, i', m', v, e, _, _, h1⟩
  · rw [h0]; rfl
  · rw [h1]; rfl
  · rw [h1]
    simp only [Res.mapVal_ok]
    rw [h _ (by omega) (by subst e; simp only [List.length_append, List.length_cons]; omega)]

/-- Reindexing after alternative number `j` has been removed from the list. -/
def dropIdx (j k : Nat) : Nat := if k < j then k else k + 1

/-- An alternative that fails at `(i, m)` can be removed from the list, wherever it stands: the
loop gives the same verdict, cursor, stack and value, the index of a later alternative being one
less.  `m1` is any state with the stack of `m` (e.g. the one the failures of earlier alternatives
left: same stack, longer tracker). -/
theorem choiceLoop_drop_failed {α} (f : Node → Inp → M → R α) (hf : ∀ n, TrkIndep (f n))
    (a : Node) (post : List Node) (i : Inp) (m mf : M) (ha : f a i m = .fail mf) :
    ∀ pre k0 m1, m1.stk = m.stk →
      (choiceLoop f (pre ++ a :: post) k0 i m1).noTrk =
        ((choiceLoop f (pre ++ post) k0 i m1).mapVal
          (fun p => (dropIdx (k0 + pre.length) p.1, p.2))).noTrk := by
  intro pre
  induction pre with
  | nil =>
    intro k0 m1 hs
    obtain ⟨mf2, h2, _⟩ := (hf a).fail_of_fail hs.symm ha
    simp only [List.nil_append, List.length_nil, Nat.add_zero]
    rw [choiceLoop_cons_fail _ _ _ _ _ _ _ h2, choiceLoop_shift,
      choiceLoop_mapIdx_congr f post k0 i m1 (dropIdx k0) (· + 1)
        (by intro k hk _; simp only [dropIdx]; rw [if_neg (by omega)]),
      noTrk_mapVal, noTrk_mapVal,
      choiceLoop_noTrk f hf post k0 i { mf2 with stk := m1.stk } m1 rfl]
  | cons b pre ih =>
    intro k0 m1 hs
    simp only [List.cons_append, List.length_cons]
    cases hb : f b i m1 with
    | oof => rw [choiceLoop_cons_oof _ _ _ _ _ _ hb, choiceLoop_cons_oof _ _ _ _ _ _ hb]; rfl
    | ok i' m' v =>
      rw [choiceLoop_cons_ok _ _ _ _ _ _ _ _ _ hb, choiceLoop_cons_ok _ _ _ _ _ _ _ _ _ hb]
      simp only [Res.mapVal_ok, dropIdx]
      rw [if_pos (by omega)]
    | fail mfb =>
      rw [choiceLoop_cons_fail _ _ _ _ _ _ _ hb, choiceLoop_cons_fail _ _ _ _ _ _ _ hb]
      have := ih (k0+1) { mfb with stk := m1.stk } hs
      have e : k0 + 1 + pre.length = k0 + (pre.length + 1) := by omega
      rw [e] at this
      exact this

/-- Alternatives that all fail at `(i, m)` can be dropped from the front of the list. -/
theorem choiceLoop_skip_failed_prefix {α} (f : Node → Inp → M → R α) (hf : ∀ n, TrkIndep (f n))
    (as : List Node) (i : Inp) (m : M) :
    ∀ pre, (∀ b ∈ pre, (f b i m).isFail = true) → ∀ k0 m1, m1.stk = m.stk →
      (choiceLoop f (pre ++ as) k0 i m1).noTrk =
        ((choiceLoop f as k0 i m1).mapVal (fun p => (p.1 + pre.length, p.2))).noTrk := by
  intro pre
  induction pre with
  | nil =>
    intro _ k0 m1 _
    simp only [List.nil_append, List.length_nil, Nat.add_zero]
    rw [mapVal_id']
  | cons b pre ih =>
    intro hpre k0 m1 hs
    have hb : (f b i m1).isFail = true := by
      rw [(hf b).isFail hs]; exact hpre b (List.mem_cons_self ..)
    obtain ⟨mfb, hb⟩ := (isFail_iff _).mp hb
    simp only [List.cons_append, List.length_cons]
    rw [choiceLoop_cons_fail _ _ _ _ _ _ _ hb,
      ih (fun c hc => hpre c (List.mem_cons_of_mem _ hc)) (k0+1) { mfb with stk := m1.stk } hs,
      choiceLoop_shift, mapVal_mapVal, noTrk_mapVal, noTrk_mapVal,
      choiceLoop_noTrk f hf as k0 i { mfb with stk := m1.stk } m1 rfl]
    congr 2
    funext p
    simp only [Prod.mk.injEq, and_true]
    omega

/-! ### value re-tagging -/

/-- Re-tag a choice value: `d` more alternatives, index mapped by `φ`. -/
def Val.reChoice (d : Nat) (φ : Nat → Nat) : Val → Val
  | .mk (.choice n k) kids => .mk (.choice (n + d) (φ k)) kids
  | v => v

/-- Replace the constructor tag, keeping the children. -/
def Val.retag (t : Tag) : Val → Val
  | .mk _ kids => .mk t kids

/-- Apply `φ` to the last element of a list. -/
def mapLast {α} (φ : α → α) : List α → List α
  | [] => []
  | [a] => [φ a]
  | a :: b :: l => a :: mapLast φ (b :: l)

theorem mapLast_append_singleton {α} (φ : α → α) (l : List α) (a : α) :
    mapLast φ (l ++ [a]) = l ++ [φ a] := by
  induction l with
  | nil => rfl
  | cons b l ih =>
    cases l with
    | nil => rfl
    | cons c l => simp only [List.cons_append, mapLast] at ih ⊢; rw [ih]

/-- Apply `φ` to the value of the first element of a sequence value (the last child of its first
`.skipped` child). -/
def Val.mapSeqHead (φ : Val → Val) : Val → Val
  | .mk .seq (.mk (.skipped n) kids :: vs) => .mk .seq (.mk (.skipped n) (mapLast φ kids) :: vs)
  | v => v

theorem Val.mapSeqHead_mk (φ : Val → Val) (sk : List Val) (a : Val) (vs : List Val) :
    Val.mapSeqHead φ (.mk .seq (mkSkipped sk a :: vs)) = .mk .seq (mkSkipped sk (φ a) :: vs) := by
  simp only [mkSkipped, Val.mapSeqHead, mapLast_append_singleton]

/-- Apply `φ` to the first component of a pair value. -/
def Val.mapPairFst (φ : Val → Val) : Val → Val
  | .mk .pair (a :: vs) => .mk .pair (φ a :: vs)
  | v => v

/-! ### node forms of `parse` as `mapVal` of their loops -/

theorem parse_choice_eq (g : NodeGrammar) (uni : Uni) (fuel : Nat) (inh : Bool) (alts : List Node)
    (i : Inp) (m : M) :
    parse g uni (fuel+1) inh (.choice alts) i m =
      (choiceLoop (parse g uni fuel inh) alts 0 i m).mapVal (fun p => .mk (.choice alts.length p.1) [p.2]) := by
  simp only [parse]
  cases choiceLoop (parse g uni fuel inh) alts 0 i m with
  | oof => rfl
  | fail _ => rfl
  | ok i' m' kv => cases kv; rfl

theorem parse_rep_eq (g : NodeGrammar) (uni : Uni) (fuel : Nat) (inh : Bool) (sk : Flag) (min : Nat)
    (max : Option Nat) (x : Node) (i : Inp) (m : M) :
    parse g uni (fuel+1) inh (.rep sk min max x) i m =
      (repLoop (parseRepUnit g uni fuel inh sk x) min max fuel 0 i m []).mapVal (fun vs => .mk (.rep min max) vs) := by
  simp only [parse, parseRepUnit]
  cases repLoop (repUnitP (parse g uni fuel false g.skipped) (parse g uni fuel inh x)
      (defaultSkipVal g) (skipCount sk inh)) min max fuel 0 i m [] <;> rfl

theorem parse_atomicRepeat_eq (g : NodeGrammar) (uni : Uni) (fuel : Nat) (inh : Bool) (x : Node)
    (i : Inp) (m : M) :
    (parse g uni (fuel+1) inh (.atomicRepeat x) i m).noTrk =
      ((repLoop (fun _ i m => parse g uni fuel inh x i m) 0 none (atomicBudget fuel) 0 i
        { m with trk := Tracker.new i } []).mapVal (fun vs => .mk .atomicRepeat vs)).noTrk := by
  simp only [parse]
  cases repLoop (fun _ i m => parse g uni fuel inh x i m) 0 none (atomicBudget fuel) 0 i
      { m with trk := Tracker.new i } [] <;> rfl

/-! ### `repLoop` -/

theorem repLoop_succ {α} (unit : Nat → Inp → M → R α) (min : Nat) (max : Option Nat)
    (budget idx : Nat) (i : Inp) (m : M) (acc : List α) :
    repLoop unit min max (budget+1) idx i m acc =
      if max = some idx then repDone min max i m acc
      else
        match restoreOnNone m.stk (unit idx i m) with
        | .oof => .oof
        | .fail m' => if idx < min then .fail m' else repDone min max i m' acc
        | .ok i' m' a => repLoop unit min max budget (idx+1) i' m' (a :: acc) := by
  rw [repLoop]; rfl

/-- The iterations made do not depend on `MAX` beyond the fact that none of them is number `MAX`. -/
theorem RepIters.change_max {α} {unit : Nat → Inp → M → R α} {max idx i m i' m' vs} (max' : Option Nat)
    (h : RepIters unit max idx i m i' m' vs) (hm : ∀ j, idx ≤ j → j < idx + vs.length → max' ≠ some j) :
    RepIters unit max' idx i m i' m' vs := by
  induction h with
  | nil idx i m => exact .nil _ _ _
  | @cons idx i m i1 m1 a i' m' vs _ hu _ ih =>
    refine .cons (hm idx (Nat.le_refl _) (by simp only [List.length_cons]; omega)) hu (ih ?_)
    intro j h1 h2
    exact hm j (by omega) (by simp only [List.length_cons]; omega)

/-- The iterations made do not depend on the tracker: from a state with the same stack the same
iterations succeed, with the same cursors, stacks and values. -/
theorem RepIters.noTrk {α} {unit : Nat → Inp → M → R α} (hu : ∀ idx, TrkIndep (unit idx))
    {max idx i m i' m' vs} (h : RepIters unit max idx i m i' m' vs) :
    ∀ m2, m.stk = m2.stk → ∃ m2', RepIters unit max idx i m2 i' m2' vs ∧ m'.stk = m2'.stk := by
  induction h with
  | nil idx i m => intro m2 hs; exact ⟨m2, .nil _ _ _, hs⟩
  | cons hmax hok _ ih =>
    intro m2 hs
    obtain ⟨m3, h3, hs3⟩ := (hu _).ok_of_ok hs hok
    obtain ⟨m4, h4, hs4⟩ := ih m3 hs3
    exact ⟨m4, .cons hmax h3 h4, hs4⟩

/-- When the attempt after the iterations `idx … idx + vs.length - 1` fails, the loop is — up to the
tracker — the loop with `MAX = idx + vs.length`, which stops there without making the attempt.
Same budget on both sides (both are out of fuel together). -/
theorem repLoop_as_if_never {α} {unit : Nat → Inp → M → R α} {min : Nat} {max : Option Nat}
    {idx i m i1 m1 vs} (hI : RepIters unit max idx i m i1 m1 vs) {mf : M}
    (hf : unit (idx + vs.length) i1 m1 = .fail mf) :
    ∀ budget acc, acc.length = idx →
      (repLoop unit min max budget idx i m acc).noTrk =
        (repLoop unit min (some (idx + vs.length)) budget idx i m acc).noTrk := by
  induction hI with
  | nil idx i m =>
    intro budget acc hlen
    simp only [List.length_nil, Nat.add_zero] at hf ⊢
    cases budget with
    | zero => rfl
    | succ b =>
      rw [repLoop_succ, repLoop_succ, if_pos rfl]
      by_cases hmax : max = some idx
      · rw [if_pos hmax, hmax]
      · rw [if_neg hmax, hf]
        simp only [restoreOnNone, repDone_eq_of_length, hlen, Option.isSome_some, true_and]
        by_cases hmin : idx < min
        · simp [hmin]
        · simp [hmin]
  | @cons idx i m i1 m1 a i' m' vs hmax hu _ ih =>
    intro budget acc hlen
    have e : idx + (a :: vs).length = idx + 1 + vs.length := by
      simp only [List.length_cons]; omega
    rw [e] at hf ⊢
    cases budget with
    | zero => rfl
    | succ b =>
      rw [repLoop_succ, repLoop_succ, if_neg hmax,
        if_neg (by intro h; injection h with h; omega), hu]
      simp only [restoreOnNone]
      exact ih hf b (a :: acc) (by simp only [List.length_cons, hlen])

/-- The explicit result: cursor and stack are those after the last successful iteration. -/
theorem repLoop_stop_noTrk {α} {unit : Nat → Inp → M → R α} {min : Nat} {max : Option Nat}
    {idx i m i1 m1 vs} (hI : RepIters unit max idx i m i1 m1 vs) {mf : M}
    (hf : unit (idx + vs.length) i1 m1 = .fail mf) (budget : Nat) (acc : List α) (hlen : acc.length = idx)
    (hb : vs.length < budget) :
    (repLoop unit min max budget idx i m acc).noTrk =
      if idx + vs.length < min then .fail m1.stk else .ok i1 m1.stk (acc.reverse ++ vs) := by
  by_cases hmax : max = some (idx + vs.length)
  · rw [repLoop_of_iters hI (Or.inl ⟨hmax, rfl⟩) budget acc hlen hb]
    split <;> rfl
  · rw [repLoop_of_iters hI (Or.inr ⟨hmax, mf, hf, rfl⟩) budget acc hlen hb]
    split <;> rfl

/-! ### continuation -/

/-- Whatever follows the first element of a sequence cannot tell apart two first elements that
agree up to the tracker (and a renaming `φ` of the value): the rest of the sequence — implicit
skips included, which may read the stack — runs from the same cursor and the same stack. -/
theorem parse_seq_head_congr (g : NodeGrammar) (uni : Uni) (fuel : Nat) (inh : Bool) (φ : Val → Val)
    (n1 n2 : Node) (rest : List Node) (sk : Flag) (i : Inp) (m : M)
    (h : (parse g uni fuel inh n1 i m).noTrk = ((parse g uni fuel inh n2 i m).mapVal φ).noTrk) :
    (parse g uni (fuel+1) inh (.seq sk (n1 :: rest)) i m).noTrk =
      ((parse g uni (fuel+1) inh (.seq sk (n2 :: rest)) i m).mapVal (Val.mapSeqHead φ)).noTrk := by
  simp only [parse]
  rcases noTrk_eq_mapVal_cases h with ⟨h1, h2⟩ | ⟨m1, m2, h1, h2, hs⟩ | ⟨i', m1, m2, a, h1, h2, hs⟩
  · rw [h1, h2]; rfl
  · rw [h1, h2]; simp [hs]
  · rw [h1, h2]
    simp only []
    have := seqLoop_noTrk (parse g uni fuel inh)
      (fun i m => skipLoop (parse g uni fuel false g.skipped) (skipCount sk inh) i m [])
      mkSkipped (parse_noTrk g uni fuel inh)
      (fun i m1 m2 h => skipLoop_noTrk _ (parse_noTrk g uni fuel false g.skipped) _ _ _ _ _ h) rest i' m1 m2 [] hs
    rcases noTrk_eq_cases this with ⟨hc, hp⟩ | ⟨m1', m2', hc, hp, he⟩ | ⟨i'', m1', m2', vs, hc, hp, he⟩
    · rw [hc, hp]; rfl
    · rw [hc, hp]; simp [he]
    · rw [hc, hp]
      simp only [Res.mapVal_ok, Res.noTrk_ok, Val.mapSeqHead_mk, he]

theorem parse_pair_fst_congr (g : NodeGrammar) (uni : Uni) (fuel : Nat) (inh : Bool) (φ : Val → Val)
    (n1 n2 k : Node) (i : Inp) (m : M)
    (h : (parse g uni fuel inh n1 i m).noTrk = ((parse g uni fuel inh n2 i m).mapVal φ).noTrk) :
    (parse g uni (fuel+1) inh (.pair n1 k) i m).noTrk =
      ((parse g uni (fuel+1) inh (.pair n2 k) i m).mapVal (Val.mapPairFst φ)).noTrk := by
  simp only [parse]
  rcases noTrk_eq_mapVal_cases h with ⟨h1, h2⟩ | ⟨m1, m2, h1, h2, hs⟩ | ⟨i', m1, m2, a, h1, h2, hs⟩
  · rw [h1, h2]; rfl
  · rw [h1, h2]; simp [hs]
  · rw [h1, h2]
    simp only []
    rcases noTrk_eq_cases (parse_noTrk g uni fuel inh k i' m1 m2 hs) with
      ⟨hc, hp⟩ | ⟨m1', m2', hc, hp, he⟩ | ⟨i'', m1', m2', vb, hc, hp, he⟩
    · rw [hc, hp]; rfl
    · rw [hc, hp]; simp [he]
    · rw [hc, hp]
      simp only [Res.mapVal_ok, Res.noTrk_ok, Val.mapPairFst, he]

/-- `r1.noTrk.forget = r2.noTrk.forget`, by cases. -/
theorem noTrk_forget_eq_cases {α β} {r1 : R α} {r2 : R β} (h : r1.noTrk.forget = r2.noTrk.forget) :
    (r1 = .oof ∧ r2 = .oof) ∨ (∃ m1 m2, r1 = .fail m1 ∧ r2 = .fail m2 ∧ m1.stk = m2.stk) ∨
    (∃ i m1 m2 a b, r1 = .ok i m1 a ∧ r2 = .ok i m2 b ∧ m1.stk = m2.stk) := by
  cases r1 <;> cases r2 <;> simp [Res.noTrk, Res.forget] at h
  · exact Or.inl ⟨rfl, rfl⟩
  · exact Or.inr (Or.inl ⟨_, _, rfl, rfl, h⟩)
  · obtain ⟨rfl, hs⟩ := h; exact Or.inr (Or.inr ⟨_, _, _, _, _, rfl, rfl, hs⟩)

/-- The same with the values forgotten altogether (this is the form the check path needs). -/
theorem parse_seq_head_congr_forget (g : NodeGrammar) (uni : Uni) (fuel : Nat) (inh : Bool)
    (n1 n2 : Node) (rest : List Node) (sk : Flag) (i : Inp) (m : M)
    (h : (parse g uni fuel inh n1 i m).noTrk.forget = (parse g uni fuel inh n2 i m).noTrk.forget) :
    (parse g uni (fuel+1) inh (.seq sk (n1 :: rest)) i m).noTrk.forget =
      (parse g uni (fuel+1) inh (.seq sk (n2 :: rest)) i m).noTrk.forget := by
  simp only [parse]
  rcases noTrk_forget_eq_cases h with ⟨h1, h2⟩ | ⟨m1, m2, h1, h2, hs⟩ | ⟨i', m1, m2, a, b, h1, h2, hs⟩
  · rw [h1, h2]
  · rw [h1, h2]; simp [hs]
  · rw [h1, h2]
    simp only []
    have := seqLoop_noTrk (parse g uni fuel inh)
      (fun i m => skipLoop (parse g uni fuel false g.skipped) (skipCount sk inh) i m [])
      mkSkipped (parse_noTrk g uni fuel inh)
      (fun i m1 m2 h => skipLoop_noTrk _ (parse_noTrk g uni fuel false g.skipped) _ _ _ _ _ h) rest i' m1 m2 [] hs
    rcases noTrk_eq_cases this with ⟨hc, hp⟩ | ⟨m1', m2', hc, hp, he⟩ | ⟨i'', m1', m2', vs, hc, hp, he⟩
    · rw [hc, hp]
    · rw [hc, hp]; simp [he]
    · rw [hc, hp]
      simp only [Res.noTrk_ok, Res.forget, he]

theorem check_seq_head_congr (g : NodeGrammar) (uni : Uni) (fuel : Nat) (inh : Bool)
    (n1 n2 : Node) (rest : List Node) (sk : Flag) (i : Inp) (m : M)
    (h : (check g uni fuel inh n1 i m).noTrk = (check g uni fuel inh n2 i m).noTrk) :
    (check g uni (fuel+1) inh (.seq sk (n1 :: rest)) i m).noTrk =
      (check g uni (fuel+1) inh (.seq sk (n2 :: rest)) i m).noTrk := by
  rw [check_eq_parse_forget, check_eq_parse_forget, noTrk_forget, noTrk_forget] at h ⊢
  exact parse_seq_head_congr_forget g uni fuel inh n1 n2 rest sk i m h

theorem RepIters.toArrayChain {α} {f : Inp → M → R α} {max idx i m i' m' vs}
    (h : RepIters (fun _ i m => f i m) max idx i m i' m' vs) : ArrayChain f i m i' m' vs := by
  induction h with
  | nil _ i m => exact .nil i m
  | cons _ hok _ ih => exact .cons hok ih

theorem isFail_forget {σ α} (r : Res σ α) : r.forget.isFail = r.isFail := by
  cases r <;> rfl

end PestTyped
