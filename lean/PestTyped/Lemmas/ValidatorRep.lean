/-
Lemmas.ValidatorRep — soundness of pest's grammar validator (`Model/Validator.lean`, a mirror of
`pest_meta::validator::validate_ast`) w.r.t. two of the three hypotheses of the termination theorem
`C11_terminates` (`NulOK`, `Progressing`; `Lemmas/Termination.lean`), for the module `gen g` generated
from the RAW grammar `g`.

Main statements
* `nonProg_fuel_irrelevant`, `nonFailing_fuel_irrelevant`: for `f ≥ valFuel g` the answers of
  `isNonProgressing g f` / `isNonFailing g f` do not depend on `f` (out of fuel is never reached).
* `validator_repetition_sound (g) (hf : ValFragment g = true) (hv : pestValidate g = [])` (and the
  primed form that only assumes `validateRepetition g = []` and `validateWhitespaceComment g = []`):
  `NulOK (gen g) (valNul g) ∧ Progressing (gen g) (valNul g)`
  where `valNul g` is the nullability assignment read off the validator (rule 0 = EOI: `true`; rule
  `k+1`: `isNonProgressing g (valFuel g) [name_k] body_k`; `valNul_eq_ident`: this is the validator's
  answer for the identifier `name_k` on an empty trace).
* `ValFragment` (decidable) with the simpler, validator-independent sufficient condition
  `ValFragmentSimple` (`ValFragmentSimple_sub`), and witnesses that each clause is needed
  (`fragment_witness_*`).

Proof: depth-first search with "cycle = false" and no memoisation computes the least fixpoint.
(M) `isNonProgressing_mono`     more fuel / a smaller trace only help;
(S) `isNonProgressing_room`     every jump pushes a defined name that is not on the trace, so
                                `traceRoom g U + 1 ≤ valFuel g` units of fuel suffice;
(E) `isNonProgressing_extend`   enlarging the trace by `T` changes nothing unless some rule of `T` is
                                non-progressing on its own (`NPRule`);
(Q) `pnullable_nonProgAux`      wherever the generated node is `nullable` under `valNul g`, the validator
                                answers "non-progressing" (post-fixpoint: `pnullable_rule`; repetition
                                bodies: `pnullable_nonProg0`).
-/
import PestTyped.Model.Validator
import PestTyped.Model.Gen
import PestTyped.Lemmas.Termination
namespace PestTyped

/-! ### unfolding -/

theorem isNonProgressing_succ (g : PGrammar) (f : Nat) (U : List String) (e : PExpr) :
    isNonProgressing g (f+1) U e = nonProgAux g (isNonProgressing g f) U e := rfl

theorem isNonFailing_succ (g : PGrammar) (f : Nat) (U : List String) (e : PExpr) :
    isNonFailing g (f+1) U e = nonFailingAux g (isNonFailing g f) U e := rfl

theorem isNonProgressing_zero (g : PGrammar) (U : List String) (e : PExpr) :
    isNonProgressing g 0 U e = false := rfl

theorem isNonFailing_zero (g : PGrammar) (U : List String) (e : PExpr) :
    isNonFailing g 0 U e = false := rfl

/-! ### the structural part is monotone in the jump oracle -/

theorem nonProgAux_mono (g : PGrammar) (jump jump' : List String → PExpr → Bool) (U U' : List String)
    (hj : ∀ y body, y ∉ U → vLookup g y = some body → jump (U ++ [y]) body = true →
      y ∉ U' ∧ jump' (U' ++ [y]) body = true) :
    ∀ e, nonProgAux g jump U e = true → nonProgAux g jump' U' e = true := by
  intro e
  induction e with
  | ident name =>
    simp only [nonProgAux]
    intro h
    split
    · rfl
    · next hne =>
      rw [if_neg hne] at h
      split at h
      · next hU =>
        cases hl : vLookup g name with
        | none => rw [hl] at h; cases h
        | some body =>
          rw [hl] at h
          have hU1 : name ∉ U := by simpa using hU
          obtain ⟨h1, h2⟩ := hj name body hU1 hl h
          have : (!U'.contains name) = true := by simpa using h1
          rw [if_pos this]; exact h2
      · cases h
  | seq a b iha ihb =>
    simp only [nonProgAux, Bool.and_eq_true]
    exact fun h => ⟨iha h.1, ihb h.2⟩
  | choice a b iha ihb =>
    simp only [nonProgAux, Bool.or_eq_true]
    exact fun h => h.elim (fun h => Or.inl (iha h)) (fun h => Or.inr (ihb h))
  | repExact e n ih | repMin e n ih | repMinMax e n m ih =>
    simp only [nonProgAux, Bool.or_eq_true]
    exact fun h => h.elim Or.inl (fun h => Or.inr (ih h))
  | push e ih | repOnce e ih => simp only [nonProgAux]; exact ih
  | _ => simp [nonProgAux]

theorem nonFailingAux_mono (g : PGrammar) (jump jump' : List String → PExpr → Bool) (U U' : List String)
    (hj : ∀ y body, y ∉ U → vLookup g y = some body → jump (U ++ [y]) body = true →
      y ∉ U' ∧ jump' (U' ++ [y]) body = true) :
    ∀ e, nonFailingAux g jump U e = true → nonFailingAux g jump' U' e = true := by
  intro e
  induction e with
  | ident name =>
    simp only [nonFailingAux]
    intro h
    split at h
    · next hU =>
      cases hl : vLookup g name with
      | none => rw [hl] at h; cases h
      | some body =>
        rw [hl] at h
        have hU1 : name ∉ U := by simpa using hU
        obtain ⟨h1, h2⟩ := hj name body hU1 hl h
        have : (!U'.contains name) = true := by simpa using h1
        rw [if_pos this]; exact h2
    · cases h
  | seq a b iha ihb =>
    simp only [nonFailingAux, Bool.and_eq_true]
    exact fun h => ⟨iha h.1, ihb h.2⟩
  | choice a b iha ihb =>
    simp only [nonFailingAux, Bool.or_eq_true]
    exact fun h => h.elim (fun h => Or.inl (iha h)) (fun h => Or.inr (ihb h))
  | repExact e n ih | repMin e n ih | repMinMax e n m ih =>
    simp only [nonFailingAux, Bool.or_eq_true]
    exact fun h => h.elim Or.inl (fun h => Or.inr (ih h))
  | push e ih | repOnce e ih | posPred e ih => simp only [nonFailingAux]; exact ih
  | _ => simp [nonFailingAux]

/-! ### (M) more fuel and a smaller trace only help -/

theorem isNonProgressing_mono (g : PGrammar) : ∀ (f f' : Nat) (U U' : List String) (e : PExpr),
    isNonProgressing g f U e = true → (∀ x, x ∈ U' → x ∈ U) → f ≤ f' →
    isNonProgressing g f' U' e = true := by
  intro f
  induction f with
  | zero => intro f' U U' e h; cases h
  | succ f ih =>
    intro f' U U' e h hU hf
    obtain ⟨f'', rfl⟩ : ∃ f'', f' = f'' + 1 := ⟨f' - 1, by omega⟩
    rw [isNonProgressing_succ] at h ⊢
    refine nonProgAux_mono g _ _ U U' ?_ e h
    intro y body hy _ hb
    refine ⟨fun h' => hy (hU y h'), ih f'' _ _ body hb ?_ (by omega)⟩
    intro x hx
    rcases List.mem_append.mp hx with hx | hx
    · exact List.mem_append.mpr (Or.inl (hU x hx))
    · exact List.mem_append.mpr (Or.inr hx)

theorem isNonFailing_mono (g : PGrammar) : ∀ (f f' : Nat) (U U' : List String) (e : PExpr),
    isNonFailing g f U e = true → (∀ x, x ∈ U' → x ∈ U) → f ≤ f' →
    isNonFailing g f' U' e = true := by
  intro f
  induction f with
  | zero => intro f' U U' e h; cases h
  | succ f ih =>
    intro f' U U' e h hU hf
    obtain ⟨f'', rfl⟩ : ∃ f'', f' = f'' + 1 := ⟨f' - 1, by omega⟩
    rw [isNonFailing_succ] at h ⊢
    refine nonFailingAux_mono g _ _ U U' ?_ e h
    intro y body hy _ hb
    refine ⟨fun h' => hy (hU y h'), ih f'' _ _ body hb ?_ (by omega)⟩
    intro x hx
    rcases List.mem_append.mp hx with hx | hx
    · exact List.mem_append.mpr (Or.inl (hU x hx))
    · exact List.mem_append.mpr (Or.inr hx)

/-! ### `vLookup` -/

theorem vr_vLookupGo_not_mem (name : String) : ∀ (rs : List PRule) (acc : Option PExpr),
    (∀ r, r ∈ rs → r.name ≠ name) → vLookupGo name rs acc = acc := by
  intro rs
  induction rs with
  | nil => intro acc _; rfl
  | cons r rs ih =>
    intro acc h
    simp only [vLookupGo]
    rw [if_neg (h r (List.mem_cons_self ..))]
    exact ih acc (fun r' hr' => h r' (List.mem_cons_of_mem _ hr'))

theorem vr_vLookupGo_some_mem (name : String) : ∀ (rs : List PRule) (acc : Option PExpr) (b : PExpr),
    vLookupGo name rs acc = some b → acc = some b ∨ ∃ r, r ∈ rs ∧ r.name = name ∧ r.expr = b := by
  intro rs
  induction rs with
  | nil => intro acc b h; exact Or.inl h
  | cons r rs ih =>
    intro acc b h
    simp only [vLookupGo] at h
    rcases ih _ b h with h1 | ⟨r', hr', hn, he⟩
    · split at h1
      · next hn => injection h1 with h1; exact Or.inr ⟨r, List.mem_cons_self .., hn, h1⟩
      · exact Or.inl h1
    · exact Or.inr ⟨r', List.mem_cons_of_mem _ hr', hn, he⟩

/-- A name the validator can jump to is the name of some rule. -/
theorem vr_vLookup_some_mem {g : PGrammar} {name : String} {b : PExpr} (h : vLookup g name = some b) :
    ∃ r, r ∈ g ∧ r.name = name ∧ r.expr = b := by
  rcases vr_vLookupGo_some_mem name g none b h with h | h
  · cases h
  · exact h

/-- Rule names are pairwise distinct. -/
def namesDistinct : List PRule → Bool
  | [] => true
  | r :: rs => !(rs.any fun r' => r'.name = r.name) && namesDistinct rs

theorem vr_vLookupGo_distinct (rs : List PRule) : namesDistinct rs = true → ∀ (r : PRule), r ∈ rs →
    ∀ acc, vLookupGo r.name rs acc = some r.expr := by
  induction rs with
  | nil => intro _ r hr; cases hr
  | cons r0 rs ih =>
    intro hd r hr acc
    simp only [namesDistinct, Bool.and_eq_true, Bool.not_eq_true', List.any_eq_false,
      decide_eq_true_eq] at hd
    simp only [vLookupGo]
    rcases List.mem_cons.mp hr with rfl | hr
    · rw [if_pos rfl]
      exact vr_vLookupGo_not_mem _ rs _ (fun r' hr' => hd.1 r' hr')
    · exact ih hd.2 r hr _

/-- With distinct names the hash map holds every rule. -/
theorem vr_vLookup_of_mem {g : PGrammar} (hd : namesDistinct g = true) {r : PRule} (hr : r ∈ g) :
    vLookup g r.name = some r.expr := vr_vLookupGo_distinct g hd r hr none

theorem vr_indexOf_go_some (name : String) : ∀ (rs : List PRule) (k0 k : Nat),
    PGrammar.indexOf.go name rs k0 = some k → ∃ j r, k = k0 + j ∧ rs[j]? = some r ∧ r.name = name := by
  intro rs
  induction rs with
  | nil => intro k0 k h; cases h
  | cons r rs ih =>
    intro k0 k h
    simp only [PGrammar.indexOf.go] at h
    split at h
    · next hn => injection h with h; exact ⟨0, r, by omega, rfl, hn⟩
    · obtain ⟨j, r', hk, hj, hn⟩ := ih _ _ h
      exact ⟨j+1, r', by omega, by simpa using hj, hn⟩

/-- `indexOf` answers the position of a rule of that name. -/
theorem vr_indexOf_some {g : PGrammar} {name : String} {k : Nat} (h : g.indexOf name = some k) :
    ∃ r, g[k]? = some r ∧ r.name = name := by
  obtain ⟨j, r, hk, hj, hn⟩ := vr_indexOf_go_some name g 0 k h
  have : k = j := by omega
  subst this
  exact ⟨r, hj, hn⟩

/-! ### (S) `valFuel g` is never exhausted -/

/-- The number of rules whose name is not on the trace: the number of jumps that are still possible. -/
def traceRoom (g : PGrammar) (U : List String) : Nat := (g.filter fun r => !U.contains r.name).length

theorem traceRoom_le (g : PGrammar) (U : List String) : traceRoom g U ≤ g.length :=
  List.length_filter_le _ _

theorem vr_filter_length_lt {α} (p q : α → Bool) : ∀ (l : List α), (∀ a, p a = true → q a = true) →
    (∃ a, a ∈ l ∧ q a = true ∧ p a = false) → (l.filter p).length < (l.filter q).length := by
  intro l hpq
  have hle : ∀ l : List α, (l.filter p).length ≤ (l.filter q).length := by
    intro l
    induction l with
    | nil => simp
    | cons a l ih =>
      simp only [List.filter_cons]
      cases hp : p a
      · cases hq : q a <;> simp <;> omega
      · simp [hpq a hp]; exact ih
  induction l with
  | nil => rintro ⟨a, ha, _⟩; cases ha
  | cons a l ih =>
    rintro ⟨b, hb, hqb, hpb⟩
    simp only [List.filter_cons]
    rcases List.mem_cons.mp hb with rfl | hb
    · simp [hqb, hpb]; have := hle l; omega
    · have := ih ⟨b, hb, hqb, hpb⟩
      cases hp : p a
      · cases hq : q a <;> simp <;> omega
      · simp [hpq a hp]; exact this

theorem traceRoom_jump {g : PGrammar} {U : List String} {y : String} {b : PExpr} (hy : y ∉ U)
    (hl : vLookup g y = some b) : traceRoom g (U ++ [y]) < traceRoom g U := by
  obtain ⟨r, hr, hn, _⟩ := vr_vLookup_some_mem hl
  apply vr_filter_length_lt
  · intro a ha
    simp only [Bool.not_eq_true', List.contains_eq_mem, List.mem_append, decide_eq_false_iff_not] at ha ⊢
    exact fun h => ha (Or.inl h)
  · refine ⟨r, hr, ?_, ?_⟩
    · simpa [hn] using hy
    · simp [hn]

theorem isNonProgressing_room (g : PGrammar) : ∀ (f : Nat) (U : List String) (e : PExpr),
    isNonProgressing g f U e = true → isNonProgressing g (traceRoom g U + 1) U e = true := by
  intro f
  induction f with
  | zero => intro U e h; cases h
  | succ f ih =>
    intro U e h
    rw [isNonProgressing_succ] at h ⊢
    refine nonProgAux_mono g _ _ U U ?_ e h
    intro y body hy hl hb
    refine ⟨hy, ?_⟩
    have := traceRoom_jump hy hl
    exact isNonProgressing_mono g _ _ _ _ body (ih _ body hb) (fun _ h => h) (by omega)

theorem isNonFailing_room (g : PGrammar) : ∀ (f : Nat) (U : List String) (e : PExpr),
    isNonFailing g f U e = true → isNonFailing g (traceRoom g U + 1) U e = true := by
  intro f
  induction f with
  | zero => intro U e h; cases h
  | succ f ih =>
    intro U e h
    rw [isNonFailing_succ] at h ⊢
    refine nonFailingAux_mono g _ _ U U ?_ e h
    intro y body hy hl hb
    refine ⟨hy, ?_⟩
    have := traceRoom_jump hy hl
    exact isNonFailing_mono g _ _ _ _ body (ih _ body hb) (fun _ h => h) (by omega)

/-- Any amount of fuel that gives `true` can be replaced by `valFuel g`. -/
theorem isNonProgressing_valFuel {g : PGrammar} {f : Nat} {U : List String} {e : PExpr}
    (h : isNonProgressing g f U e = true) : isNonProgressing g (valFuel g) U e = true :=
  isNonProgressing_mono g _ _ _ _ e (isNonProgressing_room g f U e h) (fun _ h => h)
    (by have := traceRoom_le g U; unfold valFuel; omega)

theorem isNonFailing_valFuel {g : PGrammar} {f : Nat} {U : List String} {e : PExpr}
    (h : isNonFailing g f U e = true) : isNonFailing g (valFuel g) U e = true :=
  isNonFailing_mono g _ _ _ _ e (isNonFailing_room g f U e h) (fun _ h => h)
    (by have := traceRoom_le g U; unfold valFuel; omega)

/-- `valFuel g` is enough: more fuel never changes the answer of `is_non_progressing`. -/
theorem nonProg_fuel_irrelevant (g : PGrammar) (f : Nat) (hf : valFuel g ≤ f) (U : List String) (e : PExpr) :
    isNonProgressing g f U e = isNonProgressing g (valFuel g) U e := by
  cases h : isNonProgressing g f U e with
  | true => exact (isNonProgressing_valFuel h).symm
  | false =>
    cases h' : isNonProgressing g (valFuel g) U e with
    | false => rfl
    | true => rw [isNonProgressing_mono g _ _ _ _ e h' (fun _ h => h) hf] at h; cases h

/-- `valFuel g` is enough: more fuel never changes the answer of `is_non_failing`. -/
theorem nonFailing_fuel_irrelevant (g : PGrammar) (f : Nat) (hf : valFuel g ≤ f) (U : List String) (e : PExpr) :
    isNonFailing g f U e = isNonFailing g (valFuel g) U e := by
  cases h : isNonFailing g f U e with
  | true => exact (isNonFailing_valFuel h).symm
  | false =>
    cases h' : isNonFailing g (valFuel g) U e with
    | false => rfl
    | true => rw [isNonFailing_mono g _ _ _ _ e h' (fun _ h => h) hf] at h; cases h

/-! ### (E) extending the trace either changes nothing or exhibits a non-progressing rule -/

/-- `is_non_progressing` answers `true` for some amount of fuel (equivalently for `valFuel g`). -/
def NP (g : PGrammar) (U : List String) (e : PExpr) : Prop := ∃ f, isNonProgressing g f U e = true

/-- Rule `t` is non-progressing on its own: the validator's answer for its body, entered from `t`. -/
def NPRule (g : PGrammar) (t : String) : Prop := ∃ b, vLookup g t = some b ∧ NP g [t] b

theorem NP_iff_valFuel (g : PGrammar) (U : List String) (e : PExpr) :
    NP g U e ↔ isNonProgressing g (valFuel g) U e = true :=
  ⟨fun ⟨_, h⟩ => isNonProgressing_valFuel h, fun h => ⟨_, h⟩⟩

theorem isNonProgressing_extend (g : PGrammar) (T : List String) (hT : ¬ ∃ t, t ∈ T ∧ NPRule g t) :
    ∀ (f : Nat) (U U' : List String) (e : PExpr), isNonProgressing g f U e = true →
      (∀ x, x ∈ U' → x ∈ U ∨ x ∈ T) → isNonProgressing g f U' e = true := by
  intro f
  induction f with
  | zero => intro U U' e h; cases h
  | succ f ih =>
    intro U U' e h hU
    rw [isNonProgressing_succ] at h ⊢
    refine nonProgAux_mono g _ _ U U' ?_ e h
    intro y body hy hl hb
    refine ⟨fun h' => ?_, ih _ _ body hb ?_⟩
    · rcases hU y h' with h1 | h1
      · exact hy h1
      · refine hT ⟨y, h1, body, hl, f, isNonProgressing_mono g _ _ _ _ body hb ?_ (Nat.le_refl _)⟩
        intro x hx
        exact List.mem_append.mpr (Or.inr hx)
    · intro x hx
      rcases List.mem_append.mp hx with hx | hx
      · exact (hU x hx).imp (fun h => List.mem_append.mpr (Or.inl h)) id
      · exact Or.inl (List.mem_append.mpr (Or.inr hx))

/-- (E) -/
theorem NP_extend (g : PGrammar) (T U U' : List String) (e : PExpr) (h : NP g U e)
    (hU : ∀ x, x ∈ U' → x ∈ U ∨ x ∈ T) : NP g U' e ∨ ∃ t, t ∈ T ∧ NPRule g t := by
  by_cases hT : ∃ t, t ∈ T ∧ NPRule g t
  · exact Or.inr hT
  · obtain ⟨f, h⟩ := h
    exact Or.inl ⟨f, isNonProgressing_extend g T hT f U U' e h hU⟩

/-! ### nullability of the generated node, read off the expression -/

/-- `nullable nul (genExpr g sk e)` computed on the expression. -/
def pnullable (g : PGrammar) (nul : RuleId → Bool) : PExpr → Bool
  | .str s => s.isEmpty
  | .insens s => s.isEmpty
  | .range _ _ => false
  | .ident name =>
    match g.indexOf name with
    | some k => nul (k+1)
    | none => nullable nul (builtinNode name)
  | .peekSlice _ _ => true
  | .posPred _ => true
  | .negPred _ => true
  | .seq a b => pnullable g nul a && pnullable g nul b
  | .choice a b => pnullable g nul a || pnullable g nul b
  | .opt _ => true
  | .rep _ => true
  | .repOnce e => pnullable g nul e
  | .repExact e n => n == 0 || pnullable g nul e
  | .repMin e n => n == 0 || pnullable g nul e
  | .repMax _ _ => true
  | .repMinMax e n _ => n == 0 || pnullable g nul e
  | .skip _ => true
  | .push e => pnullable g nul e
  | .restoreOnErr e => pnullable g nul e

theorem nullable_genExpr (g : PGrammar) (nul : RuleId → Bool) (sk : Flag) : ∀ e : PExpr,
    nullable nul (genExpr g sk e) = pnullable g nul e ∧
    nullableAll nul (genSeqSpine g sk e) = pnullable g nul e ∧
    nullableAny nul (genChoiceSpine g sk e) = pnullable g nul e := by
  intro e
  induction e with
  | seq a b iha ihb =>
    have h1 : nullable nul (genExpr g sk (.seq a b)) = pnullable g nul (.seq a b) := by
      simp only [genExpr, nullable, nullableAll, pnullable, iha.1, ihb.2.1]
    refine ⟨h1, ?_, ?_⟩
    · simp only [genSeqSpine, nullableAll, pnullable, iha.1, ihb.2.1]
    · simp only [genChoiceSpine, nullableAny, h1, Bool.or_false]
  | choice a b iha ihb =>
    have h1 : nullable nul (genExpr g sk (.choice a b)) = pnullable g nul (.choice a b) := by
      simp only [genExpr, nullable, nullableAny, pnullable, iha.1, ihb.2.2]
    refine ⟨h1, ?_, ?_⟩
    · simp only [genSeqSpine, nullableAll, h1, Bool.and_true]
    · simp only [genChoiceSpine, nullableAny, pnullable, iha.1, ihb.2.2]
  | ident name =>
    have h1 : nullable nul (genExpr g sk (.ident name)) = pnullable g nul (.ident name) := by
      simp only [genExpr, pnullable]
      cases g.indexOf name <;> simp only [nullable]
    exact ⟨h1, by simp only [genSeqSpine, nullableAll, h1, Bool.and_true],
      by simp only [genChoiceSpine, nullableAny, h1, Bool.or_false]⟩
  | posPred e ih | negPred e ih | opt e ih | rep e ih | repOnce e ih | repExact e n ih | repMin e n ih
  | repMax e n ih | repMinMax e n m ih | push e ih | restoreOnErr e ih =>
    refine ⟨?_, ?_, ?_⟩ <;>
      simp [genExpr, genSeqSpine, genChoiceSpine, nullable, nullableAll, nullableAny, pnullable, ih.1]
  | _ =>
    simp only [genExpr, genSeqSpine, genChoiceSpine, nullable, nullableAll, nullableAny, pnullable,
      Bool.and_true, Bool.or_false, and_self]

/-! ### the nullability assignment read off the validator -/

/-- Rule 0 of `gen g` is `EOI` (nullable); rule `k+1` is the `k`-th rule of the grammar: nullable iff
`is_non_progressing` says so for its body, entered from the rule itself. -/
def valNul (g : PGrammar) : RuleId → Bool
  | 0 => true
  | k+1 =>
    match g[k]? with
    | some r => isNonProgressing g (valFuel g) [r.name] r.expr
    | none => false

/-- The built-in stack operations that pest's `is_non_progressing` takes for progressing (they are not
keys of its rule map) although they may succeed without consuming input. -/
def stackNames : List String := ["PEEK", "PEEK_ALL", "POP", "POP_ALL", "DROP"]

theorem vr_nullable_ite_false {nul : RuleId → Bool} {c : Prop} [Decidable c] {a b : Node}
    (ha : nullable nul a = false) (hb : nullable nul b = false) :
    nullable nul (if c then a else b) = false := by
  split <;> assumption

theorem builtin_nullable {nul : RuleId → Bool} {x : String} (h : nullable nul (builtinNode x) = true) :
    x = "SOI" ∨ x = "EOI" ∨ x ∈ stackNames := by
  by_cases h1 : x = "SOI"
  · exact Or.inl h1
  by_cases h2 : x = "EOI"
  · exact Or.inr (Or.inl h2)
  by_cases h3 : x = "PEEK"
  · subst h3; exact Or.inr (Or.inr (List.mem_cons_self ..))
  by_cases h4 : x = "PEEK_ALL"
  · subst h4; exact Or.inr (Or.inr (List.mem_cons_of_mem _ (List.mem_cons_self ..)))
  by_cases h5 : x = "POP"
  · subst h5; exact Or.inr (Or.inr (List.mem_cons_of_mem _ (List.mem_cons_of_mem _ (List.mem_cons_self ..))))
  by_cases h6 : x = "POP_ALL"
  · subst h6
    exact Or.inr (Or.inr (List.mem_cons_of_mem _ (List.mem_cons_of_mem _ (List.mem_cons_of_mem _ (List.mem_cons_self ..)))))
  by_cases h7 : x = "DROP"
  · subst h7
    exact Or.inr (Or.inr (List.mem_cons_of_mem _ (List.mem_cons_of_mem _ (List.mem_cons_of_mem _
      (List.mem_cons_of_mem _ (List.mem_cons_self ..))))))
  exfalso
  have : nullable nul (builtinNode x) = false := by
    unfold builtinNode
    rw [if_neg h1, if_neg h2, if_neg h3, if_neg h4, if_neg h5, if_neg h6, if_neg h7]
    repeat' apply vr_nullable_ite_false
    all_goals simp [nullable, nullableAny, asciiDigit, asciiAlpha, asciiAlphaLower, asciiAlphaUpper]
  rw [this] at h; cases h

/-- The positions of an expression that the nullability analysis looks at contain no leaf on which
pest's `is_non_progressing` (`false`) and `nullable` of the generated node (`true`) disagree.  The
disagreeing leaves are
* `peekSlice` (`PEEK[a..b]`: succeeds without consuming on an empty slice; pest: "progressing");
* an identifier among `PEEK`, `PEEK_ALL`, `POP`, `POP_ALL`, `DROP` that the grammar does not define (not a
  key of pest's rule map: "progressing"; the generated built-in may succeed without consuming);
  `PUSH(e)` is fine (both sides look at `e`), and so is a user rule of one of these names;
* `skip` (optimizer node; `skipUntil` may consume nothing; mirror: `false`);
* `restoreOnErr e` (optimizer node; mirror: `false`, generated: the node of `e`).
Everything else stays in: predicates, `SOI`, `EOI` (also when the grammar defines a rule of that name:
the validator then answers "non-progressing" without looking, the safe side), counted repetitions, the
other undefined identifiers (`ANY`, `ASCII_*`, `NEWLINE`, unicode classes: non-nullable nodes; undefined
`WHITESPACE`/`COMMENT`: `alwaysFail`).
A disagreeing leaf is harmless where the analysis does not depend on it, so it is allowed
* below `e?`, `e*`, `e{,n}`, `e{0}`, `e{0,}`, `e{0,m}`, `&e`, `!e` (both sides answer "nullable" at once);
* in a sequence one of whose two parts is not nullable under `nul` (e.g. `PUSH("'") ~ … ~ POP`);
* in a choice whose other alternative is clean and nullable under `nul`. -/
def nulFrag (g : PGrammar) (nul : RuleId → Bool) : PExpr → Bool
  | .str _ => true
  | .insens _ => true
  | .range _ _ => true
  | .ident name => g.defines name || !stackNames.contains name
  | .peekSlice _ _ => false
  | .skip _ => false
  | .restoreOnErr _ => false
  | .posPred _ => true
  | .negPred _ => true
  | .opt _ => true
  | .rep _ => true
  | .repMax _ _ => true
  | .seq a b => (nulFrag g nul a && nulFrag g nul b) || !pnullable g nul a || !pnullable g nul b
  | .choice a b =>
    (nulFrag g nul a && nulFrag g nul b) || (nulFrag g nul a && pnullable g nul a) ||
      (nulFrag g nul b && pnullable g nul b)
  | .repExact e n => n == 0 || nulFrag g nul e
  | .repMin e n => n == 0 || nulFrag g nul e
  | .repMinMax e n _ => n == 0 || nulFrag g nul e
  | .repOnce e => nulFrag g nul e
  | .push e => nulFrag g nul e

theorem valNul_succ_true {g : PGrammar} (hd : namesDistinct g = true) {k : Nat} (h : valNul g (k+1) = true) :
    ∃ r, g[k]? = some r ∧ vLookup g r.name = some r.expr ∧
      isNonProgressing g (valFuel g) [r.name] r.expr = true := by
  simp only [valNul] at h
  cases hr : g[k]? with
  | none => rw [hr] at h; cases h
  | some r =>
    rw [hr] at h
    exact ⟨r, rfl, vr_vLookup_of_mem hd (List.mem_of_getElem? hr), h⟩

/-- (Q) the structural part: wherever the generated node is nullable under `valNul g`, the validator
answers "non-progressing" for every trace `T` none of whose rules is non-progressing on its own. -/
theorem pnullable_nonProgAux (g : PGrammar) (hd : namesDistinct g = true) (T : List String)
    (hT : ¬ ∃ t, t ∈ T ∧ NPRule g t) : ∀ e : PExpr, nulFrag g (valNul g) e = true →
      pnullable g (valNul g) e = true → nonProgAux g (isNonProgressing g g.length) T e = true := by
  intro e
  induction e with
  | ident name =>
    intro hfr hp
    simp only [nonProgAux]
    split
    · rfl
    · next hs =>
      simp only [Bool.or_eq_true, decide_eq_true_eq, not_or] at hs
      simp only [pnullable] at hp
      cases hi : g.indexOf name with
      | none =>
        rw [hi] at hp
        rcases builtin_nullable hp with h | h | h
        · exact absurd h hs.1
        · exact absurd h hs.2
        · simp [nulFrag, PGrammar.defines, hi, h] at hfr
      | some k =>
        rw [hi] at hp
        obtain ⟨r, hr, hl, hnp⟩ := valNul_succ_true hd hp
        obtain ⟨r', hr', hn⟩ := vr_indexOf_some hi
        rw [hr] at hr'; injection hr' with hr'; subst hr'
        rw [hn] at hl hnp
        by_cases hmem : name ∈ T
        · exact absurd ⟨name, hmem, r.expr, hl, _, hnp⟩ hT
        · have hc : (!T.contains name) = true := by simpa using hmem
          rw [if_pos hc, hl]
          have h1 := isNonProgressing_extend g T hT _ [name] (T ++ [name]) r.expr hnp (by
            intro x hx
            rcases List.mem_append.mp hx with hx | hx
            · exact Or.inr hx
            · exact Or.inl hx)
          have h2 := isNonProgressing_room g _ _ _ h1
          have h3 := traceRoom_jump hmem hl
          have h4 := traceRoom_le g T
          exact isNonProgressing_mono g _ _ _ _ _ h2 (fun _ h => h) (by omega)
  | seq a b iha ihb =>
    intro hfr hp
    simp only [pnullable, Bool.and_eq_true] at hp
    simp only [nulFrag, hp.1, hp.2, Bool.not_true, Bool.or_false, Bool.and_eq_true] at hfr
    simp only [nonProgAux, Bool.and_eq_true]
    exact ⟨iha hfr.1 hp.1, ihb hfr.2 hp.2⟩
  | choice a b iha ihb =>
    intro hfr hp
    simp only [pnullable, Bool.or_eq_true] at hp
    simp only [nulFrag, Bool.or_eq_true, Bool.and_eq_true] at hfr
    simp only [nonProgAux, Bool.or_eq_true]
    rcases hfr with (⟨fa, fb⟩ | ⟨fa, pa⟩) | ⟨fb, pb⟩
    · exact hp.elim (fun h => Or.inl (iha fa h)) (fun h => Or.inr (ihb fb h))
    · exact Or.inl (iha fa pa)
    · exact Or.inr (ihb fb pb)
  | repExact e n ih | repMin e n ih | repMinMax e n m ih =>
    intro hfr hp
    simp only [pnullable, Bool.or_eq_true] at hp
    simp only [nulFrag, Bool.or_eq_true] at hfr
    simp only [nonProgAux, Bool.or_eq_true]
    rcases hfr with h | h
    · exact Or.inl h
    · exact hp.elim Or.inl (fun hp => Or.inr (ih h hp))
  | push e ih | repOnce e ih =>
    intro hfr hp
    simp only [pnullable] at hp
    simp only [nulFrag] at hfr
    simp only [nonProgAux]
    exact ih hfr hp
  | _ => simp [nulFrag, pnullable, nonProgAux]

/-- (Q) for the empty trace: a node that is nullable under `valNul g` is non-progressing for pest. -/
theorem pnullable_nonProg0 (g : PGrammar) (hd : namesDistinct g = true) (e : PExpr)
    (hfr : nulFrag g (valNul g) e = true) (hp : pnullable g (valNul g) e = true) : nonProg0 g e = true :=
  pnullable_nonProgAux g hd [] (by rintro ⟨t, ht, _⟩; cases ht) e hfr hp

/-- (Q) for a rule body: `valNul g` is a post-fixpoint. -/
theorem pnullable_rule (g : PGrammar) (hd : namesDistinct g = true) (r : PRule) (hr : r ∈ g)
    (hfr : nulFrag g (valNul g) r.expr = true) (hp : pnullable g (valNul g) r.expr = true) :
    isNonProgressing g (valFuel g) [r.name] r.expr = true := by
  have hl := vr_vLookup_of_mem hd hr
  by_cases hT : ∃ t, t ∈ [r.name] ∧ NPRule g t
  · obtain ⟨t, ht, b, hb, hnp⟩ := hT
    have : t = r.name := by simpa using ht
    subst this
    rw [hl] at hb; injection hb with hb; subst hb
    exact (NP_iff_valFuel g _ _).mp hnp
  · exact pnullable_nonProgAux g hd [r.name] hT r.expr hfr hp

/-! ### `repsOK` of a generated body from the nodes `validate_repetition` visits -/

/-- What `repsOK` needs of one node of `e.topDown`: an unbounded repetition (`e*`, `e+`, `e{n,}`: the
three forms `validate_repetition` inspects, the only ones generated with `max = none`) has a body whose
generated node is not nullable.  `restoreOnErr` is excluded because `topDown` does not look inside. -/
def nodeOK (g : PGrammar) (nul : RuleId → Bool) : PExpr → Bool
  | .restoreOnErr _ => false
  | .rep e => !pnullable g nul e
  | .repOnce e => !pnullable g nul e
  | .repMin e _ => !pnullable g nul e
  | _ => true

theorem vr_repsOK_ite {nul : RuleId → Bool} {c : Prop} [Decidable c] {a b : Node}
    (ha : repsOK nul a = true) (hb : repsOK nul b = true) : repsOK nul (if c then a else b) = true := by
  split <;> assumption

theorem repsOK_builtin (nul : RuleId → Bool) (x : String) : repsOK nul (builtinNode x) = true := by
  unfold builtinNode
  repeat' apply vr_repsOK_ite
  all_goals simp [repsOK, repsOKAll, asciiDigit, asciiAlpha, asciiAlphaLower, asciiAlphaUpper]

theorem vr_topDown_self (e : PExpr) : e ∈ e.topDown := by
  cases e <;> simp [PExpr.topDown]

theorem repsOK_genExpr (g : PGrammar) (nul : RuleId → Bool) (sk : Flag) : ∀ e : PExpr,
    (∀ x, x ∈ e.topDown → nodeOK g nul x = true) →
    repsOK nul (genExpr g sk e) = true ∧ repsOKAll nul (genSeqSpine g sk e) = true ∧
      repsOKAll nul (genChoiceSpine g sk e) = true := by
  intro e
  induction e with
  | seq a b iha ihb =>
    intro h
    have ha := iha (fun x hx => h x (by simp [PExpr.topDown, hx]))
    have hb := ihb (fun x hx => h x (by simp [PExpr.topDown, hx]))
    have h1 : repsOK nul (genExpr g sk (.seq a b)) = true := by
      simp only [genExpr, repsOK, repsOKAll, ha.1, hb.2.1, Bool.and_self]
    refine ⟨h1, ?_, ?_⟩
    · simp only [genSeqSpine, repsOKAll, ha.1, hb.2.1, Bool.and_self]
    · simp only [genChoiceSpine, repsOKAll, h1, Bool.and_self]
  | choice a b iha ihb =>
    intro h
    have ha := iha (fun x hx => h x (by simp [PExpr.topDown, hx]))
    have hb := ihb (fun x hx => h x (by simp [PExpr.topDown, hx]))
    have h1 : repsOK nul (genExpr g sk (.choice a b)) = true := by
      simp only [genExpr, repsOK, repsOKAll, ha.1, hb.2.2, Bool.and_self]
    refine ⟨h1, ?_, ?_⟩
    · simp only [genSeqSpine, repsOKAll, h1, Bool.and_self]
    · simp only [genChoiceSpine, repsOKAll, ha.1, hb.2.2, Bool.and_self]
  | ident name =>
    intro _
    have h1 : repsOK nul (genExpr g sk (.ident name)) = true := by
      simp only [genExpr]
      cases g.indexOf name
      · exact repsOK_builtin nul name
      · simp only [repsOK]
    exact ⟨h1, by simp only [genSeqSpine, repsOKAll, h1, Bool.and_self],
      by simp only [genChoiceSpine, repsOKAll, h1, Bool.and_self]⟩
  | restoreOnErr e _ =>
    intro h
    have := h _ (vr_topDown_self _)
    simp [nodeOK] at this
  | posPred e ih | negPred e ih | opt e ih | repExact e n ih | repMax e n ih | repMinMax e n m ih | push e ih =>
    intro h
    have he := ih (fun x hx => h x (by simp [PExpr.topDown, hx]))
    refine ⟨?_, ?_, ?_⟩ <;>
      simp [genExpr, genSeqSpine, genChoiceSpine, repsOK, repsOKAll, he.1]
  | rep e ih | repOnce e ih | repMin e n ih =>
    intro h
    have he := ih (fun x hx => h x (by simp [PExpr.topDown, hx]))
    have h0 := h _ (vr_topDown_self _)
    simp only [nodeOK, Bool.not_eq_true'] at h0
    refine ⟨?_, ?_, ?_⟩ <;>
      simp [genExpr, genSeqSpine, genChoiceSpine, repsOK, repsOKAll, he.1, (nullable_genExpr g nul sk e).1, h0]
  | _ =>
    intro _
    simp [genExpr, genSeqSpine, genChoiceSpine, repsOK, repsOKAll]

/-! ### the fragment -/

/-- The per-node clause of the fragment (over `e.topDown`): no `restoreOnErr` (never in a raw AST;
`filter_map_top_down` does not visit what is below it, so `validate_repetition` would miss repetitions
there), and the body of every unbounded repetition is free of disagreeing leaves at the positions the
nullability analysis looks at. -/
def nodeFrag (g : PGrammar) (nul : RuleId → Bool) : PExpr → Bool
  | .restoreOnErr _ => false
  | .rep e => nulFrag g nul e
  | .repOnce e => nulFrag g nul e
  | .repMin e _ => nulFrag g nul e
  | _ => true

/-- The fragment on which acceptance by pest's validator implies `NulOK` and `Progressing` for
`valNul g`.  Clauses (each is needed, see the `fragment_witness_*` theorems at the end of the file):
* `namesDistinct g`: `gen` links an identifier to the FIRST rule of that name (`indexOf`), pest's
  validator looks at the LAST one (`HashMap` built by `collect`)  — `fragment_witness_duplicate`;
* `nulFrag` of every rule body: otherwise `valNul g` is not a post-fixpoint (`b = { POP }` is
  "progressing" for pest, its generated body is nullable)  — `fragment_witness_body`;
* `nodeFrag` of every node `validate_repetition` visits: no `restoreOnErr`
  (`fragment_witness_restoreOnErr`) and `nulFrag` of the body of every unbounded repetition (pest
  accepts `PEEK*`, `PEEK[0..]*`, which loop)  — `fragment_witness_peek`, `fragment_witness_peekSlice`.
`ValFragmentSimple` (below) is a sufficient condition that does not mention the validator's answers. -/
def ValFragment (g : PGrammar) : Bool :=
  namesDistinct g &&
  g.all fun r => nulFrag g (valNul g) r.expr && r.expr.topDown.all (nodeFrag g (valNul g))

theorem repetitionError_none {g : PGrammar} {e : PExpr}
    (h : (if nonFailing0 g e then some ValidatorError.repCannotFail
      else if nonProg0 g e then some ValidatorError.repNonProgressing else none) = none) :
    nonProg0 g e = false := by
  split at h
  · cases h
  · split at h
    · cases h
    · next h2 => simpa using h2

theorem nodeOK_of_validator (g : PGrammar) (hd : namesDistinct g = true) (x : PExpr)
    (hfr : nodeFrag g (valNul g) x = true) (hv : repetitionError g x = none) :
    nodeOK g (valNul g) x = true := by
  cases x with
  | restoreOnErr e => simp [nodeFrag] at hfr
  | rep e | repOnce e | repMin e n =>
    simp only [nodeFrag] at hfr
    simp only [repetitionError] at hv
    have h1 := repetitionError_none hv
    simp only [nodeOK, Bool.not_eq_true']
    cases hp : pnullable g (valNul g) e with
    | false => rfl
    | true => rw [pnullable_nonProg0 g hd e hfr hp] at h1; cases h1
  | _ => rfl

/-! ### the skip type -/

theorem valNul_skipRule (g : PGrammar) (hw : validateWhitespaceComment g = []) (name : String)
    (hname : name = "WHITESPACE" ∨ name = "COMMENT") (k : Nat) (hk : g.indexOf name = some k) :
    valNul g (k+1) = false := by
  obtain ⟨r, hr, hn⟩ := vr_indexOf_some hk
  have hmem := List.mem_of_getElem? hr
  have h1 := List.filterMap_eq_nil_iff.mp hw r hmem
  simp only [skipRuleError] at h1
  have hc : (decide (r.name = "WHITESPACE") || decide (r.name = "COMMENT")) = true := by
    rw [hn]; rcases hname with h | h <;> simp [h]
  rw [if_pos hc] at h1
  have h2 := repetitionError_none (by
    split at h1
    · cases h1
    · next hnf =>
      rw [if_neg hnf]
      split at h1
      · cases h1
      · next hnp => rw [if_neg hnp])
  simp only [valNul, hr]
  cases h3 : isNonProgressing g (valFuel g) [r.name] r.expr with
  | false => rfl
  | true =>
    have := isNonProgressing_mono g _ _ _ [] _ h3 (fun _ h => by cases h) (Nat.le_refl _)
    unfold nonProg0 at h2
    rw [this] at h2; cases h2

theorem repsOK_genSkipped (g : PGrammar) (hw : validateWhitespaceComment g = []) :
    repsOK (valNul g) (genSkipped g) = true := by
  unfold genSkipped
  cases hW : g.indexOf "WHITESPACE" with
  | none =>
    cases hC : g.indexOf "COMMENT" with
    | none => simp [repsOK]
    | some c => simp [repsOK, nullable, valNul_skipRule g hw "COMMENT" (Or.inr rfl) c hC]
  | some w =>
    cases hC : g.indexOf "COMMENT" with
    | none => simp [repsOK, nullable, valNul_skipRule g hw "WHITESPACE" (Or.inl rfl) w hW]
    | some c =>
      simp [repsOK, repsOKAll, nullable, nullableAny, valNul_skipRule g hw "WHITESPACE" (Or.inl rfl) w hW,
        valNul_skipRule g hw "COMMENT" (Or.inr rfl) c hC]

/-! ### the theorem -/

theorem vr_gen_rule {g : PGrammar} {k : Nat} {d : RuleDef} (h : (gen g).rule? (k+1) = some d) :
    ∃ r, g[k]? = some r ∧ r ∈ g ∧ d = genRule g r := by
  simp only [NodeGrammar.rule?, gen, List.getElem?_cons_succ, List.getElem?_map] at h
  cases hr : g[k]? with
  | none => rw [hr] at h; cases h
  | some r =>
    rw [hr] at h
    injection h with h
    exact ⟨r, rfl, List.mem_of_getElem? hr, h.symm⟩

/-- Soundness of pest's repetition / WHITESPACE-COMMENT validation w.r.t. the hypotheses of the
termination theorem, on the fragment. -/
theorem validator_repetition_sound' (g : PGrammar) (hf : ValFragment g = true)
    (hrep : validateRepetition g = []) (hws : validateWhitespaceComment g = []) :
    NulOK (gen g) (valNul g) ∧ Progressing (gen g) (valNul g) := by
  simp only [ValFragment, Bool.and_eq_true, List.all_eq_true] at hf
  obtain ⟨hd, hfr⟩ := hf
  refine ⟨?_, ⟨?_, repsOK_genSkipped g hws⟩⟩
  · intro r d hr hn
    cases r with
    | zero => rfl
    | succ k =>
      obtain ⟨pr, hk, hmem, rfl⟩ := vr_gen_rule hr
      simp only [genRule, (nullable_genExpr g (valNul g) _ pr.expr).1] at hn
      simp only [valNul, hk]
      exact pnullable_rule g hd pr hmem (hfr pr hmem).1 hn
  · intro r d hr
    cases r with
    | zero =>
      simp only [NodeGrammar.rule?, gen, List.getElem?_cons_zero] at hr
      injection hr with hr; subst hr
      simp [eoiDef, repsOK]
    | succ k =>
      obtain ⟨pr, hk, hmem, rfl⟩ := vr_gen_rule hr
      simp only [genRule]
      refine (repsOK_genExpr g (valNul g) _ pr.expr ?_).1
      intro x hx
      refine nodeOK_of_validator g hd x ((hfr pr hmem).2 x hx) ?_
      have h1 := List.flatMap_eq_nil_iff.mp hrep pr hmem
      exact List.filterMap_eq_nil_iff.mp h1 x hx

theorem validator_repetition_sound (g : PGrammar) (hf : ValFragment g = true) (hv : pestValidate g = []) :
    NulOK (gen g) (valNul g) ∧ Progressing (gen g) (valNul g) := by
  unfold pestValidate at hv
  simp only [List.append_eq_nil_iff] at hv
  exact validator_repetition_sound' g hf hv.1.1.1 hv.1.2

/-- `namesDistinct` is `Nodup` of the list of names. -/
theorem namesDistinct_iff_nodup (g : PGrammar) : namesDistinct g = true ↔ (g.map (·.name)).Nodup := by
  induction g with
  | nil => simp [namesDistinct]
  | cons r rs ih =>
    simp only [namesDistinct, Bool.and_eq_true, Bool.not_eq_true', List.any_eq_false, decide_eq_true_eq,
      List.map_cons, List.nodup_cons, List.mem_map, not_exists, not_and, ih]

/-! ### `valNul` is the validator's answer for the rule's identifier -/

theorem valNul_eq_ident (g : PGrammar) (hd : namesDistinct g = true) (k : Nat) (r : PRule)
    (hr : g[k]? = some r) (hs : r.name ≠ "SOI" ∧ r.name ≠ "EOI") :
    valNul g (k+1) = isNonProgressing g (valFuel g) [] (.ident r.name) := by
  have hl := vr_vLookup_of_mem hd (List.mem_of_getElem? hr)
  have hrhs : isNonProgressing g (valFuel g) [] (.ident r.name) =
      isNonProgressing g g.length [r.name] r.expr := by
    show nonProgAux g (isNonProgressing g g.length) [] (.ident r.name) = _
    simp [nonProgAux, hs.1, hs.2, hl]
  simp only [valNul, hr, hrhs]
  cases h : isNonProgressing g g.length [r.name] r.expr with
  | true => exact isNonProgressing_valFuel h
  | false =>
    cases h' : isNonProgressing g (valFuel g) [r.name] r.expr with
    | false => rfl
    | true =>
      have h2 := isNonProgressing_room g _ _ _ h'
      have h3 : traceRoom g ([] ++ [r.name]) < traceRoom g [] :=
        traceRoom_jump (by simp) hl
      have h4 := traceRoom_le g []
      rw [isNonProgressing_mono g _ g.length _ _ _ h2 (fun _ h => h) (by simp at h3; omega)] at h
      cases h

/-! ### a simpler sufficient condition that does not mention the validator -/

/-- No `peekSlice`, `skip`, `restoreOnErr`, and no undefined `PEEK`/`PEEK_ALL`/`POP`/`POP_ALL`/`DROP`
anywhere in the expression. -/
def simpleFrag (g : PGrammar) : PExpr → Bool
  | .str _ => true
  | .insens _ => true
  | .range _ _ => true
  | .ident name => g.defines name || !stackNames.contains name
  | .peekSlice _ _ => false
  | .skip _ => false
  | .restoreOnErr _ => false
  | .posPred e => simpleFrag g e
  | .negPred e => simpleFrag g e
  | .opt e => simpleFrag g e
  | .rep e => simpleFrag g e
  | .repOnce e => simpleFrag g e
  | .repExact e _ => simpleFrag g e
  | .repMin e _ => simpleFrag g e
  | .repMax e _ => simpleFrag g e
  | .repMinMax e _ _ => simpleFrag g e
  | .push e => simpleFrag g e
  | .seq a b => simpleFrag g a && simpleFrag g b
  | .choice a b => simpleFrag g a && simpleFrag g b

def ValFragmentSimple (g : PGrammar) : Bool :=
  namesDistinct g && g.all fun r => simpleFrag g r.expr

theorem simpleFrag_nulFrag (g : PGrammar) (nul : RuleId → Bool) : ∀ e : PExpr,
    simpleFrag g e = true → nulFrag g nul e = true := by
  intro e
  induction e with
  | seq a b iha ihb =>
    simp only [simpleFrag, nulFrag, Bool.and_eq_true, Bool.or_eq_true]
    exact fun h => Or.inl (Or.inl ⟨iha h.1, ihb h.2⟩)
  | choice a b iha ihb =>
    simp only [simpleFrag, nulFrag, Bool.and_eq_true, Bool.or_eq_true]
    exact fun h => Or.inl (Or.inl ⟨iha h.1, ihb h.2⟩)
  | repExact e n ih | repMin e n ih | repMinMax e n m ih =>
    simp only [simpleFrag, nulFrag, Bool.or_eq_true]
    exact fun h => Or.inr (ih h)
  | repOnce e ih | push e ih => simpa only [simpleFrag, nulFrag] using ih
  | _ => simp [simpleFrag, nulFrag]

theorem simpleFrag_topDown (g : PGrammar) : ∀ e : PExpr, simpleFrag g e = true →
    ∀ x, x ∈ e.topDown → simpleFrag g x = true := by
  intro e
  induction e with
  | seq a b iha ihb | choice a b iha ihb =>
    intro h x hx
    simp only [PExpr.topDown, List.mem_cons, List.mem_append] at hx
    have h' := h
    simp only [simpleFrag, Bool.and_eq_true] at h'
    rcases hx with rfl | hx | hx
    · exact h
    · exact iha h'.1 x hx
    · exact ihb h'.2 x hx
  | posPred e ih | negPred e ih | opt e ih | rep e ih | repOnce e ih | repExact e n ih | repMin e n ih
  | repMax e n ih | repMinMax e n m ih | push e ih =>
    intro h x hx
    simp only [PExpr.topDown, List.mem_cons] at hx
    rcases hx with rfl | hx
    · exact h
    · exact ih (by simpa only [simpleFrag] using h) x hx
  | _ =>
    intro h x hx
    simp only [PExpr.topDown, List.mem_singleton] at hx
    subst hx; exact h

theorem simpleFrag_nodeFrag (g : PGrammar) (nul : RuleId → Bool) (x : PExpr) (h : simpleFrag g x = true) :
    nodeFrag g nul x = true := by
  cases x with
  | restoreOnErr e => simp [simpleFrag] at h
  | rep e | repOnce e | repMin e n => exact simpleFrag_nulFrag g nul e (by simpa only [simpleFrag] using h)
  | _ => rfl

theorem ValFragmentSimple_sub (g : PGrammar) (h : ValFragmentSimple g = true) : ValFragment g = true := by
  simp only [ValFragmentSimple, Bool.and_eq_true, List.all_eq_true] at h
  simp only [ValFragment, Bool.and_eq_true, List.all_eq_true]
  refine ⟨h.1, fun r hr => ⟨simpleFrag_nulFrag g _ _ (h.2 r hr), fun x hx => ?_⟩⟩
  exact simpleFrag_nodeFrag g _ x (simpleFrag_topDown g _ (h.2 r hr) x hx)

/-! ### non-vacuity and witnesses -/

/-- `a = { ("x" ~ b?)* ~ EOI }  b = { !"y" ~ ANY }  WHITESPACE = { " " }` -/
def vrG1 : PGrammar := [
  { name := "a", kind := .normal, expr := .seq (.rep (.seq (.str ['x']) (.opt (.ident "b")))) (.ident "EOI") },
  { name := "b", kind := .normal, expr := .seq (.negPred (.str ['y'])) (.ident "ANY") },
  { name := "WHITESPACE", kind := .normal, expr := .str [' '] }]

example : ValFragmentSimple vrG1 = true ∧ ValFragment vrG1 = true ∧ pestValidate vrG1 = [] := by decide
example : NulOK (gen vrG1) (valNul vrG1) ∧ Progressing (gen vrG1) (valNul vrG1) :=
  validator_repetition_sound vrG1 (by decide) (by decide)

/-- The stack idiom `string = { PUSH(quote) ~ (!PEEK ~ ANY)* ~ POP }  quote = { "\"" | "'" }
opt = { (&quote ~ e)* }  e = { string? ~ ANY{2,} }`: in `ValFragment` (not in `ValFragmentSimple`), accepted. -/
def vrG2 : PGrammar := [
  { name := "string", kind := .atomic,
    expr := .seq (.push (.ident "quote")) (.seq (.rep (.seq (.negPred (.ident "PEEK")) (.ident "ANY"))) (.ident "POP")) },
  { name := "quote", kind := .normal, expr := .choice (.str ['"']) (.str ['\'']) },
  { name := "opt", kind := .normal, expr := .rep (.seq (.posPred (.ident "quote")) (.ident "e")) },
  { name := "e", kind := .normal, expr := .seq (.opt (.ident "string")) (.repMin (.ident "ANY") 2) }]

example : ValFragment vrG2 = true ∧ ValFragmentSimple vrG2 = false ∧ pestValidate vrG2 = [] := by decide
example : valNul vrG2 3 = true ∧ valNul vrG2 1 = false := by decide

/-- In the fragment and rejected: `a = { (b | "x")* }  b = { !c ~ a }  c = { "y" }` (the body of the
repetition is non-progressing through `b`, which ends in the nullable `a`). -/
def vrG3 : PGrammar := [
  { name := "a", kind := .normal, expr := .rep (.choice (.ident "b") (.str ['x'])) },
  { name := "b", kind := .normal, expr := .seq (.negPred (.ident "c")) (.ident "a") },
  { name := "c", kind := .normal, expr := .str ['y'] }]

example : ValFragment vrG3 = true ∧ pestValidate vrG3 = [.repNonProgressing] := by decide

/-- Why undefined `PEEK` … are excluded: pest accepts `a = { PEEK* }` (it loops on an empty stack). -/
def vrBadPeek : PGrammar := [{ name := "a", kind := .normal, expr := .rep (.ident "PEEK") }]

set_option linter.unusedSimpArgs false in
theorem fragment_witness_peek : ValFragment vrBadPeek = false ∧ pestValidate vrBadPeek = [] ∧
    ¬ Progressing (gen vrBadPeek) (valNul vrBadPeek) := by
  refine ⟨by decide, by decide, fun hp => ?_⟩
  have := hp.1 1 _ rfl
  simp [vrBadPeek, genRule, genExpr, repsOK, repsOKAll, nullable, PGrammar.indexOf, PGrammar.indexOf.go, builtinNode] at this

/-- Why `peekSlice` is excluded: pest accepts `a = { PEEK[0..]* }`. -/
def vrBadSlice : PGrammar := [{ name := "a", kind := .normal, expr := .rep (.peekSlice 0 none) }]

set_option linter.unusedSimpArgs false in
theorem fragment_witness_peekSlice : ValFragment vrBadSlice = false ∧ pestValidate vrBadSlice = [] ∧
    ¬ Progressing (gen vrBadSlice) (valNul vrBadSlice) := by
  refine ⟨by decide, by decide, fun hp => ?_⟩
  have := hp.1 1 _ rfl
  simp [vrBadSlice, genRule, genExpr, repsOK, repsOKAll, nullable, PGrammar.indexOf, PGrammar.indexOf.go, builtinNode] at this

/-- Why rule bodies (not only repetition bodies) are constrained: `a = { b* }  b = { POP }`: pest takes
`b` for progressing, its generated body is nullable: `valNul` is not a post-fixpoint. -/
def vrBadBody : PGrammar := [
  { name := "a", kind := .normal, expr := .rep (.ident "b") },
  { name := "b", kind := .normal, expr := .ident "POP" }]

set_option linter.unusedSimpArgs false in
theorem fragment_witness_body : ValFragment vrBadBody = false ∧ pestValidate vrBadBody = [] ∧
    ¬ NulOK (gen vrBadBody) (valNul vrBadBody) := by
  refine ⟨by decide, by decide, fun h => ?_⟩
  have := h 2 _ rfl (by simp [vrBadBody, genRule, genExpr, repsOK, repsOKAll, nullable, PGrammar.indexOf, PGrammar.indexOf.go, builtinNode])
  revert this; decide

/-- Why names must be distinct: `a = { "" }  b = { a* }  a = { "x" }`: the validator sees the last `a`,
the generator links the first one. -/
def vrBadDup : PGrammar := [
  { name := "a", kind := .normal, expr := .str [] },
  { name := "b", kind := .normal, expr := .rep (.ident "a") },
  { name := "a", kind := .normal, expr := .str ['x'] }]

set_option linter.unusedSimpArgs false in
theorem fragment_witness_duplicate : ValFragment vrBadDup = false ∧ pestValidate vrBadDup = [] ∧
    ¬ Progressing (gen vrBadDup) (valNul vrBadDup) := by
  refine ⟨by decide, by decide, fun hp => ?_⟩
  have := hp.1 2 _ rfl
  simp [vrBadDup, genRule, genExpr, repsOK, repsOKAll, nullable, PGrammar.indexOf, PGrammar.indexOf.go, builtinNode] at this
  revert this; decide

/-- Why `restoreOnErr` is excluded (an optimizer node, never in the validator's input):
`filter_map_top_down` does not look below it. -/
def vrBadRestore : PGrammar := [{ name := "a", kind := .normal, expr := .restoreOnErr (.rep (.str [])) }]

set_option linter.unusedSimpArgs false in
theorem fragment_witness_restoreOnErr : ValFragment vrBadRestore = false ∧ pestValidate vrBadRestore = [] ∧
    ¬ Progressing (gen vrBadRestore) (valNul vrBadRestore) := by
  refine ⟨by decide, by decide, fun hp => ?_⟩
  have := hp.1 1 _ rfl
  simp [vrBadRestore, genRule, genExpr, repsOK, repsOKAll, nullable, PGrammar.indexOf, PGrammar.indexOf.go, builtinNode] at this

end PestTyped
