/-
Lemmas.SpecTokensLemmas — the token semantics `specTok` of `Model/SpecTokens.lean` is the reference
semantics `spec` of `Model/Spec.lean` (the specification of C01) with tokens added:
`specTok_forget : (specTok g uni n am e i S).forget = spec g uni n am.na e i S`, for every grammar,
fuel, atomicity, expression, cursor and stack; plus basic facts about `pruneAtomic`.

Second part: a self-contained simulation `frag_sim` of the typed parser of `gen pg` against `specTok`
WITH tokens (`SimG`) on the lookahead-free, skip-free fragment (`Frag`, `SkipFree`), used by
`Props/C02.lean` (`C02_tree_partial`).  It does not use and is not used by the C01 development.
-/
import PestTyped.Model.SpecTokens
import PestTyped.Lemmas.TokensLemmas
import PestTyped.Lemmas.SkipSites
namespace PestTyped

@[simp] theorem STR.forget_oof : STR.oof.forget = .oof := rfl
@[simp] theorem STR.forget_fail : STR.fail.forget = .fail := rfl
@[simp] theorem STR.forget_ok (i : Inp) (S : List Sp) (ts : List Token) : (STR.ok i S ts).forget = .ok i S := rfl

/-- Skipping is on in a body exactly when `Model.Spec` says so. -/
theorem bodyAt_na (name : String) (k : RuleKind) (am : Atom3) :
    (bodyAt name k am).na = bodyNa name k am.na := by
  unfold bodyAt bodyNa
  by_cases h : name = "WHITESPACE" ∨ name = "COMMENT"
  · cases k <;> simp [h, Atom3.na]
  · cases k <;> simp [h, Atom3.na]

/-- The rules named WHITESPACE / COMMENT (and the built-ins of those names when the grammar does
not define them) do not depend on the caller's atomicity in `Model.Spec`. -/
theorem spec_skipRule_na (g : PGrammar) (uni : Uni) (n : Nat) (na : Bool) (nm : String)
    (h : nm = "WHITESPACE" ∨ nm = "COMMENT") (i : Inp) (S : List Sp) :
    spec g uni n na (.ident nm) i S = spec g uni n false (.ident nm) i S := by
  cases n with
  | zero => rfl
  | succ n =>
    simp only [spec]
    cases g.find? nm with
    | none => rfl
    | some r => simp only [bodyNa, h, if_true]

theorem specTokBuiltin_forget (uni : Uni) (am : Atom3) (name : String) (i : Inp) (S : List Sp) :
    (specTokBuiltin uni am name i S).forget = specBuiltin uni name i S := by
  unfold specTokBuiltin
  cases specBuiltin uni name i S <;> rfl

theorem specTokRepLoop_forget (u : Nat → Inp → List Sp → STR) (u' : Nat → Inp → List Sp → SR)
    (hu : ∀ idx i S, (u idx i S).forget = u' idx i S) (min : Nat) (max : Option Nat) :
    ∀ (budget idx : Nat) (i : Inp) (S : List Sp) (acc : List Token),
      (specTokRepLoop u min max budget idx i S acc).forget = specRepLoop u' min max budget idx i S := by
  intro budget
  induction budget with
  | zero => intros; rfl
  | succ b ih =>
    intro idx i S acc
    unfold specTokRepLoop specRepLoop
    by_cases hmax : max = some idx
    · simp only [hmax, if_true]; split <;> rfl
    · simp only [hmax, if_false]
      rw [← hu idx i S]
      cases u idx i S with
      | oof => rfl
      | fail => simp only [STR.forget_fail]; split <;> rfl
      | ok i' S' ts => simp only [STR.forget_ok]; exact ih _ _ _ _

theorem specTokSkipUnit_forget (call : String → Inp → List Sp → STR) (call' : String → Inp → List Sp → SR)
    (hW : ∀ i S, (call "WHITESPACE" i S).forget = call' "WHITESPACE" i S)
    (hC : ∀ i S, (call "COMMENT" i S).forget = call' "COMMENT" i S)
    (hasW hasC : Bool) (i : Inp) (S : List Sp) :
    (specTokSkipUnit call hasW hasC i S).forget = specSkipUnit call' hasW hasC i S := by
  unfold specTokSkipUnit specSkipUnit
  cases hasW with
  | true =>
    simp only [if_true]
    rw [← hW i S]
    cases call "WHITESPACE" i S with
    | oof => rfl
    | ok _ _ _ => rfl
    | fail =>
      simp only [STR.forget_fail]
      cases hasC with
      | true => simp only [if_true]; exact hC i S
      | false => rfl
  | false =>
    simp only [Bool.false_eq_true, if_false]
    cases hasC with
    | true => simp only [if_true]; exact hC i S
    | false => rfl

theorem specTokSkip_forget (call : PExpr → Inp → List Sp → STR) (call' : PExpr → Inp → List Sp → SR)
    (hW : ∀ i S, (call (.ident "WHITESPACE") i S).forget = call' (.ident "WHITESPACE") i S)
    (hC : ∀ i S, (call (.ident "COMMENT") i S).forget = call' (.ident "COMMENT") i S)
    (hasW hasC : Bool) (budget : Nat) (i : Inp) (S : List Sp) :
    (specTokSkip call hasW hasC budget i S).forget = specSkip call' hasW hasC budget i S := by
  unfold specTokSkip specSkip
  exact specTokRepLoop_forget _ _
    (fun _ i S => specTokSkipUnit_forget _ _ hW hC hasW hasC i S) _ _ _ _ _ _ _

theorem specTokRepWith_forget (sp : Atom3 → PExpr → Inp → List Sp → STR) (sp' : Bool → PExpr → Inp → List Sp → SR)
    (h : ∀ am e i S, (sp am e i S).forget = sp' am.na e i S)
    (hsk : ∀ nm, nm = "WHITESPACE" ∨ nm = "COMMENT" → ∀ i S, sp' true (.ident nm) i S = sp' false (.ident nm) i S)
    (n : Nat) (hasW hasC : Bool) (am : Atom3) (e : PExpr) (min : Nat) (max : Option Nat) (i : Inp) (S : List Sp) :
    (specTokRepWith sp n hasW hasC am e min max i S).forget = specRepWith sp' n hasW hasC am.na e min max i S := by
  unfold specTokRepWith specRepWith
  apply specTokRepLoop_forget
  intro idx i S
  by_cases hc : idx = 0 ∨ (!am.na) = true
  · simp only [hc, if_true]; exact h am e i S
  · simp only [hc, if_false]
    have hs := specTokSkip_forget (sp .nonAtomic) (sp' false)
      (fun i S => by rw [h]; exact hsk _ (Or.inl rfl) i S)
      (fun i S => by rw [h]; exact hsk _ (Or.inr rfl) i S) hasW hasC (atomicBudget n) i S
    rw [← hs]
    cases specTokSkip (sp .nonAtomic) hasW hasC (atomicBudget n) i S with
    | oof => rfl
    | fail => rfl
    | ok i1 S1 t1 =>
      simp only [STR.forget_ok]
      rw [← h am e i1 S1]
      cases sp am e i1 S1 <;> rfl

/-- The token-free projection of the token semantics is the reference semantics of C01. -/
theorem specTok_forget (g : PGrammar) (uni : Uni) :
    ∀ (n : Nat) (am : Atom3) (e : PExpr) (i : Inp) (S : List Sp),
      (specTok g uni n am e i S).forget = spec g uni n am.na e i S := by
  intro n
  induction n with
  | zero => intros; rfl
  | succ n ih =>
    intro am e i S
    have hsk : ∀ nm, nm = "WHITESPACE" ∨ nm = "COMMENT" → ∀ i S,
        spec g uni n true (.ident nm) i S = spec g uni n false (.ident nm) i S :=
      fun nm hnm i S => spec_skipRule_na g uni n true nm hnm i S
    have hrep : ∀ e min max, (specTokRepWith (specTok g uni n) n (g.defines "WHITESPACE") (g.defines "COMMENT")
        am e min max i S).forget =
        specRepWith (spec g uni n) n (g.defines "WHITESPACE") (g.defines "COMMENT") am.na e min max i S :=
      fun e min max => specTokRepWith_forget _ _ ih hsk _ _ _ _ _ _ _ _ _
    cases e with
    | str s => simp only [specTok, spec]; cases i.matchString s <;> rfl
    | insens s => simp only [specTok, spec]; cases i.matchInsens s <;> rfl
    | range lo hi =>
      simp only [specTok, spec]
      cases i.matchRange lo hi with
      | none => rfl
      | some p => cases p; rfl
    | ident name =>
      simp only [specTok, spec]
      cases g.find? name with
      | none => exact specTokBuiltin_forget uni am name i S
      | some r =>
        simp only []
        rw [← bodyAt_na, ← ih]
        cases specTok g uni n (bodyAt name r.kind am) r.expr i S <;> rfl
    | peekSlice a b =>
      simp only [specTok, spec]
      cases constrainIdxs a b S.length with
      | none => rfl
      | some p =>
        obtain ⟨lo, hi⟩ := p
        simp only []
        by_cases hle : hi ≤ lo
        · simp only [hle, if_true]; rfl
        · simp only [hle, if_false]
          cases peekSpans (stackSlice S lo hi) i <;> rfl
    | posPred x =>
      simp only [specTok, spec]
      rw [← ih]
      cases specTok g uni n am x i S <;> rfl
    | negPred x =>
      simp only [specTok, spec]
      rw [← ih]
      cases specTok g uni n am x i S <;> rfl
    | seq x y =>
      simp only [specTok, spec]
      rw [← ih am x i S]
      cases specTok g uni n am x i S with
      | oof => rfl
      | fail => rfl
      | ok i1 S1 t1 =>
        simp only [STR.forget_ok]
        cases hna : am.na with
        | true =>
          simp only [if_true]
          have hs := specTokSkip_forget (specTok g uni n .nonAtomic) (spec g uni n false)
            (fun i S => by rw [ih]; exact hsk _ (Or.inl rfl) i S)
            (fun i S => by rw [ih]; exact hsk _ (Or.inr rfl) i S)
            (g.defines "WHITESPACE") (g.defines "COMMENT") (atomicBudget n) i1 S1
          rw [← hs]
          cases specTokSkip (specTok g uni n .nonAtomic) (g.defines "WHITESPACE") (g.defines "COMMENT")
              (atomicBudget n) i1 S1 with
          | oof => rfl
          | fail => rfl
          | ok i2 S2 t2 =>
            simp only [STR.forget_ok]
            have := ih am y i2 S2
            rw [hna] at this
            rw [← this]
            cases specTok g uni n am y i2 S2 <;> rfl
        | false =>
          simp only [Bool.false_eq_true, if_false]
          have := ih am y i1 S1
          rw [hna] at this
          rw [← this]
          cases specTok g uni n am y i1 S1 <;> rfl
    | choice x y =>
      simp only [specTok, spec]
      rw [← ih am x i S, ← ih am y i S]
      cases specTok g uni n am x i S <;> rfl
    | opt x =>
      simp only [specTok, spec]
      rw [← ih]
      cases specTok g uni n am x i S <;> rfl
    | rep x => simp only [specTok, spec]; exact hrep _ _ _
    | repOnce x => simp only [specTok, spec]; exact hrep _ _ _
    | repExact x k => simp only [specTok, spec]; exact hrep _ _ _
    | repMin x k => simp only [specTok, spec]; exact hrep _ _ _
    | repMax x k => simp only [specTok, spec]; exact hrep _ _ _
    | repMinMax x k l => simp only [specTok, spec]; exact hrep _ _ _
    | skip needles => simp only [specTok, spec]; rfl
    | push x =>
      simp only [specTok, spec]
      rw [← ih]
      cases specTok g uni n am x i S <;> rfl
    | restoreOnErr x => simp only [specTok, spec]; exact ih _ _ _ _

/-- The entry points agree. -/
theorem specTokPartial_forget (g : PGrammar) (uni : Uni) (n : Nat) (name : String) (i : Inp) :
    (specTokPartial g uni n name i).forget = specPartial g uni n name i :=
  specTok_forget g uni n .nonAtomic (.ident name) i []

/-! ### `pruneAtomic` -/

theorem pruneAtomic_append (g : PGrammar) (a b : List Token) :
    pruneAtomic g (a ++ b) = pruneAtomic g a ++ pruneAtomic g b := by
  induction a with
  | nil => simp [pruneAtomic]
  | cons t ts ih => simp [pruneAtomic, ih]

theorem pruneAtomic_length (g : PGrammar) (ts : List Token) : (pruneAtomic g ts).length = ts.length := by
  induction ts with
  | nil => simp [pruneAtomic]
  | cons t ts ih => simp [pruneAtomic, ih]

/-- Pruning keeps rule, start and end of every top-level token. -/
theorem pruneAtomicTok_head (g : PGrammar) (t : Token) :
    (pruneAtomicTok g t).rule = t.rule ∧ (pruneAtomicTok g t).s = t.s ∧ (pruneAtomicTok g t).e = t.e := by
  cases t; simp [pruneAtomicTok, Token.rule, Token.s, Token.e]

/-! ### helpers for Props/C02 -/

/-- The tokens of the `Skipped` values of recorded iterations. -/
theorem tokensList_iters (g : NodeGrammar) (l : List Iter) :
    tokensList g (l.map Iter.val) =
      (l.map (fun it => tokensList g it.skips ++ tokens g it.matched)).flatten := by
  induction l with
  | nil => simp [tokensList]
  | cons it l ih => simp [tokensList, Iter.val, tokens_mkSkipped, ih]

/-- The tokens of a successful run of the token semantics (for examples). -/
def STR.toks? : STR → Option (List Token)
  | .ok _ _ ts => some ts
  | _ => none

/-! ## the lookahead-free, skip-free fragment: typed tokens = pest's tokens, pruned

A self-contained simulation (typed `parse` on `gen pg` against `specTok`) for grammars that define
neither WHITESPACE nor COMMENT and whose rules use no lookahead and no built-in other than `EOI`.
It is what `Props/C02.lean` needs for `C02_tree_partial`; the general simulation is C01's. -/

/-- Expressions of the fragment: no `&e` / `!e`; identifiers are rules of the grammar or `EOI`. -/
def Frag (pg : PGrammar) : PExpr → Prop
  | .str _ => True
  | .insens _ => True
  | .range _ _ => True
  | .ident name => pg.defines name = true ∨ name = "EOI"
  | .peekSlice _ _ => True
  | .posPred _ => False
  | .negPred _ => False
  | .seq a b => Frag pg a ∧ Frag pg b
  | .choice a b => Frag pg a ∧ Frag pg b
  | .opt e => Frag pg e
  | .rep e => Frag pg e
  | .repOnce e => Frag pg e
  | .repExact e _ => Frag pg e
  | .repMin e _ => Frag pg e
  | .repMax e _ => Frag pg e
  | .repMinMax e _ _ => Frag pg e
  | .skip _ => True
  | .push e => Frag pg e
  | .restoreOnErr e => Frag pg e

/-- Grammars of the fragment. -/
structure SkipFree (pg : PGrammar) : Prop where
  noW : pg.defines "WHITESPACE" = false
  noC : pg.defines "COMMENT" = false
  frag : ∀ pr ∈ pg, Frag pg pr.expr

/-- The simulation relation between a typed result and a result of the token semantics: nothing
is claimed when either ran out of fuel; otherwise both fail, or both succeed at the same cursor
with the same stack and — outside an `Atomic` context — the typed tokens are `pre` followed by
pest's tokens pruned. -/
def SimG {α} (pg : PGrammar) (am : Atom3) (tok : α → List Token) (pre : List Token) : R α → STR → Prop
  | .oof, _ => True
  | _, .oof => True
  | .fail _, .fail => True
  | .ok i m a, .ok j S ts => i = j ∧ m.stk = S ∧ (am ≠ .atomic → tok a = pre ++ pruneAtomic pg ts)
  | _, _ => False

theorem SimG.oof_left {α} {pg : PGrammar} {am : Atom3} {tok : α → List Token} {pre : List Token} (rs : STR) :
    SimG pg am tok pre (.oof : R α) rs := by
  cases rs <;> simp [SimG]

theorem SimG.oof_right {α} {pg : PGrammar} {am : Atom3} {tok : α → List Token} {pre : List Token} (rp : R α) :
    SimG pg am tok pre rp .oof := by
  cases rp <;> simp [SimG]

theorem SimG.fail_fail {α} {pg : PGrammar} {am : Atom3} {tok : α → List Token} {pre : List Token} (m : M) :
    SimG pg am tok pre (.fail m : R α) .fail := by
  simp [SimG]

theorem SimG.ok_ok {α} {pg : PGrammar} {am : Atom3} {tok : α → List Token} {pre : List Token}
    {i : Inp} {m : M} {a : α} {j : Inp} {S : List Sp} {ts : List Token} :
    SimG pg am tok pre (.ok i m a : R α) (.ok j S ts) ↔
      i = j ∧ m.stk = S ∧ (am ≠ .atomic → tok a = pre ++ pruneAtomic pg ts) := by
  simp [SimG]

theorem SimG.ok_fail {α} {pg : PGrammar} {am : Atom3} {tok : α → List Token} {pre : List Token}
    {i : Inp} {m : M} {a : α} : ¬ SimG pg am tok pre (.ok i m a : R α) .fail := by
  simp [SimG]

theorem SimG.fail_ok {α} {pg : PGrammar} {am : Atom3} {tok : α → List Token} {pre : List Token}
    {m : M} {j : Inp} {S : List Sp} {ts : List Token} : ¬ SimG pg am tok pre (.fail m : R α) (.ok j S ts) := by
  simp [SimG]

/-! ### the grammar side -/

theorem indexOf_go_some (name : String) : ∀ (l : List PRule) (j k : Nat), PGrammar.indexOf.go name l j = some k →
    j ≤ k ∧ ∃ pr, l[k - j]? = some pr ∧ pr.name = name := by
  intro l
  induction l with
  | nil => intro j k h; simp [PGrammar.indexOf.go] at h
  | cons r rs ih =>
    intro j k h
    unfold PGrammar.indexOf.go at h
    split at h
    · next hn =>
      injection h with h; subst h
      exact ⟨Nat.le_refl _, r, by simp, hn⟩
    · obtain ⟨hle, pr, hpr, hn⟩ := ih _ _ h
      refine ⟨by omega, pr, ?_, hn⟩
      have : k - j = (k - (j+1)) + 1 := by omega
      rw [this]; simpa using hpr

theorem indexOf_some (pg : PGrammar) (name : String) (k : Nat) (h : pg.indexOf name = some k) :
    ∃ pr, pg[k]? = some pr ∧ pr.name = name := by
  obtain ⟨_, pr, hpr, hn⟩ := indexOf_go_some name pg 0 k h
  exact ⟨pr, by simpa using hpr, hn⟩

theorem defines_of_indexOf (pg : PGrammar) (name : String) (k : Nat) (h : pg.indexOf name = some k) :
    pg.defines name = true := by
  simp [PGrammar.defines, h]

theorem indexOf_none_of_not_defines (pg : PGrammar) (name : String) (h : pg.defines name = false) :
    pg.indexOf name = none := by
  simpa [PGrammar.defines] using h

theorem SkipFree.skipped {pg : PGrammar} (h : SkipFree pg) : (gen pg).skipped = .empty := by
  simp [gen, genSkipped, indexOf_none_of_not_defines pg _ h.noW, indexOf_none_of_not_defines pg _ h.noC]

theorem SkipFree.not_skip_name {pg : PGrammar} (h : SkipFree pg) {name : String} {k : Nat}
    (hk : pg.indexOf name = some k) : ¬ (name = "WHITESPACE" ∨ name = "COMMENT") := by
  have hd := defines_of_indexOf pg name k hk
  rintro (rfl | rfl)
  · rw [h.noW] at hd; cases hd
  · rw [h.noC] at hd; cases hd

/-! ### the skip is a no-op on both sides -/

/-- A skip function that consumes nothing, changes nothing and yields no token (or is out of fuel). -/
def SkipNoop (G : NodeGrammar) (skip : Inp → M → R (List Val)) : Prop :=
  ∀ i m, skip i m = .oof ∨ ∃ sks, skip i m = .ok i m sks ∧ tokensList G sks = []

theorem skipLoop_empty (G : NodeGrammar) (uni : Uni) (n : Nat) :
    ∀ (k : Nat) (i : Inp) (m : M) (acc : List Val),
      skipLoop (parse G uni n false .empty) k i m acc = .oof ∨
      ∃ sks, skipLoop (parse G uni n false .empty) k i m acc = .ok i m sks ∧
        tokensList G sks = tokensList G acc.reverse := by
  intro k
  induction k with
  | zero => intro i m acc; right; exact ⟨_, rfl, rfl⟩
  | succ k ih =>
    intro i m acc
    cases n with
    | zero => left; rfl
    | succ n =>
      simp only [skipLoop, parse]
      rcases ih i m (Val.leaf .empty :: acc) with h | ⟨sks, h, ht⟩
      · left; exact h
      · right
        refine ⟨sks, h, ?_⟩
        rw [ht, List.reverse_cons, tokensList_append]
        simp [tokensList, tokens, Val.leaf]

theorem skipRuns_noop (G : NodeGrammar) (uni : Uni) (n k : Nat) (h : G.skipped = .empty) :
    SkipNoop G (skipRuns (parse G uni n false G.skipped) k) := by
  intro i m
  rw [h]
  rcases skipLoop_empty G uni n k i m [] with h1 | ⟨sks, h1, h2⟩
  · left; exact h1
  · right; exact ⟨sks, h1, by simpa [tokensList] using h2⟩

theorem Tok.atomicBudget_succ (n : Nat) : ∃ b, atomicBudget n = b + 1 := by
  refine ⟨n * n + 2 * n, ?_⟩
  simp only [atomicBudget, Nat.add_mul, Nat.mul_add]
  omega

theorem specTokSkip_none (call : PExpr → Inp → List Sp → STR) (n : Nat) (i : Inp) (S : List Sp) :
    specTokSkip call false false (atomicBudget n) i S = .ok i S [] := by
  obtain ⟨b, hb⟩ := Tok.atomicBudget_succ n
  simp [specTokSkip, hb, specTokRepLoop, specTokSkipUnit]

/-! ### loops -/

/-- The repetition unit against the unit of `specTokRepWith` (skip-free). -/
theorem repUnit_sim (pg : PGrammar) (am : Atom3) (G : NodeGrammar) (sf body : Inp → M → R Val) (dflt : Val)
    (k : Nat) (sp : Atom3 → PExpr → Inp → List Sp → STR) (e : PExpr) (n : Nat)
    (hskip : SkipNoop G (skipRuns sf k)) (hd : tokens G dflt = [])
    (hbody : ∀ i m, SimG pg am (tokens G) [] (body i m) (sp am e i m.stk))
    (idx : Nat) (i : Inp) (m : M) :
    SimG pg am (tokens G) [] (repUnitP sf body dflt k idx i m)
      (if idx = 0 ∨ (!am.na) = true then sp am e i m.stk
       else
         match specTokSkip (sp .nonAtomic) false false (atomicBudget n) i m.stk with
         | .oof => .oof
         | .fail => .fail
         | .ok i1 S1 t1 =>
           match sp am e i1 S1 with
           | .oof => .oof
           | .fail => .fail
           | .ok i2 S2 t2 => .ok i2 S2 (t1 ++ t2)) := by
  have hspec : (if idx = 0 ∨ (!am.na) = true then sp am e i m.stk
       else
         match specTokSkip (sp .nonAtomic) false false (atomicBudget n) i m.stk with
         | .oof => .oof
         | .fail => .fail
         | .ok i1 S1 t1 =>
           match sp am e i1 S1 with
           | .oof => .oof
           | .fail => .fail
           | .ok i2 S2 t2 => .ok i2 S2 (t1 ++ t2)) = sp am e i m.stk := by
    split
    · rfl
    · rw [specTokSkip_none]
      simp only [List.nil_append]
      cases sp am e i m.stk <;> rfl
  rw [hspec]
  unfold repUnitP
  split
  · have hb := hbody i m
    cases hp : body i m with
    | oof => exact SimG.oof_left _
    | fail mf =>
      rw [hp] at hb
      cases hs : sp am e i m.stk with
      | oof => exact SimG.oof_right _
      | fail => exact SimG.fail_fail _
      | ok j S ts => rw [hs] at hb; exact absurd hb SimG.fail_ok
    | ok i' m' v =>
      rw [hp] at hb
      cases hs : sp am e i m.stk with
      | oof => exact SimG.oof_right _
      | fail => rw [hs] at hb; exact absurd hb SimG.ok_fail
      | ok j S ts =>
        rw [hs] at hb
        obtain ⟨h1, h2, h3⟩ := SimG.ok_ok.mp hb
        refine SimG.ok_ok.mpr ⟨h1, h2, fun ha => ?_⟩
        simp [tokens_mkSkipped, tokensList_replicate_nil G dflt hd, h3 ha]
  · rcases hskip i m with h0 | ⟨sks, h0, ht⟩
    · simp only [skipRuns] at h0
      rw [h0]; exact SimG.oof_left _
    · simp only [skipRuns] at h0
      rw [h0]
      simp only []
      have hb := hbody i m
      cases hp : body i m with
      | oof => exact SimG.oof_left _
      | fail mf =>
        rw [hp] at hb
        cases hs : sp am e i m.stk with
        | oof => exact SimG.oof_right _
        | fail => exact SimG.fail_fail _
        | ok j S ts => rw [hs] at hb; exact absurd hb SimG.fail_ok
      | ok i' m' v =>
        rw [hp] at hb
        cases hs : sp am e i m.stk with
        | oof => exact SimG.oof_right _
        | fail => rw [hs] at hb; exact absurd hb SimG.ok_fail
        | ok j S ts =>
          rw [hs] at hb
          obtain ⟨h1, h2, h3⟩ := SimG.ok_ok.mp hb
          refine SimG.ok_ok.mpr ⟨h1, h2, fun ha => ?_⟩
          simp [tokens_mkSkipped, ht, h3 ha]

/-- `repLoop` against `specTokRepLoop`, unit against unit. -/
theorem Tok.repLoop_sim (pg : PGrammar) (am : Atom3) (G : NodeGrammar)
    (uT : Nat → Inp → M → R Val) (uS : Nat → Inp → List Sp → STR)
    (hu : ∀ idx i m, SimG pg am (tokens G) [] (uT idx i m) (uS idx i m.stk)) (min : Nat) (max : Option Nat) :
    ∀ (bT bS idx : Nat) (i : Inp) (m : M) (accT : List Val) (accS : List Token),
      accT.length = idx →
      (am ≠ .atomic → tokensList G accT.reverse = pruneAtomic pg accS) →
      SimG pg am (tokensList G) [] (repLoop uT min max bT idx i m accT)
        (specTokRepLoop uS min max bS idx i m.stk accS) := by
  intro bT
  induction bT with
  | zero => intros; exact SimG.oof_left _
  | succ bT ih =>
    intro bS idx i m accT accS hlen hacc
    cases bS with
    | zero => exact SimG.oof_right _
    | succ bS =>
      unfold repLoop specTokRepLoop
      by_cases hmax : max = some idx
      · simp only [hmax, if_true, repDone_some, hlen]
        split
        · exact SimG.fail_fail _
        · exact SimG.ok_ok.mpr ⟨rfl, rfl, fun ha => by simpa using hacc ha⟩
      · simp only [hmax, if_false]
        have h := hu idx i m
        cases hp : uT idx i m with
        | oof => exact SimG.oof_left _
        | fail mf =>
          rw [hp] at h
          cases hs : uS idx i m.stk with
          | oof => exact SimG.oof_right _
          | ok j S ts => rw [hs] at h; exact absurd h SimG.fail_ok
          | fail =>
            simp only [restoreOnNone]
            split
            · exact SimG.fail_fail _
            · rw [repDone_of_le min max i _ accT (by omega)]
              exact SimG.ok_ok.mpr ⟨rfl, rfl, fun ha => by simpa using hacc ha⟩
        | ok i' m' v =>
          rw [hp] at h
          cases hs : uS idx i m.stk with
          | oof => exact SimG.oof_right _
          | fail => rw [hs] at h; exact absurd h SimG.ok_fail
          | ok j S ts =>
            rw [hs] at h
            obtain ⟨h1, h2, h3⟩ := SimG.ok_ok.mp h
            subst h1 h2
            simp only [restoreOnNone]
            refine ih bS (idx+1) i' m' (v :: accT) (accS ++ ts)
              (by simp only [List.length_cons, hlen]) (fun ha => ?_)
            rw [List.reverse_cons, tokensList_append, tokensList_singleton, hacc ha, h3 ha,
              pruneAtomic_append]
            simp

/-- The tail of a sequence (typed: skip, element, skip, element …; pest: `b1 ~ (b2 ~ …)` with its
skips) for a no-op skip. -/
theorem Tok.seqSpine_sim (pg : PGrammar) (G : NodeGrammar) (uni : Uni) (n : Nat) (inh : Bool) (sk : Flag)
    (skip : Inp → M → R (List Val)) (hskip : SkipNoop G skip) (hW : pg.defines "WHITESPACE" = false)
    (hC : pg.defines "COMMENT" = false)
    (hP : ∀ (N : Nat) (e : PExpr), Frag pg e → ∀ (am : Atom3) (i : Inp) (m : M),
      SimG pg am (tokens G) [] (parse G uni n inh (genExpr pg sk e) i m) (specTok pg uni N am e i m.stk)) :
    ∀ (b : PExpr), Frag pg b → ∀ (N : Nat) (am : Atom3) (i : Inp) (m : M) (acc : List Val) (pre : List Token),
      (am ≠ .atomic → tokensList G acc.reverse = pre) →
      SimG pg am (tokensList G) pre
        (seqLoop (parse G uni n inh) skip mkSkipped (genSeqSpine pg sk b) i m acc)
        (specTok pg uni N am b i m.stk) := by
  -- one element: the shape shared by the spine's last element and by `b1` of `b1 ~ b2`
  have one : ∀ (x : PExpr), Frag pg x → ∀ (N : Nat) (am : Atom3) (i : Inp) (m : M) (acc : List Val) (pre : List Token),
      (am ≠ .atomic → tokensList G acc.reverse = pre) →
      ∀ (rest : List Node) (K : Inp → List Sp → List Token → STR),
        (∀ i2 m2 (a2 : Val) t2, (am ≠ .atomic → tokensList G (a2 :: acc).reverse = pre ++ pruneAtomic pg t2) →
          SimG pg am (tokensList G) pre (seqLoop (parse G uni n inh) skip mkSkipped rest i2 m2 (a2 :: acc))
            (K i2 m2.stk t2)) →
        SimG pg am (tokensList G) pre
          (seqLoop (parse G uni n inh) skip mkSkipped (genExpr pg sk x :: rest) i m acc)
          (match specTok pg uni N am x i m.stk with
           | .oof => .oof
           | .fail => .fail
           | .ok i1 S1 t1 => K i1 S1 t1) := by
    intro x hx N am i m acc pre hacc rest K hK
    unfold seqLoop
    rcases hskip i m with h0 | ⟨sks, h0, ht⟩
    · rw [h0]; exact SimG.oof_left _
    · rw [h0]
      simp only []
      have h := hP N x hx am i m
      cases hp : parse G uni n inh (genExpr pg sk x) i m with
      | oof => exact SimG.oof_left _
      | fail mf =>
        rw [hp] at h
        cases hs : specTok pg uni N am x i m.stk with
        | oof => exact SimG.oof_right _
        | fail => exact SimG.fail_fail _
        | ok j S ts => rw [hs] at h; exact absurd h SimG.fail_ok
      | ok i' m' v =>
        rw [hp] at h
        cases hs : specTok pg uni N am x i m.stk with
        | oof => exact SimG.oof_right _
        | fail => rw [hs] at h; exact absurd h SimG.ok_fail
        | ok j S ts =>
          rw [hs] at h
          obtain ⟨h1, h2, h3⟩ := SimG.ok_ok.mp h
          subst h1 h2
          simp only []
          refine hK i' m' _ ts (fun ha => ?_)
          rw [List.reverse_cons, tokensList_append, tokensList_singleton, tokens_mkSkipped, ht, hacc ha,
            h3 ha]
          simp
  intro b
  induction b with
  | seq b1 b2 _ ih2 =>
    intro hF N am i m acc pre hacc
    obtain ⟨hF1, hF2⟩ := hF
    cases N with
    | zero => exact SimG.oof_right _
    | succ N =>
      simp only [genSeqSpine, specTok, hW, hC]
      refine one b1 hF1 N am i m acc pre hacc _ _ ?_
      intro i2 m2 a2 t2 hacc2
      -- pest's skip between `b1` and `b2` is a no-op
      have hres : ∀ (r : STR), SimG pg am (tokensList G) (pre ++ pruneAtomic pg t2)
            (seqLoop (parse G uni n inh) skip mkSkipped (genSeqSpine pg sk b2) i2 m2 (a2 :: acc)) r →
          SimG pg am (tokensList G) pre
            (seqLoop (parse G uni n inh) skip mkSkipped (genSeqSpine pg sk b2) i2 m2 (a2 :: acc))
            (match r with
             | .oof => .oof
             | .fail => .fail
             | .ok i3 S3 t3 => .ok i3 S3 (t2 ++ t3)) := by
        intro r hr
        cases hq : seqLoop (parse G uni n inh) skip mkSkipped (genSeqSpine pg sk b2) i2 m2 (a2 :: acc) with
        | oof => exact SimG.oof_left _
        | fail mf =>
          rw [hq] at hr
          cases r with
          | oof => exact SimG.oof_right _
          | fail => exact SimG.fail_fail _
          | ok _ _ _ => exact absurd hr SimG.fail_ok
        | ok i3 m3 out =>
          rw [hq] at hr
          cases r with
          | oof => exact SimG.oof_right _
          | fail => exact absurd hr SimG.ok_fail
          | ok j S t3 =>
            obtain ⟨h1, h2, h3⟩ := SimG.ok_ok.mp hr
            refine SimG.ok_ok.mpr ⟨h1, h2, fun ha => ?_⟩
            rw [h3 ha, pruneAtomic_append, List.append_assoc]
      have hrec := ih2 hF2 N am i2 m2 (a2 :: acc) (pre ++ pruneAtomic pg t2) hacc2
      cases hna : am.na with
      | true =>
        simp only [if_true]
        rw [specTokSkip_none]
        simp only [List.append_nil]
        exact hres _ hrec
      | false =>
        simp only [Bool.false_eq_true, if_false]
        exact hres _ hrec
  | _ =>
    intro hF N am i m acc pre hacc
    simp only [genSeqSpine]
    have key := one _ hF N am i m acc pre hacc [] (fun i1 S1 t1 => .ok i1 S1 t1) (by
      intro i2 m2 a2 t2 hacc2
      simp only [seqLoop]
      exact SimG.ok_ok.mpr ⟨rfl, rfl, hacc2⟩)
    revert key
    generalize specTok pg uni N am _ i m.stk = rs
    intro key
    cases rs <;> exact key

/-- The alternatives of a choice (typed: `choiceLoop` over the spine, each under `restore_on_none`;
pest: `b1 | (b2 | …)` on an immutable stack). -/
theorem Tok.choiceSpine_sim (pg : PGrammar) (G : NodeGrammar) (uni : Uni) (n : Nat) (inh : Bool) (sk : Flag)
    (hP : ∀ (N : Nat) (e : PExpr), Frag pg e → ∀ (am : Atom3) (i : Inp) (m : M),
      SimG pg am (tokens G) [] (parse G uni n inh (genExpr pg sk e) i m) (specTok pg uni N am e i m.stk)) :
    ∀ (b : PExpr), Frag pg b → ∀ (N : Nat) (am : Atom3) (k0 : Nat) (i : Inp) (m : M),
      SimG pg am (fun p : Nat × Val => tokens G p.2) []
        (choiceLoop (parse G uni n inh) (genChoiceSpine pg sk b) k0 i m)
        (specTok pg uni N am b i m.stk) := by
  have one : ∀ (x : PExpr), Frag pg x → ∀ (N : Nat) (am : Atom3) (k0 : Nat) (i : Inp) (m : M)
      (rest : List Node) (KS : STR),
        (∀ m2 : M, m2.stk = m.stk →
          SimG pg am (fun p : Nat × Val => tokens G p.2) [] (choiceLoop (parse G uni n inh) rest (k0+1) i m2) KS) →
        SimG pg am (fun p : Nat × Val => tokens G p.2) []
          (choiceLoop (parse G uni n inh) (genExpr pg sk x :: rest) k0 i m)
          (match specTok pg uni N am x i m.stk with
           | .oof => .oof
           | .ok i' S' ts => .ok i' S' ts
           | .fail => KS) := by
    intro x hx N am k0 i m rest KS hK
    unfold choiceLoop
    have h := hP N x hx am i m
    cases hp : parse G uni n inh (genExpr pg sk x) i m with
    | oof => exact SimG.oof_left _
    | fail mf =>
      rw [hp] at h
      cases hs : specTok pg uni N am x i m.stk with
      | oof => exact SimG.oof_right _
      | fail => simp only [restoreOnNone]; exact hK _ rfl
      | ok j S ts => rw [hs] at h; exact absurd h SimG.fail_ok
    | ok i' m' v =>
      rw [hp] at h
      cases hs : specTok pg uni N am x i m.stk with
      | oof => exact SimG.oof_right _
      | fail => rw [hs] at h; exact absurd h SimG.ok_fail
      | ok j S ts =>
        rw [hs] at h
        obtain ⟨h1, h2, h3⟩ := SimG.ok_ok.mp h
        simp only [restoreOnNone]
        exact SimG.ok_ok.mpr ⟨h1, h2, h3⟩
  intro b
  induction b with
  | choice b1 b2 _ ih2 =>
    intro hF N am k0 i m
    obtain ⟨hF1, hF2⟩ := hF
    cases N with
    | zero => exact SimG.oof_right _
    | succ N =>
      simp only [genChoiceSpine, specTok]
      refine one b1 hF1 N am k0 i m _ _ ?_
      intro m2 hm2
      rw [← hm2]
      exact ih2 hF2 N am (k0+1) i m2
  | _ =>
    intro hF N am k0 i m
    simp only [genChoiceSpine]
    have key := one _ hF N am k0 i m [] .fail (by
      intro m2 _
      simp only [choiceLoop]
      exact SimG.fail_fail _)
    revert key
    generalize specTok pg uni N am _ i m.stk = rs
    intro key
    cases rs <;> exact key

/-- Which rules lose their children: the `impl_pair_with_empty` arm of the generated module is
`pruneAtomic`'s set. -/
theorem hasContentPairs_gen (pg : PGrammar) (k : Nat) (pr : PRule) (hr : pg[k]? = some pr) :
    hasContentPairs (gen pg) (k+1) = !pg.isAtomicId (k+1) := by
  simp only [hasContentPairs, NodeGrammar.rule?, gen, List.getElem?_cons_succ, List.getElem?_map, hr,
    Option.map_some, genRule, PGrammar.isAtomicId]
  cases pr.kind <;> simp [kindAtomicity] <;> decide

/-- The token(s) of a rule value against what `ParserState::rule` emits, after pruning. -/
theorem rule_tokens (pg : PGrammar) (k : Nat) (pr : PRule) (name : String) (hpr : pg[k]? = some pr)
    (hk : pg.indexOf name = some k) (hns : ¬ (name = "WHITESPACE" ∨ name = "COMMENT"))
    (am : Atom3) (ha : am ≠ .atomic) (s e : Nat) (boxed : Bool) (v : Val) (ts : List Token) (kids : List Val)
    (hkids : (pr.kind ≠ .atomic ∧ kids = [v]) ∨ (pr.kind = .atomic ∧ kids = []))
    (hv : bodyAt name pr.kind am ≠ .atomic → tokens (gen pg) v = [] ++ pruneAtomic pg ts) :
    tokens (gen pg) (.mk (.rule (k+1) (kindEmission pr.kind) boxed s e) kids) =
      [] ++ pruneAtomic pg (if emitsToken pr.kind am then [.mk (pg.ruleId name) s e ts] else ts) := by
  have hc := hasContentPairs_gen pg k pr hpr
  have hid : pg.ruleId name = k + 1 := by simp [PGrammar.ruleId, hk]
  have hat : pg.isAtomicId (k+1) = (pr.kind == .atomic || pr.kind == .compoundAtomic) := by
    simp [PGrammar.isAtomicId, hpr]
  rw [hat] at hc
  simp only [List.nil_append] at hv ⊢
  rcases hkids with ⟨hka, rfl⟩ | ⟨hka, rfl⟩
  · cases hkind : pr.kind with
    | atomic => exact absurd hkind hka
    | normal =>
      rw [hkind] at hc hat hv
      have := hv (by simpa [bodyAt, hns] using ha)
      cases am <;> simp_all [tokens, tokensList, kindEmission, emitsToken, ruleCallAt, pruneAtomic, pruneAtomicTok]
    | silent =>
      rw [hkind] at hc hat hv
      have := hv (by simpa [bodyAt, hns] using ha)
      cases am <;> simp_all [tokens, tokensList, kindEmission, emitsToken, ruleCallAt]
    | compoundAtomic =>
      rw [hkind] at hc hat
      cases am <;> simp_all [tokens, kindEmission, emitsToken, ruleCallAt, pruneAtomic, pruneAtomicTok]
    | nonAtomic =>
      rw [hkind] at hc hat hv
      have := hv (by simp [bodyAt, hns])
      cases am <;> simp_all [tokens, tokensList, kindEmission, emitsToken, ruleCallAt, pruneAtomic, pruneAtomicTok]
  · rw [hka] at hc hat
    cases am <;> simp_all [tokens, kindEmission, emitsToken, ruleCallAt, pruneAtomic, pruneAtomicTok]

/-- A repetition node against `specTokRepWith` (skip-free), given the simulation of its element at
the fuel below. -/
theorem Tok.rep_sim (pg : PGrammar) (uni : Uni) (hsf : SkipFree pg) (n : Nat)
    (ih : ∀ (N : Nat) (e : PExpr), Frag pg e → ∀ (sk : Flag) (inh : Bool) (am : Atom3) (i : Inp) (m : M),
      SimG pg am (tokens (gen pg)) [] (parse (gen pg) uni n inh (genExpr pg sk e) i m)
        (specTok pg uni N am e i m.stk))
    (x : PExpr) (hF : Frag pg x) (sk : Flag) (inh : Bool) (am : Atom3) (i : Inp) (m : M) (min : Nat)
    (max : Option Nat) (N : Nat) :
    SimG pg am (tokens (gen pg)) []
      (parse (gen pg) uni (n+1) inh (.rep sk min max (genExpr pg sk x)) i m)
      (specTokRepWith (specTok pg uni N) N false false am x min max i m.stk) := by
  simp only [parse]
  unfold specTokRepWith
  have hloop := Tok.repLoop_sim pg am (gen pg)
    (repUnitP (parse (gen pg) uni n false (gen pg).skipped) (parse (gen pg) uni n inh (genExpr pg sk x))
      (defaultSkipVal (gen pg)) (skipCount sk inh))
    (fun idx i S =>
      if idx = 0 ∨ (!am.na) = true then specTok pg uni N am x i S
      else
        match specTokSkip (specTok pg uni N .nonAtomic) false false (atomicBudget N) i S with
        | .oof => .oof
        | .fail => .fail
        | .ok i1 S1 t1 =>
          match specTok pg uni N am x i1 S1 with
          | .oof => .oof
          | .fail => .fail
          | .ok i2 S2 t2 => .ok i2 S2 (t1 ++ t2))
    (fun idx i m => repUnit_sim pg am (gen pg) _ _ _ _ (specTok pg uni N) x N
      (skipRuns_noop (gen pg) uni n _ hsf.skipped) (tokens_defaultSkipVal _)
      (fun i m => ih N x hF sk inh am i m) idx i m)
    min max n N 0 i m [] [] rfl (fun _ => by simp [tokensList, pruneAtomic])
  cases hp : repLoop (repUnitP (parse (gen pg) uni n false (gen pg).skipped)
      (parse (gen pg) uni n inh (genExpr pg sk x)) (defaultSkipVal (gen pg)) (skipCount sk inh))
      min max n 0 i m [] with
  | oof => exact SimG.oof_left _
  | fail mf =>
    rw [hp] at hloop
    revert hloop
    generalize specTokRepLoop _ min max N 0 i m.stk [] = rs
    intro hloop
    cases rs with
    | oof => exact SimG.oof_right _
    | fail => exact SimG.fail_fail _
    | ok _ _ _ => exact absurd hloop SimG.fail_ok
  | ok i' m' vs =>
    rw [hp] at hloop
    revert hloop
    generalize specTokRepLoop _ min max N 0 i m.stk [] = rs
    intro hloop
    cases rs with
    | oof => exact SimG.oof_right _
    | fail => exact absurd hloop SimG.ok_fail
    | ok j S ts =>
      obtain ⟨h1, h2, h3⟩ := SimG.ok_ok.mp hloop
      exact SimG.ok_ok.mpr ⟨h1, h2, fun ha => by simpa [tokens] using h3 ha⟩

/-- The simulation for the fragment: whenever neither side runs out of fuel, the typed parser of the
generated module and pest's token semantics both fail, or both succeed at the same cursor with the
same stack, and — outside an `Atomic` context — the typed tokens are pest's tokens pruned. -/
theorem frag_sim (pg : PGrammar) (uni : Uni) (hsf : SkipFree pg) :
    ∀ (n N : Nat) (e : PExpr), Frag pg e → ∀ (sk : Flag) (inh : Bool) (am : Atom3) (i : Inp) (m : M),
      SimG pg am (tokens (gen pg)) [] (parse (gen pg) uni n inh (genExpr pg sk e) i m)
        (specTok pg uni N am e i m.stk) := by
  intro n
  induction n with
  | zero => intros; exact SimG.oof_left _
  | succ n ih =>
    intro N e
    induction e generalizing N with
    | str s =>
      intro _ sk inh am i m
      cases N with
      | zero => exact SimG.oof_right _
      | succ N =>
        simp only [genExpr, parse, specTok]
        cases i.matchString s with
        | none => exact SimG.fail_fail _
        | some i' => exact SimG.ok_ok.mpr ⟨rfl, rfl, fun _ => by simp [tokens, tokensList, Val.leaf, pruneAtomic]⟩
    | insens s =>
      intro _ sk inh am i m
      cases N with
      | zero => exact SimG.oof_right _
      | succ N =>
        simp only [genExpr, parse, specTok]
        cases i.matchInsens s with
        | none => exact SimG.fail_fail _
        | some i' => exact SimG.ok_ok.mpr ⟨rfl, rfl, fun _ => by simp [tokens, tokensList, Val.leaf, pruneAtomic]⟩
    | range lo hi =>
      intro _ sk inh am i m
      cases N with
      | zero => exact SimG.oof_right _
      | succ N =>
        simp only [genExpr, parse, specTok]
        cases i.matchRange lo hi with
        | none => exact SimG.fail_fail _
        | some p =>
          obtain ⟨i', c⟩ := p
          exact SimG.ok_ok.mpr ⟨rfl, rfl, fun _ => by simp [tokens, tokensList, Val.leaf, pruneAtomic]⟩
    | ident name =>
      intro hF sk inh am i m
      cases N with
      | zero => exact SimG.oof_right _
      | succ N =>
        simp only [genExpr]
        cases hk : pg.indexOf name with
        | some k =>
          obtain ⟨pr, hpr, _⟩ := indexOf_some pg name k hk
          have hfind : pg.find? name = some pr := by simp [PGrammar.find?, hk, hpr]
          have hrule : (gen pg).rule? (k+1) = some (genRule pg pr) := by simp [NodeGrammar.rule?, gen, hpr]
          have hFr : Frag pg pr.expr := hsf.frag pr (List.mem_of_getElem? hpr)
          have hns := hsf.not_skip_name hk
          simp only [parse, specTok, hfind, hrule]
          -- the three emission arms share the comparison of the body runs
          have fin : ∀ (m0 : M), m0.stk = m.stk → ∀ (kids : Val → List Val) (fmF fmO : M → M),
              (∀ m1, (fmO m1).stk = m1.stk) →
              (∀ v, (pr.kind ≠ .atomic ∧ kids v = [v]) ∨ (pr.kind = .atomic ∧ kids v = [])) →
              SimG pg am (tokens (gen pg)) []
                (match parse (gen pg) uni n (sk.eval inh) (genRule pg pr).body i m0 with
                 | .oof => .oof
                 | .fail m' => .fail (fmF m')
                 | .ok i' m' v => .ok i' (fmO m')
                    (.mk (.rule (k+1) (kindEmission pr.kind) (genRule pg pr).boxed i.pos i'.pos) (kids v)))
                (match specTok pg uni N (bodyAt name pr.kind am) pr.expr i m.stk with
                 | .oof => .oof
                 | .fail => .fail
                 | .ok i' S' ts =>
                   .ok i' S' (if emitsToken pr.kind am then [.mk (pg.ruleId name) i.pos i'.pos ts] else ts)) := by
            intro m0 hm0 kids fmF fmO hfm hkids
            have h := ih N pr.expr hFr (atomFlag (kindAtomicity pr.kind)) (sk.eval inh) (bodyAt name pr.kind am) i m0
            rw [hm0] at h
            have hbody : (genRule pg pr).body = genExpr pg (atomFlag (kindAtomicity pr.kind)) pr.expr := rfl
            rw [hbody]
            cases hp : parse (gen pg) uni n (sk.eval inh) (genExpr pg (atomFlag (kindAtomicity pr.kind)) pr.expr) i m0 with
            | oof => exact SimG.oof_left _
            | fail mf =>
              rw [hp] at h
              cases hs : specTok pg uni N (bodyAt name pr.kind am) pr.expr i m.stk with
              | oof => exact SimG.oof_right _
              | fail => exact SimG.fail_fail _
              | ok j S ts => rw [hs] at h; exact absurd h SimG.fail_ok
            | ok i' m' v =>
              rw [hp] at h
              cases hs : specTok pg uni N (bodyAt name pr.kind am) pr.expr i m.stk with
              | oof => exact SimG.oof_right _
              | fail => rw [hs] at h; exact absurd h SimG.ok_fail
              | ok j S ts =>
                rw [hs] at h
                obtain ⟨h1, h2, h3⟩ := SimG.ok_ok.mp h
                subst h1
                refine SimG.ok_ok.mpr ⟨rfl, by rw [hfm]; exact h2, fun ha => ?_⟩
                exact rule_tokens pg k pr name hpr hk hns am ha i.pos i'.pos _ v ts (kids v) (hkids v) h3
          have finBoth := fin { m with trk := m.trk.enter (k+1) i.pos } rfl (fun v => [v])
              (fun m' => { m' with trk := m'.trk.leave (k+1) i.pos false })
              (fun m' => { m' with trk := m'.trk.leave (k+1) i.pos true }) (fun _ => rfl)
          cases hkind : pr.kind with
          | normal =>
            have this := finBoth (fun v => Or.inl ⟨by rw [hkind]; simp, rfl⟩)
            simp only [genRule, hkind, kindEmission] at this ⊢
            revert this
            generalize parse (gen pg) uni n _ _ i _ = rp
            generalize specTok pg uni N _ pr.expr i m.stk = rs
            intro this
            cases rp <;> cases rs <;> exact this
          | nonAtomic =>
            have this := finBoth (fun v => Or.inl ⟨by rw [hkind]; simp, rfl⟩)
            simp only [genRule, hkind, kindEmission] at this ⊢
            revert this
            generalize parse (gen pg) uni n _ _ i _ = rp
            generalize specTok pg uni N _ pr.expr i m.stk = rs
            intro this
            cases rp <;> cases rs <;> exact this
          | compoundAtomic =>
            have this := finBoth (fun v => Or.inl ⟨by rw [hkind]; simp, rfl⟩)
            simp only [genRule, hkind, kindEmission] at this ⊢
            revert this
            generalize parse (gen pg) uni n _ _ i _ = rp
            generalize specTok pg uni N _ pr.expr i m.stk = rs
            intro this
            cases rp <;> cases rs <;> exact this
          | silent =>
            have this := fin m rfl (fun v => [v]) id id (fun _ => rfl)
              (fun v => Or.inl ⟨by rw [hkind]; simp, rfl⟩)
            simp only [genRule, hkind, kindEmission] at this ⊢
            revert this
            generalize parse (gen pg) uni n _ _ i _ = rp
            generalize specTok pg uni N _ pr.expr i m.stk = rs
            intro this
            cases rp <;> cases rs <;> exact this
          | atomic =>
            have this := fin { m with trk := m.trk.enter (k+1) i.pos } rfl (fun _ => [])
              (fun m' => { m' with trk := m'.trk.leave (k+1) i.pos false })
              (fun m' => { m' with trk := m'.trk.leave (k+1) i.pos true }) (fun _ => rfl)
              (fun v => Or.inr ⟨hkind, rfl⟩)
            simp only [genRule, hkind, kindEmission, check_eq_parse_forget] at this ⊢
            revert this
            generalize parse (gen pg) uni n _ _ i _ = rp
            generalize specTok pg uni N _ pr.expr i m.stk = rs
            intro this
            cases rp <;> cases rs <;> exact this
        | none =>
          have hname : name = "EOI" := by
            rcases hF with hd | h
            · simp [PGrammar.defines, hk] at hd
            · exact h
          subst hname
          have hfind : pg.find? "EOI" = none := by simp [PGrammar.find?, hk]
          have hb : builtinNode "EOI" = .ref 0 .one := by simp [builtinNode]
          have hrule : (gen pg).rule? 0 = some eoiDef := rfl
          simp only [hb, parse, specTok, hfind, hrule, eoiDef, specTokBuiltin]
          have hsb : specBuiltin uni "EOI" i m.stk = if i.atEnd then .ok i m.stk else .fail := by
            simp [specBuiltin]
          rw [hsb]
          cases n with
          | zero => exact SimG.oof_left _
          | succ n =>
            simp only [parse]
            cases i.atEnd with
            | false => exact SimG.fail_fail _
            | true =>
              simp only [if_true]
              refine SimG.ok_ok.mpr ⟨rfl, rfl, fun ha => ?_⟩
              simp [tokens, hasContentPairs, hrule, ha, pruneAtomic, pruneAtomicTok, PGrammar.isAtomicId]
    | peekSlice a b =>
      intro _ sk inh am i m
      cases N with
      | zero => exact SimG.oof_right _
      | succ N =>
        simp only [genExpr, parse, specTok]
        cases constrainIdxs a b m.stk.length with
        | none => exact SimG.fail_fail _
        | some p =>
          obtain ⟨lo, hi⟩ := p
          simp only []
          by_cases hle : hi ≤ lo
          · simp only [hle, if_true]
            exact SimG.ok_ok.mpr ⟨rfl, rfl, fun _ => by simp [tokens, tokensList, Val.leaf, pruneAtomic]⟩
          · simp only [hle, if_false]
            cases peekSpans (stackSlice m.stk lo hi) i with
            | none => exact SimG.fail_fail _
            | some i' =>
              exact SimG.ok_ok.mpr ⟨rfl, rfl, fun _ => by simp [tokens, tokensList, Val.leaf, pruneAtomic]⟩
    | posPred x _ => intro hF; exact absurd hF (by simp [Frag])
    | negPred x _ => intro hF; exact absurd hF (by simp [Frag])
    | seq a b _ _ =>
      intro hF sk inh am i m
      obtain ⟨hFa, hFb⟩ := hF
      cases N with
      | zero => exact SimG.oof_right _
      | succ N =>
        simp only [genExpr, parse, specTok, hsf.noW, hsf.noC]
        have ha := ih N a hFa sk inh am i m
        cases hp : parse (gen pg) uni n inh (genExpr pg sk a) i m with
        | oof => exact SimG.oof_left _
        | fail mf =>
          rw [hp] at ha
          cases hs : specTok pg uni N am a i m.stk with
          | oof => exact SimG.oof_right _
          | fail => exact SimG.fail_fail _
          | ok j S ts => rw [hs] at ha; exact absurd ha SimG.fail_ok
        | ok i1 m1 v0 =>
          rw [hp] at ha
          cases hs : specTok pg uni N am a i m.stk with
          | oof => exact SimG.oof_right _
          | fail => rw [hs] at ha; exact absurd ha SimG.ok_fail
          | ok j S t1 =>
            rw [hs] at ha
            obtain ⟨h1, h2, h3⟩ := SimG.ok_ok.mp ha
            subst h1 h2
            simp only []
            have hb := Tok.seqSpine_sim pg (gen pg) uni n inh sk
              (skipRuns (parse (gen pg) uni n false (gen pg).skipped) (skipCount sk inh))
              (skipRuns_noop (gen pg) uni n _ hsf.skipped) hsf.noW hsf.noC
              (fun N e hF am i m => ih N e hF sk inh am i m) b hFb N am i1 m1 [] [] (fun _ => rfl)
            -- pest's skip after `a` is a no-op
            rcases Bool.eq_false_or_eq_true am.na with hna | hna <;>
              simp only [hna, if_true, Bool.false_eq_true, if_false, specTokSkip_none, List.append_nil] <;>
            (
              revert hb
              generalize seqLoop (parse (gen pg) uni n inh) _ mkSkipped (genSeqSpine pg sk b) i1 m1 [] = rp
              generalize specTok pg uni N am b i1 m1.stk = rs
              intro hb
              cases rp with
              | oof => exact SimG.oof_left _
              | fail mf =>
                cases rs with
                | oof => exact SimG.oof_right _
                | fail => exact SimG.fail_fail _
                | ok _ _ _ => exact absurd hb SimG.fail_ok
              | ok i2 m2 vs =>
                cases rs with
                | oof => exact SimG.oof_right _
                | fail => exact absurd hb SimG.ok_fail
                | ok j S t3 =>
                  obtain ⟨g1, g2, g3⟩ := SimG.ok_ok.mp hb
                  refine SimG.ok_ok.mpr ⟨g1, g2, fun hat => ?_⟩
                  have e1 := h3 hat
                  have e2 := g3 hat
                  simp only [List.nil_append] at e1 e2
                  simp [tokens, tokensList, tokens_mkSkipped,
                    tokensList_replicate_nil (gen pg) _ (tokens_defaultSkipVal (gen pg)), e1, e2,
                    pruneAtomic_append]
            )
    | choice a b _ _ =>
      intro hF sk inh am i m
      obtain ⟨hFa, hFb⟩ := hF
      cases N with
      | zero => exact SimG.oof_right _
      | succ N =>
        simp only [genExpr, parse]
        have hc := Tok.choiceSpine_sim pg (gen pg) uni n inh sk (fun N e hF am i m => ih N e hF sk inh am i m)
          (.choice a b) ⟨hFa, hFb⟩ (N+1) am 0 i m
        simp only [genChoiceSpine] at hc
        revert hc
        generalize choiceLoop (parse (gen pg) uni n inh) _ 0 i m = rp
        generalize specTok pg uni (N+1) am (.choice a b) i m.stk = rs
        intro hc
        cases rp with
        | oof => exact SimG.oof_left _
        | fail mf =>
          cases rs with
          | oof => exact SimG.oof_right _
          | fail => exact SimG.fail_fail _
          | ok _ _ _ => exact absurd hc SimG.fail_ok
        | ok i2 m2 kv =>
          cases rs with
          | oof => exact SimG.oof_right _
          | fail => exact absurd hc SimG.ok_fail
          | ok j S ts =>
            obtain ⟨k, v⟩ := kv
            obtain ⟨g1, g2, g3⟩ := SimG.ok_ok.mp hc
            exact SimG.ok_ok.mpr ⟨g1, g2, fun hat => by simpa [tokens, tokensList] using g3 hat⟩
    | opt x _ =>
      intro hF sk inh am i m
      cases N with
      | zero => exact SimG.oof_right _
      | succ N =>
        simp only [genExpr, parse, specTok]
        have h := ih N x hF sk inh am i m
        revert h
        generalize parse (gen pg) uni n inh (genExpr pg sk x) i m = rp
        generalize specTok pg uni N am x i m.stk = rs
        intro h
        cases rp with
        | oof => exact SimG.oof_left _
        | fail mf =>
          cases rs with
          | oof => exact SimG.oof_right _
          | fail =>
            simp only [restoreOnNone]
            exact SimG.ok_ok.mpr ⟨rfl, rfl, fun _ => by simp [tokens, tokensList, Val.leaf, pruneAtomic]⟩
          | ok _ _ _ => exact absurd h SimG.fail_ok
        | ok i2 m2 v =>
          cases rs with
          | oof => exact SimG.oof_right _
          | fail => exact absurd h SimG.ok_fail
          | ok j S ts =>
            obtain ⟨g1, g2, g3⟩ := SimG.ok_ok.mp h
            simp only [restoreOnNone]
            exact SimG.ok_ok.mpr ⟨g1, g2, fun hat => by simpa [tokens, tokensList] using g3 hat⟩
    | rep x _ =>
      intro hF sk inh am i m
      cases N with
      | zero => exact SimG.oof_right _
      | succ N =>
        simp only [genExpr, specTok, hsf.noW, hsf.noC]
        exact Tok.rep_sim pg uni hsf n ih x hF sk inh am i m _ _ N
    | repOnce x _ =>
      intro hF sk inh am i m
      cases N with
      | zero => exact SimG.oof_right _
      | succ N =>
        simp only [genExpr, specTok, hsf.noW, hsf.noC]
        exact Tok.rep_sim pg uni hsf n ih x hF sk inh am i m _ _ N
    | repExact x c _ =>
      intro hF sk inh am i m
      cases N with
      | zero => exact SimG.oof_right _
      | succ N =>
        simp only [genExpr, specTok, hsf.noW, hsf.noC]
        exact Tok.rep_sim pg uni hsf n ih x hF sk inh am i m _ _ N
    | repMin x c _ =>
      intro hF sk inh am i m
      cases N with
      | zero => exact SimG.oof_right _
      | succ N =>
        simp only [genExpr, specTok, hsf.noW, hsf.noC]
        exact Tok.rep_sim pg uni hsf n ih x hF sk inh am i m _ _ N
    | repMax x c _ =>
      intro hF sk inh am i m
      cases N with
      | zero => exact SimG.oof_right _
      | succ N =>
        simp only [genExpr, specTok, hsf.noW, hsf.noC]
        exact Tok.rep_sim pg uni hsf n ih x hF sk inh am i m _ _ N
    | repMinMax x c d _ =>
      intro hF sk inh am i m
      cases N with
      | zero => exact SimG.oof_right _
      | succ N =>
        simp only [genExpr, specTok, hsf.noW, hsf.noC]
        exact Tok.rep_sim pg uni hsf n ih x hF sk inh am i m _ _ N
    | skip needles =>
      intro _ sk inh am i m
      cases N with
      | zero => exact SimG.oof_right _
      | succ N =>
        simp only [genExpr, parse, specTok]
        exact SimG.ok_ok.mpr ⟨rfl, rfl, fun _ => by simp [tokens, tokensList, Val.leaf, pruneAtomic]⟩
    | push x _ =>
      intro hF sk inh am i m
      cases N with
      | zero => exact SimG.oof_right _
      | succ N =>
        simp only [genExpr, parse, specTok]
        have h := ih N x hF sk inh am i m
        revert h
        generalize parse (gen pg) uni n inh (genExpr pg sk x) i m = rp
        generalize specTok pg uni N am x i m.stk = rs
        intro h
        cases rp with
        | oof => exact SimG.oof_left _
        | fail mf =>
          cases rs with
          | oof => exact SimG.oof_right _
          | fail => exact SimG.fail_fail _
          | ok _ _ _ => exact absurd h SimG.fail_ok
        | ok i2 m2 v =>
          cases rs with
          | oof => exact SimG.oof_right _
          | fail => exact absurd h SimG.ok_fail
          | ok j S ts =>
            obtain ⟨g1, g2, g3⟩ := SimG.ok_ok.mp h
            subst g1 g2
            exact SimG.ok_ok.mpr ⟨rfl, rfl, fun hat => by simpa [tokens, tokensList] using g3 hat⟩
    | restoreOnErr x ihx =>
      intro hF sk inh am i m
      cases N with
      | zero => exact SimG.oof_right _
      | succ N =>
        simp only [genExpr, specTok]
        exact ihx N hF sk inh am i m

end PestTyped
