/-
Lemmas.DebugString — the STRING a derived `Debug` impl writes (`{:?}`, not alternate), as a
function of the tree of formatter calls `Dbg` of `Model/ValEq.lean`, and its injectivity on the
renderings of values of one type expression (for `Props/C18More.lean`).

`core::fmt::builders` (non-alternate):
* `debug_struct(name).field(f1, v1)…finish()`:  `name { f1: v1, f2: v2 }`; without fields: `name`
* `debug_tuple(name).field(v1)…finish()`:       `name(v1, v2)`; without fields: `name`;
                                                 one field and an empty name: `(v1,)`
* `debug_list().entries(..).finish()`:          `[v1, v2]`
* `&str`, `char`, `usize`:                      `Lemmas/RustDebug.lean`

Contents: unique readability of numbers, escaped characters and strings; `Dbg.render`; `DSim`
("renderings of two values of one type": same names and field names, leaves free, `None` / `Some`,
the three `NEWLINE` kinds, different `ChoiceN` variants, vectors of different lengths);
`Dbg.render_inj`: on `DSim`-related trees whose names do not begin with `]` the string
determines the tree; `debugTree_sim`: the trees of two values of one type expression are related.
-/
import PestTyped.Lemmas.ValEqLemmas
import PestTyped.Lemmas.RustDebug
namespace PestTyped
open RustDebug

/-! ### splitting a string at the end of a run of characters of one class -/

theorem append_inj_class (P : Char → Prop) : ∀ (A B r1 r2 : List Char),
    (∀ c ∈ A, P c) → (∀ c ∈ B, P c) → (∀ c cs, r1 = c :: cs → ¬ P c) → (∀ c cs, r2 = c :: cs → ¬ P c) →
    A ++ r1 = B ++ r2 → A = B ∧ r1 = r2
  | [], [], _, _, _, _, _, _, h => ⟨rfl, by simpa using h⟩
  | [], b :: B, r1, r2, _, hB, h1, _, h => by
    simp only [List.nil_append, List.cons_append] at h
    exact absurd (hB b (by simp)) (h1 b _ h)
  | a :: A, [], r1, r2, hA, _, _, h2, h => by
    simp only [List.nil_append, List.cons_append] at h
    exact absurd (hA a (by simp)) (h2 a _ h.symm)
  | a :: A, b :: B, r1, r2, hA, hB, h1, h2, h => by
    simp only [List.cons_append, List.cons.injEq] at h
    obtain ⟨rfl, h⟩ := h
    obtain ⟨e1, e2⟩ := append_inj_class P A B r1 r2 (fun c hc => hA c (by simp [hc]))
      (fun c hc => hB c (by simp [hc])) h1 h2 h
    exact ⟨by rw [e1], e2⟩

/-! ### numbers -/

theorem toDigits10_inj {n m : Nat} (h : Nat.toDigits 10 n = Nat.toDigits 10 m) : n = m := by
  have := congrArg (fun l => Nat.ofDigitChars 10 l 0) h
  simpa using this

/-- What may follow a value in a rendering: nothing, or `,` ` ` `)` `]` `}`. -/
def Delim (r : List Char) : Prop :=
  ∀ c cs, r = c :: cs → c = ',' ∨ c = ' ' ∨ c = ')' ∨ c = ']' ∨ c = '}'

theorem Delim.nil : Delim [] := by intro c cs h; cases h
theorem Delim.cons {c : Char} {cs : List Char} (h : c = ',' ∨ c = ' ' ∨ c = ')' ∨ c = ']' ∨ c = '}') :
    Delim (c :: cs) := by
  intro c' cs' e; injection e with e1 _; subst e1; exact h

theorem Delim.not_digit {r : List Char} (h : Delim r) : ∀ c cs, r = c :: cs → ¬ (c.isDigit = true) := by
  intro c cs e
  rcases h c cs e with rfl | rfl | rfl | rfl | rfl <;> decide

/-- A decimal number followed by a non-digit is read back uniquely. -/
theorem numDebug_inj {n m : Nat} {r1 r2 : List Char}
    (h1 : ∀ c cs, r1 = c :: cs → ¬ (c.isDigit = true)) (h2 : ∀ c cs, r2 = c :: cs → ¬ (c.isDigit = true))
    (h : numDebug n ++ r1 = numDebug m ++ r2) : n = m ∧ r1 = r2 := by
  unfold numDebug at h
  obtain ⟨e1, e2⟩ := append_inj_class (fun c => c.isDigit = true) _ _ r1 r2
    (fun c hc => Nat.isDigit_of_mem_toDigits (by decide) (by decide) hc)
    (fun c hc => Nat.isDigit_of_mem_toDigits (by decide) (by decide) hc) h1 h2 h
  exact ⟨toDigits10_inj e1, e2⟩

/-! ### hexadecimal -/

theorem digitChar_ne_rbrace (k : Nat) : Nat.digitChar k ≠ '}' := by
  match k with
  | 0 | 1 | 2 | 3 | 4 | 5 | 6 | 7 | 8 | 9 | 10 | 11 | 12 | 13 | 14 | 15 => decide
  | _ + 16 => simp [Nat.digitChar]

theorem mem_toDigits_digitChar {b : Nat} (hb : 1 < b) : ∀ (n : Nat) (c : Char),
    c ∈ Nat.toDigits b n → ∃ k, c = Nat.digitChar k := by
  intro n
  induction n using Nat.strongRecOn with
  | _ n ih =>
    intro c hc
    rw [Nat.toDigits_eq_if hb] at hc
    split at hc
    · simp only [List.mem_singleton] at hc; exact ⟨n, hc⟩
    · simp only [List.mem_append, List.mem_singleton] at hc
      rcases hc with hc | hc
      · exact ih (n / b) (Nat.div_lt_self (by omega) hb) c hc
      · exact ⟨_, hc⟩

theorem digitChar_inj16 : ∀ i, i < 16 → ∀ j, j < 16 → Nat.digitChar i = Nat.digitChar j → i = j := by
  decide

theorem toDigits16_inj : ∀ (n m : Nat), Nat.toDigits 16 n = Nat.toDigits 16 m → n = m := by
  intro n
  induction n using Nat.strongRecOn with
  | _ n ih =>
    intro m h
    rw [Nat.toDigits_eq_if (b := 16) (n := n) (by decide), Nat.toDigits_eq_if (b := 16) (n := m) (by decide)] at h
    by_cases hn : n < 16 <;> by_cases hm : m < 16
    · rw [if_pos hn, if_pos hm] at h
      exact digitChar_inj16 n hn m hm (by simpa using h)
    · rw [if_pos hn, if_neg hm] at h
      have := congrArg List.length h
      have hp := Nat.length_toDigits_pos (b := 16) (n := m / 16)
      simp at this
    · rw [if_neg hn, if_pos hm] at h
      have := congrArg List.length h
      have hp := Nat.length_toDigits_pos (b := 16) (n := n / 16)
      simp at this
    · rw [if_neg hn, if_neg hm] at h
      obtain ⟨e1, e2⟩ := List.append_inj' h rfl
      have e3 := ih (n / 16) (Nat.div_lt_self (by omega) (by decide)) (m / 16) e1
      have e4 := digitChar_inj16 (n % 16) (Nat.mod_lt _ (by decide)) (m % 16) (Nat.mod_lt _ (by decide))
        (by simpa using e2)
      have := Nat.div_add_mod n 16
      have := Nat.div_add_mod m 16
      omega

/-- `\u{hex}` is read back uniquely, whatever follows. -/
theorem escapeUnicode_inj {c c' : Char} {r1 r2 : List Char}
    (h : escapeUnicode c ++ r1 = escapeUnicode c' ++ r2) : c = c' ∧ r1 = r2 := by
  unfold escapeUnicode at h
  simp only [List.append_assoc, List.cons_append, List.nil_append, List.cons.injEq, true_and] at h
  have hne : ∀ n, ∀ x ∈ Nat.toDigits 16 n, x ≠ '}' := by
    intro n x hx
    obtain ⟨k, rfl⟩ := mem_toDigits_digitChar (by decide) n x hx
    exact digitChar_ne_rbrace k
  obtain ⟨e1, e2⟩ := append_inj_class (fun x => x ≠ '}') _ _ ('}' :: r1) ('}' :: r2) (hne _) (hne _)
    (by intro x cs e; injection e with e _; subst e; simp)
    (by intro x cs e; injection e with e _; subst e; simp) h
  exact ⟨Char.toNat_inj.mp (toDigits16_inj _ _ e1), by simpa using e2⟩

/-! ### escaped characters and strings -/

/-- The character a two-character escape `\x` stands for. -/
def unesc (x : Char) : Char :=
  if x = '0' then '\x00' else if x = 't' then '\t' else if x = 'r' then '\r'
  else if x = 'n' then '\n' else x

/-- The three forms of `escape_debug_ext`. -/
theorem esc_cases (up : Char → Bool) (dq sq : Bool) (c : Char) :
    (escapeDebugExt up dq sq c = [c] ∧ c ≠ '\\' ∧ (dq = true → c ≠ '"') ∧ (sq = true → c ≠ '\'')) ∨
    (∃ x, escapeDebugExt up dq sq c = ['\\', x] ∧ x ≠ 'u' ∧ unesc x = c) ∨
    escapeDebugExt up dq sq c = escapeUnicode c := by
  unfold escapeDebugExt
  split
  · rename_i h; subst h; exact Or.inr (Or.inl ⟨'0', rfl, by decide, by decide⟩)
  split
  · rename_i h; subst h; exact Or.inr (Or.inl ⟨'t', rfl, by decide, by decide⟩)
  split
  · rename_i h; subst h; exact Or.inr (Or.inl ⟨'r', rfl, by decide, by decide⟩)
  split
  · rename_i h; subst h; exact Or.inr (Or.inl ⟨'n', rfl, by decide, by decide⟩)
  split
  · rename_i h; subst h; exact Or.inr (Or.inl ⟨'\\', rfl, by decide, by decide⟩)
  split
  · rename_i h; obtain ⟨h, _⟩ := h; subst h; exact Or.inr (Or.inl ⟨'"', rfl, by decide, by decide⟩)
  split
  · rename_i h; obtain ⟨h, _⟩ := h; subst h; exact Or.inr (Or.inl ⟨'\'', rfl, by decide, by decide⟩)
  rename_i h0 h1 h2 h3 h4 h5 h6
  have key : ([c] : List Char) = [c] ∧ c ≠ '\\' ∧ (dq = true → c ≠ '"') ∧ (sq = true → c ≠ '\'') :=
    ⟨rfl, h4, fun hd hc => h5 ⟨hc, hd⟩, fun hs hc => h6 ⟨hc, hs⟩⟩
  unfold escapePlain
  split
  · split
    · exact Or.inl key
    · exact Or.inr (Or.inr rfl)
  · split
    · exact Or.inl key
    · exact Or.inr (Or.inr rfl)

/-- An escaped character is read back uniquely, whatever follows. -/
theorem esc_inj (up : Char → Bool) (dq sq : Bool) {c c' : Char} {r1 r2 : List Char}
    (h : escapeDebugExt up dq sq c ++ r1 = escapeDebugExt up dq sq c' ++ r2) : c = c' ∧ r1 = r2 := by
  rcases esc_cases up dq sq c with ⟨e, hb, _, _⟩ | ⟨x, e, hx, hu⟩ | e <;>
    rcases esc_cases up dq sq c' with ⟨e', hb', _, _⟩ | ⟨x', e', hx', hu'⟩ | e' <;>
    rw [e, e'] at h
  · simpa using h
  · simp at h; exact absurd h.1 hb
  · simp [escapeUnicode] at h; exact absurd h.1 hb
  · simp at h; exact absurd h.1.symm hb'
  · simp at h; obtain ⟨rfl, h⟩ := h; exact ⟨hu.symm.trans hu', h⟩
  · simp [escapeUnicode] at h; exact absurd h.1 hx
  · simp [escapeUnicode] at h; exact absurd h.1.symm hb'
  · simp [escapeUnicode] at h; exact absurd h.1.symm hx'
  · exact escapeUnicode_inj h

/-- The first character of an escaped character is never the closing quote. -/
theorem esc_head_ne_quote (up : Char → Bool) (c : Char) :
    (∀ cs, escapeDebugExt up true false c ≠ '"' :: cs) ∧ (∀ cs, escapeDebugExt up false true c ≠ '\'' :: cs) := by
  constructor
  · intro cs h
    rcases esc_cases up true false c with ⟨e, _, hq, _⟩ | ⟨x, e, _, _⟩ | e <;> rw [e] at h
    · injection h with h _; exact hq rfl h
    · injection h with h _; revert h; decide
    · simp [escapeUnicode] at h
  · intro cs h
    rcases esc_cases up false true c with ⟨e, _, _, hq⟩ | ⟨x, e, _, _⟩ | e <;> rw [e] at h
    · injection h with h _; exact hq rfl h
    · injection h with h _; revert h; decide
    · simp [escapeUnicode] at h

theorem strBody_inj (up : Char → Bool) : ∀ (s s' : List Char) (r1 r2 : List Char),
    strBody up s ++ '"' :: r1 = strBody up s' ++ '"' :: r2 → s = s' ∧ r1 = r2
  | [], [], r1, r2, h => by simpa [strBody] using h
  | [], c' :: t', r1, r2, h => by
    simp only [strBody, List.flatMap_nil, List.nil_append, List.flatMap_cons, List.append_assoc] at h
    cases he : escapeDebugExt up true false c' with
    | nil =>
      rcases esc_cases up true false c' with ⟨e, _⟩ | ⟨x, e, _⟩ | e <;> rw [e] at he <;>
        simp [escapeUnicode] at he
    | cons y ys =>
      rw [he] at h
      injection h with h _
      exact absurd (h ▸ he) ((esc_head_ne_quote up c').1 ys)
  | c :: t, [], r1, r2, h => by
    simp only [strBody, List.flatMap_nil, List.nil_append, List.flatMap_cons, List.append_assoc] at h
    cases he : escapeDebugExt up true false c with
    | nil =>
      rcases esc_cases up true false c with ⟨e, _⟩ | ⟨x, e, _⟩ | e <;> rw [e] at he <;>
        simp [escapeUnicode] at he
    | cons y ys =>
      rw [he] at h
      injection h with h _
      exact absurd (h ▸ he) ((esc_head_ne_quote up c).1 ys)
  | c :: t, c' :: t', r1, r2, h => by
    simp only [strBody, List.flatMap_cons, List.append_assoc] at h
    obtain ⟨hc, h'⟩ := esc_inj up true false h
    obtain ⟨ht, h''⟩ := strBody_inj up t t' r1 r2 (by simpa [strBody] using h')
    exact ⟨by rw [hc, ht], h''⟩

/-- `{:?}` of a `&str` is read back uniquely, whatever follows. -/
theorem strDebug_inj (up : Char → Bool) {s s' r1 r2 : List Char}
    (h : strDebug up s ++ r1 = strDebug up s' ++ r2) : s = s' ∧ r1 = r2 := by
  unfold strDebug at h
  simp only [List.cons_append, List.append_assoc, List.cons.injEq, true_and, List.nil_append] at h
  exact strBody_inj up s s' r1 r2 h

/-- `{:?}` of a `char` is read back uniquely, whatever follows. -/
theorem charDebug_inj (up : Char → Bool) {c c' : Char} {r1 r2 : List Char}
    (h : charDebug up c ++ r1 = charDebug up c' ++ r2) : c = c' ∧ r1 = r2 := by
  unfold charDebug at h
  simp only [List.cons_append, List.append_assoc, List.cons.injEq, true_and, List.nil_append] at h
  obtain ⟨e, h⟩ := esc_inj up false true h
  exact ⟨e, by simpa using h⟩

/-! ### the rendering of a tree of formatter calls -/

mutual
/-- The string written by the formatter calls `d` (non-alternate `{:?}`). -/
def Dbg.render (up : Char → Bool) : Dbg → List Char
  | .unit n => n.toList
  | .struct n fs vs => n.toList ++ Dbg.renderFields up false fs vs
  | .tuple n vs => n.toList ++ Dbg.renderTuple up n.toList.isEmpty 0 vs
  | .list vs => '[' :: Dbg.renderElems up false vs
  | .str s => strDebug up s
  | .chr c => charDebug up c
  | .num n => numDebug n
/-- `DebugStruct`: `hf` = `has_fields`; ` { ` before the first field, `, ` before the others,
` }` in `finish()` when there was a field. -/
def Dbg.renderFields (up : Char → Bool) : Bool → List String → List Dbg → List Char
  | hf, f :: fs, v :: vs =>
    (if hf then [',', ' '] else [' ', '{', ' ']) ++ f.toList ++ [':', ' '] ++ Dbg.render up v ++
      Dbg.renderFields up true fs vs
  | hf, _, [] => if hf then [' ', '}'] else []
  | hf, [], _ :: _ => if hf then [' ', '}'] else []
/-- `DebugTuple`: `k` = number of fields so far; `(` before the first, `, ` before the others; in
`finish()`: nothing without fields, `,)` for one field and an empty name, else `)`. -/
def Dbg.renderTuple (up : Char → Bool) (emptyName : Bool) : Nat → List Dbg → List Char
  | k, v :: vs =>
    (if k = 0 then ['('] else [',', ' ']) ++ Dbg.render up v ++ Dbg.renderTuple up emptyName (k+1) vs
  | k, [] => if k = 0 then [] else if k = 1 ∧ emptyName = true then [',', ')'] else [')']
/-- `DebugList` after the `[`. -/
def Dbg.renderElems (up : Char → Bool) : Bool → List Dbg → List Char
  | hf, v :: vs => (if hf then [',', ' '] else []) ++ Dbg.render up v ++ Dbg.renderElems up true vs
  | _, [] => [']']
end

/-- A name that does not begin with `]` (every Rust identifier). -/
def goodName (n : String) : Bool :=
  match n.toList with
  | c :: _ => c != ']'
  | [] => false

mutual
/-- Every struct / tuple / unit name in the tree is a `goodName` (the empty name of a Rust tuple
is allowed on a non-empty tuple). -/
def Dbg.namesOK : Dbg → Bool
  | .unit n => goodName n
  | .struct n _ vs => goodName n && Dbg.namesOKL vs
  | .tuple n vs => (goodName n || (n.toList.isEmpty && !vs.isEmpty)) && Dbg.namesOKL vs
  | .list vs => Dbg.namesOKL vs
  | .str _ => true
  | .chr _ => true
  | .num _ => true
def Dbg.namesOKL : List Dbg → Bool
  | [] => true
  | v :: vs => Dbg.namesOK v && Dbg.namesOKL vs
end

theorem goodName_head {n : String} (h : goodName n = true) : ∃ c cs, n.toList = c :: cs ∧ c ≠ ']' := by
  unfold goodName at h
  cases hn : n.toList with
  | nil => rw [hn] at h; cases h
  | cons c cs => rw [hn] at h; exact ⟨c, cs, rfl, by simpa using h⟩

/-- A rendering is never empty and never begins with `]`. -/
theorem Dbg.render_head (up : Char → Bool) (d : Dbg) (h : d.namesOK = true) :
    ∃ c cs, d.render up = c :: cs ∧ c ≠ ']' := by
  cases d with
  | unit n => simp only [Dbg.namesOK] at h; simpa [Dbg.render] using goodName_head h
  | struct n fs vs =>
    simp only [Dbg.namesOK, Bool.and_eq_true] at h
    obtain ⟨c, cs, e, hc⟩ := goodName_head h.1
    exact ⟨c, cs ++ Dbg.renderFields up false fs vs, by simp [Dbg.render, e], hc⟩
  | tuple n vs =>
    simp only [Dbg.namesOK, Bool.and_eq_true, Bool.or_eq_true] at h
    rcases h.1 with hg | hg
    · obtain ⟨c, cs, e, hc⟩ := goodName_head hg
      exact ⟨c, cs ++ Dbg.renderTuple up n.toList.isEmpty 0 vs, by simp [Dbg.render, e], hc⟩
    · obtain ⟨h1, h2⟩ := hg
      cases vs with
      | nil => simp at h2
      | cons v vs' =>
        have : n.toList = [] := by simpa using h1
        exact ⟨'(', _, by simp only [Dbg.render, this, Dbg.renderTuple]; rfl, by decide⟩
  | list vs => simp only [Dbg.render]; exact ⟨_, _, rfl, by decide⟩
  | str s => simp only [Dbg.render, strDebug]; exact ⟨_, _, rfl, by decide⟩
  | chr c => simp only [Dbg.render, charDebug]; exact ⟨_, _, rfl, by decide⟩
  | num n =>
    simp only [Dbg.render, numDebug]
    cases hd : Nat.toDigits 10 n with
    | nil => exact absurd hd Nat.toDigits_ne_nil
    | cons c cs =>
      refine ⟨c, cs, rfl, ?_⟩
      have : c.isDigit = true := Nat.isDigit_of_mem_toDigits (b := 10) (n := n) (by decide) (by decide)
        (by rw [hd]; simp)
      intro hc; subst hc; revert this; decide

/-! ### renderings of two values of one type -/

mutual
/-- Two trees of formatter calls that two values of ONE Rust type can produce: the same names
and field names throughout, except: leaves are free; `None` against `Some(..)`; the three kinds of
`NEWLINE`; different variants `_i` / `_j` of a `ChoiceN`; lists (arrays are lists too) of
different lengths, related position by position as far as both go. -/
inductive DSim : Dbg → Dbg → Prop
  | refl (d : Dbg) : DSim d d
  | str (s s' : List Char) : DSim (.str s) (.str s')
  | chr (c c' : Char) : DSim (.chr c) (.chr c')
  | num (n n' : Nat) : DSim (.num n) (.num n')
  | nl (k k' : Nat) : DSim (.unit (newlineName k)) (.unit (newlineName k'))
  | noneSome (vs : List Dbg) : DSim (.unit "None") (.tuple "Some" vs)
  | someNone (vs : List Dbg) : DSim (.tuple "Some" vs) (.unit "None")
  | struct (n : String) (fs : List String) (vs vs' : List Dbg) : DSimP vs vs' →
      vs.length = vs'.length → fs.length = vs.length → DSim (.struct n fs vs) (.struct n fs vs')
  | choice (n : String) (i j : Nat) (v v' : Dbg) : i ≠ j →
      DSim (.struct n ["_" ++ toString i] [v]) (.struct n ["_" ++ toString j] [v'])
  | tuple (n : String) (vs vs' : List Dbg) : DSimP vs vs' → vs.length = vs'.length →
      DSim (.tuple n vs) (.tuple n vs')
  | list (vs vs' : List Dbg) : DSimP vs vs' → DSim (.list vs) (.list vs')
inductive DSimP : List Dbg → List Dbg → Prop
  | nilL (l : List Dbg) : DSimP [] l
  | nilR (l : List Dbg) : DSimP l []
  | cons {a b : Dbg} {as bs : List Dbg} : DSim a b → DSimP as bs → DSimP (a :: as) (b :: bs)
end

theorem newlineName_cases (k : Nat) :
    newlineName k = "CRLF" ∨ newlineName k = "LF" ∨ newlineName k = "CR" := by
  match k with
  | 0 => exact Or.inl rfl
  | 1 => exact Or.inr (Or.inl rfl)
  | _ + 2 => exact Or.inr (Or.inr rfl)

theorem nl_inj (k k' : Nat) (r1 r2 : List Char) (D1 : Delim r1) (D2 : Delim r2)
    (h : (newlineName k).toList ++ r1 = (newlineName k').toList ++ r2) :
    newlineName k = newlineName k' ∧ r1 = r2 := by
  have e1 : "CRLF".toList = ['C', 'R', 'L', 'F'] := by decide
  have e2 : "LF".toList = ['L', 'F'] := by decide
  have e3 : "CR".toList = ['C', 'R'] := by decide
  rcases newlineName_cases k with hk | hk | hk <;> rcases newlineName_cases k' with hk' | hk' | hk' <;>
    rw [hk, hk'] at h ⊢ <;> simp only [e1, e2, e3, List.cons_append, List.nil_append, List.cons.injEq,
      true_and] at h
  · exact ⟨rfl, h⟩
  · exact absurd h.1 (by decide)
  · exfalso; have := D2 _ _ h.symm; revert this; decide
  · exact absurd h.1 (by decide)
  · exact ⟨rfl, h⟩
  · exact absurd h.1 (by decide)
  · exfalso; have := D1 _ _ h; revert this; decide
  · exact absurd h.1 (by decide)
  · exact ⟨rfl, h⟩

theorem renderFields_true_delim (up : Char → Bool) (fs : List String) (vs : List Dbg) (r : List Char) :
    Delim (Dbg.renderFields up true fs vs ++ r) := by
  cases vs with
  | nil => simp only [Dbg.renderFields, if_true]; exact Delim.cons (by simp)
  | cons v vs =>
    cases fs with
    | nil => simp only [Dbg.renderFields, if_true]; exact Delim.cons (by simp)
    | cons f fs => simp only [Dbg.renderFields, if_true, List.cons_append]; exact Delim.cons (by simp)

theorem renderTuple_succ_delim (up : Char → Bool) (en : Bool) (k : Nat) (vs : List Dbg) (r : List Char) :
    Delim (Dbg.renderTuple up en (k+1) vs ++ r) := by
  cases vs with
  | nil =>
    simp only [Dbg.renderTuple]
    rw [if_neg (by omega)]
    split <;> exact Delim.cons (by simp)
  | cons v vs =>
    simp only [Dbg.renderTuple]
    rw [if_neg (by omega)]
    exact Delim.cons (by simp)

theorem renderElems_true_delim (up : Char → Bool) (vs : List Dbg) (r : List Char) :
    Delim (Dbg.renderElems up true vs ++ r) := by
  cases vs with
  | nil => simp only [Dbg.renderElems]; exact Delim.cons (by simp)
  | cons v vs => simp only [Dbg.renderElems, if_true, List.cons_append]; exact Delim.cons (by simp)

theorem choiceField_toList (i : Nat) : ("_" ++ toString i).toList = '_' :: Nat.toDigits 10 i := by simp

mutual
/-- On related trees with good names the string — even followed by more text, as long as that
begins with a delimiter — determines the tree. -/
theorem DSim.render_inj (up : Char → Bool) : ∀ {d1 d2 : Dbg}, DSim d1 d2 →
    d1.namesOK = true → d2.namesOK = true → ∀ r1 r2, Delim r1 → Delim r2 →
    d1.render up ++ r1 = d2.render up ++ r2 → d1 = d2 ∧ r1 = r2
  | _, _, .refl d, _, _, r1, r2, _, _, h => ⟨rfl, List.append_cancel_left h⟩
  | _, _, .str s s', _, _, r1, r2, _, _, h => by
    simp only [Dbg.render] at h
    obtain ⟨e, hr⟩ := strDebug_inj up h
    exact ⟨by rw [e], hr⟩
  | _, _, .chr c c', _, _, r1, r2, _, _, h => by
    simp only [Dbg.render] at h
    obtain ⟨e, hr⟩ := charDebug_inj up h
    exact ⟨by rw [e], hr⟩
  | _, _, .num n n', _, _, r1, r2, D1, D2, h => by
    simp only [Dbg.render] at h
    obtain ⟨e, hr⟩ := numDebug_inj D1.not_digit D2.not_digit h
    exact ⟨by rw [e], hr⟩
  | _, _, .nl k k', _, _, r1, r2, D1, D2, h => by
    simp only [Dbg.render] at h
    obtain ⟨e, hr⟩ := nl_inj k k' r1 r2 D1 D2 h
    exact ⟨by rw [e], hr⟩
  | _, _, .noneSome vs, _, _, r1, r2, _, _, h => by
    have e1 : "None".toList = ['N', 'o', 'n', 'e'] := by decide
    have e2 : "Some".toList = ['S', 'o', 'm', 'e'] := by decide
    simp only [Dbg.render, e1, e2, List.cons_append, List.cons.injEq] at h
    exact absurd h.1 (by decide)
  | _, _, .someNone vs, _, _, r1, r2, _, _, h => by
    have e1 : "None".toList = ['N', 'o', 'n', 'e'] := by decide
    have e2 : "Some".toList = ['S', 'o', 'm', 'e'] := by decide
    simp only [Dbg.render, e1, e2, List.cons_append, List.cons.injEq] at h
    exact absurd h.1 (by decide)
  | _, _, .struct n fs vs vs' hp hl hfl, ok1, ok2, r1, r2, _, _, h => by
    simp only [Dbg.render, List.append_assoc] at h
    simp only [Dbg.namesOK, Bool.and_eq_true] at ok1 ok2
    obtain ⟨e, hr⟩ := DSimP.fields_inj up hp hl ok1.2 ok2.2 false fs r1 r2 hfl (List.append_cancel_left h)
    exact ⟨by rw [e], hr⟩
  | _, _, .choice n i j v v' hij, _, _, r1, r2, _, _, h => by
    exfalso
    simp only [Dbg.render, Dbg.renderFields, choiceField_toList, List.append_assoc, List.cons_append,
      List.nil_append, Bool.false_eq_true, if_false] at h
    have h' := List.append_cancel_left h
    simp only [List.cons.injEq, true_and] at h'
    have nd : ∀ (x : List Char) c cs, ':' :: x = c :: cs → ¬ (c.isDigit = true) := by
      intro x c cs e; injection e with e _; subst e; decide
    exact hij (numDebug_inj (nd _) (nd _) h').1
  | _, _, .tuple n vs vs' hp hl, ok1, ok2, r1, r2, _, _, h => by
    simp only [Dbg.render, List.append_assoc] at h
    simp only [Dbg.namesOK, Bool.and_eq_true] at ok1 ok2
    obtain ⟨e, hr⟩ := DSimP.tuple_inj up hp hl ok1.2 ok2.2 n.toList.isEmpty 0 r1 r2
      (List.append_cancel_left h)
    exact ⟨by rw [e], hr⟩
  | _, _, .list vs vs' hp, ok1, ok2, r1, r2, _, _, h => by
    simp only [Dbg.render, List.cons_append, List.cons.injEq, true_and] at h
    simp only [Dbg.namesOK] at ok1 ok2
    obtain ⟨e, hr⟩ := DSimP.elems_inj up hp ok1 ok2 false r1 r2 h
    exact ⟨by rw [e], hr⟩
theorem DSimP.fields_inj (up : Char → Bool) : ∀ {vs vs' : List Dbg}, DSimP vs vs' →
    vs.length = vs'.length → Dbg.namesOKL vs = true → Dbg.namesOKL vs' = true →
    ∀ (hf : Bool) (fs : List String) r1 r2, fs.length = vs.length →
    Dbg.renderFields up hf fs vs ++ r1 = Dbg.renderFields up hf fs vs' ++ r2 → vs = vs' ∧ r1 = r2
  | _, _, .nilL l, hl, _, _, hf, fs, r1, r2, _, h => by
    have : l = [] := List.eq_nil_of_length_eq_zero (by simpa using hl.symm)
    subst this
    exact ⟨rfl, List.append_cancel_left h⟩
  | _, _, .nilR l, hl, _, _, hf, fs, r1, r2, _, h => by
    have : l = [] := List.eq_nil_of_length_eq_zero (by simpa using hl)
    subst this
    exact ⟨rfl, List.append_cancel_left h⟩
  | _, _, @DSimP.cons a b as bs hab hrest, hl, ok1, ok2, hf, fs, r1, r2, hfl, h => by
    simp only [Dbg.namesOKL, Bool.and_eq_true] at ok1 ok2
    cases fs with
    | nil => simp at hfl
    | cons f fs' =>
      simp only [Dbg.renderFields, List.append_assoc] at h
      have h1 := List.append_cancel_left (List.append_cancel_left (List.append_cancel_left h))
      obtain ⟨e, h2⟩ := DSim.render_inj up hab ok1.1 ok2.1 _ _ (renderFields_true_delim up fs' as r1)
        (renderFields_true_delim up fs' bs r2) h1
      obtain ⟨e', h3⟩ := DSimP.fields_inj up hrest (by simpa using hl) ok1.2 ok2.2 true fs' r1 r2
        (by simpa using hfl) h2
      exact ⟨by rw [e, e'], h3⟩
theorem DSimP.tuple_inj (up : Char → Bool) : ∀ {vs vs' : List Dbg}, DSimP vs vs' →
    vs.length = vs'.length → Dbg.namesOKL vs = true → Dbg.namesOKL vs' = true →
    ∀ (en : Bool) (k : Nat) r1 r2,
    Dbg.renderTuple up en k vs ++ r1 = Dbg.renderTuple up en k vs' ++ r2 → vs = vs' ∧ r1 = r2
  | _, _, .nilL l, hl, _, _, en, k, r1, r2, h => by
    have : l = [] := List.eq_nil_of_length_eq_zero (by simpa using hl.symm)
    subst this
    exact ⟨rfl, List.append_cancel_left h⟩
  | _, _, .nilR l, hl, _, _, en, k, r1, r2, h => by
    have : l = [] := List.eq_nil_of_length_eq_zero (by simpa using hl)
    subst this
    exact ⟨rfl, List.append_cancel_left h⟩
  | _, _, @DSimP.cons a b as bs hab hrest, hl, ok1, ok2, en, k, r1, r2, h => by
    simp only [Dbg.namesOKL, Bool.and_eq_true] at ok1 ok2
    simp only [Dbg.renderTuple, List.append_assoc] at h
    have h1 := List.append_cancel_left h
    obtain ⟨e, h2⟩ := DSim.render_inj up hab ok1.1 ok2.1 _ _ (renderTuple_succ_delim up en k as r1)
      (renderTuple_succ_delim up en k bs r2) h1
    obtain ⟨e', h3⟩ := DSimP.tuple_inj up hrest (by simpa using hl) ok1.2 ok2.2 en (k+1) r1 r2 h2
    exact ⟨by rw [e, e'], h3⟩
theorem DSimP.elems_inj (up : Char → Bool) : ∀ {vs vs' : List Dbg}, DSimP vs vs' →
    Dbg.namesOKL vs = true → Dbg.namesOKL vs' = true → ∀ (hf : Bool) r1 r2,
    Dbg.renderElems up hf vs ++ r1 = Dbg.renderElems up hf vs' ++ r2 → vs = vs' ∧ r1 = r2
  | _, _, .nilL l, _, ok2, hf, r1, r2, h => by
    cases l with
    | nil => exact ⟨rfl, List.append_cancel_left h⟩
    | cons v l' =>
      exfalso
      simp only [Dbg.namesOKL, Bool.and_eq_true] at ok2
      obtain ⟨c, cs, e, hc⟩ := Dbg.render_head up v ok2.1
      cases hf <;> simp [Dbg.renderElems, e] at h
      exact hc h.1.symm
  | _, _, .nilR l, ok1, _, hf, r1, r2, h => by
    cases l with
    | nil => exact ⟨rfl, List.append_cancel_left h⟩
    | cons v l' =>
      exfalso
      simp only [Dbg.namesOKL, Bool.and_eq_true] at ok1
      obtain ⟨c, cs, e, hc⟩ := Dbg.render_head up v ok1.1
      cases hf <;> simp [Dbg.renderElems, e] at h
      exact hc h.1
  | _, _, @DSimP.cons a b as bs hab hrest, ok1, ok2, hf, r1, r2, h => by
    simp only [Dbg.namesOKL, Bool.and_eq_true] at ok1 ok2
    simp only [Dbg.renderElems, List.append_assoc] at h
    have h1 := List.append_cancel_left h
    obtain ⟨e, h2⟩ := DSim.render_inj up hab ok1.1 ok2.1 _ _ (renderElems_true_delim up as r1)
      (renderElems_true_delim up bs r2) h1
    obtain ⟨e', h3⟩ := DSimP.elems_inj up hrest ok1.2 ok2.2 true r1 r2 h2
    exact ⟨by rw [e, e'], h3⟩
end

/-! ### the trees of two values of one type are related -/

theorem DSimP.take : ∀ {l l' : List Dbg}, DSimP l l' → ∀ n, DSimP (l.take n) (l'.take n)
  | _, _, .nilL l, n => by rw [List.take_nil]; exact .nilL _
  | _, _, .nilR l, n => by rw [List.take_nil]; exact .nilR _
  | _, _, .cons h t, 0 => .nilL _
  | _, _, .cons h t, n+1 => .cons h (DSimP.take t n)

theorem DSimP.drop : ∀ {l l' : List Dbg}, DSimP l l' → ∀ n, DSimP (l.drop n) (l'.drop n)
  | _, _, .nilL l, n => by rw [List.drop_nil]; exact .nilL _
  | _, _, .nilR l, n => by rw [List.drop_nil]; exact .nilR _
  | _, _, .cons h t, 0 => .cons h t
  | _, _, .cons h t, n+1 => DSimP.drop t n

theorem dbgSpan_sim (t t' : List Char) (s e s' e' : Nat) : DSim (dbgSpan t s e) (dbgSpan t' s' e') :=
  .struct _ _ _ _ (.cons (.str _ _) (.cons (.num _ _) (.cons (.num _ _) (.nilL _)))) rfl rfl

theorem skippedDbg_sim {k : Nat} {ds ds' : List Dbg} (h1 : ds.length = k + 1) (h2 : ds'.length = k + 1)
    (h : DSimP ds ds') : DSim (skippedDbg k ds) (skippedDbg k ds') := by
  cases k with
  | zero =>
    match ds, ds', h1, h2, h with
    | [d], [d'], _, _, .cons hd _ => simpa only [skippedDbg] using hd
  | succ k =>
    simp only [skippedDbg]
    refine .struct _ _ _ _ (.cons (.list _ _ (h.take _)) (h.drop _)) ?_ ?_
    · simp [h1, h2]
    · simp [h1]

theorem repTys_agree (inh : Bool) (k : Nat) (n : Node) (m1 m2 j : Nat) (T1 T2 : Ty)
    (h1 : (repTys inh k n m1)[j]? = some T1) (h2 : (repTys inh k n m2)[j]? = some T2) : T1 = T2 := by
  cases m1 with
  | zero => simp [repTys] at h1
  | succ m1 =>
    cases m2 with
    | zero => simp [repTys] at h2
    | succ m2 =>
      cases j with
      | zero => simp [repTys] at h1 h2; rw [← h1, ← h2]
      | succ j =>
        simp only [repTys, List.getElem?_cons_succ, List.getElem?_replicate] at h1 h2
        split at h1 <;> split at h2 <;> simp_all

theorem replicate_agree {T : Ty} (m1 m2 j : Nat) (T1 T2 : Ty)
    (h1 : (List.replicate m1 T)[j]? = some T1) (h2 : (List.replicate m2 T)[j]? = some T2) : T1 = T2 := by
  simp only [List.getElem?_replicate] at h1 h2
  split at h1 <;> split at h2 <;> simp_all

theorem same_agree (tys : List Ty) (j : Nat) (T1 T2 : Ty) (h1 : tys[j]? = some T1) (h2 : tys[j]? = some T2) :
    T1 = T2 := by rw [h1] at h2; exact Option.some.inj h2

mutual
/-- The `{:?}` trees of two values of one type expression are `DSim`-related. -/
theorem debugTree_sim (g : NodeGrammar) (name : RuleId → String) (slice : Nat → Nat → List Char) :
    ∀ (a c : Val) (ty : Ty), Val.TypedT g a ty → Val.TypedT g c ty →
      DSim (debugTree name slice a) (debugTree name slice c)
  | .mk t kids, .mk t' kids', .sk inh k n, ha, hc => by
    simp only [Val.TypedT] at ha hc
    obtain ⟨rfl, ha⟩ := ha
    obtain ⟨rfl, hc⟩ := hc
    simp only [debugTree]
    have hl := ha.length
    have hl' := hc.length
    simp only [List.length_append, List.length_replicate, List.length_cons, List.length_nil] at hl hl'
    exact skippedDbg_sim (by rw [debugTreeList_length]; omega) (by rw [debugTreeList_length]; omega)
      (debugTreeList_simP g name slice kids kids' _ _ ha hc (same_agree _))
  | .mk t kids, .mk t' kids', .skd inh k n, ha, hc => by
    simp only [Val.TypedT] at ha hc
    obtain ⟨rfl, ha⟩ := ha
    obtain ⟨rfl, hc⟩ := hc
    simp only [debugTree]
    have hl := ha.length
    have hl' := hc.length
    simp only [List.length_append, List.length_replicate, List.length_cons, List.length_nil] at hl hl'
    exact skippedDbg_sim (by rw [debugTreeList_length]; omega) (by rw [debugTreeList_length]; omega)
      (debugTreeList_simP g name slice kids kids' _ _ ha hc (same_agree _))
  | .mk t kids, .mk t' kids', .dflt, ha, hc => by
    simp only [Val.TypedT] at ha hc
    rw [ha, hc]; exact .refl _
  | .mk t kids, .mk t' kids', .plain inh node, ha, hc => by
    have key : ∀ tys1 tys2, Val.TypedL g kids tys1 → Val.TypedL g kids' tys2 →
        (∀ (j : Nat) (T1 T2 : Ty), tys1[j]? = some T1 → tys2[j]? = some T2 → T1 = T2) →
        DSimP (debugTreeList name slice kids) (debugTreeList name slice kids') :=
      fun tys1 tys2 a b c => debugTreeList_simP g name slice kids kids' tys1 tys2 a b c
    have len : ∀ l : List Val, (debugTreeList name slice l).length = l.length :=
      debugTreeList_length name slice
    cases node with
    | str s =>
      simp only [Val.TypedT] at ha hc
      obtain ⟨rfl, rfl⟩ := ha; obtain ⟨rfl, rfl⟩ := hc; exact .refl _
    | soi =>
      simp only [Val.TypedT] at ha hc
      obtain ⟨rfl, rfl⟩ := ha; obtain ⟨rfl, rfl⟩ := hc; exact .refl _
    | eoi =>
      simp only [Val.TypedT] at ha hc
      obtain ⟨rfl, rfl⟩ := ha; obtain ⟨rfl, rfl⟩ := hc; exact .refl _
    | neg x =>
      simp only [Val.TypedT] at ha hc
      obtain ⟨rfl, rfl⟩ := ha; obtain ⟨rfl, rfl⟩ := hc; exact .refl _
    | drop =>
      simp only [Val.TypedT] at ha hc
      obtain ⟨rfl, rfl⟩ := ha; obtain ⟨rfl, rfl⟩ := hc; exact .refl _
    | peekSlice x y =>
      simp only [Val.TypedT] at ha hc
      obtain ⟨rfl, rfl⟩ := ha; obtain ⟨rfl, rfl⟩ := hc; exact .refl _
    | empty =>
      simp only [Val.TypedT] at ha hc
      obtain ⟨rfl, rfl⟩ := ha; obtain ⟨rfl, rfl⟩ := hc; exact .refl _
    | alwaysFail => simp only [Val.TypedT] at ha
    | insens s =>
      simp only [Val.TypedT] at ha hc
      obtain ⟨⟨x, rfl⟩, rfl⟩ := ha; obtain ⟨⟨y, rfl⟩, rfl⟩ := hc
      simp only [debugTree]
      exact .struct _ _ _ _ (.cons (.str _ _) (.nilL _)) rfl rfl
    | range lo hi =>
      simp only [Val.TypedT] at ha hc
      obtain ⟨⟨x, rfl⟩, rfl⟩ := ha; obtain ⟨⟨y, rfl⟩, rfl⟩ := hc
      simp only [debugTree]
      exact .struct _ _ _ _ (.cons (.chr _ _) (.nilL _)) rfl rfl
    | any =>
      simp only [Val.TypedT] at ha hc
      obtain ⟨⟨x, rfl⟩, rfl⟩ := ha; obtain ⟨⟨y, rfl⟩, rfl⟩ := hc
      simp only [debugTree]
      exact .struct _ _ _ _ (.cons (.chr _ _) (.nilL _)) rfl rfl
    | charBy p =>
      simp only [Val.TypedT] at ha hc
      obtain ⟨⟨x, rfl⟩, rfl⟩ := ha; obtain ⟨⟨y, rfl⟩, rfl⟩ := hc
      simp only [debugTree]
      exact .struct _ _ _ _ (.cons (.chr _ _) (.nilL _)) rfl rfl
    | newline =>
      simp only [Val.TypedT] at ha hc
      obtain ⟨⟨x, _, rfl⟩, rfl⟩ := ha; obtain ⟨⟨y, _, rfl⟩, rfl⟩ := hc
      simp only [debugTree]
      exact .struct _ _ _ _ (.cons (.nl _ _) (.nilL _)) rfl rfl
    | skipUntil x =>
      simp only [Val.TypedT] at ha hc
      obtain ⟨⟨x, rfl⟩, rfl⟩ := ha; obtain ⟨⟨y, rfl⟩, rfl⟩ := hc
      simp only [debugTree]
      exact .struct _ _ _ _ (.cons (dbgSpan_sim _ _ _ _ _ _) (.nilL _)) rfl rfl
    | skipChars x =>
      simp only [Val.TypedT] at ha hc
      obtain ⟨⟨x, rfl⟩, rfl⟩ := ha; obtain ⟨⟨y, rfl⟩, rfl⟩ := hc
      simp only [debugTree]
      exact .struct _ _ _ _ (.cons (dbgSpan_sim _ _ _ _ _ _) (.nilL _)) rfl rfl
    | peek =>
      simp only [Val.TypedT] at ha hc
      obtain ⟨⟨x, rfl⟩, rfl⟩ := ha; obtain ⟨⟨y, rfl⟩, rfl⟩ := hc
      simp only [debugTree]
      exact .struct _ _ _ _ (.cons (dbgSpan_sim _ _ _ _ _ _) (.nilL _)) rfl rfl
    | peekAll =>
      simp only [Val.TypedT] at ha hc
      obtain ⟨⟨x, rfl⟩, rfl⟩ := ha; obtain ⟨⟨y, rfl⟩, rfl⟩ := hc
      simp only [debugTree]
      exact .struct _ _ _ _ (.cons (dbgSpan_sim _ _ _ _ _ _) (.nilL _)) rfl rfl
    | pop =>
      simp only [Val.TypedT] at ha hc
      obtain ⟨⟨x, rfl⟩, rfl⟩ := ha; obtain ⟨⟨y, rfl⟩, rfl⟩ := hc
      simp only [debugTree]
      exact .struct _ _ _ _ (.cons (dbgSpan_sim _ _ _ _ _ _) (.nilL _)) rfl rfl
    | popAll =>
      simp only [Val.TypedT] at ha hc
      obtain ⟨⟨x, rfl⟩, rfl⟩ := ha; obtain ⟨⟨y, rfl⟩, rfl⟩ := hc
      simp only [debugTree]
      exact .struct _ _ _ _ (.cons (dbgSpan_sim _ _ _ _ _ _) (.nilL _)) rfl rfl
    | seq f items =>
      simp only [Val.TypedT] at ha hc
      obtain ⟨rfl, ha⟩ := ha; obtain ⟨rfl, hc⟩ := hc
      have hl : kids.length = kids'.length := by rw [ha.length, hc.length]
      simp only [debugTree, hl]
      exact .tuple _ _ _ (key _ _ ha hc (same_agree _)) (by rw [len, len, hl])
    | choice alts =>
      simp only [Val.TypedT] at ha hc
      obtain ⟨k, n, rfl, hn, ha⟩ := ha; obtain ⟨k', n', rfl, hn', hc⟩ := hc
      simp only [debugTree]
      by_cases hk : k = k'
      · subst hk
        rw [hn] at hn'; injection hn' with hn'; subst hn'
        have := ha.length; have := hc.length
        exact .struct _ _ _ _ (key _ _ ha hc (same_agree _)) (by rw [len, len]; simp_all)
          (by rw [len]; simp_all)
      · obtain ⟨v, rfl, _⟩ := Val.TypedL_one_inv ha
        obtain ⟨v', rfl, _⟩ := Val.TypedL_one_inv hc
        simp only [debugTreeList]
        exact .choice _ _ _ _ _ hk
    | opt x =>
      simp only [Val.TypedT] at ha hc
      rcases ha with ⟨rfl, rfl⟩ | ⟨rfl, ha⟩ <;> rcases hc with ⟨rfl, rfl⟩ | ⟨rfl, hc⟩ <;>
        simp only [debugTree]
      · exact .refl _
      · exact .noneSome _
      · exact .someNone _
      · have := ha.length; have := hc.length
        exact .tuple _ _ _ (key _ _ ha hc (same_agree _)) (by rw [len, len]; simp_all)
    | rep f mn mx x =>
      simp only [Val.TypedT] at ha hc
      obtain ⟨rfl, ha⟩ := ha; obtain ⟨rfl, hc⟩ := hc
      have hp := key _ _ ha hc (fun j T1 T2 => repTys_agree _ _ _ _ _ j T1 T2)
      cases mx <;> simp only [debugTree] <;>
        exact .struct _ _ _ _ (.cons (.list _ _ hp) (.nilL _)) rfl rfl
    | atomicRepeat x =>
      simp only [Val.TypedT] at ha hc
      obtain ⟨rfl, ha⟩ := ha; obtain ⟨rfl, hc⟩ := hc
      have hp := key _ _ ha hc (fun j T1 T2 => replicate_agree _ _ j T1 T2)
      simp only [debugTree]
      exact .struct _ _ _ _ (.cons (.list _ _ hp) (.nilL _)) rfl rfl
    | pos x =>
      simp only [Val.TypedT] at ha hc
      obtain ⟨rfl, ha⟩ := ha; obtain ⟨rfl, hc⟩ := hc
      have := ha.length; have := hc.length
      simp only [debugTree]
      exact .struct _ _ _ _ (key _ _ ha hc (same_agree _)) (by rw [len, len]; simp_all)
        (by rw [len]; simp_all)
    | push x =>
      simp only [Val.TypedT] at ha hc
      obtain ⟨rfl, ha⟩ := ha; obtain ⟨rfl, hc⟩ := hc
      have := ha.length; have := hc.length
      simp only [debugTree]
      exact .struct _ _ _ _ (key _ _ ha hc (same_agree _)) (by rw [len, len]; simp_all)
        (by rw [len]; simp_all)
    | array k x =>
      simp only [Val.TypedT] at ha hc
      obtain ⟨rfl, ha⟩ := ha; obtain ⟨rfl, hc⟩ := hc
      simp only [debugTree]
      exact .list _ _ (key _ _ ha hc (same_agree _))
    | pair x y =>
      simp only [Val.TypedT] at ha hc
      obtain ⟨rfl, ha⟩ := ha; obtain ⟨rfl, hc⟩ := hc
      have := ha.length; have := hc.length
      simp only [debugTree]
      exact .tuple _ _ _ (key _ _ ha hc (same_agree _)) (by rw [len, len]; simp_all)
    | ref r f =>
      simp only [Val.TypedT] at ha hc
      obtain ⟨d, hd, ⟨s, e, rfl⟩, ha⟩ := ha
      obtain ⟨d', hd', ⟨s', e', rfl⟩, hc⟩ := hc
      rw [hd] at hd'; injection hd' with hd'; subst hd'
      cases hem : d.emit with
      | span =>
        rw [hem] at ha hc
        simp only [false_and, or_false, ne_eq, not_true_eq_false, true_and] at ha hc
        subst ha; subst hc
        simp only [debugTree]
        exact .struct _ _ _ _ (.cons (dbgSpan_sim _ _ _ _ _ _) (.nilL _)) rfl rfl
      | expression =>
        rw [hem] at ha hc
        simp only [reduceCtorEq, false_and, false_or, ne_eq, not_false_eq_true, true_and] at ha hc
        have := ha.length; have := hc.length
        simp only [debugTree]
        exact .struct _ _ _ _ (key _ _ ha hc (same_agree _)) (by rw [len, len]; simp_all)
          (by rw [len]; simp_all)
      | both =>
        rw [hem] at ha hc
        simp only [reduceCtorEq, false_and, false_or, ne_eq, not_false_eq_true, true_and] at ha hc
        have hp := key _ _ ha hc (same_agree _)
        obtain ⟨v, rfl, _⟩ := Val.TypedL_one_inv ha
        obtain ⟨v', rfl, _⟩ := Val.TypedL_one_inv hc
        simp only [debugTree, debugTreeList, List.cons_append, List.nil_append] at hp ⊢
        match hp with
        | .cons hv _ => exact .struct _ _ _ _ (.cons hv (.cons (dbgSpan_sim _ _ _ _ _ _) (.nilL _))) rfl rfl
theorem debugTreeList_simP (g : NodeGrammar) (name : RuleId → String) (slice : Nat → Nat → List Char) :
    ∀ (as cs : List Val) (tys1 tys2 : List Ty), Val.TypedL g as tys1 → Val.TypedL g cs tys2 →
      (∀ (j : Nat) (T1 T2 : Ty), tys1[j]? = some T1 → tys2[j]? = some T2 → T1 = T2) →
      DSimP (debugTreeList name slice as) (debugTreeList name slice cs)
  | [], _, _, _, _, _, _ => by simp only [debugTreeList]; exact .nilL _
  | _ :: _, [], _, _, _, _, _ => by simp only [debugTreeList]; exact .nilR _
  | a :: as, c :: cs, T1 :: tys1, T2 :: tys2, ha, hc, hag => by
    simp only [Val.TypedL] at ha hc
    have e : T1 = T2 := hag 0 T1 T2 rfl rfl
    subst e
    simp only [debugTreeList]
    exact .cons (debugTree_sim g name slice a c T1 ha.1 hc.1)
      (debugTreeList_simP g name slice as cs tys1 tys2 ha.2 hc.2
        (fun j U1 U2 h1 h2 => hag (j+1) U1 U2 (by simpa using h1) (by simpa using h2)))
  | _ :: _, _ :: _, [], _, ha, _, _ => by simp [Val.TypedL] at ha
  | _ :: _, _ :: _, _ :: _, [], _, hc, _ => by simp [Val.TypedL] at hc
end

/-! ### the names in the tree of a value -/

/-- What `Dbg.namesOK` of `debugTree` needs from the value: rule struct names and Unicode property
names are good names, and a Rust pair has fields. -/
def tagGood (name : RuleId → String) : Tag → Nat → Bool
  | .uni p _, _ => goodName p
  | .rule r _ _ _ _, _ => goodName (name r)
  | .pair, n => n != 0
  | _, _ => true

mutual
def Val.namesGood (name : RuleId → String) : Val → Bool
  | .mk t kids => tagGood name t kids.length && Val.namesGoodL name kids
def Val.namesGoodL (name : RuleId → String) : List Val → Bool
  | [] => true
  | v :: vs => Val.namesGood name v && Val.namesGoodL name vs
end

theorem namesOKL_append : ∀ (l1 l2 : List Dbg),
    Dbg.namesOKL (l1 ++ l2) = (Dbg.namesOKL l1 && Dbg.namesOKL l2)
  | [], l2 => by simp [Dbg.namesOKL]
  | v :: vs, l2 => by simp [Dbg.namesOKL, namesOKL_append vs l2, Bool.and_assoc]

theorem namesOKL_take_drop (n : Nat) (l : List Dbg) (h : Dbg.namesOKL l = true) :
    Dbg.namesOKL (l.take n) = true ∧ Dbg.namesOKL (l.drop n) = true := by
  have := namesOKL_append (l.take n) (l.drop n)
  rw [List.take_append_drop, h] at this
  simpa using this.symm

theorem goodName_append_lit {a b : String} (h : goodName a = true) : goodName (a ++ b) = true := by
  obtain ⟨c, cs, e, hc⟩ := goodName_head h
  unfold goodName
  simp [e, hc]

theorem dbgSpan_namesOK (t : List Char) (s e : Nat) : (dbgSpan t s e).namesOK = true := by
  have : goodName "Span" = true := by decide
  simp [dbgSpan, Dbg.namesOK, Dbg.namesOKL, this]

theorem skippedDbg_namesOK (n : Nat) (ds : List Dbg) (h : Dbg.namesOKL ds = true) :
    (skippedDbg n ds).namesOK = true := by
  have hs : ∀ n, (Dbg.struct "Skipped" ["skipped", "matched"] (.list (ds.take n) :: ds.drop n)).namesOK = true := by
    intro n
    obtain ⟨h1, h2⟩ := namesOKL_take_drop n ds h
    have : goodName "Skipped" = true := by decide
    simp [Dbg.namesOK, Dbg.namesOKL, h1, h2, this]
  unfold skippedDbg
  split
  · simpa [Dbg.namesOKL] using h
  · exact hs n

mutual
theorem debugTree_namesOK (name : RuleId → String) (slice : Nat → Nat → List Char) :
    ∀ v : Val, v.namesGood name = true → (debugTree name slice v).namesOK = true
  | .mk t kids, h => by
    simp only [Val.namesGood, Bool.and_eq_true] at h
    have hk := debugTreeList_namesOK name slice kids h.2
    have ht := h.1
    have lit : ∀ n : String, goodName n = true →
        (Dbg.struct n ["content"] (debugTreeList name slice kids)).namesOK = true := by
      intro n hn; simp [Dbg.namesOK, hk, hn]
    have litL : ∀ n : String, goodName n = true →
        (Dbg.struct n ["content"] [.list (debugTreeList name slice kids)]).namesOK = true := by
      intro n hn; simp [Dbg.namesOK, Dbg.namesOKL, hk, hn]
    have litS : ∀ (n : String) (sp : Sp), goodName n = true →
        (Dbg.struct n ["span"] [dbgSpan sp.txt sp.s sp.e]).namesOK = true := by
      intro n sp hn; simp [Dbg.namesOK, Dbg.namesOKL, dbgSpan_namesOK, hn]
    have litC : ∀ (n : String) (d : Dbg), goodName n = true → d.namesOK = true →
        (Dbg.struct n ["content"] [d]).namesOK = true := by
      intro n d hn hd; simp [Dbg.namesOK, Dbg.namesOKL, hd, hn]
    cases t with
    | str => simp only [debugTree]; decide
    | insens s => simp only [debugTree]; exact litC _ _ (by decide) rfl
    | charRange c => simp only [debugTree]; exact litC _ _ (by decide) rfl
    | any c => simp only [debugTree]; exact litC _ _ (by decide) rfl
    | uni p c => simp only [debugTree]; exact litC _ _ (by simpa [tagGood] using ht) rfl
    | soi => simp only [debugTree]; decide
    | eoi => simp only [debugTree]; decide
    | newline k =>
      have : goodName (newlineName k) = true := by
        rcases newlineName_cases k with e | e | e <;> rw [e] <;> decide
      simp only [debugTree]; exact litC _ _ (by decide) (by simpa [Dbg.namesOK] using this)
    | skipUntil sp => simp only [debugTree]; exact litS _ _ (by decide)
    | skipChars sp => simp only [debugTree]; exact litS _ _ (by decide)
    | seq =>
      simp only [debugTree, Dbg.namesOK, hk, Bool.and_true]
      rw [goodName_append_lit (a := "Seq") (by decide)]; rfl
    | skipped n => simp only [debugTree]; exact skippedDbg_namesOK n _ hk
    | choice ar idx =>
      simp only [debugTree, Dbg.namesOK, hk, Bool.and_true]
      exact goodName_append_lit (a := "Choice") (by decide)
    | optNone => simp only [debugTree]; decide
    | optSome =>
      have : goodName "Some" = true := by decide
      simp [debugTree, Dbg.namesOK, hk, this]
    | rep mn mx =>
      cases mx with
      | none => simp only [debugTree]; exact litL _ (by decide)
      | some m => simp only [debugTree]; exact litL _ (by decide)
    | atomicRepeat => simp only [debugTree]; exact litL _ (by decide)
    | pos => simp only [debugTree]; exact lit _ (by decide)
    | neg => simp only [debugTree]; decide
    | push => simp only [debugTree]; exact lit _ (by decide)
    | peek sp => simp only [debugTree]; exact litS _ _ (by decide)
    | peekAll sp => simp only [debugTree]; exact litS _ _ (by decide)
    | pop sp => simp only [debugTree]; exact litS _ _ (by decide)
    | popAll sp => simp only [debugTree]; exact litS _ _ (by decide)
    | drop => simp only [debugTree]; decide
    | peekSlice => simp only [debugTree]; decide
    | rule r emit bx s e =>
      have hr : goodName (name r) = true := by simpa [tagGood] using ht
      cases emit with
      | span => simp [debugTree, Dbg.namesOK, Dbg.namesOKL, dbgSpan_namesOK, hr]
      | expression => simp only [debugTree]; exact lit _ hr
      | both => simp [debugTree, Dbg.namesOK, Dbg.namesOKL, namesOKL_append, dbgSpan_namesOK, hr, hk]
    | array => simpa only [debugTree, Dbg.namesOK] using hk
    | pair =>
      simp only [tagGood, bne_iff_ne, ne_eq] at ht
      have : (debugTreeList name slice kids).isEmpty = false := by
        cases kids with
        | nil => simp at ht
        | cons v vs => simp [debugTreeList]
      simp [debugTree, Dbg.namesOK, hk, this]
    | empty => simp only [debugTree]; decide
theorem debugTreeList_namesOK (name : RuleId → String) (slice : Nat → Nat → List Char) :
    ∀ vs : List Val, Val.namesGoodL name vs = true → Dbg.namesOKL (debugTreeList name slice vs) = true
  | [], _ => rfl
  | v :: vs, h => by
    simp only [Val.namesGoodL, Bool.and_eq_true] at h
    simp only [debugTreeList, Dbg.namesOKL, debugTree_namesOK name slice v h.1,
      debugTreeList_namesOK name slice vs h.2, Bool.and_self]
end

end PestTyped
