/-
Lemmas.SimBuiltin — the built-in aliases the generator emits for names the grammar does not define
(`builtinNode`) denote the Spec's built-ins (`specBuiltin`): `ASCII_*` are ranges / choices of
ranges vs character classes, `EOI` is rule 0, the stack operations have the same stack semantics,
undefined `WHITESPACE` / `COMMENT` never match, every other name is a Unicode property.
-/
import PestTyped.Lemmas.Sim
set_option linter.unusedSimpArgs false
namespace PestTyped

theorem EvRel.leaf1 {α} {T : Nat → R α} {rs : SR} (h : ∀ k, T (k+1) = T 1) (hr : Rel (T 1) rs) : EvRel T rs :=
  ⟨1, T 1, hr, fun n hn => by
    obtain ⟨k, rfl⟩ : ∃ k, n = k + 1 := ⟨n - 1, by omega⟩
    exact h k⟩

theorem EvRel.leaf2 {α} {T : Nat → R α} {rs : SR} (h : ∀ k, T (k+2) = T 2) (hr : Rel (T 2) rs) : EvRel T rs :=
  ⟨2, T 2, hr, fun n hn => by
    obtain ⟨k, rfl⟩ : ∃ k, n = k + 2 := ⟨n - 2, by omega⟩
    exact h k⟩

/-! ### one-character classes -/

/-- Pointwise relation of two lists (core has no `All2`). -/
inductive All2 {α β} (R : α → β → Prop) : List α → List β → Prop where
  | nil : All2 R [] []
  | cons {a b as bs} : R a b → All2 R as bs → All2 R (a :: as) (b :: bs)


theorem matchCharBy_or_left {p q : Char → Bool} {i i' : Inp} {c : Char}
    (h : i.matchCharBy p = some (i', c)) : i.matchCharBy (fun c => p c || q c) = some (i', c) := by
  unfold Inp.matchCharBy at h ⊢
  cases hr : i.rest with
  | nil => rw [hr] at h; cases h
  | cons a as =>
    rw [hr] at h
    simp only [] at h ⊢
    by_cases hp : p a = true
    · simp only [hp, if_true] at h
      simp only [hp, Bool.true_or, if_true]
      exact h
    · simp only [hp] at h
      cases h

theorem matchCharBy_or_right {p q : Char → Bool} {i : Inp}
    (h : i.matchCharBy p = none) : i.matchCharBy (fun c => p c || q c) = i.matchCharBy q := by
  unfold Inp.matchCharBy at h ⊢
  cases hr : i.rest with
  | nil => rfl
  | cons a as =>
    rw [hr] at h
    simp only [] at h ⊢
    by_cases hp : p a = true
    · simp only [hp, if_true] at h
      cases h
    · have : p a = false := by simpa using hp
      simp only [this, Bool.false_or]

theorem matchCharBy_false (i : Inp) : i.matchCharBy (fun _ => false) = none := by
  unfold Inp.matchCharBy
  cases i.rest <;> simp

/-- The Spec's view of matching one character of class `p`. -/
def classSR (p : Char → Bool) (i : Inp) (S : List Sp) : SR :=
  match i.matchCharBy p with
  | some (i', _) => .ok i' S
  | none => .fail

/-- `nd` matches exactly one character of class `p` and leaves the stack alone. -/
def IsClass (nd : Node) (p : Char → Bool) : Prop :=
  ∀ (G : NodeGrammar) (uni : Uni) (inh : Bool) (i : Inp) (m : M),
    EvRel (fun n' => parse G uni n' inh nd i m) (classSR p i m.stk)

theorem isClass_range (lo hi : Char) : IsClass (.range lo hi) (fun c => lo ≤ c ∧ c ≤ hi) := by
  intro G uni inh i m
  refine EvRel.leaf1 (fun k => by simp only [parse]) ?_
  simp only [parse, classSR, Inp.matchRange]
  cases i.matchCharBy (fun c => decide (lo ≤ c ∧ c ≤ hi)) with
  | none => exact ⟨m, rfl⟩
  | some p => exact ⟨m, _, rfl, rfl⟩

theorem choiceLoop_class : ∀ (alts : List Node) (ps : List (Char → Bool)), All2 IsClass alts ps →
    ∀ (G : NodeGrammar) (uni : Uni) (inh : Bool) (k : Nat) (i : Inp) (m : M),
      EvRel (fun n' => choiceLoop (parse G uni n' inh) alts k i m) (classSR (fun c => ps.any (fun p => p c)) i m.stk) := by
  intro alts ps h
  induction h with
  | nil =>
    intro G uni inh k i m
    simp only [List.any_nil, classSR, matchCharBy_false]
    exact EvRel.mk_fail 0 m (fun n _ => by simp only [choiceLoop])
  | @cons a p as ps ha _ ih =>
    intro G uni inh k i m
    have h1 := ha G uni inh i m
    simp only [List.any_cons]
    cases hm : i.matchCharBy p with
    | some ic =>
      obtain ⟨i', c⟩ := ic
      simp only [classSR, hm] at h1
      obtain ⟨n1, t1, v1, hc1⟩ := h1.ok rfl
      simp only [classSR, matchCharBy_or_left hm]
      refine EvRel.mk_ok' n1 i' ⟨m.stk, t1⟩ (k, v1) rfl (fun n hn => ?_)
      simp only [choiceLoop]
      rw [hc1 n hn]
      simp only [restoreOnNone]
    | none =>
      simp only [classSR, hm] at h1
      obtain ⟨n1, m1, hc1⟩ := h1.fail rfl
      obtain ⟨n2, r2, hr2, hc2⟩ := ih G uni inh (k+1) i { m1 with stk := m.stk }
      dsimp only at hc2
      simp only [classSR, matchCharBy_or_right hm]
      simp only [classSR] at hr2
      refine ⟨n1 + n2, r2, hr2, fun n hn => ?_⟩
      simp only [choiceLoop]
      rw [hc1 n (by omega)]
      simp only [restoreOnNone]
      exact hc2 n (by omega)

theorem isClass_choice (alts : List Node) (ps : List (Char → Bool)) (h : All2 IsClass alts ps) :
    IsClass (.choice alts) (fun c => ps.any (fun p => p c)) := by
  intro G uni inh i m
  obtain ⟨n1, r1, hr1, hc1⟩ := choiceLoop_class alts ps h G uni inh 0 i m
  dsimp only at hc1
  cases hm : i.matchCharBy (fun c => ps.any (fun p => p c)) with
  | some ic =>
    obtain ⟨i', c⟩ := ic
    simp only [classSR, hm] at hr1 ⊢
    obtain ⟨m1, v1, rfl, hs⟩ := hr1
    obtain ⟨k1, w1⟩ := v1
    refine EvRel.mk_ok' (n1 + 1) i' m1 (.mk (.choice alts.length k1) [w1]) hs (fun n hn => ?_)
    obtain ⟨k, rfl⟩ : ∃ k, n = k + 1 := ⟨n - 1, by omega⟩
    simp only [parse]
    rw [hc1 k (by omega)]
  | none =>
    simp only [classSR, hm] at hr1 ⊢
    obtain ⟨m1, rfl⟩ := hr1
    refine EvRel.mk_fail (n1 + 1) m1 (fun n hn => ?_)
    obtain ⟨k, rfl⟩ : ∃ k, n = k + 1 := ⟨n - 1, by omega⟩
    simp only [parse]
    rw [hc1 k (by omega)]

theorem IsClass.congr {nd : Node} {p q : Char → Bool} (h : IsClass nd p) (hpq : ∀ c, p c = q c) : IsClass nd q := by
  have : p = q := funext hpq
  rw [← this]
  exact h

theorem IsClass.ev {nd : Node} {p : Char → Bool} (h : IsClass nd p) (G : NodeGrammar) (uni : Uni) (inh : Bool)
    (i : Inp) (S : List Sp) (trk : Tracker) :
    EvRel (fun n' => parse G uni n' inh nd i ⟨S, trk⟩)
      (match i.matchCharBy p with | some (i', _) => .ok i' S | none => .fail) :=
  h G uni inh i ⟨S, trk⟩

theorem isClass_any : IsClass .any (fun _ => true) := by
  intro G uni inh i m
  refine EvRel.leaf1 (fun k => by simp only [parse]) ?_
  simp only [parse, classSR]
  cases i.matchCharBy (fun _ => true) with
  | none => exact ⟨m, rfl⟩
  | some p => exact ⟨m, _, rfl, rfl⟩

theorem isClass_charBy (uni0 : Uni) (name : String) :
    ∀ (G : NodeGrammar) (inh : Bool) (i : Inp) (m : M),
      EvRel (fun n' => parse G uni0 n' inh (.charBy name) i m) (classSR (uni0 name) i m.stk) := by
  intro G inh i m
  refine EvRel.leaf1 (fun k => by simp only [parse]) ?_
  simp only [parse, classSR]
  cases i.matchCharBy (uni0 name) with
  | none => exact ⟨m, rfl⟩
  | some p => exact ⟨m, _, rfl, rfl⟩

theorem char_zero_le (c : Char) : Char.ofNat 0 ≤ c := by
  show (Char.ofNat 0).val ≤ c.val
  have : (Char.ofNat 0).val = 0 := by decide
  rw [this]
  exact UInt32.zero_le

/-! ### the table -/

/-- Built-in aliases denote the Spec's built-ins. -/
theorem builtin_sim (g : PGrammar) (uni : Uni) (name : String) (inh : Bool) (i : Inp) (S : List Sp)
    (trk : Tracker) :
    EvRel (fun n' => parse (gen g) uni n' inh (builtinNode name) i ⟨S, trk⟩) (specBuiltin uni name i S) := by
  have hR := fun lo hi => isClass_range lo hi
  by_cases hmem : name ∈ ["ANY", "SOI", "EOI", "PEEK", "PEEK_ALL", "POP", "POP_ALL", "DROP", "ASCII_DIGIT",
      "ASCII_NONZERO_DIGIT", "ASCII_BIN_DIGIT", "ASCII_OCT_DIGIT", "ASCII_HEX_DIGIT", "ASCII_ALPHA_LOWER",
      "ASCII_ALPHA_UPPER", "ASCII_ALPHA", "ASCII_ALPHANUMERIC", "ASCII", "NEWLINE", "WHITESPACE", "COMMENT"]
  · simp only [List.mem_cons, List.not_mem_nil, or_false] at hmem
    rcases hmem with rfl | rfl | rfl | rfl | rfl | rfl | rfl | rfl | rfl | rfl | rfl | rfl | rfl | rfl | rfl |
      rfl | rfl | rfl | rfl | rfl | rfl
    · -- ANY
      simp only [builtinNode, specBuiltin, String.reduceEq, ↓reduceIte]
      exact isClass_any.ev _ _ _ _ _ _
    · -- SOI
      simp only [builtinNode, specBuiltin, String.reduceEq, ↓reduceIte, or_self, or_false, false_or]
      refine EvRel.leaf1 (fun k => by simp only [parse]) ?_
      simp only [parse]
      by_cases h : i.atStart = true
      · simp only [h, if_true]; exact ⟨_, _, rfl, rfl⟩
      · simp only [h]; exact ⟨_, rfl⟩
    · -- EOI
      simp only [builtinNode, specBuiltin, String.reduceEq, ↓reduceIte, or_self, or_false, false_or]
      refine EvRel.leaf2 (fun k => by simp only [parse, gen_rule_zero, eoiDef]) ?_
      simp only [parse, gen_rule_zero, eoiDef]
      by_cases h : i.atEnd = true
      · simp only [h, if_true]; exact ⟨_, _, rfl, rfl⟩
      · simp only [h]; exact ⟨_, rfl⟩
    · -- PEEK
      simp only [builtinNode, specBuiltin, String.reduceEq, ↓reduceIte, or_self, or_false, false_or]
      refine EvRel.leaf1 (fun k => by simp only [parse]) ?_
      simp only [parse]
      cases S with
      | nil => exact ⟨_, rfl⟩
      | cons sp rest =>
        simp only []
        cases i.matchString sp.txt with
        | none => exact ⟨_, rfl⟩
        | some i' => exact ⟨_, _, rfl, rfl⟩
    · -- PEEK_ALL
      simp only [builtinNode, specBuiltin, String.reduceEq, ↓reduceIte, or_self, or_false, false_or]
      refine EvRel.leaf1 (fun k => by simp only [parse]) ?_
      simp only [parse]
      cases peekSpans S i with
      | none => exact ⟨_, rfl⟩
      | some i' => exact ⟨_, _, rfl, rfl⟩
    · -- POP
      simp only [builtinNode, specBuiltin, String.reduceEq, ↓reduceIte, or_self, or_false, false_or]
      refine EvRel.leaf1 (fun k => by simp only [parse]) ?_
      simp only [parse]
      cases S with
      | nil => exact ⟨_, rfl⟩
      | cons sp rest =>
        simp only []
        cases i.matchString sp.txt with
        | none => exact ⟨_, rfl⟩
        | some i' => exact ⟨_, _, rfl, rfl⟩
    · -- POP_ALL
      simp only [builtinNode, specBuiltin, String.reduceEq, ↓reduceIte, or_self, or_false, false_or]
      refine EvRel.leaf1 (fun k => by simp only [parse]) ?_
      simp only [parse]
      cases peekSpans S i with
      | none => exact ⟨_, rfl⟩
      | some i' => exact ⟨_, _, rfl, rfl⟩
    · -- DROP
      simp only [builtinNode, specBuiltin, String.reduceEq, ↓reduceIte, or_self, or_false, false_or]
      refine EvRel.leaf1 (fun k => by simp only [parse]) ?_
      simp only [parse]
      cases S with
      | nil => exact ⟨_, rfl⟩
      | cons sp rest => exact ⟨_, _, rfl, rfl⟩
    · -- ASCII_DIGIT
      simp only [builtinNode, specBuiltin, asciiClass, asciiDigit, String.reduceEq, ↓reduceIte, or_self, or_false, false_or]
      exact (hR '0' '9').ev _ _ _ _ _ _
    · -- ASCII_NONZERO_DIGIT
      simp only [builtinNode, specBuiltin, asciiClass, String.reduceEq, ↓reduceIte, or_self, or_false, false_or]
      exact (hR '1' '9').ev _ _ _ _ _ _
    · -- ASCII_BIN_DIGIT
      simp only [builtinNode, specBuiltin, asciiClass, String.reduceEq, ↓reduceIte, or_self, or_false, false_or]
      exact (hR '0' '1').ev _ _ _ _ _ _
    · -- ASCII_OCT_DIGIT
      simp only [builtinNode, specBuiltin, asciiClass, String.reduceEq, ↓reduceIte, or_self, or_false, false_or]
      exact (hR '0' '7').ev _ _ _ _ _ _
    · -- ASCII_HEX_DIGIT
      simp only [builtinNode, specBuiltin, asciiClass, asciiDigit, String.reduceEq, ↓reduceIte, or_self, or_false, false_or]
      have := isClass_choice [.range '0' '9', .range 'a' 'f', .range 'A' 'F'] _
        (.cons (hR '0' '9') (.cons (hR 'a' 'f') (.cons (hR 'A' 'F') .nil)))
      exact (this.congr (q := fun c => decide (('0' ≤ c ∧ c ≤ '9') ∨ ('a' ≤ c ∧ c ≤ 'f') ∨ ('A' ≤ c ∧ c ≤ 'F')))
        (fun c => by simp)).ev _ _ _ _ _ _
    · -- ASCII_ALPHA_LOWER
      simp only [builtinNode, specBuiltin, asciiClass, asciiAlphaLower, String.reduceEq, ↓reduceIte, or_self, or_false, false_or]
      exact (hR 'a' 'z').ev _ _ _ _ _ _
    · -- ASCII_ALPHA_UPPER
      simp only [builtinNode, specBuiltin, asciiClass, asciiAlphaUpper, String.reduceEq, ↓reduceIte, or_self, or_false, false_or]
      exact (hR 'A' 'Z').ev _ _ _ _ _ _
    · -- ASCII_ALPHA
      simp only [builtinNode, specBuiltin, asciiClass, asciiAlpha, asciiAlphaLower, asciiAlphaUpper, String.reduceEq, ↓reduceIte, or_self, or_false, false_or]
      have := isClass_choice [.range 'a' 'z', .range 'A' 'Z'] _
        (.cons (hR 'a' 'z') (.cons (hR 'A' 'Z') .nil))
      exact (this.congr (q := fun c => decide (('a' ≤ c ∧ c ≤ 'z') ∨ ('A' ≤ c ∧ c ≤ 'Z')))
        (fun c => by simp)).ev _ _ _ _ _ _
    · -- ASCII_ALPHANUMERIC
      simp only [builtinNode, specBuiltin, asciiClass, asciiAlpha, asciiAlphaLower, asciiAlphaUpper, asciiDigit, String.reduceEq, ↓reduceIte, or_self, or_false, false_or]
      have ha := isClass_choice [.range 'a' 'z', .range 'A' 'Z'] _
        (.cons (hR 'a' 'z') (.cons (hR 'A' 'Z') .nil))
      have := isClass_choice [.choice [.range 'a' 'z', .range 'A' 'Z'], .range '0' '9'] _
        (.cons ha (.cons (hR '0' '9') .nil))
      exact (this.congr (q := fun c => decide (('a' ≤ c ∧ c ≤ 'z') ∨ ('A' ≤ c ∧ c ≤ 'Z') ∨ ('0' ≤ c ∧ c ≤ '9')))
        (fun c => by simp [Bool.or_assoc])).ev _ _ _ _ _ _
    · -- ASCII
      simp only [builtinNode, specBuiltin, asciiClass, String.reduceEq, ↓reduceIte, or_self, or_false, false_or]
      exact ((hR (Char.ofNat 0) (Char.ofNat 0x7f)).congr (q := fun c => decide (c ≤ Char.ofNat 0x7f))
        (fun c => by simp [char_zero_le])).ev _ _ _ _ _ _
    · -- NEWLINE
      simp only [builtinNode, specBuiltin, String.reduceEq, ↓reduceIte, or_self, or_false, false_or]
      refine EvRel.leaf1 (fun k => by simp only [parse]) ?_
      simp only [parse]
      cases newlineMatch i with
      | none => exact ⟨_, rfl⟩
      | some p => exact ⟨_, _, rfl, rfl⟩
    · -- WHITESPACE
      simp only [builtinNode, specBuiltin, String.reduceEq, ↓reduceIte, or_self, or_false, false_or]
      exact EvRel.leaf1 (fun k => by simp only [parse]) (by simp only [parse]; exact ⟨_, rfl⟩)
    · -- COMMENT
      simp only [builtinNode, specBuiltin, String.reduceEq, ↓reduceIte, or_self, or_false, false_or]
      exact EvRel.leaf1 (fun k => by simp only [parse]) (by simp only [parse]; exact ⟨_, rfl⟩)
  · simp only [List.mem_cons, List.not_mem_nil, or_false, not_or] at hmem
    obtain ⟨h1, h2, h3, h4, h5, h6, h7, h8, h9, h10, h11, h12, h13, h14, h15, h16, h17, h18, h19, h20, h21⟩ := hmem
    simp only [builtinNode, specBuiltin, asciiClass, h1, h2, h3, h4, h5, h6, h7, h8, h9, h10, h11, h12, h13, h14,
      h15, h16, h17, h18, h19, h20, h21, if_false, or_self]
    exact isClass_charBy uni name (gen g) inh i ⟨S, trk⟩

end PestTyped
