/-
Lemmas.GettersSlots — SLOT assignment of the generated accessors (review rev2-F, C16 (a) 1–2).

`Lemmas/GettersLemmas` fixes the result of `r.x()` only up to `flatten`.  Here:

* `siteKinds x e` / `siteMatches x e v` — the declarative side, by recursion on the EXPRESSION (and the value along
  it): the mention sites of the name `x` in `e` outside negative predicates, in grammar (left-to-right) order, each
  with "under a repetition?" / "under `?` or in a choice alternative?", and, for a value `v` of `e`'s type, the list
  of values each site matched (an unchosen alternative / an absent optional: none; a repetition: one list per site,
  the iterations appended in order).  `x` is any NAME: built-ins (`ANY`, `PEEK`, …) included, no `refId`;
* `slots ty gv` — an accessor result laid over its return type: one list of references per reference leaf of the
  type, left to right (`None` ↦ all its leaves empty, `Vec` ↦ the elements appended leaf-wise, tuple ↦ concatenation),
  and `GTy.leafKinds` (is the leaf inside a `Vec` / inside an `Option`);
* `genGetters_slots`: for every expression, name and well-shaped value: the accessor exists iff there is a site; its
  type has exactly one reference leaf per site with the same kinds in the same order, the path never gets stuck, and
  slot k holds exactly the matches of site k.
-/
import PestTyped.Lemmas.GettersLemmas
namespace PestTyped

/-! ### declarative side -/

/-- (inside a repetition, inside an optional / a choice alternative) -/
abbrev Kind := Bool × Bool

def Kind.underRep (k : Kind) : Kind := (true, k.2)
def Kind.underOpt (k : Kind) : Kind := (k.1, true)

/-- The mention sites of `x` in `e` outside negative predicates, left to right, with their kinds. -/
def siteKinds (x : String) : PExpr → List Kind
  | .ident name => if name = x then [(false, false)] else []
  | .posPred e => siteKinds x e
  | .negPred _ => []
  | .seq a b => siteKinds x a ++ siteKinds x b
  | .choice a b => (siteKinds x a ++ siteKinds x b).map Kind.underOpt
  | .opt e => (siteKinds x e).map Kind.underOpt
  | .rep e => (siteKinds x e).map Kind.underRep
  | .repOnce e => (siteKinds x e).map Kind.underRep
  | .repExact e _ => (siteKinds x e).map Kind.underRep
  | .repMin e _ => (siteKinds x e).map Kind.underRep
  | .repMax e _ => (siteKinds x e).map Kind.underRep
  | .repMinMax e _ _ => (siteKinds x e).map Kind.underRep
  | .push e => siteKinds x e
  | .restoreOnErr e => siteKinds x e
  | .str _ => []
  | .insens _ => []
  | .range _ _ => []
  | .peekSlice _ _ => []
  | .skip _ => []

/-- Number of mention sites. -/
def numSites (x : String) (e : PExpr) : Nat := (siteKinds x e).length

/-- No match at any of `n` sites. -/
def emptySlots (n : Nat) : List (List Val) := List.replicate n []

/-- Site-wise append (two runs of the same sites). -/
def zipApp : List (List Val) → List (List Val) → List (List Val)
  | a :: as, b :: bs => (a ++ b) :: zipApp as bs
  | [], bs => bs
  | as, [] => as

/-- `.matched` of a `Skipped` value (the value itself if it is none). -/
def Val.matchedOr (k : Val) : Val :=
  match k.matched? with
  | some w => w
  | none => k

/-- The iterations of a repetition, site-wise appended in order. -/
def foldSlots (f : Val → List (List Val)) (n : Nat) : List Val → List (List Val)
  | [] => emptySlots n
  | k :: ks => zipApp (f k.matchedOr) (foldSlots f n ks)

mutual
/-- For a value `v` of the type of `e`: what each mention site of `x` matched. -/
def siteMatches (x : String) : PExpr → Val → List (List Val)
  | .ident name, v => if name = x then [[v]] else []
  | .posPred e, v =>
    match v with
    | .mk .pos [w] => siteMatches x e w
    | _ => emptySlots (numSites x e)
  | .negPred _, _ => []
  | .seq a b, v =>
    match v with
    | .mk .seq (k :: ks) => siteMatches x a k.matchedOr ++ seqSiteMatches x b ks
    | _ => emptySlots (numSites x (.seq a b))
  | .choice a b, v =>
    match v with
    | .mk (.choice _ idx) [w] =>
      (if idx = 0 then siteMatches x a w else emptySlots (numSites x a)) ++ choiceSiteMatches x 1 idx w b
    | _ => emptySlots (numSites x (.choice a b))
  | .opt e, v =>
    match v with
    | .mk .optSome [w] => siteMatches x e w
    | _ => emptySlots (numSites x e)
  | .rep e, v => foldSlots (fun w => siteMatches x e w) (numSites x e) v.kids
  | .repOnce e, v => foldSlots (fun w => siteMatches x e w) (numSites x e) v.kids
  | .repExact e _, v => foldSlots (fun w => siteMatches x e w) (numSites x e) v.kids
  | .repMin e _, v => foldSlots (fun w => siteMatches x e w) (numSites x e) v.kids
  | .repMax e _, v => foldSlots (fun w => siteMatches x e w) (numSites x e) v.kids
  | .repMinMax e _ _, v => foldSlots (fun w => siteMatches x e w) (numSites x e) v.kids
  | .push e, v =>
    match v with
    | .mk .push [w] => siteMatches x e w
    | _ => emptySlots (numSites x e)
  | .restoreOnErr e, v => siteMatches x e v
  | .str _, _ => []
  | .insens _, _ => []
  | .range _ _, _ => []
  | .peekSlice _ _, _ => []
  | .skip _, _ => []
/-- The remaining elements of a sequence (right spine) against the remaining `Skipped` kids. -/
def seqSiteMatches (x : String) : PExpr → List Val → List (List Val)
  | .seq a b, k :: ks => siteMatches x a k.matchedOr ++ seqSiteMatches x b ks
  | e, k :: _ => siteMatches x e k.matchedOr
  | e, [] => emptySlots (numSites x e)
/-- The remaining alternatives of a choice (right spine), numbered from `i`, against the chosen one. -/
def choiceSiteMatches (x : String) (i idx : Nat) (w : Val) : PExpr → List (List Val)
  | .choice a b =>
    (if idx = i then siteMatches x a w else emptySlots (numSites x a)) ++ choiceSiteMatches x (i+1) idx w b
  | e => if idx = i then siteMatches x e w else emptySlots (numSites x e)
end

/-! ### accessor side: a result laid over its type -/

mutual
def GTy.numLeaves : GTy → Nat
  | .ref => 1
  | .opt t => t.numLeaves
  | .vec t => t.numLeaves
  | .tuple ts => GTy.numLeavesL ts
def GTy.numLeavesL : List GTy → Nat
  | [] => 0
  | t :: ts => t.numLeaves + GTy.numLeavesL ts
end

mutual
/-- Kinds of the reference leaves of a return type. -/
def GTy.leafKinds : GTy → List Kind
  | .ref => [(false, false)]
  | .opt t => t.leafKinds.map Kind.underOpt
  | .vec t => t.leafKinds.map Kind.underRep
  | .tuple ts => GTy.leafKindsL ts
def GTy.leafKindsL : List GTy → List Kind
  | [] => []
  | t :: ts => t.leafKinds ++ GTy.leafKindsL ts
end

mutual
/-- The references of `gv`, one list per reference leaf of `ty` (left to right). -/
def slots : GTy → GVal → List (List Val)
  | ty, .ref v => match ty with | .ref => [[v]] | _ => emptySlots ty.numLeaves
  | ty, .optNone => emptySlots ty.numLeaves
  | ty, .optSome r => match ty with | .opt t => slots t r | _ => emptySlots ty.numLeaves
  | ty, .vec rs => match ty with | .vec t => slotsVec t rs | _ => emptySlots ty.numLeaves
  | ty, .tuple rs => match ty with | .tuple ts => slotsL ts rs | _ => emptySlots ty.numLeaves
def slotsVec : GTy → List GVal → List (List Val)
  | t, [] => emptySlots t.numLeaves
  | t, r :: rs => zipApp (slots t r) (slotsVec t rs)
def slotsL : List GTy → List GVal → List (List Val)
  | ts, [] => emptySlots (GTy.numLeavesL ts)
  | ts, r :: rs => match ts with | t :: ts' => slots t r ++ slotsL ts' rs | [] => []
end

/-! ### basic facts -/

theorem emptySlots_zero : emptySlots 0 = [] := rfl

theorem emptySlots_add (a b : Nat) : emptySlots (a + b) = emptySlots a ++ emptySlots b := by
  induction a with
  | zero => simp [emptySlots]
  | succ a ih =>
    have : a + 1 + b = (a + b) + 1 := by omega
    simp only [emptySlots] at ih ⊢
    rw [this, List.replicate_succ, List.replicate_succ, ih]; rfl

theorem zipApp_nil_left (bs : List (List Val)) : zipApp [] bs = bs := by
  cases bs <;> rfl

theorem Kind.underOpt_idem (l : List Kind) : (l.map Kind.underOpt).map Kind.underOpt = l.map Kind.underOpt := by
  simp [List.map_map, Function.comp_def, Kind.underOpt]

mutual
theorem GTy.numLeaves_eq : ∀ t : GTy, t.numLeaves = t.leafKinds.length
  | .ref => rfl
  | .opt t => by simp [GTy.numLeaves, GTy.leafKinds, GTy.numLeaves_eq t]
  | .vec t => by simp [GTy.numLeaves, GTy.leafKinds, GTy.numLeaves_eq t]
  | .tuple ts => by simp [GTy.numLeaves, GTy.leafKinds, GTy.numLeavesL_eq ts]
theorem GTy.numLeavesL_eq : ∀ ts : List GTy, GTy.numLeavesL ts = (GTy.leafKindsL ts).length
  | [] => rfl
  | t :: ts => by simp [GTy.numLeavesL, GTy.leafKindsL, GTy.numLeaves_eq t, GTy.numLeavesL_eq ts]
end

theorem GTy.leafKindsL_append : ∀ (a b : List GTy), GTy.leafKindsL (a ++ b) = GTy.leafKindsL a ++ GTy.leafKindsL b
  | [], b => by simp [GTy.leafKindsL]
  | t :: a, b => by simp [GTy.leafKindsL, GTy.leafKindsL_append a b]

theorem slotsL_append : ∀ (ra : List GVal) (ta : List GTy) (rb : List GVal) (tb : List GTy),
    GVal.hasTyL ra ta = true → slotsL (ta ++ tb) (ra ++ rb) = slotsL ta ra ++ slotsL tb rb
  | [], [], rb, tb, _ => by simp [slotsL, GTy.numLeavesL, emptySlots]
  | [], _ :: _, _, _, h => by simp [GVal.hasTyL] at h
  | _ :: _, [], _, _, h => by simp [GVal.hasTyL] at h
  | r :: ra, t :: ta, rb, tb, h => by
    simp only [GVal.hasTyL, Bool.and_eq_true] at h
    simp [slotsL, slotsL_append ra ta rb tb h.2]

/-! ### `SlotAt t v sl`: the path applies, the result is typed, and laid over its type it gives `sl` -/

def SlotAt (t : GNode) (v : Val) (sl : List (List Val)) : Prop :=
  ∃ gv, evalGetter t v = some gv ∧ gv.hasTy t.typeOf = true ∧ slots t.typeOf gv = sl

def SlotL (gs : List GNode) (v : Val) (sl : List (List Val)) : Prop :=
  ∃ rs, evalGetters gs v = some rs ∧ GVal.hasTyL rs (GNode.typeOfL gs) = true ∧ slotsL (GNode.typeOfL gs) rs = sl

theorem SlotL.append {a b : List GNode} {v : Val} {sa sb : List (List Val)}
    (ha : SlotL a v sa) (hb : SlotL b v sb) : SlotL (a ++ b) v (sa ++ sb) := by
  obtain ⟨rsa, e1, t1, f1⟩ := ha
  obtain ⟨rsb, e2, t2, f2⟩ := hb
  refine ⟨rsa ++ rsb, evalGetters_append a b v _ _ e1 e2, ?_, ?_⟩
  · rw [GNode.typeOfL_append]; exact GVal.hasTyL_append _ _ _ _ t1 t2
  · rw [GNode.typeOfL_append, slotsL_append _ _ _ _ t1, f1, f2]

theorem SlotL.single {t : GNode} {v : Val} {sl : List (List Val)} (h : SlotAt t v sl) : SlotL [t] v sl := by
  obtain ⟨gv, e, ty, f⟩ := h
  refine ⟨[gv], by simp [evalGetters, e], by simp [GVal.hasTyL, GNode.typeOfL, ty], ?_⟩
  simp [slotsL, GNode.typeOfL, GTy.numLeavesL, emptySlots, f]

theorem SlotL.tuple {gs : List GNode} {v : Val} {sl : List (List Val)} (h : SlotL gs v sl) : SlotAt (.tuple gs) v sl := by
  obtain ⟨rs, e, ty, f⟩ := h
  exact ⟨.tuple rs, by simp [evalGetter, e], by simpa [GNode.typeOf, GVal.hasTy] using ty,
    by simpa [GNode.typeOf, slots] using f⟩

theorem SlotAt.toL {t : GNode} {v : Val} {sl : List (List Val)} (h : SlotAt t v sl) : SlotL t.asList v sl := by
  cases t with
  | tuple gs =>
    obtain ⟨gv, e, ty, f⟩ := h
    simp only [evalGetter] at e
    cases h1 : evalGetters gs v with
    | none => simp [h1] at e
    | some rs =>
      simp only [h1] at e; injection e with e; subst e
      exact ⟨rs, h1, by simpa [GNode.typeOf, GVal.hasTy, GNode.asList] using ty,
        by simpa [GNode.typeOf, slots, GNode.asList] using f⟩
  | _ => exact SlotL.single h

theorem SlotAt.merge {a b : GNode} {v : Val} {sa sb : List (List Val)} (ha : SlotAt a v sa) (hb : SlotAt b v sb) :
    SlotAt (a.merge b) v (sa ++ sb) := by
  rw [GNode.merge_eq]
  exact (ha.toL.append hb.toL).tuple

theorem leafKindsL_asList (t : GNode) : GTy.leafKindsL (GNode.typeOfL t.asList) = t.typeOf.leafKinds := by
  cases t <;> simp [GNode.asList, GNode.typeOfL, GTy.leafKindsL, GNode.typeOf, GTy.leafKinds]

theorem leafKinds_merge (a b : GNode) : (a.merge b).typeOf.leafKinds = a.typeOf.leafKinds ++ b.typeOf.leafKinds := by
  rw [GNode.merge_eq, GNode.typeOf, GTy.leafKinds, GNode.typeOfL_append, GTy.leafKindsL_append,
    leafKindsL_asList, leafKindsL_asList]

/-! ### edges -/

theorem leafKinds_optWrap (t : GNode) :
    (if t.flattenable then t.typeOf else GTy.opt t.typeOf).leafKinds = t.typeOf.leafKinds.map Kind.underOpt := by
  cases hf : t.flattenable with
  | false => simp [GTy.leafKinds]
  | true =>
    obtain ⟨ty', hty⟩ := GNode.flattenable_typeOf t hf
    simp only [hty, if_true, GTy.leafKinds, Kind.underOpt_idem]

theorem numLeaves_optWrap (t : GNode) :
    (if t.flattenable then t.typeOf else GTy.opt t.typeOf).numLeaves = t.typeOf.numLeaves := by
  cases t.flattenable <;> simp [GTy.numLeaves]

theorem leafKinds_wrap (t : GNode) :
    (t.wrap .content).typeOf.leafKinds = t.typeOf.leafKinds ∧
    (∀ i, (t.wrap (.contentI i)).typeOf.leafKinds = t.typeOf.leafKinds) ∧
    (t.wrap .optional).typeOf.leafKinds = t.typeOf.leafKinds.map Kind.underOpt ∧
    (∀ i, (t.wrap (.choiceI i)).typeOf.leafKinds = t.typeOf.leafKinds.map Kind.underOpt) ∧
    (t.wrap .contents).typeOf.leafKinds = t.typeOf.leafKinds.map Kind.underRep :=
  ⟨rfl, fun _ => rfl, leafKinds_optWrap t, fun _ => leafKinds_optWrap t, rfl⟩

/-- `Some(inner)` / flattened: the slots are those of the inner result. -/
theorem optWrap_slots {t : GNode} {gv : GVal} (ty : gv.hasTy t.typeOf = true) :
    ∃ r, optWrap t.flattenable gv = some r ∧
      r.hasTy (if t.flattenable then t.typeOf else .opt t.typeOf) = true ∧
      slots (if t.flattenable then t.typeOf else .opt t.typeOf) r = slots t.typeOf gv := by
  cases hf : t.flattenable with
  | false => exact ⟨.optSome gv, by simp [optWrap], by simpa [GVal.hasTy] using ty, by simp [slots]⟩
  | true =>
    obtain ⟨ty', hty⟩ := GNode.flattenable_typeOf t hf
    rw [hty] at ty
    rcases GVal.hasTy_opt_cases ty with rfl | ⟨r, rfl⟩
    · exact ⟨.optNone, by simp [optWrap], by simpa [hty] using ty, by simp⟩
    · exact ⟨.optSome r, by simp [optWrap], by simpa [hty] using ty, by simp⟩

theorem SlotAt.content_push {t : GNode} {w : Val} {sl : List (List Val)} (h : SlotAt t w sl) :
    SlotAt (t.wrap .content) (.mk .push [w]) sl := by
  obtain ⟨gv, e, ty, f⟩ := h
  exact ⟨gv, by simp [GNode.wrap, evalGetter, Val.contentKid?, e], by simpa [GNode.wrap, GNode.typeOf] using ty,
    by simpa [GNode.wrap, GNode.typeOf] using f⟩

theorem SlotAt.content_pos {t : GNode} {w : Val} {sl : List (List Val)} (h : SlotAt t w sl) :
    SlotAt (t.wrap .content) (.mk .pos [w]) sl := by
  obtain ⟨gv, e, ty, f⟩ := h
  exact ⟨gv, by simp [GNode.wrap, evalGetter, Val.contentKid?, e], by simpa [GNode.wrap, GNode.typeOf] using ty,
    by simpa [GNode.wrap, GNode.typeOf] using f⟩

theorem SlotAt.sequenceI {t : GNode} {w : Val} {sl : List (List Val)} (h : SlotAt t w sl)
    {kids : List Val} {i : Nat} {skips : List Val}
    (hk : kids[i]? = some (.mk (.skipped skips.length) (skips ++ [w]))) :
    SlotAt (t.wrap (.contentI i)) (.mk .seq kids) sl := by
  obtain ⟨gv, e, ty, f⟩ := h
  refine ⟨gv, ?_, by simpa [GNode.wrap, GNode.typeOf] using ty, by simpa [GNode.wrap, GNode.typeOf] using f⟩
  simp [GNode.wrap, evalGetter, Val.seqKid?, hk, Val.matched?, e]

theorem SlotAt.optional_some {t : GNode} {w : Val} {sl : List (List Val)} (h : SlotAt t w sl) :
    SlotAt (t.wrap .optional) (.mk .optSome [w]) sl := by
  obtain ⟨gv, e, ty, f⟩ := h
  obtain ⟨r', h1, h2, h3⟩ := optWrap_slots ty
  exact ⟨r', by simp [GNode.wrap, evalGetter, Val.optSel?, e, h1], by simpa [GNode.wrap, GNode.typeOf] using h2,
    by simpa [GNode.wrap, GNode.typeOf, f] using h3⟩

theorem SlotAt.optional_none (t : GNode) :
    SlotAt (t.wrap .optional) (.mk .optNone []) (emptySlots t.typeOf.numLeaves) :=
  ⟨.optNone, by simp [GNode.wrap, evalGetter, Val.optSel?],
    by simpa [GNode.wrap, GNode.typeOf] using hasTy_optNone_wrap t,
    by simp [GNode.wrap, GNode.typeOf, slots, numLeaves_optWrap]⟩

theorem SlotAt.choice_hit {t : GNode} {w : Val} {sl : List (List Val)} (h : SlotAt t w sl) {n i : Nat} (hi : i < n) :
    SlotAt (t.wrap (.choiceI i)) (.mk (.choice n i) [w]) sl := by
  obtain ⟨gv, e, ty, f⟩ := h
  obtain ⟨r', h1, h2, h3⟩ := optWrap_slots ty
  exact ⟨r', by simp [GNode.wrap, evalGetter, Val.choiceSel?, hi, e, h1],
    by simpa [GNode.wrap, GNode.typeOf] using h2, by simpa [GNode.wrap, GNode.typeOf, f] using h3⟩

theorem SlotAt.choice_miss (t : GNode) {n i idx : Nat} (hi : i < n) (hne : idx ≠ i) (w : Val) :
    SlotAt (t.wrap (.choiceI i)) (.mk (.choice n idx) [w]) (emptySlots t.typeOf.numLeaves) :=
  ⟨.optNone, by simp [GNode.wrap, evalGetter, Val.choiceSel?, hi, hne],
    by simpa [GNode.wrap, GNode.typeOf] using hasTy_optNone_wrap t,
    by simp [GNode.wrap, GNode.typeOf, slots, numLeaves_optWrap]⟩

theorem matchedOr_skipped (skips : List Val) (w : Val) :
    (Val.mk (.skipped skips.length) (skips ++ [w])).matchedOr = w := by
  simp [Val.matchedOr, Val.matched?]

/-- A repetition value: the iterations are appended slot-wise. -/
theorem SlotAt.contents {t : GNode} {P : Nat → Nat → Val → Prop} {f : Val → List (List Val)}
    (hP : ∀ lo hi w, P lo hi w → SlotAt t w (f w)) (a : Nat) (b : Option Nat) :
    ∀ (kids : List Val) (lo hi : Nat), Chain P lo hi kids →
      SlotAt (t.wrap .contents) (.mk (.rep a b) kids) (foldSlots f t.typeOf.numLeaves kids) := by
  have key : ∀ (kids : List Val) (lo hi : Nat), Chain P lo hi kids →
      ∃ rs, mapOpt (evalMatched (evalGetter t)) kids = some rs ∧
        GVal.hasTyAll rs t.typeOf = true ∧ slotsVec t.typeOf rs = foldSlots f t.typeOf.numLeaves kids := by
    intro kids
    induction kids with
    | nil => intro lo hi _; exact ⟨[], rfl, rfl, rfl⟩
    | cons kid rest ih =>
      intro lo hi h
      simp only [Chain] at h
      obtain ⟨mid, ⟨skips, w, mid', rfl, _, hw⟩, hrest⟩ := h
      obtain ⟨rs, e1, t1, f1⟩ := ih _ _ hrest
      obtain ⟨gv, e, ty, fe⟩ := hP _ _ _ hw
      refine ⟨gv :: rs, ?_, by simp [GVal.hasTyAll, ty, t1], ?_⟩
      · simp [mapOpt, evalMatched, Val.matched?, e, e1]
      · simp only [slotsVec, foldSlots, matchedOr_skipped, fe, f1]
  intro kids lo hi h
  obtain ⟨rs, e, ty, fe⟩ := key kids lo hi h
  exact ⟨.vec rs, by simp [GNode.wrap, evalGetter, Val.repKids?, e],
    by simpa [GNode.wrap, GNode.typeOf, GVal.hasTy] using ty, by simpa [GNode.wrap, GNode.typeOf, slots] using fe⟩

theorem foldSlots_chain_nil {P : Nat → Nat → Val → Prop} {f : Val → List (List Val)}
    (hP : ∀ lo hi w, P lo hi w → f w = []) :
    ∀ (kids : List Val) (lo hi : Nat), Chain P lo hi kids → foldSlots f 0 kids = [] := by
  intro kids
  induction kids with
  | nil => intro lo hi _; rfl
  | cons kid rest ih =>
    intro lo hi h
    simp only [Chain] at h
    obtain ⟨mid, ⟨skips, w, mid', rfl, _, hw⟩, hrest⟩ := h
    simp [foldSlots, matchedOr_skipped, hP _ _ _ hw, ih _ _ hrest, zipApp_nil_left]

/-! ### right spines on the declarative side -/

/-- `seqSiteMatches` over the list of spine elements. -/
def seqSM (x : String) : List PExpr → List Val → List (List Val)
  | [], _ => []
  | e :: es, k :: ks => siteMatches x e k.matchedOr ++ seqSM x es ks
  | e :: es, [] => emptySlots (numSites x e) ++ seqSM x es []

/-- `choiceSiteMatches` over the list of spine elements. -/
def choiceSM (x : String) (idx : Nat) (w : Val) : Nat → List PExpr → List (List Val)
  | _, [] => []
  | i, e :: es => (if idx = i then siteMatches x e w else emptySlots (numSites x e)) ++ choiceSM x idx w (i+1) es

theorem seqSpine_length_pos (b : PExpr) : 0 < b.seqSpine.length := by
  cases b <;> simp [PExpr.seqSpine]

theorem seqSiteMatches_eq (x : String) : ∀ (b : PExpr) (ks : List Val), ks.length = b.seqSpine.length →
    seqSiteMatches x b ks = seqSM x b.seqSpine ks := by
  intro b
  induction b with
  | seq a b _ ihb =>
    intro ks h
    cases ks with
    | nil => simp [PExpr.seqSpine] at h
    | cons k ks =>
      simp only [PExpr.seqSpine, List.length_cons, Nat.add_right_cancel_iff] at h
      simp only [seqSiteMatches, PExpr.seqSpine, seqSM, ihb ks h]
  | _ =>
    intro ks h
    simp only [PExpr.seqSpine, List.length_cons, List.length_nil] at h
    match ks, h with
    | [k], _ => simp [seqSiteMatches, PExpr.seqSpine, seqSM]

theorem choiceSiteMatches_eq (x : String) (idx : Nat) (w : Val) : ∀ (b : PExpr) (i : Nat),
    choiceSiteMatches x i idx w b = choiceSM x idx w i b.choiceSpine := by
  intro b
  induction b with
  | choice a b _ ihb => intro i; simp only [choiceSiteMatches, PExpr.choiceSpine, choiceSM, ihb]
  | _ => intro i; simp [choiceSiteMatches, PExpr.choiceSpine, choiceSM]

theorem siteKinds_seqSpine (x : String) : ∀ b : PExpr, siteKinds x b = b.seqSpine.flatMap (siteKinds x) := by
  intro b
  induction b with
  | seq a b _ ihb => simp [siteKinds, PExpr.seqSpine, ← ihb]
  | _ => simp [PExpr.seqSpine]

theorem siteKinds_choiceSpine (x : String) : ∀ b : PExpr,
    (siteKinds x b).map Kind.underOpt = b.choiceSpine.flatMap (fun e => (siteKinds x e).map Kind.underOpt) := by
  intro b
  induction b with
  | choice a b _ ihb =>
    have hc : Kind.underOpt ∘ Kind.underOpt = Kind.underOpt := by funext k; rfl
    simp [siteKinds, PExpr.choiceSpine, ← ihb, hc]
  | _ => simp [PExpr.choiceSpine]

/-! ### the induction -/

/-- Static part: the return type has one reference leaf per mention site, with the same kinds in the same order
(no accessor iff no site). -/
def StatOK (o : Option GNode) (K : List Kind) : Prop :=
  match o with
  | some t => t.typeOf.leafKinds = K
  | none => K = []

/-- Dynamic part: the path applies and slot k holds `sl[k]` (no accessor: no site, nothing to hold). -/
def DynOK (o : Option GNode) (v : Val) (sl : List (List Val)) : Prop :=
  match o with
  | some t => SlotAt t v sl
  | none => sl = []

theorem StatOK.merge {o1 o2 : Option GNode} {K1 K2 : List Kind} (h1 : StatOK o1 K1) (h2 : StatOK o2 K2) :
    StatOK (mergeOpt o1 o2) (K1 ++ K2) := by
  cases o1 <;> cases o2 <;> simp only [StatOK, mergeOpt] at h1 h2 ⊢
  · simp [h1, h2]
  · subst h1; simpa using h2
  · subst h2; simpa using h1
  · rw [leafKinds_merge, h1, h2]

theorem DynOK.merge {o1 o2 : Option GNode} {v : Val} {s1 s2 : List (List Val)} (h1 : DynOK o1 v s1) (h2 : DynOK o2 v s2) :
    DynOK (mergeOpt o1 o2) v (s1 ++ s2) := by
  cases o1 <;> cases o2 <;> simp only [DynOK, mergeOpt] at h1 h2 ⊢
  · simp [h1, h2]
  · subst h1; simpa using h2
  · subst h2; simpa using h1
  · exact h1.merge h2

theorem StatOK.some_num {t : GNode} {x : String} {e : PExpr} (h : StatOK (some t) (siteKinds x e)) :
    t.typeOf.numLeaves = numSites x e := by
  simp only [StatOK] at h
  rw [GTy.numLeaves_eq, h]; rfl

theorem StatOK.none_num {x : String} {e : PExpr} (h : StatOK none (siteKinds x e)) : numSites x e = 0 := by
  simp only [StatOK] at h
  simp [numSites, h]

/-- What the induction knows about one expression. -/
def ElemSlot (g : PGrammar) (sk : Flag) (x : String) (e : PExpr) : Prop :=
  StatOK ((genGetters e).get? x) (siteKinds x e) ∧
  ∀ lo hi v, HasShape (genExpr g sk e) lo hi v → DynOK ((genGetters e).get? x) v (siteMatches x e v)

theorem spineFold_static (x : String) (mk : Nat → GEdge) (fk : List Kind → List Kind) (hfk0 : fk [] = [])
    (hfk : ∀ (t : GNode) (i : Nat), (t.wrap (mk i)).typeOf.leafKinds = fk t.typeOf.leafKinds) :
    ∀ (es : List PExpr), (∀ e, e ∈ es → StatOK ((genGetters e).get? x) (siteKinds x e)) →
      ∀ (i : Nat) (acc : Forest) (K : List Kind), StatOK (acc.get? x) K →
        StatOK ((spineFold mk i acc (es.map genGetters)).get? x) (K ++ es.flatMap (fun e => fk (siteKinds x e))) := by
  intro es
  induction es with
  | nil => intro _ i acc K h; simpa [spineFold] using h
  | cons e es ih =>
    intro hall i acc K h
    simp only [List.map_cons, spineFold, List.flatMap_cons]
    rw [← List.append_assoc]
    refine ih (fun e' he' => hall e' (by simp [he'])) (i+1) _ _ ?_
    rw [Forest.get?_join _ _ _ (by rw [Forest.keys_prepend]; exact (genGetters_keys e).1), Forest.get?_prepend]
    refine StatOK.merge h ?_
    have he := hall e (by simp)
    cases hg : (genGetters e).get? x with
    | none => rw [hg] at he; simp only [StatOK] at he; simp [StatOK, he, hfk0]
    | some t => rw [hg] at he; simp only [StatOK] at he; simp only [StatOK, Option.map_some]; rw [hfk, he]

theorem spineFold_seq_slots (g : PGrammar) (sk : Flag) (x : String) :
    ∀ (es : List PExpr), (∀ e, e ∈ es → ElemSlot g sk x e) →
      ∀ (i : Nat) (acc : Forest) (pre post : List Val) (lo hi : Nat) (sl : List (List Val)), pre.length = i →
        SeqShape (es.map (genExpr g sk)) lo hi post →
        DynOK (acc.get? x) (.mk .seq (pre ++ post)) sl →
        DynOK ((spineFold .contentI i acc (es.map genGetters)).get? x) (.mk .seq (pre ++ post)) (sl ++ seqSM x es post) := by
  intro es
  induction es with
  | nil =>
    intro _ i acc pre post lo hi sl _ hs hacc
    simpa [spineFold, seqSM] using hacc
  | cons e es ih =>
    intro hall i acc pre post lo hi sl hlen hs hacc
    simp only [List.map_cons, SeqShape] at hs
    obtain ⟨kid, rest, mid, rfl, ⟨skips, w, mid', rfl, _, hw⟩, hrest⟩ := hs
    simp only [List.map_cons, spineFold, seqSM, matchedOr_skipped]
    have e1 : pre ++ Val.mk (.skipped skips.length) (skips ++ [w]) :: rest =
        (pre ++ [Val.mk (.skipped skips.length) (skips ++ [w])]) ++ rest := by simp
    rw [e1, ← List.append_assoc]
    refine ih (fun e' he' => hall e' (by simp [he'])) (i+1) _ _ rest mid hi _ (by simp [hlen]) hrest ?_
    rw [← e1]
    rw [Forest.get?_join _ _ _ (by rw [Forest.keys_prepend]; exact (genGetters_keys e).1), Forest.get?_prepend]
    refine DynOK.merge hacc ?_
    have hF := (hall e (by simp)).2 _ _ _ hw
    cases hg : (genGetters e).get? x with
    | none => rw [hg] at hF; simpa [DynOK] using hF
    | some t =>
      rw [hg] at hF
      simp only [DynOK, Option.map_some] at hF ⊢
      exact hF.sequenceI (skips := skips) (by rw [← hlen]; simp)

theorem spineFold_choice_slots (g : PGrammar) (sk : Flag) (x : String) (N idx lo hi : Nat) (w : Val) :
    ∀ (es : List PExpr), (∀ e, e ∈ es → ElemSlot g sk x e) →
      ∀ (i : Nat) (acc : Forest) (sl : List (List Val)), i + es.length ≤ N →
        (i ≤ idx → AltShape (es.map (genExpr g sk)) (idx - i) lo hi w) →
        DynOK (acc.get? x) (.mk (.choice N idx) [w]) sl →
        DynOK ((spineFold .choiceI i acc (es.map genGetters)).get? x) (.mk (.choice N idx) [w])
          (sl ++ choiceSM x idx w i es) := by
  intro es
  induction es with
  | nil => intro _ i acc sl _ _ hacc; simpa [spineFold, choiceSM] using hacc
  | cons e es ih =>
    intro hall i acc sl hN halt hacc
    simp only [List.map_cons, spineFold, choiceSM, List.length_cons] at hN halt ⊢
    rw [← List.append_assoc]
    refine ih (fun e' he' => hall e' (by simp [he'])) (i+1) _ _ (by omega) (AltShape.succ_of halt) ?_
    rw [Forest.get?_join _ _ _ (by rw [Forest.keys_prepend]; exact (genGetters_keys e).1), Forest.get?_prepend]
    refine DynOK.merge hacc ?_
    have hst := (hall e (by simp)).1
    by_cases hi : idx = i
    · subst hi
      have hw : HasShape (genExpr g sk e) lo hi w := by simpa [AltShape] using halt (Nat.le_refl _)
      have hF := (hall e (by simp)).2 _ _ _ hw
      cases hg : (genGetters e).get? x with
      | none => rw [hg] at hF; simpa [DynOK] using hF
      | some t =>
        rw [hg] at hF
        simp only [DynOK, Option.map_some, if_true] at hF ⊢
        exact hF.choice_hit (by omega)
    · cases hg : (genGetters e).get? x with
      | none =>
        rw [hg] at hst
        simp [DynOK, hi, hst.none_num, emptySlots]
      | some t =>
        rw [hg] at hst
        simp only [DynOK, Option.map_some, hi, if_false, ← hst.some_num]
        exact SlotAt.choice_miss t (by omega) hi w

theorem repParts_sites {e e' : PExpr} {mn : Nat} {mx : Option Nat} (h : e.repParts? = some (e', mn, mx)) (x : String) :
    siteKinds x e = (siteKinds x e').map Kind.underRep ∧
    ∀ v, siteMatches x e v = foldSlots (fun w => siteMatches x e' w) (numSites x e') v.kids := by
  cases e <;> simp [PExpr.repParts?] at h
  all_goals (obtain ⟨rfl, _, _⟩ := h; exact ⟨by simp only [siteKinds], fun v => by simp only [siteMatches]⟩)

/-- Slot assignment, every expression, every name (rule or built-in): the return type of the accessor `x` has
exactly one reference leaf per mention site of `x` outside negative predicates, in grammar order, inside a `Vec`
iff the site is under a repetition and inside an `Option` iff it is under `?` or in a choice alternative; and on
every value of the expression's type the path applies and leaf k holds exactly what site k matched. -/
theorem genGetters_slots (g : PGrammar) (sk : Flag) (x : String) : ∀ e : PExpr, ElemSlot g sk x e := by
  apply PExpr.spine_induction
  · -- leaves
    intro e he
    have hg : genGetters e = [] := by cases e <;> simp [PExpr.isLeafExpr] at he <;> simp only [genGetters]
    have hk : siteKinds x e = [] := by cases e <;> simp [PExpr.isLeafExpr] at he <;> simp only [siteKinds]
    refine ⟨by simp [hg, Forest.get?, StatOK, hk], fun lo hi v _ => ?_⟩
    have : siteMatches x e v = [] := by cases e <;> simp [PExpr.isLeafExpr] at he <;> simp only [siteMatches]
    simp [hg, Forest.get?, DynOK, this]
  · -- identifiers
    intro name
    simp only [ElemSlot, genGetters, Forest.get?_cons, Forest.get?, siteKinds, siteMatches]
    by_cases hn : name = x
    · simp only [hn, if_true, StatOK, DynOK, GNode.typeOf, GTy.leafKinds, true_and]
      intro lo hi v _
      exact ⟨.ref v, by simp [evalGetter], by simp [GNode.typeOf, GVal.hasTy], by simp [GNode.typeOf, slots]⟩
    · simp [hn, StatOK, DynOK]
  · -- positive predicate
    intro e ih
    refine ⟨?_, fun lo hi v hs => ?_⟩
    · have := ih.1
      simp only [genGetters, Forest.get?_prepend, siteKinds]
      cases hg : Forest.get? (genGetters e) x with
      | none => rw [hg] at this; simpa [StatOK] using this
      | some t => rw [hg] at this; simp only [StatOK, Option.map_some] at this ⊢; rw [(leafKinds_wrap t).1, this]
    · simp only [genExpr, HasShape] at hs
      obtain ⟨_, w, hi', rfl, hw⟩ := hs
      have := ih.2 _ _ _ hw
      simp only [genGetters, Forest.get?_prepend, siteMatches]
      cases hg : Forest.get? (genGetters e) x with
      | none => rw [hg] at this; simpa [DynOK] using this
      | some t => rw [hg] at this; simp only [DynOK, Option.map_some] at this ⊢; exact this.content_pos
  · -- negative predicate
    intro e
    exact ⟨by simp [genGetters, Forest.get?, StatOK, siteKinds],
      fun lo hi v _ => by simp [genGetters, Forest.get?, DynOK, siteMatches]⟩
  · -- sequence
    intro a b ih
    refine ⟨?_, fun lo hi v hs => ?_⟩
    · rw [genGetters_seq]
      have := spineFold_static x .contentI id rfl (fun t i => (leafKinds_wrap t).2.1 i) (a :: b.seqSpine)
        (fun e he => (ih e he).1) 0 [] [] (by simp [StatOK, Forest.get?])
      simpa [siteKinds, siteKinds_seqSpine x b] using this
    · rw [genExpr_seq] at hs
      simp only [HasShape] at hs
      obtain ⟨kids, rfl, _, hs⟩ := hs
      rw [genGetters_seq]
      have := spineFold_seq_slots g sk x (a :: b.seqSpine) ih 0 [] [] kids lo hi [] rfl hs
        (by simp [DynOK, Forest.get?])
      have hl : kids.length = (a :: b.seqSpine).length := by
        have : ∀ (es : List PExpr) (lo hi : Nat) (ks : List Val),
            SeqShape (es.map (genExpr g sk)) lo hi ks → ks.length = es.length := by
          intro es
          induction es with
          | nil => intro lo hi ks h; simp only [List.map_nil, SeqShape] at h; simp [h.1]
          | cons e es ihes =>
            intro lo hi ks h
            simp only [List.map_cons, SeqShape] at h
            obtain ⟨kid, rest, mid, rfl, _, hr⟩ := h
            simp [ihes _ _ _ hr]
        exact this _ _ _ _ hs
      cases kids with
      | nil => simp at hl
      | cons k ks =>
        simp only [List.length_cons, Nat.add_right_cancel_iff] at hl
        simp only [siteMatches, seqSiteMatches_eq x b ks hl]
        simpa [seqSM] using this
  · -- choice
    intro a b ih
    refine ⟨?_, fun lo hi v hs => ?_⟩
    · rw [genGetters_choice]
      have := spineFold_static x .choiceI (fun K => K.map Kind.underOpt) rfl (fun t i => (leafKinds_wrap t).2.2.2.1 i)
        (a :: b.choiceSpine) (fun e he => (ih e he).1) 0 [] [] (by simp [StatOK, Forest.get?])
      simpa [siteKinds, siteKinds_choiceSpine x b] using this
    · rw [genExpr_choice] at hs
      simp only [HasShape] at hs
      obtain ⟨idx, w, rfl, _, hidx, hs⟩ := hs
      rw [genGetters_choice]
      have := spineFold_choice_slots g sk x ((a :: b.choiceSpine).map (genExpr g sk)).length idx lo hi w
        (a :: b.choiceSpine) ih 0 [] [] (by simp) (fun _ => by simpa using hs) (by simp [DynOK, Forest.get?])
      simp only [siteMatches, choiceSiteMatches_eq]
      simpa [choiceSM] using this
  · -- optional
    intro e ih
    refine ⟨?_, fun lo hi v hs => ?_⟩
    · have := ih.1
      simp only [genGetters, Forest.get?_prepend, siteKinds]
      cases hg : Forest.get? (genGetters e) x with
      | none => rw [hg] at this; simp only [StatOK] at this; simp [StatOK, this]
      | some t => rw [hg] at this; simp only [StatOK, Option.map_some] at this ⊢; rw [(leafKinds_wrap t).2.2.1, this]
    · simp only [genExpr, HasShape] at hs
      simp only [genGetters, Forest.get?_prepend]
      have hst := ih.1
      rcases hs with ⟨rfl, _⟩ | ⟨w, rfl, _, hw⟩
      · simp only [siteMatches]
        cases hg : Forest.get? (genGetters e) x with
        | none => rw [hg] at hst; simp [DynOK, hst.none_num, emptySlots]
        | some t =>
          rw [hg] at hst
          simp only [DynOK, Option.map_some, ← hst.some_num]
          exact SlotAt.optional_none t
      · have := ih.2 _ _ _ hw
        simp only [siteMatches]
        cases hg : Forest.get? (genGetters e) x with
        | none => rw [hg] at this; simpa [DynOK] using this
        | some t => rw [hg] at this; simp only [DynOK, Option.map_some] at this ⊢; exact this.optional_some
  · -- repetitions
    intro e e' mn mx hp ih
    obtain ⟨h1, h2, _⟩ := repParts_gen hp g sk
    obtain ⟨k1, k2⟩ := repParts_sites hp x
    have hst := ih.1
    refine ⟨?_, fun lo hi v hs => ?_⟩
    · rw [h2, Forest.get?_prepend, k1]
      cases hg : Forest.get? (genGetters e') x with
      | none => rw [hg] at hst; simp only [StatOK] at hst; simp [StatOK, hst]
      | some t => rw [hg] at hst; simp only [StatOK, Option.map_some] at hst ⊢; rw [(leafKinds_wrap t).2.2.2.2, hst]
    · rw [h1] at hs
      simp only [HasShape] at hs
      obtain ⟨kids, rfl, _, hc⟩ := hs
      rw [h2, Forest.get?_prepend, k2]
      simp only [Val.kids]
      cases hg : Forest.get? (genGetters e') x with
      | none =>
        rw [hg] at hst
        simp only [DynOK, Option.map_none, hst.none_num]
        refine foldSlots_chain_nil (P := HasShape (genExpr g sk e')) ?_ kids lo hi hc
        intro lo hi w hw
        have := ih.2 _ _ _ hw
        simpa [hg, DynOK] using this
      | some t =>
        rw [hg] at hst
        simp only [DynOK, Option.map_some, ← hst.some_num]
        refine SlotAt.contents (P := HasShape (genExpr g sk e')) ?_ mn mx kids lo hi hc
        intro lo hi w hw
        have := ih.2 _ _ _ hw
        simpa [hg, DynOK] using this
  · -- PUSH
    intro e ih
    refine ⟨?_, fun lo hi v hs => ?_⟩
    · have := ih.1
      simp only [genGetters, Forest.get?_prepend, siteKinds]
      cases hg : Forest.get? (genGetters e) x with
      | none => rw [hg] at this; simpa [StatOK] using this
      | some t => rw [hg] at this; simp only [StatOK, Option.map_some] at this ⊢; rw [(leafKinds_wrap t).1, this]
    · simp only [genExpr, HasShape] at hs
      obtain ⟨w, rfl, _, hw⟩ := hs
      have := ih.2 _ _ _ hw
      simp only [genGetters, Forest.get?_prepend, siteMatches]
      cases hg : Forest.get? (genGetters e) x with
      | none => rw [hg] at this; simpa [DynOK] using this
      | some t => rw [hg] at this; simp only [DynOK, Option.map_some] at this ⊢; exact this.content_push
  · -- RestoreOnErr is transparent
    intro e ih
    refine ⟨by simpa [genGetters, siteKinds] using ih.1, fun lo hi v hs => ?_⟩
    simp only [genExpr] at hs
    simpa [genGetters, siteMatches] using ih.2 _ _ _ hs

end PestTyped
