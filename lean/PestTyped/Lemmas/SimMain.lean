/-
Lemmas.SimMain — the forward simulation (C01): for every pest expression `e`, the typed run of
`genExpr g sk e` in the generated module `gen g` is eventually (in the fuel) related to the
reference semantics `spec g` of `e`, whenever the static flag `sk` evaluates to the Spec's dynamic
atomicity (`sk.eval inh = na`).

Order: implicit skip (`skip_sim`), `SKIP` runs (`skipLoop_sim`), "skip then element"
(`skipThen_sim`), right spines of sequences and choices, repetitions, rule references, and the main
induction on the Spec's fuel (`sim_all`).
-/
import PestTyped.Lemmas.SimBuiltin
set_option linter.unusedSimpArgs false
set_option linter.unusedVariables false
namespace PestTyped

/-- Forward simulation at Spec fuel `n`. -/
def Sim (g : PGrammar) (uni : Uni) (n : Nat) : Prop :=
  ∀ na e i S, spec g uni n na e i S ≠ .oof → ∀ inh sk trk, Flag.eval sk inh = na →
    EvRel (fun n' => parse (gen g) uni n' inh (genExpr g sk e) i ⟨S, trk⟩) (spec g uni n na e i S)

theorem Sim.fail {g : PGrammar} {uni : Uni} {n : Nat} (h : Sim g uni n) {na : Bool} {e : PExpr} {i : Inp}
    {S : List Sp} (hs : spec g uni n na e i S = .fail) (inh : Bool) (sk : Flag) (trk : Tracker)
    (hsk : Flag.eval sk inh = na) :
    ∃ n0 m, ∀ n', n0 ≤ n' → parse (gen g) uni n' inh (genExpr g sk e) i ⟨S, trk⟩ = .fail m :=
  (h na e i S (by rw [hs]; nofun) inh sk trk hsk).fail hs

theorem Sim.ok {g : PGrammar} {uni : Uni} {n : Nat} (h : Sim g uni n) {na : Bool} {e : PExpr} {i i1 : Inp}
    {S S1 : List Sp} (hs : spec g uni n na e i S = .ok i1 S1) (inh : Bool) (sk : Flag) (trk : Tracker)
    (hsk : Flag.eval sk inh = na) :
    ∃ n0 t v, ∀ n', n0 ≤ n' → parse (gen g) uni n' inh (genExpr g sk e) i ⟨S, trk⟩ = .ok i1 ⟨S1, t⟩ v :=
  (h na e i S (by rw [hs]; nofun) inh sk trk hsk).ok hs

/-! ### the implicit skip -/

/-- `AtomicRepeat<X>` against a Spec loop `x*`: a fresh tracker inside, the caller's restored. -/
theorem atomicRepeat_sim (G : NodeGrammar) (uni : Uni) (inh : Bool) (X : Node) (u : Nat → Inp → List Sp → SR)
    (hX : ∀ idx i S trk, u idx i S ≠ .oof → EvRel (fun n' => parse G uni n' inh X i ⟨S, trk⟩) (u idx i S))
    (b : Nat) (i : Inp) (S : List Sp) (trk : Tracker) (hne : specRepLoop u 0 none b 0 i S ≠ .oof) :
    EvRel (fun n' => parse G uni n' inh (.atomicRepeat X) i ⟨S, trk⟩) (specRepLoop u 0 none b 0 i S) := by
  have hloop := repLoop_sim (fun n' _ i m => parse G uni n' inh X i m) u 0 none hX b atomicBudget
    atomicBudget_unbounded 0 i S (Tracker.new i) ([] : List Val) rfl hne
  cases hs : specRepLoop u 0 none b 0 i S with
  | oof => exact absurd hs hne
  | fail =>
    obtain ⟨n1, m1, h1⟩ := hloop.fail hs
    refine EvRel.mk_fail (n1 + 1) { m1 with trk := trk } (fun n' hn => ?_)
    obtain ⟨k, rfl⟩ : ∃ k, n' = k + 1 := ⟨n' - 1, by omega⟩
    simp only [parse]
    rw [h1 k (by omega)]
  | ok i1 S1 =>
    obtain ⟨n1, t1, v1, h1⟩ := hloop.ok hs
    refine EvRel.mk_ok' (n1 + 1) i1 ⟨S1, trk⟩ (.mk .atomicRepeat v1) rfl (fun n' hn => ?_)
    obtain ⟨k, rfl⟩ : ∃ k, n' = k + 1 := ⟨n' - 1, by omega⟩
    simp only [parse]
    rw [h1 k (by omega)]

theorem specSkipUnit_W (call : String → Inp → List Sp → SR) (i : Inp) (S : List Sp) :
    specSkipUnit call true false i S = call "WHITESPACE" i S := by
  simp only [specSkipUnit, if_true]
  cases call "WHITESPACE" i S <;> simp

theorem specSkipUnit_C (call : String → Inp → List Sp → SR) (i : Inp) (S : List Sp) :
    specSkipUnit call false true i S = call "COMMENT" i S := by
  simp [specSkipUnit]

theorem atomicBudget_succ (n : Nat) : ∃ b, atomicBudget n = b + 1 :=
  ⟨atomicBudget n - 1, by have := atomicBudget_ge n; omega⟩

/-- The Spec's implicit skip at fuel `n`. -/
def specSkipN (g : PGrammar) (uni : Uni) (n : Nat) (i : Inp) (S : List Sp) : SR :=
  specSkip (spec g uni n false) (g.defines "WHITESPACE") (g.defines "COMMENT") (atomicBudget n) i S

/-- `Skipped` (the four shapes of `genSkipped`) against the Spec's `(WHITESPACE | COMMENT)*`. -/
theorem skip_sim {g : PGrammar} {uni : Uni} {n : Nat} (hS : Sim g uni n) (i : Inp) (S : List Sp)
    (trk : Tracker) (hne : specSkipN g uni n i S ≠ .oof) :
    EvRel (fun n' => parse (gen g) uni n' false (gen g).skipped i ⟨S, trk⟩) (specSkipN g uni n i S) := by
  show EvRel (fun n' => parse (gen g) uni n' false (genSkipped g) i ⟨S, trk⟩) _
  unfold specSkipN specSkip at hne ⊢
  cases hw : g.indexOf "WHITESPACE" with
  | none =>
    cases hc : g.indexOf "COMMENT" with
    | none =>
      obtain ⟨b, hb⟩ := atomicBudget_succ n
      simp only [genSkipped, PGrammar.defines, hw, hc, Option.isSome, hb, specRepLoop, specSkipUnit]
      refine EvRel.leaf1 (fun k => by simp only [parse]) ?_
      simp only [parse]
      exact ⟨_, _, rfl, rfl⟩
    | some c =>
      simp only [genSkipped, PGrammar.defines, hw, hc, Option.isSome, specSkipUnit_C] at hne ⊢
      refine atomicRepeat_sim (gen g) uni false _ _ ?_ _ i S trk hne
      intro idx i S trk hne
      have := hS false (.ident "COMMENT") i S hne false .zero trk rfl
      simp only [genExpr, hc] at this
      exact this
  | some w =>
    cases hc : g.indexOf "COMMENT" with
    | none =>
      simp only [genSkipped, PGrammar.defines, hw, hc, Option.isSome, specSkipUnit_W] at hne ⊢
      refine atomicRepeat_sim (gen g) uni false _ _ ?_ _ i S trk hne
      intro idx i S trk hne
      have := hS false (.ident "WHITESPACE") i S hne false .zero trk rfl
      simp only [genExpr, hw] at this
      exact this
    | some c =>
      simp only [genSkipped, PGrammar.defines, hw, hc, Option.isSome] at hne ⊢
      refine atomicRepeat_sim (gen g) uni false _ _ ?_ _ i S trk hne
      intro idx i S trk hne
      simp only [specSkipUnit, if_true] at hne ⊢
      cases hsW : spec g uni n false (.ident "WHITESPACE") i S with
      | oof => rw [hsW] at hne; exact absurd rfl hne
      | ok i1 S1 =>
        obtain ⟨n1, t1, v1, h1⟩ := hS.ok hsW false .zero trk rfl
        simp only [genExpr, hw] at h1
        refine EvRel.mk_ok' (n1 + 1) i1 ⟨S1, t1⟩ (.mk (.choice 2 0) [v1]) rfl (fun n' hn => ?_)
        obtain ⟨k, rfl⟩ : ∃ k, n' = k + 1 := ⟨n' - 1, by omega⟩
        simp only [parse, choiceLoop]
        rw [h1 k (by omega)]
        simp only [restoreOnNone, List.length]
      | fail =>
        obtain ⟨n1, m1, h1⟩ := hS.fail hsW false .zero trk rfl
        simp only [genExpr, hw] at h1
        rw [hsW] at hne
        simp only [] at hne ⊢
        cases hsC : spec g uni n false (.ident "COMMENT") i S with
        | oof => rw [hsC] at hne; exact absurd rfl hne
        | ok i2 S2 =>
          obtain ⟨n2, t2, v2, h2⟩ := hS.ok hsC false .zero m1.trk rfl
          simp only [genExpr, hc] at h2
          refine EvRel.mk_ok' (n1 + n2 + 1) i2 ⟨S2, t2⟩ (.mk (.choice 2 1) [v2]) rfl (fun n' hn => ?_)
          obtain ⟨k, rfl⟩ : ∃ k, n' = k + 1 := ⟨n' - 1, by omega⟩
          simp only [parse, choiceLoop]
          rw [h1 k (by omega)]
          simp only [restoreOnNone]
          rw [h2 k (by omega)]
          simp only [List.length]
        | fail =>
          obtain ⟨n2, m2, h2⟩ := hS.fail hsC false .zero m1.trk rfl
          simp only [genExpr, hc] at h2
          refine EvRel.mk_fail (n1 + n2 + 1) { m2 with stk := S } (fun n' hn => ?_)
          obtain ⟨k, rfl⟩ : ∃ k, n' = k + 1 := ⟨n' - 1, by omega⟩
          simp only [parse, choiceLoop]
          rw [h1 k (by omega)]
          simp only [restoreOnNone]
          rw [h2 k (by omega)]

/-- The Spec's skip between two elements: runs when non-atomic, nothing otherwise. -/
def specSkipIf (g : PGrammar) (uni : Uni) (n : Nat) (na : Bool) (i : Inp) (S : List Sp) : SR :=
  if na then specSkipN g uni n i S else .ok i S

/-- The `SKIP` runs of the skip type (`SKIP` = 0 or 1) against the Spec's conditional skip. -/
theorem skipLoop_sim {g : PGrammar} {uni : Uni} {n : Nat} (hS : Sim g uni n) {inh : Bool} {sk : Flag}
    {na : Bool} (hsk : Flag.eval sk inh = na) (i : Inp) (S : List Sp) (trk : Tracker)
    (hne : specSkipIf g uni n na i S ≠ .oof) :
    EvRel (fun n' => skipLoop (parse (gen g) uni n' false (gen g).skipped) (skipCount sk inh) i ⟨S, trk⟩ [])
      (specSkipIf g uni n na i S) := by
  cases na with
  | false =>
    simp only [specSkipIf, skipCount, hsk]
    exact EvRel.mk_ok' 0 i ⟨S, trk⟩ [] rfl (fun n' _ => by simp [skipLoop])
  | true =>
    simp only [specSkipIf, skipCount, hsk, if_true] at hne ⊢
    cases hs : specSkipN g uni n i S with
    | oof => exact absurd hs hne
    | fail =>
      obtain ⟨n1, m1, h1⟩ := (skip_sim hS i S trk hne).fail hs
      refine EvRel.mk_fail n1 m1 (fun n' hn => ?_)
      simp only [skipLoop]
      rw [h1 n' hn]
    | ok i1 S1 =>
      obtain ⟨n1, t1, v1, h1⟩ := (skip_sim hS i S trk hne).ok hs
      refine EvRel.mk_ok' n1 i1 ⟨S1, t1⟩ [v1] rfl (fun n' hn => ?_)
      simp only [skipLoop]
      rw [h1 n' hn]
      simp

/-- The Spec's "skip (when non-atomic), then `b`". -/
def specThen (g : PGrammar) (uni : Uni) (m : Nat) (na : Bool) (b : PExpr) (i : Inp) (S : List Sp) : SR :=
  match specSkipIf g uni m na i S with
  | .oof => .oof
  | .fail => .fail
  | .ok i2 S2 => spec g uni m na b i2 S2

/-- Typed "`SKIP` skips, then the element" against `specThen`: the three definite outcomes as
rewriting facts valid from some fuel on. -/
theorem skipThen_sim {g : PGrammar} {uni : Uni} {m : Nat} (hS : Sim g uni m) {inh : Bool} {sk : Flag}
    {na : Bool} (hsk : Flag.eval sk inh = na) (b : PExpr) (i : Inp) (S : List Sp) (trk : Tracker)
    (hne : specThen g uni m na b i S ≠ .oof) :
    ∃ n0,
      (specThen g uni m na b i S = .fail ∧ ∃ mf, ∀ n', n0 ≤ n' →
        skipLoop (parse (gen g) uni n' false (gen g).skipped) (skipCount sk inh) i ⟨S, trk⟩ [] = .fail mf) ∨
      (specThen g uni m na b i S = .fail ∧ ∃ i2 m2 sks mf, ∀ n', n0 ≤ n' →
        skipLoop (parse (gen g) uni n' false (gen g).skipped) (skipCount sk inh) i ⟨S, trk⟩ [] = .ok i2 m2 sks ∧
        parse (gen g) uni n' inh (genExpr g sk b) i2 m2 = .fail mf) ∨
      (∃ i3 S3 t3 i2 m2 sks v, specThen g uni m na b i S = .ok i3 S3 ∧ ∀ n', n0 ≤ n' →
        skipLoop (parse (gen g) uni n' false (gen g).skipped) (skipCount sk inh) i ⟨S, trk⟩ [] = .ok i2 m2 sks ∧
        parse (gen g) uni n' inh (genExpr g sk b) i2 m2 = .ok i3 ⟨S3, t3⟩ v) := by
  unfold specThen at hne ⊢
  cases hs : specSkipIf g uni m na i S with
  | oof => rw [hs] at hne; exact absurd rfl hne
  | fail =>
    obtain ⟨n1, m1, h1⟩ := (skipLoop_sim hS hsk i S trk (by rw [hs]; nofun)).fail hs
    exact ⟨n1, Or.inl ⟨rfl, m1, h1⟩⟩
  | ok i2 S2 =>
    obtain ⟨n1, t2, sks, h1⟩ := (skipLoop_sim hS hsk i S trk (by rw [hs]; nofun)).ok hs
    rw [hs] at hne
    simp only [] at hne ⊢
    cases hb : spec g uni m na b i2 S2 with
    | oof => exact absurd hb hne
    | fail =>
      obtain ⟨n2, mf, h2⟩ := hS.fail hb inh sk t2 hsk
      exact ⟨n1 + n2, Or.inr (Or.inl ⟨rfl, i2, ⟨S2, t2⟩, sks, mf, fun n' hn =>
        ⟨h1 n' (by omega), h2 n' (by omega)⟩⟩)⟩
    | ok i3 S3 =>
      obtain ⟨n2, t3, v, h2⟩ := hS.ok hb inh sk t2 hsk
      exact ⟨n1 + n2, Or.inr (Or.inr ⟨i3, S3, t3, i2, ⟨S2, t2⟩, sks, v, rfl, fun n' hn =>
        ⟨h1 n' (by omega), h2 n' (by omega)⟩⟩)⟩

/-! ### sequences -/

theorem spec_seq_eq (g : PGrammar) (uni : Uni) (n : Nat) (na : Bool) (a b : PExpr) (i : Inp) (S : List Sp) :
    spec g uni (n+1) na (.seq a b) i S =
      match spec g uni n na a i S with
      | .oof => .oof
      | .fail => .fail
      | .ok i1 S1 => specThen g uni n na b i1 S1 := by
  simp only [spec]
  cases spec g uni n na a i S with
  | oof => rfl
  | fail => rfl
  | ok i1 S1 =>
    cases na with
    | false => simp [specThen, specSkipIf]
    | true => simp only [specThen, specSkipIf, specSkipN, if_true]; rfl

theorem genSeqSpine_cases (g : PGrammar) (sk : Flag) (b : PExpr) :
    (∃ b1 b2, b = .seq b1 b2 ∧ genSeqSpine g sk b = genExpr g sk b1 :: genSeqSpine g sk b2) ∨
    genSeqSpine g sk b = [genExpr g sk b] := by
  cases b <;> first
    | exact Or.inl ⟨_, _, rfl, by simp only [genSeqSpine]⟩
    | exact Or.inr (by simp only [genSeqSpine])

theorem genChoiceSpine_cases (g : PGrammar) (sk : Flag) (b : PExpr) :
    (∃ b1 b2, b = .choice b1 b2 ∧ genChoiceSpine g sk b = genExpr g sk b1 :: genChoiceSpine g sk b2) ∨
    genChoiceSpine g sk b = [genExpr g sk b] := by
  cases b <;> first
    | exact Or.inl ⟨_, _, rfl, by simp only [genChoiceSpine]⟩
    | exact Or.inr (by simp only [genChoiceSpine])

/-- The flattened right spine of a sequence, run by `seqLoop`, against the Spec's right-nested
binary evaluation (skip, element, rest). -/
theorem seqSpine_sim {g : PGrammar} {uni : Uni} {n : Nat} (hS : ∀ m, m ≤ n → Sim g uni m) {inh : Bool}
    {sk : Flag} {na : Bool} (hsk : Flag.eval sk inh = na) :
    ∀ m, m ≤ n → ∀ b i S trk acc, specThen g uni m na b i S ≠ .oof →
      EvRel (fun n' => seqLoop (parse (gen g) uni n' inh)
            (fun i m => skipLoop (parse (gen g) uni n' false (gen g).skipped) (skipCount sk inh) i m [])
            mkSkipped (genSeqSpine g sk b) i ⟨S, trk⟩ acc)
        (specThen g uni m na b i S) := by
  intro m
  induction m with
  | zero =>
    intro hm b i S trk acc hne
    unfold specThen at hne ⊢
    cases hs : specSkipIf g uni 0 na i S with
    | oof => rw [hs] at hne; exact absurd rfl hne
    | ok i2 S2 => rw [hs] at hne; exact absurd rfl hne
    | fail =>
      obtain ⟨n1, m1, h1⟩ := (skipLoop_sim (hS _ hm) hsk i S trk (by rw [hs]; nofun)).fail hs
      refine EvRel.mk_fail n1 m1 (fun n' hn => ?_)
      obtain ⟨x, xs, hx⟩ : ∃ x xs, genSeqSpine g sk b = x :: xs := by
        rcases genSeqSpine_cases g sk b with ⟨b1, b2, _, h⟩ | h <;> exact ⟨_, _, h⟩
      rw [hx]
      simp only [seqLoop]
      rw [h1 n' hn]
  | succ m ih =>
    intro hm b i S trk acc hne
    rcases genSeqSpine_cases g sk b with ⟨b1, b2, rfl, hsp⟩ | hsp
    · -- `b1 ~ b2`: skip, `b1`, then the rest of the spine
      rw [hsp]
      unfold specThen at hne ⊢
      cases hs : specSkipIf g uni (m+1) na i S with
      | oof => rw [hs] at hne; exact absurd rfl hne
      | fail =>
        obtain ⟨n1, m1, h1⟩ := (skipLoop_sim (hS _ hm) hsk i S trk (by rw [hs]; nofun)).fail hs
        refine EvRel.mk_fail n1 m1 (fun n' hn => ?_)
        simp only [seqLoop]
        rw [h1 n' hn]
      | ok i2 S2 =>
        obtain ⟨n1, t2, sks, h1⟩ := (skipLoop_sim (hS _ hm) hsk i S trk (by rw [hs]; nofun)).ok hs
        rw [hs] at hne
        simp only [] at hne ⊢
        rw [spec_seq_eq] at hne ⊢
        cases hb1 : spec g uni m na b1 i2 S2 with
        | oof => rw [hb1] at hne; exact absurd rfl hne
        | fail =>
          obtain ⟨n2, mf, h2⟩ := (hS m (by omega)).fail hb1 inh sk t2 hsk
          refine EvRel.mk_fail (n1 + n2) mf (fun n' hn => ?_)
          simp only [seqLoop]
          rw [h1 n' (by omega)]
          simp only []
          rw [h2 n' (by omega)]
        | ok i3 S3 =>
          obtain ⟨n2, t3, v, h2⟩ := (hS m (by omega)).ok hb1 inh sk t2 hsk
          rw [hb1] at hne
          simp only [] at hne ⊢
          obtain ⟨n3, r3, hr3, h3⟩ := ih (by omega) b2 i3 S3 t3 (mkSkipped sks v :: acc) hne
          dsimp only at h3
          refine ⟨n1 + n2 + n3, r3, hr3, fun n' hn => ?_⟩
          simp only [seqLoop]
          rw [h1 n' (by omega)]
          simp only []
          rw [h2 n' (by omega)]
          exact h3 n' (by omega)
    · -- last element of the spine
      rw [hsp]
      obtain ⟨n0, h⟩ := skipThen_sim (hS _ hm) hsk b i S trk hne
      rcases h with ⟨hs, mf, h⟩ | ⟨hs, i2, m2, sks, mf, h⟩ | ⟨i3, S3, t3, i2, m2, sks, v, hs, h⟩
      · rw [hs]
        refine EvRel.mk_fail n0 mf (fun n' hn => ?_)
        simp only [seqLoop]
        rw [h n' hn]
      · rw [hs]
        refine EvRel.mk_fail n0 mf (fun n' hn => ?_)
        simp only [seqLoop]
        rw [(h n' hn).1]
        simp only []
        rw [(h n' hn).2]
      · rw [hs]
        refine EvRel.mk_ok' n0 i3 ⟨S3, t3⟩ (mkSkipped sks v :: acc).reverse rfl (fun n' hn => ?_)
        simp only [seqLoop]
        rw [(h n' hn).1]
        simp only []
        rw [(h n' hn).2]

/-! ### choices -/

/-- The flattened right spine of a choice, run by `choiceLoop` (each alternative under
`restore_on_none`), against the Spec's right-nested ordered choice on an immutable stack. -/
theorem choiceSpine_sim {g : PGrammar} {uni : Uni} {n : Nat} (hS : ∀ m, m ≤ n → Sim g uni m) {inh : Bool}
    {sk : Flag} {na : Bool} (hsk : Flag.eval sk inh = na) :
    ∀ m, m ≤ n → ∀ b k i S trk, spec g uni m na b i S ≠ .oof →
      EvRel (fun n' => choiceLoop (parse (gen g) uni n' inh) (genChoiceSpine g sk b) k i ⟨S, trk⟩)
        (spec g uni m na b i S) := by
  intro m
  induction m with
  | zero => intro hm b k i S trk hne; exact absurd rfl hne
  | succ m ih =>
    intro hm b k i S trk hne
    rcases genChoiceSpine_cases g sk b with ⟨b1, b2, rfl, hsp⟩ | hsp
    · rw [hsp]
      simp only [spec] at hne ⊢
      cases hb1 : spec g uni m na b1 i S with
      | oof => rw [hb1] at hne; exact absurd rfl hne
      | ok i1 S1 =>
        obtain ⟨n1, t1, v, h1⟩ := (hS m (by omega)).ok hb1 inh sk trk hsk
        refine EvRel.mk_ok' n1 i1 ⟨S1, t1⟩ (k, v) rfl (fun n' hn => ?_)
        simp only [choiceLoop]
        rw [h1 n' hn]
        simp only [restoreOnNone]
      | fail =>
        obtain ⟨n1, mf, h1⟩ := (hS m (by omega)).fail hb1 inh sk trk hsk
        rw [hb1] at hne
        simp only [] at hne ⊢
        obtain ⟨n2, r2, hr2, h2⟩ := ih (by omega) b2 (k+1) i S mf.trk hne
        dsimp only at h2
        refine ⟨n1 + n2, r2, hr2, fun n' hn => ?_⟩
        simp only [choiceLoop]
        rw [h1 n' (by omega)]
        simp only [restoreOnNone]
        exact h2 n' (by omega)
    · rw [hsp]
      cases hb : spec g uni (m+1) na b i S with
      | oof => exact absurd hb hne
      | ok i1 S1 =>
        obtain ⟨n1, t1, v, h1⟩ := (hS _ hm).ok hb inh sk trk hsk
        refine EvRel.mk_ok' n1 i1 ⟨S1, t1⟩ (k, v) rfl (fun n' hn => ?_)
        simp only [choiceLoop]
        rw [h1 n' hn]
        simp only [restoreOnNone]
      | fail =>
        obtain ⟨n1, mf, h1⟩ := (hS _ hm).fail hb inh sk trk hsk
        refine EvRel.mk_fail n1 { mf with stk := S } (fun n' hn => ?_)
        simp only [choiceLoop]
        rw [h1 n' hn]
        simp only [restoreOnNone]

/-! ### repetitions -/

theorem specRepUnit_eq (g : PGrammar) (uni : Uni) (n : Nat) (na : Bool) (e : PExpr) (idx : Nat) (i : Inp)
    (S : List Sp) :
    (if idx = 0 ∨ (!na) = true then spec g uni n na e i S
     else
      match specSkip (spec g uni n false) (g.defines "WHITESPACE") (g.defines "COMMENT") (atomicBudget n) i S with
      | .oof => .oof
      | .fail => .fail
      | .ok i1 S1 => spec g uni n na e i1 S1) =
    if idx = 0 then spec g uni n na e i S else specThen g uni n na e i S := by
  by_cases h0 : idx = 0
  · simp [h0]
  · cases na with
    | false => simp [h0, specThen, specSkipIf]
    | true => simp [h0, specThen, specSkipIf, specSkipN]

/-- `RepeatMin` / `RepeatMinMax` against the Spec's `e (skip e)*` with bounds. -/
theorem rep_sim {g : PGrammar} {uni : Uni} {n : Nat} (hS : Sim g uni n) {inh : Bool} {sk : Flag} {na : Bool}
    (hsk : Flag.eval sk inh = na) (e : PExpr) (min : Nat) (mx : Option Nat) (i : Inp) (S : List Sp)
    (trk : Tracker)
    (hne : specRepWith (spec g uni n) n (g.defines "WHITESPACE") (g.defines "COMMENT") na e min mx i S ≠ .oof) :
    EvRel (fun n' => parse (gen g) uni n' inh (.rep sk min mx (genExpr g sk e)) i ⟨S, trk⟩)
      (specRepWith (spec g uni n) n (g.defines "WHITESPACE") (g.defines "COMMENT") na e min mx i S) := by
  have heq : specRepWith (spec g uni n) n (g.defines "WHITESPACE") (g.defines "COMMENT") na e min mx i S =
      specRepLoop (fun idx i S => if idx = 0 then spec g uni n na e i S else specThen g uni n na e i S)
        min mx n 0 i S := by
    unfold specRepWith
    congr 1
    funext idx i S
    exact specRepUnit_eq g uni n na e idx i S
  rw [heq] at hne ⊢
  have hU : ∀ idx i S trk,
      (if idx = 0 then spec g uni n na e i S else specThen g uni n na e i S) ≠ .oof →
      EvRel (fun n' => repUnitP (parse (gen g) uni n' false (gen g).skipped) (parse (gen g) uni n' inh (genExpr g sk e))
            (defaultSkipVal (gen g)) (skipCount sk inh) idx i ⟨S, trk⟩)
        (if idx = 0 then spec g uni n na e i S else specThen g uni n na e i S) := by
    intro idx i S trk hne
    by_cases h0 : idx = 0
    · simp only [h0, if_true] at hne ⊢
      cases hb : spec g uni n na e i S with
      | oof => exact absurd hb hne
      | fail =>
        obtain ⟨n1, mf, h1⟩ := hS.fail hb inh sk trk hsk
        refine EvRel.mk_fail n1 mf (fun n' hn => ?_)
        simp only [repUnitP, if_true]
        rw [h1 n' hn]
      | ok i1 S1 =>
        obtain ⟨n1, t1, v, h1⟩ := hS.ok hb inh sk trk hsk
        refine EvRel.mk_ok' n1 i1 ⟨S1, t1⟩
          (mkSkipped (List.replicate (skipCount sk inh) (defaultSkipVal (gen g))) v) rfl (fun n' hn => ?_)
        simp only [repUnitP, if_true]
        rw [h1 n' hn]
    · simp only [h0, if_false] at hne ⊢
      obtain ⟨n0, h⟩ := skipThen_sim hS hsk e i S trk hne
      rcases h with ⟨hs, mf, h⟩ | ⟨hs, i2, m2, sks, mf, h⟩ | ⟨i3, S3, t3, i2, m2, sks, v, hs, h⟩
      · rw [hs]
        refine EvRel.mk_fail n0 mf (fun n' hn => ?_)
        simp only [repUnitP, h0, if_false]
        rw [h n' hn]
      · rw [hs]
        refine EvRel.mk_fail n0 mf (fun n' hn => ?_)
        simp only [repUnitP, h0, if_false]
        rw [(h n' hn).1]
        simp only []
        rw [(h n' hn).2]
      · rw [hs]
        refine EvRel.mk_ok' n0 i3 ⟨S3, t3⟩ (mkSkipped sks v) rfl (fun n' hn => ?_)
        simp only [repUnitP, h0, if_false]
        rw [(h n' hn).1]
        simp only []
        rw [(h n' hn).2]
  have hloop := repLoop_sim
    (fun n' => repUnitP (parse (gen g) uni n' false (gen g).skipped) (parse (gen g) uni n' inh (genExpr g sk e))
      (defaultSkipVal (gen g)) (skipCount sk inh))
    (fun idx i S => if idx = 0 then spec g uni n na e i S else specThen g uni n na e i S)
    min mx hU n (fun n => n) id_unbounded 0 i S trk ([] : List Val) rfl hne
  cases hs : specRepLoop (fun idx i S => if idx = 0 then spec g uni n na e i S else specThen g uni n na e i S)
      min mx n 0 i S with
  | oof => exact absurd hs hne
  | fail =>
    obtain ⟨n1, m1, h1⟩ := hloop.fail hs
    refine EvRel.mk_fail (n1 + 1) m1 (fun n' hn => ?_)
    obtain ⟨k, rfl⟩ : ∃ k, n' = k + 1 := ⟨n' - 1, by omega⟩
    simp only [parse]
    rw [h1 k (by omega)]
  | ok i1 S1 =>
    obtain ⟨n1, t1, vs, h1⟩ := hloop.ok hs
    refine EvRel.mk_ok' (n1 + 1) i1 ⟨S1, t1⟩ (.mk (.rep min mx) vs) rfl (fun n' hn => ?_)
    obtain ⟨k, rfl⟩ : ∃ k, n' = k + 1 := ⟨n' - 1, by omega⟩
    simp only [parse]
    rw [h1 k (by omega)]

/-! ### rule references -/

/-- A reference to a defined rule: the wrapper (`rule!`: tracker frame, emission) only touches the
tracker; atomic rules (`emit = span`) run their body through the check path. -/
theorem ref_sim (G : NodeGrammar) (uni : Uni) (r : RuleId) (f : Flag) (d : RuleDef) (hd : G.rule? r = some d)
    (inh : Bool) (i : Inp) (S : List Sp) (trk : Tracker) (rs : SR) (hrs : rs ≠ .oof)
    (hbody : ∀ trk', EvRel (fun n' => parse G uni n' (f.eval inh) d.body i ⟨S, trk'⟩) rs) :
    EvRel (fun n' => parse G uni n' inh (.ref r f) i ⟨S, trk⟩) rs := by
  cases rs with
  | oof => exact absurd rfl hrs
  | fail =>
    cases hemit : d.emit with
    | expression =>
      obtain ⟨n1, m1, h1⟩ := (hbody trk).fail rfl
      refine EvRel.mk_fail (n1 + 1) m1 (fun n' hn => ?_)
      obtain ⟨k, rfl⟩ : ∃ k, n' = k + 1 := ⟨n' - 1, by omega⟩
      simp only [parse, hd, hemit]
      rw [h1 k (by omega)]
    | span =>
      obtain ⟨n1, m1, h1⟩ := (hbody (trk.enter r i.pos)).fail rfl
      refine EvRel.mk_fail (n1 + 1) { m1 with trk := m1.trk.leave r i.pos false } (fun n' hn => ?_)
      obtain ⟨k, rfl⟩ : ∃ k, n' = k + 1 := ⟨n' - 1, by omega⟩
      simp only [parse, hd, hemit]
      rw [check_eq_parse_forget, h1 k (by omega)]
      rfl
    | both =>
      obtain ⟨n1, m1, h1⟩ := (hbody (trk.enter r i.pos)).fail rfl
      refine EvRel.mk_fail (n1 + 1) { m1 with trk := m1.trk.leave r i.pos false } (fun n' hn => ?_)
      obtain ⟨k, rfl⟩ : ∃ k, n' = k + 1 := ⟨n' - 1, by omega⟩
      simp only [parse, hd, hemit]
      rw [h1 k (by omega)]
  | ok i1 S1 =>
    cases hemit : d.emit with
    | expression =>
      obtain ⟨n1, t1, v1, h1⟩ := (hbody trk).ok rfl
      refine EvRel.mk_ok' (n1 + 1) i1 ⟨S1, t1⟩ (.mk (.rule r .expression d.boxed i.pos i1.pos) [v1]) rfl
        (fun n' hn => ?_)
      obtain ⟨k, rfl⟩ : ∃ k, n' = k + 1 := ⟨n' - 1, by omega⟩
      simp only [parse, hd, hemit]
      rw [h1 k (by omega)]
    | span =>
      obtain ⟨n1, t1, v1, h1⟩ := (hbody (trk.enter r i.pos)).ok rfl
      refine EvRel.mk_ok' (n1 + 1) i1 ⟨S1, t1.leave r i.pos true⟩ (.mk (.rule r .span d.boxed i.pos i1.pos) []) rfl
        (fun n' hn => ?_)
      obtain ⟨k, rfl⟩ : ∃ k, n' = k + 1 := ⟨n' - 1, by omega⟩
      simp only [parse, hd, hemit]
      rw [check_eq_parse_forget, h1 k (by omega)]
      rfl
    | both =>
      obtain ⟨n1, t1, v1, h1⟩ := (hbody (trk.enter r i.pos)).ok rfl
      refine EvRel.mk_ok' (n1 + 1) i1 ⟨S1, t1.leave r i.pos true⟩ (.mk (.rule r .both d.boxed i.pos i1.pos) [v1]) rfl
        (fun n' hn => ?_)
      obtain ⟨k, rfl⟩ : ∃ k, n' = k + 1 := ⟨n' - 1, by omega⟩
      simp only [parse, hd, hemit]
      rw [h1 k (by omega)]

/-! ### the main induction -/

theorem sim_step {g : PGrammar} {uni : Uni} (hws : SkipRulesAtomicLike g) (n : Nat)
    (hS : ∀ m, m ≤ n → Sim g uni m) : Sim g uni (n+1) := by
  intro na e i S hne inh sk trk hsk
  have hSn := hS n (Nat.le_refl _)
  cases e with
  | str s =>
    simp only [spec, genExpr]
    refine EvRel.leaf1 (fun k => by simp only [parse]) ?_
    simp only [parse]
    cases i.matchString s with
    | none => exact ⟨_, rfl⟩
    | some i' => exact ⟨_, _, rfl, rfl⟩
  | insens s =>
    simp only [spec, genExpr]
    refine EvRel.leaf1 (fun k => by simp only [parse]) ?_
    simp only [parse]
    cases i.matchInsens s with
    | none => exact ⟨_, rfl⟩
    | some i' => exact ⟨_, _, rfl, rfl⟩
  | range lo hi =>
    simp only [spec, genExpr]
    refine EvRel.leaf1 (fun k => by simp only [parse]) ?_
    simp only [parse]
    cases i.matchRange lo hi with
    | none => exact ⟨_, rfl⟩
    | some p => exact ⟨_, _, rfl, rfl⟩
  | ident name =>
    simp only [spec] at hne ⊢
    cases hidx : g.indexOf name with
    | none =>
      simp only [find?_of_indexOf_none hidx, genExpr, hidx]
      exact builtin_sim g uni name inh i S trk
    | some k =>
      obtain ⟨r, hr, hrn⟩ := indexOf_spec hidx
      simp only [find?_of_indexOf hidx, hr] at hne ⊢
      simp only [genExpr, hidx]
      rw [spec_body_flag hws hidx hr] at hne ⊢
      have hrule : (gen g).rule? (k+1) = some (genRule g r) := by rw [gen_rule_succ, hr]; rfl
      refine ref_sim (gen g) uni (k+1) sk (genRule g r) hrule inh i S trk _ hne (fun trk' => ?_)
      rw [hsk]
      exact hSn _ _ _ _ hne na (atomFlag (kindAtomicity r.kind)) trk' rfl
  | peekSlice a b =>
    simp only [spec, genExpr]
    refine EvRel.leaf1 (fun k => by simp only [parse]) ?_
    simp only [parse]
    cases constrainIdxs a b S.length with
    | none => exact ⟨_, rfl⟩
    | some p =>
      obtain ⟨lo, hi⟩ := p
      simp only []
      by_cases hle : hi ≤ lo
      · simp only [hle, if_true]; exact ⟨_, _, rfl, rfl⟩
      · simp only [hle, if_false]
        cases peekSpans (stackSlice S lo hi) i with
        | none => exact ⟨_, rfl⟩
        | some i' => exact ⟨_, _, rfl, rfl⟩
  | posPred e =>
    simp only [spec] at hne ⊢
    simp only [genExpr]
    cases hs : spec g uni n na e i S with
    | oof => rw [hs] at hne; exact absurd rfl hne
    | fail =>
      obtain ⟨n1, m1, h1⟩ := hSn.fail hs inh sk { trk with positive := true } hsk
      refine EvRel.mk_fail (n1 + 1) ⟨S, { m1.trk with positive := trk.positive }⟩ (fun n' hn => ?_)
      obtain ⟨k, rfl⟩ : ∃ k, n' = k + 1 := ⟨n' - 1, by omega⟩
      simp only [parse]
      rw [h1 k (by omega)]
    | ok i1 S1 =>
      obtain ⟨n1, t1, v1, h1⟩ := hSn.ok hs inh sk { trk with positive := true } hsk
      refine EvRel.mk_ok' (n1 + 1) i ⟨S, { t1 with positive := trk.positive }⟩ (.mk .pos [v1]) rfl (fun n' hn => ?_)
      obtain ⟨k, rfl⟩ : ∃ k, n' = k + 1 := ⟨n' - 1, by omega⟩
      simp only [parse]
      rw [h1 k (by omega)]
  | negPred e =>
    simp only [spec] at hne ⊢
    simp only [genExpr]
    cases hs : spec g uni n na e i S with
    | oof => rw [hs] at hne; exact absurd rfl hne
    | fail =>
      obtain ⟨n1, m1, h1⟩ := hSn.fail hs inh sk { trk with positive := false } hsk
      refine EvRel.mk_ok' (n1 + 1) i ⟨S, { m1.trk with positive := trk.positive }⟩ (.leaf .neg) rfl (fun n' hn => ?_)
      obtain ⟨k, rfl⟩ : ∃ k, n' = k + 1 := ⟨n' - 1, by omega⟩
      simp only [parse]
      rw [check_eq_parse_forget, h1 k (by omega)]
      rfl
    | ok i1 S1 =>
      obtain ⟨n1, t1, v1, h1⟩ := hSn.ok hs inh sk { trk with positive := false } hsk
      refine EvRel.mk_fail (n1 + 1) ⟨S, { t1 with positive := trk.positive }⟩ (fun n' hn => ?_)
      obtain ⟨k, rfl⟩ : ∃ k, n' = k + 1 := ⟨n' - 1, by omega⟩
      simp only [parse]
      rw [check_eq_parse_forget, h1 k (by omega)]
      rfl
  | seq a b =>
    rw [spec_seq_eq] at hne ⊢
    simp only [genExpr]
    cases hs : spec g uni n na a i S with
    | oof => rw [hs] at hne; exact absurd rfl hne
    | fail =>
      obtain ⟨n1, m1, h1⟩ := hSn.fail hs inh sk trk hsk
      refine EvRel.mk_fail (n1 + 1) m1 (fun n' hn => ?_)
      obtain ⟨k, rfl⟩ : ∃ k, n' = k + 1 := ⟨n' - 1, by omega⟩
      simp only [parse]
      rw [h1 k (by omega)]
    | ok i1 S1 =>
      obtain ⟨n1, t1, v1, h1⟩ := hSn.ok hs inh sk trk hsk
      rw [hs] at hne
      simp only [] at hne ⊢
      have hloop := seqSpine_sim hS hsk n (Nat.le_refl _) b i1 S1 t1 [] hne
      cases hs2 : specThen g uni n na b i1 S1 with
      | oof => exact absurd hs2 hne
      | fail =>
        obtain ⟨n2, m2, h2⟩ := hloop.fail hs2
        refine EvRel.mk_fail (n1 + n2 + 1) m2 (fun n' hn => ?_)
        obtain ⟨k, rfl⟩ : ∃ k, n' = k + 1 := ⟨n' - 1, by omega⟩
        simp only [parse]
        rw [h1 k (by omega)]
        simp only []
        rw [h2 k (by omega)]
      | ok i2 S2 =>
        obtain ⟨n2, t2, vs, h2⟩ := hloop.ok hs2
        refine EvRel.mk_ok' (n1 + n2 + 1) i2 ⟨S2, t2⟩
          (.mk .seq (mkSkipped (List.replicate (skipCount sk inh) (defaultSkipVal (gen g))) v1 :: vs)) rfl
          (fun n' hn => ?_)
        obtain ⟨k, rfl⟩ : ∃ k, n' = k + 1 := ⟨n' - 1, by omega⟩
        simp only [parse]
        rw [h1 k (by omega)]
        simp only []
        rw [h2 k (by omega)]
  | choice a b =>
    simp only [spec] at hne ⊢
    simp only [genExpr]
    cases hs : spec g uni n na a i S with
    | oof => rw [hs] at hne; exact absurd rfl hne
    | ok i1 S1 =>
      obtain ⟨n1, t1, v1, h1⟩ := hSn.ok hs inh sk trk hsk
      refine EvRel.mk_ok' (n1 + 1) i1 ⟨S1, t1⟩ (.mk (.choice (genChoiceSpine g sk b).length.succ 0) [v1]) rfl
        (fun n' hn => ?_)
      obtain ⟨k, rfl⟩ : ∃ k, n' = k + 1 := ⟨n' - 1, by omega⟩
      simp only [parse, choiceLoop]
      rw [h1 k (by omega)]
      simp only [restoreOnNone, List.length]
    | fail =>
      obtain ⟨n1, m1, h1⟩ := hSn.fail hs inh sk trk hsk
      rw [hs] at hne
      simp only [] at hne ⊢
      have hloop := choiceSpine_sim hS hsk n (Nat.le_refl _) b 1 i S m1.trk hne
      cases hs2 : spec g uni n na b i S with
      | oof => exact absurd hs2 hne
      | fail =>
        obtain ⟨n2, m2, h2⟩ := hloop.fail hs2
        refine EvRel.mk_fail (n1 + n2 + 1) m2 (fun n' hn => ?_)
        obtain ⟨k, rfl⟩ : ∃ k, n' = k + 1 := ⟨n' - 1, by omega⟩
        simp only [parse, choiceLoop]
        rw [h1 k (by omega)]
        simp only [restoreOnNone]
        rw [h2 k (by omega)]
      | ok i2 S2 =>
        obtain ⟨n2, t2, kv, h2⟩ := hloop.ok hs2
        obtain ⟨k2, v2⟩ := kv
        refine EvRel.mk_ok' (n1 + n2 + 1) i2 ⟨S2, t2⟩ (.mk (.choice (genChoiceSpine g sk b).length.succ k2) [v2]) rfl
          (fun n' hn => ?_)
        obtain ⟨k, rfl⟩ : ∃ k, n' = k + 1 := ⟨n' - 1, by omega⟩
        simp only [parse, choiceLoop]
        rw [h1 k (by omega)]
        simp only [restoreOnNone]
        rw [h2 k (by omega)]
        simp only [List.length]
  | opt e =>
    simp only [spec] at hne ⊢
    simp only [genExpr]
    cases hs : spec g uni n na e i S with
    | oof => rw [hs] at hne; exact absurd rfl hne
    | fail =>
      obtain ⟨n1, m1, h1⟩ := hSn.fail hs inh sk trk hsk
      refine EvRel.mk_ok' (n1 + 1) i { m1 with stk := S } (.leaf .optNone) rfl (fun n' hn => ?_)
      obtain ⟨k, rfl⟩ : ∃ k, n' = k + 1 := ⟨n' - 1, by omega⟩
      simp only [parse]
      rw [h1 k (by omega)]
      simp only [restoreOnNone]
    | ok i1 S1 =>
      obtain ⟨n1, t1, v1, h1⟩ := hSn.ok hs inh sk trk hsk
      refine EvRel.mk_ok' (n1 + 1) i1 ⟨S1, t1⟩ (.mk .optSome [v1]) rfl (fun n' hn => ?_)
      obtain ⟨k, rfl⟩ : ∃ k, n' = k + 1 := ⟨n' - 1, by omega⟩
      simp only [parse]
      rw [h1 k (by omega)]
      simp only [restoreOnNone]
  | rep e =>
    simp only [spec] at hne ⊢
    simp only [genExpr]
    exact rep_sim hSn hsk e 0 none i S trk hne
  | repOnce e =>
    simp only [spec] at hne ⊢
    simp only [genExpr]
    exact rep_sim hSn hsk e 1 none i S trk hne
  | repExact e k =>
    simp only [spec] at hne ⊢
    simp only [genExpr]
    exact rep_sim hSn hsk e k (some k) i S trk hne
  | repMin e k =>
    simp only [spec] at hne ⊢
    simp only [genExpr]
    exact rep_sim hSn hsk e k none i S trk hne
  | repMax e k =>
    simp only [spec] at hne ⊢
    simp only [genExpr]
    exact rep_sim hSn hsk e 0 (some k) i S trk hne
  | repMinMax e k l =>
    simp only [spec] at hne ⊢
    simp only [genExpr]
    exact rep_sim hSn hsk e k (some l) i S trk hne
  | skip needles =>
    simp only [spec, genExpr]
    refine EvRel.leaf1 (fun k => by simp only [parse]) ?_
    simp only [parse]
    exact ⟨_, _, rfl, rfl⟩
  | push e =>
    simp only [spec] at hne ⊢
    simp only [genExpr]
    cases hs : spec g uni n na e i S with
    | oof => rw [hs] at hne; exact absurd rfl hne
    | fail =>
      obtain ⟨n1, m1, h1⟩ := hSn.fail hs inh sk trk hsk
      refine EvRel.mk_fail (n1 + 1) m1 (fun n' hn => ?_)
      obtain ⟨k, rfl⟩ : ∃ k, n' = k + 1 := ⟨n' - 1, by omega⟩
      simp only [parse]
      rw [h1 k (by omega)]
    | ok i1 S1 =>
      obtain ⟨n1, t1, v1, h1⟩ := hSn.ok hs inh sk trk hsk
      refine EvRel.mk_ok' (n1 + 1) i1 ⟨i.spanTo i1 :: S1, t1⟩ (.mk .push [v1]) rfl (fun n' hn => ?_)
      obtain ⟨k, rfl⟩ : ∃ k, n' = k + 1 := ⟨n' - 1, by omega⟩
      simp only [parse]
      rw [h1 k (by omega)]
  | restoreOnErr e =>
    simp only [spec] at hne ⊢
    simp only [genExpr]
    exact hSn _ _ _ _ hne inh sk trk hsk

/-- Forward simulation for every Spec fuel. -/
theorem sim_all {g : PGrammar} {uni : Uni} (hws : SkipRulesAtomicLike g) : ∀ n, Sim g uni n := by
  intro n
  induction n using Nat.strongRecOn with
  | _ n ih =>
    cases n with
    | zero => intro na e i S hne; exact absurd rfl hne
    | succ n => exact sim_step hws n (fun m hm => ih m (by omega))

end PestTyped
