/-
Lemmas.TrackerTrace — the ghost event log of a run, and the truthfulness of the error report with
respect to it.

* `Ev` is the state of one call `parse g uni n inh (.ref r f) i m` of a rule that has its own tracker
  frame (emission `Span` or `Both`): fuel, `INHERITED` value, rule, flag, cursor, stack and tracker
  (with its rule stack = the rules above) *at entry*.
* `evs g uni n inh node i m` is the list of the calls made by the run `parse g uni n inh node i m`, in
  order.  It is a function that follows the call sites of `parse` one by one; the state at each call
  site is computed by `parse` itself (the result of the preceding sub-runs), so an element of the list
  is, by definition, a state the run passed through.  The sub-runs inside a negative predicate and
  inside an atomic rule go through the check path: `check = parse.forget` (`check_eq_parse_forget`),
  the states are the same, the events are stated for `parse`.  The body of an `AtomicRepeat` runs on a
  fresh tracker that is dropped: its calls never reach the report and are not logged.
* `RunRelE` / `parse_relE`: the generic induction principle of `TrackerLemmas` with the log.
* Instances: the rule stack of the tracker is kept, the flag of its top frame is set exactly when
  the log is non-empty (`parse_stack`); the report is truthful with respect to the log (`parse_truthE`).
-/
import PestTyped.Lemmas.TrackerLemmas
namespace PestTyped

/-- One call `parse g uni n inh (.ref r f) i m`. -/
structure Ev where
  n : Nat
  inh : Bool
  r : RuleId
  f : Flag
  i : Inp
  m : M
  deriving DecidableEq, Repr

/-! ### the log -/

def skipLoopEvs {α} (skip : Inp → M → R α) (skipE : Inp → M → List Ev) : Nat → Inp → M → List Ev
  | 0, _, _ => []
  | k+1, i, m =>
    skipE i m ++
      match skip i m with
      | .ok i' m' _ => skipLoopEvs skip skipE k i' m'
      | _ => []

def seqLoopEvs {α β} (f : Node → Inp → M → R α) (fE : Node → Inp → M → List Ev)
    (skip : Inp → M → R (List β)) (skipE : Inp → M → List Ev) : List Node → Inp → M → List Ev
  | [], _, _ => []
  | n :: ns, i, m =>
    skipE i m ++
      match skip i m with
      | .ok i' m' _ =>
        fE n i' m' ++
          match f n i' m' with
          | .ok i'' m'' _ => seqLoopEvs f fE skip skipE ns i'' m''
          | _ => []
      | _ => []

def choiceLoopEvs {α} (f : Node → Inp → M → R α) (fE : Node → Inp → M → List Ev) :
    List Node → Inp → M → List Ev
  | [], _, _ => []
  | n :: ns, i, m =>
    fE n i m ++
      match restoreOnNone m.stk (f n i m) with
      | .fail m' => choiceLoopEvs f fE ns i m'
      | _ => []

def repLoopEvs {α} (unit : Nat → Inp → M → R α) (unitE : Nat → Inp → M → List Ev) (max : Option Nat) :
    Nat → Nat → Inp → M → List Ev
  | 0, _, _, _ => []
  | budget+1, idx, i, m =>
    if max = some idx then []
    else
      unitE idx i m ++
        match restoreOnNone m.stk (unit idx i m) with
        | .ok i' m' _ => repLoopEvs unit unitE max budget (idx+1) i' m'
        | _ => []

def arrayLoopEvs {α} (f : Inp → M → R α) (fE : Inp → M → List Ev) : Nat → Inp → M → List Ev
  | 0, _, _ => []
  | k+1, i, m =>
    fE i m ++
      match f i m with
      | .ok i' m' _ => arrayLoopEvs f fE k i' m'
      | _ => []

def repUnitPEvs (skip : Inp → M → R Val) (skipE : Inp → M → List Ev) (bodyE : Inp → M → List Ev)
    (k : Nat) (idx : Nat) (i : Inp) (m : M) : List Ev :=
  if idx = 0 then bodyE i m
  else
    skipLoopEvs skip skipE k i m ++
      match skipLoop skip k i m [] with
      | .ok i' m' _ => bodyE i' m'
      | _ => []

/-- The calls of framed rules made by `parse g uni n inh node i m`, in order. -/
def evs (g : NodeGrammar) (uni : Uni) : Nat → Bool → Node → Inp → M → List Ev
  | 0, _, _, _, _ => []
  | fuel+1, inh, .seq sk items, i, m =>
    match items with
    | [] => []
    | n0 :: ns =>
      evs g uni fuel inh n0 i m ++
        match parse g uni fuel inh n0 i m with
        | .ok i' m' _ =>
          seqLoopEvs (parse g uni fuel inh) (evs g uni fuel inh)
            (fun i m => skipLoop (parse g uni fuel false g.skipped) (skipCount sk inh) i m [])
            (skipLoopEvs (parse g uni fuel false g.skipped) (evs g uni fuel false g.skipped) (skipCount sk inh))
            ns i' m'
        | _ => []
  | fuel+1, inh, .choice alts, i, m => choiceLoopEvs (parse g uni fuel inh) (evs g uni fuel inh) alts i m
  | fuel+1, inh, .opt x, i, m => evs g uni fuel inh x i m
  | fuel+1, inh, .rep sk _ max x, i, m =>
    repLoopEvs (repUnitP (parse g uni fuel false g.skipped) (parse g uni fuel inh x) (defaultSkipVal g) (skipCount sk inh))
      (repUnitPEvs (parse g uni fuel false g.skipped) (evs g uni fuel false g.skipped) (evs g uni fuel inh x)
        (skipCount sk inh))
      max fuel 0 i m
  | fuel+1, inh, .pos x, i, m => evs g uni fuel inh x i { m with trk := { m.trk with positive := true } }
  | fuel+1, inh, .neg x, i, m => evs g uni fuel inh x i { m with trk := { m.trk with positive := false } }
  | fuel+1, inh, .push x, i, m => evs g uni fuel inh x i m
  | fuel+1, inh, .ref r f, i, m =>
    match g.rule? r with
    | none => []
    | some d =>
      match d.emit with
      | .expression => evs g uni fuel (f.eval inh) d.body i m
      | _ =>
        ⟨fuel+1, inh, r, f, i, m⟩ ::
          evs g uni fuel (f.eval inh) d.body i { m with trk := m.trk.enter r i.pos }
  | fuel+1, inh, .array k x, i, m => arrayLoopEvs (parse g uni fuel inh x) (evs g uni fuel inh x) k i m
  | fuel+1, inh, .pair a c, i, m =>
    evs g uni fuel inh a i m ++
      match parse g uni fuel inh a i m with
      | .ok i' m' _ => evs g uni fuel inh c i' m'
      | _ => []
  | _+1, _, _, _, _ => []

/-! ### generic principle with the log -/

/-- Closure conditions on `Rl i t L t'` ("a run entered at cursor `i` with tracker `t` that makes the
calls `L` may leave tracker `t'`"). -/
structure RunRelE (g : NodeGrammar) (uni : Uni) (b : Inp) (Rl : Inp → Tracker → List Ev → Tracker → Prop) :
    Prop where
  refl : ∀ (i : Inp) (t : Tracker), Rl i t [] t
  trans : ∀ {i i1 : Inp} {t t1 t2 : Tracker} {L1 L2 : List Ev}, b.Adv i → i.Adv i1 →
    Rl i t L1 t1 → Rl i1 t1 L2 t2 → Rl i t (L1 ++ L2) t2
  special : ∀ {i : Inp} (t : Tracker) (s : Special), b.Adv i → Rl i t [] (t.special i.pos s)
  polar : ∀ {i : Inp} {t t' : Tracker} {L : List Ev} (p : Bool), b.Adv i →
    Rl i { t with positive := p } L t' → Rl i t L { t' with positive := t.positive }
  ruleFail : ∀ {n : Nat} {inh : Bool} {r : RuleId} {f : Flag} {d : RuleDef} {i : Inp} {m m' : M}, b.Adv i →
    g.rule? r = some d → d.emit ≠ .expression →
    (parse g uni n (f.eval inh) d.body i { m with trk := m.trk.enter r i.pos }).forget = .fail m' →
    parse g uni (n+1) inh (.ref r f) i m = .fail { m' with trk := m'.trk.leave r i.pos false } →
    Rl i (m.trk.enter r i.pos) (evs g uni n (f.eval inh) d.body i { m with trk := m.trk.enter r i.pos }) m'.trk →
    Rl i m.trk (⟨n+1, inh, r, f, i, m⟩ :: evs g uni n (f.eval inh) d.body i { m with trk := m.trk.enter r i.pos })
      (m'.trk.leave r i.pos false)
  ruleOk : ∀ {n : Nat} {inh : Bool} {r : RuleId} {f : Flag} {d : RuleDef} {i i' : Inp} {m m' : M}, b.Adv i →
    g.rule? r = some d → d.emit ≠ .expression →
    (parse g uni n (f.eval inh) d.body i { m with trk := m.trk.enter r i.pos }).forget = .ok i' m' () →
    (∃ v, parse g uni (n+1) inh (.ref r f) i m = .ok i' { m' with trk := m'.trk.leave r i.pos true } v) →
    Rl i (m.trk.enter r i.pos) (evs g uni n (f.eval inh) d.body i { m with trk := m.trk.enter r i.pos }) m'.trk →
    Rl i m.trk (⟨n+1, inh, r, f, i, m⟩ :: evs g uni n (f.eval inh) d.body i { m with trk := m.trk.enter r i.pos })
      (m'.trk.leave r i.pos true)

def RelFnE {α} (b : Inp) (Rl : Inp → Tracker → List Ev → Tracker → Prop) (f : Inp → M → R α)
    (fE : Inp → M → List Ev) : Prop :=
  ∀ i m, b.Adv i → RlOk (Rl i m.trk (fE i m)) (f i m)

section genericE
variable {g : NodeGrammar} {uni : Uni} {b : Inp} {Rl : Inp → Tracker → List Ev → Tracker → Prop}

theorem RunRelE.step (h : RunRelE g uni b Rl) {α} {i i1 : Inp} {t t1 : Tracker} {L1 L2 : List Ev} {r : R α}
    (hb : b.Adv i) (hi : i.Adv i1) (h1 : Rl i t L1 t1) (h2 : RlOk (Rl i1 t1 L2) r) :
    RlOk (Rl i t (L1 ++ L2)) r :=
  h2.mono (fun _ h' => h.trans hb hi h1 h')

theorem RunRelE.nil_right {i : Inp} {t t1 : Tracker} {L1 : List Ev} (h1 : Rl i t L1 t1) :
    Rl i t (L1 ++ []) t1 := by
  rw [List.append_nil]; exact h1

theorem skipLoop_relE (h : RunRelE g uni b Rl) {α} {f : Inp → M → R α} {fE : Inp → M → List Ev}
    (hf : RelFnE b Rl f fE) (ha : AdvFn f) :
    ∀ k acc, RelFnE b Rl (fun i m => skipLoop f k i m acc) (skipLoopEvs f fE k) := by
  intro k
  induction k with
  | zero => intro acc i m _; exact h.refl _ _
  | succ k ih =>
    intro acc i m hb
    simp only [skipLoop, skipLoopEvs]
    have h1 := hf i m hb
    cases hr : f i m with
    | oof => trivial
    | fail m' => rw [hr] at h1; exact RunRelE.nil_right h1
    | ok i' m' a =>
      rw [hr] at h1
      have hi := ha _ _ _ _ _ hr
      exact h.step hb hi h1 (ih _ i' m' (hb.trans hi))

theorem seqLoop_relE (h : RunRelE g uni b Rl) {α β} {f : Node → Inp → M → R α} {fE : Node → Inp → M → List Ev}
    {sk : Inp → M → R (List β)} {skE : Inp → M → List Ev}
    (mk : List β → α → α) (hf : ∀ n, RelFnE b Rl (f n) (fE n)) (haf : ∀ n, AdvFn (f n))
    (hs : RelFnE b Rl sk skE) (has : AdvFn sk) :
    ∀ ns acc, RelFnE b Rl (fun i m => seqLoop f sk mk ns i m acc) (seqLoopEvs f fE sk skE ns) := by
  intro ns
  induction ns with
  | nil => intro acc i m _; exact h.refl _ _
  | cons n ns ih =>
    intro acc i m hb
    simp only [seqLoop, seqLoopEvs]
    have h1 := hs i m hb
    cases hr : sk i m with
    | oof => trivial
    | fail m' => rw [hr] at h1; exact RunRelE.nil_right h1
    | ok i' m' l =>
      rw [hr] at h1
      have hi := has _ _ _ _ _ hr
      have hb1 := hb.trans hi
      simp only []
      have h2 := hf n i' m' hb1
      cases hr2 : f n i' m' with
      | oof => trivial
      | fail m'' => rw [hr2] at h2; exact h.step hb hi h1 (RunRelE.nil_right (t1 := m''.trk) h2)
      | ok i'' m'' a =>
        rw [hr2] at h2
        have hi2 := haf n _ _ _ _ _ hr2
        refine h.step hb hi h1 (h.step (r := seqLoop f sk mk ns i'' m'' (mk l a :: acc)) hb1 hi2 h2 ?_)
        exact ih _ i'' m'' (hb1.trans hi2)

theorem choiceLoop_relE (h : RunRelE g uni b Rl) {α} {f : Node → Inp → M → R α} {fE : Node → Inp → M → List Ev}
    (hf : ∀ n, RelFnE b Rl (f n) (fE n)) :
    ∀ ns k, RelFnE b Rl (fun i m => choiceLoop f ns k i m) (choiceLoopEvs f fE ns) := by
  intro ns
  induction ns with
  | nil => intro k i m _; exact h.refl _ _
  | cons n ns ih =>
    intro k i m hb
    simp only [choiceLoop, choiceLoopEvs]
    have h1 := (hf n i m hb).restore (saved := m.stk)
    cases hr : restoreOnNone m.stk (f n i m) with
    | oof => trivial
    | fail m' =>
      rw [hr] at h1
      exact h.step hb (Inp.Adv.refl i) h1 (ih _ i m' hb)
    | ok i' m' a => rw [hr] at h1; exact RunRelE.nil_right h1

theorem repLoop_relE (h : RunRelE g uni b Rl) {α} {u : Nat → Inp → M → R α} {uE : Nat → Inp → M → List Ev}
    (hu : ∀ idx, RelFnE b Rl (u idx) (uE idx))
    (hau : ∀ idx, AdvFn (u idx)) (min : Nat) (max : Option Nat) :
    ∀ budget idx acc, RelFnE b Rl (fun i m => repLoop u min max budget idx i m acc) (repLoopEvs u uE max budget idx) := by
  intro budget
  induction budget with
  | zero => intro idx acc i m _; trivial
  | succ bd ih =>
    intro idx acc i m hb
    simp only [repLoop, repLoopEvs]
    by_cases hmax : max = some idx
    · simp only [hmax, if_true]
      rcases repDone_cases min (some idx) i m acc with hd | hd <;> rw [hd] <;> exact h.refl _ _
    · simp only [hmax, if_false]
      have h1 := (hu idx i m hb).restore (saved := m.stk)
      cases hr : restoreOnNone m.stk (u idx i m) with
      | oof => trivial
      | fail m' =>
        rw [hr] at h1
        simp only []
        split
        · exact RunRelE.nil_right h1
        · rcases repDone_cases min max i m' acc with hd | hd <;> rw [hd] <;> exact RunRelE.nil_right h1
      | ok i' m' a =>
        rw [hr] at h1
        have hi := hau idx _ _ _ _ _ (restoreOnNone_ok hr)
        exact h.step hb hi h1 (ih _ _ i' m' (hb.trans hi))

theorem arrayLoop_relE (h : RunRelE g uni b Rl) {α} {f : Inp → M → R α} {fE : Inp → M → List Ev}
    (hf : RelFnE b Rl f fE) (ha : AdvFn f) :
    ∀ k acc, RelFnE b Rl (fun i m => arrayLoop f k i m acc) (arrayLoopEvs f fE k) := by
  intro k
  induction k with
  | zero => intro acc i m _; exact h.refl _ _
  | succ k ih =>
    intro acc i m hb
    simp only [arrayLoop, arrayLoopEvs]
    have h1 := hf i m hb
    cases hr : f i m with
    | oof => trivial
    | fail m' => rw [hr] at h1; exact RunRelE.nil_right h1
    | ok i' m' a =>
      rw [hr] at h1
      have hi := ha _ _ _ _ _ hr
      exact h.step hb hi h1 (ih _ i' m' (hb.trans hi))

theorem repUnitP_relE (h : RunRelE g uni b Rl) {sk body : Inp → M → R Val} {skE bodyE : Inp → M → List Ev}
    (hs : RelFnE b Rl sk skE) (has : AdvFn sk)
    (hbd : RelFnE b Rl body bodyE) (dflt : Val) (k idx : Nat) :
    RelFnE b Rl (repUnitP sk body dflt k idx) (repUnitPEvs sk skE bodyE k idx) := by
  intro i m hb
  unfold repUnitP repUnitPEvs
  by_cases h0 : idx = 0
  · simp only [h0, if_true]
    have h1 := hbd i m hb
    cases hr : body i m with
    | oof => trivial
    | fail m' => rw [hr] at h1; exact h1
    | ok i' m' v => rw [hr] at h1; exact h1
  · simp only [h0, if_false]
    have h1 := skipLoop_relE h hs has k [] i m hb
    cases hr : skipLoop sk k i m [] with
    | oof => trivial
    | fail m' => simp only [hr] at h1; exact RunRelE.nil_right h1
    | ok i' m' l =>
      simp only [hr] at h1
      have hi := skipLoop_adv sk has _ _ _ _ _ _ _ hr
      simp only []
      have h2 := hbd i' m' (hb.trans hi)
      cases hr2 : body i' m' with
      | oof => trivial
      | fail m'' => rw [hr2] at h2; exact h.step hb hi h1 h2
      | ok i'' m'' v => rw [hr2] at h2; exact h.step (r := Res.ok i'' m'' v) hb hi h1 h2

/-- The generic principle for `parse`, with the log `evs`. -/
theorem parse_relE (h : RunRelE g uni b Rl) :
    ∀ (n : Nat) (inh : Bool) (node : Node), RelFnE b Rl (parse g uni n inh node) (evs g uni n inh node) := by
  intro n
  induction n with
  | zero => intro inh node i m _; trivial
  | succ n ih =>
    intro inh node i m hb
    have iha := parse_adv g uni n
    have hrefl := h.refl i m.trk
    cases node with
    | str s => simp only [parse, evs]; split <;> exact hrefl
    | insens s => simp only [parse, evs]; split <;> exact hrefl
    | range lo hi => simp only [parse, evs]; split <;> exact hrefl
    | any => simp only [parse, evs]; split <;> exact hrefl
    | soi => simp only [parse, evs]; split <;> exact hrefl
    | eoi => simp only [parse, evs]; split <;> exact hrefl
    | newline => simp only [parse, evs]; split <;> exact hrefl
    | charBy p => simp only [parse, evs]; split <;> exact hrefl
    | skipUntil needles => simp only [parse, evs]; exact hrefl
    | skipChars k => simp only [parse, evs]; split <;> exact hrefl
    | seq sk items =>
      simp only [parse, evs]
      cases items with
      | nil => exact hrefl
      | cons n0 ns =>
        simp only []
        have h1 := ih inh n0 i m hb
        cases hr : parse g uni n inh n0 i m with
        | oof => trivial
        | fail m' => rw [hr] at h1; exact RunRelE.nil_right h1
        | ok i' m' v0 =>
          rw [hr] at h1
          simp only []
          have hi := iha inh n0 _ _ _ _ _ hr
          have hskA : AdvFn (fun i m => skipLoop (parse g uni n false g.skipped) (skipCount sk inh) i m []) :=
            fun i m i' m' a hh => skipLoop_adv _ (iha false g.skipped) _ _ _ _ _ _ _ hh
          have h2 := seqLoop_relE h mkSkipped (ih inh) (iha inh)
            (skipLoop_relE h (ih false g.skipped) (iha false g.skipped) (skipCount sk inh) []) hskA
            ns [] i' m' (hb.trans hi)
          cases hr2 : seqLoop (parse g uni n inh)
              (fun i m => skipLoop (parse g uni n false g.skipped) (skipCount sk inh) i m [])
              mkSkipped ns i' m' [] with
          | oof => trivial
          | fail m'' => simp only [hr2] at h2; exact h.step hb hi h1 h2
          | ok i'' m'' vs =>
            simp only [hr2] at h2
            exact h.step (r := Res.ok i'' m'' vs) hb hi h1 h2
    | choice alts =>
      simp only [parse, evs]
      have h1 := choiceLoop_relE h (ih inh) alts 0 i m hb
      cases hr : choiceLoop (parse g uni n inh) alts 0 i m with
      | oof => trivial
      | fail m' => simp only [hr] at h1; exact h1
      | ok i' m' kv => simp only [hr] at h1; exact h1
    | opt x =>
      simp only [parse, evs]
      have h1 := (ih inh x i m hb).restore (saved := m.stk)
      cases hr : restoreOnNone m.stk (parse g uni n inh x i m) with
      | oof => trivial
      | fail m' => rw [hr] at h1; exact h1
      | ok i' m' v => rw [hr] at h1; exact h1
    | rep sk min max x =>
      simp only [parse, evs]
      have h1 := repLoop_relE h
        (fun idx => repUnitP_relE h (ih false g.skipped) (iha false g.skipped) (ih inh x)
          (defaultSkipVal g) (skipCount sk inh) idx)
        (fun idx => repUnitP_adv _ _ (iha false g.skipped) (iha inh x) _ _ idx)
        min max n 0 [] i m hb
      cases hr : repLoop (repUnitP (parse g uni n false g.skipped) (parse g uni n inh x)
          (defaultSkipVal g) (skipCount sk inh)) min max n 0 i m [] with
      | oof => trivial
      | fail m' => simp only [hr] at h1; exact h1
      | ok i' m' vs => simp only [hr] at h1; exact h1
    | atomicRepeat x =>
      simp only [parse, evs]
      cases repLoop (fun _ i m => parse g uni n inh x i m) 0 none (atomicBudget n) 0 i
          { m with trk := Tracker.new i } [] with
      | oof => trivial
      | fail m' => exact hrefl
      | ok i' m' vs => exact hrefl
    | pos x =>
      simp only [parse, evs]
      have h1 := ih inh x i { m with trk := { m.trk with positive := true } } hb
      cases hr : parse g uni n inh x i { m with trk := { m.trk with positive := true } } with
      | oof => trivial
      | fail m' => rw [hr] at h1; exact h.polar true hb h1
      | ok i' m' v => rw [hr] at h1; exact h.polar true hb h1
    | neg x =>
      simp only [parse, evs]
      have h1 := (ih inh x i { m with trk := { m.trk with positive := false } } hb).forget
      rw [← check_eq_parse_forget] at h1
      cases hr : check g uni n inh x i { m with trk := { m.trk with positive := false } } with
      | oof => trivial
      | fail m' => rw [hr] at h1; exact h.polar false hb h1
      | ok i' m' v => rw [hr] at h1; exact h.polar false hb h1
    | push x =>
      simp only [parse, evs]
      have h1 := ih inh x i m hb
      cases hr : parse g uni n inh x i m with
      | oof => trivial
      | fail m' => rw [hr] at h1; exact h1
      | ok i' m' v => rw [hr] at h1; exact h1
    | peek =>
      simp only [parse, evs]
      split
      · exact h.special _ _ hb
      · split <;> exact hrefl
    | peekAll => simp only [parse, evs]; split <;> exact hrefl
    | pop =>
      simp only [parse, evs]
      split
      · exact h.special _ _ hb
      · split <;> exact hrefl
    | popAll => simp only [parse, evs]; split <;> exact hrefl
    | drop =>
      simp only [parse, evs]
      split
      · exact h.special _ _ hb
      · exact hrefl
    | peekSlice a c =>
      simp only [parse, evs]
      split
      · exact h.special _ _ hb
      · split
        · exact hrefl
        · split <;> exact hrefl
    | ref r f =>
      simp only [parse, evs]
      cases hd : g.rule? r with
      | none => exact hrefl
      | some d =>
        simp only []
        cases he : d.emit with
        | expression =>
          simp only []
          have h1 := ih (f.eval inh) d.body i m hb
          cases hr : parse g uni n (f.eval inh) d.body i m with
          | oof => trivial
          | fail m' => rw [hr] at h1; exact h1
          | ok i' m' v => rw [hr] at h1; exact h1
        | span =>
          simp only []
          have hne : d.emit ≠ .expression := by rw [he]; nofun
          have h1 := (ih (f.eval inh) d.body i { m with trk := m.trk.enter r i.pos } hb).forget
          have hc := check_eq_parse_forget g uni n (f.eval inh) d.body i { m with trk := m.trk.enter r i.pos }
          cases hr : check g uni n (f.eval inh) d.body i { m with trk := m.trk.enter r i.pos } with
          | oof => trivial
          | fail m' =>
            rw [hr] at hc
            rw [← hc] at h1
            exact h.ruleFail hb hd hne hc.symm (by simp only [parse, hd, he, hr]) h1
          | ok i' m' v =>
            rw [hr] at hc
            rw [← hc] at h1
            exact h.ruleOk hb hd hne hc.symm ⟨_, by simp only [parse, hd, he, hr]; rfl⟩ h1
        | both =>
          simp only []
          have hne : d.emit ≠ .expression := by rw [he]; nofun
          have h1 := ih (f.eval inh) d.body i { m with trk := m.trk.enter r i.pos } hb
          cases hr : parse g uni n (f.eval inh) d.body i { m with trk := m.trk.enter r i.pos } with
          | oof => trivial
          | fail m' =>
            rw [hr] at h1
            exact h.ruleFail hb hd hne (by rw [hr]; rfl) (by simp only [parse, hd, he, hr]) h1
          | ok i' m' v =>
            rw [hr] at h1
            exact h.ruleOk hb hd hne (by rw [hr]; rfl) ⟨_, by simp only [parse, hd, he, hr]; rfl⟩ h1
    | array k x =>
      simp only [parse, arrayTryInto_arrayLoop, evs]
      have h1 := arrayLoop_relE h (ih inh x) (iha inh x) k [] i m hb
      cases hr : arrayLoop (parse g uni n inh x) k i m [] with
      | oof => trivial
      | fail m' => simp only [hr] at h1; exact h1
      | ok i' m' vs => simp only [hr] at h1; exact h1
    | pair a c =>
      simp only [parse, evs]
      have h1 := ih inh a i m hb
      cases hr : parse g uni n inh a i m with
      | oof => trivial
      | fail m' => rw [hr] at h1; exact RunRelE.nil_right h1
      | ok i' m' va =>
        rw [hr] at h1
        simp only []
        have hi := iha inh a _ _ _ _ _ hr
        have h2 := ih inh c i' m' (hb.trans hi)
        cases hr2 : parse g uni n inh c i' m' with
        | oof => trivial
        | fail m'' => rw [hr2] at h2; exact h.step hb hi h1 h2
        | ok i'' m'' vb => rw [hr2] at h2; exact h.step (r := Res.ok i'' m'' vb) hb hi h1 h2
    | empty => simp only [parse, evs]; exact hrefl
    | alwaysFail => simp only [parse, evs]; exact hrefl

end genericE

/-! ### instance 1: the rule stack of the tracker; the flag of the top frame -/

/-- `has_children` of the top frame is set (`record_during_with`, first statement). -/
def markIf (b : Bool) : List (RuleId × Nat × Bool) → List (RuleId × Nat × Bool)
  | [] => []
  | (r, p, fl) :: rest => (r, p, fl || b) :: rest

theorem markIf_false (st : List (RuleId × Nat × Bool)) : markIf false st = st := by
  cases st with
  | nil => rfl
  | cons x rest => obtain ⟨r, p, fl⟩ := x; simp [markIf]

theorem markIf_markIf (b1 b2 : Bool) (st : List (RuleId × Nat × Bool)) :
    markIf b2 (markIf b1 st) = markIf (b1 || b2) st := by
  cases st with
  | nil => rfl
  | cons x rest => obtain ⟨r, p, fl⟩ := x; simp [markIf, Bool.or_assoc]

namespace Tracker

theorem special_stack (t : Tracker) (pos : Nat) (s : Special) : (t.special pos s).stack = t.stack := by
  rw [← prepare_stack t pos, special_eq]; split <;> rfl

theorem record_stack (t : Tracker) (rule : RuleId) (pos : Nat) (succeeded : Bool) :
    (t.record rule pos succeeded).stack = t.stack := by
  rw [← prepare_stack t pos, record_eq]
  split
  · split <;> rfl
  · rfl

theorem enter_stack (t : Tracker) (rule : RuleId) (pos : Nat) :
    (t.enter rule pos).stack = (rule, pos, false) :: markIf true t.stack := by
  unfold enter
  cases t.stack with
  | nil => rfl
  | cons x rest => obtain ⟨r, p, fl⟩ := x; simp [markIf]

theorem leave_stack (t : Tracker) (rule : RuleId) (pos : Nat) (succeeded : Bool) :
    (t.leave rule pos succeeded).stack = t.stack.tail := by
  unfold leave
  split
  · next h => rw [h]; rfl
  · next r p hc rest h =>
    dsimp only
    split
    · rw [h]; rfl
    · rw [record_stack, h]; rfl

theorem upper_congr {t t' : Tracker} (h : t'.stack = t.stack) (pos : Nat) : t'.upper pos = t.upper pos := by
  unfold upper; rw [h]

/-- The key `get_entry` selects does not look at the `has_children` flags. -/
theorem upper_markIf {t t' : Tracker} {b : Bool} (h : t'.stack = markIf b t.stack) (pos : Nat) :
    t'.upper pos = t.upper pos := by
  unfold upper; rw [h]
  cases t.stack with
  | nil => rfl
  | cons x rest =>
    obtain ⟨r, p, fl⟩ := x
    simp only [markIf, List.find?]
    cases (p != pos) <;> rfl

end Tracker

def StackRel (_ : Inp) (t : Tracker) (L : List Ev) (t' : Tracker) : Prop :=
  t'.stack = markIf (!L.isEmpty) t.stack

theorem stackRel_runRelE (g : NodeGrammar) (uni : Uni) (b : Inp) : RunRelE g uni b StackRel where
  refl _ t := (markIf_false t.stack).symm
  trans := by
    intro i i1 t t1 t2 L1 L2 _ _ h1 h2
    unfold StackRel at *
    rw [h2, h1, markIf_markIf]
    cases L1 <;> cases L2 <;> rfl
  special t s _ := by
    unfold StackRel
    rw [Tracker.special_stack]; exact (markIf_false t.stack).symm
  polar _ _ h := h
  ruleFail := by
    intro n inh r f d i m m' _ _ _ _ _ h
    unfold StackRel at *
    rw [Tracker.leave_stack, h, Tracker.enter_stack]
    rfl
  ruleOk := by
    intro n inh r f d i i' m m' _ _ _ _ _ h
    unfold StackRel at *
    rw [Tracker.leave_stack, h, Tracker.enter_stack]
    rfl

/-- A run keeps the tracker's rule stack; the `has_children` flag of the top frame is set exactly
when the run made a call of a framed rule. -/
theorem parse_stack (g : NodeGrammar) (uni : Uni) (n : Nat) (inh : Bool) (node : Node) (i : Inp) (m : M) :
    RlOk (fun t => t.stack = markIf (!(evs g uni n inh node i m).isEmpty) m.trk.stack)
      (parse g uni n inh node i m) :=
  parse_relE (stackRel_runRelE g uni i) n inh node i m (Inp.Adv.refl i)

/-! ### truthfulness with the key of the entry -/

namespace Tracker

/-- As `Truthful`, the justification also sees the key (upper rule) of the entry. -/
def TruthfulK (J : Option RuleId → RuleId → Nat → Bool → Bool → Prop) (t : Tracker) : Prop :=
  ∀ k e, (k, e) ∈ t.attempts →
    (∀ r ∈ e.positives, J k r t.position false true) ∧ (∀ r ∈ e.negatives, J k r t.position true false)

variable {J J' : Option RuleId → RuleId → Nat → Bool → Bool → Prop}

theorem TruthfulK.new (i : Inp) : TruthfulK J (Tracker.new i) := by
  intro k e h; cases h

theorem TruthfulK.mono {t : Tracker} (h : TruthfulK J t) (hJ : ∀ k r p s pol, J k r p s pol → J' k r p s pol) :
    TruthfulK J' t :=
  fun k e hm => ⟨fun r hr => hJ _ _ _ _ _ ((h k e hm).1 r hr), fun r hr => hJ _ _ _ _ _ ((h k e hm).2 r hr)⟩

theorem TruthfulK.prepare {t : Tracker} (h : TruthfulK J t) (pos : Nat) : TruthfulK J (t.prepare pos).1 := by
  unfold Tracker.prepare
  split
  · exact h
  · split
    · exact h
    · intro k e hm; cases hm

def EntryOkK (J : Option RuleId → RuleId → Nat → Bool → Bool → Prop) (k : Option RuleId) (p : Nat)
    (e : Tracked) : Prop :=
  (∀ r ∈ e.positives, J k r p false true) ∧ (∀ r ∈ e.negatives, J k r p true false)

theorem EntryOkK.default (k : Option RuleId) (p : Nat) : EntryOkK J k p {} :=
  ⟨fun _ hr => absurd hr List.not_mem_nil, fun _ hr => absurd hr List.not_mem_nil⟩

theorem TruthfulK.modify {t : Tracker} (hp : TruthfulK J t) (f : Tracked → Tracked) (key : Option RuleId)
    (hf : ∀ e0, EntryOkK J key t.position e0 → EntryOkK J key t.position (f e0)) :
    TruthfulK J { t with attempts := modifyEntry f key t.attempts } := by
  intro k e hm
  rcases mem_modifyEntry hm with hm | ⟨hk, e0, h0, he⟩
  · exact hp k e hm
  · rw [he, hk]
    refine hf e0 ?_
    rcases h0 with h0 | h0
    · exact hp _ _ h0
    · rw [h0]; exact EntryOkK.default _ _

theorem TruthfulK.special {t : Tracker} (h : TruthfulK J t) (pos : Nat) (s : Special) :
    TruthfulK J (t.special pos s) := by
  have hp := h.prepare pos
  rw [special_eq]
  split
  · exact hp.modify _ _ (fun e0 h0 => h0)
  · exact hp

/-- `record` keeps the report truthful provided the recorded outcome is justified under the key
`get_entry` selects. -/
theorem TruthfulK.record {t : Tracker} (h : TruthfulK J t) (rule : RuleId) (pos : Nat) (succeeded : Bool)
    (hJ : t.position ≤ pos → J (t.upper pos) rule pos succeeded t.positive) :
    TruthfulK J (t.record rule pos succeeded) := by
  have hp := h.prepare pos
  have hup : (t.prepare pos).1.upper pos = t.upper pos := upper_congr (prepare_stack t pos) pos
  rw [record_eq]
  split
  · next hc =>
    simp only [Bool.and_eq_true, bne_iff_ne, ne_eq] at hc
    obtain ⟨hok, hsp⟩ := hc
    have hle := (prepare_ok t pos).mp hok
    have hpos : (t.prepare pos).1.position = pos := by rw [prepare_position]; omega
    have hj := hJ hle
    rw [prepare_positive] at hsp
    split
    · next hpv =>
      rw [prepare_positive] at hpv
      have hs : succeeded = false := by
        cases succeeded
        · rfl
        · exact absurd hpv.symm hsp
      rw [hpv, hs] at hj
      refine hp.modify _ _ (fun e0 h0 => ⟨?_, h0.2⟩)
      intro r hr
      rcases mem_pushNoDup hr with hr | hr
      · exact h0.1 r hr
      · rw [hr, hpos, hup]; exact hj
    · next hpv =>
      rw [prepare_positive] at hpv
      have hpf : t.positive = false := by
        cases hq : t.positive
        · rfl
        · exact absurd hq hpv
      have hs : succeeded = true := by
        cases succeeded
        · exact absurd hpf.symm hsp
        · rfl
      rw [hpf, hs] at hj
      refine hp.modify _ _ (fun e0 h0 => ⟨h0.1, ?_⟩)
      intro r hr
      rcases mem_pushNoDup hr with hr | hr
      · exact h0.2 r hr
      · rw [hr, hpos, hup]; exact hj
  · exact hp

/-- `leave` records only when the frame it pops has `has_children = false`; the justification is
needed in that case only, under the key computed from the remaining frames. -/
theorem TruthfulK.leave {t : Tracker} (h : TruthfulK J t) (rule : RuleId) (pos : Nat) (succeeded : Bool)
    (hJ : ∀ r0 p0 rest, t.stack = (r0, p0, false) :: rest → t.position ≤ pos →
      J (({ t with stack := rest } : Tracker).upper pos) rule pos succeeded t.positive) :
    TruthfulK J (t.leave rule pos succeeded) := by
  unfold Tracker.leave
  split
  · exact h
  · next r0 p0 hc rest hs =>
    dsimp only
    cases hc with
    | true => exact h
    | false =>
      exact TruthfulK.record (t := { t with stack := rest }) h rule pos succeeded (hJ r0 p0 rest hs)

end Tracker

/-! ### instance 2: the report is truthful with respect to the log -/

/-- The call `ev` made no call of a framed rule on its own tracker: "leaf, no child rule attempt". -/
def LeafEv (g : NodeGrammar) (uni : Uni) (ev : Ev) : Prop :=
  ∃ n' d, ev.n = n' + 1 ∧ g.rule? ev.r = some d ∧ d.emit ≠ .expression ∧
    evs g uni n' (ev.f.eval ev.inh) d.body ev.i { ev.m with trk := ev.m.trk.enter ev.r ev.i.pos } = []

/-- Justification of an attempt `(key k, rule x, position pos, outcome succ, polarity pol)` by the log
`L`: one of the logged calls is a call of `x`, at a cursor reachable from `b` standing at `pos`,
under polarity `pol`, below the upper rule `k`, it is a leaf, and the verdict of that very call
(same fuel, `INHERITED`, cursor, stack, tracker) is `succ`. -/
def EvJ (g : NodeGrammar) (uni : Uni) (b : Inp) (L : List Ev) (k : Option RuleId) (x : RuleId) (pos : Nat)
    (succ pol : Bool) : Prop :=
  ∃ ev ∈ L, ev.r = x ∧ ev.i.pos = pos ∧ b.Adv ev.i ∧ ev.m.trk.positive = pol ∧ ev.m.trk.upper pos = k ∧
    LeafEv g uni ev ∧ Verdict (parse g uni ev.n ev.inh (.ref ev.r ev.f) ev.i ev.m) succ

/-- `E` justifies what the log does not (the end-of-input attempt of the full-parse wrappers). -/
def JE (g : NodeGrammar) (uni : Uni) (b : Inp) (E : Option RuleId → RuleId → Nat → Bool → Bool → Prop)
    (L : List Ev) : Option RuleId → RuleId → Nat → Bool → Bool → Prop :=
  fun k x pos succ pol => EvJ g uni b L k x pos succ pol ∨ E k x pos succ pol

theorem JE.mono {g : NodeGrammar} {uni : Uni} {b : Inp} {E : Option RuleId → RuleId → Nat → Bool → Bool → Prop}
    {L L' : List Ev} (hL : ∀ ev ∈ L, ev ∈ L') :
    ∀ k x pos succ pol, JE g uni b E L k x pos succ pol → JE g uni b E L' k x pos succ pol := by
  intro k x pos succ pol h
  rcases h with ⟨ev, hm, h⟩ | h
  · exact Or.inl ⟨ev, hL ev hm, h⟩
  · exact Or.inr h

def TruthE (g : NodeGrammar) (uni : Uni) (b : Inp) (E : Option RuleId → RuleId → Nat → Bool → Bool → Prop)
    (_ : Inp) (t : Tracker) (L : List Ev) (t' : Tracker) : Prop :=
  ∀ L0, t.TruthfulK (JE g uni b E L0) → t'.TruthfulK (JE g uni b E (L0 ++ L))

theorem truthE_rule {g : NodeGrammar} {uni : Uni} {b : Inp} {E : Option RuleId → RuleId → Nat → Bool → Bool → Prop}
    {n : Nat} {inh : Bool} {r : RuleId} {f : Flag} {d : RuleDef} {i : Inp} {m m' : M} {succ : Bool}
    (res : R Unit) (hb : b.Adv i) (hd : g.rule? r = some d) (he : d.emit ≠ .expression)
    (hbody : (parse g uni n (f.eval inh) d.body i { m with trk := m.trk.enter r i.pos }).forget = res)
    (hres : RlOk (fun t => t = m'.trk) res) (hres' : res ≠ .oof)
    (hv : Verdict (parse g uni (n+1) inh (.ref r f) i m) succ)
    (h : TruthE g uni b E i (m.trk.enter r i.pos)
      (evs g uni n (f.eval inh) d.body i { m with trk := m.trk.enter r i.pos }) m'.trk) :
    TruthE g uni b E i m.trk
      (⟨n+1, inh, r, f, i, m⟩ :: evs g uni n (f.eval inh) d.body i { m with trk := m.trk.enter r i.pos })
      (m'.trk.leave r i.pos succ) := by
  intro L0 ht
  have hpos : m'.trk.positive = m.trk.positive := by
    have := (parse_positive g uni n (f.eval inh) d.body i { m with trk := m.trk.enter r i.pos }).forget
    rw [hbody] at this
    cases res with
    | oof => exact absurd rfl hres'
    | fail m1 => have e : m1.trk = m'.trk := hres; rw [← e]; exact this
    | ok i1 m1 u => have e : m1.trk = m'.trk := hres; rw [← e]; exact this
  have hstk : m'.trk.stack = markIf (!(evs g uni n (f.eval inh) d.body i { m with trk := m.trk.enter r i.pos }).isEmpty)
      ((r, i.pos, false) :: markIf true m.trk.stack) := by
    have := (parse_stack g uni n (f.eval inh) d.body i { m with trk := m.trk.enter r i.pos }).forget
    rw [hbody] at this
    rw [← Tracker.enter_stack]
    cases res with
    | oof => exact absurd rfl hres'
    | fail m1 => have e : m1.trk = m'.trk := hres; rw [← e]; exact this
    | ok i1 m1 u => have e : m1.trk = m'.trk := hres; rw [← e]; exact this
  have h1 := (h L0 ht).mono (JE.mono (L' := L0 ++ ⟨n+1, inh, r, f, i, m⟩ ::
      evs g uni n (f.eval inh) d.body i { m with trk := m.trk.enter r i.pos }) (by
    intro ev hm
    rcases List.mem_append.mp hm with hm | hm
    · exact List.mem_append_left _ hm
    · exact List.mem_append_right _ (List.mem_cons_of_mem _ hm)))
  refine Tracker.TruthfulK.leave h1 r i.pos succ ?_
  intro r0 p0 rest hs _
  rw [hstk] at hs
  simp only [markIf, List.cons.injEq, Prod.mk.injEq, Bool.false_or, Bool.not_eq_eq_eq_not, Bool.not_false,
    List.isEmpty_iff] at hs
  obtain ⟨⟨_, _, hL⟩, hrest⟩ := hs
  refine Or.inl ⟨⟨n+1, inh, r, f, i, m⟩, List.mem_append_right _ List.mem_cons_self, rfl, rfl, hb, hpos.symm,
    ?_, ⟨n, d, rfl, hd, he, hL⟩, hv⟩
  exact (Tracker.upper_markIf (t := m.trk) (t' := { m'.trk with stack := rest }) (b := true) hrest.symm i.pos).symm

theorem truthE_runRelE (g : NodeGrammar) (uni : Uni) (b : Inp)
    (E : Option RuleId → RuleId → Nat → Bool → Bool → Prop) : RunRelE g uni b (TruthE g uni b E) where
  refl _ _ L0 h := by rw [List.append_nil]; exact h
  trans _ _ h1 h2 L0 h := by rw [← List.append_assoc]; exact h2 _ (h1 L0 h)
  special t s _ L0 h := by rw [List.append_nil]; exact h.special _ s
  polar _ _ h1 L0 h := h1 L0 h
  ruleFail := by
    intro n inh r f d i m m' hb hd he hbody hrun h
    exact truthE_rule (.fail m') hb hd he hbody rfl (by nofun) (by rw [hrun]; rfl) h
  ruleOk := by
    intro n inh r f d i i' m m' hb hd he hbody hrun h
    obtain ⟨v, hrun⟩ := hrun
    exact truthE_rule (.ok i' m' ()) hb hd he hbody rfl (by nofun) (by rw [hrun]; rfl) h

/-- Any node, any state: if the report was truthful with respect to a log `L0` before the run, it is
truthful with respect to `L0` followed by the calls of the run after it. -/
theorem parse_truthE (g : NodeGrammar) (uni : Uni) (b : Inp) (E : Option RuleId → RuleId → Nat → Bool → Bool → Prop)
    (n : Nat) (inh : Bool) (node : Node) (i : Inp) (m : M) (hb : b.Adv i) (L0 : List Ev)
    (ht : m.trk.TruthfulK (JE g uni b E L0)) :
    RlOk (fun t => t.TruthfulK (JE g uni b E (L0 ++ evs g uni n inh node i m))) (parse g uni n inh node i m) :=
  (parse_relE (truthE_runRelE g uni b E) n inh node i m hb).mono (fun _ h => h L0 ht)

/-! ### the full-parse wrapper -/

/-- The calls made by `tryParse g uni n r i`: those of the prefix parse, then those of the trailing
skip (when `impl_parse!` selected the variant with a trailing skip and the prefix parse succeeded). -/
def tryParseEvs (g : NodeGrammar) (uni : Uni) (n : Nat) (r : RuleId) (i : Inp) : List Ev :=
  match g.rule? r with
  | none => []
  | some d =>
    evs g uni n true (.ref r .one) i (M.init i) ++
      match parse g uni n true (.ref r .one) i (M.init i) with
      | .ok i' m _ => if noTrailingSkip r d then [] else evs g uni n false g.skipped i' m
      | _ => []

/-- The cursor at which `tryParse g uni n r i` makes its end-of-input attempt (`eoiStep`), if it
gets that far. -/
def eoiAt (g : NodeGrammar) (uni : Uni) (n : Nat) (r : RuleId) (i : Inp) : Option Inp :=
  match g.rule? r with
  | none => none
  | some d =>
    match parse g uni n true (.ref r .one) i (M.init i) with
    | .ok i' m _ =>
      if noTrailingSkip r d then some i'
      else
        match parse g uni n false g.skipped i' m with
        | .ok i'' _ _ => some i''
        | _ => none
    | _ => none

/-- Justification of an `EOI` attempt by the end-of-input test of the wrapper, made under the key
`none` (no rule frame is open then) and positive polarity. -/
def EoiJ (g : NodeGrammar) (uni : Uni) (n : Nat) (r : RuleId) (i : Inp) :
    Option RuleId → RuleId → Nat → Bool → Bool → Prop :=
  fun _ x pos succ _ => x = 0 ∧ ∃ j, eoiAt g uni n r i = some j ∧ i.Adv j ∧ j.pos = pos ∧ j.atEnd = succ

theorem truthfulK_eoi {J : Option RuleId → RuleId → Nat → Bool → Bool → Prop} {t : Tracker} (h : t.TruthfulK J)
    (j : Inp) (hJ : ∀ k pol, J k 0 j.pos j.atEnd pol) :
    ((t.enter 0 j.pos).leave 0 j.pos j.atEnd).TruthfulK J :=
  Tracker.TruthfulK.leave (t := t.enter 0 j.pos) h 0 j.pos j.atEnd (fun _ _ _ _ _ => hJ _ _)

theorem tryParse_truthE (g : NodeGrammar) (uni : Uni) (n : Nat) (r : RuleId) (i : Inp) :
    RlOk (fun t => t.TruthfulK (JE g uni i (EoiJ g uni n r i) (tryParseEvs g uni n r i))) (tryParse g uni n r i) := by
  unfold tryParse tryParseEvs
  cases hd : g.rule? r with
  | none => exact Tracker.TruthfulK.new i
  | some d =>
    simp only []
    have hb := Inp.Adv.refl i
    have h1 := parse_truthE g uni i (EoiJ g uni n r i) n true (.ref r .one) i (M.init i) hb []
      (Tracker.TruthfulK.new i)
    rw [List.nil_append] at h1
    cases hr : parse g uni n true (.ref r .one) i (M.init i) with
    | oof => trivial
    | fail m' => rw [hr] at h1; simp only [List.append_nil]; exact h1
    | ok i' m' v =>
      rw [hr] at h1
      have hi := parse_adv g uni n _ _ _ _ _ _ _ hr
      simp only [eoiStep]
      by_cases hts : noTrailingSkip r d = true
      · simp only [hts, if_true, List.append_nil]
        have h2 : ((m'.trk.enter 0 i'.pos).leave 0 i'.pos i'.atEnd).TruthfulK
            (JE g uni i (EoiJ g uni n r i) (evs g uni n true (.ref r .one) i (M.init i))) := by
          refine truthfulK_eoi h1 i' (fun _ _ => Or.inr ⟨rfl, i', ?_, hi, rfl, rfl⟩)
          simp only [eoiAt, hd, hr, hts, if_true]
        exact RlOk.ite h2 h2
      · have hts' : noTrailingSkip r d = false := by simpa using hts
        simp only [hts', Bool.false_eq_true, if_false]
        have h2 := parse_truthE g uni i (EoiJ g uni n r i) n false g.skipped i' m' hi _ h1
        cases hr2 : parse g uni n false g.skipped i' m' with
        | oof => trivial
        | fail m'' => rw [hr2] at h2; exact h2
        | ok i'' m'' sv =>
          rw [hr2] at h2
          have hi2 := parse_adv g uni n _ _ _ _ _ _ _ hr2
          have h3 : ((m''.trk.enter 0 i''.pos).leave 0 i''.pos i''.atEnd).TruthfulK
              (JE g uni i (EoiJ g uni n r i)
                (evs g uni n true (.ref r .one) i (M.init i) ++ evs g uni n false g.skipped i' m')) := by
            refine truthfulK_eoi h2 i'' (fun _ _ => Or.inr ⟨rfl, i'', ?_, hi.trans hi2, rfl, rfl⟩)
            simp only [eoiAt, hd, hr, hts', Bool.false_eq_true, if_false, hr2]
          exact RlOk.ite h3 h3

end PestTyped
