/-
Lemmas.ValEqLemmas — helper lemmas for Props/C18 about `Model/ValEq.lean`:

* text of a span is determined by its offsets once it is a piece of one input (`Sp.In.txt_eq`);
* `Inp.Window b0 i`: `i` is a cursor over a sub-range of `b0`'s text (the &str / Position / Span
  input forms of one input object and every later cursor); spans of `i` are spans of `b0`;
* `tagEq` / `valEqOn`: reflexive, symmetric, monotone in `same`, invariant under `norm`,
  and (for pieces of one input) `valEqOn true a c = true ↔ a.norm = c.norm`;
* `hashFeed` is a function of what `valEqOn` compares; `Val.clone` is the identity;
  `debugTree` does not see what `norm` erases;
* a decidable structural equality on `Val` (for `decide` examples); `tryParse_ok_parse`;
* typing of values: `Ty`, `Val.TypedT g v ty` ("`v` is a value of the Rust type `ty` denotes", a
  Prop-valued structural recursion on `v`), `parse_typed` (every result of `parse … node` has the
  type `node`), and `debugTree_inj`: on the values of one type `{:?}` is injective up to `==`.
-/
import PestTyped.Model.ValEq
import PestTyped.Lemmas.Spans
import PestTyped.Lemmas.Choice
import Std.Data.String.ToNat
namespace PestTyped

/-! ### texts of spans of one input -/

/-- Two character prefixes of one text with the same byte length are the same prefix
(`Char.utf8Size ≥ 1`). -/
theorem append_inj_of_blen : ∀ (p1 p2 r1 r2 : List Char), p1 ++ r1 = p2 ++ r2 → blen p1 = blen p2 →
    p1 = p2 ∧ r1 = r2 := by
  intro p1
  induction p1 with
  | nil =>
    intro p2 r1 r2 h hb
    cases p2 with
    | nil => exact ⟨rfl, by simpa using h⟩
    | cons c cs => have := Char.utf8Size_pos c; simp only [blen] at hb; omega
  | cons c cs ih =>
    intro p2 r1 r2 h hb
    cases p2 with
    | nil => have := Char.utf8Size_pos c; simp only [blen] at hb; omega
    | cons d ds =>
      simp only [List.cons_append, List.cons.injEq] at h
      obtain ⟨hcd, ht⟩ := h
      subst hcd
      simp only [blen] at hb
      obtain ⟨h1, h2⟩ := ih ds r1 r2 ht (by omega)
      exact ⟨by rw [h1], h2⟩

/-- Two spans that are pieces of one input and have the same offsets have the same text. -/
theorem Sp.In.txt_eq {b : Inp} {sp1 sp2 : Sp} (h1 : sp1.In b) (h2 : sp2.In b)
    (hs : sp1.s = sp2.s) (he : sp1.e = sp2.e) : sp1.txt = sp2.txt := by
  obtain ⟨p1, q1, hr1, hs1, he1⟩ := h1
  obtain ⟨p2, q2, hr2, hs2, he2⟩ := h2
  rw [hr1, List.append_assoc, List.append_assoc] at hr2
  obtain ⟨_, ht⟩ := append_inj_of_blen p1 p2 _ _ hr2 (by omega)
  exact (append_inj_of_blen _ _ _ _ ht (by omega)).1

theorem Sp.In.eq_of_offsets {b : Inp} {sp1 sp2 : Sp} (h1 : sp1.In b) (h2 : sp2.In b)
    (hs : sp1.s = sp2.s) (he : sp1.e = sp2.e) : sp1 = sp2 := by
  have ht := h1.txt_eq h2 hs he
  cases sp1; cases sp2; simp only [Sp.mk.injEq]; exact ⟨hs, he, ht⟩

/-! ### sub-ranges of one input object -/

/-- `i` is a cursor over a sub-range of the text of `b0`: its remaining text is a piece of `b0`'s
and its offset is the offset of that piece.  Covers `&str` (`i = b0`), `Position` (a suffix),
`Span` (a middle piece) inputs built from one input object, and every later cursor of a run. -/
def Inp.Window (b0 i : Inp) : Prop :=
  ∃ p q, b0.rest = p ++ i.rest ++ q ∧ i.pos = b0.pos + blen p

theorem Inp.Window.refl (b : Inp) : b.Window b := ⟨[], [], by simp, by simp [blen]⟩

theorem Inp.Window.trans {a b c : Inp} (h1 : a.Window b) (h2 : b.Window c) : a.Window c := by
  obtain ⟨p, q, hr, hp⟩ := h1
  obtain ⟨p', q', hr', hp'⟩ := h2
  refine ⟨p ++ p', q' ++ q, ?_, ?_⟩
  · rw [hr, hr']; simp [List.append_assoc]
  · rw [hp', hp, blen_append]; omega

theorem Inp.Adv.window {i i' : Inp} (h : i.Adv i') : i.Window i' := by
  obtain ⟨p, s, hr, hrest, hpos⟩ := h.boundary
  exact ⟨p, [], by rw [hr, hrest]; simp, hpos⟩

theorem Sp.In.window {b0 i : Inp} {sp : Sp} (hw : b0.Window i) (h : sp.In i) : sp.In b0 := by
  obtain ⟨p, q, hr, hp⟩ := hw
  obtain ⟨p', q', hr', hs, he⟩ := h
  refine ⟨p ++ p', q' ++ q, ?_, ?_, he⟩
  · rw [hr, hr']; simp [List.append_assoc]
  · rw [hs, hp, blen_append]; omega

theorem StkIn.window {b0 i : Inp} {stk : List Sp} (hw : b0.Window i) (h : StkIn i stk) : StkIn b0 stk :=
  fun sp hsp => (h sp hsp).window hw

theorem Tag.SpansIn.window {b0 i : Inp} {t : Tag} (hw : b0.Window i) (h : t.SpansIn i) : t.SpansIn b0 := by
  cases t <;> first
    | exact trivial
    | exact Sp.In.window hw h
    | (obtain ⟨x, hx⟩ := h; exact ⟨x, Sp.In.window hw hx⟩)

mutual
theorem Val.SpansIn.window {b0 i : Inp} (hw : b0.Window i) : ∀ (v : Val), v.SpansIn i → v.SpansIn b0
  | .mk _ kids, h => .mk (h.tag.window hw) (Val.SpansIn.windowList hw kids h.kids)
theorem Val.SpansIn.windowList {b0 i : Inp} (hw : b0.Window i) :
    ∀ (l : List Val), (∀ v ∈ l, v.SpansIn i) → ∀ v ∈ l, v.SpansIn b0
  | [], _ => fun _ hv => by cases hv
  | a :: as, h => fun v hv => by
    rcases List.mem_cons.mp hv with hv | hv
    · rw [hv]; exact Val.SpansIn.window hw a (h a List.mem_cons_self)
    · exact Val.SpansIn.windowList hw as (fun x hx => h x (List.mem_cons_of_mem _ hx)) v hv
end

/-! ### `spEq`, `tagEq` -/

theorem spEq_true_iff (a b : Sp) : spEq true a b = true ↔ a.s = b.s ∧ a.e = b.e := by
  simp [spEq]

theorem spEq_mono (same : Bool) (a b : Sp) (h : spEq same a b = true) : spEq true a b = true := by
  cases same <;> simp_all [spEq]

theorem spEq_symm (same : Bool) (a b : Sp) : spEq same a b = spEq same b a := by
  simp only [spEq]
  rw [Bool.beq_comm (a := a.s), Bool.beq_comm (a := a.e)]

theorem ruleSpanEq_symm (same : Bool) (em : Emission) (s e s' e' : Nat) :
    ruleSpanEq same em s e s' e' = ruleSpanEq same em s' e' s e := by
  cases em <;> simp only [ruleSpanEq] <;> rw [Bool.beq_comm (a := s), Bool.beq_comm (a := e)]

theorem tagEq_refl (t : Tag) : tagEq true t t = true := by
  cases t <;> simp [tagEq, spEq]
  case rule r em bx s e => cases em <;> simp [ruleSpanEq]

theorem tagEq_symm (same : Bool) (a b : Tag) : tagEq same a b = tagEq same b a := by
  cases a <;> cases b <;> first
    | rfl
    | (simp only [tagEq]; done)
    | (simp only [tagEq]; exact spEq_symm _ _ _)
    | (simp only [tagEq]; rw [Bool.beq_comm]; done)
    | (simp only [tagEq]; congr 1 <;> rw [Bool.beq_comm]; done)
    | skip
  case rule.rule r em bx s e r' em' bx' s' e' =>
    simp only [tagEq]
    by_cases hem : em = em'
    · subst hem
      rw [ruleSpanEq_symm, Bool.beq_comm (a := r), Bool.beq_comm (a := bx)]
    · have h1 : (em == em') = false := by simpa using hem
      have h2 : (em' == em) = false := by simpa using Ne.symm hem
      simp [h1, h2]

theorem tagEq_mono (same : Bool) (a b : Tag) (h : tagEq same a b = true) : tagEq true a b = true := by
  cases same
  · unfold tagEq at h ⊢
    split at h <;> try (simp_all [spEq, ruleSpanEq]; done)
    next r em bx s e r' em' bx' s' e' =>
      simp only [Bool.and_eq_true, beq_iff_eq] at h
      obtain ⟨⟨⟨h1, h2⟩, h3⟩, h4⟩ := h
      subst h1 h2 h3
      cases em <;> simp_all [ruleSpanEq]
  · exact h

/-- `tagEq` does not look at what `Tag.norm` erases. -/
theorem tagEq_norm_left (same : Bool) (t t' : Tag) : tagEq same t.norm t' = tagEq same t t' := by
  cases t <;> try rfl
  case rule r em bx s e =>
    cases em <;> try rfl
    cases t' <;> try rfl

theorem tagEq_norm_right (same : Bool) (t t' : Tag) : tagEq same t t'.norm = tagEq same t t' := by
  rw [tagEq_symm, tagEq_norm_left, tagEq_symm]

theorem Tag.norm_norm (t : Tag) : t.norm.norm = t.norm := by
  cases t <;> try rfl
  case rule r em bx s e => cases em <;> rfl

/-- For tags whose spans are pieces of one input, `tagEq` is equality up to `norm`. -/
theorem tagEq_norm_eq (b : Inp) (t t' : Tag) (ht : t.SpansIn b) (ht' : t'.SpansIn b)
    (h : tagEq true t t' = true) : t.norm = t'.norm := by
  unfold tagEq at h
  split at h <;> try rfl
  all_goals try (cases h; done)
  all_goals try (simp only [beq_iff_eq] at h; subst h; rfl)
  all_goals try (
    rw [spEq_true_iff] at h
    have := Sp.In.eq_of_offsets ht ht' h.1 h.2
    subst this; rfl)
  all_goals try (
    simp only [Bool.and_eq_true, beq_iff_eq] at h
    obtain ⟨h1, h2⟩ := h; subst h1 h2; rfl)
  next r em bx s e r' em' bx' s' e' =>
    simp only [Bool.and_eq_true, beq_iff_eq] at h
    obtain ⟨⟨⟨h1, h2⟩, h3⟩, h4⟩ := h
    subst h1 h2 h3
    cases em
    · simp only [ruleSpanEq, Bool.true_and, Bool.and_eq_true, beq_iff_eq] at h4
      obtain ⟨a, c⟩ := h4; subst a c; rfl
    · rfl
    · simp only [ruleSpanEq, Bool.true_and, Bool.and_eq_true, beq_iff_eq] at h4
      obtain ⟨a, c⟩ := h4; subst a c; rfl

/-! ### `valEqOn` -/

theorem valEqListOn_length (same : Bool) : ∀ (as cs : List Val), valEqListOn same as cs = true →
    as.length = cs.length
  | [], [], _ => rfl
  | a :: as, c :: cs, h => by
    simp only [valEqListOn, Bool.and_eq_true] at h
    simp [valEqListOn_length same as cs h.2]
  | [], _ :: _, h => by simp [valEqListOn] at h
  | _ :: _, [], h => by simp [valEqListOn] at h

mutual
theorem valEqOn_refl : ∀ (v : Val), valEqOn true v v = true
  | .mk t kids => by simp only [valEqOn, tagEq_refl, valEqListOn_refl kids, Bool.and_self]
theorem valEqListOn_refl : ∀ (l : List Val), valEqListOn true l l = true
  | [] => rfl
  | v :: vs => by simp only [valEqListOn, valEqOn_refl v, valEqListOn_refl vs, Bool.and_self]
end

mutual
theorem valEqOn_symm (same : Bool) : ∀ (a c : Val), valEqOn same a c = valEqOn same c a
  | .mk t kids, .mk t' kids' => by
    simp only [valEqOn]; rw [tagEq_symm, valEqListOn_symm same kids kids']
theorem valEqListOn_symm (same : Bool) : ∀ (as cs : List Val), valEqListOn same as cs = valEqListOn same cs as
  | [], [] => rfl
  | a :: as, c :: cs => by
    simp only [valEqListOn]; rw [valEqOn_symm same a c, valEqListOn_symm same as cs]
  | [], _ :: _ => rfl
  | _ :: _, [] => rfl
end

mutual
theorem valEqOn_mono (same : Bool) : ∀ (a c : Val), valEqOn same a c = true → valEqOn true a c = true
  | .mk t kids, .mk t' kids', h => by
    simp only [valEqOn, Bool.and_eq_true] at h ⊢
    exact ⟨tagEq_mono same t t' h.1, valEqListOn_mono same kids kids' h.2⟩
theorem valEqListOn_mono (same : Bool) : ∀ (as cs : List Val), valEqListOn same as cs = true →
    valEqListOn true as cs = true
  | [], [], _ => rfl
  | a :: as, c :: cs, h => by
    simp only [valEqListOn, Bool.and_eq_true] at h ⊢
    exact ⟨valEqOn_mono same a c h.1, valEqListOn_mono same as cs h.2⟩
  | [], _ :: _, h => by simp [valEqListOn] at h
  | _ :: _, [], h => by simp [valEqListOn] at h
end

mutual
theorem valEqOn_norm_left (same : Bool) : ∀ (a c : Val), valEqOn same a.norm c = valEqOn same a c
  | .mk t kids, .mk t' kids' => by
    simp only [Val.norm, valEqOn]; rw [tagEq_norm_left, valEqListOn_norm_left same kids kids']
theorem valEqListOn_norm_left (same : Bool) : ∀ (as cs : List Val),
    valEqListOn same (Val.normList as) cs = valEqListOn same as cs
  | [], [] => rfl
  | a :: as, c :: cs => by
    simp only [Val.normList, valEqListOn]; rw [valEqOn_norm_left same a c, valEqListOn_norm_left same as cs]
  | [], _ :: _ => rfl
  | _ :: _, [] => rfl
end

theorem valEqOn_norm_right (same : Bool) (a c : Val) : valEqOn same a c.norm = valEqOn same a c := by
  rw [valEqOn_symm, valEqOn_norm_left, valEqOn_symm]

/-- Structurally identical values compare equal (no hypothesis on spans). -/
theorem valEqOn_of_norm_eq (a c : Val) (h : a.norm = c.norm) : valEqOn true a c = true := by
  rw [← valEqOn_norm_left, h, valEqOn_norm_left]; exact valEqOn_refl c

mutual
/-- Values built from pieces of one input that compare equal are structurally identical. -/
theorem valEqOn_norm_eq (b : Inp) : ∀ (a c : Val), a.SpansIn b → c.SpansIn b → valEqOn true a c = true →
    a.norm = c.norm
  | .mk t kids, .mk t' kids', ha, hc, h => by
    simp only [valEqOn, Bool.and_eq_true] at h
    simp only [Val.norm]
    rw [tagEq_norm_eq b t t' ha.tag hc.tag h.1, valEqListOn_norm_eq b kids kids' ha.kids hc.kids h.2]
theorem valEqListOn_norm_eq (b : Inp) : ∀ (as cs : List Val), (∀ v ∈ as, v.SpansIn b) → (∀ v ∈ cs, v.SpansIn b) →
    valEqListOn true as cs = true → Val.normList as = Val.normList cs
  | [], [], _, _, _ => rfl
  | a :: as, c :: cs, ha, hc, h => by
    simp only [valEqListOn, Bool.and_eq_true] at h
    simp only [Val.normList]
    rw [valEqOn_norm_eq b a c (ha a List.mem_cons_self) (hc c List.mem_cons_self) h.1,
      valEqListOn_norm_eq b as cs (fun x hx => ha x (List.mem_cons_of_mem _ hx))
        (fun x hx => hc x (List.mem_cons_of_mem _ hx)) h.2]
  | [], _ :: _, _, _, h => by simp [valEqListOn] at h
  | _ :: _, [], _, _, h => by simp [valEqListOn] at h
end

theorem valEqOn_iff_norm (b : Inp) (a c : Val) (ha : a.SpansIn b) (hc : c.SpansIn b) :
    valEqOn true a c = true ↔ a.norm = c.norm :=
  ⟨valEqOn_norm_eq b a c ha hc, valEqOn_of_norm_eq a c⟩

/-! ### `Hash` -/

theorem spEq_offsets (same : Bool) (a b : Sp) (h : spEq same a b = true) : a.s = b.s ∧ a.e = b.e :=
  (spEq_true_iff a b).mp (spEq_mono same a b h)

set_option linter.unusedSimpArgs false in
mutual
/-- `k1 == k2 ⇒ hash(k1) == hash(k2)`: equal values feed the hasher the same writes. -/
theorem hashFeed_of_valEqOn (same : Bool) : ∀ (a c : Val), valEqOn same a c = true → hashFeed a = hashFeed c
  | .mk t kids, .mk t' kids', h => by
    simp only [valEqOn, Bool.and_eq_true] at h
    obtain ⟨ht, hk⟩ := h
    have ih := hashFeedList_of_valEqListOn same kids kids' hk
    have hl := valEqListOn_length same kids kids' hk
    unfold tagEq at ht
    split at ht
    all_goals try (cases ht; done)
    all_goals try (simp only [hashFeed, ih, hl]; done)
    all_goals try (simp only [beq_iff_eq] at ht; subst ht; simp only [hashFeed, ih, hl]; done)
    all_goals try (
      obtain ⟨h1, h2⟩ := spEq_offsets same _ _ ht
      simp only [hashFeed, h1, h2]; done)
    all_goals try (
      simp only [Bool.and_eq_true, beq_iff_eq] at ht
      obtain ⟨h1, h2⟩ := ht; subst h1 h2; simp only [hashFeed, ih]; done)
    next r em bx s e r' em' bx' s' e' =>
      simp only [Bool.and_eq_true, beq_iff_eq] at ht
      obtain ⟨⟨⟨h1, h2⟩, h3⟩, h4⟩ := ht
      subst h1 h2 h3
      cases em
      · simp only [ruleSpanEq, Bool.and_eq_true, beq_iff_eq] at h4
        obtain ⟨⟨_, a⟩, c⟩ := h4; subst a c; rfl
      · simp only [hashFeed, ih]
      · simp only [ruleSpanEq, Bool.and_eq_true, beq_iff_eq] at h4
        obtain ⟨⟨_, a⟩, c⟩ := h4; subst a c; simp only [hashFeed, ih]
theorem hashFeedList_of_valEqListOn (same : Bool) : ∀ (as cs : List Val), valEqListOn same as cs = true →
    hashFeedList as = hashFeedList cs
  | [], [], _ => rfl
  | a :: as, c :: cs, h => by
    simp only [valEqListOn, Bool.and_eq_true] at h
    simp only [hashFeedList]
    rw [hashFeed_of_valEqOn same a c h.1, hashFeedList_of_valEqListOn same as cs h.2]
  | [], _ :: _, h => by simp [valEqListOn] at h
  | _ :: _, [], h => by simp [valEqListOn] at h
end

/-! ### `Clone` -/

mutual
theorem Val.clone_eq : ∀ (v : Val), v.clone = v
  | .mk t kids => by simp only [Val.clone, Val.cloneList_eq kids]
theorem Val.cloneList_eq : ∀ (l : List Val), Val.cloneList l = l
  | [] => rfl
  | v :: vs => by simp only [Val.cloneList, Val.clone_eq v, Val.cloneList_eq vs]
end


/-! ### `Debug` -/

theorem Val.normList_length : ∀ (l : List Val), (Val.normList l).length = l.length
  | [] => rfl
  | _ :: vs => by simp only [Val.normList, List.length_cons, Val.normList_length vs]

set_option linter.unusedSimpArgs false in
mutual
/-- `{:?}` does not see what `norm` erases. -/
theorem debugTree_norm (name : RuleId → String) (slice : Nat → Nat → List Char) :
    ∀ (v : Val), debugTree name slice v.norm = debugTree name slice v
  | .mk t kids => by
    have ih := debugTreeList_norm name slice kids
    have hl := Val.normList_length kids
    cases t
    all_goals try (simp only [Val.norm, Tag.norm, debugTree, ih, hl]; done)
    case rep mn mx => cases mx <;> simp only [Val.norm, Tag.norm, debugTree, ih]
    case rule r em bx s e => cases em <;> simp only [Val.norm, Tag.norm, debugTree, ih]
theorem debugTreeList_norm (name : RuleId → String) (slice : Nat → Nat → List Char) :
    ∀ (l : List Val), debugTreeList name slice (Val.normList l) = debugTreeList name slice l
  | [] => rfl
  | v :: vs => by
    simp only [Val.normList, debugTreeList, debugTree_norm name slice v, debugTreeList_norm name slice vs]
end

/-! ### decidable structural equality on `Val` (for `decide` examples) -/

mutual
def Val.beq : Val → Val → Bool
  | .mk t kids, .mk t' kids' => decide (t = t') && Val.beqList kids kids'
def Val.beqList : List Val → List Val → Bool
  | [], [] => true
  | a :: as, c :: cs => Val.beq a c && Val.beqList as cs
  | [], _ :: _ => false
  | _ :: _, [] => false
end

mutual
theorem Val.beq_iff : ∀ (a c : Val), Val.beq a c = true ↔ a = c
  | .mk t kids, .mk t' kids' => by
    simp only [Val.beq, Bool.and_eq_true, decide_eq_true_eq, Val.mk.injEq, Val.beqList_iff kids kids']
theorem Val.beqList_iff : ∀ (as cs : List Val), Val.beqList as cs = true ↔ as = cs
  | [], [] => by simp [Val.beqList]
  | a :: as, c :: cs => by
    simp only [Val.beqList, Bool.and_eq_true, List.cons.injEq, Val.beq_iff a c, Val.beqList_iff as cs]
  | [], _ :: _ => by simp [Val.beqList]
  | _ :: _, [] => by simp [Val.beqList]
end

instance Val.decEqC18 : DecidableEq Val := fun a c => decidable_of_iff _ (Val.beq_iff a c)

/-! ### entry points -/

theorem tryParse_ok_parse {g : NodeGrammar} {uni : Uni} {n : Nat} {r : RuleId} {i i' : Inp} {m' : M} {v : Val}
    (h : tryParse g uni n r i = .ok i' m' v) :
    ∃ i1 m1, parse g uni n true (.ref r .one) i (M.init i) = .ok i1 m1 v := by
  unfold tryParse at h
  split at h
  · cases h
  · split at h
    · cases h
    · cases h
    · next i1 m1 v1 hp =>
      refine ⟨i1, m1, ?_⟩
      split at h
      · generalize eoiStep i1 m1 = p at h
        obtain ⟨mm, ok⟩ := p
        cases ok
        · cases h
        · injection h with _ _ hv; rw [hp, hv]
      · split at h
        · cases h
        · cases h
        · next i2 m2 v2 _ =>
          generalize eoiStep i2 m2 = p at h
          obtain ⟨mm, ok⟩ := p
          cases ok
          · cases h
          · injection h with _ _ hv; rw [hp, hv]

/-! ### typing of values (for the converse of `C18_debug_of_eq`) -/

/-- A type expression of the runtime: a node (with the value of `INHERITED`); the
`Skipped<T, Skip, SKIP>` wrapper around one, either with parsed skip items (`sk`) or at a position
where the runtime fills in `Skip::default()` (`skd`: the first element of a sequence, the first
iteration of a repetition); `dflt` is the singleton type of that default value. -/
inductive Ty where
  | plain (inh : Bool) (node : Node)
  | sk (inh : Bool) (k : Nat) (node : Node)
  | skd (inh : Bool) (k : Nat) (node : Node)
  | dflt

/-- Types of the fields of `SeqN`. -/
def seqTys (inh : Bool) (k : Nat) : List Node → List Ty
  | [] => []
  | n0 :: ns => .skd inh k n0 :: ns.map (Ty.sk inh k)

/-- Types of the elements of a `RepeatMin*` vector of the given length. -/
def repTys (inh : Bool) (k : Nat) (n : Node) : Nat → List Ty
  | 0 => []
  | m+1 => .skd inh k n :: List.replicate m (.sk inh k n)

mutual
/-- `v` is a value of the Rust type the type expression denotes. -/
def Val.TypedT (g : NodeGrammar) : Val → Ty → Prop
  | .mk t kids, .sk inh k n =>
    t = .skipped k ∧ Val.TypedL g kids (List.replicate k (.plain false g.skipped) ++ [.plain inh n])
  | .mk t kids, .skd inh k n =>
    t = .skipped k ∧ Val.TypedL g kids (List.replicate k .dflt ++ [.plain inh n])
  | .mk t kids, .dflt => Val.mk t kids = defaultSkipVal g
  | .mk t kids, .plain inh node =>
    match node with
    | .str _ => t = .str ∧ kids = []
    | .insens _ => (∃ s, t = .insens s) ∧ kids = []
    | .range _ _ => (∃ c, t = .charRange c) ∧ kids = []
    | .any => (∃ c, t = .any c) ∧ kids = []
    | .soi => t = .soi ∧ kids = []
    | .eoi => t = .eoi ∧ kids = []
    | .newline => (∃ k, k ≤ 2 ∧ t = .newline k) ∧ kids = []
    | .charBy p => (∃ c, t = .uni p c) ∧ kids = []
    | .skipUntil _ => (∃ sp, t = .skipUntil sp) ∧ kids = []
    | .skipChars _ => (∃ sp, t = .skipChars sp) ∧ kids = []
    | .seq f items => t = .seq ∧ Val.TypedL g kids (seqTys inh (skipCount f inh) items)
    | .choice alts => ∃ k n, t = .choice alts.length k ∧ alts[k]? = some n ∧ Val.TypedL g kids [.plain inh n]
    | .opt n => (t = .optNone ∧ kids = []) ∨ (t = .optSome ∧ Val.TypedL g kids [.plain inh n])
    | .rep f mn mx n => t = .rep mn mx ∧ Val.TypedL g kids (repTys inh (skipCount f inh) n kids.length)
    | .atomicRepeat n => t = .atomicRepeat ∧ Val.TypedL g kids (List.replicate kids.length (.plain inh n))
    | .pos n => t = .pos ∧ Val.TypedL g kids [.plain inh n]
    | .neg _ => t = .neg ∧ kids = []
    | .push n => t = .push ∧ Val.TypedL g kids [.plain inh n]
    | .peek => (∃ sp, t = .peek sp) ∧ kids = []
    | .peekAll => (∃ sp, t = .peekAll sp) ∧ kids = []
    | .pop => (∃ sp, t = .pop sp) ∧ kids = []
    | .popAll => (∃ sp, t = .popAll sp) ∧ kids = []
    | .drop => t = .drop ∧ kids = []
    | .peekSlice _ _ => t = .peekSlice ∧ kids = []
    | .ref r f => ∃ d, g.rule? r = some d ∧ (∃ s e, t = .rule r d.emit d.boxed s e) ∧
        ((d.emit = .span ∧ kids = []) ∨ (d.emit ≠ .span ∧ Val.TypedL g kids [.plain (f.eval inh) d.body]))
    | .array k n => t = .array ∧ Val.TypedL g kids (List.replicate k (.plain inh n))
    | .pair a b => t = .pair ∧ Val.TypedL g kids [.plain inh a, .plain inh b]
    | .empty => t = .empty ∧ kids = []
    | .alwaysFail => False
def Val.TypedL (g : NodeGrammar) : List Val → List Ty → Prop
  | [], [] => True
  | v :: vs, ty :: tys => Val.TypedT g v ty ∧ Val.TypedL g vs tys
  | [], _ :: _ => False
  | _ :: _, [] => False
end


/-- Pointwise relation of two lists of the same length. -/
inductive Zip2 {α β} (R : α → β → Prop) : List α → List β → Prop
  | nil : Zip2 R [] []
  | cons {a b as bs} : R a b → Zip2 R as bs → Zip2 R (a :: as) (b :: bs)

/-! helper lemmas on `TypedL` -/

theorem Val.TypedL.length {g : NodeGrammar} : ∀ {l : List Val} {tys : List Ty}, Val.TypedL g l tys → l.length = tys.length
  | [], [], _ => rfl
  | _ :: vs, _ :: tys, h => by
    simp only [Val.TypedL] at h
    simp [Val.TypedL.length h.2]
  | [], _ :: _, h => by simp [Val.TypedL] at h
  | _ :: _, [], h => by simp [Val.TypedL] at h

theorem Val.TypedL_replicate {g : NodeGrammar} {T : Ty} : ∀ {l : List Val} {n : Nat},
    Val.TypedL g l (List.replicate n T) ↔ l.length = n ∧ ∀ v ∈ l, Val.TypedT g v T
  | [], 0 => by simp [Val.TypedL]
  | [], n+1 => by simp [Val.TypedL, List.replicate_succ]
  | v :: vs, 0 => by simp [Val.TypedL]
  | v :: vs, n+1 => by
    simp only [List.replicate_succ, Val.TypedL, Val.TypedL_replicate (l := vs) (n := n), List.length_cons,
      List.mem_cons, forall_eq_or_imp, Nat.add_right_cancel_iff]
    constructor
    · rintro ⟨a, b, c⟩; exact ⟨b, a, c⟩
    · rintro ⟨a, b, c⟩; exact ⟨b, a, c⟩

theorem Val.TypedL_append {g : NodeGrammar} : ∀ {l1 l2 : List Val} {t1 t2 : List Ty},
    Val.TypedL g l1 t1 → Val.TypedL g l2 t2 → Val.TypedL g (l1 ++ l2) (t1 ++ t2)
  | [], _, [], _, _, h2 => by simpa using h2
  | v :: vs, _, t :: ts, _, h1, h2 => by
    simp only [Val.TypedL] at h1
    simp only [List.cons_append, Val.TypedL]
    exact ⟨h1.1, Val.TypedL_append h1.2 h2⟩
  | [], _, _ :: _, _, h1, _ => by simp [Val.TypedL] at h1
  | _ :: _, _, [], _, h1, _ => by simp [Val.TypedL] at h1

theorem Val.TypedL_singleton {g : NodeGrammar} {v : Val} {T : Ty} : Val.TypedL g [v] [T] ↔ Val.TypedT g v T := by
  simp [Val.TypedL]

theorem Val.TypedL_map {g : NodeGrammar} {f : Node → Ty} : ∀ {ns : List Node} {l : List Val},
    Zip2 (fun n v => Val.TypedT g v (f n)) ns l → Val.TypedL g l (ns.map f)
  | [], [], _ => by simp [Val.TypedL]
  | n :: ns, v :: vs, h => by
    cases h with
    | cons h1 h2 => simp only [List.map_cons, Val.TypedL]; exact ⟨h1, Val.TypedL_map h2⟩
  | [], _ :: _, h => by cases h
  | _ :: _, [], h => by cases h

theorem Val.TypedT_mkSkipped {g : NodeGrammar} {sk : List Val} {a : Val} {inh : Bool} {k : Nat} {n : Node}
    (hk : sk.length = k) (hsk : ∀ s ∈ sk, Val.TypedT g s (.plain false g.skipped))
    (ha : Val.TypedT g a (.plain inh n)) : Val.TypedT g (mkSkipped sk a) (.sk inh k n) := by
  simp only [mkSkipped, Val.TypedT, hk, true_and]
  exact Val.TypedL_append (Val.TypedL_replicate.mpr ⟨hk, hsk⟩) (Val.TypedL_singleton.mpr ha)

theorem Val.TypedT_mkSkipped_dflt {g : NodeGrammar} {a : Val} {inh : Bool} {k : Nat} {n : Node}
    (ha : Val.TypedT g a (.plain inh n)) :
    Val.TypedT g (mkSkipped (List.replicate k (defaultSkipVal g)) a) (.skd inh k n) := by
  simp only [mkSkipped, Val.TypedT, List.length_replicate, true_and]
  refine Val.TypedL_append (Val.TypedL_replicate.mpr ⟨by simp, ?_⟩) (Val.TypedL_singleton.mpr ha)
  intro s hs
  rw [(List.mem_replicate.mp hs).2]
  cases hd : defaultSkipVal g with
  | mk t kids => simp only [Val.TypedT]; exact hd.symm

theorem Val.TypedL_repTys {g : NodeGrammar} {inh : Bool} {k : Nat} {n : Node} {l : List Val}
    (h : ∀ (j : Nat) (a : Val), l[j]? = some a →
      Val.TypedT g a (if j = 0 then .skd inh k n else .sk inh k n)) :
    Val.TypedL g l (repTys inh k n l.length) := by
  cases l with
  | nil => simp [repTys, Val.TypedL]
  | cons a rest =>
    simp only [List.length_cons, repTys, Val.TypedL]
    refine ⟨by simpa using h 0 a rfl, Val.TypedL_replicate.mpr ⟨rfl, ?_⟩⟩
    intro v hv
    obtain ⟨j, hj⟩ := List.getElem?_of_mem hv
    simpa using h (j+1) v (by simpa using hj)

/-! the typing invariant of `parse` -/

def TyOk {α} (P : α → Prop) : R α → Prop
  | .ok _ _ a => P a
  | _ => True

def TyFn {α} (P : α → Prop) (f : Inp → M → R α) : Prop := ∀ i m, TyOk P (f i m)

theorem TyOk.restore {α} {P : α → Prop} {r : R α} {saved : List Sp} (h : TyOk P r) : TyOk P (restoreOnNone saved r) := by
  cases r <;> first | trivial | exact h

theorem skipLoop_typed {α} {P : α → Prop} {f : Inp → M → R α} (hf : TyFn P f) :
    ∀ k i m acc, TyOk (fun l => ∃ l', l = acc.reverse ++ l' ∧ l'.length = k ∧ ∀ a ∈ l', P a) (skipLoop f k i m acc) := by
  intro k
  induction k with
  | zero => intro i m acc; exact ⟨[], by simp, rfl, fun _ h => by cases h⟩
  | succ k ih =>
    intro i m acc
    simp only [skipLoop]
    have h1 := hf i m
    cases hr : f i m with
    | oof => trivial
    | fail m' => trivial
    | ok i' m' a =>
      rw [hr] at h1
      simp only []
      have h2 := ih i' m' (a :: acc)
      cases hr2 : skipLoop f k i' m' (a :: acc) with
      | oof => trivial
      | fail m'' => trivial
      | ok i'' m'' l =>
        rw [hr2] at h2
        obtain ⟨l', rfl, hl, hp⟩ := h2
        refine ⟨a :: l', by simp, by simp [hl], ?_⟩
        intro x hx
        rcases List.mem_cons.mp hx with rfl | hx
        · exact h1
        · exact hp x hx

theorem arrayLoop_typed {α} {P : α → Prop} {f : Inp → M → R α} (hf : TyFn P f) :
    ∀ k i m acc, TyOk (fun l => ∃ l', l = acc.reverse ++ l' ∧ l'.length = k ∧ ∀ a ∈ l', P a) (arrayLoop f k i m acc) := by
  intro k
  induction k with
  | zero => intro i m acc; exact ⟨[], by simp, rfl, fun _ h => by cases h⟩
  | succ k ih =>
    intro i m acc
    simp only [arrayLoop]
    have h1 := hf i m
    cases hr : f i m with
    | oof => trivial
    | fail m' => trivial
    | ok i' m' a =>
      rw [hr] at h1
      simp only []
      have h2 := ih i' m' (a :: acc)
      cases hr2 : arrayLoop f k i' m' (a :: acc) with
      | oof => trivial
      | fail m'' => trivial
      | ok i'' m'' l =>
        rw [hr2] at h2
        obtain ⟨l', rfl, hl, hp⟩ := h2
        refine ⟨a :: l', by simp, by simp [hl], ?_⟩
        intro x hx
        rcases List.mem_cons.mp hx with rfl | hx
        · exact h1
        · exact hp x hx

theorem seqLoop_typed {α β} {P P' : Node → α → Prop} {Q : List β → Prop}
    {f : Node → Inp → M → R α} {sk : Inp → M → R (List β)} {mk : List β → α → α}
    (hf : ∀ n, TyFn (P n) (f n)) (hs : TyFn Q sk) (hmk : ∀ n l a, Q l → P n a → P' n (mk l a)) :
    ∀ ns i m acc, TyOk (fun l => ∃ l', l = acc.reverse ++ l' ∧ Zip2 P' ns l') (seqLoop f sk mk ns i m acc) := by
  intro ns
  induction ns with
  | nil => intro i m acc; exact ⟨[], by simp, .nil⟩
  | cons n ns ih =>
    intro i m acc
    simp only [seqLoop]
    have h1 := hs i m
    cases hr : sk i m with
    | oof => trivial
    | fail m' => trivial
    | ok i' m' l =>
      rw [hr] at h1
      simp only []
      have h2 := hf n i' m'
      cases hr2 : f n i' m' with
      | oof => trivial
      | fail m'' => trivial
      | ok i'' m'' a =>
        rw [hr2] at h2
        simp only []
        have h3 := ih i'' m'' (mk l a :: acc)
        cases hr3 : seqLoop f sk mk ns i'' m'' (mk l a :: acc) with
        | oof => trivial
        | fail m3 => trivial
        | ok i3 m3 l3 =>
          rw [hr3] at h3
          obtain ⟨l', rfl, hl⟩ := h3
          exact ⟨mk l a :: l', by simp, .cons (hmk n l a h1 h2) hl⟩

theorem choiceLoop_typed {α} {P : Node → α → Prop} {f : Node → Inp → M → R α} (hf : ∀ n, TyFn (P n) (f n)) :
    ∀ ns k0 i m, TyOk (fun p => ∃ n, k0 ≤ p.1 ∧ ns[p.1 - k0]? = some n ∧ P n p.2) (choiceLoop f ns k0 i m) := by
  intro ns
  induction ns with
  | nil => intro k0 i m; trivial
  | cons n ns ih =>
    intro k0 i m
    simp only [choiceLoop]
    have h1 := (hf n i m).restore (saved := m.stk)
    cases hr : restoreOnNone m.stk (f n i m) with
    | oof => trivial
    | ok i' m' a => rw [hr] at h1; exact ⟨n, Nat.le_refl _, by simp, h1⟩
    | fail m' =>
      simp only []
      have h2 := ih (k0+1) i m'
      cases hr2 : choiceLoop f ns (k0+1) i m' with
      | oof => trivial
      | fail m'' => trivial
      | ok i'' m'' p =>
        rw [hr2] at h2
        obtain ⟨n', hle, hget, hp⟩ := h2
        refine ⟨n', by omega, ?_, hp⟩
        have : p.1 - k0 = (p.1 - (k0+1)) + 1 := by omega
        rw [this, List.getElem?_cons_succ]; exact hget

theorem repLoop_typed {α} {P : Nat → α → Prop} {u : Nat → Inp → M → R α} (hu : ∀ idx, TyFn (P idx) (u idx))
    (min : Nat) (max : Option Nat) :
    ∀ budget idx i m acc, acc.length = idx → (∀ (j : Nat) (a : α), acc.reverse[j]? = some a → P j a) →
      TyOk (fun l => ∀ (j : Nat) (a : α), l[j]? = some a → P j a) (repLoop u min max budget idx i m acc) := by
  intro budget
  induction budget with
  | zero => intros; trivial
  | succ bd ih =>
    intro idx i m acc hlen hacc
    simp only [repLoop]
    by_cases hmax : max = some idx
    · simp only [hmax, if_true]
      rcases repDone_cases min (some idx) i m acc with hd | hd <;> rw [hd]
      · trivial
      · exact hacc
    · simp only [hmax, if_false]
      have h1 := (hu idx i m).restore (saved := m.stk)
      cases hr : restoreOnNone m.stk (u idx i m) with
      | oof => trivial
      | fail m' =>
        simp only []
        split
        · trivial
        · rcases repDone_cases min max i m' acc with hd | hd <;> rw [hd]
          · trivial
          · exact hacc
      | ok i' m' a =>
        rw [hr] at h1
        refine ih _ _ _ _ (by simp [hlen]) ?_
        intro j x hx
        simp only [List.reverse_cons] at hx
        by_cases hj : j < acc.reverse.length
        · rw [List.getElem?_append_left hj] at hx; exact hacc j x hx
        · have hj' : acc.reverse.length ≤ j := by omega
          rw [List.getElem?_append_right hj'] at hx
          have hj2 : j - acc.reverse.length = 0 := by
            cases hq : j - acc.reverse.length with
            | zero => rfl
            | succ q => rw [hq] at hx; simp at hx
          rw [hj2] at hx
          simp only [List.getElem?_cons_zero, Option.some.injEq] at hx
          have : j = idx := by simp only [List.length_reverse] at hj2 hj'; omega
          subst this; subst hx; exact h1

theorem repUnitP_typed {g : NodeGrammar} {sk body : Inp → M → R Val} {inh : Bool} {x : Node}
    (hs : TyFn (fun v => Val.TypedT g v (.plain false g.skipped)) sk)
    (hbd : TyFn (fun v => Val.TypedT g v (.plain inh x)) body)
    (k idx : Nat) :
    TyFn (fun v => Val.TypedT g v (if idx = 0 then .skd inh k x else .sk inh k x))
      (repUnitP sk body (defaultSkipVal g) k idx) := by
  intro i m
  unfold repUnitP
  by_cases h0 : idx = 0
  · simp only [h0, if_true]
    have h1 := hbd i m
    cases hr : body i m with
    | oof => trivial
    | fail m' => trivial
    | ok i' m' v =>
      rw [hr] at h1
      exact Val.TypedT_mkSkipped_dflt h1
  · simp only [h0, if_false]
    have h1 := skipLoop_typed hs k i m []
    cases hr : skipLoop sk k i m [] with
    | oof => trivial
    | fail m' => trivial
    | ok i' m' l =>
      rw [hr] at h1
      obtain ⟨l', hl, hlen, hp⟩ := h1
      simp only [List.reverse_nil, List.nil_append] at hl
      subst hl
      simp only []
      have h2 := hbd i' m'
      cases hr2 : body i' m' with
      | oof => trivial
      | fail m'' => trivial
      | ok i'' m'' v =>
        rw [hr2] at h2
        exact Val.TypedT_mkSkipped hlen hp h2


/-- Every result of `parse … node` is a value of the type expression `node`. -/
theorem parse_typed (g : NodeGrammar) (uni : Uni) :
    ∀ (n : Nat) (inh : Bool) (node : Node),
      TyFn (fun v => Val.TypedT g v (.plain inh node)) (parse g uni n inh node) := by
  intro n
  induction n with
  | zero => intro inh node i m; trivial
  | succ n ih =>
    intro inh node i m
    cases node with
    | str s => simp only [parse]; split <;> simp [TyOk, Val.TypedT, Val.leaf]
    | insens s => simp only [parse]; split <;> simp [TyOk, Val.TypedT, Val.leaf]
    | range lo hi => simp only [parse]; split <;> simp [TyOk, Val.TypedT, Val.leaf]
    | any => simp only [parse]; split <;> simp [TyOk, Val.TypedT, Val.leaf]
    | soi => simp only [parse]; split <;> simp [TyOk, Val.TypedT, Val.leaf]
    | eoi => simp only [parse]; split <;> simp [TyOk, Val.TypedT, Val.leaf]
    | newline =>
      simp only [parse]; split
      · next i' k h1 =>
        have := (newlineMatch_spec h1).1
        simp only [TyOk, Val.TypedT, Val.leaf, and_true]
        exact ⟨k, by omega, rfl⟩
      · trivial
    | charBy p => simp only [parse]; split <;> simp [TyOk, Val.TypedT, Val.leaf]
    | skipUntil needles => simp [parse, TyOk, Val.TypedT, Val.leaf]
    | skipChars k => simp only [parse]; split <;> simp [TyOk, Val.TypedT, Val.leaf]
    | seq sk items =>
      simp only [parse]
      cases items with
      | nil => simp [TyOk, Val.TypedT, Val.TypedL, seqTys]
      | cons n0 ns =>
        simp only []
        have h1 := ih inh n0 i m
        cases hr : parse g uni n inh n0 i m with
        | oof => trivial
        | fail m' => trivial
        | ok i' m' v0 =>
          rw [hr] at h1
          simp only []
          have hskS : TyFn (fun l => l.length = skipCount sk inh ∧ ∀ x ∈ l, Val.TypedT g x (.plain false g.skipped))
              (fun i m => skipLoop (parse g uni n false g.skipped) (skipCount sk inh) i m []) := by
            intro i m
            have := skipLoop_typed (ih false g.skipped) (skipCount sk inh) i m []
            show TyOk _ (skipLoop (parse g uni n false g.skipped) (skipCount sk inh) i m [])
            cases hr : skipLoop (parse g uni n false g.skipped) (skipCount sk inh) i m [] with
            | oof => trivial
            | fail m' => trivial
            | ok i' m' l =>
              rw [hr] at this
              obtain ⟨l', hl, hlen, hp⟩ := this
              simp only [List.reverse_nil, List.nil_append] at hl
              subst hl
              exact ⟨hlen, hp⟩
          have h2 := seqLoop_typed (mk := mkSkipped) (P := fun n v => Val.TypedT g v (.plain inh n))
            (P' := fun n v => Val.TypedT g v (.sk inh (skipCount sk inh) n)) (ih inh) hskS
            (fun n l a hl ha => Val.TypedT_mkSkipped hl.1 hl.2 ha) ns i' m' []
          cases hr2 : seqLoop (parse g uni n inh)
              (fun i m => skipLoop (parse g uni n false g.skipped) (skipCount sk inh) i m [])
              mkSkipped ns i' m' [] with
          | oof => trivial
          | fail m'' => trivial
          | ok i'' m'' vs =>
            rw [hr2] at h2
            obtain ⟨l', hl, hz⟩ := h2
            simp only [List.reverse_nil, List.nil_append] at hl
            subst hl
            simp only [TyOk, Val.TypedT, true_and, seqTys, Val.TypedL]
            exact ⟨Val.TypedT_mkSkipped_dflt h1, Val.TypedL_map hz⟩
    | choice alts =>
      simp only [parse]
      have h1 := choiceLoop_typed (P := fun n v => Val.TypedT g v (.plain inh n)) (ih inh) alts 0 i m
      cases hr : choiceLoop (parse g uni n inh) alts 0 i m with
      | oof => trivial
      | fail m' => trivial
      | ok i' m' kv =>
        rw [hr] at h1
        obtain ⟨k, v⟩ := kv
        obtain ⟨n', _, hget, hp⟩ := h1
        simp only [TyOk, Val.TypedT]
        exact ⟨k, n', rfl, by simpa using hget, Val.TypedL_singleton.mpr hp⟩
    | opt x =>
      simp only [parse]
      have h1 := (ih inh x i m).restore (saved := m.stk)
      cases hr : restoreOnNone m.stk (parse g uni n inh x i m) with
      | oof => trivial
      | fail m' => simp [TyOk, Val.TypedT, Val.leaf]
      | ok i' m' v =>
        rw [hr] at h1
        simp only [TyOk, Val.TypedT]
        exact Or.inr ⟨trivial, Val.TypedL_singleton.mpr h1⟩
    | rep sk min max x =>
      simp only [parse]
      have h1 := repLoop_typed
        (P := fun idx v => Val.TypedT g v (if idx = 0 then .skd inh (skipCount sk inh) x else .sk inh (skipCount sk inh) x))
        (fun idx => repUnitP_typed (ih false g.skipped) (ih inh x) (skipCount sk inh) idx)
        min max n 0 i m [] rfl (fun _ _ h => by simp at h)
      cases hr : repLoop (repUnitP (parse g uni n false g.skipped) (parse g uni n inh x)
          (defaultSkipVal g) (skipCount sk inh)) min max n 0 i m [] with
      | oof => trivial
      | fail m' => trivial
      | ok i' m' vs =>
        rw [hr] at h1
        simp only [TyOk, Val.TypedT, true_and]
        exact Val.TypedL_repTys h1
    | atomicRepeat x =>
      simp only [parse]
      have h1 := repLoop_typed (u := fun _ i m => parse g uni n inh x i m)
        (P := fun _ v => Val.TypedT g v (.plain inh x))
        (fun _ => ih inh x) 0 none (atomicBudget n) 0 i
        { m with trk := Tracker.new i } [] rfl (fun _ _ h => by simp at h)
      cases hr : repLoop (fun _ i m => parse g uni n inh x i m) 0 none (atomicBudget n) 0 i
          { m with trk := Tracker.new i } [] with
      | oof => trivial
      | fail m' => trivial
      | ok i' m' vs =>
        rw [hr] at h1
        simp only [TyOk, Val.TypedT, true_and]
        refine Val.TypedL_replicate.mpr ⟨rfl, ?_⟩
        intro v hv
        obtain ⟨j, hj⟩ := List.getElem?_of_mem hv
        exact h1 j v hj
    | pos x =>
      simp only [parse]
      have h1 := ih inh x i { m with trk := { m.trk with positive := true } }
      cases hr : parse g uni n inh x i { m with trk := { m.trk with positive := true } } with
      | oof => trivial
      | fail m' => trivial
      | ok i' m' v =>
        rw [hr] at h1
        simp only [TyOk, Val.TypedT, true_and]
        exact Val.TypedL_singleton.mpr h1
    | neg x =>
      simp only [parse]
      cases hr : check g uni n inh x i { m with trk := { m.trk with positive := false } } with
      | oof => trivial
      | fail m' => simp [TyOk, Val.TypedT, Val.leaf]
      | ok i' m' v => trivial
    | push x =>
      simp only [parse]
      have h1 := ih inh x i m
      cases hr : parse g uni n inh x i m with
      | oof => trivial
      | fail m' => trivial
      | ok i' m' v =>
        rw [hr] at h1
        simp only [TyOk, Val.TypedT, true_and]
        exact Val.TypedL_singleton.mpr h1
    | peek =>
      simp only [parse]
      split
      · trivial
      · split <;> simp [TyOk, Val.TypedT, Val.leaf]
    | peekAll => simp only [parse]; split <;> simp [TyOk, Val.TypedT, Val.leaf]
    | pop =>
      simp only [parse]
      split
      · trivial
      · split <;> simp [TyOk, Val.TypedT, Val.leaf]
    | popAll => simp only [parse]; split <;> simp [TyOk, Val.TypedT, Val.leaf]
    | drop => simp only [parse]; split <;> simp [TyOk, Val.TypedT, Val.leaf]
    | peekSlice a c =>
      simp only [parse]
      split
      · trivial
      · split
        · simp [TyOk, Val.TypedT, Val.leaf]
        · split <;> simp [TyOk, Val.TypedT, Val.leaf]
    | ref r f =>
      simp only [parse]
      cases hg : g.rule? r with
      | none => trivial
      | some d =>
        simp only []
        cases hem : d.emit with
        | expression =>
          simp only []
          have h1 := ih (f.eval inh) d.body i m
          cases hr : parse g uni n (f.eval inh) d.body i m with
          | oof => trivial
          | fail m' => trivial
          | ok i' m' v =>
            rw [hr] at h1
            simp only [TyOk, Val.TypedT]
            have hne : d.emit ≠ Emission.span := by rw [hem]; intro h; cases h
            exact ⟨d, hg, ⟨_, _, by rw [hem]⟩, Or.inr ⟨hne, Val.TypedL_singleton.mpr h1⟩⟩
        | span =>
          simp only []
          cases hr : check g uni n (f.eval inh) d.body i { m with trk := m.trk.enter r i.pos } with
          | oof => trivial
          | fail m' => trivial
          | ok i' m' v =>
            simp only [TyOk, Val.TypedT]
            exact ⟨d, hg, ⟨_, _, by rw [hem]⟩, Or.inl ⟨hem, trivial⟩⟩
        | both =>
          simp only []
          have h1 := ih (f.eval inh) d.body i { m with trk := m.trk.enter r i.pos }
          cases hr : parse g uni n (f.eval inh) d.body i { m with trk := m.trk.enter r i.pos } with
          | oof => trivial
          | fail m' => trivial
          | ok i' m' v =>
            rw [hr] at h1
            simp only [TyOk, Val.TypedT]
            have hne : d.emit ≠ Emission.span := by rw [hem]; intro h; cases h
            exact ⟨d, hg, ⟨_, _, by rw [hem]⟩, Or.inr ⟨hne, Val.TypedL_singleton.mpr h1⟩⟩
    | array k x =>
      simp only [parse, arrayTryInto_arrayLoop]
      have h1 := arrayLoop_typed (ih inh x) k i m []
      cases hr : arrayLoop (parse g uni n inh x) k i m [] with
      | oof => trivial
      | fail m' => trivial
      | ok i' m' vs =>
        rw [hr] at h1
        obtain ⟨l', hl, hlen, hp⟩ := h1
        simp only [List.reverse_nil, List.nil_append] at hl
        subst hl
        simp only [TyOk, Val.TypedT, true_and]
        exact Val.TypedL_replicate.mpr ⟨hlen, hp⟩
    | pair a c =>
      simp only [parse]
      have h1 := ih inh a i m
      cases hr : parse g uni n inh a i m with
      | oof => trivial
      | fail m' => trivial
      | ok i' m' va =>
        rw [hr] at h1
        simp only []
        have h2 := ih inh c i' m'
        cases hr2 : parse g uni n inh c i' m' with
        | oof => trivial
        | fail m'' => trivial
        | ok i'' m'' vb =>
          rw [hr2] at h2
          simp only [TyOk, Val.TypedT, Val.TypedL, true_and, and_true]
          exact ⟨h1, h2⟩
    | empty => simp [parse, TyOk, Val.TypedT, Val.leaf]
    | alwaysFail => simp only [parse]; trivial


/-! `{:?}` is injective on the values of one type -/

theorem debugTreeList_length (name : RuleId → String) (slice : Nat → Nat → List Char) :
    ∀ (l : List Val), (debugTreeList name slice l).length = l.length
  | [] => rfl
  | _ :: vs => by simp only [debugTreeList, List.length_cons, debugTreeList_length name slice vs]

theorem newlineName_inj {k k' : Nat} (hk : k ≤ 2) (hk' : k' ≤ 2) (h : newlineName k = newlineName k') : k = k' := by
  obtain rfl | rfl | rfl : k = 0 ∨ k = 1 ∨ k = 2 := by omega
  all_goals (
    obtain rfl | rfl | rfl : k' = 0 ∨ k' = 1 ∨ k' = 2 := by omega
    all_goals first | rfl | (simp [newlineName] at h))

theorem skippedDbg_inj {k : Nat} {ds ds' : List Dbg} (h1 : ds.length = k + 1) (h2 : ds'.length = k + 1)
    (h : skippedDbg k ds = skippedDbg k ds') : ds = ds' := by
  cases k with
  | zero =>
    match ds, ds', h1, h2 with
    | [d], [d'], _, _ => simp only [skippedDbg] at h; rw [h]
  | succ k =>
    simp only [skippedDbg, Dbg.struct.injEq, List.cons.injEq, Dbg.list.injEq, true_and] at h
    rw [← List.take_append_drop (k+1) ds, ← List.take_append_drop (k+1) ds', h.1, h.2]

theorem choiceField_inj {a b : Nat} (h : "_" ++ toString a = "_" ++ toString b) : a = b := by
  rw [String.append_right_inj] at h
  exact Nat.repr_inj.mp h

theorem Val.TypedL_one_inv {g : NodeGrammar} {l : List Val} {T : Ty} (h : Val.TypedL g l [T]) :
    ∃ v, l = [v] ∧ Val.TypedT g v T := by
  match l, h with
  | [v], h => exact ⟨v, rfl, Val.TypedL_singleton.mp h⟩
  | [], h => simp [Val.TypedL] at h
  | _ :: _ :: _, h => simp [Val.TypedL] at h

mutual
theorem debugTree_inj (g : NodeGrammar) (name : RuleId → String) (slice : Nat → Nat → List Char) :
    ∀ (a c : Val) (ty : Ty), Val.TypedT g a ty → Val.TypedT g c ty →
      debugTree name slice a = debugTree name slice c → valEqOn true a c = true
  | .mk t kids, .mk t' kids', .sk inh k n, ha, hc, h => by
    simp only [Val.TypedT] at ha hc
    obtain ⟨rfl, ha⟩ := ha
    obtain ⟨rfl, hc⟩ := hc
    simp only [debugTree] at h
    have hl := ha.length
    have hl' := hc.length
    simp only [List.length_append, List.length_replicate, List.length_cons, List.length_nil] at hl hl'
    have hd := skippedDbg_inj (by rw [debugTreeList_length]; omega) (by rw [debugTreeList_length]; omega) h
    have := debugTreeList_inj g name slice kids kids' _ ha hc hd
    simp only [valEqOn, tagEq, this, beq_self_eq_true, Bool.and_self]
  | .mk t kids, .mk t' kids', .skd inh k n, ha, hc, h => by
    simp only [Val.TypedT] at ha hc
    obtain ⟨rfl, ha⟩ := ha
    obtain ⟨rfl, hc⟩ := hc
    simp only [debugTree] at h
    have hl := ha.length
    have hl' := hc.length
    simp only [List.length_append, List.length_replicate, List.length_cons, List.length_nil] at hl hl'
    have hd := skippedDbg_inj (by rw [debugTreeList_length]; omega) (by rw [debugTreeList_length]; omega) h
    have := debugTreeList_inj g name slice kids kids' _ ha hc hd
    simp only [valEqOn, tagEq, this, beq_self_eq_true, Bool.and_self]
  | .mk t kids, .mk t' kids', .dflt, ha, hc, _ => by
    simp only [Val.TypedT] at ha hc
    rw [ha, hc]; exact valEqOn_refl _
  | .mk t kids, .mk t' kids', .plain inh node, ha, hc, h => by
    have key : ∀ tys, Val.TypedL g kids tys → Val.TypedL g kids' tys →
        debugTreeList name slice kids = debugTreeList name slice kids' → valEqListOn true kids kids' = true :=
      fun tys a b c => debugTreeList_inj g name slice kids kids' tys a b c
    cases node with
    | str s =>
      simp only [Val.TypedT] at ha hc
      obtain ⟨rfl, rfl⟩ := ha; obtain ⟨rfl, rfl⟩ := hc; rfl
    | soi =>
      simp only [Val.TypedT] at ha hc
      obtain ⟨rfl, rfl⟩ := ha; obtain ⟨rfl, rfl⟩ := hc; rfl
    | eoi =>
      simp only [Val.TypedT] at ha hc
      obtain ⟨rfl, rfl⟩ := ha; obtain ⟨rfl, rfl⟩ := hc; rfl
    | neg x =>
      simp only [Val.TypedT] at ha hc
      obtain ⟨rfl, rfl⟩ := ha; obtain ⟨rfl, rfl⟩ := hc; rfl
    | drop =>
      simp only [Val.TypedT] at ha hc
      obtain ⟨rfl, rfl⟩ := ha; obtain ⟨rfl, rfl⟩ := hc; rfl
    | peekSlice x y =>
      simp only [Val.TypedT] at ha hc
      obtain ⟨rfl, rfl⟩ := ha; obtain ⟨rfl, rfl⟩ := hc; rfl
    | empty =>
      simp only [Val.TypedT] at ha hc
      obtain ⟨rfl, rfl⟩ := ha; obtain ⟨rfl, rfl⟩ := hc; rfl
    | alwaysFail => simp only [Val.TypedT] at ha
    | insens s =>
      simp only [Val.TypedT] at ha hc
      obtain ⟨⟨x, rfl⟩, rfl⟩ := ha; obtain ⟨⟨y, rfl⟩, rfl⟩ := hc
      simp [debugTree] at h
      simp [valEqOn, tagEq, valEqListOn, h]
    | range lo hi =>
      simp only [Val.TypedT] at ha hc
      obtain ⟨⟨x, rfl⟩, rfl⟩ := ha; obtain ⟨⟨y, rfl⟩, rfl⟩ := hc
      simp [debugTree] at h
      simp [valEqOn, tagEq, valEqListOn, h]
    | any =>
      simp only [Val.TypedT] at ha hc
      obtain ⟨⟨x, rfl⟩, rfl⟩ := ha; obtain ⟨⟨y, rfl⟩, rfl⟩ := hc
      simp [debugTree] at h
      simp [valEqOn, tagEq, valEqListOn, h]
    | charBy p =>
      simp only [Val.TypedT] at ha hc
      obtain ⟨⟨x, rfl⟩, rfl⟩ := ha; obtain ⟨⟨y, rfl⟩, rfl⟩ := hc
      simp [debugTree] at h
      simp [valEqOn, tagEq, valEqListOn, h]
    | newline =>
      simp only [Val.TypedT] at ha hc
      obtain ⟨⟨x, hx, rfl⟩, rfl⟩ := ha; obtain ⟨⟨y, hy, rfl⟩, rfl⟩ := hc
      simp [debugTree] at h
      simp [valEqOn, tagEq, valEqListOn, newlineName_inj hx hy h]
    | skipUntil x =>
      simp only [Val.TypedT] at ha hc
      obtain ⟨⟨x, rfl⟩, rfl⟩ := ha; obtain ⟨⟨y, rfl⟩, rfl⟩ := hc
      simp [debugTree, dbgSpan] at h
      simp [valEqOn, tagEq, valEqListOn, spEq, h]
    | skipChars x =>
      simp only [Val.TypedT] at ha hc
      obtain ⟨⟨x, rfl⟩, rfl⟩ := ha; obtain ⟨⟨y, rfl⟩, rfl⟩ := hc
      simp [debugTree, dbgSpan] at h
      simp [valEqOn, tagEq, valEqListOn, spEq, h]
    | peek =>
      simp only [Val.TypedT] at ha hc
      obtain ⟨⟨x, rfl⟩, rfl⟩ := ha; obtain ⟨⟨y, rfl⟩, rfl⟩ := hc
      simp [debugTree, dbgSpan] at h
      simp [valEqOn, tagEq, valEqListOn, spEq, h]
    | peekAll =>
      simp only [Val.TypedT] at ha hc
      obtain ⟨⟨x, rfl⟩, rfl⟩ := ha; obtain ⟨⟨y, rfl⟩, rfl⟩ := hc
      simp [debugTree, dbgSpan] at h
      simp [valEqOn, tagEq, valEqListOn, spEq, h]
    | pop =>
      simp only [Val.TypedT] at ha hc
      obtain ⟨⟨x, rfl⟩, rfl⟩ := ha; obtain ⟨⟨y, rfl⟩, rfl⟩ := hc
      simp [debugTree, dbgSpan] at h
      simp [valEqOn, tagEq, valEqListOn, spEq, h]
    | popAll =>
      simp only [Val.TypedT] at ha hc
      obtain ⟨⟨x, rfl⟩, rfl⟩ := ha; obtain ⟨⟨y, rfl⟩, rfl⟩ := hc
      simp [debugTree, dbgSpan] at h
      simp [valEqOn, tagEq, valEqListOn, spEq, h]
    | seq f items =>
      simp only [Val.TypedT] at ha hc
      obtain ⟨rfl, ha⟩ := ha; obtain ⟨rfl, hc⟩ := hc
      simp only [debugTree, Dbg.tuple.injEq] at h
      simp only [valEqOn, tagEq, key _ ha hc h.2, Bool.and_self]
    | choice alts =>
      simp only [Val.TypedT] at ha hc
      obtain ⟨k, n, rfl, hn, ha⟩ := ha; obtain ⟨k', n', rfl, hn', hc⟩ := hc
      simp only [debugTree, Dbg.struct.injEq, List.cons.injEq, and_true, true_and] at h
      have hk := choiceField_inj h.1
      subst hk
      rw [hn] at hn'; injection hn' with hn'; subst hn'
      simp only [valEqOn, tagEq, key _ ha hc h.2, beq_self_eq_true, Bool.and_self]
    | opt x =>
      simp only [Val.TypedT] at ha hc
      rcases ha with ⟨rfl, rfl⟩ | ⟨rfl, ha⟩ <;> rcases hc with ⟨rfl, rfl⟩ | ⟨rfl, hc⟩
      · rfl
      · simp [debugTree] at h
      · simp [debugTree] at h
      · simp only [debugTree, Dbg.tuple.injEq, true_and] at h
        simp only [valEqOn, tagEq, key _ ha hc h, Bool.and_self]
    | rep f mn mx x =>
      simp only [Val.TypedT] at ha hc
      obtain ⟨rfl, ha⟩ := ha; obtain ⟨rfl, hc⟩ := hc
      have h' : debugTreeList name slice kids = debugTreeList name slice kids' := by
        cases mx <;> simpa [debugTree] using h
      have hl : kids.length = kids'.length := by
        rw [← debugTreeList_length name slice kids, h', debugTreeList_length]
      rw [← hl] at hc
      simp only [valEqOn, tagEq, key _ ha hc h', beq_self_eq_true, Bool.and_self]
    | atomicRepeat x =>
      simp only [Val.TypedT] at ha hc
      obtain ⟨rfl, ha⟩ := ha; obtain ⟨rfl, hc⟩ := hc
      have h' : debugTreeList name slice kids = debugTreeList name slice kids' := by
        simpa [debugTree] using h
      have hl : kids.length = kids'.length := by
        rw [← debugTreeList_length name slice kids, h', debugTreeList_length]
      rw [← hl] at hc
      simp only [valEqOn, tagEq, key _ ha hc h', Bool.and_self]
    | pos x =>
      simp only [Val.TypedT] at ha hc
      obtain ⟨rfl, ha⟩ := ha; obtain ⟨rfl, hc⟩ := hc
      have h' : debugTreeList name slice kids = debugTreeList name slice kids' := by
        simpa [debugTree] using h
      simp only [valEqOn, tagEq, key _ ha hc h', Bool.and_self]
    | push x =>
      simp only [Val.TypedT] at ha hc
      obtain ⟨rfl, ha⟩ := ha; obtain ⟨rfl, hc⟩ := hc
      have h' : debugTreeList name slice kids = debugTreeList name slice kids' := by
        simpa [debugTree] using h
      simp only [valEqOn, tagEq, key _ ha hc h', Bool.and_self]
    | array k x =>
      simp only [Val.TypedT] at ha hc
      obtain ⟨rfl, ha⟩ := ha; obtain ⟨rfl, hc⟩ := hc
      have h' : debugTreeList name slice kids = debugTreeList name slice kids' := by
        simpa [debugTree] using h
      simp only [valEqOn, tagEq, key _ ha hc h', Bool.and_self]
    | pair x y =>
      simp only [Val.TypedT] at ha hc
      obtain ⟨rfl, ha⟩ := ha; obtain ⟨rfl, hc⟩ := hc
      have h' : debugTreeList name slice kids = debugTreeList name slice kids' := by
        simpa [debugTree] using h
      simp only [valEqOn, tagEq, key _ ha hc h', Bool.and_self]
    | ref r f =>
      simp only [Val.TypedT] at ha hc
      obtain ⟨d, hd, ⟨s, e, rfl⟩, ha⟩ := ha
      obtain ⟨d', hd', ⟨s', e', rfl⟩, hc⟩ := hc
      rw [hd] at hd'; injection hd' with hd'; subst hd'
      cases hem : d.emit with
      | span =>
        rw [hem] at ha hc h
        simp only [false_and, or_false, ne_eq, not_true_eq_false, true_and] at ha hc
        subst ha; subst hc
        simp [debugTree, dbgSpan] at h
        simp [valEqOn, tagEq, valEqListOn, ruleSpanEq, h]
      | expression =>
        rw [hem] at ha hc h
        simp only [reduceCtorEq, false_and, false_or, ne_eq, not_false_eq_true, true_and] at ha hc
        have h' : debugTreeList name slice kids = debugTreeList name slice kids' := by
          simpa [debugTree] using h
        simp [valEqOn, tagEq, ruleSpanEq, key _ ha hc h']
      | both =>
        rw [hem] at ha hc h
        simp only [reduceCtorEq, false_and, false_or, ne_eq, not_false_eq_true, true_and] at ha hc
        simp only [debugTree, Dbg.struct.injEq, true_and] at h
        obtain ⟨h1, h2⟩ := List.append_inj' h rfl
        simp [dbgSpan] at h2
        simp [valEqOn, tagEq, ruleSpanEq, key _ ha hc h1, h2]
theorem debugTreeList_inj (g : NodeGrammar) (name : RuleId → String) (slice : Nat → Nat → List Char) :
    ∀ (as cs : List Val) (tys : List Ty), Val.TypedL g as tys → Val.TypedL g cs tys →
      debugTreeList name slice as = debugTreeList name slice cs → valEqListOn true as cs = true
  | [], [], _, _, _, _ => rfl
  | a :: as, c :: cs, ty :: tys, ha, hc, h => by
    simp only [Val.TypedL] at ha hc
    simp only [debugTreeList, List.cons.injEq] at h
    simp only [valEqListOn, debugTree_inj g name slice a c ty ha.1 hc.1 h.1,
      debugTreeList_inj g name slice as cs tys ha.2 hc.2 h.2, Bool.and_self]
  | _ :: _, _ :: _, [], ha, _, _ => by simp [Val.TypedL] at ha
  | [], _ :: _, _, _, _, h => by simp [debugTreeList] at h
  | _ :: _, [], _, _, _, h => by simp [debugTreeList] at h
end

end PestTyped
