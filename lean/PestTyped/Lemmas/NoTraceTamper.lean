/-
Lemmas.NoTraceTamper — the stack a FAILED sub-run leaves behind is never read.

Some nodes are not restore points: a failing `PUSH(..) ~ "x"`, a failing `POP` (which pops even on a
mismatch), a failing whole `RepeatMin{MIN ≥ 2}` (`C05_counterexample_rep_fail_whole_restore`) return
`None` with a changed stack.  That is invisible: every construct that can CONTINUE after the failure
of a part (choice, optional, repetition, predicates) puts its own saved stack back first, every
other construct passes the failure on, and at the entry points the stack is dropped.

To say this for all nesting depths at once we need "the interpreter in which the leftover stack of
every failing sub-run has been replaced by something else".  `parse`/`check` recurse on the fuel only,
so one step of each is a functional of the previous level: `parseStep`/`checkStep` below are the
bodies of `parse`/`check` with the recursive calls abstracted (`P`, `C`) — textual copies, tied to the
model by `parse_succ_eq_step`/`check_succ_eq_step` (`rfl` for every node).  The tampered interpreters
`parseT`/`checkT` run the same steps but overwrite the stack of EVERY failing run, at every level, by
an arbitrary function `χ` of everything in sight.

Main results: `parseStep_fsa`/`checkStep_fsa` (one step reads its sub-results only up to the stack of
failures), `parseT_fsa`/`checkT_fsa` (all depths), `parseT_id`/`checkT_id` (without tampering the
tampered interpreters are the model), and the same for the four entry points (`try*With`).
-/
import PestTyped.Lemmas.NoTrace
namespace PestTyped

/-! ### one step of the interpreters as functionals (copies of the bodies of `check` / `parse`) -/

def checkStep (g : NodeGrammar) (uni : Uni) (fuel : Nat) (C : Bool → Node → Inp → M → R Unit) :
    Bool → Node → Inp → M → R Unit
  | _, .str s, i, m =>
    match i.matchString s with | some i' => .ok i' m () | none => .fail m
  | _, .insens s, i, m =>
    match i.matchInsens s with | some i' => .ok i' m () | none => .fail m
  | _, .range lo hi, i, m =>
    match i.matchRange lo hi with | some (i', _) => .ok i' m () | none => .fail m
  | _, .any, i, m =>
    match i.matchCharBy (fun _ => true) with | some (i', _) => .ok i' m () | none => .fail m
  | _, .soi, i, m => if i.atStart then .ok i m () else .fail m
  | _, .eoi, i, m => if i.atEnd then .ok i m () else .fail m
  | _, .newline, i, m =>
    match newlineMatch i with | some (i', _) => .ok i' m () | none => .fail m
  | _, .charBy p, i, m =>
    match i.matchCharBy (uni p) with | some (i', _) => .ok i' m () | none => .fail m
  | _, .skipUntil needles, i, m => .ok (i.skipUntil needles).1 m ()
  | _, .skipChars n, i, m =>
    match i.skipN n with | some i' => .ok i' m () | none => .fail m
  | inh, .seq sk items, i, m =>
    match items with
    | [] => .ok i m ()
    | n0 :: ns =>
      match C inh n0 i m with
      | .oof => .oof
      | .fail m' => .fail m'
      | .ok i' m' _ =>
        seqLoopC (C inh)
          (skipLoopC (C false g.skipped) (skipCount sk inh)) ns i' m'
  | inh, .choice alts, i, m => choiceLoopC (C inh) alts i m
  | inh, .opt n, i, m =>
    match restoreOnNone m.stk (C inh n i m) with
    | .oof => .oof
    | .fail m' => .ok i m' ()
    | .ok i' m' _ => .ok i' m' ()
  | inh, .rep sk min max n, i, m =>
    repLoopC (repUnitC (C false g.skipped) (C inh n) (skipCount sk inh))
      min max fuel 0 i m
  | inh, .atomicRepeat n, i, m =>
    -- `AtomicRepeat::check_with`: a fresh tracker, dropped afterwards
    match repLoopC (fun _ i m => C inh n i m) 0 none (atomicBudget fuel) 0 i
        { m with trk := Tracker.new i } with
    | .oof => .oof
    | .fail m' => .fail { m' with trk := m.trk }
    | .ok i' m' _ => .ok i' { m' with trk := m.trk } ()
  | inh, .pos n, i, m =>
    let orig := m.trk.positive
    match C inh n i { m with trk := { m.trk with positive := true } } with
    | .oof => .oof
    | .fail m' => .fail { stk := m.stk, trk := { m'.trk with positive := orig } }
    | .ok _ m' _ => .ok i { stk := m.stk, trk := { m'.trk with positive := orig } } ()
  | inh, .neg n, i, m =>
    let orig := m.trk.positive
    match C inh n i { m with trk := { m.trk with positive := false } } with
    | .oof => .oof
    | .fail m' => .ok i { stk := m.stk, trk := { m'.trk with positive := orig } } ()
    | .ok _ m' _ => .fail { stk := m.stk, trk := { m'.trk with positive := orig } }
  | inh, .push n, i, m =>
    match C inh n i m with
    | .oof => .oof
    | .fail m' => .fail m'
    | .ok i' m' _ => .ok i' { m' with stk := i.spanTo i' :: m'.stk } ()
  | _, .peek, i, m =>
    match m.stk with
    | [] => .fail { m with trk := m.trk.emptyStack i }
    | sp :: _ =>
      match i.matchString sp.txt with | some i' => .ok i' m () | none => .fail m
  | _, .peekAll, i, m =>
    match peekSpans m.stk i with | some i' => .ok i' m () | none => .fail m
  | _, .pop, i, m =>
    match m.stk with
    | [] => .fail { m with trk := m.trk.emptyStack i }
    | sp :: rest =>
      match i.matchString sp.txt with
      | some i' => .ok i' { m with stk := rest } ()
      | none => .fail { m with stk := rest }
  | _, .popAll, i, m =>
    match peekSpans m.stk i with
    | some i' => .ok i' { m with stk := [] } ()
    | none => .fail m
  | _, .drop, i, m =>
    match m.stk with
    | [] => .fail { m with trk := m.trk.emptyStack i }
    | _ :: rest => .ok i { m with stk := rest } ()
  | _, .peekSlice a b, i, m =>
    match constrainIdxs a b m.stk.length with
    | none => .fail { m with trk := m.trk.outOfBound i a b }
    | some (lo, hi) =>
      if hi ≤ lo then .ok i m ()
      else match peekSpans (stackSlice m.stk lo hi) i with
        | some i' => .ok i' m ()
        | none => .fail m
  | inh, .ref r f, i, m =>
    match g.rule? r with
    | none => .fail m
    | some d =>
      let inh' := f.eval inh
      match d.emit with
      | .expression => C inh' d.body i m
      | _ =>
        -- `record_during_with(input, .., RULE)`
        match C inh' d.body i { m with trk := m.trk.enter r i.pos } with
        | .oof => .oof
        | .fail m' => .fail { m' with trk := m'.trk.leave r i.pos false }
        | .ok i' m' _ => .ok i' { m' with trk := m'.trk.leave r i.pos true } ()
  | inh, .array k n, i, m =>
    arrayLoopC (C inh n) k i m
  | inh, .pair a b, i, m =>
    match C inh a i m with
    | .oof => .oof
    | .fail m' => .fail m'
    | .ok i' m' _ => C inh b i' m'
  | _, .empty, i, m => .ok i m ()
  | _, .alwaysFail, _, m => .fail m


def parseStep (g : NodeGrammar) (uni : Uni) (fuel : Nat) (P : Bool → Node → Inp → M → R Val)
    (C : Bool → Node → Inp → M → R Unit) : Bool → Node → Inp → M → R Val
  | _, .str s, i, m =>
    match i.matchString s with | some i' => .ok i' m (.leaf .str) | none => .fail m
  | _, .insens s, i, m =>
    match i.matchInsens s with
    | some i' => .ok i' m (.leaf (.insens (i.spanTo i').txt))
    | none => .fail m
  | _, .range lo hi, i, m =>
    match i.matchRange lo hi with
    | some (i', c) => .ok i' m (.leaf (.charRange c))
    | none => .fail m
  | _, .any, i, m =>
    match i.matchCharBy (fun _ => true) with
    | some (i', c) => .ok i' m (.leaf (.any c))
    | none => .fail m
  | _, .soi, i, m => if i.atStart then .ok i m (.leaf .soi) else .fail m
  | _, .eoi, i, m => if i.atEnd then .ok i m (.leaf .eoi) else .fail m
  | _, .newline, i, m =>
    match newlineMatch i with
    | some (i', k) => .ok i' m (.leaf (.newline k))
    | none => .fail m
  | _, .charBy p, i, m =>
    match i.matchCharBy (uni p) with
    | some (i', c) => .ok i' m (.leaf (.uni p c))
    | none => .fail m
  | _, .skipUntil needles, i, m =>
    let i' := (i.skipUntil needles).1
    .ok i' m (.leaf (.skipUntil (i.spanTo i')))
  | _, .skipChars n, i, m =>
    match i.skipN n with
    | some i' => .ok i' m (.leaf (.skipChars (i.spanTo i')))
    | none => .fail m
  | inh, .seq sk items, i, m =>
    match items with
    | [] => .ok i m (.mk .seq [])
    | n0 :: ns =>
      match P inh n0 i m with
      | .oof => .oof
      | .fail m' => .fail m'
      | .ok i' m' v0 =>
        let k := skipCount sk inh
        match seqLoop (P inh)
            (fun i m => skipLoop (P false g.skipped) k i m [])
            mkSkipped ns i' m' [] with
        | .oof => .oof
        | .fail m'' => .fail m''
        | .ok i'' m'' vs =>
          .ok i'' m'' (.mk .seq (mkSkipped (List.replicate k (defaultSkipVal g)) v0 :: vs))
  | inh, .choice alts, i, m =>
    match choiceLoop (P inh) alts 0 i m with
    | .oof => .oof
    | .fail m' => .fail m'
    | .ok i' m' (k, v) => .ok i' m' (.mk (.choice alts.length k) [v])
  | inh, .opt n, i, m =>
    match restoreOnNone m.stk (P inh n i m) with
    | .oof => .oof
    | .fail m' => .ok i m' (.leaf .optNone)
    | .ok i' m' v => .ok i' m' (.mk .optSome [v])
  | inh, .rep sk min max n, i, m =>
    match repLoop (repUnitP (P false g.skipped) (P inh n)
        (defaultSkipVal g) (skipCount sk inh)) min max fuel 0 i m [] with
    | .oof => .oof
    | .fail m' => .fail m'
    | .ok i' m' vs => .ok i' m' (.mk (.rep min max) vs)
  | inh, .atomicRepeat n, i, m =>
    match repLoop (fun _ i m => P inh n i m) 0 none (atomicBudget fuel) 0 i
        { m with trk := Tracker.new i } [] with
    | .oof => .oof
    | .fail m' => .fail { m' with trk := m.trk }
    | .ok i' m' vs => .ok i' { m' with trk := m.trk } (.mk .atomicRepeat vs)
  | inh, .pos n, i, m =>
    let orig := m.trk.positive
    match P inh n i { m with trk := { m.trk with positive := true } } with
    | .oof => .oof
    | .fail m' => .fail { stk := m.stk, trk := { m'.trk with positive := orig } }
    | .ok _ m' v => .ok i { stk := m.stk, trk := { m'.trk with positive := orig } } (.mk .pos [v])
  | inh, .neg n, i, m =>
    -- `Negative` uses the check path of its operand even while parsing
    let orig := m.trk.positive
    match C inh n i { m with trk := { m.trk with positive := false } } with
    | .oof => .oof
    | .fail m' => .ok i { stk := m.stk, trk := { m'.trk with positive := orig } } (.leaf .neg)
    | .ok _ m' _ => .fail { stk := m.stk, trk := { m'.trk with positive := orig } }
  | inh, .push n, i, m =>
    match P inh n i m with
    | .oof => .oof
    | .fail m' => .fail m'
    | .ok i' m' v => .ok i' { m' with stk := i.spanTo i' :: m'.stk } (.mk .push [v])
  | _, .peek, i, m =>
    match m.stk with
    | [] => .fail { m with trk := m.trk.emptyStack i }
    | sp :: _ =>
      match i.matchString sp.txt with
      | some i' => .ok i' m (.leaf (.peek (i.spanTo i')))
      | none => .fail m
  | _, .peekAll, i, m =>
    match peekSpans m.stk i with
    | some i' => .ok i' m (.leaf (.peekAll (i.spanTo i')))
    | none => .fail m
  | _, .pop, i, m =>
    match m.stk with
    | [] => .fail { m with trk := m.trk.emptyStack i }
    | sp :: rest =>
      match i.matchString sp.txt with
      | some i' => .ok i' { m with stk := rest } (.leaf (.pop sp))
      | none => .fail { m with stk := rest }
  | _, .popAll, i, m =>
    match peekSpans m.stk i with
    | some i' => .ok i' { m with stk := [] } (.leaf (.popAll (i.spanTo i')))
    | none => .fail m
  | _, .drop, i, m =>
    match m.stk with
    | [] => .fail { m with trk := m.trk.emptyStack i }
    | _ :: rest => .ok i { m with stk := rest } (.leaf .drop)
  | _, .peekSlice a b, i, m =>
    match constrainIdxs a b m.stk.length with
    | none => .fail { m with trk := m.trk.outOfBound i a b }
    | some (lo, hi) =>
      if hi ≤ lo then .ok i m (.leaf .peekSlice)
      else match peekSpans (stackSlice m.stk lo hi) i with
        | some i' => .ok i' m (.leaf .peekSlice)
        | none => .fail m
  | inh, .ref r f, i, m =>
    match g.rule? r with
    | none => .fail m
    | some d =>
      let inh' := f.eval inh
      match d.emit with
      | .expression =>
        match P inh' d.body i m with
        | .oof => .oof
        | .fail m' => .fail m'
        | .ok i' m' v => .ok i' m' (.mk (.rule r .expression d.boxed i.pos i'.pos) [v])
      | .span =>
        -- atomic rules are matched through the check path even while parsing
        match C inh' d.body i { m with trk := m.trk.enter r i.pos } with
        | .oof => .oof
        | .fail m' => .fail { m' with trk := m'.trk.leave r i.pos false }
        | .ok i' m' _ =>
          .ok i' { m' with trk := m'.trk.leave r i.pos true } (.mk (.rule r .span d.boxed i.pos i'.pos) [])
      | .both =>
        match P inh' d.body i { m with trk := m.trk.enter r i.pos } with
        | .oof => .oof
        | .fail m' => .fail { m' with trk := m'.trk.leave r i.pos false }
        | .ok i' m' v =>
          .ok i' { m' with trk := m'.trk.leave r i.pos true } (.mk (.rule r .both d.boxed i.pos i'.pos) [v])
  | inh, .array k n, i, m =>
    match arrayTryInto k (arrayLoop (P inh n) k i m []) with
    | .oof => .oof
    | .fail m' => .fail m'
    | .ok i' m' vs => .ok i' m' (.mk .array vs)
  | inh, .pair a b, i, m =>
    match P inh a i m with
    | .oof => .oof
    | .fail m' => .fail m'
    | .ok i' m' va =>
      match P inh b i' m' with
      | .oof => .oof
      | .fail m'' => .fail m''
      | .ok i'' m'' vb => .ok i'' m'' (.mk .pair [va, vb])
  | _, .empty, i, m => .ok i m (.leaf .empty)
  | _, .alwaysFail, _, m => .fail m


theorem check_succ_eq_step (g : NodeGrammar) (uni : Uni) (fuel : Nat) (inh : Bool) (n : Node) (i : Inp) (m : M) :
    check g uni (fuel+1) inh n i m = checkStep g uni fuel (check g uni fuel) inh n i m := by
  cases n <;> rfl

theorem parse_succ_eq_step (g : NodeGrammar) (uni : Uni) (fuel : Nat) (inh : Bool) (n : Node) (i : Inp) (m : M) :
    parse g uni (fuel+1) inh n i m = parseStep g uni fuel (parse g uni fuel) (check g uni fuel) inh n i m := by
  cases n <;> rfl

/-! ### equal up to the stack of a failure -/

/-- `r1` and `r2` are equal, except that when both fail the stacks they leave may differ
(verdict, cursor, state and value of a success, tracker of a failure: all equal). -/
def FailStkAny {α} (r1 r2 : R α) : Prop :=
  r1 = r2 ∨ ∃ m1 m2, r1 = .fail m1 ∧ r2 = .fail m2 ∧ m1.trk = m2.trk

theorem FailStkAny.refl {α} (r : R α) : FailStkAny r r := Or.inl rfl

theorem FailStkAny.symm {α} {r1 r2 : R α} (h : FailStkAny r1 r2) : FailStkAny r2 r1 := by
  rcases h with h | ⟨m1, m2, h1, h2, ht⟩
  · exact Or.inl h.symm
  · exact Or.inr ⟨m2, m1, h2, h1, ht.symm⟩

theorem FailStkAny.trans {α} {r1 r2 r3 : R α} (h : FailStkAny r1 r2) (h' : FailStkAny r2 r3) :
    FailStkAny r1 r3 := by
  rcases h with rfl | ⟨m1, m2, h1, h2, ht⟩
  · exact h'
  · rcases h' with rfl | ⟨m2', m3, h2', h3, ht'⟩
    · exact Or.inr ⟨m1, m2, h1, h2, ht⟩
    · rw [h2] at h2'; injection h2' with e; subst e
      exact Or.inr ⟨m1, m3, h1, h3, ht.trans ht'⟩

theorem FailStkAny.fail {α} {m1 m2 : M} (h : m1.trk = m2.trk) : FailStkAny (.fail m1 : R α) (.fail m2) :=
  Or.inr ⟨m1, m2, rfl, rfl, h⟩

theorem FailStkAny.cases {α} {r1 r2 : R α} (h : FailStkAny r1 r2) :
    (r1 = .oof ∧ r2 = .oof) ∨ (∃ m1 m2, r1 = .fail m1 ∧ r2 = .fail m2 ∧ m1.trk = m2.trk) ∨
    (∃ i m a, r1 = .ok i m a ∧ r2 = .ok i m a) := by
  rcases h with rfl | h
  · cases r1 with
    | oof => exact Or.inl ⟨rfl, rfl⟩
    | fail m => exact Or.inr (Or.inl ⟨m, m, rfl, rfl, rfl⟩)
    | ok i m a => exact Or.inr (Or.inr ⟨i, m, a, rfl, rfl⟩)
  · exact Or.inr (Or.inl h)

/-- What the entry points return to the caller is a function of this view. -/
theorem FailStkAny.forget {α} {r1 r2 : R α} (h : FailStkAny r1 r2) : FailStkAny r1.forget r2.forget := by
  rcases h.cases with ⟨h1, h2⟩ | ⟨m1, m2, h1, h2, ht⟩ | ⟨i, m, a, h1, h2⟩ <;> rw [h1, h2]
  · exact .refl _
  · exact .fail ht
  · exact .refl _

/-- THE point: a restore point does not look at the stack a failure left. -/
theorem restoreOnNone_fsa {α} (s : List Sp) {r1 r2 : R α} (h : FailStkAny r1 r2) :
    restoreOnNone s r1 = restoreOnNone s r2 := by
  rcases h with rfl | ⟨m1, m2, h1, h2, ht⟩
  · rfl
  · rw [h1, h2]; simp only [restoreOnNone, ht]

/-! ### the loops, parse copies -/

theorem skipLoop_fsa {α} {f f' : Inp → M → R α} (h : ∀ i m, FailStkAny (f i m) (f' i m)) :
    ∀ k i m acc, FailStkAny (skipLoop f k i m acc) (skipLoop f' k i m acc) := by
  intro k
  induction k with
  | zero => intros; exact .refl _
  | succ k ih =>
    intro i m acc
    unfold skipLoop
    rcases (h i m).cases with ⟨h1, h2⟩ | ⟨m1, m2, h1, h2, ht⟩ | ⟨i', m', a, h1, h2⟩ <;> rw [h1, h2]
    · exact .refl _
    · exact .fail ht
    · exact ih _ _ _

theorem seqLoop_fsa {α β} {f f' : Node → Inp → M → R α} {sk sk' : Inp → M → R (List β)}
    (mk : List β → α → α) (hf : ∀ n i m, FailStkAny (f n i m) (f' n i m))
    (hs : ∀ i m, FailStkAny (sk i m) (sk' i m)) :
    ∀ ns i m acc, FailStkAny (seqLoop f sk mk ns i m acc) (seqLoop f' sk' mk ns i m acc) := by
  intro ns
  induction ns with
  | nil => intros; exact .refl _
  | cons n ns ih =>
    intro i m acc
    unfold seqLoop
    rcases (hs i m).cases with ⟨h1, h2⟩ | ⟨m1, m2, h1, h2, ht⟩ | ⟨i', m', a, h1, h2⟩ <;> rw [h1, h2]
    · exact .refl _
    · exact .fail ht
    · simp only []
      rcases (hf n i' m').cases with ⟨h1, h2⟩ | ⟨m1, m2, h1, h2, ht⟩ | ⟨i'', m'', b, h1, h2⟩ <;> rw [h1, h2]
      · exact .refl _
      · exact .fail ht
      · exact ih _ _ _

/-- A choice gives EQUAL results: each alternative runs under `restore_on_none`. -/
theorem choiceLoop_fsa_eq {α} {f f' : Node → Inp → M → R α} (hf : ∀ n i m, FailStkAny (f n i m) (f' n i m)) :
    ∀ ns k i m, choiceLoop f ns k i m = choiceLoop f' ns k i m := by
  intro ns
  induction ns with
  | nil => intros; rfl
  | cons n ns ih =>
    intro k i m
    unfold choiceLoop
    rw [restoreOnNone_fsa m.stk (hf n i m)]
    cases restoreOnNone m.stk (f' n i m) with
    | oof => rfl
    | ok _ _ _ => rfl
    | fail m' => exact ih _ _ _

/-- A repetition gives EQUAL results: each iteration runs under `restore_on_none`. -/
theorem repLoop_fsa_eq {α} {u u' : Nat → Inp → M → R α} (hu : ∀ idx i m, FailStkAny (u idx i m) (u' idx i m))
    (min : Nat) (max : Option Nat) :
    ∀ budget idx i m acc, repLoop u min max budget idx i m acc = repLoop u' min max budget idx i m acc := by
  intro budget
  induction budget with
  | zero => intros; rfl
  | succ b ih =>
    intro idx i m acc
    rw [repLoop_succ, repLoop_succ, restoreOnNone_fsa m.stk (hu idx i m)]
    split
    · rfl
    · cases restoreOnNone m.stk (u' idx i m) with
      | oof => rfl
      | fail _ => rfl
      | ok i' m' a => exact ih _ _ _ _

theorem arrayLoop_fsa {α} {f f' : Inp → M → R α} (h : ∀ i m, FailStkAny (f i m) (f' i m)) :
    ∀ k i m acc, FailStkAny (arrayLoop f k i m acc) (arrayLoop f' k i m acc) := by
  intro k
  induction k with
  | zero => intros; exact .refl _
  | succ k ih =>
    intro i m acc
    unfold arrayLoop
    rcases (h i m).cases with ⟨h1, h2⟩ | ⟨m1, m2, h1, h2, ht⟩ | ⟨i', m', a, h1, h2⟩ <;> rw [h1, h2]
    · exact .refl _
    · exact .fail ht
    · exact ih _ _ _

theorem arrayTryInto_fsa {α} (n : Nat) {r1 r2 : R (List α)} (h : FailStkAny r1 r2) :
    FailStkAny (arrayTryInto n r1) (arrayTryInto n r2) := by
  rcases h.cases with ⟨h1, h2⟩ | ⟨m1, m2, h1, h2, ht⟩ | ⟨i, m, a, h1, h2⟩ <;> rw [h1, h2]
  · exact .refl _
  · exact .fail ht
  · exact .refl _

theorem repUnitP_fsa {sk sk' body body' : Inp → M → R Val} (hs : ∀ i m, FailStkAny (sk i m) (sk' i m))
    (hb : ∀ i m, FailStkAny (body i m) (body' i m)) (dflt : Val) (k idx : Nat) (i : Inp) (m : M) :
    FailStkAny (repUnitP sk body dflt k idx i m) (repUnitP sk' body' dflt k idx i m) := by
  unfold repUnitP
  by_cases h0 : idx = 0
  · simp only [h0, if_true]
    rcases (hb i m).cases with ⟨h1, h2⟩ | ⟨m1, m2, h1, h2, ht⟩ | ⟨i', m', a, h1, h2⟩ <;> rw [h1, h2]
    · exact .refl _
    · exact .fail ht
    · exact .refl _
  · simp only [h0, if_false]
    rcases (skipLoop_fsa hs k i m []).cases with ⟨h1, h2⟩ | ⟨m1, m2, h1, h2, ht⟩ | ⟨i', m', a, h1, h2⟩ <;>
      rw [h1, h2]
    · exact .refl _
    · exact .fail ht
    · simp only []
      rcases (hb i' m').cases with ⟨h1, h2⟩ | ⟨m1, m2, h1, h2, ht⟩ | ⟨i'', m'', b, h1, h2⟩ <;> rw [h1, h2]
      · exact .refl _
      · exact .fail ht
      · exact .refl _

/-! ### the loops, check copies -/

theorem skipLoopC_fsa {f f' : Inp → M → R Unit} (h : ∀ i m, FailStkAny (f i m) (f' i m)) :
    ∀ k i m, FailStkAny (skipLoopC f k i m) (skipLoopC f' k i m) := by
  intro k
  induction k with
  | zero => intros; exact .refl _
  | succ k ih =>
    intro i m
    unfold skipLoopC
    rcases (h i m).cases with ⟨h1, h2⟩ | ⟨m1, m2, h1, h2, ht⟩ | ⟨i', m', a, h1, h2⟩ <;> rw [h1, h2]
    · exact .refl _
    · exact .fail ht
    · exact ih _ _

theorem seqLoopC_fsa {f f' : Node → Inp → M → R Unit} {sk sk' : Inp → M → R Unit}
    (hf : ∀ n i m, FailStkAny (f n i m) (f' n i m)) (hs : ∀ i m, FailStkAny (sk i m) (sk' i m)) :
    ∀ ns i m, FailStkAny (seqLoopC f sk ns i m) (seqLoopC f' sk' ns i m) := by
  intro ns
  induction ns with
  | nil => intros; exact .refl _
  | cons n ns ih =>
    intro i m
    unfold seqLoopC
    rcases (hs i m).cases with ⟨h1, h2⟩ | ⟨m1, m2, h1, h2, ht⟩ | ⟨i', m', a, h1, h2⟩ <;> rw [h1, h2]
    · exact .refl _
    · exact .fail ht
    · simp only []
      rcases (hf n i' m').cases with ⟨h1, h2⟩ | ⟨m1, m2, h1, h2, ht⟩ | ⟨i'', m'', b, h1, h2⟩ <;> rw [h1, h2]
      · exact .refl _
      · exact .fail ht
      · exact ih _ _

theorem choiceLoopC_fsa_eq {f f' : Node → Inp → M → R Unit} (hf : ∀ n i m, FailStkAny (f n i m) (f' n i m)) :
    ∀ ns i m, choiceLoopC f ns i m = choiceLoopC f' ns i m := by
  intro ns
  induction ns with
  | nil => intros; rfl
  | cons n ns ih =>
    intro i m
    unfold choiceLoopC
    rw [restoreOnNone_fsa m.stk (hf n i m)]
    cases restoreOnNone m.stk (f' n i m) with
    | oof => rfl
    | ok _ _ _ => rfl
    | fail m' => exact ih _ _

theorem repLoopC_fsa_eq {u u' : Nat → Inp → M → R Unit} (hu : ∀ idx i m, FailStkAny (u idx i m) (u' idx i m))
    (min : Nat) (max : Option Nat) :
    ∀ budget idx i m, repLoopC u min max budget idx i m = repLoopC u' min max budget idx i m := by
  intro budget
  induction budget with
  | zero => intros; rfl
  | succ b ih =>
    intro idx i m
    unfold repLoopC
    rw [restoreOnNone_fsa m.stk (hu idx i m)]
    split
    · rfl
    · cases restoreOnNone m.stk (u' idx i m) with
      | oof => rfl
      | fail _ => rfl
      | ok i' m' a => exact ih _ _ _

theorem arrayLoopC_fsa {f f' : Inp → M → R Unit} (h : ∀ i m, FailStkAny (f i m) (f' i m)) :
    ∀ k i m, FailStkAny (arrayLoopC f k i m) (arrayLoopC f' k i m) := by
  intro k
  induction k with
  | zero => intros; exact .refl _
  | succ k ih =>
    intro i m
    unfold arrayLoopC
    rcases (h i m).cases with ⟨h1, h2⟩ | ⟨m1, m2, h1, h2, ht⟩ | ⟨i', m', a, h1, h2⟩ <;> rw [h1, h2]
    · exact .refl _
    · exact .fail ht
    · exact ih _ _

theorem repSkipC_fsa {f f' : Inp → M → R Unit} (h : ∀ i m, FailStkAny (f i m) (f' i m)) (idx : Nat) :
    ∀ k i m, FailStkAny (repSkipC f idx k i m) (repSkipC f' idx k i m) := by
  intro k
  induction k with
  | zero => intros; exact .refl _
  | succ k ih =>
    intro i m
    unfold repSkipC
    by_cases h0 : idx > 0
    · simp only [h0, if_true]
      rcases (h i m).cases with ⟨h1, h2⟩ | ⟨m1, m2, h1, h2, ht⟩ | ⟨i', m', a, h1, h2⟩ <;> rw [h1, h2]
      · exact .refl _
      · exact .fail ht
      · exact ih _ _
    · simp only [h0, if_false]; exact ih _ _

theorem repUnitC_fsa {sk sk' body body' : Inp → M → R Unit} (hs : ∀ i m, FailStkAny (sk i m) (sk' i m))
    (hb : ∀ i m, FailStkAny (body i m) (body' i m)) (k idx : Nat) (i : Inp) (m : M) :
    FailStkAny (repUnitC sk body k idx i m) (repUnitC sk' body' k idx i m) := by
  unfold repUnitC
  rcases (repSkipC_fsa hs idx k i m).cases with ⟨h1, h2⟩ | ⟨m1, m2, h1, h2, ht⟩ | ⟨i', m', a, h1, h2⟩ <;>
    rw [h1, h2]
  · exact .refl _
  · exact .fail ht
  · exact hb i' m'

/-! ### one step reads its sub-results only up to the stack of failures -/

/-- Case split on `h : FailStkAny r1 r2` where the goal propagates out-of-fuel and failure
unchanged; leaves the success case. -/
macro "fsa_bind " h:term : tactic => `(tactic|
  (rcases (FailStkAny.cases $h) with ⟨h1, h2⟩ | ⟨m1, m2, h1, h2, ht⟩ | ⟨i', m', a, h1, h2⟩ <;> rw [h1, h2] <;>
    (try simp only []) <;> first | exact FailStkAny.fail ht | exact FailStkAny.refl _ | skip))

theorem checkStep_fsa (g : NodeGrammar) (uni : Uni) (fuel : Nat) {C C' : Bool → Node → Inp → M → R Unit}
    (hC : ∀ inh n i m, FailStkAny (C inh n i m) (C' inh n i m)) (inh : Bool) (n : Node) (i : Inp) (m : M) :
    FailStkAny (checkStep g uni fuel C inh n i m) (checkStep g uni fuel C' inh n i m) := by
  cases n with
  | seq sk items =>
    simp only [checkStep]
    cases items with
    | nil => exact .refl _
    | cons n0 ns =>
      simp only []
      fsa_bind (hC inh n0 i m)
      exact seqLoopC_fsa (hC inh) (fun i m => skipLoopC_fsa (hC false g.skipped) _ i m) ns _ _
  | choice alts =>
    simp only [checkStep]
    rw [choiceLoopC_fsa_eq (hC inh)]; exact .refl _
  | opt x =>
    simp only [checkStep]
    rw [restoreOnNone_fsa m.stk (hC inh x i m)]; exact .refl _
  | rep sk min max x =>
    simp only [checkStep]
    rw [repLoopC_fsa_eq (fun idx i m => repUnitC_fsa (hC false g.skipped) (hC inh x) _ idx i m)]
    exact .refl _
  | atomicRepeat x =>
    simp only [checkStep]
    rw [repLoopC_fsa_eq (u := fun _ i m => C inh x i m) (u' := fun _ i m => C' inh x i m)
      (fun _ i m => hC inh x i m)]
    exact .refl _
  | pos x =>
    simp only [checkStep]
    rcases (hC inh x i { m with trk := { m.trk with positive := true } }).cases with
      ⟨h1, h2⟩ | ⟨m1, m2, h1, h2, ht⟩ | ⟨i', m', a, h1, h2⟩ <;> rw [h1, h2]
    · exact .refl _
    · simp only [ht]; exact .refl _
    · exact .refl _
  | neg x =>
    simp only [checkStep]
    rcases (hC inh x i { m with trk := { m.trk with positive := false } }).cases with
      ⟨h1, h2⟩ | ⟨m1, m2, h1, h2, ht⟩ | ⟨i', m', a, h1, h2⟩ <;> rw [h1, h2]
    · exact .refl _
    · simp only [ht]; exact .refl _
    · exact .refl _
  | push x =>
    simp only [checkStep]
    fsa_bind (hC inh x i m)
  | ref r f =>
    simp only [checkStep]
    cases g.rule? r with
    | none => exact .refl _
    | some d =>
      simp only []
      cases d.emit <;> simp only []
      · rcases (hC (f.eval inh) d.body i { m with trk := m.trk.enter r i.pos }).cases with
          ⟨h1, h2⟩ | ⟨m1, m2, h1, h2, ht⟩ | ⟨i', m', a, h1, h2⟩ <;> rw [h1, h2]
        · exact .refl _
        · exact .fail (by simp only [ht])
        · exact .refl _
      · exact hC _ _ _ _
      · rcases (hC (f.eval inh) d.body i { m with trk := m.trk.enter r i.pos }).cases with
          ⟨h1, h2⟩ | ⟨m1, m2, h1, h2, ht⟩ | ⟨i', m', a, h1, h2⟩ <;> rw [h1, h2]
        · exact .refl _
        · exact .fail (by simp only [ht])
        · exact .refl _
  | array k x =>
    simp only [checkStep]
    exact arrayLoopC_fsa (hC inh x) k i m
  | pair a b =>
    simp only [checkStep]
    fsa_bind (hC inh a i m)
    exact hC inh b _ _
  | _ => exact .refl _

theorem parseStep_fsa (g : NodeGrammar) (uni : Uni) (fuel : Nat) {P P' : Bool → Node → Inp → M → R Val}
    {C C' : Bool → Node → Inp → M → R Unit}
    (hP : ∀ inh n i m, FailStkAny (P inh n i m) (P' inh n i m))
    (hC : ∀ inh n i m, FailStkAny (C inh n i m) (C' inh n i m)) (inh : Bool) (n : Node) (i : Inp) (m : M) :
    FailStkAny (parseStep g uni fuel P C inh n i m) (parseStep g uni fuel P' C' inh n i m) := by
  cases n with
  | seq sk items =>
    simp only [parseStep]
    cases items with
    | nil => exact .refl _
    | cons n0 ns =>
      simp only []
      fsa_bind (hP inh n0 i m)
      fsa_bind (seqLoop_fsa mkSkipped (hP inh)
        (fun i m => skipLoop_fsa (hP false g.skipped) (skipCount sk inh) i m []) ns _ _ [])
  | choice alts =>
    simp only [parseStep]
    rw [choiceLoop_fsa_eq (hP inh)]; exact .refl _
  | opt x =>
    simp only [parseStep]
    rw [restoreOnNone_fsa m.stk (hP inh x i m)]; exact .refl _
  | rep sk min max x =>
    simp only [parseStep]
    rw [repLoop_fsa_eq (fun idx i m => repUnitP_fsa (hP false g.skipped) (hP inh x) _ _ idx i m)]
    exact .refl _
  | atomicRepeat x =>
    simp only [parseStep]
    rw [repLoop_fsa_eq (u := fun _ i m => P inh x i m) (u' := fun _ i m => P' inh x i m)
      (fun _ i m => hP inh x i m)]
    exact .refl _
  | pos x =>
    simp only [parseStep]
    rcases (hP inh x i { m with trk := { m.trk with positive := true } }).cases with
      ⟨h1, h2⟩ | ⟨m1, m2, h1, h2, ht⟩ | ⟨i', m', a, h1, h2⟩ <;> rw [h1, h2]
    · exact .refl _
    · simp only [ht]; exact .refl _
    · exact .refl _
  | neg x =>
    simp only [parseStep]
    rcases (hC inh x i { m with trk := { m.trk with positive := false } }).cases with
      ⟨h1, h2⟩ | ⟨m1, m2, h1, h2, ht⟩ | ⟨i', m', a, h1, h2⟩ <;> rw [h1, h2]
    · exact .refl _
    · simp only [ht]; exact .refl _
    · exact .refl _
  | push x =>
    simp only [parseStep]
    fsa_bind (hP inh x i m)
  | ref r f =>
    simp only [parseStep]
    cases g.rule? r with
    | none => exact .refl _
    | some d =>
      simp only []
      cases d.emit <;> simp only []
      · rcases (hC (f.eval inh) d.body i { m with trk := m.trk.enter r i.pos }).cases with
          ⟨h1, h2⟩ | ⟨m1, m2, h1, h2, ht⟩ | ⟨i', m', a, h1, h2⟩ <;> rw [h1, h2]
        · exact .refl _
        · exact .fail (by simp only [ht])
        · exact .refl _
      · fsa_bind (hP (f.eval inh) d.body i m)
      · rcases (hP (f.eval inh) d.body i { m with trk := m.trk.enter r i.pos }).cases with
          ⟨h1, h2⟩ | ⟨m1, m2, h1, h2, ht⟩ | ⟨i', m', a, h1, h2⟩ <;> rw [h1, h2]
        · exact .refl _
        · exact .fail (by simp only [ht])
        · exact .refl _
  | array k x =>
    simp only [parseStep]
    fsa_bind (arrayTryInto_fsa k (arrayLoop_fsa (hP inh x) k i m []))
  | pair a b =>
    simp only [parseStep]
    fsa_bind (hP inh a i m)
    fsa_bind (hP inh b _ _)
  | _ => exact .refl _

/-! ### the tampered interpreters -/

/-- What to put in place of the stack a failing run leaves behind: an arbitrary function of the fuel
level, `inh`, the node, the cursor and the state the run started from, and the leftover stack — one
such function for the parse path (`p`) and one for the check path (`c`). -/
structure Tamper where
  p : Nat → Bool → Node → Inp → M → List Sp → List Sp
  c : Nat → Bool → Node → Inp → M → List Sp → List Sp

/-- No tampering. -/
def Tamper.none : Tamper := ⟨fun _ _ _ _ _ s => s, fun _ _ _ _ _ s => s⟩

/-- Overwrite the stack of a failure. -/
def tamperRes {α} (s : List Sp → List Sp) : R α → R α
  | .fail m => .fail { m with stk := s m.stk }
  | r => r

theorem tamperRes_fsa {α} (s : List Sp → List Sp) (r : R α) : FailStkAny (tamperRes s r) r := by
  cases r with
  | oof => exact .refl _
  | ok _ _ _ => exact .refl _
  | fail m => exact .fail rfl

theorem tamperRes_id {α} (r : R α) : tamperRes (fun s => s) r = r := by
  cases r <;> rfl

/-- `check` in which EVERY failing run, of every node at every depth, has its leftover stack
overwritten by `χ.c`. -/
def checkT (g : NodeGrammar) (uni : Uni) (χ : Tamper) : Nat → Bool → Node → Inp → M → R Unit
  | 0 => fun _ _ _ _ => .oof
  | fuel+1 => fun inh n i m =>
    tamperRes (χ.c fuel inh n i m) (checkStep g uni fuel (checkT g uni χ fuel) inh n i m)

/-- `parse` in which EVERY failing run, of every node at every depth, on both paths, has its
leftover stack overwritten by `χ`. -/
def parseT (g : NodeGrammar) (uni : Uni) (χ : Tamper) : Nat → Bool → Node → Inp → M → R Val
  | 0 => fun _ _ _ _ => .oof
  | fuel+1 => fun inh n i m =>
    tamperRes (χ.p fuel inh n i m)
      (parseStep g uni fuel (parseT g uni χ fuel) (checkT g uni χ fuel) inh n i m)

theorem check_zero (g : NodeGrammar) (uni : Uni) (inh : Bool) (n : Node) (i : Inp) (m : M) :
    check g uni 0 inh n i m = .oof := by
  simp only [check]

theorem parse_zero (g : NodeGrammar) (uni : Uni) (inh : Bool) (n : Node) (i : Inp) (m : M) :
    parse g uni 0 inh n i m = .oof := by
  simp only [parse]

/-- Without tampering, `checkT` is `check`. -/
theorem checkT_id (g : NodeGrammar) (uni : Uni) :
    ∀ fuel, checkT g uni .none fuel = check g uni fuel := by
  intro fuel
  induction fuel with
  | zero => funext inh n i m; rw [check_zero]; rfl
  | succ fuel ih =>
    funext inh n i m
    rw [check_succ_eq_step, ← ih]
    exact tamperRes_id _

/-- Without tampering, `parseT` is `parse`. -/
theorem parseT_id (g : NodeGrammar) (uni : Uni) :
    ∀ fuel, parseT g uni .none fuel = parse g uni fuel := by
  intro fuel
  induction fuel with
  | zero => funext inh n i m; rw [parse_zero]; rfl
  | succ fuel ih =>
    funext inh n i m
    rw [parse_succ_eq_step, ← ih, ← checkT_id]
    exact tamperRes_id _

/-- All depths, check path: tampering with the leftover stacks of failures changes nothing but the
leftover stack of a failing result. -/
theorem checkT_fsa (g : NodeGrammar) (uni : Uni) (χ : Tamper) :
    ∀ fuel inh n i m, FailStkAny (checkT g uni χ fuel inh n i m) (check g uni fuel inh n i m) := by
  intro fuel
  induction fuel with
  | zero => intro inh n i m; rw [check_zero]; exact .refl _
  | succ fuel ih =>
    intro inh n i m
    rw [check_succ_eq_step]
    exact (tamperRes_fsa _ _).trans (checkStep_fsa g uni fuel ih inh n i m)

/-- All depths, parse path. -/
theorem parseT_fsa (g : NodeGrammar) (uni : Uni) (χ : Tamper) :
    ∀ fuel inh n i m, FailStkAny (parseT g uni χ fuel inh n i m) (parse g uni fuel inh n i m) := by
  intro fuel
  induction fuel with
  | zero => intro inh n i m; rw [parse_zero]; exact .refl _
  | succ fuel ih =>
    intro inh n i m
    rw [parse_succ_eq_step]
    exact (tamperRes_fsa _ _).trans (parseStep_fsa g uni fuel ih (checkT_fsa g uni χ fuel) inh n i m)

/-! ### the entry points over an arbitrary interpreter -/

/-- `tryParse` with the interpreter abstracted. -/
def tryParseWith (g : NodeGrammar) (P : Bool → Node → Inp → M → R Val) (r : RuleId) (i : Inp) : R Val :=
  match g.rule? r with
  | none => .fail (M.init i)
  | some d =>
    match P true (.ref r .one) i (M.init i) with
    | .oof => .oof
    | .fail m => .fail m
    | .ok i' m v =>
      if noTrailingSkip r d then
        let (m', ok) := eoiStep i' m
        if ok then .ok i' m' v else .fail m'
      else
        match P false g.skipped i' m with
        | .oof => .oof
        | .fail m' => .fail m'
        | .ok i'' m' _ =>
          let (m'', ok) := eoiStep i'' m'
          if ok then .ok i'' m'' v else .fail m''

/-- `tryCheck` with the interpreter abstracted. -/
def tryCheckWith (g : NodeGrammar) (C : Bool → Node → Inp → M → R Unit) (r : RuleId) (i : Inp) : R Unit :=
  match g.rule? r with
  | none => .fail (M.init i)
  | some d =>
    match C true (.ref r .one) i (M.init i) with
    | .oof => .oof
    | .fail m => .fail m
    | .ok i' m _ =>
      if noTrailingSkip r d then
        let (m', ok) := eoiStep i' m
        if ok then .ok i' m' () else .fail m'
      else
        match C false g.skipped i' m with
        | .oof => .oof
        | .fail m' => .fail m'
        | .ok i'' m' _ =>
          let (m'', ok) := eoiStep i'' m'
          if ok then .ok i'' m'' () else .fail m''

theorem tryParse_eq_with (g : NodeGrammar) (uni : Uni) (fuel : Nat) (r : RuleId) (i : Inp) :
    tryParse g uni fuel r i = tryParseWith g (parse g uni fuel) r i := rfl

theorem tryCheck_eq_with (g : NodeGrammar) (uni : Uni) (fuel : Nat) (r : RuleId) (i : Inp) :
    tryCheck g uni fuel r i = tryCheckWith g (check g uni fuel) r i := rfl

theorem tryParseWith_fsa (g : NodeGrammar) {P P' : Bool → Node → Inp → M → R Val}
    (hP : ∀ inh n i m, FailStkAny (P inh n i m) (P' inh n i m)) (r : RuleId) (i : Inp) :
    FailStkAny (tryParseWith g P r i) (tryParseWith g P' r i) := by
  unfold tryParseWith
  cases g.rule? r with
  | none => exact .refl _
  | some d =>
    simp only []
    fsa_bind (hP true (.ref r .one) i (M.init i))
    by_cases hn : noTrailingSkip r d = true
    · simp only [hn, ↓reduceIte]; exact .refl _
    · simp only [hn]
      fsa_bind (hP false g.skipped _ _)

theorem tryCheckWith_fsa (g : NodeGrammar) {C C' : Bool → Node → Inp → M → R Unit}
    (hC : ∀ inh n i m, FailStkAny (C inh n i m) (C' inh n i m)) (r : RuleId) (i : Inp) :
    FailStkAny (tryCheckWith g C r i) (tryCheckWith g C' r i) := by
  unfold tryCheckWith
  cases g.rule? r with
  | none => exact .refl _
  | some d =>
    simp only []
    fsa_bind (hC true (.ref r .one) i (M.init i))
    by_cases hn : noTrailingSkip r d = true
    · simp only [hn, ↓reduceIte]; exact .refl _
    · simp only [hn]
      fsa_bind (hC false g.skipped _ _)

/-! ### the constructs that can continue after a failure give EQUAL results -/

/-- The constructs that can continue after the failure of a part: choice, optional, repetition
(ANY `MIN`), the skip-repeat node, the predicates. -/
def Node.continuesAfterFailure : Node → Bool
  | .choice _ => true
  | .opt _ => true
  | .rep _ _ _ _ => true
  | .atomicRepeat _ => true
  | .pos _ => true
  | .neg _ => true
  | _ => false

/-- For these the step gives the SAME result (stack of a failure included) whatever stacks the
failing sub-runs left: they put their own saved stack back before going on or returning. -/
theorem parseStep_restore_eq (g : NodeGrammar) (uni : Uni) (fuel : Nat) {P P' : Bool → Node → Inp → M → R Val}
    {C C' : Bool → Node → Inp → M → R Unit}
    (hP : ∀ inh n i m, FailStkAny (P inh n i m) (P' inh n i m))
    (hC : ∀ inh n i m, FailStkAny (C inh n i m) (C' inh n i m)) (inh : Bool) (n : Node) (i : Inp) (m : M)
    (hn : n.continuesAfterFailure = true) :
    parseStep g uni fuel P C inh n i m = parseStep g uni fuel P' C' inh n i m := by
  cases n with
  | choice alts =>
    simp only [parseStep]
    rw [choiceLoop_fsa_eq (hP inh)]
  | opt x =>
    simp only [parseStep]
    rw [restoreOnNone_fsa m.stk (hP inh x i m)]
  | rep sk min max x =>
    simp only [parseStep]
    rw [repLoop_fsa_eq (fun idx i m => repUnitP_fsa (hP false g.skipped) (hP inh x) _ _ idx i m)]
  | atomicRepeat x =>
    simp only [parseStep]
    rw [repLoop_fsa_eq (u := fun _ i m => P inh x i m) (u' := fun _ i m => P' inh x i m)
      (fun _ i m => hP inh x i m)]
  | pos x =>
    simp only [parseStep]
    rcases (hP inh x i { m with trk := { m.trk with positive := true } }).cases with
      ⟨h1, h2⟩ | ⟨m1, m2, h1, h2, ht⟩ | ⟨i', m', a, h1, h2⟩ <;> rw [h1, h2]
    simp only [ht]
  | neg x =>
    simp only [parseStep]
    rcases (hC inh x i { m with trk := { m.trk with positive := false } }).cases with
      ⟨h1, h2⟩ | ⟨m1, m2, h1, h2, ht⟩ | ⟨i', m', a, h1, h2⟩ <;> rw [h1, h2]
    simp only [ht]
  | _ => simp [Node.continuesAfterFailure] at hn

theorem checkStep_restore_eq (g : NodeGrammar) (uni : Uni) (fuel : Nat) {C C' : Bool → Node → Inp → M → R Unit}
    (hC : ∀ inh n i m, FailStkAny (C inh n i m) (C' inh n i m)) (inh : Bool) (n : Node) (i : Inp) (m : M)
    (hn : n.continuesAfterFailure = true) :
    checkStep g uni fuel C inh n i m = checkStep g uni fuel C' inh n i m := by
  cases n with
  | choice alts =>
    simp only [checkStep]
    rw [choiceLoopC_fsa_eq (hC inh)]
  | opt x =>
    simp only [checkStep]
    rw [restoreOnNone_fsa m.stk (hC inh x i m)]
  | rep sk min max x =>
    simp only [checkStep]
    rw [repLoopC_fsa_eq (fun idx i m => repUnitC_fsa (hC false g.skipped) (hC inh x) _ idx i m)]
  | atomicRepeat x =>
    simp only [checkStep]
    rw [repLoopC_fsa_eq (u := fun _ i m => C inh x i m) (u' := fun _ i m => C' inh x i m)
      (fun _ i m => hC inh x i m)]
  | pos x =>
    simp only [checkStep]
    rcases (hC inh x i { m with trk := { m.trk with positive := true } }).cases with
      ⟨h1, h2⟩ | ⟨m1, m2, h1, h2, ht⟩ | ⟨i', m', a, h1, h2⟩ <;> rw [h1, h2]
    simp only [ht]
  | neg x =>
    simp only [checkStep]
    rcases (hC inh x i { m with trk := { m.trk with positive := false } }).cases with
      ⟨h1, h2⟩ | ⟨m1, m2, h1, h2, ht⟩ | ⟨i', m', a, h1, h2⟩ <;> rw [h1, h2]
    simp only [ht]
  | _ => simp [Node.continuesAfterFailure] at hn

end PestTyped
