/-
Lemmas.Spans — every span a run stores (on the stack, in the value) is a piece of the input:
it starts and ends on character boundaries of the text the run was started on, lies between the
base cursor and the end, and its text is literally the text between its offsets.

`b` is a *base* cursor: the cursor of the entry point, or any earlier cursor of the same input;
all cursors of a run are `b.Adv`-reachable (S2).
-/
import PestTyped.Lemmas.CursorRun
namespace PestTyped

/-- `sp` is a piece of the remaining text of `b`: `b.rest = p ++ sp.txt ++ q`, `sp.s` is the offset
after `p`, `sp.e` the offset after `sp.txt`.  So both ends are character boundaries in range and
`sp.txt` is what `Span::as_str` would slice. -/
def Sp.In (b : Inp) (sp : Sp) : Prop :=
  ∃ p q, b.rest = p ++ sp.txt ++ q ∧ sp.s = b.pos + blen p ∧ sp.e = sp.s + blen sp.txt

/-- The arithmetic content of `Sp.In`. -/
def Sp.Within (lo hi : Nat) (sp : Sp) : Prop :=
  lo ≤ sp.s ∧ sp.s ≤ sp.e ∧ sp.e ≤ hi ∧ sp.e = sp.s + blen sp.txt

theorem Sp.In.within {b : Inp} {sp : Sp} (h : sp.In b) : sp.Within b.pos b.endPos := by
  obtain ⟨p, q, hr, hs, he⟩ := h
  have : blen b.rest = blen p + blen sp.txt + blen q := by rw [hr, blen_append, blen_append]
  unfold Inp.endPos
  refine ⟨?_, ?_, ?_, he⟩ <;> omega

/-- A span stays a piece of the input when the base cursor is moved back. -/
theorem Sp.In.mono {b b' : Inp} {sp : Sp} (hb : b.Adv b') (h : sp.In b') : sp.In b := by
  obtain ⟨pre, suf, hr, hrest, hpos⟩ := hb.boundary
  obtain ⟨p, q, hr', hs, he⟩ := h
  refine ⟨pre ++ p, q, ?_, ?_, he⟩
  · rw [hr, ← hrest, hr']; simp [List.append_assoc]
  · rw [blen_append, hs, hpos]; omega

theorem Inp.spanTo_in {b i i' : Inp} (hb : b.Adv i) (hi : i.Adv i') : (i.spanTo i').In b := by
  obtain ⟨j, hj, rfl⟩ := hb
  obtain ⟨k, hk, rfl⟩ := hi
  simp only [Inp.adv] at hk
  refine ⟨b.rest.take j, (b.rest.drop j).drop k, ?_, ?_, ?_⟩
  · simp only [Inp.spanTo, Inp.adv, List.length_drop]
    have : (b.rest.length - j) - ((b.rest.length - j) - k) = k := by
      simp only [List.length_drop] at hk; omega
    rw [this, List.append_assoc, List.take_append_drop, List.take_append_drop]
  · simp [Inp.spanTo, Inp.adv]
  · simp only [Inp.spanTo, Inp.adv, List.length_drop]
    have : (b.rest.length - j) - ((b.rest.length - j) - k) = k := by
      simp only [List.length_drop] at hk; omega
    rw [this]

/-- All spans on a stack are pieces of the input. -/
def StkIn (b : Inp) (stk : List Sp) : Prop := ∀ sp ∈ stk, sp.In b

theorem StkIn.nil (b : Inp) : StkIn b [] := by intro sp h; cases h
theorem StkIn.cons {b : Inp} {sp : Sp} {stk : List Sp} (h : sp.In b) (hs : StkIn b stk) :
    StkIn b (sp :: stk) := by
  intro x hx
  rcases List.mem_cons.mp hx with rfl | hx
  · exact h
  · exact hs x hx
theorem StkIn.tail {b : Inp} {sp : Sp} {stk : List Sp} (hs : StkIn b (sp :: stk)) : StkIn b stk :=
  fun x hx => hs x (List.mem_cons_of_mem _ hx)
theorem StkIn.head {b : Inp} {sp : Sp} {stk : List Sp} (hs : StkIn b (sp :: stk)) : sp.In b :=
  hs sp List.mem_cons_self

/-- The spans carried by a value constructor. -/
def Tag.SpansIn (b : Inp) : Tag → Prop
  | .skipUntil sp => sp.In b
  | .skipChars sp => sp.In b
  | .peek sp => sp.In b
  | .peekAll sp => sp.In b
  | .pop sp => sp.In b
  | .popAll sp => sp.In b
  | .rule _ _ _ s e => ∃ t, Sp.In b ⟨s, e, t⟩
  | _ => True

/-- Every span anywhere in a value is a piece of the input. -/
inductive Val.SpansIn (b : Inp) : Val → Prop
  | mk {t : Tag} {kids : List Val} : t.SpansIn b → (∀ v ∈ kids, Val.SpansIn b v) →
      Val.SpansIn b (.mk t kids)

theorem Val.SpansIn.leaf {b : Inp} {t : Tag} (h : t.SpansIn b) : (Val.leaf t).SpansIn b :=
  .mk h (fun _ hv => by cases hv)

theorem Val.SpansIn.tag {b : Inp} {v : Val} (h : v.SpansIn b) : v.tag.SpansIn b := by
  cases h; assumption
theorem Val.SpansIn.kids {b : Inp} {v : Val} (h : v.SpansIn b) : ∀ k ∈ v.kids, k.SpansIn b := by
  cases h; assumption

theorem defaultSkipVal_spans (g : NodeGrammar) (b : Inp) : (defaultSkipVal g).SpansIn b := by
  unfold defaultSkipVal
  split
  · exact .mk trivial (fun _ hv => by cases hv)
  · exact .leaf trivial

theorem mkSkipped_spans {b : Inp} {sk : List Val} {a : Val} (hsk : ∀ v ∈ sk, v.SpansIn b)
    (ha : a.SpansIn b) : (mkSkipped sk a).SpansIn b := by
  refine .mk trivial ?_
  intro v hv
  rcases List.mem_append.mp hv with h | h
  · exact hsk v h
  · rw [List.mem_singleton.mp h]; exact ha

/-- What the invariant says of a result: the stack left behind holds pieces of the input, and
(on success) so does the value. -/
def SpOk {α} (b : Inp) (P : α → Prop) : R α → Prop
  | .oof => True
  | .fail m' => StkIn b m'.stk
  | .ok _ m' a => StkIn b m'.stk ∧ P a

def SpFn {α} (b : Inp) (P : α → Prop) (f : Inp → M → R α) : Prop :=
  ∀ i m, b.Adv i → StkIn b m.stk → SpOk b P (f i m)

theorem SpOk.forget {α} {b : Inp} {P : α → Prop} {r : R α} (h : SpOk b P r) :
    SpOk b (fun _ => True) r.forget := by
  cases r with
  | oof => trivial
  | fail m => exact h
  | ok i m a => exact ⟨h.1, trivial⟩

theorem SpOk.restore {α} {b : Inp} {P : α → Prop} {r : R α} {saved : List Sp}
    (hs : StkIn b saved) (h : SpOk b P r) : SpOk b P (restoreOnNone saved r) := by
  cases r with
  | oof => trivial
  | fail m => exact hs
  | ok i m a => exact h

theorem skipLoop_spans {α} {b : Inp} {P : α → Prop} {f : Inp → M → R α} (hf : SpFn b P f) (ha : AdvFn f) :
    ∀ k i m acc, b.Adv i → StkIn b m.stk → (∀ a ∈ acc, P a) →
      SpOk b (fun l => ∀ a ∈ l, P a) (skipLoop f k i m acc) := by
  intro k
  induction k with
  | zero =>
    intro i m acc _ hs hacc
    exact ⟨hs, fun a h => hacc a (List.mem_reverse.mp h)⟩
  | succ k ih =>
    intro i m acc hb hs hacc
    simp only [skipLoop]
    have h1 := hf i m hb hs
    cases hr : f i m with
    | oof => trivial
    | fail m' => rw [hr] at h1; exact h1
    | ok i' m' a =>
      rw [hr] at h1
      refine ih _ _ _ (hb.trans (ha _ _ _ _ _ hr)) h1.1 ?_
      intro x hx
      rcases List.mem_cons.mp hx with rfl | hx
      · exact h1.2
      · exact hacc x hx

theorem seqLoop_spans {α β} {b : Inp} {P : α → Prop} {Q : β → Prop}
    {f : Node → Inp → M → R α} {sk : Inp → M → R (List β)} {mk : List β → α → α}
    (hf : ∀ n, SpFn b P (f n)) (haf : ∀ n, AdvFn (f n))
    (hs : SpFn b (fun l => ∀ x ∈ l, Q x) sk) (has : AdvFn sk)
    (hmk : ∀ l a, (∀ x ∈ l, Q x) → P a → P (mk l a)) :
    ∀ ns i m acc, b.Adv i → StkIn b m.stk → (∀ a ∈ acc, P a) →
      SpOk b (fun l => ∀ a ∈ l, P a) (seqLoop f sk mk ns i m acc) := by
  intro ns
  induction ns with
  | nil =>
    intro i m acc _ hst hacc
    exact ⟨hst, fun a h => hacc a (List.mem_reverse.mp h)⟩
  | cons n ns ih =>
    intro i m acc hb hst hacc
    simp only [seqLoop]
    have h1 := hs i m hb hst
    cases hr : sk i m with
    | oof => trivial
    | fail m' => rw [hr] at h1; exact h1
    | ok i' m' l =>
      rw [hr] at h1
      have hb1 := hb.trans (has _ _ _ _ _ hr)
      simp only []
      have h2 := hf n i' m' hb1 h1.1
      cases hr2 : f n i' m' with
      | oof => trivial
      | fail m'' => rw [hr2] at h2; exact h2
      | ok i'' m'' a =>
        rw [hr2] at h2
        refine ih _ _ _ (hb1.trans (haf n _ _ _ _ _ hr2)) h2.1 ?_
        intro x hx
        rcases List.mem_cons.mp hx with rfl | hx
        · exact hmk _ _ h1.2 h2.2
        · exact hacc x hx

theorem choiceLoop_spans {α} {b : Inp} {P : α → Prop} {f : Node → Inp → M → R α}
    (hf : ∀ n, SpFn b P (f n)) :
    ∀ ns k i m, b.Adv i → StkIn b m.stk → SpOk b (fun p => P p.2) (choiceLoop f ns k i m) := by
  intro ns
  induction ns with
  | nil => intro k i m _ hst; exact hst
  | cons n ns ih =>
    intro k i m hb hst
    simp only [choiceLoop]
    have h1 := (hf n i m hb hst).restore hst
    cases hr : restoreOnNone m.stk (f n i m) with
    | oof => trivial
    | fail m' => rw [hr] at h1; exact ih _ _ _ hb h1
    | ok i' m' a => rw [hr] at h1; exact h1

theorem repLoop_spans {α} {b : Inp} {P : α → Prop} {u : Nat → Inp → M → R α}
    (hu : ∀ idx, SpFn b P (u idx)) (hau : ∀ idx, AdvFn (u idx)) (min : Nat) (max : Option Nat) :
    ∀ budget idx i m acc, b.Adv i → StkIn b m.stk → (∀ a ∈ acc, P a) →
      SpOk b (fun l => ∀ a ∈ l, P a) (repLoop u min max budget idx i m acc) := by
  intro budget
  induction budget with
  | zero => intros; trivial
  | succ bd ih =>
    intro idx i m acc hb hst hacc
    have hrev : ∀ a ∈ acc.reverse, P a := fun a h => hacc a (List.mem_reverse.mp h)
    simp only [repLoop]
    by_cases hmax : max = some idx
    · simp only [hmax, if_true]
      rcases repDone_cases min (some idx) i m acc with hd | hd <;> rw [hd]
      · exact hst
      · exact ⟨hst, hrev⟩
    · simp only [hmax, if_false]
      have h1 := (hu idx i m hb hst).restore hst
      cases hr : restoreOnNone m.stk (u idx i m) with
      | oof => trivial
      | fail m' =>
        rw [hr] at h1
        simp only []
        split
        · exact h1
        · rcases repDone_cases min max i m' acc with hd | hd <;> rw [hd]
          · exact h1
          · exact ⟨h1, hrev⟩
      | ok i' m' a =>
        rw [hr] at h1
        refine ih _ _ _ _ (hb.trans (hau idx _ _ _ _ _ (restoreOnNone_ok hr))) h1.1 ?_
        intro x hx
        rcases List.mem_cons.mp hx with rfl | hx
        · exact h1.2
        · exact hacc x hx

theorem arrayLoop_spans {α} {b : Inp} {P : α → Prop} {f : Inp → M → R α} (hf : SpFn b P f) (ha : AdvFn f) :
    ∀ k i m acc, b.Adv i → StkIn b m.stk → (∀ a ∈ acc, P a) →
      SpOk b (fun l => ∀ a ∈ l, P a) (arrayLoop f k i m acc) := by
  intro k
  induction k with
  | zero =>
    intro i m acc _ hs hacc
    exact ⟨hs, fun a h => hacc a (List.mem_reverse.mp h)⟩
  | succ k ih =>
    intro i m acc hb hs hacc
    simp only [arrayLoop]
    have h1 := hf i m hb hs
    cases hr : f i m with
    | oof => trivial
    | fail m' => rw [hr] at h1; exact h1
    | ok i' m' a =>
      rw [hr] at h1
      refine ih _ _ _ (hb.trans (ha _ _ _ _ _ hr)) h1.1 ?_
      intro x hx
      rcases List.mem_cons.mp hx with rfl | hx
      · exact h1.2
      · exact hacc x hx

theorem repUnitP_spans {b : Inp} {sk body : Inp → M → R Val}
    (hs : SpFn b (Val.SpansIn b) sk) (has : AdvFn sk) (hbd : SpFn b (Val.SpansIn b) body)
    {dflt : Val} (hd : dflt.SpansIn b) (k idx : Nat) :
    SpFn b (Val.SpansIn b) (repUnitP sk body dflt k idx) := by
  intro i m hb hst
  unfold repUnitP
  by_cases h0 : idx = 0
  · simp only [h0, if_true]
    have h1 := hbd i m hb hst
    cases hr : body i m with
    | oof => trivial
    | fail m' => rw [hr] at h1; exact h1
    | ok i' m' v =>
      rw [hr] at h1
      refine ⟨h1.1, mkSkipped_spans ?_ h1.2⟩
      intro x hx; rw [(List.mem_replicate.mp hx).2]; exact hd
  · simp only [h0, if_false]
    have h1 := skipLoop_spans hs has k i m [] hb hst (fun _ h => by cases h)
    cases hr : skipLoop sk k i m [] with
    | oof => trivial
    | fail m' => rw [hr] at h1; exact h1
    | ok i' m' l =>
      rw [hr] at h1
      simp only []
      have h2 := hbd i' m' (hb.trans (skipLoop_adv sk has _ _ _ _ _ _ _ hr)) h1.1
      cases hr2 : body i' m' with
      | oof => trivial
      | fail m'' => rw [hr2] at h2; exact h2
      | ok i'' m'' v =>
        rw [hr2] at h2
        exact ⟨h2.1, mkSkipped_spans h1.2 h2.2⟩

theorem peekSpans_in_of_adv {b i i' : Inp} (hb : b.Adv i) {sps : List Sp}
    (h : peekSpans sps i = some i') : (i.spanTo i').In b :=
  Inp.spanTo_in hb (peekSpans_adv _ _ _ h)

/-- The span invariant for `parse`: from a state whose stack holds pieces of the input, every
result state's stack does, and so does every span in the value. -/
theorem parse_spans (g : NodeGrammar) (uni : Uni) (b : Inp) :
    ∀ (n : Nat) (inh : Bool) (node : Node), SpFn b (Val.SpansIn b) (parse g uni n inh node) := by
  intro n
  induction n with
  | zero => intro inh node i m _ _; trivial
  | succ n ih =>
    intro inh node i m hb hst
    have iha := parse_adv g uni n
    have ihc : ∀ inh node, SpFn b (fun _ => True) (check g uni n inh node) := by
      intro inh node i m hb hst
      rw [check_eq_parse_forget]
      exact (ih inh node i m hb hst).forget
    cases node with
    | str s =>
      simp only [parse]; split
      · exact ⟨hst, .leaf trivial⟩
      · exact hst
    | insens s =>
      simp only [parse]; split
      · exact ⟨hst, .leaf trivial⟩
      · exact hst
    | range lo hi =>
      simp only [parse]; split
      · exact ⟨hst, .leaf trivial⟩
      · exact hst
    | any =>
      simp only [parse]; split
      · exact ⟨hst, .leaf trivial⟩
      · exact hst
    | soi =>
      simp only [parse]; split
      · exact ⟨hst, .leaf trivial⟩
      · exact hst
    | eoi =>
      simp only [parse]; split
      · exact ⟨hst, .leaf trivial⟩
      · exact hst
    | newline =>
      simp only [parse]; split
      · exact ⟨hst, .leaf trivial⟩
      · exact hst
    | charBy p =>
      simp only [parse]; split
      · exact ⟨hst, .leaf trivial⟩
      · exact hst
    | skipUntil needles =>
      simp only [parse]
      exact ⟨hst, .leaf (Inp.spanTo_in hb (Inp.skipUntil_adv _ _))⟩
    | skipChars k =>
      simp only [parse]; split
      · next i' h1 => exact ⟨hst, .leaf (Inp.spanTo_in hb (Inp.skipN_adv h1))⟩
      · exact hst
    | seq sk items =>
      simp only [parse]
      cases items with
      | nil => exact ⟨hst, .mk trivial (fun _ h => by cases h)⟩
      | cons n0 ns =>
        simp only []
        have h1 := ih inh n0 i m hb hst
        cases hr : parse g uni n inh n0 i m with
        | oof => trivial
        | fail m' => rw [hr] at h1; exact h1
        | ok i' m' v0 =>
          rw [hr] at h1
          simp only []
          have hskA : AdvFn (fun i m => skipLoop (parse g uni n false g.skipped) (skipCount sk inh) i m []) :=
            fun i m i' m' a hh => skipLoop_adv _ (iha false g.skipped) _ _ _ _ _ _ _ hh
          have hskS : SpFn b (fun l => ∀ x ∈ l, Val.SpansIn b x)
              (fun i m => skipLoop (parse g uni n false g.skipped) (skipCount sk inh) i m []) :=
            fun i m hb hst => skipLoop_spans (ih false g.skipped) (iha false g.skipped) _ i m [] hb hst
              (fun _ h => by cases h)
          have h2 := seqLoop_spans (mk := mkSkipped) (ih inh) (iha inh) hskS hskA
            (fun l a hl ha => mkSkipped_spans hl ha) ns i' m' []
            (hb.trans (iha inh n0 _ _ _ _ _ hr)) h1.1 (fun _ h => by cases h)
          cases hr2 : seqLoop (parse g uni n inh)
              (fun i m => skipLoop (parse g uni n false g.skipped) (skipCount sk inh) i m [])
              mkSkipped ns i' m' [] with
          | oof => trivial
          | fail m'' => rw [hr2] at h2; exact h2
          | ok i'' m'' vs =>
            rw [hr2] at h2
            refine ⟨h2.1, .mk trivial ?_⟩
            intro x hx
            rcases List.mem_cons.mp hx with rfl | hx
            · refine mkSkipped_spans ?_ h1.2
              intro y hy; rw [(List.mem_replicate.mp hy).2]; exact defaultSkipVal_spans g b
            · exact h2.2 x hx
    | choice alts =>
      simp only [parse]
      have h1 := choiceLoop_spans (ih inh) alts 0 i m hb hst
      cases hr : choiceLoop (parse g uni n inh) alts 0 i m with
      | oof => trivial
      | fail m' => rw [hr] at h1; exact h1
      | ok i' m' kv =>
        rw [hr] at h1
        obtain ⟨k, v⟩ := kv
        exact ⟨h1.1, .mk trivial (fun x hx => by rw [List.mem_singleton.mp hx]; exact h1.2)⟩
    | opt x =>
      simp only [parse]
      have h1 := (ih inh x i m hb hst).restore hst
      cases hr : restoreOnNone m.stk (parse g uni n inh x i m) with
      | oof => trivial
      | fail m' => rw [hr] at h1; exact ⟨h1, .leaf trivial⟩
      | ok i' m' v =>
        rw [hr] at h1
        exact ⟨h1.1, .mk trivial (fun y hy => by rw [List.mem_singleton.mp hy]; exact h1.2)⟩
    | rep sk min max x =>
      simp only [parse]
      have h1 := repLoop_spans
        (fun idx => repUnitP_spans (ih false g.skipped) (iha false g.skipped) (ih inh x)
          (defaultSkipVal_spans g b) (skipCount sk inh) idx)
        (fun idx => repUnitP_adv _ _ (iha false g.skipped) (iha inh x) _ _ idx)
        min max n 0 i m [] hb hst (fun _ h => by cases h)
      cases hr : repLoop (repUnitP (parse g uni n false g.skipped) (parse g uni n inh x)
          (defaultSkipVal g) (skipCount sk inh)) min max n 0 i m [] with
      | oof => trivial
      | fail m' => rw [hr] at h1; exact h1
      | ok i' m' vs => rw [hr] at h1; exact ⟨h1.1, .mk trivial h1.2⟩
    | atomicRepeat x =>
      simp only [parse]
      have h1 := repLoop_spans (u := fun _ i m => parse g uni n inh x i m)
        (fun _ => ih inh x) (fun _ => iha inh x) 0 none (atomicBudget n) 0 i
        { m with trk := Tracker.new i } [] hb hst (fun _ h => by cases h)
      cases hr : repLoop (fun _ i m => parse g uni n inh x i m) 0 none (atomicBudget n) 0 i
          { m with trk := Tracker.new i } [] with
      | oof => trivial
      | fail m' => rw [hr] at h1; exact h1
      | ok i' m' vs => rw [hr] at h1; exact ⟨h1.1, .mk trivial h1.2⟩
    | pos x =>
      simp only [parse]
      have h1 := ih inh x i { m with trk := { m.trk with positive := true } } hb hst
      cases hr : parse g uni n inh x i { m with trk := { m.trk with positive := true } } with
      | oof => trivial
      | fail m' => exact hst
      | ok i' m' v =>
        rw [hr] at h1
        exact ⟨hst, .mk trivial (fun y hy => by rw [List.mem_singleton.mp hy]; exact h1.2)⟩
    | neg x =>
      simp only [parse]
      cases hr : check g uni n inh x i { m with trk := { m.trk with positive := false } } with
      | oof => trivial
      | fail m' => exact ⟨hst, .leaf trivial⟩
      | ok i' m' v => exact hst
    | push x =>
      simp only [parse]
      have h1 := ih inh x i m hb hst
      cases hr : parse g uni n inh x i m with
      | oof => trivial
      | fail m' => rw [hr] at h1; exact h1
      | ok i' m' v =>
        rw [hr] at h1
        exact ⟨StkIn.cons (Inp.spanTo_in hb (iha inh x _ _ _ _ _ hr)) h1.1,
          .mk trivial (fun y hy => by rw [List.mem_singleton.mp hy]; exact h1.2)⟩
    | peek =>
      simp only [parse]
      split
      · exact hst
      · split
        · next h1 => exact ⟨hst, .leaf (Inp.spanTo_in hb (Inp.matchString_adv h1))⟩
        · exact hst
    | peekAll =>
      simp only [parse]
      split
      · next h1 => exact ⟨hst, .leaf (peekSpans_in_of_adv hb h1)⟩
      · exact hst
    | pop =>
      simp only [parse]
      split
      · exact hst
      · next sp rest hs =>
        rw [hs] at hst
        split
        · exact ⟨hst.tail, .leaf hst.head⟩
        · exact hst.tail
    | popAll =>
      simp only [parse]
      split
      · next h1 => exact ⟨StkIn.nil b, .leaf (peekSpans_in_of_adv hb h1)⟩
      · exact hst
    | drop =>
      simp only [parse]
      split
      · exact hst
      · next sp rest hs => rw [hs] at hst; exact ⟨hst.tail, .leaf trivial⟩
    | peekSlice a c =>
      simp only [parse]
      split
      · exact hst
      · split
        · exact ⟨hst, .leaf trivial⟩
        · split
          · exact ⟨hst, .leaf trivial⟩
          · exact hst
    | ref r f =>
      simp only [parse]
      cases g.rule? r with
      | none => exact hst
      | some d =>
        simp only []
        cases d.emit with
        | expression =>
          simp only []
          have h1 := ih (f.eval inh) d.body i m hb hst
          cases hr : parse g uni n (f.eval inh) d.body i m with
          | oof => trivial
          | fail m' => rw [hr] at h1; exact h1
          | ok i' m' v =>
            rw [hr] at h1
            exact ⟨h1.1, .mk ⟨_, Inp.spanTo_in hb (iha _ _ _ _ _ _ _ hr)⟩
              (fun y hy => by rw [List.mem_singleton.mp hy]; exact h1.2)⟩
        | span =>
          simp only []
          have h1 := ihc (f.eval inh) d.body i { m with trk := m.trk.enter r i.pos } hb hst
          cases hr : check g uni n (f.eval inh) d.body i { m with trk := m.trk.enter r i.pos } with
          | oof => trivial
          | fail m' => rw [hr] at h1; exact h1
          | ok i' m' v =>
            rw [hr] at h1
            exact ⟨h1.1, .mk ⟨_, Inp.spanTo_in hb (check_adv g uni n _ _ _ _ _ _ _ hr)⟩
              (fun y hy => by cases hy)⟩
        | both =>
          simp only []
          have h1 := ih (f.eval inh) d.body i { m with trk := m.trk.enter r i.pos } hb hst
          cases hr : parse g uni n (f.eval inh) d.body i { m with trk := m.trk.enter r i.pos } with
          | oof => trivial
          | fail m' => rw [hr] at h1; exact h1
          | ok i' m' v =>
            rw [hr] at h1
            exact ⟨h1.1, .mk ⟨_, Inp.spanTo_in hb (iha _ _ _ _ _ _ _ hr)⟩
              (fun y hy => by rw [List.mem_singleton.mp hy]; exact h1.2)⟩
    | array k x =>
      simp only [parse, arrayTryInto_arrayLoop]
      have h1 := arrayLoop_spans (ih inh x) (iha inh x) k i m [] hb hst (fun _ h => by cases h)
      cases hr : arrayLoop (parse g uni n inh x) k i m [] with
      | oof => trivial
      | fail m' => rw [hr] at h1; exact h1
      | ok i' m' vs => rw [hr] at h1; exact ⟨h1.1, .mk trivial h1.2⟩
    | pair a c =>
      simp only [parse]
      have h1 := ih inh a i m hb hst
      cases hr : parse g uni n inh a i m with
      | oof => trivial
      | fail m' => rw [hr] at h1; exact h1
      | ok i' m' va =>
        rw [hr] at h1
        simp only []
        have h2 := ih inh c i' m' (hb.trans (iha inh a _ _ _ _ _ hr)) h1.1
        cases hr2 : parse g uni n inh c i' m' with
        | oof => trivial
        | fail m'' => rw [hr2] at h2; exact h2
        | ok i'' m'' vb =>
          rw [hr2] at h2
          refine ⟨h2.1, .mk trivial ?_⟩
          intro y hy
          rcases List.mem_cons.mp hy with rfl | hy
          · exact h1.2
          · rw [List.mem_singleton.mp hy]; exact h2.2
    | empty => simp only [parse]; exact ⟨hst, .leaf trivial⟩
    | alwaysFail => simp only [parse]; exact hst

/-- The span invariant for `check` (no value). -/
theorem check_spans (g : NodeGrammar) (uni : Uni) (b : Inp) (n : Nat) (inh : Bool) (node : Node) :
    SpFn b (fun _ => True) (check g uni n inh node) := by
  intro i m hb hst
  rw [check_eq_parse_forget]
  exact (parse_spans g uni b n inh node i m hb hst).forget

end PestTyped
