/-
Lemmas.Sim — vocabulary and loop lemmas for the forward simulation (C01): the typed run of a
generated node is related to the reference semantics `spec`.

* `Rel rt rs`     : a typed result `rt` shows the outcome `rs` of the Spec (verdict, cursor, stack).
* `EvRel T rs`       : the fuel-indexed typed computation `T` is *eventually constant* with a result
                    related to `rs` (so two such facts combine by adding their thresholds; no loop
                    monotonicity lemma is needed downstream).
* small facts about `gen`: rule table, `indexOf`, flag invariant S5, built-ins, `Skipped`.
* the hypothesis on WHITESPACE / COMMENT: `SkipRulesAtomic`, the weaker `SkipRulesAtomicLike`
  (`spec_simple_na`: a simple body never consults the atomicity; `spec_body_flag`: what replaces S5).
* loops: `repLoop_sim` (typed `repLoop` vs `specRepLoop`).
-/
import PestTyped.Model.Spec
import PestTyped.Model.Gen
import PestTyped.Lemmas.Mono
import PestTyped.Lemmas.SkipLike
namespace PestTyped

/-! ### the simulation relation -/

/-- The typed result `rt` shows the Spec outcome `rs`: nothing is claimed when the Spec ran out
of fuel; a Spec failure is a typed failure (whatever state it leaves); a Spec success is a typed
success at the same cursor with the same stack. -/
def Rel {α} (rt : R α) (rs : SR) : Prop :=
  match rs with
  | .oof => True
  | .fail => ∃ m', rt = .fail m'
  | .ok i' S' => ∃ m' v, rt = .ok i' m' v ∧ m'.stk = S'

/-- What the Spec can see of a typed result. -/
def Res.outcome {α} : R α → SR
  | .oof => .oof
  | .fail _ => .fail
  | .ok i m _ => .ok i m.stk

theorem rel_iff_outcome {α} (rt : R α) (rs : SR) : Rel rt rs ↔ (rs = .oof ∨ rt.outcome = rs) := by
  cases rs with
  | oof => simp [Rel]
  | fail =>
    cases rt <;> simp [Rel, Res.outcome]
  | ok i S =>
    cases rt with
    | oof => simp [Rel, Res.outcome]
    | fail m => simp [Rel, Res.outcome]
    | ok i' m' v =>
      simp only [Rel, Res.outcome]
      constructor
      · rintro ⟨m1, v1, h, hs⟩
        injection h with h1 h2 h3
        subst h1; subst h2
        exact Or.inr (by rw [hs])
      · rintro (h | h)
        · cases h
        · injection h with h1 h2
          subst h1
          exact ⟨m', v, rfl, h2⟩

theorem Rel.outcome_eq {α} {rt : R α} {rs : SR} (h : Rel rt rs) (hne : rs ≠ .oof) : rt.outcome = rs := by
  rcases (rel_iff_outcome rt rs).1 h with h | h
  · exact absurd h hne
  · exact h

theorem Rel.ne_oof {α} {rt : R α} {rs : SR} (h : Rel rt rs) (hne : rs ≠ .oof) : rt ≠ .oof := by
  intro h0
  have := h.outcome_eq hne
  rw [h0] at this
  exact hne this.symm

theorem outcome_forget {α} (r : R α) : r.forget.outcome = r.outcome := by
  cases r <;> rfl

theorem Rel.forget {α} {rt : R α} {rs : SR} (h : Rel rt rs) : Rel rt.forget rs := by
  rw [rel_iff_outcome] at h ⊢
  rw [outcome_forget]
  exact h

/-! ### eventually constant typed computations -/

/-- From some fuel on, `T` returns one and the same result, which shows the Spec outcome `rs`. -/
def EvRel {α} (T : Nat → R α) (rs : SR) : Prop :=
  ∃ n0 r, Rel r rs ∧ ∀ n, n0 ≤ n → T n = r

theorem EvRel.mk_fail {α} {T : Nat → R α} (n0 : Nat) (m : M) (h : ∀ n, n0 ≤ n → T n = .fail m) : EvRel T .fail :=
  ⟨n0, .fail m, ⟨m, rfl⟩, h⟩

theorem EvRel.mk_ok {α} {T : Nat → R α} (n0 : Nat) (i : Inp) (m : M) (v : α)
    (h : ∀ n, n0 ≤ n → T n = .ok i m v) : EvRel T (.ok i m.stk) :=
  ⟨n0, .ok i m v, ⟨m, v, rfl, rfl⟩, h⟩

theorem EvRel.mk_ok' {α} {T : Nat → R α} {S : List Sp} (n0 : Nat) (i : Inp) (m : M) (v : α) (hs : m.stk = S)
    (h : ∀ n, n0 ≤ n → T n = .ok i m v) : EvRel T (.ok i S) :=
  ⟨n0, .ok i m v, ⟨m, v, rfl, hs⟩, h⟩

theorem EvRel.fail {α} {T : Nat → R α} {rs : SR} (h : EvRel T rs) (hrs : rs = .fail) :
    ∃ n0 m, ∀ n, n0 ≤ n → T n = .fail m := by
  subst hrs
  obtain ⟨n0, r, ⟨m, rfl⟩, hc⟩ := h
  exact ⟨n0, m, hc⟩

theorem EvRel.ok {α} {T : Nat → R α} {rs : SR} {i1 : Inp} {S1 : List Sp} (h : EvRel T rs) (hrs : rs = .ok i1 S1) :
    ∃ n0 t v, ∀ n, n0 ≤ n → T n = .ok i1 ⟨S1, t⟩ v := by
  subst hrs
  obtain ⟨n0, r, ⟨m, v, rfl, hs⟩, hc⟩ := h
  cases m with
  | mk stk trk =>
    simp only at hs
    subst hs
    exact ⟨n0, trk, v, hc⟩

theorem EvRel.congr {α} {T T' : Nat → R α} {rs : SR} (h : EvRel T rs) (hT : ∀ n, T' n = T n) : EvRel T' rs := by
  obtain ⟨n0, r, hr, hc⟩ := h
  exact ⟨n0, r, hr, fun n hn => by rw [hT]; exact hc n hn⟩

/-- An `EvRel` fact gives one fuel at which the typed result is related (and not out of fuel). -/
theorem EvRel.exists {α} {T : Nat → R α} {rs : SR} (h : EvRel T rs) : ∃ n, Rel (T n) rs := by
  obtain ⟨n0, r, hr, hc⟩ := h
  exact ⟨n0, by rw [hc n0 (Nat.le_refl _)]; exact hr⟩

/-- For `parse`, one related fuel is enough (fuel monotonicity S1). -/
theorem EvRel.of_parse {G : NodeGrammar} {uni : Uni} {inh : Bool} {nd : Node} {i : Inp} {m : M} {rs : SR}
    (n : Nat) (h : Rel (parse G uni n inh nd i m) rs) (hne : rs ≠ .oof) :
    EvRel (fun n' => parse G uni n' inh nd i m) rs := by
  refine ⟨n, parse G uni n inh nd i m, h, fun n' hn => ?_⟩
  have := parse_mono (g := G) (uni := uni) (n := n) (inh := inh) (node := nd) (i := i) (m := m) rfl
    (h.ne_oof hne) (n' - n)
  rw [show n + (n' - n) = n' by omega] at this
  exact this

/-! ### facts about the generated module -/

theorem gen_rule_zero (g : PGrammar) : (gen g).rule? 0 = some eoiDef := rfl

theorem gen_rule_succ (g : PGrammar) (k : Nat) : (gen g).rule? (k+1) = (g[k]?).map (genRule g) := by
  simp [gen, NodeGrammar.rule?]

theorem gen_skipped (g : PGrammar) : (gen g).skipped = genSkipped g := rfl

theorem indexOf_go_sound (name : String) : ∀ (l : List PRule) (k0 k : Nat),
    PGrammar.indexOf.go name l k0 = some k → k0 ≤ k ∧ ∃ r, l[k - k0]? = some r ∧ r.name = name := by
  intro l
  induction l with
  | nil => intro k0 k h; simp [PGrammar.indexOf.go] at h
  | cons r rs ih =>
    intro k0 k h
    simp only [PGrammar.indexOf.go] at h
    by_cases hn : r.name = name
    · simp only [hn, if_true] at h
      injection h with h
      subst h
      exact ⟨Nat.le_refl _, r, by simp, hn⟩
    · simp only [hn, if_false] at h
      obtain ⟨hle, r', hr', hn'⟩ := ih _ _ h
      refine ⟨by omega, r', ?_, hn'⟩
      have : k - k0 = (k - (k0 + 1)) + 1 := by omega
      rw [this]
      simpa using hr'

theorem indexOf_spec {g : PGrammar} {name : String} {k : Nat} (h : g.indexOf name = some k) :
    ∃ r, g[k]? = some r ∧ r.name = name := by
  obtain ⟨_, r, hr, hn⟩ := indexOf_go_sound name g 0 k h
  exact ⟨r, by simpa using hr, hn⟩

theorem find?_of_indexOf {g : PGrammar} {name : String} {k : Nat} (h : g.indexOf name = some k) :
    g.find? name = g[k]? := by
  simp [PGrammar.find?, h]

theorem find?_of_indexOf_none {g : PGrammar} {name : String} (h : g.indexOf name = none) :
    g.find? name = none := by
  simp [PGrammar.find?, h]

/-- WHITESPACE / COMMENT are declared atomic (`@`) or compound-atomic (`$`) — or are not defined.
(pest forces the bodies of rules with these names to be atomic whatever their declared kind;
pest-typed gives them their declared kind: known finding F-WS.  Under this hypothesis the two
agree.)  The simulations are proved under the WEAKER `SkipRulesAtomicLike` (Lemmas/SkipLike.lean,
`SkipRulesAtomic.like` below); this stronger form is kept for reference and for `flag_invariant`. -/
def SkipRulesAtomic (g : PGrammar) : Prop :=
  ∀ r ∈ g, (r.name = "WHITESPACE" ∨ r.name = "COMMENT") → (r.kind = .atomic ∨ r.kind = .compoundAtomic)

/-- Flag invariant S5: the static skip flag of a rule body, evaluated against the `INHERITED`
argument the rule was entered with, is the Spec's dynamic atomicity inside the body. -/
theorem flag_invariant {g : PGrammar} (hws : SkipRulesAtomic g) {r : PRule} (hr : r ∈ g) (na : Bool) :
    (atomFlag (kindAtomicity r.kind)).eval na = bodyNa r.name r.kind na := by
  by_cases hn : r.name = "WHITESPACE" ∨ r.name = "COMMENT"
  · rcases hws r hr hn with hk | hk <;> simp [bodyNa, hn, hk, kindAtomicity, atomFlag, Flag.eval]
  · simp only [bodyNa, hn, if_false]
    cases r.kind <;> rfl

/-! ### the weaker hypothesis `SkipRulesAtomicLike` (Lemmas/SkipLike.lean) -/

/-- `SkipRulesAtomic` (every rule named WHITESPACE / COMMENT is `@` / `$`) implies
`SkipRulesAtomicLike` (the rule such a name resolves to is `@` / `$` or has a simple body). -/
theorem SkipRulesAtomic.like {g : PGrammar} (h : SkipRulesAtomic g) : SkipRulesAtomicLike g := by
  intro nm r hnm hf
  left
  cases hk : g.indexOf nm with
  | none => rw [find?_of_indexOf_none hk] at hf; cases hf
  | some k =>
    obtain ⟨r', hr', hn'⟩ := indexOf_spec hk
    rw [find?_of_indexOf hk, hr'] at hf
    injection hf with hf
    subst hf
    exact h r' (List.mem_of_getElem? hr') (by rw [hn']; exact hnm)

/-- In a simple body (no sequence, no repetition, only built-in names) the Spec never consults the
atomicity: same fuel, same answer under any two atomicities. -/
theorem spec_simple_na (g : PGrammar) (uni : Uni) : ∀ (n : Nat) (e : PExpr), SimpleSkipBody g e →
    ∀ (na na' : Bool) (i : Inp) (S : List Sp), spec g uni n na e i S = spec g uni n na' e i S := by
  intro n
  induction n with
  | zero => intro e _ na na' i S; rfl
  | succ n ih =>
    intro e he na na' i S
    cases e with
    | str s => simp only [spec]
    | insens s => simp only [spec]
    | range lo hi => simp only [spec]
    | ident name =>
      simp only [SimpleSkipBody] at he
      have hidx : g.indexOf name = none := by
        have := he.1
        simp only [PGrammar.defines] at this
        cases hx : g.indexOf name with
        | none => rfl
        | some k => rw [hx] at this; cases this
      simp only [spec, find?_of_indexOf_none hidx]
    | peekSlice a b => simp only [spec]
    | posPred e => simp only [SimpleSkipBody] at he; simp only [spec]; rw [ih e he na na']
    | negPred e => simp only [SimpleSkipBody] at he; simp only [spec]; rw [ih e he na na']
    | seq a b => simp only [SimpleSkipBody] at he
    | choice a b =>
      simp only [SimpleSkipBody] at he
      simp only [spec]
      rw [ih a he.1 na na', ih b he.2 na na']
    | opt e => simp only [SimpleSkipBody] at he; simp only [spec]; rw [ih e he na na']
    | rep e => simp only [SimpleSkipBody] at he
    | repOnce e => simp only [SimpleSkipBody] at he
    | repExact e k => simp only [SimpleSkipBody] at he
    | repMin e k => simp only [SimpleSkipBody] at he
    | repMax e k => simp only [SimpleSkipBody] at he
    | repMinMax e k l => simp only [SimpleSkipBody] at he
    | skip needles => simp only [spec]
    | push e => simp only [SimpleSkipBody] at he; simp only [spec]; rw [ih e he na na']
    | restoreOnErr e => simp only [SimpleSkipBody] at he; simp only [spec]; exact ih e he na na' i S

/-- Flag invariant S5 under the weaker hypothesis: for the rule a name resolves to, either the static
skip flag of the body evaluates to the Spec's dynamic atomicity inside the body, or the body is simple
(a WHITESPACE / COMMENT rule declared normal, silent or `!`), and then the atomicity is irrelevant. -/
theorem flag_invariant_like {g : PGrammar} (hws : SkipRulesAtomicLike g) {name : String} {k : Nat} {r : PRule}
    (hidx : g.indexOf name = some k) (hr : g[k]? = some r) (na : Bool) :
    (atomFlag (kindAtomicity r.kind)).eval na = bodyNa name r.kind na ∨ SimpleSkipBody g r.expr := by
  by_cases hn : name = "WHITESPACE" ∨ name = "COMMENT"
  · have hf : g.find? name = some r := by rw [find?_of_indexOf hidx, hr]
    rcases hws name r hn hf with (hk | hk) | hs
    · left; simp [bodyNa, hn, hk, kindAtomicity, atomFlag, Flag.eval]
    · left; simp [bodyNa, hn, hk, kindAtomicity, atomFlag, Flag.eval]
    · right; exact hs
  · left
    simp only [bodyNa, hn, if_false]
    cases r.kind <;> rfl

/-- What both simulations use: the Spec's run of the body of the rule `name` resolves to, under the
atomicity pest gives it (`bodyNa`), is its run under the atomicity the typed parser's static flag
evaluates to. -/
theorem spec_body_flag {g : PGrammar} (hws : SkipRulesAtomicLike g) {name : String} {k : Nat} {r : PRule}
    (hidx : g.indexOf name = some k) (hr : g[k]? = some r) (uni : Uni) (n : Nat) (na : Bool) (i : Inp)
    (S : List Sp) :
    spec g uni n (bodyNa name r.kind na) r.expr i S =
      spec g uni n ((atomFlag (kindAtomicity r.kind)).eval na) r.expr i S := by
  rcases flag_invariant_like hws hidx hr na with h | h
  · rw [h]
  · exact spec_simple_na g uni n r.expr h _ _ i S

/-! ### repetition loops -/

/-- Typed `repLoop` against `specRepLoop`: if every typed unit is eventually related to the Spec's
unit (from any tracker), and the typed iteration budget `B fuel` grows beyond every bound, then the
typed loop is eventually related to the Spec's loop.  The typed unit runs under `restore_on_none`,
which is what makes the stack after a failed iteration the Spec's (immutable) one. -/
theorem repLoop_sim {α} (U : Nat → Nat → Inp → M → R α) (u : Nat → Inp → List Sp → SR) (min : Nat)
    (mx : Option Nat)
    (hU : ∀ idx i S trk, u idx i S ≠ .oof → EvRel (fun n => U n idx i ⟨S, trk⟩) (u idx i S)) :
    ∀ (b : Nat) (B : Nat → Nat), (∀ k, ∃ n0, ∀ n, n0 ≤ n → k ≤ B n) → ∀ idx i S trk acc,
      acc.length = idx →
      specRepLoop u min mx b idx i S ≠ .oof →
      EvRel (fun n => repLoop (U n) min mx (B n) idx i ⟨S, trk⟩ acc) (specRepLoop u min mx b idx i S) := by
  intro b
  induction b with
  | zero => intro B hB idx i S trk acc _ hne; exact absurd rfl hne
  | succ b ih =>
    intro B hB idx i S trk acc hlen hne
    obtain ⟨nB, hnB⟩ := hB 1
    have hsucc : ∀ n, nB ≤ n → ∃ k, B n = k + 1 := fun n hn => ⟨B n - 1, by have := hnB n hn; omega⟩
    simp only [specRepLoop] at hne ⊢
    by_cases hmax : mx = some idx
    · simp only [hmax, if_true]
      by_cases hlt : idx < min
      · simp only [hlt, if_true]
        refine EvRel.mk_fail nB ⟨S, trk⟩ (fun n hn => ?_)
        obtain ⟨k, hk⟩ := hsucc n hn
        show repLoop (U n) min (some idx) (B n) idx i ⟨S, trk⟩ acc = _
        rw [hk]
        simp only [repLoop, if_true, repDone_some, hlen, hlt]
      · simp only [hlt, if_false]
        refine EvRel.mk_ok' nB i ⟨S, trk⟩ acc.reverse rfl (fun n hn => ?_)
        obtain ⟨k, hk⟩ := hsucc n hn
        show repLoop (U n) min (some idx) (B n) idx i ⟨S, trk⟩ acc = _
        rw [hk]
        simp only [repLoop, if_true, repDone_some, hlen, hlt, if_false]
    · simp only [hmax, if_false] at hne ⊢
      cases hu : u idx i S with
      | oof => rw [hu] at hne; exact absurd rfl hne
      | fail =>
        obtain ⟨n1, m1, h1⟩ := (hU idx i S trk (by rw [hu]; nofun)).fail hu
        simp only []
        by_cases hlt : idx < min
        · simp only [hlt, if_true]
          refine EvRel.mk_fail (n1 + nB) { m1 with stk := S } (fun n hn => ?_)
          obtain ⟨k, hk⟩ := hsucc n (by omega)
          show repLoop (U n) min mx (B n) idx i ⟨S, trk⟩ acc = _
          rw [hk]
          simp only [repLoop, hmax, if_false]
          rw [h1 n (by omega)]
          simp only [restoreOnNone, hlt, if_true]
        · simp only [hlt, if_false]
          refine EvRel.mk_ok' (n1 + nB) i { m1 with stk := S } acc.reverse rfl (fun n hn => ?_)
          obtain ⟨k, hk⟩ := hsucc n (by omega)
          show repLoop (U n) min mx (B n) idx i ⟨S, trk⟩ acc = _
          rw [hk]
          simp only [repLoop, hmax, if_false]
          rw [h1 n (by omega)]
          simp only [restoreOnNone, hlt, if_false]
          exact repDone_of_le _ _ _ _ _ (by omega)
      | ok i1 S1 =>
        obtain ⟨n1, t1, v1, h1⟩ := (hU idx i S trk (by rw [hu]; nofun)).ok hu
        rw [hu] at hne
        simp only [] at hne ⊢
        have hB' : ∀ k, ∃ n0, ∀ n, n0 ≤ n → k ≤ (fun n => B n - 1) n := by
          intro k
          obtain ⟨n0, h0⟩ := hB (k + 1)
          exact ⟨n0, fun n hn => by have := h0 n hn; simp only []; omega⟩
        obtain ⟨n2, r2, hr2, h2⟩ := ih (fun n => B n - 1) hB' (idx + 1) i1 S1 t1 (v1 :: acc)
          (by simp only [List.length_cons, hlen]) hne
        refine ⟨n1 + n2 + nB, r2, hr2, fun n hn => ?_⟩
        obtain ⟨k, hk⟩ := hsucc n (by omega)
        show repLoop (U n) min mx (B n) idx i ⟨S, trk⟩ acc = _
        rw [hk]
        simp only [repLoop, hmax, if_false]
        rw [h1 n (by omega)]
        simp only [restoreOnNone]
        have := h2 n (by omega)
        simp only [hk, Nat.add_sub_cancel] at this
        exact this

theorem atomicBudget_ge (n : Nat) : n + 1 ≤ atomicBudget n := by
  unfold atomicBudget
  exact Nat.le_mul_of_pos_right _ (by omega)

theorem atomicBudget_unbounded : ∀ k, ∃ n0, ∀ n, n0 ≤ n → k ≤ atomicBudget n :=
  fun k => ⟨k, fun n hn => by have := atomicBudget_ge n; omega⟩

theorem id_unbounded : ∀ k, ∃ n0, ∀ n, n0 ≤ n → k ≤ (fun n : Nat => n) n :=
  fun k => ⟨k, fun _ hn => hn⟩

end PestTyped
