/-
Lemmas.GenOptsLemmas — helper lemmas for Props/C20:
 (A) the generated module under a configuration differs from the default one only in `boxed`;
 (B) `check` / `parse` / `tokens` do not read `boxed` (it is only recorded in `.rule` tags);
 (C) what the reachability loop of `collect_reachability` computes: the keys that survive carry no
     cycle of the reference graph;
 (D) a simulation theorem for the type-level effect of pest_meta's `rotate` and `concatenate` passes
     (flattening of left-nested sequences / choices, merging of adjacent string literals in atomic
     sequences) applied anywhere in a generated module.
-/
import PestTyped.Model.GenOpts
import PestTyped.Model.Run
import PestTyped.Model.Tokens
import PestTyped.Lemmas.Mono
import PestTyped.Lemmas.Cursor
namespace PestTyped

/-! ## (A) structure -/

theorem genRuleWith_eraseBoxed (cfg : Config) (g : PGrammar) (r : PRule) :
    (genRuleWith cfg g r).eraseBoxed = genRule g r := rfl

theorem genOn_eraseBoxed (cfg : Config) (g : PGrammar) : (genOn cfg g).eraseBoxed = (gen g).eraseBoxed := by
  simp only [genOn, gen, NodeGrammar.eraseBoxed, List.map_cons, List.map_map]
  congr 1

/-- The default configuration is `Model.Gen.gen`. -/
theorem genOn_default (g : PGrammar) : genOn {} g = gen g := by
  simp only [genOn, gen]
  congr 1

@[simp] theorem NodeGrammar.eraseBoxed_skipped (G : NodeGrammar) : G.eraseBoxed.skipped = G.skipped := rfl

theorem NodeGrammar.eraseBoxed_rule? (G : NodeGrammar) (r : RuleId) :
    G.eraseBoxed.rule? r = (G.rule? r).map RuleDef.eraseBoxed := by
  simp only [NodeGrammar.rule?, NodeGrammar.eraseBoxed, List.getElem?_map]

theorem NodeGrammar.eraseBoxed_idem (G : NodeGrammar) : G.eraseBoxed.eraseBoxed = G.eraseBoxed := by
  simp only [NodeGrammar.eraseBoxed, List.map_map]
  congr 1

/-! ## (B) `boxed` is not read by the interpreters -/

/-- Map the value of a result. -/
def Res.mapVal {σ α β} (φ : α → β) : Res σ α → Res σ β
  | .oof => .oof
  | .fail m => .fail m
  | .ok i m a => .ok i m (φ a)

@[simp] theorem Res.mapVal_oof {σ α β} (φ : α → β) : (Res.oof : Res σ α).mapVal φ = .oof := rfl
@[simp] theorem Res.mapVal_fail {σ α β} (φ : α → β) (m : σ) : (Res.fail m : Res σ α).mapVal φ = .fail m := rfl
@[simp] theorem Res.mapVal_ok {σ α β} (φ : α → β) (i : Inp) (m : σ) (a : α) :
    (Res.ok i m a : Res σ α).mapVal φ = .ok i m (φ a) := rfl

theorem restoreOnNone_mapVal {α β} (φ : α → β) (saved : List Sp) (r : R α) :
    restoreOnNone saved (r.mapVal φ) = (restoreOnNone saved r).mapVal φ := by
  cases r <;> rfl

theorem skipLoop_mapVal {α β} (φ : α → β) (f : Inp → M → R α) (f' : Inp → M → R β)
    (h : ∀ i m, f' i m = (f i m).mapVal φ) :
    ∀ k i m acc, skipLoop f' k i m (acc.map φ) = (skipLoop f k i m acc).mapVal (List.map φ) := by
  intro k
  induction k with
  | zero => intro i m acc; simp only [skipLoop, Res.mapVal_ok, List.map_reverse]
  | succ k ih =>
    intro i m acc
    unfold skipLoop
    rw [h i m]
    cases f i m with
    | oof => rfl
    | fail m' => rfl
    | ok i' m' a => simp only [Res.mapVal_ok]; exact ih i' m' (a :: acc)

theorem seqLoop_mapVal {α β γ δ} (φ : α → β) (ψ : γ → δ)
    (f : Node → Inp → M → R α) (f' : Node → Inp → M → R β)
    (sk : Inp → M → R (List γ)) (sk' : Inp → M → R (List δ))
    (mk : List γ → α → α) (mk' : List δ → β → β)
    (hf : ∀ n i m, f' n i m = (f n i m).mapVal φ)
    (hs : ∀ i m, sk' i m = (sk i m).mapVal (List.map ψ))
    (hmk : ∀ s a, mk' (s.map ψ) (φ a) = φ (mk s a)) :
    ∀ ns i m acc, seqLoop f' sk' mk' ns i m (acc.map φ) = (seqLoop f sk mk ns i m acc).mapVal (List.map φ) := by
  intro ns
  induction ns with
  | nil => intro i m acc; simp only [seqLoop, Res.mapVal_ok, List.map_reverse]
  | cons n ns ih =>
    intro i m acc
    unfold seqLoop
    rw [hs i m]
    cases sk i m with
    | oof => rfl
    | fail m' => rfl
    | ok i' m' s =>
      simp only [Res.mapVal_ok]
      rw [hf n i' m']
      cases f n i' m' with
      | oof => rfl
      | fail m'' => rfl
      | ok i'' m'' a =>
        simp only [Res.mapVal_ok, hmk]
        exact ih i'' m'' (mk s a :: acc)

theorem choiceLoop_mapVal {α β} (φ : α → β) (f : Node → Inp → M → R α) (f' : Node → Inp → M → R β)
    (hf : ∀ n i m, f' n i m = (f n i m).mapVal φ) :
    ∀ ns k i m, choiceLoop f' ns k i m = (choiceLoop f ns k i m).mapVal (fun p => (p.1, φ p.2)) := by
  intro ns
  induction ns with
  | nil => intros; rfl
  | cons n ns ih =>
    intro k i m
    unfold choiceLoop
    rw [hf n i m]
    cases f n i m with
    | oof => rfl
    | fail m' => simp only [Res.mapVal_fail, restoreOnNone]; exact ih _ _ _
    | ok i' m' a => rfl

theorem repLoop_mapVal {α β} (φ : α → β) (u : Nat → Inp → M → R α) (u' : Nat → Inp → M → R β)
    (hu : ∀ idx i m, u' idx i m = (u idx i m).mapVal φ) (min : Nat) (max : Option Nat) :
    ∀ budget idx i m acc,
      repLoop u' min max budget idx i m (acc.map φ) = (repLoop u min max budget idx i m acc).mapVal (List.map φ) := by
  intro budget
  induction budget with
  | zero => intros; rfl
  | succ b ih =>
    intro idx i m acc
    unfold repLoop
    by_cases hmax : max = some idx
    · simp only [hmax, if_true, repDone_eq_of_length, List.length_map]
      split <;> simp only [Res.mapVal_fail, Res.mapVal_ok, List.map_reverse]
    · simp only [hmax, if_false]
      rw [hu idx i m]
      cases u idx i m with
      | oof => rfl
      | fail m' =>
        simp only [Res.mapVal_fail, restoreOnNone, repDone_eq_of_length, List.length_map]
        split
        · simp only [Res.mapVal_fail]
        · split <;> simp only [Res.mapVal_fail, Res.mapVal_ok, List.map_reverse]
      | ok i' m' a => simp only [Res.mapVal_ok, restoreOnNone]; exact ih _ _ _ (a :: acc)

theorem arrayLoop_mapVal {α β} (φ : α → β) (f : Inp → M → R α) (f' : Inp → M → R β)
    (h : ∀ i m, f' i m = (f i m).mapVal φ) :
    ∀ k i m acc, arrayLoop f' k i m (acc.map φ) = (arrayLoop f k i m acc).mapVal (List.map φ) := by
  intro k
  induction k with
  | zero => intro i m acc; simp only [arrayLoop, Res.mapVal_ok, List.map_reverse]
  | succ k ih =>
    intro i m acc
    unfold arrayLoop
    rw [h i m]
    cases f i m with
    | oof => rfl
    | fail m' => rfl
    | ok i' m' a => simp only [Res.mapVal_ok]; exact ih i' m' (a :: acc)

/-! ### the value map -/

theorem Val.eraseBoxedList_eq_map (vs : List Val) : Val.eraseBoxedList vs = vs.map Val.eraseBoxed := by
  induction vs with
  | nil => rfl
  | cons v vs ih => simp only [Val.eraseBoxedList, List.map_cons, ih]

theorem Val.eraseBoxed_mk (t : Tag) (kids : List Val) :
    (Val.mk t kids).eraseBoxed = .mk t.eraseBoxed (kids.map Val.eraseBoxed) := by
  simp only [Val.eraseBoxed, Val.eraseBoxedList_eq_map]

theorem Val.eraseBoxed_leaf (t : Tag) : (Val.leaf t).eraseBoxed = .leaf t.eraseBoxed := by
  simp only [Val.leaf, Val.eraseBoxed_mk, List.map_nil]

theorem mkSkipped_eraseBoxed (sk : List Val) (a : Val) :
    mkSkipped (sk.map Val.eraseBoxed) a.eraseBoxed = (mkSkipped sk a).eraseBoxed := by
  simp only [mkSkipped, Val.eraseBoxed_mk, List.map_append, List.map_cons, List.map_nil, List.length_map,
    Tag.eraseBoxed]

theorem defaultSkipVal_eraseBoxed (G : NodeGrammar) :
    defaultSkipVal G.eraseBoxed = defaultSkipVal G := rfl

theorem defaultSkipVal_fixed (G : NodeGrammar) : (defaultSkipVal G).eraseBoxed = defaultSkipVal G := by
  unfold defaultSkipVal
  split <;> simp only [Val.leaf, Val.eraseBoxed_mk, List.map_nil, Tag.eraseBoxed]

/-- `check` never looks at `boxed`. -/
theorem check_eraseBoxed (G : NodeGrammar) (uni : Uni) :
    ∀ (n : Nat) (inh : Bool) (node : Node) (i : Inp) (m : M),
      check G.eraseBoxed uni n inh node i m = check G uni n inh node i m := by
  intro n
  induction n with
  | zero => intros; rfl
  | succ n ih =>
    intro inh node i m
    have hc : check G.eraseBoxed uni n = check G uni n := by
      funext inh node i m; exact ih inh node i m
    cases node with
    | ref r f =>
      simp only [check, hc, NodeGrammar.eraseBoxed_rule?]
      cases G.rule? r with
      | none => rfl
      | some d => rfl
    | _ => simp only [check, hc, NodeGrammar.eraseBoxed_skipped]

/-- `parse` only copies `boxed` into the `.rule` tag of the value it builds. -/
theorem parse_eraseBoxed (G : NodeGrammar) (uni : Uni) :
    ∀ (n : Nat) (inh : Bool) (node : Node) (i : Inp) (m : M),
      parse G.eraseBoxed uni n inh node i m = (parse G uni n inh node i m).mapVal Val.eraseBoxed := by
  intro n
  induction n with
  | zero => intros; rfl
  | succ n ih =>
    intro inh node i m
    have hc : check G.eraseBoxed uni n = check G uni n := by
      funext inh node i m; exact check_eraseBoxed G uni n inh node i m
    have hskip : ∀ k i m acc, skipLoop (parse G.eraseBoxed uni n false G.skipped) k i m (acc.map Val.eraseBoxed) =
        (skipLoop (parse G uni n false G.skipped) k i m acc).mapVal (List.map Val.eraseBoxed) :=
      skipLoop_mapVal Val.eraseBoxed _ _ (ih false G.skipped)
    cases node with
    | str s => simp only [parse]; split <;> rfl
    | insens s => simp only [parse]; split <;> rfl
    | range lo hi => simp only [parse]; split <;> rfl
    | any => simp only [parse]; split <;> rfl
    | soi => simp only [parse]; split <;> rfl
    | eoi => simp only [parse]; split <;> rfl
    | newline => simp only [parse]; split <;> rfl
    | charBy p => simp only [parse]; split <;> rfl
    | skipUntil needles => simp only [parse]; rfl
    | skipChars k => simp only [parse]; split <;> rfl
    | seq sk items =>
      simp only [parse, NodeGrammar.eraseBoxed_skipped]
      cases items with
      | nil => rfl
      | cons n0 ns =>
        simp only []
        rw [ih inh n0 i m]
        cases parse G uni n inh n0 i m with
        | oof => rfl
        | fail m' => rfl
        | ok i' m' v0 =>
          simp only [Res.mapVal_ok]
          have := seqLoop_mapVal Val.eraseBoxed Val.eraseBoxed (parse G uni n inh) (parse G.eraseBoxed uni n inh)
            (fun i m => skipLoop (parse G uni n false G.skipped) (skipCount sk inh) i m [])
            (fun i m => skipLoop (parse G.eraseBoxed uni n false G.skipped) (skipCount sk inh) i m [])
            mkSkipped mkSkipped (ih inh) (fun i m => hskip _ i m []) mkSkipped_eraseBoxed ns i' m' []
          simp only [List.map_nil] at this
          rw [this]
          cases seqLoop (parse G uni n inh)
              (fun i m => skipLoop (parse G uni n false G.skipped) (skipCount sk inh) i m []) mkSkipped ns i' m' [] with
          | oof => rfl
          | fail m'' => rfl
          | ok i'' m'' vs =>
            simp only [Res.mapVal_ok, Val.eraseBoxed_mk, List.map_cons, Tag.eraseBoxed, defaultSkipVal_eraseBoxed]
            rw [← mkSkipped_eraseBoxed, List.map_replicate, defaultSkipVal_fixed]
    | choice alts =>
      simp only [parse]
      rw [choiceLoop_mapVal Val.eraseBoxed (parse G uni n inh) (parse G.eraseBoxed uni n inh) (ih inh) alts 0 i m]
      cases choiceLoop (parse G uni n inh) alts 0 i m with
      | oof => rfl
      | fail m' => rfl
      | ok i' m' p =>
        obtain ⟨k, v⟩ := p
        simp only [Res.mapVal_ok, Val.eraseBoxed_mk, List.map_cons, List.map_nil, Tag.eraseBoxed]
    | opt x =>
      simp only [parse]
      rw [ih inh x i m]
      cases parse G uni n inh x i m with
      | oof => rfl
      | fail m' => rfl
      | ok i' m' v =>
        simp only [Res.mapVal_ok, restoreOnNone, Val.eraseBoxed_mk, List.map_cons, List.map_nil, Tag.eraseBoxed]
    | rep sk min max x =>
      simp only [parse, NodeGrammar.eraseBoxed_skipped, defaultSkipVal_eraseBoxed]
      have hu : ∀ idx i m,
          repUnitP (parse G.eraseBoxed uni n false G.skipped) (parse G.eraseBoxed uni n inh x) (defaultSkipVal G)
            (skipCount sk inh) idx i m =
          (repUnitP (parse G uni n false G.skipped) (parse G uni n inh x) (defaultSkipVal G)
            (skipCount sk inh) idx i m).mapVal Val.eraseBoxed := by
        intro idx i m
        unfold repUnitP
        by_cases h0 : idx = 0
        · simp only [h0, if_true]
          rw [ih inh x i m]
          cases parse G uni n inh x i m with
          | oof => rfl
          | fail m' => rfl
          | ok i' m' v =>
            simp only [Res.mapVal_ok]
            rw [← mkSkipped_eraseBoxed, List.map_replicate, defaultSkipVal_fixed]
        · simp only [h0, if_false]
          have := hskip (skipCount sk inh) i m []
          simp only [List.map_nil] at this
          rw [this]
          cases skipLoop (parse G uni n false G.skipped) (skipCount sk inh) i m [] with
          | oof => rfl
          | fail m' => rfl
          | ok i' m' s =>
            simp only [Res.mapVal_ok]
            rw [ih inh x i' m']
            cases parse G uni n inh x i' m' with
            | oof => rfl
            | fail m'' => rfl
            | ok i'' m'' v => simp only [Res.mapVal_ok, mkSkipped_eraseBoxed]
      have := repLoop_mapVal Val.eraseBoxed _ _ hu min max n 0 i m []
      simp only [List.map_nil] at this
      rw [this]
      cases repLoop (repUnitP (parse G uni n false G.skipped) (parse G uni n inh x) (defaultSkipVal G)
          (skipCount sk inh)) min max n 0 i m [] with
      | oof => rfl
      | fail m' => rfl
      | ok i' m' vs => simp only [Res.mapVal_ok, Val.eraseBoxed_mk, Tag.eraseBoxed]
    | atomicRepeat x =>
      simp only [parse]
      have := repLoop_mapVal Val.eraseBoxed (fun _ i m => parse G uni n inh x i m)
        (fun _ i m => parse G.eraseBoxed uni n inh x i m) (fun _ i m => ih inh x i m) 0 none (atomicBudget n) 0 i
        { m with trk := Tracker.new i } []
      simp only [List.map_nil] at this
      rw [this]
      cases repLoop (fun _ i m => parse G uni n inh x i m) 0 none (atomicBudget n) 0 i
          { m with trk := Tracker.new i } [] with
      | oof => rfl
      | fail m' => rfl
      | ok i' m' vs => simp only [Res.mapVal_ok, Val.eraseBoxed_mk, Tag.eraseBoxed]
    | pos x =>
      simp only [parse]
      rw [ih]
      cases parse G uni n inh x i { m with trk := { m.trk with positive := true } } with
      | oof => rfl
      | fail m' => rfl
      | ok i' m' v => simp only [Res.mapVal_ok, Val.eraseBoxed_mk, List.map_cons, List.map_nil, Tag.eraseBoxed]
    | neg x =>
      simp only [parse, hc]
      cases check G uni n inh x i { m with trk := { m.trk with positive := false } } <;> rfl
    | push x =>
      simp only [parse]
      rw [ih]
      cases parse G uni n inh x i m with
      | oof => rfl
      | fail m' => rfl
      | ok i' m' v => simp only [Res.mapVal_ok, Val.eraseBoxed_mk, List.map_cons, List.map_nil, Tag.eraseBoxed]
    | peek =>
      simp only [parse]
      split
      · rfl
      · split <;> rfl
    | peekAll => simp only [parse]; split <;> rfl
    | pop =>
      simp only [parse]
      split
      · rfl
      · split <;> rfl
    | popAll => simp only [parse]; split <;> rfl
    | drop => simp only [parse]; split <;> rfl
    | peekSlice a b =>
      simp only [parse]
      split
      · rfl
      · split
        · rfl
        · split <;> rfl
    | ref r f =>
      simp only [parse, hc, NodeGrammar.eraseBoxed_rule?]
      cases G.rule? r with
      | none => rfl
      | some d =>
        simp only [Option.map_some, RuleDef.eraseBoxed]
        cases d.emit with
        | expression =>
          simp only []
          rw [ih]
          cases parse G uni n (f.eval inh) d.body i m with
          | oof => rfl
          | fail m' => rfl
          | ok i' m' v => simp only [Res.mapVal_ok, Val.eraseBoxed_mk, List.map_cons, List.map_nil, Tag.eraseBoxed]
        | span =>
          simp only []
          cases check G uni n (f.eval inh) d.body i { m with trk := m.trk.enter r i.pos } with
          | oof => rfl
          | fail m' => rfl
          | ok i' m' v => simp only [Res.mapVal_ok, Val.eraseBoxed_mk, List.map_nil, Tag.eraseBoxed]
        | both =>
          simp only []
          rw [ih]
          cases parse G uni n (f.eval inh) d.body i { m with trk := m.trk.enter r i.pos } with
          | oof => rfl
          | fail m' => rfl
          | ok i' m' v => simp only [Res.mapVal_ok, Val.eraseBoxed_mk, List.map_cons, List.map_nil, Tag.eraseBoxed]
    | array k x =>
      simp only [parse, arrayTryInto_arrayLoop]
      have := arrayLoop_mapVal Val.eraseBoxed _ _ (ih inh x) k i m []
      simp only [List.map_nil] at this
      rw [this]
      cases arrayLoop (parse G uni n inh x) k i m [] with
      | oof => rfl
      | fail m' => rfl
      | ok i' m' vs => simp only [Res.mapVal_ok, Val.eraseBoxed_mk, Tag.eraseBoxed]
    | pair a b =>
      simp only [parse]
      rw [ih inh a i m]
      cases parse G uni n inh a i m with
      | oof => rfl
      | fail m' => rfl
      | ok i' m' va =>
        simp only [Res.mapVal_ok]
        rw [ih inh b i' m']
        cases parse G uni n inh b i' m' with
        | oof => rfl
        | fail m'' => rfl
        | ok i'' m'' vb => simp only [Res.mapVal_ok, Val.eraseBoxed_mk, List.map_cons, List.map_nil, Tag.eraseBoxed]
    | empty => simp only [parse]; rfl
    | alwaysFail => simp only [parse]; rfl

/-! ### tokens -/

theorem hasContentPairs_eraseBoxed (G : NodeGrammar) (r : RuleId) :
    hasContentPairs G.eraseBoxed r = hasContentPairs G r := by
  simp only [hasContentPairs, NodeGrammar.eraseBoxed_rule?]
  cases G.rule? r <;> rfl

mutual
theorem tokens_eraseBoxed (G : NodeGrammar) : ∀ v : Val, tokens G.eraseBoxed v.eraseBoxed = tokens G v
  | .mk t kids => by
    cases t with
    | rule r emit b s e =>
      simp only [Val.eraseBoxed, Tag.eraseBoxed, tokens, hasContentPairs_eraseBoxed, tokensList_eraseBoxed G kids]
    | pos => simp only [Val.eraseBoxed, Tag.eraseBoxed, tokens]
    | neg => simp only [Val.eraseBoxed, Tag.eraseBoxed, tokens]
    | _ => simp only [Val.eraseBoxed, Tag.eraseBoxed, tokens, tokensList_eraseBoxed G kids]
theorem tokensList_eraseBoxed (G : NodeGrammar) :
    ∀ vs : List Val, tokensList G.eraseBoxed (Val.eraseBoxedList vs) = tokensList G vs
  | [] => by simp only [Val.eraseBoxedList, tokensList]
  | v :: vs => by
    simp only [Val.eraseBoxedList, tokensList, tokens_eraseBoxed G v, tokensList_eraseBoxed G vs]
end

/-! ## (C) the reachability loop -/

section Reach
variable {α : Type} [DecidableEq α]

theorem mem_setInsert {x y : α} {s : List α} : y ∈ setInsert x s ↔ y ∈ s ∨ y = x := by
  unfold setInsert
  split
  · constructor
    · exact Or.inl
    · rintro (h | rfl)
      · exact h
      · assumption
  · simp only [List.mem_append, List.mem_singleton]

theorem setInsert_append (x : α) (s : List α) : ∃ t, setInsert x s = s ++ t := by
  unfold setInsert
  split
  · exact ⟨[], (List.append_nil s).symm⟩
  · exact ⟨[x], rfl⟩

theorem setExtend_append (s xs : List α) : ∃ t, setExtend s xs = s ++ t := by
  unfold setExtend
  induction xs generalizing s with
  | nil => exact ⟨[], (List.append_nil s).symm⟩
  | cons x xs ih =>
    simp only [List.foldl_cons]
    obtain ⟨t1, h1⟩ := setInsert_append x s
    obtain ⟨t2, h2⟩ := ih (setInsert x s)
    exact ⟨t1 ++ t2, by rw [h2, h1, List.append_assoc]⟩

theorem mem_setExtend {y : α} {s xs : List α} : y ∈ setExtend s xs ↔ y ∈ s ∨ y ∈ xs := by
  unfold setExtend
  induction xs generalizing s with
  | nil => simp only [List.foldl_nil, List.not_mem_nil, or_false]
  | cons x xs ih =>
    simp only [List.foldl_cons, ih, mem_setInsert, List.mem_cons]
    constructor
    · rintro ((h | h) | h)
      · exact Or.inl h
      · exact Or.inr (Or.inl h)
      · exact Or.inr (Or.inr h)
    · rintro (h | h | h)
      · exact Or.inl (Or.inl h)
      · exact Or.inl (Or.inr h)
      · exact Or.inr h

/-- The accumulation of `reachExtend`, started from any accumulator. -/
def extFold (res : RMap α) (acc : List α) (l : List α) : List α :=
  l.foldl (fun new referenced =>
    match RMap.get? res referenced with
    | some s => setExtend new s
    | none => new) acc

theorem reachExtend_eq (res : RMap α) (cur : List α) : reachExtend res cur = extFold res cur cur := rfl

theorem extFold_append (res : RMap α) (acc l : List α) : ∃ t, extFold res acc l = acc ++ t := by
  unfold extFold
  induction l generalizing acc with
  | nil => exact ⟨[], (List.append_nil acc).symm⟩
  | cons q l ih =>
    simp only [List.foldl_cons]
    cases hq : RMap.get? res q with
    | none => exact ih acc
    | some sq =>
      simp only []
      obtain ⟨t1, h1⟩ := setExtend_append acc sq
      obtain ⟨t2, h2⟩ := ih (setExtend acc sq)
      exact ⟨t1 ++ t2, by rw [h2, h1, List.append_assoc]⟩

theorem mem_extFold {res : RMap α} {acc l : List α} {b : α} :
    b ∈ extFold res acc l ↔ b ∈ acc ∨ ∃ q, q ∈ l ∧ ∃ sq, RMap.get? res q = some sq ∧ b ∈ sq := by
  unfold extFold
  induction l generalizing acc with
  | nil => simp only [List.foldl_nil, List.not_mem_nil, false_and, exists_false, or_false]
  | cons q l ih =>
    simp only [List.foldl_cons]
    cases hq : RMap.get? res q with
    | none =>
      simp only [ih, List.mem_cons]
      constructor
      · rintro (h | ⟨q', hq', sq, hs, hb⟩)
        · exact Or.inl h
        · exact Or.inr ⟨q', Or.inr hq', sq, hs, hb⟩
      · rintro (h | ⟨q', hq' | hq', sq, hs, hb⟩)
        · exact Or.inl h
        · subst hq'; rw [hq] at hs; cases hs
        · exact Or.inr ⟨q', hq', sq, hs, hb⟩
    | some sq0 =>
      simp only [ih, mem_setExtend, List.mem_cons]
      constructor
      · rintro ((h | h) | ⟨q', hq', sq, hs, hb⟩)
        · exact Or.inl h
        · exact Or.inr ⟨q, Or.inl rfl, sq0, hq, h⟩
        · exact Or.inr ⟨q', Or.inr hq', sq, hs, hb⟩
      · rintro (h | ⟨q', hq' | hq', sq, hs, hb⟩)
        · exact Or.inl (Or.inl h)
        · subst hq'; rw [hq] at hs; cases hs; exact Or.inl (Or.inr hb)
        · exact Or.inr ⟨q', hq', sq, hs, hb⟩

theorem mem_reachExtend {res : RMap α} {cur : List α} {b : α} :
    b ∈ reachExtend res cur ↔ b ∈ cur ∨ ∃ q, q ∈ cur ∧ ∃ sq, RMap.get? res q = some sq ∧ b ∈ sq := by
  rw [reachExtend_eq]; exact mem_extFold

/-- `new.len() > old_len` is false only when nothing was added. -/
theorem reachExtend_eq_of_length {res : RMap α} {cur : List α}
    (h : ¬ (reachExtend res cur).length > cur.length) : reachExtend res cur = cur := by
  obtain ⟨t, ht⟩ := extFold_append res cur cur
  rw [reachExtend_eq] at h ⊢
  rw [ht] at h ⊢
  cases t with
  | nil => exact List.append_nil cur
  | cons x t => simp only [List.length_append, List.length_cons] at h; omega

/-! ### the association list -/

theorem RMap.get?_remove (m : RMap α) (x y : α) :
    RMap.get? (RMap.remove m x) y = if y = x then none else RMap.get? m y := by
  induction m with
  | nil => simp only [RMap.remove, List.filter_nil, RMap.get?, ite_self]
  | cons kv m ih =>
    obtain ⟨k, v⟩ := kv
    simp only [RMap.remove] at ih ⊢
    by_cases hk : k = x
    · subst hk
      simp only [List.filter_cons, ne_eq, not_true_eq_false, decide_false, Bool.false_eq_true, if_false, ih, RMap.get?]
      by_cases hy : y = k
      · simp only [hy, if_true]
      · have : ¬ k = y := fun h => hy h.symm
        simp only [hy, if_false, this]
    · simp only [List.filter_cons, ne_eq, hk, not_false_eq_true, decide_true, if_true, RMap.get?, ih]
      by_cases hy : k = y
      · subst hy; simp only [if_true, hk, if_false]
      · simp only [hy, if_false]

theorem RMap.get?_insert (m : RMap α) (x : α) (v : List α) (y : α) :
    RMap.get? (RMap.insert m x v) y = if y = x then some v else RMap.get? m y := by
  simp only [RMap.insert, RMap.get?, RMap.get?_remove]
  by_cases hy : y = x
  · subst hy; simp only [if_true]
  · have : ¬ x = y := fun h => hy h.symm
    simp only [hy, this, if_false]

theorem RMap.mem_keys {m : RMap α} {y : α} : y ∈ RMap.keys m ↔ ∃ v, RMap.get? m y = some v := by
  induction m with
  | nil => simp only [RMap.keys, List.map_nil, List.not_mem_nil, RMap.get?, reduceCtorEq, exists_false]
  | cons kv m ih =>
    obtain ⟨k, v⟩ := kv
    simp only [RMap.keys, List.map_cons, List.mem_cons, RMap.get?] at ih ⊢
    by_cases hk : k = y
    · subst hk; simp only [true_or, if_true, Option.some.injEq, exists_eq']
    · have : ¬ y = k := fun h => hk h.symm
      simp only [this, false_or, hk, if_false, ih]

/-! ### one step -/

theorem reachStep_get?_ne (st : RMap α × Bool) {name y : α} (h : y ≠ name) :
    RMap.get? (reachStep st name).1 y = RMap.get? st.1 y := by
  unfold reachStep
  cases hc : RMap.get? st.1 name with
  | none => rfl
  | some cur =>
    simp only []
    split
    · simp only [RMap.get?_remove, h, if_false]
    · simp only [RMap.get?_insert, RMap.get?_remove, h, if_false]

theorem reachStep_get?_self (st : RMap α × Bool) {name : α} {v' : List α}
    (h : RMap.get? (reachStep st name).1 name = some v') :
    ∃ cur, RMap.get? st.1 name = some cur ∧ v' = reachExtend (RMap.remove st.1 name) cur ∧ name ∉ v' := by
  unfold reachStep at h
  cases hc : RMap.get? st.1 name with
  | none => rw [hc] at h; simp only [] at h; rw [hc] at h; cases h
  | some cur =>
    rw [hc] at h
    simp only [] at h
    split at h
    · simp only [RMap.get?_remove, if_true] at h; cases h
    · next hn =>
      simp only [RMap.get?_insert, if_true, Option.some.injEq] at h
      subst h
      exact ⟨cur, rfl, rfl, hn⟩

theorem reachStep_flag (st : RMap α × Bool) {name : α} (h : (reachStep st name).2 = false) :
    st.2 = false ∧ ∀ cur, RMap.get? st.1 name = some cur → reachExtend (RMap.remove st.1 name) cur = cur := by
  unfold reachStep at h
  cases hc : RMap.get? st.1 name with
  | none =>
    rw [hc] at h
    exact ⟨h, fun cur hcur => by cases hcur⟩
  | some cur =>
    rw [hc] at h
    simp only [] at h
    have h2 : (st.2 || decide ((reachExtend (RMap.remove st.1 name) cur).length > cur.length)) = false := by
      split at h <;> exact h
    simp only [Bool.or_eq_false_iff, decide_eq_false_iff_not] at h2
    refine ⟨h2.1, fun cur' hcur' => ?_⟩
    cases hcur'
    exact reachExtend_eq_of_length h2.2

/-- Keys only disappear and the sets of surviving keys only grow. -/
theorem reachStep_mono (st : RMap α × Bool) (name : α) {y : α} {v' : List α}
    (h : RMap.get? (reachStep st name).1 y = some v') :
    ∃ v, RMap.get? st.1 y = some v ∧ ∀ b, b ∈ v → b ∈ v' := by
  by_cases hy : y = name
  · subst hy
    obtain ⟨cur, hc, hv, _⟩ := reachStep_get?_self st h
    refine ⟨cur, hc, fun b hb => ?_⟩
    rw [hv]; exact mem_reachExtend.mpr (Or.inl hb)
  · rw [reachStep_get?_ne st hy] at h
    exact ⟨v', h, fun _ hb => hb⟩

theorem steps_mono (names : List α) : ∀ (st : RMap α × Bool) {y : α} {v' : List α},
    RMap.get? (names.foldl reachStep st).1 y = some v' →
    ∃ v, RMap.get? st.1 y = some v ∧ ∀ b, b ∈ v → b ∈ v' := by
  induction names with
  | nil => intro st y v' h; exact ⟨v', h, fun _ hb => hb⟩
  | cons n ns ih =>
    intro st y v' h
    simp only [List.foldl_cons] at h
    obtain ⟨v1, h1, s1⟩ := ih (reachStep st n) h
    obtain ⟨v0, h0, s0⟩ := reachStep_mono st n h1
    exact ⟨v0, h0, fun b hb => s1 b (s0 b hb)⟩

end Reach

/-! ### paths of the reference graph -/

/-- `IsPath E a l b`: `a → x₁ → … → xₖ → b` along `E`, with `l = [x₁, …, xₖ]` the intermediate nodes. -/
def IsPath {α : Type} (E : α → α → Prop) : α → List α → α → Prop
  | a, [], b => E a b
  | a, x :: l, b => E a x ∧ IsPath E x l b

theorem IsPath.suffix {α : Type} {E : α → α → Prop} {x b : α} {t : List α} :
    ∀ (s : List α) (a : α), IsPath E a (s ++ x :: t) b → IsPath E x t b := by
  intro s
  induction s with
  | nil => intro a h; exact h.2
  | cons y s ih => intro a h; exact ih y h.2

/-- Every path contains a path with the same ends and pairwise different intermediate nodes. -/
theorem IsPath.shorten {α : Type} [DecidableEq α] {E : α → α → Prop} {b : α} :
    ∀ (l : List α) (a : α), IsPath E a l b →
      ∃ l', IsPath E a l' b ∧ (∀ x, x ∈ l' → x ∈ l) ∧ l'.Nodup := by
  intro l
  induction l with
  | nil => intro a h; exact ⟨[], h, fun _ hx => hx, List.nodup_nil⟩
  | cons x l ih =>
    intro a h
    obtain ⟨l1, hp, hsub, hnd⟩ := ih x h.2
    by_cases hx : x ∈ l1
    · obtain ⟨s, t, hst⟩ := List.append_of_mem hx
      subst hst
      refine ⟨x :: t, ⟨h.1, IsPath.suffix s x hp⟩, ?_, ?_⟩
      · intro y hy
        rcases List.mem_cons.mp hy with rfl | hy
        · exact List.mem_cons_self
        · exact List.mem_cons_of_mem _ (hsub y (List.mem_append_right _ (List.mem_cons_of_mem _ hy)))
      · exact (List.nodup_append.mp hnd).2.1
    · refine ⟨x :: l1, ⟨h.1, hp⟩, ?_, List.nodup_cons.mpr ⟨hx, hnd⟩⟩
      intro y hy
      rcases List.mem_cons.mp hy with rfl | hy
      · exact List.mem_cons_self
      · exact List.mem_cons_of_mem _ (hsub y hy)

section Loop
variable {α : Type} [DecidableEq α]

/-- Edges of the table handed to `collectReachability`. -/
def TEdge (rules : List (α × List α)) (a b : α) : Prop := ∃ used, (a, used) ∈ rules ∧ b ∈ used

/-- Every direct edge of a key is in its set. -/
def EdgesIn (E : α → α → Prop) (m : RMap α) : Prop :=
  ∀ y v, RMap.get? m y = some v → ∀ b, E y b → b ∈ v

def KeysIn (names : List α) (m : RMap α) : Prop := ∀ y v, RMap.get? m y = some v → y ∈ names

def NoSelf (m : RMap α) : Prop := ∀ y v, RMap.get? m y = some v → y ∉ v

/-- Everything reachable from `r` by a path with fewer than `j` intermediate nodes, all in `K`, is in `m[r]`. -/
def Dn (E : α → α → Prop) (K : α → Prop) (j : Nat) (m : RMap α) (r : α) : Prop :=
  ∀ v, RMap.get? m r = some v → ∀ l b, IsPath E r l b → (∀ x, x ∈ l → K x) → l.length < j → b ∈ v

theorem EdgesIn.steps {E : α → α → Prop} {st : RMap α × Bool} (names : List α) (h : EdgesIn E st.1) :
    EdgesIn E (names.foldl reachStep st).1 := by
  intro y v' hv' b hb
  obtain ⟨v, hv, hs⟩ := steps_mono names st hv'
  exact hs b (h y v hv b hb)

theorem KeysIn.steps {ns : List α} {st : RMap α × Bool} (names : List α) (h : KeysIn ns st.1) :
    KeysIn ns (names.foldl reachStep st).1 := by
  intro y v' hv'
  obtain ⟨v, hv, _⟩ := steps_mono names st hv'
  exact h y v hv

theorem steps_get?_notin (names : List α) : ∀ (st : RMap α × Bool) {y : α}, y ∉ names →
    RMap.get? (names.foldl reachStep st).1 y = RMap.get? st.1 y := by
  induction names with
  | nil => intros; rfl
  | cons n ns ih =>
    intro st y hy
    simp only [List.foldl_cons]
    rw [ih (reachStep st n) (fun h => hy (List.mem_cons_of_mem _ h))]
    exact reachStep_get?_ne st (fun h => hy (h ▸ List.mem_cons_self))

/-- After a round, no processed key contains itself. -/
theorem steps_noSelf (names : List α) : ∀ (st : RMap α × Bool) {y : α} {v : List α}, y ∈ names →
    RMap.get? (names.foldl reachStep st).1 y = some v → y ∉ v := by
  induction names with
  | nil => intro st y v hy; cases hy
  | cons n ns ih =>
    intro st y v hy hv
    simp only [List.foldl_cons] at hv
    by_cases hns : y ∈ ns
    · exact ih (reachStep st n) hns hv
    · have hyn : y = n := by
        rcases List.mem_cons.mp hy with h | h
        · exact h
        · exact absurd h hns
      subst hyn
      rw [steps_get?_notin ns (reachStep st y) hns] at hv
      obtain ⟨_, _, _, hself⟩ := reachStep_get?_self st hv
      exact hself

theorem NoSelf.pass {names : List α} {m : RMap α} (hk : KeysIn names m) : NoSelf (reachPass names m).1 := by
  intro y v hv
  have hy : y ∈ names := by
    obtain ⟨v0, hv0, _⟩ := steps_mono names (m, false) hv
    exact hk y v0 hv0
  exact steps_noSelf names (m, false) hy hv

/-- A round that does not set `updated` leaves every surviving set unchanged, and every surviving
set is closed under the sets of its surviving members. -/
theorem steps_stable (names : List α) : ∀ (st : RMap α × Bool), (names.foldl reachStep st).2 = false →
    st.2 = false ∧
    (∀ y v, RMap.get? (names.foldl reachStep st).1 y = some v → RMap.get? st.1 y = some v) ∧
    (∀ r, r ∈ names → ∀ v, RMap.get? (names.foldl reachStep st).1 r = some v →
      ∀ q, q ∈ v → q ≠ r → ∀ s, RMap.get? (names.foldl reachStep st).1 q = some s → ∀ b, b ∈ s → b ∈ v) := by
  induction names with
  | nil =>
    intro st h
    exact ⟨h, fun _ _ hv => hv, fun r hr => by cases hr⟩
  | cons n ns ih =>
    intro st h
    simp only [List.foldl_cons] at h ⊢
    obtain ⟨hflag, hsame, hclosed⟩ := ih (reachStep st n) h
    obtain ⟨hst, hext⟩ := reachStep_flag st hflag
    have hback : ∀ y v, RMap.get? (reachStep st n).1 y = some v → RMap.get? st.1 y = some v := by
      intro y v hv
      by_cases hy : y = n
      · subst hy
        obtain ⟨cur, hc, hvv, _⟩ := reachStep_get?_self st hv
        rw [hext cur hc] at hvv
        rw [hvv]; exact hc
      · rw [reachStep_get?_ne st hy] at hv; exact hv
    refine ⟨hst, fun y v hv => hback y v (hsame y v hv), ?_⟩
    intro r hr v hv q hq hqr s hs b hb
    by_cases hrns : r ∈ ns
    · exact hclosed r hrns v hv q hq hqr s hs b hb
    · have hrn : r = n := by
        rcases List.mem_cons.mp hr with h' | h'
        · exact h'
        · exact absurd h' hrns
      subst hrn
      have hv1 := hsame r v hv
      obtain ⟨cur, hc, hvv, _⟩ := reachStep_get?_self st hv1
      have hs1 : RMap.get? st.1 q = some s := hback q s (hsame q s hs)
      have hs2 : RMap.get? (RMap.remove st.1 r) q = some s := by
        rw [RMap.get?_remove]; simp only [hqr, if_false]; exact hs1
      have hcv : cur = v := by rw [hvv]; exact (hext cur hc).symm
      subst hcv
      rw [hvv]
      exact mem_reachExtend.mpr (Or.inr ⟨q, hq, s, hs2, hb⟩)

theorem Dn.mono_step {E : α → α → Prop} {K : α → Prop} {j : Nat} {st : RMap α × Bool} {n r : α}
    (h : Dn E K j st.1 r) : Dn E K j (reachStep st n).1 r := by
  intro v' hv' l b hp hl hlen
  obtain ⟨v, hv, hs⟩ := reachStep_mono st n hv'
  exact hs b (h v hv l b hp hl hlen)

/-- One round extends the guaranteed horizon of every key that survives to the end by one step. -/
theorem steps_Dn (E : α → α → Prop) (K : α → Prop) (j : Nat) (names : List α) :
    ∀ (st : RMap α × Bool), EdgesIn E st.1 →
      (∀ r, K r → Dn E K j st.1 r) →
      (∀ r, K r → ∃ v, RMap.get? (names.foldl reachStep st).1 r = some v) →
      (∀ r, K r → r ∈ names ∨ Dn E K (j+1) st.1 r) →
      ∀ r, K r → Dn E K (j+1) (names.foldl reachStep st).1 r := by
  induction names with
  | nil =>
    intro st _ _ _ h4 r hr
    rcases h4 r hr with h | h
    · cases h
    · exact h
  | cons n ns ih =>
    intro st hE hD hK h4 r hr
    simp only [List.foldl_cons] at hK ⊢
    have hE' : EdgesIn E (reachStep st n).1 := EdgesIn.steps [n] hE
    refine ih (reachStep st n) hE' (fun r hr => (hD r hr).mono_step) hK ?_ r hr
    intro r hr
    rcases h4 r hr with h | h
    · by_cases hrns : r ∈ ns
      · exact Or.inl hrns
      · have hrn : r = n := by
          rcases List.mem_cons.mp h with h' | h'
          · exact h'
          · exact absurd h' hrns
        subst hrn
        refine Or.inr ?_
        intro v' hv' l b hp hl hlen
        obtain ⟨cur, hc, hvv, hself⟩ := reachStep_get?_self st hv'
        cases l with
        | nil =>
          rw [hvv]
          exact mem_reachExtend.mpr (Or.inl (hE r cur hc b hp))
        | cons x l' =>
          have hxcur : x ∈ cur := hE r cur hc x hp.1
          have hxr : x ≠ r := by
            intro hx
            apply hself
            rw [hvv]
            exact mem_reachExtend.mpr (Or.inl (hx ▸ hxcur))
          have hKx : K x := hl x List.mem_cons_self
          obtain ⟨vf, hvf⟩ := hK x hKx
          obtain ⟨v1, hv1, _⟩ := steps_mono ns (reachStep st r) hvf
          obtain ⟨s, hs, _⟩ := reachStep_mono st r hv1
          have hs2 : RMap.get? (RMap.remove st.1 r) x = some s := by
            rw [RMap.get?_remove]; simp only [hxr, if_false]; exact hs
          have hb : b ∈ s := hD x hKx s hs l' b hp.2 (fun y hy => hl y (List.mem_cons_of_mem _ hy))
            (by simp only [List.length_cons] at hlen; omega)
          rw [hvv]
          exact mem_reachExtend.mpr (Or.inr ⟨x, hxcur, s, hs2, hb⟩)
    · exact Or.inr h.mono_step

theorem reachLoop_mono (names : List α) : ∀ (k : Nat) (m : RMap α) {y : α} {v' : List α},
    RMap.get? (reachLoop names k m) y = some v' → ∃ v, RMap.get? m y = some v ∧ ∀ b, b ∈ v → b ∈ v' := by
  intro k
  induction k with
  | zero => intro m y v' h; exact ⟨v', h, fun _ hb => hb⟩
  | succ k ih =>
    intro m y v' h
    unfold reachLoop at h
    simp only [] at h
    split at h
    · obtain ⟨v1, h1, s1⟩ := ih _ h
      obtain ⟨v0, h0, s0⟩ := steps_mono names (m, false) h1
      exact ⟨v0, h0, fun b hb => s1 b (s0 b hb)⟩
    · exact steps_mono names (m, false) h

/-- No cycle of `E` lies entirely inside the keys of `m`. -/
def Acyclic (E : α → α → Prop) (m : RMap α) : Prop :=
  ∀ r l, r ∈ RMap.keys m → (∀ x, x ∈ l → x ∈ RMap.keys m) → ¬ IsPath E r l r

theorem acyclic_of_closed {E : α → α → Prop} {m : RMap α} (hE : EdgesIn E m) (hN : NoSelf m)
    (hC : ∀ r v, RMap.get? m r = some v → ∀ q, q ∈ v → q ≠ r → ∀ s, RMap.get? m q = some s → ∀ b, b ∈ s → b ∈ v) :
    Acyclic E m := by
  have key : ∀ (l : List α) (r b : α) (v : List α), RMap.get? m r = some v → (∀ x, x ∈ l → x ∈ RMap.keys m) →
      IsPath E r l b → b ∈ v := by
    intro l
    induction l with
    | nil => intro r b v hv _ hp; exact hE r v hv b hp
    | cons x l ih =>
      intro r b v hv hl hp
      obtain ⟨s, hs⟩ := RMap.mem_keys.mp (hl x List.mem_cons_self)
      have hb : b ∈ s := ih x b s hs (fun y hy => hl y (List.mem_cons_of_mem _ hy)) hp.2
      have hxv : x ∈ v := hE r v hv x hp.1
      have hxr : x ≠ r := fun h => hN r v hv (h ▸ hxv)
      exact hC r v hv x hxv hxr s hs b hb
  intro r l hr hl hp
  obtain ⟨v, hv⟩ := RMap.mem_keys.mp hr
  exact hN r v hv (key l r r v hv hl hp)

theorem acyclic_of_Dn {E : α → α → Prop} {m : RMap α} {names : List α} {j : Nat} (hK : KeysIn names m)
    (hN : NoSelf m) (hD : ∀ r, r ∈ RMap.keys m → Dn E (fun x => x ∈ RMap.keys m) j m r)
    (hj : names.length < j) : Acyclic E m := by
  intro r l hr hl hp
  obtain ⟨l', hp', hsub, hnd⟩ := IsPath.shorten l r hp
  obtain ⟨v, hv⟩ := RMap.mem_keys.mp hr
  have hlen : l'.length ≤ names.length := by
    apply List.Nodup.length_le_of_subset hnd
    intro x hx
    obtain ⟨vx, hvx⟩ := RMap.mem_keys.mp (hl x (hsub x hx))
    exact hK x vx hvx
  exact hN r v hv (hD r hr v hv l' r hp' (fun x hx => hl x (hsub x hx)) (by omega))

/-- The loop as written (bounded number of rounds, early `break`) ends in a map whose keys carry no cycle. -/
theorem reachLoop_acyclic (E : α → α → Prop) (names : List α) : ∀ (k : Nat) (m : RMap α) (j : Nat),
    EdgesIn E m → KeysIn names m → (k = 0 → NoSelf m) →
    (∀ r, r ∈ RMap.keys (reachLoop names k m) →
      Dn E (fun x => x ∈ RMap.keys (reachLoop names k m)) j m r) →
    names.length < j + k → Acyclic E (reachLoop names k m) := by
  intro k
  induction k with
  | zero =>
    intro m j _ hK hN hD hj
    exact acyclic_of_Dn hK (hN rfl) hD (by omega)
  | succ k ih =>
    intro m j hE hK _ hD hj
    have hE1 : EdgesIn E (reachPass names m).1 := EdgesIn.steps names hE
    have hK1 : KeysIn names (reachPass names m).1 := KeysIn.steps names hK
    have hN1 : NoSelf (reachPass names m).1 := NoSelf.pass hK
    by_cases hupd : (reachPass names m).2 = true
    · have hfin : reachLoop names (k+1) m = reachLoop names k (reachPass names m).1 := by
        show (if (reachPass names m).2 then _ else _) = _
        rw [if_pos hupd]
      rw [hfin] at hD ⊢
      refine ih (reachPass names m).1 (j+1) hE1 hK1 (fun _ => hN1) ?_ (by omega)
      intro r hr
      refine steps_Dn E _ j names (m, false) hE hD ?_ ?_ r hr
      · intro r hr
        obtain ⟨vf, hvf⟩ := RMap.mem_keys.mp hr
        obtain ⟨v1, hv1, _⟩ := reachLoop_mono names k _ hvf
        exact ⟨v1, hv1⟩
      · intro r hr
        obtain ⟨vf, hvf⟩ := RMap.mem_keys.mp hr
        obtain ⟨v1, hv1, _⟩ := reachLoop_mono names k _ hvf
        exact Or.inl (hK1 r v1 hv1)
    · have hupd' : (reachPass names m).2 = false := by
        cases h : (reachPass names m).2
        · rfl
        · exact absurd h hupd
      have hfin : reachLoop names (k+1) m = (reachPass names m).1 := by
        show (if (reachPass names m).2 then _ else _) = _
        rw [hupd']; rfl
      rw [hfin]
      obtain ⟨_, _, hclosed⟩ := steps_stable names (m, false) hupd'
      exact acyclic_of_closed hE1 hN1 (fun r v hv => hclosed r (hK1 r v hv) v hv)

/-! ### the initial map -/

theorem reachInit_spec : ∀ (rules : List (α × List α)) (res : RMap α),
    (∀ y v, RMap.get? (reachInit rules res) y = some v →
      (∃ v0, RMap.get? res y = some v0) ∨ y ∈ rules.map (·.1)) ∧
    (∀ y v0, RMap.get? res y = some v0 →
      ∃ v, RMap.get? (reachInit rules res) y = some v ∧ ∀ b, b ∈ v0 → b ∈ v) ∧
    (∀ a used, (a, used) ∈ rules →
      ∃ v, RMap.get? (reachInit rules res) a = some v ∧ ∀ b, b ∈ used → b ∈ v) := by
  intro rules
  induction rules with
  | nil =>
    intro res
    exact ⟨fun y v h => Or.inl ⟨v, h⟩, fun y v0 h => ⟨v0, h, fun _ hb => hb⟩, fun a used h => by cases h⟩
  | cons ru rules ih =>
    obtain ⟨name, used⟩ := ru
    intro res
    simp only [reachInit]
    obtain ⟨h1, h2, h3⟩ := ih (RMap.insert res name (setExtend ((RMap.get? res name).getD []) used))
    refine ⟨?_, ?_, ?_⟩
    · intro y v hv
      rcases h1 y v hv with ⟨v0, hv0⟩ | hy
      · rw [RMap.get?_insert] at hv0
        by_cases hyn : y = name
        · exact Or.inr (by simp only [List.map_cons, hyn, List.mem_cons, true_or])
        · simp only [hyn, if_false] at hv0; exact Or.inl ⟨v0, hv0⟩
      · exact Or.inr (List.mem_cons_of_mem _ hy)
    · intro y v0 hv0
      by_cases hyn : y = name
      · subst hyn
        obtain ⟨v, hv, hs⟩ := h2 y (setExtend ((RMap.get? res y).getD []) used)
          (by rw [RMap.get?_insert]; simp only [if_true])
        refine ⟨v, hv, fun b hb => hs b ?_⟩
        rw [hv0]; exact mem_setExtend.mpr (Or.inl hb)
      · exact h2 y v0 (by rw [RMap.get?_insert]; simp only [hyn, if_false]; exact hv0)
    · intro a used' hmem
      rcases List.mem_cons.mp hmem with heq | hmem
      · have ha : a = name := congrArg Prod.fst heq
        have hu : used' = used := congrArg Prod.snd heq
        rw [ha, hu]
        obtain ⟨v, hv, hs⟩ := h2 name (setExtend ((RMap.get? res name).getD []) used)
          (by rw [RMap.get?_insert]; simp only [if_true])
        exact ⟨v, hv, fun b hb => hs b (mem_setExtend.mpr (Or.inr hb))⟩
      · exact h3 a used' hmem

/-- **What `collect_reachability` computes** (soundness): no cycle of the reference graph runs
entirely through rules that are still keys of the result. -/
theorem collectReachability_acyclic (rules : List (α × List α)) :
    Acyclic (TEdge rules) (collectReachability rules) := by
  unfold collectReachability
  obtain ⟨h1, _, h3⟩ := reachInit_spec rules ([] : RMap α)
  have hE : EdgesIn (TEdge rules) (reachInit rules []) := by
    intro y v hv b ⟨used, hmem, hb⟩
    obtain ⟨v', hv', hs⟩ := h3 y used hmem
    rw [hv] at hv'; cases hv'
    exact hs b hb
  have hK : KeysIn (rules.map (·.1)) (reachInit rules []) := by
    intro y v hv
    rcases h1 y v hv with ⟨v0, hv0⟩ | hy
    · cases hv0
    · exact hy
  refine reachLoop_acyclic (TEdge rules) (rules.map (·.1)) rules.length (reachInit rules []) 1 hE hK ?_ ?_
    (by simp only [List.length_map]; omega)
  · intro h0 y v hv
    have : rules = [] := List.eq_nil_of_length_eq_zero h0
    subst this
    cases hv
  · intro r _ v hv l b hp _ hlen
    cases l with
    | nil => exact hE r v hv b hp
    | cons x l => simp only [List.length_cons] at hlen; omega

end Loop


/-! ## (D) simulation: flattening and literal concatenation, in any context -/

def Node.isLeaf : Node → Bool
  | .str _ | .insens _ | .range _ _ | .any | .soi | .eoi | .newline | .charBy _ | .skipUntil _ | .skipChars _
  | .peek | .peekAll | .pop | .popAll | .drop | .peekSlice _ _ | .empty | .alwaysFail => true
  | _ => false

mutual
/-- `Rw a b`: `b` is `a` with, anywhere inside, left-nested sequences / choices flattened into their
parent (what `rotate` does to the generated type) and trailing adjacent string literals of a
`SKIP = 0` sequence merged (what `concatenate` does in atomic rules).  One layer of rewriting per
position; several passes compose by transitivity of the simulation. -/
inductive Rw : Node → Node → Prop
  | leaf {a : Node} : a.isLeaf = true → Rw a a
  | seq {sk : Flag} {xs ys : List Node} : RwL xs ys → Rw (.seq sk xs) (.seq sk ys)
  | choice {xs ys : List Node} : RwL xs ys → Rw (.choice xs) (.choice ys)
  | opt {a b : Node} : Rw a b → Rw (.opt a) (.opt b)
  | rep {sk : Flag} {mn : Nat} {mx : Option Nat} {a b : Node} : Rw a b → Rw (.rep sk mn mx a) (.rep sk mn mx b)
  | atomicRepeat {a b : Node} : Rw a b → Rw (.atomicRepeat a) (.atomicRepeat b)
  | pos {a b : Node} : Rw a b → Rw (.pos a) (.pos b)
  | neg {a b : Node} : Rw a b → Rw (.neg a) (.neg b)
  | push {a b : Node} : Rw a b → Rw (.push a) (.push b)
  | ref (r : RuleId) (f : Flag) : Rw (.ref r f) (.ref r f)
  | array {k : Nat} {a b : Node} : Rw a b → Rw (.array k a) (.array k b)
  | pair {a b a' b' : Node} : Rw a a' → Rw b b' → Rw (.pair a b) (.pair a' b')
  | seqFlat {sk : Flag} {x x' : Node} {xs xs' ys ys' : List Node} :
      Rw x x' → RwL xs xs' → RwL ys ys' →
      Rw (.seq sk (.seq sk (x :: xs) :: ys)) (.seq sk (x' :: (xs' ++ ys')))
  | choiceFlat {x x' : Node} {xs xs' ys ys' : List Node} :
      Rw x x' → RwL xs xs' → RwL ys ys' →
      Rw (.choice (.choice (x :: xs) :: ys)) (.choice (x' :: (xs' ++ ys')))
  | strCat (a b : List Char) : Rw (.seq .zero [.str a, .str b]) (.str (a ++ b))
  | strCatTail {x x' : Node} {pre pre' : List Node} (a b : List Char) :
      Rw x x' → RwL pre pre' →
      Rw (.seq .zero (x :: (pre ++ [.str a, .str b]))) (.seq .zero (x' :: (pre' ++ [.str (a ++ b)])))
inductive RwL : List Node → List Node → Prop
  | nil : RwL [] []
  | cons {x y : Node} {xs ys : List Node} : Rw x y → RwL xs ys → RwL (x :: xs) (y :: ys)
end

/-- `RelW W r₁ r₂`: if the first run has an answer, the second one has the same answer — same verdict,
cursor, stack and tracker — with values related by `W`. -/
def RelW {α β} (W : α → β → Prop) : R α → R β → Prop
  | .oof, _ => True
  | .fail m1, .fail m2 => m1 = m2
  | .ok i1 m1 a, .ok i2 m2 b => i1 = i2 ∧ m1 = m2 ∧ W a b
  | _, _ => False

theorem RelW.cases {α β} {W : α → β → Prop} {r1 : R α} {r2 : R β} (h : RelW W r1 r2) :
    r1 = .oof ∨ (∃ m, r1 = .fail m ∧ r2 = .fail m) ∨ (∃ i m a b, r1 = .ok i m a ∧ r2 = .ok i m b ∧ W a b) := by
  cases r1 with
  | oof => exact Or.inl rfl
  | fail m1 =>
    cases r2 with
    | fail m2 => simp only [RelW] at h; subst h; exact Or.inr (Or.inl ⟨_, rfl, rfl⟩)
    | oof => exact absurd h (by simp only [RelW, not_false_eq_true])
    | ok _ _ _ => exact absurd h (by simp only [RelW, not_false_eq_true])
  | ok i1 m1 a =>
    cases r2 with
    | ok i2 m2 b =>
      simp only [RelW] at h
      obtain ⟨rfl, rfl, hw⟩ := h
      exact Or.inr (Or.inr ⟨_, _, _, _, rfl, rfl, hw⟩)
    | oof => exact absurd h (by simp only [RelW, not_false_eq_true])
    | fail _ => exact absurd h (by simp only [RelW, not_false_eq_true])

theorem RelW.oof_left {α β} {W : α → β → Prop} (r2 : R β) : RelW W (.oof : R α) r2 := by
  simp only [RelW]

theorem RelW.mono {α β} {W W' : α → β → Prop} (hw : ∀ a b, W a b → W' a b) {r1 : R α} {r2 : R β}
    (h : RelW W r1 r2) : RelW W' r1 r2 := by
  rcases h.cases with h1 | ⟨m, h1, h2⟩ | ⟨i, m, a, b, h1, h2, hab⟩
  · rw [h1]; exact RelW.oof_left _
  · rw [h1, h2]; simp only [RelW]
  · rw [h1, h2]; exact ⟨rfl, rfl, hw a b hab⟩

/-! ### tokens of the values the combinators build -/

theorem tokL_append (g : NodeGrammar) (a b : List Val) :
    tokensList g (a ++ b) = tokensList g a ++ tokensList g b := by
  induction a with
  | nil => simp only [List.nil_append, tokensList]
  | cons v vs ih => simp only [List.cons_append, tokensList, ih, List.append_assoc]

theorem tokL_single (g : NodeGrammar) (v : Val) : tokensList g [v] = tokens g v := by
  simp only [tokensList, List.append_nil]

theorem tok_mkSkipped (g : NodeGrammar) (sk : List Val) (a : Val) :
    tokens g (mkSkipped sk a) = tokensList g sk ++ tokens g a := by
  simp only [mkSkipped, tokens, tokL_append, tokL_single]

theorem tok_dflt (g : NodeGrammar) : tokens g (defaultSkipVal g) = [] := by
  unfold defaultSkipVal
  split <;> simp only [tokens, tokensList, Val.leaf]

theorem tokL_replicate (g : NodeGrammar) (d : Val) (hd : tokens g d = []) :
    ∀ k, tokensList g (List.replicate k d) = [] := by
  intro k
  induction k with
  | zero => simp only [List.replicate_zero, tokensList]
  | succ k ih => simp only [List.replicate_succ, tokensList, hd, ih, List.append_nil]

theorem tok_dfltSkipped (g : NodeGrammar) (k : Nat) (v : Val) :
    tokens g (mkSkipped (List.replicate k (defaultSkipVal g)) v) = tokens g v := by
  rw [tok_mkSkipped, tokL_replicate g _ (tok_dflt g), List.nil_append]

section Sim
variable (G1 G2 : NodeGrammar)

/-- Relation between single values: the same token tree. -/
abbrev RelT : R Val → R Val → Prop := RelW (fun v1 v2 => tokens G1 v1 = tokens G2 v2)
/-- Relation between value lists: `pre` followed by the tokens of the first list = tokens of the second. -/
abbrev RelL (pre : List Token) : R (List Val) → R (List Val) → Prop :=
  RelW (fun l1 l2 => pre ++ tokensList G1 l1 = tokensList G2 l2)

theorem acc_step {pre : List Token} {acc1 acc2 : List Val} {a b : Val}
    (hacc : pre ++ tokensList G1 acc1.reverse = tokensList G2 acc2.reverse)
    (hab : tokens G1 a = tokens G2 b) :
    pre ++ tokensList G1 (a :: acc1).reverse = tokensList G2 (b :: acc2).reverse := by
  simp only [List.reverse_cons, tokL_append, tokL_single, ← List.append_assoc, hacc, hab]

theorem GenOpt.skipLoop_sim (f1 f2 : Inp → M → R Val) (h : ∀ i m, RelT G1 G2 (f1 i m) (f2 i m)) :
    ∀ k i m acc1 acc2 pre, pre ++ tokensList G1 acc1.reverse = tokensList G2 acc2.reverse →
      RelL G1 G2 pre (skipLoop f1 k i m acc1) (skipLoop f2 k i m acc2) := by
  intro k
  induction k with
  | zero => intro i m acc1 acc2 pre hacc; exact ⟨rfl, rfl, hacc⟩
  | succ k ih =>
    intro i m acc1 acc2 pre hacc
    unfold skipLoop
    rcases (h i m).cases with h1 | ⟨m', h1, h2⟩ | ⟨i', m', a, b, h1, h2, hab⟩
    · rw [h1]; exact RelW.oof_left _
    · rw [h1, h2]; simp only [RelW]
    · rw [h1, h2]; exact ih i' m' _ _ pre (acc_step G1 G2 hacc hab)

theorem seqLoop_sim (f1 f2 : Node → Inp → M → R Val) (sk1 sk2 : Inp → M → R (List Val))
    (hf : ∀ x y, Rw x y → ∀ i m, RelT G1 G2 (f1 x i m) (f2 y i m))
    (hs : ∀ i m, RelL G1 G2 [] (sk1 i m) (sk2 i m)) :
    ∀ xs ys, RwL xs ys → ∀ i m acc1 acc2 pre, pre ++ tokensList G1 acc1.reverse = tokensList G2 acc2.reverse →
      RelL G1 G2 pre (seqLoop f1 sk1 mkSkipped xs i m acc1) (seqLoop f2 sk2 mkSkipped ys i m acc2) := by
  intro xs
  induction xs with
  | nil =>
    intro ys hrw i m acc1 acc2 pre hacc
    cases hrw
    exact ⟨rfl, rfl, hacc⟩
  | cons x xs ih =>
    intro ys hrw i m acc1 acc2 pre hacc
    cases hrw with
    | cons hxy hrest =>
      unfold seqLoop
      rcases (hs i m).cases with h1 | ⟨m', h1, h2⟩ | ⟨i', m', s1, s2, h1, h2, hsk⟩
      · rw [h1]; exact RelW.oof_left _
      · rw [h1, h2]; simp only [RelW]
      · rw [h1, h2]
        simp only []
        rcases (hf _ _ hxy i' m').cases with h1 | ⟨m'', h1, h2⟩ | ⟨i'', m'', a, b, h1, h2, hab⟩
        · rw [h1]; exact RelW.oof_left _
        · rw [h1, h2]; simp only [RelW]
        · rw [h1, h2]
          refine ih _ hrest i'' m'' _ _ pre (acc_step G1 G2 hacc ?_)
          rw [tok_mkSkipped, tok_mkSkipped, hab]
          simp only [List.nil_append] at hsk
          rw [hsk]

theorem seqLoop_append {α β} (f : Node → Inp → M → R α) (sk : Inp → M → R (List β)) (mk : List β → α → α) :
    ∀ (xs ys : List Node) (i : Inp) (m : M) (acc : List α),
      seqLoop f sk mk (xs ++ ys) i m acc =
        match seqLoop f sk mk xs i m acc with
        | .oof => .oof
        | .fail m' => .fail m'
        | .ok i' m' vs => seqLoop f sk mk ys i' m' vs.reverse := by
  intro xs
  induction xs with
  | nil => intro ys i m acc; simp only [List.nil_append, seqLoop, List.reverse_reverse]
  | cons x xs ih =>
    intro ys i m acc
    simp only [List.cons_append, seqLoop]
    cases sk i m with
    | oof => rfl
    | fail m' => rfl
    | ok i' m' s =>
      simp only []
      cases f x i' m' with
      | oof => rfl
      | fail m'' => rfl
      | ok i'' m'' a => simp only []; exact ih ys i'' m'' _

theorem choiceLoop_sim (f1 f2 : Node → Inp → M → R Val)
    (hf : ∀ x y, Rw x y → ∀ i m, RelT G1 G2 (f1 x i m) (f2 y i m)) :
    ∀ xs ys, RwL xs ys → ∀ k1 k2 i m,
      RelW (fun p1 p2 => tokens G1 p1.2 = tokens G2 p2.2) (choiceLoop f1 xs k1 i m) (choiceLoop f2 ys k2 i m) := by
  intro xs
  induction xs with
  | nil => intro ys hrw k1 k2 i m; cases hrw; simp only [choiceLoop, RelW]
  | cons x xs ih =>
    intro ys hrw k1 k2 i m
    cases hrw with
    | cons hxy hrest =>
      unfold choiceLoop
      rcases (hf _ _ hxy i m).cases with h1 | ⟨m', h1, h2⟩ | ⟨i', m', a, b, h1, h2, hab⟩
      · rw [h1]; exact RelW.oof_left _
      · rw [h1, h2]; simp only [restoreOnNone]; exact ih _ hrest _ _ i _
      · rw [h1, h2]; exact ⟨rfl, rfl, hab⟩

theorem choiceLoop_append {α} (f : Node → Inp → M → R α) :
    ∀ (xs ys : List Node) (k : Nat) (i : Inp) (m : M),
      choiceLoop f (xs ++ ys) k i m =
        match choiceLoop f xs k i m with
        | .oof => .oof
        | .ok i' m' p => .ok i' m' p
        | .fail m' => choiceLoop f ys (k + xs.length) i m' := by
  intro xs
  induction xs with
  | nil => intro ys k i m; simp only [List.nil_append, choiceLoop, List.length_nil, Nat.add_zero]
  | cons x xs ih =>
    intro ys k i m
    simp only [List.cons_append, choiceLoop]
    cases restoreOnNone m.stk (f x i m) with
    | oof => rfl
    | ok i' m' a => rfl
    | fail m' =>
      simp only []
      rw [ih ys (k+1) i m']
      simp only [List.length_cons]
      rw [show k + 1 + xs.length = k + (xs.length + 1) by omega]

theorem choiceLoop_cons {α} (f : Node → Inp → M → R α) (n : Node) (ns : List Node) (k : Nat) (i : Inp) (m : M) :
    choiceLoop f (n :: ns) k i m =
      match restoreOnNone m.stk (f n i m) with
      | .oof => .oof
      | .ok i' m' a => .ok i' m' (k, a)
      | .fail m' => choiceLoop f ns (k+1) i m' := by
  simp only [choiceLoop]
  cases restoreOnNone m.stk (f n i m) <;> rfl

/-- A choice that fails has put the stack back. -/
theorem choiceLoop_fail_stk {α} (f : Node → Inp → M → R α) :
    ∀ (xs : List Node) (k : Nat) (i : Inp) (m m' : M), choiceLoop f xs k i m = .fail m' → m'.stk = m.stk := by
  intro xs
  induction xs with
  | nil => intro k i m m' h; simp only [choiceLoop] at h; cases h; rfl
  | cons x xs ih =>
    intro k i m m' h
    unfold choiceLoop at h
    cases hx : f x i m with
    | oof => rw [hx] at h; simp only [restoreOnNone] at h; cases h
    | ok i' m1 a => rw [hx] at h; simp only [restoreOnNone] at h; cases h
    | fail m1 =>
      rw [hx] at h
      simp only [restoreOnNone] at h
      have h3 := ih _ _ _ _ h
      exact h3

theorem GenOpt.repLoop_sim (u1 u2 : Nat → Inp → M → R Val) (hu : ∀ idx i m, RelT G1 G2 (u1 idx i m) (u2 idx i m))
    (min : Nat) (max : Option Nat) :
    ∀ budget idx i m acc1 acc2 pre, acc1.length = acc2.length →
      pre ++ tokensList G1 acc1.reverse = tokensList G2 acc2.reverse →
      RelL G1 G2 pre (repLoop u1 min max budget idx i m acc1) (repLoop u2 min max budget idx i m acc2) := by
  intro budget
  induction budget with
  | zero => intros; exact RelW.oof_left _
  | succ b ih =>
    intro idx i m acc1 acc2 pre hlen hacc
    have hdone : ∀ m : M, RelL G1 G2 pre (repDone min max i m acc1) (repDone min max i m acc2) := by
      intro m
      simp only [repDone_eq_of_length, hlen]
      split
      · simp only [RelW]
      · exact ⟨rfl, rfl, hacc⟩
    unfold repLoop
    by_cases hmax : max = some idx
    · simp only [hmax, if_true]
      rw [← hmax]; exact hdone m
    · simp only [hmax, if_false]
      rcases (hu idx i m).cases with h1 | ⟨m', h1, h2⟩ | ⟨i', m', a, b, h1, h2, hab⟩
      · rw [h1]; exact RelW.oof_left _
      · rw [h1, h2]
        simp only [restoreOnNone]
        split
        · simp only [RelW]
        · exact hdone _
      · rw [h1, h2]
        simp only [restoreOnNone]
        exact ih _ i' m' _ _ pre (by simp only [List.length_cons, hlen]) (acc_step G1 G2 hacc hab)

theorem arrayLoop_sim (f1 f2 : Inp → M → R Val) (h : ∀ i m, RelT G1 G2 (f1 i m) (f2 i m)) :
    ∀ k i m acc1 acc2 pre, pre ++ tokensList G1 acc1.reverse = tokensList G2 acc2.reverse →
      RelL G1 G2 pre (arrayLoop f1 k i m acc1) (arrayLoop f2 k i m acc2) := by
  intro k
  induction k with
  | zero => intro i m acc1 acc2 pre hacc; exact ⟨rfl, rfl, hacc⟩
  | succ k ih =>
    intro i m acc1 acc2 pre hacc
    unfold arrayLoop
    rcases (h i m).cases with h1 | ⟨m', h1, h2⟩ | ⟨i', m', a, b, h1, h2, hab⟩
    · rw [h1]; exact RelW.oof_left _
    · rw [h1, h2]; simp only [RelW]
    · rw [h1, h2]; exact ih i' m' _ _ pre (acc_step G1 G2 hacc hab)

theorem repUnitP_sim (s1 s2 b1 b2 : Inp → M → R Val) (d1 d2 : Val) (k : Nat)
    (hs : ∀ i m, RelT G1 G2 (s1 i m) (s2 i m)) (hb : ∀ i m, RelT G1 G2 (b1 i m) (b2 i m))
    (hd1 : tokens G1 d1 = []) (hd2 : tokens G2 d2 = []) :
    ∀ idx i m, RelT G1 G2 (repUnitP s1 b1 d1 k idx i m) (repUnitP s2 b2 d2 k idx i m) := by
  intro idx i m
  unfold repUnitP
  by_cases h0 : idx = 0
  · simp only [h0, if_true]
    rcases (hb i m).cases with h1 | ⟨m', h1, h2⟩ | ⟨i', m', a, b, h1, h2, hab⟩
    · rw [h1]; exact RelW.oof_left _
    · rw [h1, h2]; simp only [RelW]
    · rw [h1, h2]
      refine ⟨rfl, rfl, ?_⟩
      show tokens G1 (mkSkipped _ _) = tokens G2 (mkSkipped _ _)
      rw [tok_mkSkipped, tok_mkSkipped, tokL_replicate G1 _ hd1, tokL_replicate G2 _ hd2, hab]
  · simp only [h0, if_false]
    rcases (GenOpt.skipLoop_sim G1 G2 s1 s2 hs k i m [] [] [] rfl).cases with h1 | ⟨m', h1, h2⟩ | ⟨i', m', l1, l2, h1, h2, hl⟩
    · rw [h1]; exact RelW.oof_left _
    · rw [h1, h2]; simp only [RelW]
    · rw [h1, h2]
      simp only []
      rcases (hb i' m').cases with h1 | ⟨m'', h1, h2⟩ | ⟨i'', m'', a, b, h1, h2, hab⟩
      · rw [h1]; exact RelW.oof_left _
      · rw [h1, h2]; simp only [RelW]
      · rw [h1, h2]
        refine ⟨rfl, rfl, ?_⟩
        simp only [List.nil_append] at hl
        show tokens G1 (mkSkipped _ _) = tokens G2 (mkSkipped _ _)
        rw [tok_mkSkipped, tok_mkSkipped, hl, hab]

end Sim

/-! ### string literals -/

theorem isPrefixOf_append (a b : List Char) : ∀ rest : List Char,
    (a ++ b).isPrefixOf rest = (a.isPrefixOf rest && b.isPrefixOf (rest.drop a.length)) := by
  induction a with
  | nil => intro rest; simp only [List.nil_append, List.isPrefixOf_nil_left, Bool.true_and, List.length_nil, List.drop_zero]
  | cons c a ih =>
    intro rest
    cases rest with
    | nil => simp only [List.cons_append, List.isPrefixOf, Bool.false_and]
    | cons d rest =>
      simp only [List.cons_append, List.isPrefixOf, ih rest, List.length_cons, List.drop_succ_cons, Bool.and_assoc]

theorem Inp.matchString_append (a b : List Char) (i : Inp) :
    i.matchString (a ++ b) = (match i.matchString a with
      | some i' => i'.matchString b
      | none => none) := by
  unfold Inp.matchString
  rw [isPrefixOf_append]
  cases ha : a.isPrefixOf i.rest with
  | false => simp only [Bool.false_and, Bool.false_eq_true, if_false]
  | true =>
    have hlen : a.length ≤ i.rest.length := (List.isPrefixOf_iff_prefix.mp ha).length_le
    have hrest : (i.adv a.length).rest = i.rest.drop a.length := rfl
    simp only [Bool.true_and, if_true, hrest]
    cases hb : b.isPrefixOf (i.rest.drop a.length) with
    | false => simp only [Bool.false_eq_true, if_false]
    | true => simp only [if_true, Inp.adv_adv i _ _ hlen, List.length_append]

section Sim2
variable (G1 G2 : NodeGrammar) (uni : Uni)

/-- Rule by rule, the second module is a flattened / literal-merged version of the first. -/
structure GRel : Prop where
  skipped : Rw G1.skipped G2.skipped
  rules : ∀ r, (G1.rule? r = none ∧ G2.rule? r = none) ∨
    ∃ d1 d2, G1.rule? r = some d1 ∧ G2.rule? r = some d2 ∧ d1.atom = d2.atom ∧ d1.emit = d2.emit ∧
      Rw d1.body d2.body

theorem RelW.forget {W : Val → Val → Prop} {r1 r2 : R Val} (h : RelW W r1 r2) :
    RelW (fun _ _ => True) r1.forget r2.forget := by
  rcases h.cases with h1 | ⟨m, h1, h2⟩ | ⟨i, m, a, b, h1, h2, _⟩
  · rw [h1]; exact RelW.oof_left _
  · rw [h1, h2]; simp only [Res.forget, RelW]
  · rw [h1, h2]; exact ⟨rfl, rfl, trivial⟩

theorem hasContentPairs_GRel (hG : GRel G1 G2) (r : RuleId) : hasContentPairs G1 r = hasContentPairs G2 r := by
  unfold hasContentPairs
  rcases hG.rules r with ⟨h1, h2⟩ | ⟨d1, d2, h1, h2, ha, _, _⟩
  · rw [h1, h2]
  · rw [h1, h2]; simp only [ha]

/-- **Simulation**: with the same fuel, whenever the run on the first module has an answer, the run
on the flattened module has the same verdict, cursor, stack, tracker and token tree. -/
theorem parse_sim (hG : GRel G1 G2) :
    ∀ (n : Nat) (a b : Node), Rw a b → ∀ (inh : Bool) (i : Inp) (m : M),
      RelT G1 G2 (parse G1 uni n inh a i m) (parse G2 uni n inh b i m) := by
  intro n
  induction n with
  | zero => intros; exact RelW.oof_left _
  | succ n ih =>
    intro a b hrw inh i m
    have hskip : ∀ k i m, RelL G1 G2 [] (skipLoop (parse G1 uni n false G1.skipped) k i m [])
        (skipLoop (parse G2 uni n false G2.skipped) k i m []) := fun k i m =>
      GenOpt.skipLoop_sim G1 G2 _ _ (ih _ _ hG.skipped false) k i m [] [] [] rfl
    have hcheck : ∀ a b, Rw a b → ∀ inh i m,
        RelW (fun _ _ => True) (check G1 uni n inh a i m) (check G2 uni n inh b i m) := by
      intro a b hab inh i m
      rw [check_eq_parse_forget, check_eq_parse_forget]
      exact (ih a b hab inh i m).forget
    cases hrw with
    | leaf hleaf =>
      cases a <;> simp only [Node.isLeaf, Bool.false_eq_true] at hleaf <;> simp only [parse] <;>
        (repeat' split) <;> simp only [RelW, Val.leaf, tokens, tokensList, and_self]
    | seq hl =>
      rename_i sk xs ys
      simp only [parse]
      cases hl with
      | nil => exact ⟨rfl, rfl, by simp only [tokens, tokensList]⟩
      | cons hxy hrest =>
        simp only []
        rcases (ih _ _ hxy inh i m).cases with h1 | ⟨m', h1, h2⟩ | ⟨i', m', v1, v2, h1, h2, hv⟩
        · rw [h1]; exact RelW.oof_left _
        · rw [h1, h2]; simp only [RelW]
        · rw [h1, h2]
          simp only []
          rcases (seqLoop_sim G1 G2 _ _ _ _ (fun x y hxy => ih x y hxy inh) (hskip (skipCount sk inh)) _ _ hrest
              i' m' [] [] [] rfl).cases with h1 | ⟨m'', h1, h2⟩ | ⟨i'', m'', l1, l2, h1, h2, hl⟩
          · rw [h1]; exact RelW.oof_left _
          · rw [h1, h2]; simp only [RelW]
          · rw [h1, h2]
            refine ⟨rfl, rfl, ?_⟩
            simp only [List.nil_append] at hl
            simp only [tokens, tokensList, tok_dfltSkipped, hv, hl]
    | choice hl =>
      rename_i xs ys
      simp only [parse]
      rcases (choiceLoop_sim G1 G2 _ _ (fun x y hxy => ih x y hxy inh) _ _ hl 0 0 i m).cases
        with h1 | ⟨m', h1, h2⟩ | ⟨i', m', p1, p2, h1, h2, hp⟩
      · rw [h1]; exact RelW.oof_left _
      · rw [h1, h2]; simp only [RelW]
      · rw [h1, h2]
        obtain ⟨k1, v1⟩ := p1
        obtain ⟨k2, v2⟩ := p2
        refine ⟨rfl, rfl, ?_⟩
        simp only [tokens, tokensList, List.append_nil]
        exact hp
    | opt hab =>
      simp only [parse]
      rcases (ih _ _ hab inh i m).cases with h1 | ⟨m', h1, h2⟩ | ⟨i', m', v1, v2, h1, h2, hv⟩
      · rw [h1]; exact RelW.oof_left _
      · rw [h1, h2]; simp only [restoreOnNone]; exact ⟨rfl, rfl, by simp only [Val.leaf, tokens, tokensList]⟩
      · rw [h1, h2]; simp only [restoreOnNone]
        exact ⟨rfl, rfl, by simp only [tokens, tokensList, List.append_nil]; exact hv⟩
    | rep hab =>
      rename_i sk mn mx x y
      simp only [parse]
      rcases (GenOpt.repLoop_sim G1 G2 _ _ (repUnitP_sim G1 G2 _ _ _ _ _ _ (skipCount sk inh)
          (ih _ _ hG.skipped false) (ih _ _ hab inh) (tok_dflt G1) (tok_dflt G2)) mn mx n 0 i m [] [] [] rfl rfl).cases
        with h1 | ⟨m', h1, h2⟩ | ⟨i', m', l1, l2, h1, h2, hl⟩
      · rw [h1]; exact RelW.oof_left _
      · rw [h1, h2]; simp only [RelW]
      · rw [h1, h2]
        simp only [List.nil_append] at hl
        exact ⟨rfl, rfl, by simp only [tokens]; exact hl⟩
    | atomicRepeat hab =>
      rename_i x y
      simp only [parse]
      rcases (GenOpt.repLoop_sim G1 G2 (fun _ i m => parse G1 uni n inh x i m) (fun _ i m => parse G2 uni n inh y i m)
          (fun _ i m => ih _ _ hab inh i m) 0 none (atomicBudget n) 0 i { m with trk := Tracker.new i } [] [] [] rfl rfl).cases
        with h1 | ⟨m', h1, h2⟩ | ⟨i', m', l1, l2, h1, h2, hl⟩
      · rw [h1]; exact RelW.oof_left _
      · rw [h1, h2]; simp only [RelW]
      · rw [h1, h2]
        simp only [List.nil_append] at hl
        exact ⟨rfl, rfl, by simp only [tokens]; exact hl⟩
    | pos hab =>
      simp only [parse]
      rcases (ih _ _ hab inh i { m with trk := { m.trk with positive := true } }).cases
        with h1 | ⟨m', h1, h2⟩ | ⟨i', m', v1, v2, h1, h2, hv⟩
      · rw [h1]; exact RelW.oof_left _
      · rw [h1, h2]; simp only [RelW]
      · rw [h1, h2]; exact ⟨rfl, rfl, by simp only [tokens]⟩
    | neg hab =>
      simp only [parse]
      rcases (hcheck _ _ hab inh i { m with trk := { m.trk with positive := false } }).cases
        with h1 | ⟨m', h1, h2⟩ | ⟨i', m', v1, v2, h1, h2, hv⟩
      · rw [h1]; exact RelW.oof_left _
      · rw [h1, h2]; exact ⟨rfl, rfl, by simp only [Val.leaf, tokens]⟩
      · rw [h1, h2]; simp only [RelW]
    | push hab =>
      simp only [parse]
      rcases (ih _ _ hab inh i m).cases with h1 | ⟨m', h1, h2⟩ | ⟨i', m', v1, v2, h1, h2, hv⟩
      · rw [h1]; exact RelW.oof_left _
      · rw [h1, h2]; simp only [RelW]
      · rw [h1, h2]; exact ⟨rfl, rfl, by simp only [tokens, tokensList, List.append_nil]; exact hv⟩
    | ref r f =>
      simp only [parse]
      rcases hG.rules r with ⟨hr1, hr2⟩ | ⟨d1, d2, hr1, hr2, hatom, hemit, hbody⟩
      · rw [hr1, hr2]; simp only [RelW]
      · rw [hr1, hr2]
        simp only [← hemit]
        have hcp := hasContentPairs_GRel G1 G2 hG r
        cases d1.emit with
        | expression =>
          simp only []
          rcases (ih _ _ hbody (f.eval inh) i m).cases with h1 | ⟨m', h1, h2⟩ | ⟨i', m', v1, v2, h1, h2, hv⟩
          · rw [h1]; exact RelW.oof_left _
          · rw [h1, h2]; simp only [RelW]
          · rw [h1, h2]; exact ⟨rfl, rfl, by simp only [tokens, tokensList, List.append_nil]; exact hv⟩
        | span =>
          simp only []
          rcases (hcheck _ _ hbody (f.eval inh) i { m with trk := m.trk.enter r i.pos }).cases
            with h1 | ⟨m', h1, h2⟩ | ⟨i', m', v1, v2, h1, h2, hv⟩
          · rw [h1]; exact RelW.oof_left _
          · rw [h1, h2]; simp only [RelW]
          · rw [h1, h2]; exact ⟨rfl, rfl, by simp only [tokens, tokensList, ite_self]⟩
        | both =>
          simp only []
          rcases (ih _ _ hbody (f.eval inh) i { m with trk := m.trk.enter r i.pos }).cases
            with h1 | ⟨m', h1, h2⟩ | ⟨i', m', v1, v2, h1, h2, hv⟩
          · rw [h1]; exact RelW.oof_left _
          · rw [h1, h2]; simp only [RelW]
          · rw [h1, h2]
            exact ⟨rfl, rfl, by simp only [tokens, tokensList, List.append_nil, hcp, hv]⟩
    | array hab =>
      rename_i k x y
      simp only [parse, arrayTryInto_arrayLoop]
      rcases (arrayLoop_sim G1 G2 _ _ (ih _ _ hab inh) k i m [] [] [] rfl).cases
        with h1 | ⟨m', h1, h2⟩ | ⟨i', m', l1, l2, h1, h2, hl⟩
      · rw [h1]; exact RelW.oof_left _
      · rw [h1, h2]; simp only [RelW]
      · rw [h1, h2]
        simp only [List.nil_append] at hl
        exact ⟨rfl, rfl, by simp only [tokens]; exact hl⟩
    | pair ha hb =>
      simp only [parse]
      rcases (ih _ _ ha inh i m).cases with h1 | ⟨m', h1, h2⟩ | ⟨i', m', v1, v2, h1, h2, hv⟩
      · rw [h1]; exact RelW.oof_left _
      · rw [h1, h2]; simp only [RelW]
      · rw [h1, h2]
        simp only []
        rcases (ih _ _ hb inh i' m').cases with h1 | ⟨m'', h1, h2⟩ | ⟨i'', m'', w1, w2, h1, h2, hw⟩
        · rw [h1]; exact RelW.oof_left _
        · rw [h1, h2]; simp only [RelW]
        · rw [h1, h2]
          exact ⟨rfl, rfl, by simp only [tokens, tokensList, List.append_nil, hv, hw]⟩
    | seqFlat hx hxs hys =>
      rename_i sk x x' xs xs' ys ys'
      cases n with
      | zero => simp only [parse]; exact RelW.oof_left _
      | succ n0 =>
        -- the inner sequence runs one level deeper on the left: lift the induction hypothesis
        have hlift : ∀ a b, Rw a b → ∀ inh i m,
            RelT G1 G2 (parse G1 uni n0 inh a i m) (parse G2 uni (n0+1) inh b i m) := by
          intro a b hab inh i m
          by_cases ho : parse G1 uni n0 inh a i m = .oof
          · rw [ho]; exact RelW.oof_left _
          · rw [← parse_succ G1 uni n0 inh a i m ho]; exact ih a b hab inh i m
        have hskipLift : ∀ k i m, RelL G1 G2 [] (skipLoop (parse G1 uni n0 false G1.skipped) k i m [])
            (skipLoop (parse G2 uni (n0+1) false G2.skipped) k i m []) := fun k i m =>
          GenOpt.skipLoop_sim G1 G2 _ _ (hlift _ _ hG.skipped false) k i m [] [] [] rfl
        simp only [parse]
        rcases (hlift _ _ hx inh i m).cases with h1 | ⟨ma, h1, h2⟩ | ⟨ia, ma, vx, vx', h1, h2, hvx⟩
        · rw [h1]; exact RelW.oof_left _
        · rw [h1, h2]; simp only [RelW]
        · rw [h1, h2]
          simp only []
          rw [seqLoop_append]
          rcases (seqLoop_sim G1 G2 _ _ _ _ (fun a b hab => hlift a b hab inh) (hskipLift (skipCount sk inh)) _ _ hxs
              ia ma [] [] [] rfl).cases with h1 | ⟨mb, h1, h2⟩ | ⟨ib, mb, vxs, vxs', h1, h2, hvxs⟩
          · rw [h1]; exact RelW.oof_left _
          · rw [h1, h2]; simp only [RelW]
          · rw [h1, h2]
            simp only []
            simp only [List.nil_append] at hvxs
            rcases (seqLoop_sim G1 G2 _ _ _ _ (fun a b hab => ih a b hab inh) (hskip (skipCount sk inh)) _ _ hys
                ib mb [] vxs'.reverse (tokensList G2 vxs')
                (by simp only [List.reverse_nil, tokensList, List.append_nil, List.reverse_reverse])).cases
              with h1 | ⟨mc, h1, h2⟩ | ⟨ic, mc, vys, l2, h1, h2, hl⟩
            · rw [h1]; exact RelW.oof_left _
            · rw [h1, h2]; simp only [RelW]
            · rw [h1, h2]
              refine ⟨rfl, rfl, ?_⟩
              simp only [tokens, tokensList, tok_dfltSkipped]
              rw [← hl, ← hvxs, hvx, List.append_assoc]
    | choiceFlat hx hxs hys =>
      rename_i x x' xs xs' ys ys'
      cases n with
      | zero => simp only [parse, choiceLoop, restoreOnNone]; exact RelW.oof_left _
      | succ n0 =>
        have hlift : ∀ a b, Rw a b → ∀ inh i m,
            RelT G1 G2 (parse G1 uni n0 inh a i m) (parse G2 uni (n0+1) inh b i m) := by
          intro a b hab inh i m
          by_cases ho : parse G1 uni n0 inh a i m = .oof
          · rw [ho]; exact RelW.oof_left _
          · rw [← parse_succ G1 uni n0 inh a i m ho]; exact ih a b hab inh i m
        have hinner := choiceLoop_sim G1 G2 _ _ (fun a b hab => hlift a b hab inh) _ _
          (RwL.cons hx hxs) 0 0 i m
        have happ := choiceLoop_append (parse G2 uni (n0+1) inh) (x' :: xs') ys' 0 i m
        simp only [List.cons_append] at happ
        simp only [parse]
        rw [happ, choiceLoop_cons (parse G1 uni (n0+1) inh) (Node.choice (x :: xs)) ys 0 i m]
        simp only [parse]
        rcases hinner.cases with h1 | ⟨m', h1, h2⟩ | ⟨i', m', p1, p2, h1, h2, hp⟩
        · rw [h1]; simp only [restoreOnNone]; exact RelW.oof_left _
        · have hstk := choiceLoop_fail_stk _ _ _ _ _ _ h1
          rw [h1, h2]
          simp only [restoreOnNone]
          have hm : ({ m' with stk := m.stk } : M) = m' := by
            cases m'; simp only at hstk; subst hstk; rfl
          rw [hm]
          rcases (choiceLoop_sim G1 G2 _ _ (fun a b hab => ih a b hab inh) _ _ hys (0+1)
              (0 + (x' :: xs').length) i m').cases with h1 | ⟨m'', h1, h2⟩ | ⟨i'', m'', q1, q2, h1, h2, hq⟩
          · rw [h1]; exact RelW.oof_left _
          · rw [h1, h2]; simp only [RelW]
          · rw [h1, h2]
            obtain ⟨k1, v1⟩ := q1
            obtain ⟨k2, v2⟩ := q2
            exact ⟨rfl, rfl, by simp only [tokens, tokensList, List.append_nil]; exact hq⟩
        · rw [h1, h2]
          obtain ⟨k1, v1⟩ := p1
          obtain ⟨k2, v2⟩ := p2
          simp only [restoreOnNone]
          exact ⟨rfl, rfl, by simp only [tokens, tokensList, List.append_nil]; exact hp⟩
    | strCat sa sb =>
      cases n with
      | zero => simp only [parse]; exact RelW.oof_left _
      | succ n0 =>
        simp only [parse, seqLoop, skipLoop, skipCount, Flag.eval, Bool.false_eq_true, if_false,
          Inp.matchString_append, List.reverse_nil]
        cases i.matchString sa with
        | none => simp only [RelW]
        | some i' =>
          simp only []
          cases i'.matchString sb with
          | none => simp only [RelW]
          | some i'' =>
            simp only [RelW, true_and, List.replicate_zero]
            simp only [tokens, tokensList, mkSkipped, Val.leaf, List.append_nil, List.reverse_cons, List.reverse_nil,
              List.nil_append]
    | strCatTail sa sb hx hpre =>
      rename_i x x' pre pre'
      simp only [parse]
      rcases (ih _ _ hx inh i m).cases with h1 | ⟨m', h1, h2⟩ | ⟨i', m', v1, v2, h1, h2, hv⟩
      · rw [h1]; exact RelW.oof_left _
      · rw [h1, h2]; simp only [RelW]
      · rw [h1, h2]
        simp only []
        rw [seqLoop_append, seqLoop_append]
        rcases (seqLoop_sim G1 G2 _ _ _ _ (fun a b hab => ih a b hab inh) (hskip (skipCount .zero inh)) _ _ hpre
            i' m' [] [] [] rfl).cases with h1 | ⟨m'', h1, h2⟩ | ⟨i'', m'', l1, l2, h1, h2, hl⟩
        · rw [h1]; exact RelW.oof_left _
        · rw [h1, h2]; simp only [RelW]
        · rw [h1, h2]
          simp only [List.nil_append] at hl
          cases n with
          | zero => simp only [seqLoop, skipLoop, skipCount, Flag.eval, Bool.false_eq_true, if_false, parse]
                    exact RelW.oof_left _
          | succ n0 =>
            simp only [parse, seqLoop, skipLoop, skipCount, Flag.eval, Bool.false_eq_true, if_false,
              Inp.matchString_append, List.reverse_nil]
            cases i''.matchString sa with
            | none => simp only [RelW]
            | some j =>
              simp only []
              cases j.matchString sb with
              | none => simp only [RelW]
              | some j' =>
                simp only [RelW, true_and, List.replicate_zero]
                simp only [tokens, tokensList, tokL_append, List.reverse_cons, List.reverse_reverse,
                  tok_mkSkipped, Val.leaf, List.append_nil, hv, hl]

end Sim2

section Sim3
variable (G1 G2 : NodeGrammar) (uni : Uni)

theorem tryParse_sim (hG : GRel G1 G2) (n : Nat) (r : RuleId) (i : Inp) :
    RelT G1 G2 (tryParse G1 uni n r i) (tryParse G2 uni n r i) := by
  unfold tryParse
  rcases hG.rules r with ⟨hr1, hr2⟩ | ⟨d1, d2, hr1, hr2, hatom, _, _⟩
  · rw [hr1, hr2]; simp only [RelW]
  · rw [hr1, hr2]
    simp only []
    have hn : noTrailingSkip r d1 = noTrailingSkip r d2 := by simp only [noTrailingSkip, hatom]
    rcases (parse_sim G1 G2 uni hG n _ _ (Rw.ref r .one) true i (M.init i)).cases
      with h1 | ⟨m', h1, h2⟩ | ⟨i', m', v1, v2, h1, h2, hv⟩
    · rw [h1]; exact RelW.oof_left _
    · rw [h1, h2]; simp only [RelW]
    · rw [h1, h2]
      simp only [hn]
      split
      · split
        · exact ⟨rfl, rfl, hv⟩
        · simp only [RelW]
      · rcases (parse_sim G1 G2 uni hG n _ _ hG.skipped false i' m').cases
          with h1 | ⟨m'', h1, h2⟩ | ⟨i'', m'', s1, s2, h1, h2, _⟩
        · rw [h1]; exact RelW.oof_left _
        · rw [h1, h2]; simp only [RelW]
        · rw [h1, h2]
          simp only []
          split
          · exact ⟨rfl, rfl, hv⟩
          · simp only [RelW]

/-- The relation only looks at what `boxed` does not touch. -/
theorem GRel.of_erase {G1 G2 G1' G2' : NodeGrammar} (h1 : G1.eraseBoxed = G1'.eraseBoxed)
    (h2 : G2.eraseBoxed = G2'.eraseBoxed) (hG : GRel G1 G2) : GRel G1' G2' := by
  have hs1 : G1'.skipped = G1.skipped := by
    have := congrArg NodeGrammar.skipped h1; simpa only [NodeGrammar.eraseBoxed_skipped] using this.symm
  have hs2 : G2'.skipped = G2.skipped := by
    have := congrArg NodeGrammar.skipped h2; simpa only [NodeGrammar.eraseBoxed_skipped] using this.symm
  have key : ∀ {G G' : NodeGrammar}, G.eraseBoxed = G'.eraseBoxed → ∀ r,
      (G.rule? r = none ∧ G'.rule? r = none) ∨
      ∃ d d', G.rule? r = some d ∧ G'.rule? r = some d' ∧ d.atom = d'.atom ∧ d.emit = d'.emit ∧ d.body = d'.body := by
    intro G G' h r
    have hr : (G.rule? r).map RuleDef.eraseBoxed = (G'.rule? r).map RuleDef.eraseBoxed := by
      rw [← NodeGrammar.eraseBoxed_rule?, ← NodeGrammar.eraseBoxed_rule?, h]
    cases ha : G.rule? r with
    | none =>
      cases hb : G'.rule? r with
      | none => exact Or.inl ⟨rfl, rfl⟩
      | some d' => rw [ha, hb] at hr; cases hr
    | some d =>
      cases hb : G'.rule? r with
      | none => rw [ha, hb] at hr; cases hr
      | some d' =>
        rw [ha, hb] at hr
        simp only [Option.map_some, Option.some.injEq, RuleDef.eraseBoxed] at hr
        refine Or.inr ⟨d, d', rfl, rfl, ?_, ?_, ?_⟩
        · exact (congrArg RuleDef.atom hr : _)
        · exact (congrArg RuleDef.emit hr : _)
        · exact (congrArg RuleDef.body hr : _)
  refine ⟨by rw [hs1, hs2]; exact hG.skipped, fun r => ?_⟩
  rcases hG.rules r with ⟨hr1, hr2⟩ | ⟨d1, d2, hr1, hr2, hatom, hemit, hbody⟩
  · rcases key h1 r with ⟨_, hb⟩ | ⟨d, d', ha, _, _⟩
    · rcases key h2 r with ⟨_, hb2⟩ | ⟨d, d', ha2, _, _⟩
      · exact Or.inl ⟨hb, hb2⟩
      · rw [hr2] at ha2; cases ha2
    · rw [hr1] at ha; cases ha
  · rcases key h1 r with ⟨ha, _⟩ | ⟨e1, e1', ha, hb, ea, ee, eb⟩
    · rw [hr1] at ha; cases ha
    · rcases key h2 r with ⟨ha2, _⟩ | ⟨e2, e2', ha2, hb2, fa, fe, fb⟩
      · rw [hr2] at ha2; cases ha2
      · rw [hr1] at ha; cases ha
        rw [hr2] at ha2; cases ha2
        exact Or.inr ⟨e1', e2', hb, hb2, by rw [← ea, ← fa, hatom], by rw [← ee, ← fe, hemit],
          by rw [← eb, ← fb]; exact hbody⟩

end Sim3

/-- Several rewriting layers (several passes, or one pass firing at nested positions). -/
inductive GRelStar : NodeGrammar → NodeGrammar → Prop
  | refl (G : NodeGrammar) : GRelStar G G
  | step {G1 G2 G3 : NodeGrammar} : GRel G1 G2 → GRelStar G2 G3 → GRelStar G1 G3

theorem RelT.trans {G1 G2 G3 : NodeGrammar} {r1 r2 r3 : R Val} (h12 : RelT G1 G2 r1 r2) (h23 : RelT G2 G3 r2 r3) :
    RelT G1 G3 r1 r3 := by
  rcases h12.cases with h1 | ⟨m, h1, h2⟩ | ⟨i, m, a, b, h1, h2, hab⟩
  · rw [h1]; exact RelW.oof_left _
  · rw [h1]; rw [h2] at h23
    rcases h23.cases with h3 | ⟨m', h3, h4⟩ | ⟨_, _, _, _, h3, _, _⟩
    · cases h3
    · cases h3; rw [h4]; simp only [RelW]
    · cases h3
  · rw [h1]; rw [h2] at h23
    rcases h23.cases with h3 | ⟨m', h3, _⟩ | ⟨i', m', b', c, h3, h4, hbc⟩
    · cases h3
    · cases h3
    · cases h3; rw [h4]; exact ⟨rfl, rfl, hab.trans hbc⟩

theorem RelT.refl (G : NodeGrammar) (r : R Val) : RelT G G r r := by
  cases r with
  | oof => exact RelW.oof_left _
  | fail m => simp only [RelW]
  | ok i m v => exact ⟨rfl, rfl, rfl⟩

theorem tryParsePartial_simStar (uni : Uni) {G1 G2 : NodeGrammar} (h : GRelStar G1 G2) (n : Nat) (r : RuleId) (i : Inp) :
    RelT G1 G2 (tryParsePartial G1 uni n r i) (tryParsePartial G2 uni n r i) := by
  induction h with
  | refl G => exact RelT.refl G _
  | step hG _ ih => exact RelT.trans (parse_sim _ _ uni hG n _ _ (Rw.ref r .one) true i (M.init i)) ih

theorem tryParse_simStar (uni : Uni) {G1 G2 : NodeGrammar} (h : GRelStar G1 G2) (n : Nat) (r : RuleId) (i : Inp) :
    RelT G1 G2 (tryParse G1 uni n r i) (tryParse G2 uni n r i) := by
  induction h with
  | refl G => exact RelT.refl G _
  | step hG _ ih => exact RelT.trans (tryParse_sim _ _ uni hG n r i) ih

mutual
theorem Rw.refl : ∀ a : Node, Rw a a
  | .str _ => .leaf rfl
  | .insens _ => .leaf rfl
  | .range _ _ => .leaf rfl
  | .any => .leaf rfl
  | .soi => .leaf rfl
  | .eoi => .leaf rfl
  | .newline => .leaf rfl
  | .charBy _ => .leaf rfl
  | .skipUntil _ => .leaf rfl
  | .skipChars _ => .leaf rfl
  | .seq _ xs => .seq (RwL.refl xs)
  | .choice xs => .choice (RwL.refl xs)
  | .opt a => .opt (Rw.refl a)
  | .rep _ _ _ a => .rep (Rw.refl a)
  | .atomicRepeat a => .atomicRepeat (Rw.refl a)
  | .pos a => .pos (Rw.refl a)
  | .neg a => .neg (Rw.refl a)
  | .push a => .push (Rw.refl a)
  | .peek => .leaf rfl
  | .peekAll => .leaf rfl
  | .pop => .leaf rfl
  | .popAll => .leaf rfl
  | .drop => .leaf rfl
  | .peekSlice _ _ => .leaf rfl
  | .ref r f => .ref r f
  | .array _ a => .array (Rw.refl a)
  | .pair a b => .pair (Rw.refl a) (Rw.refl b)
  | .empty => .leaf rfl
  | .alwaysFail => .leaf rfl
theorem RwL.refl : ∀ xs : List Node, RwL xs xs
  | [] => .nil
  | x :: xs => .cons (Rw.refl x) (RwL.refl xs)
end

theorem GRel.refl (G : NodeGrammar) : GRel G G := by
  refine ⟨Rw.refl _, fun r => ?_⟩
  cases h : G.rule? r with
  | none => exact Or.inl ⟨rfl, rfl⟩
  | some d => exact Or.inr ⟨d, d, rfl, rfl, rfl, rfl, Rw.refl _⟩

theorem GRelStar.of_erase {G1 G2 G1' G2' : NodeGrammar} (h1 : G1.eraseBoxed = G1'.eraseBoxed)
    (h2 : G2.eraseBoxed = G2'.eraseBoxed) (h : GRelStar G1 G2) : GRelStar G1' G2' := by
  induction h generalizing G1' G2' with
  | refl G => exact GRelStar.step (GRel.of_erase h1 h2 (GRel.refl G)) (GRelStar.refl _)
  | step hG _ ih => exact GRelStar.step (GRel.of_erase h1 rfl hG) (ih rfl h2)


/-! ## (E) every rule type mentioned in a generated body is an edge of the analysed graph -/

mutual
/-- The rule structs a type expression mentions. -/
def Node.ruleRefs : Node → List RuleId
  | .seq _ xs => Node.ruleRefsList xs
  | .choice xs => Node.ruleRefsList xs
  | .opt a => a.ruleRefs
  | .rep _ _ _ a => a.ruleRefs
  | .atomicRepeat a => a.ruleRefs
  | .pos a => a.ruleRefs
  | .neg a => a.ruleRefs
  | .push a => a.ruleRefs
  | .ref r _ => [r]
  | .array _ a => a.ruleRefs
  | .pair a b => a.ruleRefs ++ b.ruleRefs
  | _ => []
def Node.ruleRefsList : List Node → List RuleId
  | [] => []
  | x :: xs => x.ruleRefs ++ Node.ruleRefsList xs
end

theorem builtinNode_refs (name : String) : ∀ k, k ∈ (builtinNode name).ruleRefs → k = 0 := by
  intro k hk
  unfold builtinNode at hk
  simp only [apply_ite Node.ruleRefs, Node.ruleRefs, Node.ruleRefsList, asciiDigit, asciiAlpha, asciiAlphaLower, asciiAlphaUpper,
    List.append_nil] at hk
  simp at hk
  exact hk.2.2.2

/-- What `genExpr`, `genSeqSpine` and `genChoiceSpine` mention: rule 0 (`EOI`) or the rule struct of an
identifier occurring in the expression. -/
def RefsOk (g : PGrammar) (e : PExpr) (ks : List RuleId) : Prop :=
  ∀ k, k ∈ ks → k = 0 ∨ ∃ name, name ∈ usedIdents e ∧ g.indexOf name = some (k - 1) ∧ 0 < k

theorem RefsOk.mono {g : PGrammar} {e e' : PExpr} {ks : List RuleId} (h : RefsOk g e ks)
    (hsub : ∀ n, n ∈ usedIdents e → n ∈ usedIdents e') : RefsOk g e' ks := by
  intro k hk
  rcases h k hk with h0 | ⟨name, hn, hi, hp⟩
  · exact Or.inl h0
  · exact Or.inr ⟨name, hsub name hn, hi, hp⟩

theorem RefsOk.append {g : PGrammar} {e : PExpr} {ks ks' : List RuleId} (h : RefsOk g e ks) (h' : RefsOk g e ks') :
    RefsOk g e (ks ++ ks') := by
  intro k hk
  rcases List.mem_append.mp hk with hk | hk
  · exact h k hk
  · exact h' k hk

theorem genExpr_refs (g : PGrammar) (sk : Flag) : ∀ e : PExpr,
    RefsOk g e (genExpr g sk e).ruleRefs ∧ RefsOk g e (Node.ruleRefsList (genSeqSpine g sk e)) ∧
    RefsOk g e (Node.ruleRefsList (genChoiceSpine g sk e)) := by
  intro e
  induction e with
  | ident name =>
    have h1 : RefsOk g (.ident name) (genExpr g sk (.ident name)).ruleRefs := by
      simp only [genExpr]
      intro k hk
      cases hi : g.indexOf name with
      | none =>
        rw [hi] at hk
        exact Or.inl (builtinNode_refs name k hk)
      | some j =>
        rw [hi] at hk
        simp only [Node.ruleRefs, List.mem_singleton] at hk
        subst hk
        exact Or.inr ⟨name, by simp only [usedIdents, List.mem_singleton], by simpa using hi, Nat.succ_pos _⟩
    refine ⟨h1, ?_, ?_⟩
    · simp only [genSeqSpine, Node.ruleRefsList, List.append_nil]; exact h1
    · simp only [genChoiceSpine, Node.ruleRefsList, List.append_nil]; exact h1
  | seq a b iha ihb =>
    have h1 : RefsOk g (.seq a b) (genExpr g sk (.seq a b)).ruleRefs := by
      simp only [genExpr, Node.ruleRefs, Node.ruleRefsList]
      exact (iha.1.mono (fun n hn => by simp only [usedIdents, List.mem_append]; exact Or.inl hn)).append
        (ihb.2.1.mono (fun n hn => by simp only [usedIdents, List.mem_append]; exact Or.inr hn))
    refine ⟨h1, ?_, ?_⟩
    · simp only [genSeqSpine, Node.ruleRefsList]
      exact (iha.1.mono (fun n hn => by simp only [usedIdents, List.mem_append]; exact Or.inl hn)).append
        (ihb.2.1.mono (fun n hn => by simp only [usedIdents, List.mem_append]; exact Or.inr hn))
    · simp only [genChoiceSpine, Node.ruleRefsList, List.append_nil]; exact h1
  | choice a b iha ihb =>
    have h1 : RefsOk g (.choice a b) (genExpr g sk (.choice a b)).ruleRefs := by
      simp only [genExpr, Node.ruleRefs, Node.ruleRefsList]
      exact (iha.1.mono (fun n hn => by simp only [usedIdents, List.mem_append]; exact Or.inl hn)).append
        (ihb.2.2.mono (fun n hn => by simp only [usedIdents, List.mem_append]; exact Or.inr hn))
    refine ⟨h1, ?_, ?_⟩
    · simp only [genSeqSpine, Node.ruleRefsList, List.append_nil]; exact h1
    · simp only [genChoiceSpine, Node.ruleRefsList]
      exact (iha.1.mono (fun n hn => by simp only [usedIdents, List.mem_append]; exact Or.inl hn)).append
        (ihb.2.2.mono (fun n hn => by simp only [usedIdents, List.mem_append]; exact Or.inr hn))
  | str s | insens s | range lo hi | peekSlice a b | skip needles =>
    refine ⟨?_, ?_, ?_⟩ <;>
      simp only [genExpr, genSeqSpine, genChoiceSpine, Node.ruleRefs, Node.ruleRefsList, List.append_nil] <;>
      (intro k hk; cases hk)
  | posPred e ih | negPred e ih | opt e ih | rep e ih | repOnce e ih | push e ih | restoreOnErr e ih =>
    have h1 := ih.1
    refine ⟨?_, ?_, ?_⟩ <;>
      simp only [genExpr, genSeqSpine, genChoiceSpine, Node.ruleRefs, Node.ruleRefsList, List.append_nil] <;>
      exact h1.mono (fun n hn => by simpa only [usedIdents] using hn)
  | repExact e n ih | repMin e n ih | repMax e n ih =>
    have h1 := ih.1
    refine ⟨?_, ?_, ?_⟩ <;>
      simp only [genExpr, genSeqSpine, genChoiceSpine, Node.ruleRefs, Node.ruleRefsList, List.append_nil] <;>
      exact h1.mono (fun n hn => by simpa only [usedIdents] using hn)
  | repMinMax e n m ih =>
    have h1 := ih.1
    refine ⟨?_, ?_, ?_⟩ <;>
      simp only [genExpr, genSeqSpine, genChoiceSpine, Node.ruleRefs, Node.ruleRefsList, List.append_nil] <;>
      exact h1.mono (fun n hn => by simpa only [usedIdents] using hn)

end PestTyped
