/-
Lemmas.Consumed — the text a run consumes, and how the texts of consecutive sub-runs concatenate.

* `consumedText i i'`: the characters between two cursors of the same input (`= (i.spanTo i').txt`,
  the text of `start.span(end)`); for `i.Adv i'` it is THE text `t` with `i.rest = t ++ i'.rest`
  (`Inp.Adv.rest_eq`, `consumedText_of_eq`), of byte length `i'.pos - i.pos` (`Inp.Adv.pos_eq`);
  along advancing cursors it concatenates (`consumedText_trans`).
* `Iter.skipText` / `Iter.elemText` / `Iter.text` for the recorded iterations of `Lemmas/Choice`
  (`SeqRun`, `RepRun`), `Linked.concat`: the text of a tiled run is the concatenation, in order,
  of the skip text and the element text of every iteration.
* `ArrayTexts` / `ArrayChain.texts`: the same for `[T; N]`.
* `RepIters.snoc_inv`: the last iteration of a successful prefix of a repetition.
-/
import PestTyped.Lemmas.SkipSites
import PestTyped.Lemmas.RepLoop
namespace PestTyped

/-- The characters between the cursors `i` and `i'` (meaningful when `i.Adv i'`). -/
def consumedText (i i' : Inp) : List Char := i.rest.take (i.rest.length - i'.rest.length)

theorem consumedText_eq_span (i i' : Inp) : consumedText i i' = (i.spanTo i').txt := rfl

theorem consumedText_of_eq {i i' : Inp} {t : List Char} (h : i.rest = t ++ i'.rest) : consumedText i i' = t := by
  unfold consumedText
  rw [h, List.length_append, Nat.add_sub_cancel]
  exact List.take_left' rfl

theorem Inp.Adv.rest_eq {i i' : Inp} (h : i.Adv i') : i.rest = consumedText i i' ++ i'.rest := by
  obtain ⟨k, hk, rfl⟩ := h
  unfold consumedText
  simp only [Inp.adv, List.length_drop]
  have : i.rest.length - (i.rest.length - k) = k := by omega
  rw [this, List.take_append_drop]

theorem Inp.Adv.pos_eq {i i' : Inp} (h : i.Adv i') : i'.pos = i.pos + blen (consumedText i i') := by
  obtain ⟨p, s, hr, hs, hp⟩ := h.boundary
  have : consumedText i i' = p := consumedText_of_eq (by rw [hr, hs])
  rw [this, hp]

theorem consumedText_self (i : Inp) : consumedText i i = [] := by
  unfold consumedText; simp

theorem consumedText_trans {i i1 i2 : Inp} (h1 : i.Adv i1) (h2 : i1.Adv i2) :
    consumedText i i2 = consumedText i i1 ++ consumedText i1 i2 := by
  apply consumedText_of_eq
  rw [List.append_assoc, ← h2.rest_eq, ← h1.rest_eq]

/-- The consumed text determines the end cursor. -/
theorem Inp.Adv.eq_of_consumedText {i a b : Inp} (ha : i.Adv a) (hb : i.Adv b)
    (h : consumedText i a = consumedText i b) : a = b := by
  have hra := ha.rest_eq
  have hrb := hb.rest_eq
  have hrest : a.rest = b.rest := by
    rw [h] at hra; rw [hra] at hrb; exact List.append_cancel_left hrb
  have hpos : a.pos = b.pos := by rw [ha.pos_eq, hb.pos_eq, h]
  have hs : a.start = b.start := by rw [ha.start_eq, hb.start_eq]
  have haf : a.after = b.after := by rw [ha.after_eq, hb.after_eq]
  cases a; cases b; simp only [Inp.mk.injEq] at *; exact ⟨hs, hpos, hrest, haf⟩

/-! ### recorded iterations -/

/-- Text consumed by the implicit skips in front of the element of a recorded iteration. -/
def Iter.skipText (it : Iter) : List Char := consumedText it.start it.mid
/-- Text consumed by the element itself. -/
def Iter.elemText (it : Iter) : List Char := consumedText it.mid it.stop
/-- Text consumed by the iteration: skips, then the element. -/
def Iter.text (it : Iter) : List Char := it.skipText ++ it.elemText

/-- A tiled run consumes the concatenation, in order, of the texts of its iterations. -/
theorem Linked.concat : ∀ {l : List Iter} {i i' : Inp}, Linked i l i' →
    (∀ it, it ∈ l → it.start.Adv it.mid ∧ it.mid.Adv it.stop) →
    i.Adv i' ∧ consumedText i i' = (l.map Iter.text).flatten
  | [], i, i', h, _ => by
    have : i' = i := h
    subst this
    exact ⟨Inp.Adv.refl _, by simp [consumedText_self]⟩
  | it :: l, i, i', h, hall => by
    obtain ⟨hs, hl⟩ := h
    subst hs
    obtain ⟨a1, a2⟩ := hall it (by simp)
    obtain ⟨ha, hc⟩ := Linked.concat hl (fun x hx => hall x (by simp [hx]))
    refine ⟨(a1.trans a2).trans ha, ?_⟩
    rw [consumedText_trans (a1.trans a2) ha, consumedText_trans a1 a2, hc]
    simp [Iter.text, Iter.skipText, Iter.elemText]

/-! ### `[T; N]` -/

/-- `ArrayChain` with the text each element consumed. -/
inductive ArrayTexts {α} (f : Inp → M → R α) : Inp → M → Inp → M → List α → List (List Char) → Prop
  | nil (i : Inp) (m : M) : ArrayTexts f i m i m [] []
  | cons {i : Inp} {m : M} {i1 : Inp} {m1 : M} {a : α} {i' : Inp} {m' : M} {vs : List α} {ts : List (List Char)} :
      f i m = .ok i1 m1 a → ArrayTexts f i1 m1 i' m' vs ts →
      ArrayTexts f i m i' m' (a :: vs) (consumedText i i1 :: ts)

theorem ArrayTexts.length {α} {f : Inp → M → R α} {i m i' m' vs ts} (h : ArrayTexts f i m i' m' vs ts) :
    ts.length = vs.length := by
  induction h with
  | nil => rfl
  | cons _ _ ih => simp [ih]

theorem ArrayTexts.chain {α} {f : Inp → M → R α} {i m i' m' vs ts} (h : ArrayTexts f i m i' m' vs ts) :
    ArrayChain f i m i' m' vs := by
  induction h with
  | nil => exact .nil _ _
  | cons h1 _ ih => exact .cons h1 ih

theorem ArrayChain.texts {α} {f : Inp → M → R α} (hf : AdvFn f) {i m i' m' vs}
    (h : ArrayChain f i m i' m' vs) :
    ∃ ts, ArrayTexts f i m i' m' vs ts ∧ i.Adv i' ∧ consumedText i i' = ts.flatten := by
  induction h with
  | nil i m => exact ⟨[], .nil i m, Inp.Adv.refl _, by simp [consumedText_self]⟩
  | cons h1 _ ih =>
    obtain ⟨ts, hT, ha, hc⟩ := ih
    have a1 := hf _ _ _ _ _ h1
    refine ⟨_ :: ts, .cons h1 hT, a1.trans ha, ?_⟩
    rw [consumedText_trans a1 ha, hc]; simp

/-! ### the last iteration of a successful prefix -/

theorem RepIters.snoc_inv {α} {unit : Nat → Inp → M → R α} {max : Option Nat} :
    ∀ (vs0 : List α) {idx : Nat} {i : Inp} {m : M} {i' : Inp} {m' : M} {a : α},
      RepIters unit max idx i m i' m' (vs0 ++ [a]) →
      ∃ iP mP, RepIters unit max idx i m iP mP vs0 ∧ max ≠ some (idx + vs0.length) ∧
        unit (idx + vs0.length) iP mP = .ok i' m' a
  | [], idx, i, m, i', m', a, h => by
    cases h with
    | cons hmax hu hrest =>
      obtain ⟨rfl, rfl⟩ := hrest.nil_inv
      exact ⟨i, m, .nil _ _ _, by simpa using hmax, by simpa using hu⟩
  | b :: vs0, idx, i, m, i', m', a, h => by
    cases h with
    | cons hmax hu hrest =>
      obtain ⟨iP, mP, hI, hm, hU⟩ := RepIters.snoc_inv vs0 hrest
      have e : idx + (b :: vs0).length = idx + 1 + vs0.length := by simp only [List.length_cons]; omega
      exact ⟨iP, mP, .cons hmax hu hI, by rw [e]; exact hm, by rw [e]; exact hU⟩

end PestTyped
