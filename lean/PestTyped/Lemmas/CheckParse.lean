/-
Lemmas.CheckParse — `check = parse` with the value forgotten, for every node (S3).

`check` runs on the check copies of the loops (`seqLoopC`, `choiceLoopC`, `repLoopC`, `arrayLoopC`,
`skipLoopC`, `repUnitC`), `parse` on the parse copies; the loop cases go through the agreement
lemmas `*LoopC_eq` of `Lemmas/Agree.lean`, instantiated with the induction hypothesis.
-/
import PestTyped.Lemmas.Agree
namespace PestTyped

theorem check_eq_parse_forget (g : NodeGrammar) (uni : Uni) :
    ∀ (n : Nat) (inh : Bool) (node : Node) (i : Inp) (m : M),
      check g uni n inh node i m = (parse g uni n inh node i m).forget := by
  intro n
  induction n with
  | zero => intros; rfl
  | succ n ih =>
    intro inh node i m
    have ihf : ∀ inh node i m, (check g uni n inh node i m).forget = (parse g uni n inh node i m).forget := by
      intro inh node i m; rw [ih]; exact Res.forget_unit _
    cases node with
    | str s => simp only [check, parse]; split <;> rfl
    | insens s => simp only [check, parse]; split <;> rfl
    | range lo hi => simp only [check, parse]; split <;> rfl
    | any => simp only [check, parse]; split <;> rfl
    | soi => simp only [check, parse]; split <;> rfl
    | eoi => simp only [check, parse]; split <;> rfl
    | newline => simp only [check, parse]; split <;> rfl
    | charBy p => simp only [check, parse]; split <;> rfl
    | skipUntil needles => simp only [check, parse]; rfl
    | skipChars k => simp only [check, parse]; split <;> rfl
    | seq sk items =>
      simp only [check, parse]
      cases items with
      | nil => rfl
      | cons n0 ns =>
        simp only []
        rcases forget_eq_cases (ihf inh n0 i m) with ⟨hc, hp⟩ | ⟨m', hc, hp⟩ | ⟨i', m', a, b, hc, hp⟩
        · rw [hc, hp]; rfl
        · rw [hc, hp]; rfl
        · rw [hc, hp]
          simp only []
          rw [seqLoopC_eq (check g uni n inh) (parse g uni n inh)
            (skipLoopC (check g uni n false g.skipped) (skipCount sk inh))
            (fun i m => skipLoop (parse g uni n false g.skipped) (skipCount sk inh) i m [])
            mkSkipped (ih inh)
            (fun i m => skipLoopC_eq _ _ (ih false g.skipped) _ _ _ _) ns i' m' []]
          cases seqLoop (parse g uni n inh)
            (fun i m => skipLoop (parse g uni n false g.skipped) (skipCount sk inh) i m [])
            mkSkipped ns i' m' [] <;> rfl
    | choice alts =>
      simp only [check, parse]
      rw [choiceLoopC_eq (check g uni n inh) (parse g uni n inh) (ih inh) alts 0 i m]
      cases choiceLoop (parse g uni n inh) alts 0 i m <;> rfl
    | opt x =>
      simp only [check, parse]
      rcases forget_eq_cases (ihf inh x i m) with ⟨hc, hp⟩ | ⟨m', hc, hp⟩ | ⟨i', m', a, b, hc, hp⟩
      · rw [hc, hp]; rfl
      · rw [hc, hp]; rfl
      · rw [hc, hp]; rfl
    | rep sk min max x =>
      simp only [check, parse]
      rw [repLoopC_eq0 _ _
        (repUnitC_eq (check g uni n false g.skipped) (check g uni n inh x)
          (parse g uni n false g.skipped) (parse g uni n inh x) (defaultSkipVal g) (skipCount sk inh)
          (ih false g.skipped) (ih inh x)) min max n i m]
      cases repLoop (repUnitP (parse g uni n false g.skipped) (parse g uni n inh x)
        (defaultSkipVal g) (skipCount sk inh)) min max n 0 i m [] <;> rfl
    | atomicRepeat x =>
      simp only [check, parse]
      rw [repLoopC_eq0 (fun _ i m => check g uni n inh x i m) (fun _ i m => parse g uni n inh x i m)
        (fun _ i m => ih inh x i m) 0 none (atomicBudget n) i { m with trk := Tracker.new i }]
      cases repLoop (fun _ i m => parse g uni n inh x i m) 0 none (atomicBudget n) 0 i
        { m with trk := Tracker.new i } [] <;> rfl
    | pos x =>
      simp only [check, parse]
      rcases forget_eq_cases (ihf inh x i { m with trk := { m.trk with positive := true } })
        with ⟨hc, hp⟩ | ⟨m', hc, hp⟩ | ⟨i', m', a, b, hc, hp⟩
      · rw [hc, hp]; rfl
      · rw [hc, hp]; rfl
      · rw [hc, hp]; rfl
    | neg x =>
      simp only [check, parse]
      cases check g uni n inh x i { m with trk := { m.trk with positive := false } } <;> rfl
    | push x =>
      simp only [check, parse]
      rcases forget_eq_cases (ihf inh x i m) with ⟨hc, hp⟩ | ⟨m', hc, hp⟩ | ⟨i', m', a, b, hc, hp⟩
      · rw [hc, hp]; rfl
      · rw [hc, hp]; rfl
      · rw [hc, hp]; rfl
    | peek =>
      simp only [check, parse]
      split
      · rfl
      · split <;> rfl
    | peekAll => simp only [check, parse]; split <;> rfl
    | pop =>
      simp only [check, parse]
      split
      · rfl
      · split <;> rfl
    | popAll => simp only [check, parse]; split <;> rfl
    | drop => simp only [check, parse]; split <;> rfl
    | peekSlice a b =>
      simp only [check, parse]
      split
      · rfl
      · split
        · rfl
        · split <;> rfl
    | ref r f =>
      simp only [check, parse]
      cases g.rule? r with
      | none => rfl
      | some d =>
        simp only []
        cases d.emit with
        | expression =>
          simp only []
          rcases forget_eq_cases (ihf (f.eval inh) d.body i m) with ⟨hc, hp⟩ | ⟨m', hc, hp⟩ | ⟨i', m', a, b, hc, hp⟩
          · rw [hc, hp]; rfl
          · rw [hc, hp]; rfl
          · rw [hc, hp]; rfl
        | span =>
          simp only []
          cases check g uni n (f.eval inh) d.body i { m with trk := m.trk.enter r i.pos } <;> rfl
        | both =>
          simp only []
          rcases forget_eq_cases (ihf (f.eval inh) d.body i { m with trk := m.trk.enter r i.pos })
            with ⟨hc, hp⟩ | ⟨m', hc, hp⟩ | ⟨i', m', a, b, hc, hp⟩
          · rw [hc, hp]; rfl
          · rw [hc, hp]; rfl
          · rw [hc, hp]; rfl
    | array k x =>
      simp only [check, parse]
      rw [arrayLoopC_eq_tryInto _ _ (ih inh x) k i m]
      cases arrayTryInto k (arrayLoop (parse g uni n inh x) k i m []) <;> rfl
    | pair a b =>
      simp only [check, parse]
      rcases forget_eq_cases (ihf inh a i m) with ⟨hc, hp⟩ | ⟨m', hc, hp⟩ | ⟨i', m', va, vb, hc, hp⟩
      · rw [hc, hp]; rfl
      · rw [hc, hp]; rfl
      · rw [hc, hp]
        simp only []
        rw [ih]
        cases parse g uni n inh b i' m' <;> rfl
    | empty => simp only [check, parse]; rfl
    | alwaysFail => simp only [check, parse]; rfl

end PestTyped
