/-
Lemmas.SkipImplicit — the weakest static hypothesis on WHITESPACE / COMMENT under which pest-typed and
pest agree (finding F-WS), as DECIDABLE (executable, `decide`-able) predicates.

pest forces `Atomic` inside every rule NAMED WHITESPACE / COMMENT (`bodyNa`, `bodyAt`); pest-typed
gives such a rule the atomicity its declared kind says (`#skip` token `0 | 1 | INHERITED`).  The two
meet wherever the rule is entered with skipping already off: at the IMPLICIT skip site (the `Skipped`
alias refers to `WHITESPACE<0>` / `COMMENT<0>`) and at explicit references from an atomic context.
They differ at explicit references from a non-atomic context, at the entry point, and for a skip rule
declared `!` — unless the body never looks at the atomicity (`SimpleSkipBody`).

`SkipRulesAtomicLike g` (Lemmas/SkipLike.lean) forbids every non-`@`/`$` skip rule with a sequence or
repetition, e.g. block comments.  Here the condition is put on the REFERENCES instead.  For a set `R`
of "states" (rule index, atomicity inside its body):
* `refOk g name r na` : at a reference to `name` (resolving to `r`) made under atomicity `na`, pest's
  body atomicity is pest-typed's flag value, or the body is simple;
* `exprOk g R na e`   : every reference in `e` (ambient atomicity `na`) is `refOk` and leads into `R`;
* `ImplicitOk g R na e`: `e` is `exprOk`, the two implicit-skip references (atomicity off) are, and `R`
  is closed: the body of every state of `R` is `exprOk` under the state's atomicity.
* `SkipRulesImplicitOnly g entry` : `ImplicitOk` for the entry expression `entry` (run non-atomic) and the
  set of states `reach` computes by iteration from the entry and the skip rules.  (No completeness
  theorem about `reach` is needed: closedness is CHECKED, not assumed.)
For token trees (C02) atomicity is three-valued and pest's forced `Atomic` differs from pest-typed's
"skipping off, tokens on" also at the implicit site; it is harmless iff the body makes no rule call
(`noRuleCallB`: sequences / repetitions / lookahead allowed, no rule of the grammar, no `EOI`):
`refOkT`, `exprOkT`, `ImplicitOkT`, `SkipRulesImplicitOnlyTok`.

Core-only (linked into `model_driver`: command `skiphyp`, Driver/SkipHyp.lean).
-/
import PestTyped.Model.Spec
import PestTyped.Model.SpecTokens
import PestTyped.Model.Gen
import PestTyped.Lemmas.SkipLike
namespace PestTyped

/-! ### Boolean versions of `SimpleSkipBody` / `SkipRulesAtomicLike` -/

def simpleSkipBodyB (g : PGrammar) : PExpr → Bool
  | .str _ => true
  | .insens _ => true
  | .range _ _ => true
  | .ident name => !g.defines name && name != "EOI"
  | .peekSlice _ _ => true
  | .posPred e => simpleSkipBodyB g e
  | .negPred e => simpleSkipBodyB g e
  | .seq _ _ => false
  | .choice a b => simpleSkipBodyB g a && simpleSkipBodyB g b
  | .opt e => simpleSkipBodyB g e
  | .rep _ => false
  | .repOnce _ => false
  | .repExact _ _ => false
  | .repMin _ _ => false
  | .repMax _ _ => false
  | .repMinMax _ _ _ => false
  | .skip _ => true
  | .push e => simpleSkipBodyB g e
  | .restoreOnErr e => simpleSkipBodyB g e

theorem simpleSkipBodyB_iff (g : PGrammar) : ∀ e : PExpr, simpleSkipBodyB g e = true ↔ SimpleSkipBody g e := by
  intro e
  induction e with
  | ident name =>
    simp only [simpleSkipBodyB, SimpleSkipBody, Bool.and_eq_true, Bool.not_eq_true', bne_iff_ne, ne_eq]
  | choice a b iha ihb => simp only [simpleSkipBodyB, SimpleSkipBody, Bool.and_eq_true, iha, ihb]
  | posPred e ih => simpa only [simpleSkipBodyB, SimpleSkipBody] using ih
  | negPred e ih => simpa only [simpleSkipBodyB, SimpleSkipBody] using ih
  | opt e ih => simpa only [simpleSkipBodyB, SimpleSkipBody] using ih
  | push e ih => simpa only [simpleSkipBodyB, SimpleSkipBody] using ih
  | restoreOnErr e ih => simpa only [simpleSkipBodyB, SimpleSkipBody] using ih
  | _ => simp [simpleSkipBodyB, SimpleSkipBody]

def kindAtomicB : RuleKind → Bool
  | .atomic => true
  | .compoundAtomic => true
  | _ => false

theorem kindAtomicB_iff (k : RuleKind) : kindAtomicB k = true ↔ (k = .atomic ∨ k = .compoundAtomic) := by
  cases k <;> simp [kindAtomicB]

/-- `SkipRulesAtomicLike g`, executable. -/
def skipRulesAtomicLikeB (g : PGrammar) : Bool :=
  ["WHITESPACE", "COMMENT"].all fun nm =>
    match g.find? nm with
    | none => true
    | some r => kindAtomicB r.kind || simpleSkipBodyB g r.expr

theorem skipRulesAtomicLikeB_iff (g : PGrammar) : skipRulesAtomicLikeB g = true ↔ SkipRulesAtomicLike g := by
  unfold skipRulesAtomicLikeB SkipRulesAtomicLike
  simp only [List.all_cons, List.all_nil, Bool.and_true, Bool.and_eq_true]
  constructor
  · rintro ⟨hW, hC⟩ nm r hnm hf
    rcases hnm with rfl | rfl
    · rw [hf] at hW
      simp only [Bool.or_eq_true, kindAtomicB_iff, simpleSkipBodyB_iff] at hW
      exact hW
    · rw [hf] at hC
      simp only [Bool.or_eq_true, kindAtomicB_iff, simpleSkipBodyB_iff] at hC
      exact hC
  · intro h
    constructor
    · cases hf : g.find? "WHITESPACE" with
      | none => rfl
      | some r =>
        simp only [Bool.or_eq_true, kindAtomicB_iff, simpleSkipBodyB_iff]
        exact h _ r (Or.inl rfl) hf
    · cases hf : g.find? "COMMENT" with
      | none => rfl
      | some r =>
        simp only [Bool.or_eq_true, kindAtomicB_iff, simpleSkipBodyB_iff]
        exact h _ r (Or.inr rfl) hf

/-- No rule call in the expression: every identifier is a built-in other than `EOI` (sequences,
repetitions, lookahead, stack operations are allowed). -/
def noRuleCallB (g : PGrammar) : PExpr → Bool
  | .str _ => true
  | .insens _ => true
  | .range _ _ => true
  | .ident name => !g.defines name && name != "EOI"
  | .peekSlice _ _ => true
  | .posPred e => noRuleCallB g e
  | .negPred e => noRuleCallB g e
  | .seq a b => noRuleCallB g a && noRuleCallB g b
  | .choice a b => noRuleCallB g a && noRuleCallB g b
  | .opt e => noRuleCallB g e
  | .rep e => noRuleCallB g e
  | .repOnce e => noRuleCallB g e
  | .repExact e _ => noRuleCallB g e
  | .repMin e _ => noRuleCallB g e
  | .repMax e _ => noRuleCallB g e
  | .repMinMax e _ _ => noRuleCallB g e
  | .skip _ => true
  | .push e => noRuleCallB g e
  | .restoreOnErr e => noRuleCallB g e

/-! ### the atomicity pest-typed runs a rule body under -/

/-- Value of the body's `#skip` token of a rule of kind `k` entered with `INHERITED = na`. -/
abbrev flagNa (k : RuleKind) (na : Bool) : Bool := (atomFlag (kindAtomicity k)).eval na

/-- The three-valued atomicity that pest-typed's behaviour inside a rule of kind `k` entered under `am`
corresponds to: pest's `bodyAt` WITHOUT the forcing for the names WHITESPACE / COMMENT. -/
def flagAt (k : RuleKind) (am : Atom3) : Atom3 :=
  match k with
  | .atomic => .atomic
  | .compoundAtomic => .compound
  | .nonAtomic => .nonAtomic
  | .normal => am
  | .silent => am

/-! ### references, expressions, closed sets of states: verdict / cursor / stack level (C01, C07) -/

/-- At a reference to `name` (resolving to `r`) under atomicity `na`: pest's body atomicity is
pest-typed's, or the body never consults it. -/
def refOk (g : PGrammar) (name : String) (r : PRule) (na : Bool) : Bool :=
  bodyNa name r.kind na == flagNa r.kind na || simpleSkipBodyB g r.expr

section generic
variable {μ : Type} [BEq μ]

/-- `check name k r` holds at every reference `name` (resolving to index `k`, rule `r`) in the expression. -/
def refsAll (g : PGrammar) (check : String → Nat → PRule → Bool) : PExpr → Bool
  | .str _ => true
  | .insens _ => true
  | .range _ _ => true
  | .ident name =>
    match g.indexOf name with
    | none => true
    | some k =>
      match g[k]? with
      | none => true
      | some r => check name k r
  | .peekSlice _ _ => true
  | .posPred e => refsAll g check e
  | .negPred e => refsAll g check e
  | .seq a b => refsAll g check a && refsAll g check b
  | .choice a b => refsAll g check a && refsAll g check b
  | .opt e => refsAll g check e
  | .rep e => refsAll g check e
  | .repOnce e => refsAll g check e
  | .repExact e _ => refsAll g check e
  | .repMin e _ => refsAll g check e
  | .repMax e _ => refsAll g check e
  | .repMinMax e _ _ => refsAll g check e
  | .skip _ => true
  | .push e => refsAll g check e
  | .restoreOnErr e => refsAll g check e

/-- The states the references of an expression lead to (`next name r` = the state's mode). -/
def targets (g : PGrammar) (next : String → PRule → μ) : PExpr → List (Nat × μ)
  | .str _ => []
  | .insens _ => []
  | .range _ _ => []
  | .ident name =>
    match g.indexOf name with
    | none => []
    | some k =>
      match g[k]? with
      | none => []
      | some r => [(k, next name r)]
  | .peekSlice _ _ => []
  | .posPred e => targets g next e
  | .negPred e => targets g next e
  | .seq a b => targets g next a ++ targets g next b
  | .choice a b => targets g next a ++ targets g next b
  | .opt e => targets g next e
  | .rep e => targets g next e
  | .repOnce e => targets g next e
  | .repExact e _ => targets g next e
  | .repMin e _ => targets g next e
  | .repMax e _ => targets g next e
  | .repMinMax e _ _ => targets g next e
  | .skip _ => []
  | .push e => targets g next e
  | .restoreOnErr e => targets g next e

def addNew (acc : List (Nat × μ)) : List (Nat × μ) → List (Nat × μ)
  | [] => acc
  | x :: xs => if acc.contains x then addNew acc xs else addNew (acc ++ [x]) xs

/-- `fuel` rounds of "add the targets of the bodies of all states". -/
def reachIter (g : PGrammar) (next : μ → String → PRule → μ) : Nat → List (Nat × μ) → List (Nat × μ)
  | 0, acc => acc
  | fuel+1, acc =>
    reachIter g next fuel
      (acc.foldl (fun a s =>
        match g[s.1]? with
        | some r => addNew a (targets g (next s.2) r.expr)
        | none => a) acc)

end generic

/-- Every reference in `e` (ambient atomicity `na`) is `refOk` and leads into `R`. -/
def exprOk (g : PGrammar) (R : List (Nat × Bool)) (na : Bool) (e : PExpr) : Bool :=
  refsAll g (fun name k r => refOk g name r na && R.contains (k, bodyNa name r.kind na)) e

/-- `R` is closed: the body of every state is `exprOk` under the state's atomicity. -/
def closedOk (g : PGrammar) (R : List (Nat × Bool)) : Bool :=
  R.all fun s =>
    match g[s.1]? with
    | some r => exprOk g R s.2 r.expr
    | none => true

/-- The hypothesis for an expression `e` run under atomicity `na`, with witness set `R`. -/
def ImplicitOk (g : PGrammar) (R : List (Nat × Bool)) (na : Bool) (e : PExpr) : Bool :=
  exprOk g R na e && exprOk g R false (.ident "WHITESPACE") && exprOk g R false (.ident "COMMENT") && closedOk g R

/-- The states reachable from `e` (under `na`) and from the implicit skip. -/
def reach (g : PGrammar) (na : Bool) (e : PExpr) : List (Nat × Bool) :=
  reachIter g (fun nb name r => bodyNa name r.kind nb) (2 * g.length + 1)
    (addNew [] (targets g (fun name r => bodyNa name r.kind na) e ++
      targets g (fun name r => bodyNa name r.kind false) (.ident "WHITESPACE") ++
      targets g (fun name r => bodyNa name r.kind false) (.ident "COMMENT")))

/-- The weak hypothesis of the `…_implicit` theorems of C01 / C07, for entry rule `entry` (run in
NonAtomic mode, as every entry point is): every reference reachable from the entry or from the implicit
skip enters its rule under an atomicity for which pest's forced `Atomic` (names WHITESPACE / COMMENT)
and pest-typed's declared kind coincide, or the rule's body is simple.  In particular a skip rule
declared normal / silent with ANY body may be used implicitly, and explicitly from atomic contexts;
it may not be the entry, nor be referenced explicitly where skipping is on; a skip rule declared `!`
needs a simple body. -/
def SkipRulesImplicitOnly (g : PGrammar) (entry : String) : Bool :=
  ImplicitOk g (reach g true (.ident entry)) true (.ident entry)

/-! ### the same at token level (C02): three-valued atomicity -/

/-- At a reference to `name` (resolving to `r`) under `am`: pest's body atomicity is the one
pest-typed's behaviour corresponds to; or both switch skipping off and the body makes no rule call
(then `Atomic` and `CompoundAtomic` are indistinguishable); or the body is simple. -/
def refOkT (g : PGrammar) (name : String) (r : PRule) (am : Atom3) : Bool :=
  bodyAt name r.kind am == flagAt r.kind am ||
  (!(bodyAt name r.kind am).na && !(flagAt r.kind am).na && noRuleCallB g r.expr) ||
  simpleSkipBodyB g r.expr

def exprOkT (g : PGrammar) (R : List (Nat × Atom3)) (am : Atom3) (e : PExpr) : Bool :=
  refsAll g (fun name k r => refOkT g name r am && R.contains (k, bodyAt name r.kind am)) e

def closedOkT (g : PGrammar) (R : List (Nat × Atom3)) : Bool :=
  R.all fun s =>
    match g[s.1]? with
    | some r => exprOkT g R s.2 r.expr
    | none => true

/-- The implicit skip enters the skip rules in pest's `NonAtomic` mode (their tokens are emitted, their
bodies forced `Atomic`); pest-typed enters them with skipping off and tokens on, i.e. `CompoundAtomic`:
`skipRefOkT` is `refOkT` across that pair. -/
def skipRefOkT (g : PGrammar) (R : List (Nat × Atom3)) (name : String) : Bool :=
  match g.indexOf name with
  | none => true
  | some k =>
    match g[k]? with
    | none => true
    | some r =>
      (bodyAt name r.kind .nonAtomic == flagAt r.kind .compound ||
       (!(bodyAt name r.kind .nonAtomic).na && !(flagAt r.kind .compound).na && noRuleCallB g r.expr) ||
       simpleSkipBodyB g r.expr) && R.contains (k, bodyAt name r.kind .nonAtomic)

def ImplicitOkT (g : PGrammar) (R : List (Nat × Atom3)) (am : Atom3) (e : PExpr) : Bool :=
  exprOkT g R am e && skipRefOkT g R "WHITESPACE" && skipRefOkT g R "COMMENT" && closedOkT g R

def reachT (g : PGrammar) (am : Atom3) (e : PExpr) : List (Nat × Atom3) :=
  reachIter g (fun a name r => bodyAt name r.kind a) (3 * g.length + 1)
    (addNew [] (targets g (fun name r => bodyAt name r.kind am) e ++
      targets g (fun name r => bodyAt name r.kind .nonAtomic) (.ident "WHITESPACE") ++
      targets g (fun name r => bodyAt name r.kind .nonAtomic) (.ident "COMMENT")))

/-- The weak hypothesis of `C02_tree_implicit`: as `SkipRulesImplicitOnly`, and a skip rule that is not
`@` / `$` / simple makes no rule call (its body may have sequences, repetitions, lookahead). -/
def SkipRulesImplicitOnlyTok (g : PGrammar) (entry : String) : Bool :=
  ImplicitOkT g (reachT g .nonAtomic (.ident entry)) .nonAtomic (.ident entry)

end PestTyped
