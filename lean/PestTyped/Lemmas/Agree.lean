/-
Lemmas.Agree — spine lemma S3: the check path computes exactly what the parse path computes,
with the value forgotten (cursor, stack and tracker identical, on success and on failure).

Two families of lemmas:
* `*Loop_forget`: congruence of a PARSE-copy loop in its element function(s) under `Res.forget`;
* `*LoopC_eq`: the CHECK-copy loop (`skipLoopC`, `seqLoopC`, `choiceLoopC`, `repLoopC`,
  `arrayLoopC`, `repUnitC`; separately written definitions in `Model/Run.lean`) equals the
  parse-copy loop with the values forgotten, whenever the element functions agree.  For
  `repLoopC` this includes the argument that the two different tests after the `RepeatMinMax`
  loop (`MAX < MIN` on the check path, `vec.len() < MIN` on the parse path) decide alike.
-/
import PestTyped.Model.Run
namespace PestTyped

/-- Forget the value of a result. -/
def Res.forget {σ α} : Res σ α → Res σ Unit
  | .oof => .oof
  | .fail m => .fail m
  | .ok i m _ => .ok i m ()

@[simp] theorem Res.forget_oof {σ α} : (Res.oof : Res σ α).forget = .oof := rfl
@[simp] theorem Res.forget_fail {σ α} (m : σ) : (Res.fail m : Res σ α).forget = .fail m := rfl
@[simp] theorem Res.forget_ok {σ α} (i : Inp) (m : σ) (a : α) :
    (Res.ok i m a : Res σ α).forget = .ok i m () := rfl

theorem Res.forget_unit {σ} (r : Res σ Unit) : r.forget = r := by
  cases r <;> rfl

theorem restoreOnNone_forget {α} (saved : List Sp) (r : R α) :
    (restoreOnNone saved r).forget = restoreOnNone saved r.forget := by
  cases r <;> rfl

/-- Two results that agree after forgetting are of the same shape with equal cursor and state. -/
theorem forget_eq_cases {σ α β} {rc : Res σ α} {rp : Res σ β} (h : rc.forget = rp.forget) :
    (rc = .oof ∧ rp = .oof) ∨ (∃ m, rc = .fail m ∧ rp = .fail m) ∨
    (∃ i m a b, rc = .ok i m a ∧ rp = .ok i m b) := by
  cases rc <;> cases rp <;> simp [Res.forget] at h
  · exact Or.inl ⟨rfl, rfl⟩
  · subst h; exact Or.inr (Or.inl ⟨_, rfl, rfl⟩)
  · obtain ⟨rfl, rfl⟩ := h; exact Or.inr (Or.inr ⟨_, _, _, _, rfl, rfl⟩)

/-! ### the code after the repetition loop (`repDone`, `repDoneC`): elementary facts -/

/-- `repDone` either fails with the state unchanged or succeeds with cursor and state unchanged
and the collected values in order. -/
theorem repDone_cases {α} (min : Nat) (max : Option Nat) (i : Inp) (m : M) (acc : List α) :
    repDone min max i m acc = .fail m ∨ repDone min max i m acc = .ok i m acc.reverse := by
  unfold repDone
  cases max with
  | none => exact Or.inr rfl
  | some mx => simp only []; split; exact Or.inl rfl; exact Or.inr rfl

theorem repDone_ok {α} {min : Nat} {max : Option Nat} {i : Inp} {m : M} {acc : List α} {i' m' a}
    (h : repDone min max i m acc = .ok i' m' a) : i' = i ∧ m' = m ∧ a = acc.reverse := by
  rcases repDone_cases min max i m acc with h1 | h1 <;> rw [h1] at h
  · cases h
  · injection h with h1 h2 h3; exact ⟨h1.symm, h2.symm, h3.symm⟩

theorem repDone_fail {α} {min : Nat} {max : Option Nat} {i : Inp} {m : M} {acc : List α} {m'}
    (h : repDone min max i m acc = .fail m') : m' = m := by
  rcases repDone_cases min max i m acc with h1 | h1 <;> rw [h1] at h
  · injection h with h1; exact h1.symm
  · cases h

theorem repDone_ne_oof {α} (min : Nat) (max : Option Nat) (i : Inp) (m : M) (acc : List α) :
    repDone min max i m acc ≠ .oof := by
  rcases repDone_cases min max i m acc with h1 | h1 <;> rw [h1] <;> intro h <;> cases h

/-- With `vec.len() = i` (the invariant of the Rust loop) the test after the loop is a test on
the iteration counter. -/
theorem repDone_eq_of_length {α} (min : Nat) (max : Option Nat) (i : Inp) (m : M) (acc : List α) :
    repDone min max i m acc =
      if max.isSome ∧ acc.length < min then .fail m else .ok i m acc.reverse := by
  unfold repDone
  cases max with
  | none => simp
  | some mx => simp

/-- After `break` (`MIN ≤ i`, `vec.len() = i`) the test after the loop never fires. -/
theorem repDone_of_le {α} (min : Nat) (max : Option Nat) (i : Inp) (m : M) (acc : List α)
    (h : min ≤ acc.length) : repDone min max i m acc = .ok i m acc.reverse := by
  rw [repDone_eq_of_length, if_neg (by omega)]

theorem repDone_min0 {α} (max : Option Nat) (i : Inp) (m : M) (acc : List α) :
    repDone 0 max i m acc = .ok i m acc.reverse := repDone_of_le 0 max i m acc (Nat.zero_le _)

theorem repDone_none {α} (min : Nat) (i : Inp) (m : M) (acc : List α) :
    repDone min none i m acc = .ok i m acc.reverse := rfl

theorem repDone_some {α} (min mx : Nat) (i : Inp) (m : M) (acc : List α) :
    repDone min (some mx) i m acc = if acc.length < min then .fail m else .ok i m acc.reverse := rfl

theorem skipLoop_forget {α β} (fc : Inp → M → R α) (fp : Inp → M → R β)
    (h : ∀ i m, (fc i m).forget = (fp i m).forget) :
    ∀ k i m accc accp, (skipLoop fc k i m accc).forget = (skipLoop fp k i m accp).forget := by
  intro k
  induction k with
  | zero => intros; rfl
  | succ k ih =>
    intro i m accc accp
    unfold skipLoop
    rcases forget_eq_cases (h i m) with ⟨hc, hp⟩ | ⟨m', hc, hp⟩ | ⟨i', m', a, b, hc, hp⟩
    · rw [hc, hp]; rfl
    · rw [hc, hp]; rfl
    · rw [hc, hp]; exact ih _ _ _ _

theorem seqLoop_forget {α β α' β'} (fc : Node → Inp → M → R α) (fp : Node → Inp → M → R α')
    (skc : Inp → M → R (List β)) (skp : Inp → M → R (List β'))
    (mkc : List β → α → α) (mkp : List β' → α' → α')
    (hf : ∀ n i m, (fc n i m).forget = (fp n i m).forget)
    (hs : ∀ i m, (skc i m).forget = (skp i m).forget) :
    ∀ ns i m accc accp,
      (seqLoop fc skc mkc ns i m accc).forget = (seqLoop fp skp mkp ns i m accp).forget := by
  intro ns
  induction ns with
  | nil => intros; rfl
  | cons n ns ih =>
    intro i m accc accp
    unfold seqLoop
    rcases forget_eq_cases (hs i m) with ⟨hc, hp⟩ | ⟨m', hc, hp⟩ | ⟨i', m', a, b, hc, hp⟩
    · rw [hc, hp]; rfl
    · rw [hc, hp]; rfl
    · rw [hc, hp]
      rcases forget_eq_cases (hf n i' m') with ⟨hc, hp⟩ | ⟨m'', hc, hp⟩ | ⟨i'', m'', a, b, hc, hp⟩
      · simp only [hc, hp]; rfl
      · simp only [hc, hp]; rfl
      · simp only [hc, hp]; exact ih _ _ _ _

theorem choiceLoop_forget {α α'} (fc : Node → Inp → M → R α) (fp : Node → Inp → M → R α')
    (hf : ∀ n i m, (fc n i m).forget = (fp n i m).forget) :
    ∀ ns k i m, (choiceLoop fc ns k i m).forget = (choiceLoop fp ns k i m).forget := by
  intro ns
  induction ns with
  | nil => intros; rfl
  | cons n ns ih =>
    intro k i m
    unfold choiceLoop
    rcases forget_eq_cases (hf n i m) with ⟨hc, hp⟩ | ⟨m', hc, hp⟩ | ⟨i', m', a, b, hc, hp⟩
    · rw [hc, hp]; rfl
    · rw [hc, hp]; simp only [restoreOnNone]; exact ih _ _ _
    · rw [hc, hp]; rfl

theorem repDone_forget {α α'} (min : Nat) (max : Option Nat) (i : Inp) (m : M)
    (accc : List α) (accp : List α') (hlen : accc.length = accp.length) :
    (repDone min max i m accc).forget = (repDone min max i m accp).forget := by
  unfold repDone
  cases max with
  | none => rfl
  | some mx => simp only [hlen]; split <;> rfl

theorem repLoop_forget {α α'} (uc : Nat → Inp → M → R α) (up : Nat → Inp → M → R α')
    (hu : ∀ idx i m, (uc idx i m).forget = (up idx i m).forget) (min : Nat) (max : Option Nat) :
    ∀ budget idx i m accc accp, accc.length = accp.length →
      (repLoop uc min max budget idx i m accc).forget = (repLoop up min max budget idx i m accp).forget := by
  intro budget
  induction budget with
  | zero => intros; rfl
  | succ b ih =>
    intro idx i m accc accp hlen
    unfold repLoop
    by_cases hmax : max = some idx
    · simp only [hmax, if_true]; exact repDone_forget _ _ _ _ _ _ hlen
    · simp only [hmax, if_false]
      rcases forget_eq_cases (hu idx i m) with ⟨hc, hp⟩ | ⟨m', hc, hp⟩ | ⟨i', m', a, b, hc, hp⟩
      · rw [hc, hp]; rfl
      · rw [hc, hp]; simp only [restoreOnNone]
        split
        · rfl
        · exact repDone_forget _ _ _ _ _ _ hlen
      · rw [hc, hp]; simp only [restoreOnNone]
        exact ih _ _ _ _ _ (by simp only [List.length_cons, hlen])

theorem arrayLoop_forget {α α'} (fc : Inp → M → R α) (fp : Inp → M → R α')
    (hf : ∀ i m, (fc i m).forget = (fp i m).forget) :
    ∀ k i m accc accp, (arrayLoop fc k i m accc).forget = (arrayLoop fp k i m accp).forget := by
  intro k
  induction k with
  | zero => intros; rfl
  | succ k ih =>
    intro i m accc accp
    unfold arrayLoop
    rcases forget_eq_cases (hf i m) with ⟨hc, hp⟩ | ⟨m', hc, hp⟩ | ⟨i', m', a, b, hc, hp⟩
    · rw [hc, hp]; rfl
    · rw [hc, hp]; rfl
    · rw [hc, hp]; exact ih _ _ _ _

/-! ### the check copies of the loops against the parse copies -/

theorem skipLoopC_eq {α} (fc : Inp → M → R Unit) (fp : Inp → M → R α)
    (h : ∀ i m, fc i m = (fp i m).forget) :
    ∀ k i m acc, skipLoopC fc k i m = (skipLoop fp k i m acc).forget := by
  intro k
  induction k with
  | zero => intros; rfl
  | succ k ih =>
    intro i m acc
    unfold skipLoopC skipLoop
    rw [h]
    cases fp i m with
    | oof => rfl
    | fail m' => rfl
    | ok i' m' a => exact ih _ _ _

theorem seqLoopC_eq {α β} (fc : Node → Inp → M → R Unit) (fp : Node → Inp → M → R α)
    (skc : Inp → M → R Unit) (skp : Inp → M → R (List β)) (mkp : List β → α → α)
    (hf : ∀ n i m, fc n i m = (fp n i m).forget)
    (hs : ∀ i m, skc i m = (skp i m).forget) :
    ∀ ns i m acc, seqLoopC fc skc ns i m = (seqLoop fp skp mkp ns i m acc).forget := by
  intro ns
  induction ns with
  | nil => intros; rfl
  | cons n ns ih =>
    intro i m acc
    unfold seqLoopC seqLoop
    rw [hs]
    cases skp i m with
    | oof => rfl
    | fail m' => rfl
    | ok i' m' sk =>
      simp only [Res.forget_ok]
      rw [hf]
      cases fp n i' m' with
      | oof => rfl
      | fail m'' => rfl
      | ok i'' m'' a => exact ih _ _ _

/-- The check copy keeps no branch index; the parse copy counts from any `k`. -/
theorem choiceLoopC_eq {α} (fc : Node → Inp → M → R Unit) (fp : Node → Inp → M → R α)
    (hf : ∀ n i m, fc n i m = (fp n i m).forget) :
    ∀ ns k i m, choiceLoopC fc ns i m = (choiceLoop fp ns k i m).forget := by
  intro ns
  induction ns with
  | nil => intros; rfl
  | cons n ns ih =>
    intro k i m
    unfold choiceLoopC choiceLoop
    rw [hf]
    cases fp n i m with
    | oof => rfl
    | fail m' => simp only [Res.forget_fail, restoreOnNone]; exact ih _ _ _
    | ok i' m' a => rfl

/-- The `[T; N]` loop collects exactly `N` more values. -/
theorem arrayLoop_length_acc {α} (f : Inp → M → R α) :
    ∀ k i m acc i' m' vs, arrayLoop f k i m acc = .ok i' m' vs → vs.length = acc.length + k := by
  intro k
  induction k with
  | zero =>
    intro i m acc i' m' vs h
    simp only [arrayLoop] at h
    injection h with _ _ h3
    rw [← h3, List.length_reverse]; rfl
  | succ k ih =>
    intro i m acc i' m' vs h
    unfold arrayLoop at h
    split at h
    · cases h
    · cases h
    · have := ih _ _ _ _ _ _ h
      simp only [List.length_cons] at this
      omega

/-- "Actually impossible": after the `[T; N]` loop `vec.try_into()` never fails. -/
theorem arrayTryInto_arrayLoop {α} (f : Inp → M → R α) (k : Nat) (i : Inp) (m : M) :
    arrayTryInto k (arrayLoop f k i m []) = arrayLoop f k i m [] := by
  cases h : arrayLoop f k i m [] with
  | oof => rfl
  | fail m' => rfl
  | ok i' m' vs =>
    have := arrayLoop_length_acc f k i m [] i' m' vs h
    simp only [arrayTryInto, List.length_nil, Nat.zero_add] at this ⊢
    rw [if_pos this]

theorem arrayLoopC_eq {α} (fc : Inp → M → R Unit) (fp : Inp → M → R α)
    (hf : ∀ i m, fc i m = (fp i m).forget) :
    ∀ k i m acc, arrayLoopC fc k i m = (arrayLoop fp k i m acc).forget := by
  intro k
  induction k with
  | zero => intros; rfl
  | succ k ih =>
    intro i m acc
    unfold arrayLoopC arrayLoop
    rw [hf]
    cases fp i m with
    | oof => rfl
    | fail m' => rfl
    | ok i' m' a => exact ih _ _ _

/-- `[T; N]`, the whole of the two Rust functions: the check copy (loop only) against the parse
copy (loop, then `vec.try_into()`). -/
theorem arrayLoopC_eq_tryInto {α} (fc : Inp → M → R Unit) (fp : Inp → M → R α)
    (hf : ∀ i m, fc i m = (fp i m).forget) (k : Nat) (i : Inp) (m : M) :
    arrayLoopC fc k i m = (arrayTryInto k (arrayLoop fp k i m [])).forget := by
  rw [arrayTryInto_arrayLoop]; exact arrayLoopC_eq fc fp hf k i m []

/-- The code after the loop: `MAX < MIN` (check) against `vec.len() < MIN` (parse).  The loop is
left either because the range `0..MAX` is exhausted — then `vec.len() = idx = MAX` and the two
tests are the same comparison — or by `break` in iteration `idx < MAX` with `MIN ≤ idx` — then
`MIN ≤ vec.len()` and `MIN < MAX`, and neither test fires. -/
theorem repDoneC_eq {α} (min : Nat) (max : Option Nat) (i : Inp) (m : M) (acc : List α) (idx : Nat)
    (hlen : acc.length = idx)
    (hexit : max = some idx ∨ (min ≤ idx ∧ ∀ mx, max = some mx → idx < mx)) :
    repDoneC min max i m = (repDone min max i m acc).forget := by
  unfold repDoneC repDone
  cases max with
  | none => rfl
  | some mx =>
    simp only []
    rcases hexit with hfall | ⟨hmin, hlt⟩
    · injection hfall with hfall
      subst hfall; subst hlen
      split <;> rfl
    · have := hlt mx rfl
      rw [if_neg (by omega), if_neg (by omega)]
      rfl

/-- `RepeatMin` / `RepeatMinMax`: the check loop against the parse loop.  Invariants of the
Rust loops: `vec.len() = i`, and `i ≤ MAX` (both hold at entry, `i = 0`, `vec` empty). -/
theorem repLoopC_eq {α} (uc : Nat → Inp → M → R Unit) (up : Nat → Inp → M → R α)
    (hu : ∀ idx i m, uc idx i m = (up idx i m).forget) (min : Nat) (max : Option Nat) :
    ∀ budget idx i m acc, acc.length = idx → (∀ mx, max = some mx → idx ≤ mx) →
      repLoopC uc min max budget idx i m = (repLoop up min max budget idx i m acc).forget := by
  intro budget
  induction budget with
  | zero => intros; rfl
  | succ b ih =>
    intro idx i m acc hlen hle
    unfold repLoopC repLoop
    by_cases hmax : max = some idx
    · simp only [hmax, if_true]
      exact repDoneC_eq min (some idx) i m acc idx hlen (Or.inl rfl)
    · simp only [hmax, if_false]
      have hlt : ∀ mx, max = some mx → idx < mx := by
        intro mx h
        have h1 := hle mx h
        have h2 : idx ≠ mx := fun e => hmax (by rw [h, e])
        omega
      rw [hu]
      cases up idx i m with
      | oof => rfl
      | fail m' =>
        simp only [Res.forget_fail, restoreOnNone]
        split
        · rfl
        · next hmin => exact repDoneC_eq min max i _ acc idx hlen (Or.inr ⟨by omega, hlt⟩)
      | ok i' m' a =>
        simp only [Res.forget_ok, restoreOnNone]
        exact ih _ _ _ _ (by simp only [List.length_cons, hlen])
          (fun mx h => by have := hlt mx h; omega)

/-- At the loop entry. -/
theorem repLoopC_eq0 {α} (uc : Nat → Inp → M → R Unit) (up : Nat → Inp → M → R α)
    (hu : ∀ idx i m, uc idx i m = (up idx i m).forget) (min : Nat) (max : Option Nat)
    (budget : Nat) (i : Inp) (m : M) :
    repLoopC uc min max budget 0 i m = (repLoop up min max budget 0 i m []).forget :=
  repLoopC_eq uc up hu min max budget 0 i m [] rfl (fun _ _ => Nat.zero_le _)

/-- First iteration of `try_check_unit`: the test `i > 0` fails `SKIP` times. -/
theorem repSkipC_zero (skip : Inp → M → R Unit) :
    ∀ k i m, repSkipC skip 0 k i m = .ok i m () := by
  intro k
  induction k with
  | zero => intros; rfl
  | succ k ih => intro i m; unfold repSkipC; simp only [Nat.lt_irrefl, if_false, gt_iff_lt]; exact ih i m

/-- Later iterations of `try_check_unit`: the skip loop of the sequence check path. -/
theorem repSkipC_pos (skip : Inp → M → R Unit) (idx : Nat) (hidx : idx ≠ 0) :
    ∀ k i m, repSkipC skip idx k i m = skipLoopC skip k i m := by
  intro k
  induction k with
  | zero => intros; rfl
  | succ k ih =>
    intro i m
    unfold repSkipC skipLoopC
    rw [if_pos (Nat.pos_of_ne_zero hidx)]
    cases skip i m with
    | oof => rfl
    | fail m' => rfl
    | ok i' m' a => exact ih _ _

/-- `try_check_unit` against `try_parse_unit`. -/
theorem repUnitC_eq (sc bc : Inp → M → R Unit) (sp bp : Inp → M → R Val) (dflt : Val) (k : Nat)
    (hs : ∀ i m, sc i m = (sp i m).forget) (hb : ∀ i m, bc i m = (bp i m).forget) :
    ∀ idx i m, repUnitC sc bc k idx i m = (repUnitP sp bp dflt k idx i m).forget := by
  intro idx i m
  unfold repUnitC repUnitP
  by_cases h0 : idx = 0
  · subst h0
    simp only [repSkipC_zero, if_true]
    rw [hb]
    cases bp i m <;> rfl
  · simp only [h0, if_false]
    rw [repSkipC_pos sc idx h0, skipLoopC_eq sc sp hs k i m []]
    cases skipLoop sp k i m [] with
    | oof => rfl
    | fail m' => rfl
    | ok i' m' sk =>
      simp only [Res.forget_ok]
      rw [hb]
      cases bp i' m' <;> rfl

end PestTyped
