/-
Lemmas.Agree — spine lemma S3: the check path computes exactly what the parse path computes,
with the value forgotten (cursor, stack and tracker identical, on success and on failure).
-/
import PestTyped.Model.Run
namespace PestTyped

/-- Forget the value of a result. -/
def Res.forget {σ α} : Res σ α → Res σ Unit
  | .oof => .oof
  | .fail m => .fail m
  | .ok i m _ => .ok i m ()

@[simp] theorem Res.forget_oof {σ α} : (Res.oof : Res σ α).forget = .oof := rfl
@[simp] theorem Res.forget_fail {σ α} (m : σ) : (Res.fail m : Res σ α).forget = .fail m := rfl
@[simp] theorem Res.forget_ok {σ α} (i : Inp) (m : σ) (a : α) :
    (Res.ok i m a : Res σ α).forget = .ok i m () := rfl

theorem Res.forget_unit {σ} (r : Res σ Unit) : r.forget = r := by
  cases r <;> rfl

theorem restoreOnNone_forget {α} (saved : List Sp) (r : R α) :
    (restoreOnNone saved r).forget = restoreOnNone saved r.forget := by
  cases r <;> rfl

/-- Two results that agree after forgetting are of the same shape with equal cursor and state. -/
theorem forget_eq_cases {σ α β} {rc : Res σ α} {rp : Res σ β} (h : rc.forget = rp.forget) :
    (rc = .oof ∧ rp = .oof) ∨ (∃ m, rc = .fail m ∧ rp = .fail m) ∨
    (∃ i m a b, rc = .ok i m a ∧ rp = .ok i m b) := by
  cases rc <;> cases rp <;> simp [Res.forget] at h
  · exact Or.inl ⟨rfl, rfl⟩
  · subst h; exact Or.inr (Or.inl ⟨_, rfl, rfl⟩)
  · obtain ⟨rfl, rfl⟩ := h; exact Or.inr (Or.inr ⟨_, _, _, _, rfl, rfl⟩)

theorem skipLoop_forget {α β} (fc : Inp → M → R α) (fp : Inp → M → R β)
    (h : ∀ i m, (fc i m).forget = (fp i m).forget) :
    ∀ k i m accc accp, (skipLoop fc k i m accc).forget = (skipLoop fp k i m accp).forget := by
  intro k
  induction k with
  | zero => intros; rfl
  | succ k ih =>
    intro i m accc accp
    unfold skipLoop
    rcases forget_eq_cases (h i m) with ⟨hc, hp⟩ | ⟨m', hc, hp⟩ | ⟨i', m', a, b, hc, hp⟩
    · rw [hc, hp]; rfl
    · rw [hc, hp]; rfl
    · rw [hc, hp]; exact ih _ _ _ _

theorem seqLoop_forget {α β α' β'} (fc : Node → Inp → M → R α) (fp : Node → Inp → M → R α')
    (skc : Inp → M → R (List β)) (skp : Inp → M → R (List β'))
    (mkc : List β → α → α) (mkp : List β' → α' → α')
    (hf : ∀ n i m, (fc n i m).forget = (fp n i m).forget)
    (hs : ∀ i m, (skc i m).forget = (skp i m).forget) :
    ∀ ns i m accc accp,
      (seqLoop fc skc mkc ns i m accc).forget = (seqLoop fp skp mkp ns i m accp).forget := by
  intro ns
  induction ns with
  | nil => intros; rfl
  | cons n ns ih =>
    intro i m accc accp
    unfold seqLoop
    rcases forget_eq_cases (hs i m) with ⟨hc, hp⟩ | ⟨m', hc, hp⟩ | ⟨i', m', a, b, hc, hp⟩
    · rw [hc, hp]; rfl
    · rw [hc, hp]; rfl
    · rw [hc, hp]
      rcases forget_eq_cases (hf n i' m') with ⟨hc, hp⟩ | ⟨m'', hc, hp⟩ | ⟨i'', m'', a, b, hc, hp⟩
      · simp only [hc, hp]; rfl
      · simp only [hc, hp]; rfl
      · simp only [hc, hp]; exact ih _ _ _ _

theorem choiceLoop_forget {α α'} (fc : Node → Inp → M → R α) (fp : Node → Inp → M → R α')
    (hf : ∀ n i m, (fc n i m).forget = (fp n i m).forget) :
    ∀ ns k i m, (choiceLoop fc ns k i m).forget = (choiceLoop fp ns k i m).forget := by
  intro ns
  induction ns with
  | nil => intros; rfl
  | cons n ns ih =>
    intro k i m
    unfold choiceLoop
    rcases forget_eq_cases (hf n i m) with ⟨hc, hp⟩ | ⟨m', hc, hp⟩ | ⟨i', m', a, b, hc, hp⟩
    · rw [hc, hp]; rfl
    · rw [hc, hp]; simp only [restoreOnNone]; exact ih _ _ _
    · rw [hc, hp]; rfl

theorem repLoop_forget {α α'} (uc : Nat → Inp → M → R α) (up : Nat → Inp → M → R α')
    (hu : ∀ idx i m, (uc idx i m).forget = (up idx i m).forget) (min : Nat) (max : Option Nat) :
    ∀ budget idx i m accc accp,
      (repLoop uc min max budget idx i m accc).forget = (repLoop up min max budget idx i m accp).forget := by
  intro budget
  induction budget with
  | zero => intros; rfl
  | succ b ih =>
    intro idx i m accc accp
    unfold repLoop
    by_cases hmax : max = some idx
    · simp only [hmax, if_true]; split <;> rfl
    · simp only [hmax, if_false]
      rcases forget_eq_cases (hu idx i m) with ⟨hc, hp⟩ | ⟨m', hc, hp⟩ | ⟨i', m', a, b, hc, hp⟩
      · rw [hc, hp]; rfl
      · rw [hc, hp]; simp only [restoreOnNone]; split <;> rfl
      · rw [hc, hp]; simp only [restoreOnNone]; exact ih _ _ _ _ _

theorem arrayLoop_forget {α α'} (fc : Inp → M → R α) (fp : Inp → M → R α')
    (hf : ∀ i m, (fc i m).forget = (fp i m).forget) :
    ∀ k i m accc accp, (arrayLoop fc k i m accc).forget = (arrayLoop fp k i m accp).forget := by
  intro k
  induction k with
  | zero => intros; rfl
  | succ k ih =>
    intro i m accc accp
    unfold arrayLoop
    rcases forget_eq_cases (hf i m) with ⟨hc, hp⟩ | ⟨m', hc, hp⟩ | ⟨i', m', a, b, hc, hp⟩
    · rw [hc, hp]; rfl
    · rw [hc, hp]; rfl
    · rw [hc, hp]; exact ih _ _ _ _

end PestTyped
