/-
Lemmas.RepLoop — relational characterisations of the iteration loops of `Model.Run`
(`repLoop`, `choiceLoop`, `arrayLoop`) and of the repetition unit `repUnitP`, plus the transfer
lemmas from `parse` to `check` and small projections used by the non-vacuity examples of
Props/C05, C06, C19.

For every loop there is
* an inductive description of the successful (resp. failed) prefix of the run
  (`RepIters`, `AltsFail`, `ArrayChain`),
* a `*_cases` lemma (every run is out-of-fuel or is described by the relation),
* a converse (`*_of_*`), and the resulting `*_ok_iff` / `*_fail_iff`.
-/
import PestTyped.Lemmas.CursorRun
import PestTyped.Lemmas.ResProj
namespace PestTyped

/-! ### projections (for `decide` examples; `Val` has no decidable equality) -/

def Res.cur? {σ α} : Res σ α → Option Inp
  | .ok i _ _ => some i
  | _ => none

-- `Res.okPos?`, `Res.isOk`, `Res.isFail`: see `Lemmas/ResProj`.

/-- The stack left behind, on success and on failure. -/
def Res.stk? {α} : R α → Option (List Sp)
  | .ok _ m _ => some m.stk
  | .fail m => some m.stk
  | .oof => none

/-- The texts on the stack left behind (top first), on success and on failure. -/
def Res.stkTxt? {α} : R α → Option (List (List Char))
  | .ok _ m _ => some (m.stk.map (·.txt))
  | .fail m => some (m.stk.map (·.txt))
  | .oof => none

def Res.isOof {σ α} : Res σ α → Bool
  | .oof => true
  | _ => false

/-- Number of children of the value built (iterations of a repetition, elements of an array …). -/
def Res.nKids? {σ} : Res σ Val → Option Nat
  | .ok _ _ v => some v.kids.length
  | _ => none

/-- The specials recorded in the tracker left behind. -/
def Res.specials? {α} : R α → Option (List Special)
  | .ok _ m _ => some (m.trk.attempts.flatMap (·.2.specials))
  | .fail m => some (m.trk.attempts.flatMap (·.2.specials))
  | .oof => none

/-- The polarity flag of the tracker left behind. -/
def Res.positive? {α} : R α → Option Bool
  | .ok _ m _ => some m.trk.positive
  | .fail m => some m.trk.positive
  | .oof => none

/-! ### from `parse` to `check` -/

theorem check_ok_iff (g : NodeGrammar) (uni : Uni) (n : Nat) (inh : Bool) (node : Node) (i : Inp) (m : M)
    (i' : Inp) (m' : M) :
    check g uni n inh node i m = .ok i' m' () ↔ ∃ v, parse g uni n inh node i m = .ok i' m' v := by
  rw [check_eq_parse_forget]
  cases parse g uni n inh node i m with
  | oof => simp [Res.forget]
  | fail mf => simp [Res.forget]
  | ok i1 m1 v => simp [Res.forget]

theorem check_fail_iff (g : NodeGrammar) (uni : Uni) (n : Nat) (inh : Bool) (node : Node) (i : Inp) (m : M)
    (m' : M) :
    check g uni n inh node i m = .fail m' ↔ parse g uni n inh node i m = .fail m' := by
  rw [check_eq_parse_forget]
  cases parse g uni n inh node i m with
  | oof => simp [Res.forget]
  | fail mf => simp [Res.forget]
  | ok i1 m1 v => simp [Res.forget]

theorem check_oof_iff (g : NodeGrammar) (uni : Uni) (n : Nat) (inh : Bool) (node : Node) (i : Inp) (m : M) :
    check g uni n inh node i m = .oof ↔ parse g uni n inh node i m = .oof := by
  rw [check_eq_parse_forget]
  cases parse g uni n inh node i m with
  | oof => simp [Res.forget]
  | fail mf => simp [Res.forget]
  | ok i1 m1 v => simp [Res.forget]

/-! ### `restoreOnNone` -/

theorem restoreOnNone_fail {α} {saved : List Sp} {r : R α} {m' : M}
    (h : restoreOnNone saved r = .fail m') : ∃ mf, r = .fail mf ∧ m' = { mf with stk := saved } := by
  cases r with
  | oof => simp [restoreOnNone] at h
  | fail mf => simp [restoreOnNone] at h; exact ⟨mf, rfl, h.symm⟩
  | ok i1 m1 a => simp [restoreOnNone] at h

theorem restoreOnNone_oof {α} {saved : List Sp} {r : R α}
    (h : restoreOnNone saved r = .oof) : r = .oof := by
  cases r <;> simp [restoreOnNone] at h ⊢

/-! ### `repLoop` -/

/-- Iterations `idx, idx+1, …, idx + vs.length - 1` all succeed, each started in the state the
previous one left (cursor and stack and tracker), none of them being iteration number `MAX`;
they produce the values `vs` and leave `(i', m')`. -/
inductive RepIters {α} (unit : Nat → Inp → M → R α) (max : Option Nat) :
    Nat → Inp → M → Inp → M → List α → Prop
  | nil (idx : Nat) (i : Inp) (m : M) : RepIters unit max idx i m i m []
  | cons {idx : Nat} {i : Inp} {m : M} {i1 : Inp} {m1 : M} {a : α} {i' : Inp} {m' : M} {vs : List α} :
      max ≠ some idx → unit idx i m = .ok i1 m1 a → RepIters unit max (idx+1) i1 m1 i' m' vs →
      RepIters unit max idx i m i' m' (a :: vs)

/-- Why the loop stops before iteration `k`, started in `(i1, m1)`, and the state `m'` it leaves:
`k` is `MAX` (nothing is attempted), or the unit fails there; then its stack effects are undone
(the tracker keeps what the failed attempt recorded) and, the cursor being a value, so are its
cursor movements, the pre-iteration skip included. -/
def RepStop {α} (unit : Nat → Inp → M → R α) (max : Option Nat) (k : Nat) (i1 : Inp) (m1 m' : M) : Prop :=
  (max = some k ∧ m' = m1) ∨
  (max ≠ some k ∧ ∃ mf, unit k i1 m1 = .fail mf ∧ m' = { mf with stk := m1.stk })

theorem RepStop.stk {α} {unit : Nat → Inp → M → R α} {max k i1 m1 m'}
    (h : RepStop unit max k i1 m1 m') : m'.stk = m1.stk := by
  rcases h with ⟨_, rfl⟩ | ⟨_, mf, _, rfl⟩ <;> rfl

theorem RepIters.nil_inv {α} {unit : Nat → Inp → M → R α} {max idx i m i' m'}
    (h : RepIters unit max idx i m i' m' []) : i' = i ∧ m' = m := by
  cases h; exact ⟨rfl, rfl⟩

/-- No iteration number in the successful prefix is `MAX`. -/
theorem RepIters.max_bound {α} {unit : Nat → Inp → M → R α} {max idx i m i' m' vs}
    (h : RepIters unit max idx i m i' m' vs) :
    ∀ M, max = some M → idx ≤ M → idx + vs.length ≤ M := by
  induction h with
  | nil idx i m => intro M _ h; simpa using h
  | @cons idx i m i1 m1 a i' m' vs hmax hu _ ih =>
    intro M hM hle
    have hne : idx ≠ M := by
      intro e; subst e; exact hmax hM
    have := ih M hM (by omega)
    simp only [List.length_cons]; omega

/-- The state left by a non-empty successful prefix is the one its last iteration returned. -/
theorem RepIters.last {α} {unit : Nat → Inp → M → R α} {max idx i m i' m' vs}
    (h : RepIters unit max idx i m i' m' vs) (hne : vs ≠ []) :
    ∃ i0 m0 a, unit (idx + vs.length - 1) i0 m0 = .ok i' m' a ∧ vs.getLast? = some a := by
  induction h with
  | nil idx i m => exact absurd rfl hne
  | @cons idx i m i1 m1 a i' m' vs hmax hu hrest ih =>
    cases vs with
    | nil =>
      obtain ⟨rfl, rfl⟩ := hrest.nil_inv
      exact ⟨i, m, a, by simpa using hu, rfl⟩
    | cons b vs' =>
      obtain ⟨i0, m0, a0, h0, hl⟩ := ih (by simp)
      refine ⟨i0, m0, a0, ?_, ?_⟩
      · have e : idx + (a :: b :: vs').length - 1 = idx + 1 + (b :: vs').length - 1 := by
          simp only [List.length_cons]; omega
        rw [e]; exact h0
      · simpa [List.getLast?_cons_cons] using hl

theorem RepIters.adv {α} {unit : Nat → Inp → M → R α} (hu : ∀ idx, AdvFn (unit idx)) {max idx i m i' m' vs}
    (h : RepIters unit max idx i m i' m' vs) : i.Adv i' := by
  induction h with
  | nil idx i m => exact Inp.Adv.refl _
  | cons _ h1 _ ih => exact (hu _ _ _ _ _ _ h1).trans ih

/-- Each value of the prefix is the value of a successful unit run. -/
theorem RepIters.mem {α} {unit : Nat → Inp → M → R α} {max idx i m i' m' vs}
    (h : RepIters unit max idx i m i' m' vs) :
    ∀ a ∈ vs, ∃ j i0 m0 i1 m1, idx ≤ j ∧ j < idx + vs.length ∧ unit j i0 m0 = .ok i1 m1 a := by
  induction h with
  | nil idx i m => intro a ha; cases ha
  | @cons idx i m i1 m1 a i' m' vs hmax hu _ ih =>
    intro b hb
    rcases List.mem_cons.mp hb with rfl | hb
    · exact ⟨idx, i, m, i1, m1, Nat.le_refl _, by simp, hu⟩
    · obtain ⟨j, i0, m0, i2, m2, h1, h2, h3⟩ := ih b hb
      exact ⟨j, i0, m0, i2, m2, by omega, by simp only [List.length_cons]; omega, h3⟩

/-- The successful prefix is deterministic: if the iterations succeed `vs.length` times, then after
any shorter successful prefix the next iteration is not `MAX` and succeeds. -/
theorem RepIters.step_of_longer {α} {unit : Nat → Inp → M → R α} {max idx i m i1 m1 vs}
    (h : RepIters unit max idx i m i1 m1 vs) :
    ∀ {i2 m2 vs'}, RepIters unit max idx i m i2 m2 vs' → vs'.length < vs.length →
      max ≠ some (idx + vs'.length) ∧ ∃ i3 m3 a, unit (idx + vs'.length) i2 m2 = .ok i3 m3 a := by
  induction h with
  | nil idx i m => intro i2 m2 vs' _ hl; simp at hl
  | @cons idx i m i1 m1 a i' m' vs hmax hu _ ih =>
    intro i2 m2 vs' h' hl
    cases h' with
    | nil => exact ⟨by simpa using hmax, i1, m1, a, by simpa using hu⟩
    | @cons _ _ _ j1 n1 b _ _ ws hmax' hu' hrest' =>
      rw [hu] at hu'
      injection hu' with e1 e2 e3
      subst e1; subst e2; subst e3
      have e : idx + (a :: ws).length = idx + 1 + ws.length := by
        simp only [List.length_cons]; omega
      rw [e]
      exact ih hrest' (by simp only [List.length_cons] at hl; omega)

/-- A stop is impossible where a longer successful prefix exists. -/
theorem RepIters.no_stop_of_longer {α} {unit : Nat → Inp → M → R α} {max idx i m i1 m1 vs}
    (h : RepIters unit max idx i m i1 m1 vs) {i2 m2 vs'} (h' : RepIters unit max idx i m i2 m2 vs')
    (hl : vs'.length < vs.length) (m' : M) : ¬ RepStop unit max (idx + vs'.length) i2 m2 m' := by
  obtain ⟨hne, i3, m3, a, hok⟩ := h.step_of_longer h' hl
  rintro (⟨hmax, _⟩ | ⟨_, mf, hf, _⟩)
  · exact hne hmax
  · rw [hok] at hf; cases hf

/-- Every run of the loop is out of fuel or is: a successful prefix, a stop, and the MIN test.
`acc.length = idx` is the invariant `vec.len() = i` of the Rust loop: under it the test after the
`RepeatMinMax` loop (`vec.len() < MIN`) and the test at a failing unit (`i < MIN`) are one test on
the number of successful iterations. -/
theorem repLoop_cases {α} (unit : Nat → Inp → M → R α) (min : Nat) (max : Option Nat) :
    ∀ budget idx i m acc, acc.length = idx →
      repLoop unit min max budget idx i m acc = .oof ∨
      ∃ vs i1 m1 m', RepIters unit max idx i m i1 m1 vs ∧ RepStop unit max (idx + vs.length) i1 m1 m' ∧
        vs.length < budget ∧
        repLoop unit min max budget idx i m acc =
          if idx + vs.length < min then .fail m' else .ok i1 m' (acc.reverse ++ vs) := by
  intro budget
  induction budget with
  | zero => intros; left; rfl
  | succ b ih =>
    intro idx i m acc hlen
    unfold repLoop
    by_cases hmax : max = some idx
    · right
      refine ⟨[], i, m, m, .nil _ _ _, Or.inl ⟨by simpa using hmax, rfl⟩, by simp, ?_⟩
      simp [hmax, repDone_some, hlen]
    · simp only [hmax, if_false]
      cases hu : unit idx i m with
      | oof => left; rfl
      | fail mf =>
        right
        refine ⟨[], i, m, { mf with stk := m.stk }, .nil _ _ _,
          Or.inr ⟨by simpa using hmax, mf, by simpa using hu, rfl⟩, by simp, ?_⟩
        simp only [restoreOnNone, List.length_nil, Nat.add_zero, List.append_nil]
        by_cases hmin : idx < min
        · simp only [hmin, if_true]
        · simp only [hmin, if_false]
          exact repDone_of_le _ _ _ _ _ (by omega)
      | ok i1 m1 a =>
        simp only [restoreOnNone]
        rcases ih (idx+1) i1 m1 (a :: acc) (by simp only [List.length_cons, hlen])
          with h | ⟨vs, i2, m2, m', hI, hS, hb, heq⟩
        · left; exact h
        · right
          have e : idx + (a :: vs).length = idx + 1 + vs.length := by
            simp only [List.length_cons]; omega
          refine ⟨a :: vs, i2, m2, m', .cons hmax hu hI, by rw [e]; exact hS,
            by simp only [List.length_cons]; omega, ?_⟩
          rw [heq, e]
          simp

/-- Converse of `repLoop_cases`. -/
theorem repLoop_of_iters {α} {unit : Nat → Inp → M → R α} {min : Nat} {max : Option Nat}
    {idx i m i1 m1 vs} (hI : RepIters unit max idx i m i1 m1 vs) :
    ∀ {m'}, RepStop unit max (idx + vs.length) i1 m1 m' → ∀ budget acc, acc.length = idx →
      vs.length < budget →
      repLoop unit min max budget idx i m acc =
        if idx + vs.length < min then .fail m' else .ok i1 m' (acc.reverse ++ vs) := by
  induction hI with
  | nil idx i m =>
    intro m' hS budget acc hlen hb
    cases budget with
    | zero => simp at hb
    | succ b =>
      unfold repLoop
      rcases hS with ⟨hmax, rfl⟩ | ⟨hne, mf, hu, rfl⟩
      · simp at hmax; simp [hmax, repDone_some, hlen]
      · simp at hne hu
        simp only [hne, if_false, hu, restoreOnNone, List.length_nil, Nat.add_zero, List.append_nil]
        by_cases hmin : idx < min
        · simp only [hmin, if_true]
        · simp only [hmin, if_false]
          exact repDone_of_le _ _ _ _ _ (by omega)
  | @cons idx i m i1 m1 a i' m' vs hmax hu _ ih =>
    intro mm hS budget acc hlen hb
    cases budget with
    | zero => simp at hb
    | succ b =>
      unfold repLoop
      have e : idx + (a :: vs).length = idx + 1 + vs.length := by
        simp only [List.length_cons]; omega
      rw [e] at hS
      simp only [hmax, if_false, hu, restoreOnNone]
      rw [ih hS b (a :: acc) (by simp only [List.length_cons, hlen])
        (by simp only [List.length_cons] at hb; omega), e]
      simp

theorem repLoop_ok_iff {α} (unit : Nat → Inp → M → R α) (min : Nat) (max : Option Nat)
    (budget idx : Nat) (i : Inp) (m : M) (acc : List α) (hlen : acc.length = idx)
    (i' : Inp) (m' : M) (out : List α) :
    repLoop unit min max budget idx i m acc = .ok i' m' out ↔
      ∃ vs m1, out = acc.reverse ++ vs ∧ RepIters unit max idx i m i' m1 vs ∧
        RepStop unit max (idx + vs.length) i' m1 m' ∧ min ≤ idx + vs.length ∧ vs.length < budget := by
  constructor
  · intro h
    rcases repLoop_cases unit min max budget idx i m acc hlen with h0 | ⟨vs, i1, m1, mm, hI, hS, hb, heq⟩
    · rw [h0] at h; cases h
    · rw [heq] at h
      split at h
      · cases h
      · next hmin =>
        injection h with h1 h2 h3; subst h1; subst h2; subst h3
        exact ⟨vs, m1, rfl, hI, hS, by omega, hb⟩
  · rintro ⟨vs, m1, rfl, hI, hS, hmin, hb⟩
    rw [repLoop_of_iters hI hS budget acc hlen hb, if_neg (by omega)]

theorem repLoop_fail_iff {α} (unit : Nat → Inp → M → R α) (min : Nat) (max : Option Nat)
    (budget idx : Nat) (i : Inp) (m : M) (acc : List α) (hlen : acc.length = idx) (m' : M) :
    repLoop unit min max budget idx i m acc = .fail m' ↔
      ∃ vs i1 m1, RepIters unit max idx i m i1 m1 vs ∧
        RepStop unit max (idx + vs.length) i1 m1 m' ∧ idx + vs.length < min ∧ vs.length < budget := by
  constructor
  · intro h
    rcases repLoop_cases unit min max budget idx i m acc hlen with h0 | ⟨vs, i1, m1, mm, hI, hS, hb, heq⟩
    · rw [h0] at h; cases h
    · rw [heq] at h
      split at h
      · next hmin =>
        injection h with h1; subst h1
        exact ⟨vs, i1, m1, hI, hS, hmin, hb⟩
      · cases h
  · rintro ⟨vs, i1, m1, hI, hS, hmin, hb⟩
    rw [repLoop_of_iters hI hS budget acc hlen hb, if_pos hmin]

/-- With `MIN = 0` the loop never fails. -/
theorem repLoop_min0_ne_fail {α} (unit : Nat → Inp → M → R α) (max : Option Nat)
    (budget idx : Nat) (i : Inp) (m : M) (acc : List α) (m' : M) :
    repLoop unit 0 max budget idx i m acc ≠ .fail m' := by
  induction budget generalizing idx i m acc with
  | zero => intro h; cases h
  | succ b ih =>
    unfold repLoop
    simp only [Nat.not_lt_zero, if_false, repDone_min0]
    split
    · intro h; cases h
    · split
      · intro h; cases h
      · intro h; cases h
      · exact ih _ _ _ _

/-! ### `repUnitP` -/

/-- A successful repetition unit ends exactly where its body ended (cursor and state): the skip
before the body and the body are one unit. -/
theorem repUnitP_ok_iff (skip body : Inp → M → R Val) (dflt : Val) (k idx : Nat) (i : Inp) (m : M)
    (i' : Inp) (m' : M) (v : Val) :
    repUnitP skip body dflt k idx i m = .ok i' m' v ↔
      (idx = 0 ∧ ∃ v0, body i m = .ok i' m' v0 ∧ v = mkSkipped (List.replicate k dflt) v0) ∨
      (idx ≠ 0 ∧ ∃ i1 m1 sk v0, skipLoop skip k i m [] = .ok i1 m1 sk ∧ body i1 m1 = .ok i' m' v0 ∧
        v = mkSkipped sk v0) := by
  unfold repUnitP
  by_cases h0 : idx = 0
  · simp only [h0, if_true, true_and, ne_eq, not_true_eq_false, false_and, or_false]
    cases hb : body i m with
    | oof => simp
    | fail mf => simp
    | ok i1 m1 v0 =>
      simp only [Res.ok.injEq]
      constructor
      · rintro ⟨rfl, rfl, rfl⟩; exact ⟨v0, ⟨rfl, rfl, rfl⟩, rfl⟩
      · rintro ⟨v1, ⟨rfl, rfl, rfl⟩, rfl⟩; exact ⟨rfl, rfl, rfl⟩
  · simp only [h0, if_false, false_and, ne_eq, not_false_eq_true, true_and, false_or]
    cases hs : skipLoop skip k i m [] with
    | oof => simp
    | fail mf => simp
    | ok i1 m1 sk =>
      simp only [Res.ok.injEq]
      cases hb : body i1 m1 with
      | oof =>
        simp only [reduceCtorEq, false_iff, not_exists, not_and]
        rintro i2 m2 sk2 v0 ⟨rfl, rfl, rfl⟩ h; rw [hb] at h; cases h
      | fail mf =>
        simp only [reduceCtorEq, false_iff, not_exists, not_and]
        rintro i2 m2 sk2 v0 ⟨rfl, rfl, rfl⟩ h; rw [hb] at h; cases h
      | ok i2 m2 v0 =>
        simp only [Res.ok.injEq]
        constructor
        · rintro ⟨rfl, rfl, rfl⟩; exact ⟨i1, m1, sk, v0, ⟨rfl, rfl, rfl⟩, hb, rfl⟩
        · rintro ⟨i3, m3, sk3, v3, ⟨rfl, rfl, rfl⟩, h, rfl⟩
          rw [hb] at h; injection h with h1 h2 h3; subst h1; subst h2; subst h3
          exact ⟨rfl, rfl, rfl⟩

/-- A repetition unit fails because its skip fails (never, for the generated skip type) or
because its body fails after the skip. -/
theorem repUnitP_fail_iff (skip body : Inp → M → R Val) (dflt : Val) (k idx : Nat) (i : Inp) (m : M)
    (m' : M) :
    repUnitP skip body dflt k idx i m = .fail m' ↔
      (idx = 0 ∧ body i m = .fail m') ∨
      (idx ≠ 0 ∧ (skipLoop skip k i m [] = .fail m' ∨
        ∃ i1 m1 sk, skipLoop skip k i m [] = .ok i1 m1 sk ∧ body i1 m1 = .fail m')) := by
  unfold repUnitP
  by_cases h0 : idx = 0
  · simp only [h0, if_true, true_and, ne_eq, not_true_eq_false, false_and, or_false]
    cases hb : body i m <;> simp
  · simp only [h0, if_false, false_and, ne_eq, not_false_eq_true, true_and, false_or]
    cases hs : skipLoop skip k i m [] with
    | oof => simp
    | fail mf => simp
    | ok i1 m1 sk =>
      simp only [reduceCtorEq, Res.ok.injEq, false_or]
      constructor
      · intro h
        refine ⟨i1, m1, sk, ⟨rfl, rfl, rfl⟩, ?_⟩
        cases hb : body i1 m1 <;> rw [hb] at h <;> first | exact h | cases h
      · rintro ⟨i2, m2, sk2, ⟨rfl, rfl, rfl⟩, h⟩
        rw [h]

/-! ### `choiceLoop` -/

/-- The alternatives `as` fail one after the other at cursor `i`; each is started with the stack
of `m` (its own stack effects are undone), the tracker is threaded through; `m'` is the state after
the last failure. -/
inductive AltsFail {α} (f : Node → Inp → M → R α) (i : Inp) : List Node → M → M → Prop
  | nil (m : M) : AltsFail f i [] m m
  | cons {a : Node} {as : List Node} {m mf m' : M} :
      f a i m = .fail mf → AltsFail f i as { mf with stk := m.stk } m' → AltsFail f i (a :: as) m m'

theorem AltsFail.stk {α} {f : Node → Inp → M → R α} {i as m m'} (h : AltsFail f i as m m') :
    m'.stk = m.stk := by
  induction h with
  | nil m => rfl
  | cons _ _ ih => exact ih

theorem choiceLoop_cases {α} (f : Node → Inp → M → R α) :
    ∀ as k0 i m,
      choiceLoop f as k0 i m = .oof ∨
      (∃ m', AltsFail f i as m m' ∧ choiceLoop f as k0 i m = .fail m') ∨
      (∃ pre a post m1 i' m' v, as = pre ++ a :: post ∧ AltsFail f i pre m m1 ∧
        f a i m1 = .ok i' m' v ∧ choiceLoop f as k0 i m = .ok i' m' (k0 + pre.length, v)) := by
  intro as
  induction as with
  | nil => intro k0 i m; right; left; exact ⟨m, .nil m, rfl⟩
  | cons a as ih =>
    intro k0 i m
    unfold choiceLoop
    cases hf : f a i m with
    | oof => left; rfl
    | ok i' m' v =>
      right; right
      exact ⟨[], a, as, m, i', m', v, rfl, .nil m, hf, by simp [restoreOnNone]⟩
    | fail mf =>
      simp only [restoreOnNone]
      rcases ih (k0+1) i { mf with stk := m.stk } with h | ⟨m', hA, h⟩ | ⟨pre, b, post, m1, i', m', v, rfl, hA, hb, h⟩
      · left; exact h
      · right; left; exact ⟨m', .cons hf hA, h⟩
      · right; right
        refine ⟨a :: pre, b, post, m1, i', m', v, rfl, .cons hf hA, hb, ?_⟩
        rw [h]; simp only [List.length_cons]
        have : k0 + 1 + pre.length = k0 + (pre.length + 1) := by omega
        rw [this]

theorem choiceLoop_of_fail {α} {f : Node → Inp → M → R α} {i as m m'} (h : AltsFail f i as m m') :
    ∀ k0, choiceLoop f as k0 i m = .fail m' := by
  induction h with
  | nil m => intro k0; rfl
  | cons hf _ ih => intro k0; unfold choiceLoop; simp only [hf, restoreOnNone]; exact ih _

theorem choiceLoop_of_ok {α} {f : Node → Inp → M → R α} {i pre m m1} (h : AltsFail f i pre m m1)
    {a : Node} {i' m' v} (ha : f a i m1 = .ok i' m' v) (post : List Node) :
    ∀ k0, choiceLoop f (pre ++ a :: post) k0 i m = .ok i' m' (k0 + pre.length, v) := by
  induction h with
  | nil m => intro k0; simp only [List.nil_append]; unfold choiceLoop; simp [ha, restoreOnNone]
  | cons hf _ ih =>
    intro k0
    simp only [List.cons_append]
    unfold choiceLoop
    simp only [hf, restoreOnNone]
    rw [ih ha (k0+1)]
    simp only [List.length_cons]
    congr 2; omega

theorem choiceLoop_fail_iff_altsFail {α} (f : Node → Inp → M → R α) (as : List Node) (k0 : Nat) (i : Inp) (m m' : M) :
    choiceLoop f as k0 i m = .fail m' ↔ AltsFail f i as m m' := by
  constructor
  · intro h
    rcases choiceLoop_cases f as k0 i m with h0 | ⟨mm, hA, h1⟩ | ⟨pre, a, post, m1, i', mm, v, _, _, _, h1⟩
    · rw [h0] at h; cases h
    · rw [h1] at h; injection h with h; subst h; exact hA
    · rw [h1] at h; cases h
  · intro h; exact choiceLoop_of_fail h k0

theorem choiceLoop_ok_iff_altsFail {α} (f : Node → Inp → M → R α) (as : List Node) (k0 : Nat) (i : Inp) (m : M)
    (i' : Inp) (m' : M) (k : Nat) (v : α) :
    choiceLoop f as k0 i m = .ok i' m' (k, v) ↔
      ∃ pre a post m1, as = pre ++ a :: post ∧ k = k0 + pre.length ∧ AltsFail f i pre m m1 ∧
        f a i m1 = .ok i' m' v := by
  constructor
  · intro h
    rcases choiceLoop_cases f as k0 i m with h0 | ⟨mm, hA, h1⟩ | ⟨pre, a, post, m1, i1, mm, v1, e, hA, ha, h1⟩
    · rw [h0] at h; cases h
    · rw [h1] at h; cases h
    · rw [h1] at h
      injection h with e1 e2 e3; subst e1; subst e2
      injection e3 with e4 e5; subst e4; subst e5
      exact ⟨pre, a, post, m1, e, rfl, hA, ha⟩
  · rintro ⟨pre, a, post, m1, rfl, rfl, hA, ha⟩
    exact choiceLoop_of_ok hA ha post k0

/-- The start index of `choiceLoop` only shifts the index reported. -/
theorem choiceLoop_forget_idx {α} (f : Node → Inp → M → R α) :
    ∀ as k k' i m, (choiceLoop f as k i m).forget = (choiceLoop f as k' i m).forget := by
  intro as
  induction as with
  | nil => intros; rfl
  | cons a as ih =>
    intro k k' i m
    unfold choiceLoop
    cases f a i m with
    | oof => rfl
    | fail mf => simp only [restoreOnNone]; exact ih _ _ _ _
    | ok i' m' v => rfl

/-- Nodes that are restore points for the stack: a failure of theirs leaves the stack as it was
(`.rep` with `MIN ≤ 1` can only fail in its first iteration). -/
def Node.restoresOnFail : Node → Bool
  | .opt _ => true
  | .choice _ => true
  | .atomicRepeat _ => true
  | .pos _ => true
  | .neg _ => true
  | .rep _ min _ _ => decide (min ≤ 1)
  | _ => false

/-! ### `arrayLoop` -/

/-- Consecutive successful runs of `f`, each started where the previous one ended. -/
inductive ArrayChain {α} (f : Inp → M → R α) : Inp → M → Inp → M → List α → Prop
  | nil (i : Inp) (m : M) : ArrayChain f i m i m []
  | cons {i : Inp} {m : M} {i1 : Inp} {m1 : M} {a : α} {i' : Inp} {m' : M} {vs : List α} :
      f i m = .ok i1 m1 a → ArrayChain f i1 m1 i' m' vs → ArrayChain f i m i' m' (a :: vs)

theorem arrayLoop_cases {α} (f : Inp → M → R α) :
    ∀ k i m acc,
      arrayLoop f k i m acc = .oof ∨
      (∃ vs i' m', vs.length = k ∧ ArrayChain f i m i' m' vs ∧
        arrayLoop f k i m acc = .ok i' m' (acc.reverse ++ vs)) ∨
      (∃ vs i1 m1 mf, vs.length < k ∧ ArrayChain f i m i1 m1 vs ∧ f i1 m1 = .fail mf ∧
        arrayLoop f k i m acc = .fail mf) := by
  intro k
  induction k with
  | zero => intro i m acc; right; left; exact ⟨[], i, m, rfl, .nil i m, by simp [arrayLoop]⟩
  | succ k ih =>
    intro i m acc
    unfold arrayLoop
    cases hf : f i m with
    | oof => left; rfl
    | fail mf => right; right; exact ⟨[], i, m, mf, by simp, .nil i m, hf, rfl⟩
    | ok i1 m1 a =>
      simp only []
      rcases ih i1 m1 (a :: acc) with h | ⟨vs, i', m', hl, hC, h⟩ | ⟨vs, i2, m2, mf, hl, hC, hff, h⟩
      · left; exact h
      · right; left
        refine ⟨a :: vs, i', m', by simp [hl], .cons hf hC, ?_⟩
        rw [h]; simp
      · right; right
        exact ⟨a :: vs, i2, m2, mf, by simp only [List.length_cons]; omega, .cons hf hC, hff, h⟩

theorem arrayLoop_of_chain {α} {f : Inp → M → R α} {i m i' m' vs} (h : ArrayChain f i m i' m' vs) :
    ∀ acc, arrayLoop f vs.length i m acc = .ok i' m' (acc.reverse ++ vs) := by
  induction h with
  | nil i m => intro acc; simp [arrayLoop]
  | cons hf _ ih =>
    intro acc
    simp only [List.length_cons]
    unfold arrayLoop
    simp only [hf]
    rw [ih]; simp

theorem arrayLoop_of_chain_fail {α} {f : Inp → M → R α} {i m i1 m1 vs} (h : ArrayChain f i m i1 m1 vs)
    {mf : M} (hf : f i1 m1 = .fail mf) :
    ∀ k acc, vs.length < k → arrayLoop f k i m acc = .fail mf := by
  induction h with
  | nil i m =>
    intro k acc hk
    cases k with
    | zero => simp at hk
    | succ k => unfold arrayLoop; simp only [hf]
  | cons hok _ ih =>
    intro k acc hk
    cases k with
    | zero => simp at hk
    | succ k =>
      unfold arrayLoop
      simp only [hok]
      exact ih hf k _ (by simp only [List.length_cons] at hk; omega)

theorem arrayLoop_ok_iff {α} (f : Inp → M → R α) (k : Nat) (i : Inp) (m : M) (acc : List α)
    (i' : Inp) (m' : M) (out : List α) :
    arrayLoop f k i m acc = .ok i' m' out ↔
      ∃ vs, out = acc.reverse ++ vs ∧ vs.length = k ∧ ArrayChain f i m i' m' vs := by
  constructor
  · intro h
    rcases arrayLoop_cases f k i m acc with h0 | ⟨vs, i1, m1, hl, hC, h1⟩ | ⟨vs, i1, m1, mf, _, _, _, h1⟩
    · rw [h0] at h; cases h
    · rw [h1] at h; injection h with e1 e2 e3; subst e1; subst e2; subst e3
      exact ⟨vs, rfl, hl, hC⟩
    · rw [h1] at h; cases h
  · rintro ⟨vs, rfl, rfl, hC⟩
    exact arrayLoop_of_chain hC acc

theorem arrayLoop_fail_iff {α} (f : Inp → M → R α) (k : Nat) (i : Inp) (m : M) (acc : List α) (m' : M) :
    arrayLoop f k i m acc = .fail m' ↔
      ∃ vs i1 m1, vs.length < k ∧ ArrayChain f i m i1 m1 vs ∧ f i1 m1 = .fail m' := by
  constructor
  · intro h
    rcases arrayLoop_cases f k i m acc with h0 | ⟨vs, i1, m1, hl, hC, h1⟩ | ⟨vs, i1, m1, mf, hl, hC, hf, h1⟩
    · rw [h0] at h; cases h
    · rw [h1] at h; cases h
    · rw [h1] at h; injection h with e; subst e
      exact ⟨vs, i1, m1, hl, hC, hf⟩
  · rintro ⟨vs, i1, m1, hl, hC, hf⟩
    exact arrayLoop_of_chain_fail hC hf k acc hl

/-! ### the repetition nodes of `parse` -/

theorem repLoop_ok_iff0 {α} (unit : Nat → Inp → M → R α) (min : Nat) (max : Option Nat)
    (budget : Nat) (i : Inp) (m : M) (i' : Inp) (m' : M) (out : List α) :
    repLoop unit min max budget 0 i m [] = .ok i' m' out ↔
      ∃ m1, RepIters unit max 0 i m i' m1 out ∧
        RepStop unit max out.length i' m1 m' ∧ min ≤ out.length ∧ out.length < budget := by
  rw [repLoop_ok_iff unit min max budget 0 i m [] rfl]
  constructor
  · rintro ⟨vs, m1, rfl, hI, hS, hmin, hb⟩
    simp only [Nat.zero_add] at *
    exact ⟨m1, hI, hS, hmin, hb⟩
  · rintro ⟨m1, hI, hS, hmin, hb⟩
    exact ⟨out, m1, by simp, hI, by simpa using hS, by simpa using hmin, hb⟩

theorem repLoop_fail_iff0 {α} (unit : Nat → Inp → M → R α) (min : Nat) (max : Option Nat)
    (budget : Nat) (i : Inp) (m : M) (m' : M) :
    repLoop unit min max budget 0 i m [] = .fail m' ↔
      ∃ vs i1 m1, RepIters unit max 0 i m i1 m1 vs ∧
        RepStop unit max vs.length i1 m1 m' ∧ vs.length < min ∧ vs.length < budget := by
  rw [repLoop_fail_iff unit min max budget 0 i m [] rfl]
  constructor
  · rintro ⟨vs, i1, m1, hI, hS, hmin, hb⟩
    simp only [Nat.zero_add] at *
    exact ⟨vs, i1, m1, hI, hS, hmin, hb⟩
  · rintro ⟨vs, i1, m1, hI, hS, hmin, hb⟩
    exact ⟨vs, i1, m1, hI, by simpa using hS, by simpa using hmin, hb⟩

/-- The unit that the parse path of `.rep sk min max x` iterates (`try_parse_unit`): for
`idx > 0` the `SKIP` implicit skips, then the element; the skip values and the element value are
packed into one `.skipped` value. -/
def parseRepUnit (g : NodeGrammar) (uni : Uni) (fuel : Nat) (inh : Bool) (sk : Flag) (x : Node) :
    Nat → Inp → M → R Val :=
  repUnitP (parse g uni fuel false g.skipped) (parse g uni fuel inh x) (defaultSkipVal g) (skipCount sk inh)

theorem parseRepUnit_adv (g : NodeGrammar) (uni : Uni) (fuel : Nat) (inh : Bool) (sk : Flag) (x : Node)
    (idx : Nat) : AdvFn (parseRepUnit g uni fuel inh sk x idx) :=
  repUnitP_adv _ _ (parse_adv g uni fuel false g.skipped) (parse_adv g uni fuel inh x) _ _ idx

theorem parse_rep_ok_iff (g : NodeGrammar) (uni : Uni) (fuel : Nat) (inh : Bool) (sk : Flag)
    (min : Nat) (max : Option Nat) (x : Node) (i : Inp) (m : M) (i' : Inp) (m' : M) (v : Val) :
    parse g uni (fuel+1) inh (.rep sk min max x) i m = .ok i' m' v ↔
      ∃ vs m1, v = .mk (.rep min max) vs ∧
        RepIters (parseRepUnit g uni fuel inh sk x) max 0 i m i' m1 vs ∧
        RepStop (parseRepUnit g uni fuel inh sk x) max vs.length i' m1 m' ∧
        min ≤ vs.length ∧ vs.length < fuel := by
  simp only [parse]
  have key := repLoop_ok_iff0 (parseRepUnit g uni fuel inh sk x) min max fuel i m
  unfold parseRepUnit at key ⊢
  cases hr : repLoop (repUnitP (parse g uni fuel false g.skipped) (parse g uni fuel inh x)
      (defaultSkipVal g) (skipCount sk inh)) min max fuel 0 i m [] with
  | oof =>
    simp only [reduceCtorEq, false_iff, not_exists, not_and]
    rintro vs m1 rfl hI hS hmin
    intro hb
    have := (key i' m' vs).mpr ⟨m1, hI, hS, hmin, hb⟩
    rw [hr] at this; cases this
  | fail mf =>
    simp only [reduceCtorEq, false_iff, not_exists, not_and]
    rintro vs m1 rfl hI hS hmin
    intro hb
    have := (key i' m' vs).mpr ⟨m1, hI, hS, hmin, hb⟩
    rw [hr] at this; cases this
  | ok i1 m1 vs =>
    simp only [Res.ok.injEq]
    constructor
    · rintro ⟨rfl, rfl, rfl⟩
      obtain ⟨m2, hI, hS, hmin, hb⟩ := (key i1 m1 vs).mp hr
      exact ⟨vs, m2, rfl, hI, hS, hmin, hb⟩
    · rintro ⟨vs', m2, rfl, hI, hS, hmin, hb⟩
      have := (key i' m' vs').mpr ⟨m2, hI, hS, hmin, hb⟩
      rw [hr] at this
      injection this with e1 e2 e3
      subst e1; subst e2; subst e3
      exact ⟨rfl, rfl, rfl⟩

theorem parse_rep_fail_iff (g : NodeGrammar) (uni : Uni) (fuel : Nat) (inh : Bool) (sk : Flag)
    (min : Nat) (max : Option Nat) (x : Node) (i : Inp) (m : M) (m' : M) :
    parse g uni (fuel+1) inh (.rep sk min max x) i m = .fail m' ↔
      ∃ vs i1 m1,
        RepIters (parseRepUnit g uni fuel inh sk x) max 0 i m i1 m1 vs ∧
        RepStop (parseRepUnit g uni fuel inh sk x) max vs.length i1 m1 m' ∧
        vs.length < min ∧ vs.length < fuel := by
  simp only [parse]
  have key := repLoop_fail_iff0 (parseRepUnit g uni fuel inh sk x) min max fuel i m m'
  unfold parseRepUnit at key ⊢
  rw [← key]
  cases repLoop (repUnitP (parse g uni fuel false g.skipped) (parse g uni fuel inh x)
      (defaultSkipVal g) (skipCount sk inh)) min max fuel 0 i m [] <;> simp

/-- `AtomicRepeat` is the `repLoop` with `MIN = 0`, no `MAX`, no skips, a private tracker. -/
theorem parse_atomicRepeat_ok_iff (g : NodeGrammar) (uni : Uni) (fuel : Nat) (inh : Bool)
    (x : Node) (i : Inp) (m : M) (i' : Inp) (m' : M) (v : Val) :
    parse g uni (fuel+1) inh (.atomicRepeat x) i m = .ok i' m' v ↔
      ∃ vs m1 mf, v = .mk .atomicRepeat vs ∧
        RepIters (fun _ i m => parse g uni fuel inh x i m) none 0 i { m with trk := Tracker.new i } i' m1 vs ∧
        parse g uni fuel inh x i' m1 = .fail mf ∧ m' = { stk := m1.stk, trk := m.trk } ∧
        vs.length < atomicBudget fuel := by
  simp only [parse]
  have key := repLoop_ok_iff0 (fun _ i m => parse g uni fuel inh x i m) 0 none (atomicBudget fuel) i
    { m with trk := Tracker.new i }
  cases hr : repLoop (fun _ i m => parse g uni fuel inh x i m) 0 none (atomicBudget fuel) 0 i
      { m with trk := Tracker.new i } [] with
  | oof =>
    simp only [reduceCtorEq, false_iff, not_exists, not_and]
    rintro vs m1 mf rfl hI hf rfl hb
    have := (key i' { mf with stk := m1.stk } vs).mpr
      ⟨m1, hI, Or.inr ⟨by simp, mf, hf, rfl⟩, Nat.zero_le _, hb⟩
    rw [hr] at this; cases this
  | fail mf0 =>
    simp only [reduceCtorEq, false_iff, not_exists, not_and]
    rintro vs m1 mf rfl hI hf rfl hb
    have := (key i' { mf with stk := m1.stk } vs).mpr
      ⟨m1, hI, Or.inr ⟨by simp, mf, hf, rfl⟩, Nat.zero_le _, hb⟩
    rw [hr] at this; cases this
  | ok i1 m1 vs =>
    simp only [Res.ok.injEq]
    constructor
    · rintro ⟨rfl, rfl, rfl⟩
      obtain ⟨m2, hI, hS, _, hb⟩ := (key i1 m1 vs).mp hr
      rcases hS with ⟨h, _⟩ | ⟨_, mf, hf, rfl⟩
      · cases h
      · exact ⟨vs, m2, mf, rfl, hI, hf, rfl, hb⟩
    · rintro ⟨vs', m2, mf, rfl, hI, hf, rfl, hb⟩
      have := (key i' { mf with stk := m2.stk } vs').mpr
        ⟨m2, hI, Or.inr ⟨by simp, mf, hf, rfl⟩, Nat.zero_le _, hb⟩
      rw [hr] at this
      injection this with e1 e2 e3
      subst e1; subst e2; subst e3
      exact ⟨rfl, rfl, rfl⟩

theorem parse_atomicRepeat_ne_fail (g : NodeGrammar) (uni : Uni) (fuel : Nat) (inh : Bool)
    (x : Node) (i : Inp) (m : M) (m' : M) :
    parse g uni fuel inh (.atomicRepeat x) i m ≠ .fail m' := by
  cases fuel with
  | zero => simp [parse]
  | succ fuel =>
    simp only [parse]
    cases hr : repLoop (fun _ i m => parse g uni fuel inh x i m) 0 none (atomicBudget fuel) 0 i
        { m with trk := Tracker.new i } [] with
    | oof => simp
    | fail mf => exact absurd hr (repLoop_min0_ne_fail _ _ _ _ _ _ _ _)
    | ok i1 m1 vs => simp

end PestTyped
